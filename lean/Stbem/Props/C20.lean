import Stbem.Lemmas.EstimSolve
import Stbem.Lemmas.EstimProlong
import Stbem.Props.C06
import Mathlib.Algebra.Module.Defs

/-!
# C20 — the h-h/2 and the hierarchical estimator equal their definitions; `Prolongate` preserves values

Model: `Stbem.Model.Estim` (estimators; the structural constants come from `Stbem.Gen.Consts`, regenerated from
the source text) and `prolongOne` / `prolongate` of `Stbem.Model.Mesh`.

* A. the virtual quartering: the four children in the generated order are the quadrants
  `[LL, LR, UL, UR]` (lower/upper half in time × left/right half in space) and tile the parent;
* B. the sign patterns are, point by point, the time-split, the space-split and the checkerboard function;
* C. `np.repeat(Phi, 4)` is the piecewise-constant extension to the flattened list of children;
* D. hierarchical indicators: per element `|⟨rhs - VΦ, ψ_k⟩|² / ⟨Vψ_k, ψ_k⟩`, the checkerboard contribution shared
  ½–½, non-negative; the code's assertion fails exactly when a scaling is not positive;
* E. h-h/2: the squared value is `dᵀ A d` with `A d = rhs - A PΦ`; it vanishes when `PΦ` solves the fine problem; the fine
  solve of the model is sound AND complete (`solve_complete`: every square injective matrix is solved — the elimination
  pivots by row search —, `solve_none_singular`; determinant form in `Props/C20Solve.lean`), so the `LinAlgError` branch is
  unreachable for an injective fine matrix (`hh2_not_singular`);
* F. `Prolongate`: the value at a fine element is the value at its nearest (in an antichain: unique)
  ancestor-or-self in the coarse list; identity for equal lists; never fails on a well-formed parent table when
  every fine element has a coarse ancestor.  Well-formedness of the table is an invariant of the mesh model.
-/
namespace Stbem.Estim
open Stbem.Gen.Consts

/-! ## A. quartering -/

/-- child `k` of the generated order is (lower,left), (lower,right), (upper,left), (upper,right) -/
theorem quarters_order (r : Rect) : quarters r = [r.LL, r.LR, r.UL, r.UR] := quarters_eq r

/-- the four children are non-degenerate, lie in the parent, cover it and are pairwise disjoint (half-open) -/
theorem quarters_tile (r : Rect) (hp : r.Proper) :
    (∀ q ∈ quarters r, q.Proper ∧ q.Sub r) ∧
    ∀ t x, (r.Contains t x ↔ ∃ q ∈ quarters r, q.Contains t x) ∧
      (quarters r).Pairwise fun a b => ¬(a.Contains t x ∧ b.Contains t x) :=
  ⟨quarters_sub r hp, fun t x => ⟨quarters_cover r t x, quarters_disjoint r t x⟩⟩

example : quarters ⟨0, 1, 0, 2⟩ = [⟨0, 1/2, 0, 1⟩, ⟨0, 1/2, 1, 2⟩, ⟨1/2, 1, 0, 1⟩, ⟨1/2, 1, 1, 2⟩] := by
  decide +kernel

/-! ## B. sign patterns -/

/-- on a point of child `k`, entry `k` of pattern 0 is the time-split function (`+1` on the lower half in time,
`-1` on the upper), of pattern 1 the space-split function, of pattern 2 their product (checkerboard) -/
theorem patterns_meaning (r : Rect) (k : Nat) (q : Rect) (hq : (quarters r)[k]? = some q) (t x : Rat)
    (h : q.Contains t x) :
    patAt 0 k = some (psiT r t) ∧ patAt 1 k = some (psiX r x) ∧ patAt 2 k = some (psiT r t * psiX r x) :=
  patterns_pointwise r k q hq t x h

/-- there are exactly three patterns, one coefficient per child -/
theorem patterns_shape : hierPatterns.length = 3 ∧ ∀ p ∈ hierPatterns, p.length = nKids := by decide

example : (quarters ⟨0, 1, 0, 2⟩)[2]? = some ⟨1/2, 1, 0, 1⟩ ∧ (⟨1/2, 1, 0, 1⟩ : Rect).Contains (3/4) (1/2) ∧
    patAt 0 2 = some (-1) ∧ patAt 1 2 = some 1 ∧ patAt 2 2 = some (-1) := by
  refine ⟨by decide +kernel, by unfold Rect.Contains; norm_num, by decide, by decide, by decide⟩

/-- linearity of the pairings: with `ψ = Σ c_j χ_j` (χ_j the indicator functions of the children),
`⟨data, ψ⟩ = Σ c_j ⟨data, χ_j⟩` and `⟨Vψ, ψ⟩ = cᵀ S c` for `S_ij = ⟨V χ_j, χ_i⟩`: the sums formed by the code are
the pairings of the definition -/
theorem pairing_linear {M : Type} [AddCommGroup M] [Module ℚ M] (L : M → ℚ) (B : M → M → ℚ)
    (hL : ∀ (a b : ℚ) (u w : M), L (a • u + b • w) = a * L u + b * L w)
    (hB1 : ∀ (a b : ℚ) (u w z : M), B (a • u + b • w) z = a * B u z + b * B w z)
    (hB2 : ∀ (a b : ℚ) (z u w : M), B z (a • u + b • w) = a * B z u + b * B z w)
    (χ0 χ1 χ2 χ3 : M) (c0 c1 c2 c3 : ℚ) :
    let ψ := c0 • χ0 + c1 • χ1 + c2 • χ2 + c3 • χ3
    L ψ = dot [c0, c1, c2, c3] [L χ0, L χ1, L χ2, L χ3] ∧
    B ψ ψ = dot [c0, c1, c2, c3] (mulVec
      [[B χ0 χ0, B χ1 χ0, B χ2 χ0, B χ3 χ0], [B χ0 χ1, B χ1 χ1, B χ2 χ1, B χ3 χ1],
       [B χ0 χ2, B χ1 χ2, B χ2 χ2, B χ3 χ2], [B χ0 χ3, B χ1 χ3, B χ2 χ3, B χ3 χ3]] [c0, c1, c2, c3]) := by
  intro ψ
  have e : ψ = (1 : ℚ) • ((1 : ℚ) • (c0 • χ0 + c1 • χ1) + c2 • χ2) + c3 • χ3 := by
    simp only [ψ, one_smul]
  have hL3 : ∀ u, L ((1 : ℚ) • ((1 : ℚ) • (c0 • χ0 + c1 • χ1) + c2 • χ2) + c3 • χ3) =
      c0 * L χ0 + c1 * L χ1 + c2 * L χ2 + c3 * L χ3 + 0 * L u := by
    intro u; rw [hL, hL, hL]; ring
  constructor
  · rw [e, hL3 χ0]
    simp only [dot_cons, dot_nil_left]; ring
  · rw [e, hB1, hB1, hB1, hB2, hB2, hB2, hB2, hB2, hB2, hB2, hB2, hB2, hB2, hB2, hB2]
    simp only [mulVec, List.map_cons, List.map_nil, dot_cons, dot_nil_left]; ring

/-! ## C. prolongation by repetition -/

/-- the repeat factor is the number of children per element -/
theorem repeat_is_nKids : repeatFactor = nKids := rfl

/-- fine element `j` is child `j % 4` of coarse element `j / 4`, lies inside it, and `np.repeat(Phi, 4)` carries
at `j` the value of `Phi` at that coarse element -/
theorem repeat4_is_extension (coarse : List Rect) (phi : List Rat) (hlen : phi.length = coarse.length)
    (hp : ∀ r ∈ coarse, r.Proper) :
    (fineRects coarse).length = 4 * coarse.length ∧ (prolong4 phi).length = 4 * coarse.length ∧
    ∀ (j : Nat) (q : Rect), (fineRects coarse)[j]? = some q →
      ∃ r v, coarse[j / 4]? = some r ∧ (quarters r)[j % 4]? = some q ∧ q.Sub r ∧
        phi[j / 4]? = some v ∧ (prolong4 phi)[j]? = some v := by
  refine ⟨fineRects_length coarse, by rw [prolong4_length, hlen], ?_⟩
  intro j q hq
  have hj : 4 * (j / 4) + j % 4 = j := Nat.div_add_mod j 4
  have hk : j % 4 < 4 := Nat.mod_lt _ (by omega)
  have hq' : (fineRects coarse)[4 * (j / 4) + j % 4]? = some q := by rw [hj]; exact hq
  rw [fineRects_get coarse (j / 4) (j % 4) hk] at hq'
  clear hq
  rename' hq' => hq
  cases hr : coarse[j / 4]? with
  | none => rw [hr] at hq; cases hq
  | some r =>
    rw [hr] at hq
    simp only [Option.bind_some] at hq
    have hi : j / 4 < coarse.length := by
      by_contra hn
      rw [List.getElem?_eq_none (by omega)] at hr
      cases hr
    have hrm : r ∈ coarse := List.mem_of_getElem? hr
    have hqm : q ∈ quarters r := List.mem_of_getElem? hq
    refine ⟨r, phi[j / 4]'(by omega), rfl, hq, ((quarters_sub r (hp r hrm)) q hqm).2,
      List.getElem?_eq_getElem _, ?_⟩
    have hpg := prolong4_get phi (j / 4) (j % 4) hk
    rw [hj] at hpg
    rw [hpg]
    exact List.getElem?_eq_getElem _

example : prolong4 [5, 7] = [5, 5, 5, 5, 7, 7, 7, 7] := by decide +kernel

/-! ## D. hierarchical indicators -/

/-- `⟨Vψ, ψ⟩ = cᵀ S c` -/
def scaling (c : List Int) (S : List (List Rat)) : Rat := dot (patRat c) (mulVec S (patRat c))

/-- `|⟨rhs - VΦ, ψ⟩|² / ⟨Vψ, ψ⟩` from the entries on the four children -/
def indicator (c : List Int) (rhs4 v4 : List Rat) (S : List (List Rat)) : Rat :=
  dot (patRat c) (vsub rhs4 v4) ^ 2 / scaling c S

def pT : List Int := [1, 1, -1, -1]
def pX : List Int := [1, -1, 1, -1]
def pC : List Int := [1, -1, -1, 1]

/-- the three patterns used are the generated ones -/
theorem patterns_are : hierPatterns = [pT, pX, pC] := rfl

/-- entry `k` of the block of element `i` is the entry of the fine vector at position `4 i + k`, i.e. at child `k`
of element `i` (see `repeat4_is_extension` for the positions of the children) -/
theorem slice_is_block (l : List Rat) (i k : Nat) (hk : k < 4) : (slice l i)[k]? = l[4 * i + k]? :=
  slice_get l i k hk

/-- per element: all three scalings are positive and the two indicators are
`(e_T + ½ e_C, e_X + ½ e_C)` with `e_ψ = |⟨rhs - VΦ, ψ⟩|² / ⟨Vψ, ψ⟩` -/
theorem hier_def {mat : List (List Rat)} {phi : List Rat} {g m0 : Option (List Rat)}
    {Ss : List (List (List Rat))} {out : List (List Rat)}
    (hg : ∀ v, g = some v → v.length = mat.length) (hm : ∀ v, m0 = some v → v.length = mat.length)
    (h : hierEstimate mat phi g m0 Ss = .ok out) :
    out.length = Ss.length ∧ ∀ (i : Nat) S, Ss[i]? = some S →
      0 < scaling pT S ∧ 0 < scaling pX S ∧ 0 < scaling pC S ∧
      out[i]? = some
        [indicator pT (slice (mkRhs mat.length g m0) i) (slice (mulVec mat phi) i) S +
           1 / 2 * indicator pC (slice (mkRhs mat.length g m0) i) (slice (mulVec mat phi) i) S,
         indicator pX (slice (mkRhs mat.length g m0) i) (slice (mulVec mat phi) i) S +
           1 / 2 * indicator pC (slice (mkRhs mat.length g m0) i) (slice (mulVec mat phi) i) S] := by
  unfold hierEstimate at h
  obtain ⟨h1, h2⟩ := mapM_except_ok _ _ _ h
  refine ⟨by simpa using h1, ?_⟩
  intro i S hS
  have hi : i < Ss.length := by
    by_contra hn
    rw [List.getElem?_eq_none (by omega)] at hS
    cases hS
  have hz : (List.zip (List.range Ss.length) Ss)[i]? = some (i, S) := by
    rw [List.getElem?_zip_eq_some]
    exact ⟨by simp [hi], hS⟩
  obtain ⟨b, hb, hf⟩ := h2 i (i, S) hz
  simp only [bind, Except.bind, pure, Except.pure] at hf
  split at hf
  · cases hf
  · rename_i es hes
    cases hf
    obtain ⟨e0, e1, e2, rfl, g0, g1, g2⟩ := hierLocal_ok hes
    obtain ⟨s0, rfl⟩ := hierOne_ok g0
    obtain ⟨s1, rfl⟩ := hierOne_ok g1
    obtain ⟨s2, rfl⟩ := hierOne_ok g2
    have hl : (slice (mkRhs mat.length g m0) i).length = (slice (mulVec mat phi) i).length :=
      slice_length_eq (by rw [mkRhs_length _ _ _ hg hm, mulVec_length])
    refine ⟨s0, s1, s2, ?_⟩
    rw [hb, hierCombineLoc_eq]
    simp only [indicator, scaling, dot_vsub _ hl, pT, pX, pC]

/-- the indicators are non-negative -/
theorem hier_nonneg {mat : List (List Rat)} {phi : List Rat} {g m0 : Option (List Rat)}
    {Ss : List (List (List Rat))} {out : List (List Rat)}
    (h : hierEstimate mat phi g m0 Ss = .ok out) : ∀ row ∈ out, ∀ e ∈ row, 0 ≤ e := by
  unfold hierEstimate at h
  obtain ⟨h1, h2⟩ := mapM_except_ok _ _ _ h
  intro row hrow e he
  obtain ⟨i, hi, rfl⟩ := List.getElem_of_mem hrow
  have hi' : i < (List.zip (List.range Ss.length) Ss).length := by omega
  obtain ⟨b, hb, hf⟩ := h2 i _ (List.getElem?_eq_getElem hi')
  rw [List.getElem?_eq_getElem hi] at hb
  have hb' : out[i] = b := Option.some.inj hb
  rw [hb'] at he
  clear hb hb'
  simp only [bind, Except.bind, pure, Except.pure] at hf
  split at hf
  · cases hf
  · rename_i es hes
    cases hf
    obtain ⟨e0, e1, e2, rfl, g0, g1, g2⟩ := hierLocal_ok hes
    have n0 := hierOne_nonneg g0
    have n1 := hierOne_nonneg g1
    have n2 := hierOne_nonneg g2
    rw [hierCombineLoc_eq] at he
    simp only [List.mem_cons, List.not_mem_nil, or_false] at he
    rcases he with rfl | rfl <;> linarith

/-- the checkerboard contribution is shared half–half: the two indicators of an element add up to
`e_T + e_X + e_C` -/
theorem hier_share (e0 e1 e2 : Rat) :
    hierCombineLoc [e0, e1, e2] = [e0 + 1 / 2 * e2, e1 + 1 / 2 * e2] ∧
    (hierCombineLoc [e0, e1, e2]).sum = e0 + e1 + e2 := by
  rw [hierCombineLoc_eq]
  refine ⟨rfl, ?_⟩
  simp only [List.sum_cons, List.sum_nil]; ring

/-- the only way the routine fails is the assertion `scaling_estim > 0` -/
theorem hier_assert {mat : List (List Rat)} {phi : List Rat} {g m0 : Option (List Rat)}
    {Ss : List (List (List Rat))} (hpos : ∀ S ∈ Ss, 0 < scaling pT S ∧ 0 < scaling pX S ∧ 0 < scaling pC S) :
    ∃ out, hierEstimate mat phi g m0 Ss = .ok out := by
  unfold hierEstimate
  have key : ∀ (l : List (Nat × List (List Rat))), (∀ p ∈ l, p.2 ∈ Ss) →
      ∃ out, l.mapM (fun p => do
        let e ← hierLocal (slice (mkRhs mat.length g m0) p.1) (slice (mulVec mat phi) p.1) p.2
        pure (hierCombineLoc e)) = Except.ok out := by
    intro l
    induction l with
    | nil => intro _; exact ⟨[], rfl⟩
    | cons p l ih =>
      intro hl
      obtain ⟨out, ho⟩ := ih (fun q hq => hl q (by simp [hq]))
      obtain ⟨a, b, c⟩ := hpos p.2 (hl p (by simp))
      rw [List.mapM_cons, ho]
      have : ∃ es, hierLocal (slice (mkRhs mat.length g m0) p.1) (slice (mulVec mat phi) p.1) p.2 =
          .ok es := by
        unfold hierLocal
        rw [patterns_are]
        simp only [List.mapM_cons, List.mapM_nil]
        rw [hierOne_of_pos a, hierOne_of_pos b, hierOne_of_pos c]
        exact ⟨_, rfl⟩
      obtain ⟨es, hes⟩ := this
      rw [hes]
      exact ⟨_, rfl⟩
  exact key _ (fun p hp => (List.of_mem_zip hp).2)

def S0 : List (List Rat) := [[4, 1, 1, 1], [1, 4, 1, 1], [1, 1, 4, 1], [1, 1, 1, 4]]

/-- one element, `VΦ = (2,2,2,2)`, data `(1,2,3,4)`: `e_T = 16/12`, `e_X = 4/12`, `e_C = 0` -/
example : hierEstimate [[1], [1], [1], [1]] [2] (some [1, 2, 3, 4]) none [S0] = .ok [[4 / 3, 1 / 3]] := by
  decide +kernel

/-- a non-positive scaling trips the assertion -/
example : hierEstimate [[1], [1], [1], [1]] [2] none none [[[0, 0, 0, 0], [0, 0, 0, 0], [0, 0, 0, 0], [0, 0, 0, 0]]]
    = .error "assert:scaling" := by decide +kernel

/-! ## E. h-h/2 -/

/-- `solve` only returns solutions -/
theorem solve_spec {A : List (List Rat)} {b y : List Rat} (h : solve A b = some y) :
    mulVec A y = b ∧ y.length = b.length := ⟨(solve_sound h).1, (solve_sound h).2.1⟩

/-- **completeness of the fine solve** (full statement; formerly `solve_complete_partial`).  The elimination of the
model searches the remaining rows for one with a non-zero leading entry (it pivots: a zero in a diagonal position is
no obstacle, see the example below), so no hypothesis beyond regularity is needed: for a square matrix that is
injective on vectors (equivalently `det ≠ 0`, `injOn_iff_det_ne_zero` in `Props/C20Solve.lean`) and every right-hand
side, `solve` returns a vector, that vector solves the system, and it is the only solution. -/
theorem solve_complete {A : List (List Rat)} {b : List Rat} (hsq : A.length = b.length)
    (hrow : ∀ r ∈ A, r.length = b.length) (hinj : InjOn A b.length) :
    ∃ y, solve A b = some y ∧ mulVec A y = b ∧ y.length = b.length ∧
      ∀ p, mulVec A p = b → p.length = b.length → y = p := by
  obtain ⟨y, hy, h1, h2⟩ := solve_complete' hsq hrow hinj
  exact ⟨y, hy, h1, h2, fun _ hp hpl => solve_unique hinj hy hp hpl⟩

/-- `none` (the `LinAlgError` branch of the model) only for singular matrices -/
theorem solve_none_singular {A : List (List Rat)} {b : List Rat} (hsq : A.length = b.length)
    (hrow : ∀ r ∈ A, r.length = b.length) (h : solve A b = none) : ¬InjOn A b.length := by
  intro hinj
  obtain ⟨y, hy, -⟩ := solve_complete' hsq hrow hinj
  rw [hy] at h
  cases h

/-- whatever `solve` returns is the only solution of an injective system (no shape hypotheses) -/
theorem solve_unique_solution {A : List (List Rat)} {b y : List Rat} (hinj : InjOn A b.length)
    (h : solve A b = some y) : ∀ p, mulVec A p = b → p.length = b.length → y = p :=
  fun _ hp hpl => solve_unique hinj h hp hpl

/-- a regular matrix with a zero in the first diagonal position is solved (row search = pivoting); a singular one
is refused -/
example : solve [[0, 1], [1, 0]] [2, 3] = some [3, 2] ∧ solve [[0, 2, 1], [0, 0, 3], [5, 1, 1]] [1, 3, 2] = some [1/5, 0, 1] ∧
    solve [[1, 2], [2, 4]] [1, 0] = none := by decide +kernel

/-- the squared estimator is `dᵀ A d` where `d = y - PΦ`, `y` solves the fine problem `A y = rhs`, hence
`A d = rhs - A PΦ` is the fine residual of the extension -/
theorem hh2_def {A : List (List Rat)} {phi : List Rat} {g m0 : Option (List Rat)} {v : Rat}
    (h : hh2Sq A phi g m0 = .ok v) :
    ∃ y, mulVec A y = mkRhs A.length g m0 ∧ (prolong4 phi).length = y.length ∧
      mulVec A (vsub y (prolong4 phi)) = vsub (mkRhs A.length g m0) (mulVec A (prolong4 phi)) ∧
      v = dot (vsub y (prolong4 phi)) (mulVec A (vsub y (prolong4 phi))) := by
  obtain ⟨y, -, a, b, c, d⟩ := hh2Sq_ok h
  exact ⟨y, a, b, c, d⟩

/-- the estimator vanishes when the extension already solves the fine problem (fine matrix injective) -/
theorem hh2_zero {A : List (List Rat)} {phi : List Rat} {g m0 : Option (List Rat)} {v : Rat}
    (hinj : InjOn A (mkRhs A.length g m0).length)
    (hsolves : mulVec A (prolong4 phi) = mkRhs A.length g m0)
    (h : hh2Sq A phi g m0 = .ok v) : v = 0 := hh2Sq_zero hinj hsolves h

/-- … or, without any hypothesis on the matrix, when the fine solve returns the extension -/
theorem hh2_zero_of_solve {A : List (List Rat)} {phi : List Rat} {g m0 : Option (List Rat)} {v : Rat}
    (hy : solve A (mkRhs A.length g m0) = some (prolong4 phi))
    (h : hh2Sq A phi g m0 = .ok v) : v = 0 := hh2Sq_zero' hy h

/-- the run succeeds whenever the fine solve does and shapes fit; in particular the assertion
`Phi_prolong[0] == Phi_prolong[1]` never fails -/
theorem hh2_runs {A : List (List Rat)} {phi : List Rat} {g m0 : Option (List Rat)} {y : List Rat}
    (hy : solve A (mkRhs A.length g m0) = some y) (hne : phi ≠ []) (hl : (prolong4 phi).length = y.length) :
    hh2Sq A phi g m0 = .ok (dot (vsub y (prolong4 phi)) (mulVec A (vsub y (prolong4 phi)))) :=
  hh2Sq_of_solve hy hne hl

def A0 : List (List Rat) := [[2, 0, 0, 0], [0, 2, 0, 0], [0, 0, 2, 0], [0, 0, 0, 2]]

example : hh2Sq A0 [1] (some [1, 1, 1, 1]) none = .ok 2 := by decide +kernel
example : hh2Sq [[2, 1, 0, 0], [1, 2, 0, 0], [0, 0, 2, 1], [0, 0, 1, 3]] [1] (some [3, 1, 0, 1]) (some [0, -2, -3, -3])
    = .ok 0 := by decide +kernel
example : solve A0 [1, 1, 1, 1] = some [1/2, 1/2, 1/2, 1/2] := by decide +kernel

theorem A0_inj : InjOn A0 4 := by
  intro y y' hy hy' h
  match y, hy, y', hy' with
  | [a, b, c, d], _, [a', b', c', d'], _ =>
    simp only [A0, mulVec, List.map_cons, List.map_nil, dot_cons, dot_nil_left, List.cons.injEq, and_true] at h
    obtain ⟨h1, h2, h3, h4⟩ := h
    have e1 : a = a' := by linarith
    have e2 : b = b' := by linarith
    have e3 : c = c' := by linarith
    have e4 : d = d' := by linarith
    rw [e1, e2, e3, e4]

/-- the hypotheses of `solve_complete` are satisfiable -/
example : A0.length = [1, 1, 1, (1 : Rat)].length ∧ (∀ r ∈ A0, r.length = [1, 1, 1, (1 : Rat)].length) ∧
    InjOn A0 [1, 1, 1, (1 : Rat)].length := ⟨rfl, by decide, A0_inj⟩

/-- for a square injective fine matrix (C13: positive definite ⇒ injective) and data vectors of the right length the
run never takes the `LinAlgError` branch -/
theorem hh2_not_singular {A : List (List Rat)} {phi : List Rat} {g m0 : Option (List Rat)}
    (hrow : ∀ r ∈ A, r.length = A.length) (hg : ∀ v, g = some v → v.length = A.length)
    (hm : ∀ v, m0 = some v → v.length = A.length) (hinj : InjOn A A.length) :
    hh2Sq A phi g m0 ≠ .error "singular" := by
  have hl := mkRhs_length A.length g m0 hg hm
  obtain ⟨y, hy, -⟩ := solve_complete' (A := A) (b := mkRhs A.length g m0) hl.symm
    (by rw [hl]; exact hrow) (by rw [hl]; exact hinj)
  unfold hh2Sq
  simp only [hy]
  split
  · split
    · decide
    · split
      · decide
      · intro h; cases h
  · decide

example : (∀ r ∈ A0, r.length = A0.length) ∧ InjOn A0 A0.length := ⟨by decide, A0_inj⟩

/-- the hypotheses of `hh2_zero` are satisfiable -/
example : hh2Sq A0 [1/2] (some [1, 1, 1, 1]) none = .ok 0 ∧ InjOn A0 (mkRhs A0.length (some [1, 1, 1, 1]) none).length ∧
    mulVec A0 (prolong4 [1/2]) = mkRhs A0.length (some [1, 1, 1, 1]) none :=
  ⟨by decide +kernel, A0_inj, by decide +kernel⟩

end Stbem.Estim

namespace Stbem.Mesh

/-! ## F. `Prolongate` -/

/-- the parent table is well formed initially and stays so under every operation of the model -/
theorem kidsWF_init (glue : Bool) (X T : List Rat) : KidsWF (init glue X T) := init_kidsWF glue X T

theorem kidsWF_refineId (m : Mesh) (h : Inv m) (hW : KidsWF m) (id : Nat) (ax : Ax) (m' : Mesh)
    (hr : refineId m id ax = .ok m') : Inv m' ∧ KidsWF m' :=
  ⟨(refineId_inv' h hr).1, refineId_kidsWF h hW hr⟩

theorem kidsWF_preserved :
    (∀ m ids ax m', Inv m ∧ KidsWF m → refineAll m ids ax = .ok m' → Inv m' ∧ KidsWF m') ∧
    (∀ m id r, Inv m ∧ KidsWF m → refineBoth m id = .ok r → Inv r.1 ∧ KidsWF r.1) ∧
    (∀ m m', Inv m ∧ KidsWF m → uniformRefine m = .ok m' → Inv m' ∧ KidsWF m') ∧
    (∀ m m', Inv m ∧ KidsWF m → uniformRefineSpace m = .ok m' → Inv m' ∧ KidsWF m') ∧
    (∀ m eta perm θ m', Inv m ∧ KidsWF m → dorflerIso m eta perm θ = .ok m' → Inv m' ∧ KidsWF m') ∧
    (∀ m eta θ m', Inv m ∧ KidsWF m → dorflerAniso m eta θ = .ok m' → Inv m' ∧ KidsWF m') ∧
    (∀ fixed fuel m p q K m', Inv m ∧ KidsWF m → grading fixed fuel m p q K = .ok m' → Inv m' ∧ KidsWF m') :=
  ⟨fun _ _ _ _ h hr => gen_refineAll (fun a b c => refineId_kidsWF a b c) h hr,
    fun _ _ _ h hr => gen_refineBoth (fun a b c => refineId_kidsWF a b c) h hr,
    fun _ _ h hr => gen_uniformRefine (fun a b c => refineId_kidsWF a b c) h hr,
    fun _ _ h hr => gen_uniformRefineSpace (fun a b c => refineId_kidsWF a b c) h hr,
    fun _ _ _ _ _ h hr => gen_dorflerIso (fun a b c => refineId_kidsWF a b c) h hr,
    fun _ _ _ _ h hr => gen_dorflerAniso (fun a b c => refineId_kidsWF a b c) h hr,
    fun fixed fuel _ _ _ _ _ h hr => gen_grading (fun a b c => refineId_kidsWF a b c) fixed fuel h hr⟩

/-- on a well-formed table the recorded parent of a leaf is what the table returns, parents have smaller
indices than their children, so that parent chains are finite -/
theorem parent_table (m : Mesh) (hW : KidsWF m) :
    (∀ c ∈ m.leaves, parentOf m c.id = c.par) ∧ ∀ id p, parentOf m id = some p → p < id ∧ id < m.nElems :=
  ⟨hW.par, fun _ _ h => parentOf_lt hW h⟩

/-- `Prolongate`: entry `j` of the result is the entry of `vec` at the position of the nearest ancestor-or-self
`a` of `fine[j]` in the coarse list; `a` is an ancestor-or-self, belongs to the list, and every other
ancestor-or-self in the list lies above `a` -/
theorem prolongate_spec {m : Mesh} {coarse : List Nat} {vec : List Rat} {fine : List Nat} {out : List Rat}
    (h : prolongate m coarse vec fine = some out) :
    out.length = fine.length ∧ ∀ (j : Nat) id, fine[j]? = some id →
      ∃ a i v, Anc m id a ∧ a ∈ coarse ∧ (∀ b, Anc m id b → b ∈ coarse → Anc m a b) ∧
        coarse.idxOf? a = some i ∧ vec[i]? = some v ∧ out[j]? = some v := by
  obtain ⟨h1, h2⟩ := prolongate_sound h
  refine ⟨h1, ?_⟩
  intro j id hj
  obtain ⟨a, i, v, g1, g2, g3, g4⟩ := h2 j id hj
  exact ⟨a, i, v, g1.anc.1, g1.anc.2, g1.first, g2, g3, g4⟩

/-- if no coarse element is a proper ancestor of another one, the coarse ancestor-or-self is unique: the value
at a fine element is the value at its unique coarse ancestor -/
theorem prolongate_unique {m : Mesh} {coarse : List Nat} {vec : List Rat} {fine : List Nat} {out : List Rat}
    (hA : Antichain m coarse) (h : prolongate m coarse vec fine = some out) (j id : Nat)
    (hj : fine[j]? = some id) (b : Nat) (hb : Anc m id b) (hbc : b ∈ coarse) :
    ∃ i, coarse.idxOf? b = some i ∧ out[j]? = vec[i]? := by
  obtain ⟨a, i, v, g1, g2, g3, g4⟩ := (prolongate_sound h).2 j id hj
  have : b = a := g1.unique hA b hb hbc
  subst this
  exact ⟨i, g2, by rw [g3, g4]⟩

/-- no assertion fails when every fine element has an ancestor-or-self in the coarse list -/
theorem prolongate_runs {m : Mesh} (hW : KidsWF m) {coarse : List Nat} {vec : List Rat} {fine : List Nat}
    (hlen : vec.length = coarse.length) (hfine : ∀ id ∈ fine, id < m.nElems + 1)
    (hanc : ∀ id ∈ fine, ∃ b ∈ coarse, Anc m id b) :
    ∃ out, prolongate m coarse vec fine = some out := prolongate_total hW hlen hfine hanc

/-- coarse = fine: the identity -/
theorem prolongate_same (m : Mesh) {coarse : List Nat} {vec : List Rat} (hnd : coarse.Nodup)
    (hlen : vec.length = coarse.length) : prolongate m coarse vec coarse = some vec :=
  prolongate_id m hnd hlen

/-! ### non-vacuity: root `1` of `mesh3` bisected in time (`3, 4`), then `3` in space (`5, 6`) -/

def mesh3r : Except String Mesh := do
  let m ← refineId mesh3 1 .time
  refineId m 3 .space

theorem mesh3r_runs : (match mesh3r with | .ok _ => true | .error _ => false) = true := by decide +kernel

theorem mesh3r_ok : ∃ m, mesh3r = .ok m ∧ Inv m ∧ KidsWF m := by
  have hrun := mesh3r_runs
  cases h : mesh3r with
  | error e => rw [h] at hrun; cases hrun
  | ok m =>
    refine ⟨m, rfl, ?_⟩
    unfold mesh3r at h
    simp only [bind, Except.bind] at h
    split at h
    · cases h
    · rename_i m1 h1
      obtain ⟨i1, w1⟩ := kidsWF_refineId _ mesh3_inv (kidsWF_init _ _ _) _ _ _ h1
      exact kidsWF_refineId _ i1 w1 _ _ _ h

/-- coarse list = roots `0, 1, 2` with values `10, 20, 30`; the fine elements `5, 6, 4` descend from `1`,
`0` and `2` are their own ancestors -/
example : (mesh3r.toOption.bind fun m => prolongate m [0, 1, 2] [10, 20, 30] [0, 2, 4, 5, 6]) =
    some [10, 30, 20, 20, 20] := by decide +kernel

/-- coarse list = the antichain `0, 2, 3, 4` (leaves before the second bisection) -/
example : (mesh3r.toOption.bind fun m => prolongate m [0, 2, 3, 4] [1, 2, 3, 4] [0, 2, 4, 5, 6]) =
    some [1, 2, 4, 3, 3] := by decide +kernel

/-- a fine element without coarse ancestor trips `assert elem_coarse.parent` -/
example : (mesh3r.toOption.bind fun m => prolongate m [3, 4] [1, 2] [0]) = none := by decide +kernel

end Stbem.Mesh
