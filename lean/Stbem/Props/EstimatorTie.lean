import Stbem.Lemmas.EstimatorGenAccum
import Stbem.Props.C09

/-!
# EstimatorTie — the logic of `src/error_estimator.py` REGENERATED FROM THE SOURCE equals the hand-written estimator model

`Stbem.Gen.EstimatorGen` is produced on every run by `translate/estimatorgen.py` from the bodies of
`ErrorEstimator.__integrate_h_1_2`, `__integrate_h_1_4`, `sobolev_space`, `sobolev_time`, `weighted_l2`,
`estimate_weighted_l2`, `estimate_sobolev` and the three pool worker functions (Python `ast` → Lean `do` blocks, statement by
statement in the order of the source).  The seminorm routines of `src/norms.py`, `np.allclose`, `sqrt`, the residual, the
pool's `map` stay parameters, exactly as `Stbem.Model.Estimator` treats them.

Section 1 proves that every generated definition is the corresponding definition of the hand-written model — for ALL inputs,
errors included.  Hypotheses, where they occur: the outer Gauss rule is well-formed (as many weights as points) and, for
`__integrate_h_1_2` (whose assertions sit inside the loop over the Gauss points), non-empty; a pool `map` returns one result per
argument.  Section 2 binds `self.__integrate_*` to the translated private methods; section 3 restates the results of
`Props/C09.lean` for the generated functions (shortcut = definition on every mesh with the invariant, the patches, the
same-piece seam witness, weighted-L2 scaling, pool = serial).  If the source changes the neighbour walk, the symmetry skip, a
patch bound, the left / right / seam decision, which routine is called with which arguments, or who is credited in the
accumulation, these theorems no longer check.
-/
namespace Stbem.EstimatorTie
open Stbem.Mesh Stbem.Estimator Stbem.EstimatorConv
open Stbem.Gen Stbem.Gen.EstimatorGen

set_option linter.unusedSimpArgs false

/-! ## 1. the generated definitions equal the hand-written ones -/

/-- `__integrate_h_1_4(residual, t_a, t_b, x_a, x_b, gamma)`: `h_x · Σ_i w_i · seminorm_h_1_4(slo_i, t_a, t_b)` with `slo_i` the
closure over `(residual, x_a + h_x p_i, gamma)` — the hand model's `integrateH14` (outer rule well-formed: as many weights as
points) -/
theorem gen_integrate_h_1_4_eq (self : ErrorEstimator) (hwf : self.gauss.points.length = self.gauss.weights.length)
    (s14 : (Rat → Rat → Nat → Rat) → Rat → Nat → Rat → Rat → Rat) (residual : Rat → Rat → Nat → Rat)
    (ta tb xa xb : Rat) (gamma : Nat) :
    integrate_h_1_4 self (fun r x g a b => .ok (s14 r x g a b)) residual ta tb xa xb gamma =
      .ok (integrateH14 (ruleOf self) (fun x a b pc => s14 residual x pc a b) ⟨ta, tb, xa, xb, gamma⟩) := by
  unfold integrate_h_1_4
  simp only [affine_points]
  rw [forIn_enum_set0 _ (fun x => s14 residual x gamma ta tb) ?_ _ _ ?_]
  · simp [ok_bind, QuadGen.npLen, hwf, integrateH14, ruleOf, npDot_eq_dot, List.map_map, Function.comp_def]
  · intro x r; rfl
  · simp [QuadGen.npLen, hwf]

/-- `__integrate_h_1_2(residual, t_a, t_b, elem_left, elem_right)`: the three-way branch (`elem_right is None` / same piece /
two pieces), the `np.allclose` assertion, `h_t · Σ_i w_i · seminorm(residual_t_i, …)` — the hand model's `integrateH12`.  The
assertion of the two-piece routine (`assert:pw-touch` of the hand model) is raised by the external routine.  The assertions
sit inside the loop over the Gauss points: the outer rule must have a point for them to be evaluated. -/
theorem gen_integrate_h_1_2_eq (self : ErrorEstimator) (hwf : self.gauss.points.length = self.gauss.weights.length)
    (hne : self.gauss.points ≠ []) (closes : Rat → Rat → Bool)
    (s12 : (Rat → Rat → Nat → Rat) → Rat → Rat → Rat → Nat → Rat)
    (s12pw : (Rat → Rat → Nat → Rat) → Rat → Rat → Rat → Nat → Rat → Rat → Nat → Rat)
    (residual : Rat → Rat → Nat → Rat) (ta tb : Rat) (l : Cell) (r : Option Cell) :
    integrate_h_1_2 self (fun rs t a b g => .ok (s12 rs t a b g))
      (fun rs t a1 b1 g1 a2 b2 g2 => if closes b1 a2 = true then .ok (s12pw rs t a1 b1 g1 a2 b2 g2) else .error "assert:pw-touch")
      (fun _ a b => closes a b) residual ta tb l r =
    integrateH12 (ruleOf self) closes (semOf (s12 residual) (s12pw residual)) ⟨ta, tb, l, r⟩ := by
  have hne' : (self.gauss.points.map fun q => ta + (tb - ta) * q) ≠ [] := by simpa using hne
  have hlen : (self.gauss.points.map fun q => ta + (tb - ta) * q).length ≤
      (List.replicate (QuadGen.npLen self.gauss.weights) (0 : Rat)).length := by simp [QuadGen.npLen, hwf]
  unfold integrate_h_1_2 integrateH12 h12Call
  simp only [affine_points]
  cases r with
  | none =>
    simp only []
    rw [forIn_enum_set0 _ (fun t => s12 residual t l.x0 l.x1 l.piece) ?_ _ _ hlen]
    · simp [ok_bind, QuadGen.npLen, hwf, ruleOf, semOf, npDot_eq_dot, List.map_map, Function.comp_def]
    · intro x r; rfl
  | some r =>
    simp only []
    by_cases hp : l.piece = r.piece
    · by_cases hc : closes l.x1 r.x0 = true
      · simp only [hp, hc, if_true, assertThat_true]
        rw [forIn_enum_set0 _ (fun t => s12 residual t l.x0 r.x1 r.piece) ?_ _ _ hlen]
        · simp [ok_bind, QuadGen.npLen, hwf, ruleOf, semOf, npDot_eq_dot, List.map_map, Function.comp_def]
        · intro x r; rfl
      · simp only [hp, hc, if_true, if_false]
        rw [forIn_enum_error _ "assert:allclose" _ hne' _ ?_]
        · rfl
        · intro x r; simp [assertThat, hc]; rfl
    · by_cases hc : closes l.x1 r.x0 = true
      · simp only [hp, hc, if_true, if_false]
        rw [forIn_enum_set0 _ (fun t => s12pw residual t l.x0 l.x1 l.piece r.x0 r.x1 r.piece) ?_ _ _ hlen]
        · simp [ok_bind, QuadGen.npLen, hwf, ruleOf, semOf, npDot_eq_dot, List.map_map, Function.comp_def]
        · intro x r; rfl
      · simp only [hp, hc, if_false]
        rw [forIn_enum_error _ "assert:pw-touch" _ hne' _ ?_]
        · rfl
        · intro x r; rfl

/-- `sobolev_space(elem, residual, nbrs_symmetry)`: the neighbour list `[elem] + edges[1].neighbour_elements() +
edges[3].neighbour_elements()`, the `glob_idx` skip, `t_a / t_b`, the assertion, the five-way left / right / seam decision, the
call of `__integrate_h_1_2`, `len(ips) >= 1`, the `fsum` — the hand model's `sobolevLoop (evSpace …)` on `spaceNbrs`, for EVERY
function `F` standing for `self.__integrate_h_1_2` -/
theorem gen_sobolev_space_eq (self : ErrorEstimator)
    (F : (Rat → Rat → Nat → Rat) → Rat → Rat → Cell → Option Cell → Except String Rat) (elem : Cell)
    (residual : Rat → Rat → Nat → Rat) (sym : Bool) :
    sobolev_space self F elem residual sym =
      sobolevLoop (evSpace self.gamma_len fun p => F residual p.ta p.tb p.left p.right) sym elem
        (spaceNbrs self.bdr_mesh elem) := by
  unfold sobolev_space sobolevLoop
  simp only [edgesAxis, pure_bind, List.forIn_cons, List.forIn_nil, neighbourElements]
  rw [forIn_ips _ (fun n => sym && decide (elem.id > n.id))
    (evSpace self.gamma_len (fun p => F residual p.ta p.tb p.left p.right) elem) ?_]
  · have hn : [elem] ++ nbrs self.bdr_mesh elem Side.right ++ nbrs self.bdr_mesh elem Side.left =
        spaceNbrs self.bdr_mesh elem := by simp [spaceNbrs]
    rw [hn, bind_assoc]
    exact loop_tail _
  · intro n r
    by_cases hs : sym = true ∧ elem.id > n.id
    · rw [if_pos hs, if_pos (skip_true hs)]
    · rw [if_neg hs, if_neg (show ¬ ((sym && decide (elem.id > n.id)) = true) by rw [skip_false hs]; simp)]
      unfold evSpace spacePatch
      by_cases ht : max n.t0 elem.t0 < min n.t1 elem.t1
      · rw [assertThat_true _ ht]
        simp only [ht, not_true_eq_false, if_false, ok_bind]
        split_ifs <;> (simp_all [ok_bind, assertThat_true, assertThat_false]; try rfl)
      · rw [assertThat_false _ ht]
        simp only [ht, not_false_eq_true, if_true, error_bind]

/-- `sobolev_time(elem, residual, nbrs_symmetry)` — the hand model's `sobolevLoop (evTime …)` on `timeNbrs`, for EVERY function
`F` standing for `self.__integrate_h_1_4` -/
theorem gen_sobolev_time_eq (self : ErrorEstimator)
    (F : (Rat → Rat → Nat → Rat) → Rat → Rat → Rat → Rat → Nat → Except String Rat) (elem : Cell)
    (residual : Rat → Rat → Nat → Rat) (sym : Bool) :
    sobolev_time self F elem residual sym =
      sobolevLoop (evTime fun p => F residual p.ta p.tb p.xa p.xb p.piece) sym elem (timeNbrs self.bdr_mesh elem) := by
  unfold sobolev_time sobolevLoop
  simp only [edgesAxis, pure_bind, List.forIn_cons, List.forIn_nil, neighbourElements]
  rw [forIn_ips _ (fun n => sym && decide (elem.id > n.id)) (evTime (fun p => F residual p.ta p.tb p.xa p.xb p.piece) elem) ?_]
  · have hn : [elem] ++ nbrs self.bdr_mesh elem Side.bottom ++ nbrs self.bdr_mesh elem Side.top =
        timeNbrs self.bdr_mesh elem := by simp [timeNbrs]
    rw [hn, bind_assoc]
    exact loop_tail _
  · intro n r
    by_cases hs : sym = true ∧ elem.id > n.id
    · rw [if_pos hs, if_pos (skip_true hs)]
    · rw [if_neg hs, if_neg (show ¬ ((sym && decide (elem.id > n.id)) = true) by rw [skip_false hs]; simp)]
      unfold evTime timePatch
      by_cases hp : elem.piece = n.piece
      · rw [assertThat_true _ hp]
        by_cases hx : max n.x0 elem.x0 < min n.x1 elem.x1
        · rw [assertThat_true _ hx]
          simp [hp, hx, ok_bind]
        · rw [assertThat_false _ hx]
          simp [hp, hx, error_bind]
          rfl
      · rw [assertThat_false _ hp]
        simp [hp, error_bind]

/-- `weighted_l2(elem, residual)`: the tensor rule mapped to the element, `residual²`, the two scalings — the hand model's
`weightedL2` with `sqrt(elem.h_t)` the value of the external `sqrt` -/
theorem gen_weighted_l2_eq (m : Mesh) (L : Rat) (g : Rule) (pts : List (Rat × Rat)) (wts : List Rat) (sqrt : Rat → Rat)
    (c : Cell) (r : Rat → Rat → Nat → Rat) :
    weighted_l2 (estOf m L g pts wts) sqrt c r = .ok (weightedL2 pts wts r (sqrt (c.t1 - c.t0)) c) := by
  unfold weighted_l2 weightedL2 estOf
  simp [QuadGen.npRow, QuadGen.npSA, QuadGen.npArray, QuadGen.npPow, npMapR, npDot_eq_dot, List.map_map, Function.comp_def,
    List.zipWith_map_left, List.zipWith_map_right, List.zipWith_self, pure, Except.pure]

/-- the worker functions `MP_estim_*(i)`: element `i` of the global list (`IndexError` otherwise), then the method with
`nbrs_symmetry=True` — the hand model's `workerAt` -/
theorem gen_MP_estim_sobolev_time_eq (elems : List Cell) (self : ErrorEstimator) (residual : Rat → Rat → Nat → Rat)
    (F : (Rat → Rat → Nat → Rat) → Rat → Rat → Rat → Rat → Nat → Except String Rat) (i : Nat) :
    MP_estim_sobolev_time elems self residual F i =
      workerAt elems (fun e => sobolevLoop (evTime fun p => F residual p.ta p.tb p.xa p.xb p.piece) true e
        (timeNbrs self.bdr_mesh e)) i := by
  unfold MP_estim_sobolev_time workerAt getIdx
  cases elems[i]? with
  | none => rfl
  | some e => simp only [gen_sobolev_time_eq, ok_bind, pure_bind, bind_pure]

theorem gen_MP_estim_sobolev_space_eq (elems : List Cell) (self : ErrorEstimator) (residual : Rat → Rat → Nat → Rat)
    (F : (Rat → Rat → Nat → Rat) → Rat → Rat → Cell → Option Cell → Except String Rat) (i : Nat) :
    MP_estim_sobolev_space elems self residual F i =
      workerAt elems (fun e => sobolevLoop (evSpace self.gamma_len fun p => F residual p.ta p.tb p.left p.right) true e
        (spaceNbrs self.bdr_mesh e)) i := by
  unfold MP_estim_sobolev_space workerAt getIdx
  cases elems[i]? with
  | none => rfl
  | some e => simp only [gen_sobolev_space_eq, ok_bind, pure_bind, bind_pure]

theorem gen_MP_estim_l2_eq (elems : List Cell) (m : Mesh) (L : Rat) (g : Rule) (pts : List (Rat × Rat)) (wts : List Rat)
    (residual : Rat → Rat → Nat → Rat) (sqrt : Rat → Rat) (i : Nat) :
    MP_estim_l2 elems (estOf m L g pts wts) residual sqrt i =
      workerAt elems (fun e => .ok (weightedL2 pts wts residual (sqrt (e.t1 - e.t0)) e)) i := by
  unfold MP_estim_l2 workerAt getIdx
  cases elems[i]? with
  | none => rfl
  | some e => simp only [gen_weighted_l2_eq, ok_bind, pure_bind, bind_pure]

/-- `estimate_sobolev(elems, residual)`, serial path: all `sobolev_time` calls, all `sobolev_space` calls (with
`nbrs_symmetry=True`), the dictionary `glob_2_loc`, the accumulation loop with its `glob_idx` test — the hand model's
`estimateSobolev` (errors included), for EVERY pair of functions standing for `self.__integrate_h_1_4 / __integrate_h_1_2` -/
theorem gen_estimate_sobolev_serial_eq (self : ErrorEstimator)
    (F12 : (Rat → Rat → Nat → Rat) → Rat → Rat → Cell → Option Cell → Except String Rat)
    (F14 : (Rat → Rat → Nat → Rat) → Rat → Rat → Rat → Rat → Nat → Except String Rat) (cpu : Nat)
    (pmap : {β : Type} → (Nat → Except String β) → Nat → Nat → List (Except String β))
    (elems : List Cell) (residual : Rat → Rat → Nat → Rat) :
    estimate_sobolev self F12 F14 cpu pmap elems residual false =
      estimateSobolev self.bdr_mesh (evTime fun p => F14 residual p.ta p.tb p.xa p.xb p.piece)
        (evSpace self.gamma_len fun p => F12 residual p.ta p.tb p.left p.right) elems := by
  unfold estimate_sobolev estimateSobolev
  simp only [Bool.false_eq_true, not_false_eq_true, if_true, bind_pure, gen_sobolev_time_eq, gen_sobolev_space_eq]
  cases hst : List.mapM (fun elem => sobolevLoop (evTime fun p => F14 residual p.ta p.tb p.xa p.xb p.piece) true elem
      (timeNbrs self.bdr_mesh elem)) elems with
  | error e => rfl
  | ok st =>
    cases hss : List.mapM (fun elem => sobolevLoop (evSpace self.gamma_len fun p => F12 residual p.ta p.tb p.left p.right)
        true elem (spaceNbrs self.bdr_mesh elem)) elems with
    | error e => rfl
    | ok ss =>
      simp only [ok_bind, pure_bind]
      exact accum_loop_eq elems st ss (mapM_length _ _ _ hst) (mapM_length _ _ _ hss) _ (fun x a => rfl)

/-- `estimate_sobolev(elems, residual, use_mp=True)`: the module globals, `mp.cpu_count()`, the chunk size
`N // (cpu * 8) + 1`, the two pool maps of the worker functions, the same accumulation — the hand model's
`estimateSobolevPool`, for every pool `map` that returns one result per argument -/
theorem gen_estimate_sobolev_pool_eq (self : ErrorEstimator)
    (F12 : (Rat → Rat → Nat → Rat) → Rat → Rat → Cell → Option Cell → Except String Rat)
    (F14 : (Rat → Rat → Nat → Rat) → Rat → Rat → Rat → Rat → Nat → Except String Rat) (cpu : Nat)
    (pmap : {β : Type} → (Nat → Except String β) → Nat → Nat → List (Except String β))
    (hpmap : ∀ {β : Type} (f : Nat → Except String β) (N c : Nat), (pmap f N c).length = N)
    (elems : List Cell) (residual : Rat → Rat → Nat → Rat) :
    estimate_sobolev self F12 F14 cpu pmap elems residual true =
      estimateSobolevPool (fun f N c => pmap f N c) cpu self.bdr_mesh
        (evTime fun p => F14 residual p.ta p.tb p.xa p.xb p.piece)
        (evSpace self.gamma_len fun p => F12 residual p.ta p.tb p.left p.right) elems := by
  unfold estimate_sobolev estimateSobolevPool poolMap
  have e1 : MP_estim_sobolev_time elems self residual F14 = workerAt elems (fun e =>
      sobolevLoop (evTime fun p => F14 residual p.ta p.tb p.xa p.xb p.piece) true e (timeNbrs self.bdr_mesh e)) :=
    funext fun i => gen_MP_estim_sobolev_time_eq elems self residual F14 i
  have e2 : MP_estim_sobolev_space elems self residual F12 = workerAt elems (fun e =>
      sobolevLoop (evSpace self.gamma_len fun p => F12 residual p.ta p.tb p.left p.right) true e
        (spaceNbrs self.bdr_mesh e)) :=
    funext fun i => gen_MP_estim_sobolev_space_eq elems self residual F12 i
  simp only [not_true_eq_false, if_false, bind_pure, e1, e2]
  cases hst : List.mapM id (pmap (workerAt elems fun e => sobolevLoop (evTime fun p => F14 residual p.ta p.tb p.xa p.xb p.piece)
      true e (timeNbrs self.bdr_mesh e)) elems.length (elems.length / (cpu * 8) + 1)) with
  | error e => rfl
  | ok st =>
    cases hss : List.mapM id (pmap (workerAt elems fun e => sobolevLoop (evSpace self.gamma_len fun p =>
        F12 residual p.ta p.tb p.left p.right) true e (spaceNbrs self.bdr_mesh e)) elems.length
        (elems.length / (cpu * 8) + 1)) with
    | error e => rfl
    | ok ss =>
      simp only [ok_bind, pure_bind]
      exact accum_loop_eq elems st ss ((mapM_length _ _ _ hst).trans (hpmap _ _ _))
        ((mapM_length _ _ _ hss).trans (hpmap _ _ _)) _ (fun x a => rfl)

/-- `estimate_weighted_l2(elems, residual)`, serial path: `weighted_l2` of every element, in the order of the list -/
theorem gen_estimate_weighted_l2_serial_eq (m : Mesh) (L : Rat) (g : Rule) (pts : List (Rat × Rat)) (wts : List Rat)
    (sqrt : Rat → Rat) (cpu : Nat) (pmap : {β : Type} → (Nat → Except String β) → Nat → Nat → List (Except String β))
    (elems : List Cell) (r : Rat → Rat → Nat → Rat) :
    estimate_weighted_l2 (estOf m L g pts wts) sqrt cpu pmap elems r false =
      .ok (elems.map fun e => weightedL2 pts wts r (sqrt (e.t1 - e.t0)) e) := by
  unfold estimate_weighted_l2
  simp only [Bool.false_eq_true, not_false_eq_true, if_true, bind_pure, gen_weighted_l2_eq, mapM_ok_map, ok_bind, pure_bind]

/-- … and the pool path (`mp.Pool(cpu).map(MP_estim_l2, range(N), N // (8 * cpu) + 1)`) for an order-preserving pool `map` -/
theorem gen_estimate_weighted_l2_pool_eq (m : Mesh) (L : Rat) (g : Rule) (pts : List (Rat × Rat)) (wts : List Rat)
    (sqrt : Rat → Rat) (cpu : Nat) (pmap : {β : Type} → (Nat → Except String β) → Nat → Nat → List (Except String β))
    (hpmap : ∀ {β : Type} (f : Nat → Except String β) (N c : Nat), 1 ≤ c → pmap f N c = (List.range N).map f)
    (elems : List Cell) (r : Rat → Rat → Nat → Rat) :
    estimate_weighted_l2 (estOf m L g pts wts) sqrt cpu pmap elems r true =
      .ok (elems.map fun e => weightedL2 pts wts r (sqrt (e.t1 - e.t0)) e) := by
  unfold estimate_weighted_l2 poolMap
  have e1 : MP_estim_l2 elems (estOf m L g pts wts) r sqrt =
      workerAt elems (fun e => .ok (weightedL2 pts wts r (sqrt (e.t1 - e.t0)) e)) :=
    funext fun i => gen_MP_estim_l2_eq elems m L g pts wts r sqrt i
  simp only [not_true_eq_false, if_false, bind_pure, e1]
  rw [hpmap _ _ _ (Nat.le_add_left 1 _), mapM_map_id, mapM_range_workerAt, mapM_ok_map]

/-! ## 2. the private methods bound to the translated ones (what the class does) -/

/-- `sobolev_space` with `self.__integrate_h_1_2` bound to the translated `__integrate_h_1_2`: the hand model's loop over
`evSpace L (integrateH12 …)` with the seminorm routines as tokens -/
theorem gen_sobolev_space_bound_eq (self : ErrorEstimator) (hwf : self.gauss.points.length = self.gauss.weights.length)
    (hne : self.gauss.points ≠ []) (closes : Rat → Rat → Bool)
    (s12 : (Rat → Rat → Nat → Rat) → Rat → Rat → Rat → Nat → Rat)
    (s12pw : (Rat → Rat → Nat → Rat) → Rat → Rat → Rat → Nat → Rat → Rat → Nat → Rat)
    (elem : Cell) (residual : Rat → Rat → Nat → Rat) (sym : Bool) :
    sobolev_space self (integrate_h_1_2 self (fun rs t a b g => .ok (s12 rs t a b g))
        (fun rs t a1 b1 g1 a2 b2 g2 => if closes b1 a2 = true then .ok (s12pw rs t a1 b1 g1 a2 b2 g2) else .error "assert:pw-touch")
        (fun _ a b => closes a b)) elem residual sym =
      sobolevLoop (evSpace self.gamma_len (integrateH12 (ruleOf self) closes (semOf (s12 residual) (s12pw residual)))) sym elem
        (spaceNbrs self.bdr_mesh elem) := by
  rw [gen_sobolev_space_eq]
  congr 2
  funext p
  rw [gen_integrate_h_1_2_eq self hwf hne]

theorem gen_sobolev_time_bound_eq (self : ErrorEstimator) (hwf : self.gauss.points.length = self.gauss.weights.length)
    (s14 : (Rat → Rat → Nat → Rat) → Rat → Nat → Rat → Rat → Rat) (elem : Cell) (residual : Rat → Rat → Nat → Rat) (sym : Bool) :
    sobolev_time self (integrate_h_1_4 self fun r x g a b => .ok (s14 r x g a b)) elem residual sym =
      sobolevLoop (evTime fun p => .ok (integrateH14 (ruleOf self) (fun x a b pc => s14 residual x pc a b) p)) sym elem
        (timeNbrs self.bdr_mesh elem) := by
  rw [gen_sobolev_time_eq]
  congr 2
  funext p
  rw [gen_integrate_h_1_4_eq self hwf]

/-! ## 3. the theorems of `Props/C09.lean` for the generated-from-source functions -/

/-- **shortcut = definition for the generated `estimate_sobolev`** on every mesh with the invariant `Inv`, for arbitrary
values `tokT`, `tokS` of the two patch integrals as functions of the arguments handed to `__integrate_h_1_4 /
__integrate_h_1_2`: no assertion fires, no `KeyError`, and the assembled array is, entry by entry, the sum over the element
and each of its neighbours — which is also what the generated `sobolev_time / sobolev_space` return without the shortcut -/
theorem gen_accumulate_eq_direct_mesh (self : ErrorEstimator) (h : Inv self.bdr_mesh) (hg : self.bdr_mesh.glue = true)
    (h0 : self.bdr_mesh.xmin = 0) (hL : self.bdr_mesh.xmax = self.gamma_len) (brk : Nat → Rat)
    (hb : PiecesOK brk self.bdr_mesh) (tokT : TimePatch → Rat) (tokS : SpacePatch → Rat) (cpu : Nat)
    (pmap : {β : Type} → (Nat → Except String β) → Nat → Nat → List (Except String β))
    (elems : List Cell) (hnd : elems.Nodup) (hmem : ∀ c, c ∈ elems ↔ c ∈ self.bdr_mesh.leaves)
    (residual : Rat → Rat → Nat → Rat) :
    let F12 := fun (_ : Rat → Rat → Nat → Rat) ta tb l r => (Except.ok (tokS ⟨ta, tb, l, r⟩) : Except String Rat)
    let F14 := fun (_ : Rat → Rat → Nat → Rat) ta tb xa xb pc => (Except.ok (tokT ⟨ta, tb, xa, xb, pc⟩) : Except String Rat)
    estimate_sobolev self F12 F14 cpu pmap elems residual false =
      .ok (elems.map fun c => (lsum ((timeNbrs self.bdr_mesh c).map (pairT tokT c)),
        lsum ((spaceNbrs self.bdr_mesh c).map (pairS self.gamma_len tokS c)))) ∧
    (elems.mapM fun c => do
      let t ← sobolev_time self F14 c residual false
      let s ← sobolev_space self F12 c residual false
      pure (t.1, s.1)) = estimate_sobolev self F12 F14 cpu pmap elems residual false := by
  intro F12 F14
  have hm := accumulate_eq_direct_mesh self.bdr_mesh h hg self.gamma_len h0 hL brk hb tokT tokS elems hnd hmem
  have hs := gen_estimate_sobolev_serial_eq self F12 F14 cpu pmap elems residual
  have hd : (elems.mapM fun c => do
      let t ← sobolev_time self F14 c residual false
      let s ← sobolev_space self F12 c residual false
      pure (t.1, s.1)) = directSobolev self.bdr_mesh (evTime fun p => .ok (tokT p)) (evSpace self.gamma_len fun p => .ok (tokS p))
        elems := by
    unfold directSobolev
    simp only [gen_sobolev_time_eq, gen_sobolev_space_eq]
    rfl
  constructor
  · rw [hs]; exact hm.1.trans hm.2
  · rw [hd, hs]; exact hm.1.symm

/-- the process-pool path of the generated `estimate_sobolev` returns what its serial path returns, for every worker count,
provided the pool's `map` returns the results in argument order -/
theorem gen_pool_eq_serial (self : ErrorEstimator)
    (F12 : (Rat → Rat → Nat → Rat) → Rat → Rat → Cell → Option Cell → Except String Rat)
    (F14 : (Rat → Rat → Nat → Rat) → Rat → Rat → Rat → Rat → Nat → Except String Rat) (cpu : Nat)
    (pmap : {β : Type} → (Nat → Except String β) → Nat → Nat → List (Except String β))
    (hpmap : ∀ {β : Type} (f : Nat → Except String β) (N c : Nat), 1 ≤ c → pmap f N c = (List.range N).map f)
    (elems : List Cell) (residual : Rat → Rat → Nat → Rat) :
    estimate_sobolev self F12 F14 cpu pmap elems residual true = estimate_sobolev self F12 F14 cpu pmap elems residual false := by
  rw [gen_estimate_sobolev_serial_eq, ← pool_eq_serial (fun f N c => pmap f N c) (fun f N c hc => hpmap f N c hc) cpu]
  unfold estimate_sobolev estimateSobolevPool poolMap
  have e1 : MP_estim_sobolev_time elems self residual F14 = workerAt elems (fun e =>
      sobolevLoop (evTime fun p => F14 residual p.ta p.tb p.xa p.xb p.piece) true e (timeNbrs self.bdr_mesh e)) :=
    funext fun i => gen_MP_estim_sobolev_time_eq elems self residual F14 i
  have e2 : MP_estim_sobolev_space elems self residual F12 = workerAt elems (fun e =>
      sobolevLoop (evSpace self.gamma_len fun p => F12 residual p.ta p.tb p.left p.right) true e
        (spaceNbrs self.bdr_mesh e)) :=
    funext fun i => gen_MP_estim_sobolev_space_eq elems self residual F12 i
  simp only [not_true_eq_false, if_false, bind_pure, e1, e2]
  rw [hpmap _ _ _ (Nat.le_add_left 1 _), hpmap _ _ _ (Nat.le_add_left 1 _)]
  cases hst : List.mapM id ((List.range elems.length).map (workerAt elems fun e => sobolevLoop
      (evTime fun p => F14 residual p.ta p.tb p.xa p.xb p.piece) true e (timeNbrs self.bdr_mesh e))) with
  | error e => rfl
  | ok st =>
    cases hss : List.mapM id ((List.range elems.length).map (workerAt elems fun e => sobolevLoop
        (evSpace self.gamma_len fun p => F12 residual p.ta p.tb p.left p.right) true e (spaceNbrs self.bdr_mesh e))) with
    | error e => rfl
    | ok ss =>
      simp only [ok_bind, pure_bind]
      exact accum_loop_eq elems st ss ((mapM_length _ _ _ hst).trans (by simp))
        ((mapM_length _ _ _ hss).trans (by simp)) _ (fun x a => rfl)

/-- `weighted_l2` of the generated code returns `(‖r‖² / √h_t, ‖r‖² / h_x)` (with `elemQuad` the tensor rule mapped to the
element, applied to `residual²`), for every function `sqrt` with `sqrt(h_t)² = h_t` -/
theorem gen_weighted_l2_scaling (m : Mesh) (L : Rat) (g : Rule) (pts : List (Rat × Rat)) (wts : List Rat) (sqrt : Rat → Rat)
    (c : Cell) (r : Rat → Rat → Nat → Rat) (hx : c.x0 < c.x1) (hs : sqrt (c.t1 - c.t0) * sqrt (c.t1 - c.t0) = c.t1 - c.t0)
    (hs0 : sqrt (c.t1 - c.t0) ≠ 0) :
    weighted_l2 (estOf m L g pts wts) sqrt c r =
      .ok (elemQuad pts wts r c / sqrt (c.t1 - c.t0), elemQuad pts wts r c / (c.x1 - c.x0)) := by
  rw [gen_weighted_l2_eq]
  have := weighted_l2_scaling pts wts r (sqrt (c.t1 - c.t0)) c hx hs hs0
  rw [← this.1, ← this.2]

/-- **the time patches of the generated `sobolev_time`**: on every mesh with the invariant, for an element `c` the generated
method (without the shortcut) raises no assertion and hands to `__integrate_h_1_4`, for the element itself and for every
neighbour `n` across `t = t0 / t1`, (union of the two time intervals) × (intersection of the two space intervals) and the
piece of `c` (`time_patch_spec` of `Props/C09.lean`: the intersection has positive length, the union is an interval, both
elements lie on that piece) -/
theorem gen_sobolev_time_patches (self : ErrorEstimator) (h : Inv self.bdr_mesh) (brk : Nat → Rat)
    (hb : PiecesOK brk self.bdr_mesh) (c : Cell) (hc : c ∈ self.bdr_mesh.leaves)
    (F : (Rat → Rat → Nat → Rat) → Rat → Rat → Rat → Rat → Nat → Except String Rat) (residual : Rat → Rat → Nat → Rat) :
    sobolev_time self F c residual false =
      ((timeNbrs self.bdr_mesh c).mapM (fun n => do
        let v ← F residual (min n.t0 c.t0) (max n.t1 c.t1) (max n.x0 c.x0) (min n.x1 c.x1) c.piece
        pure (n.id, v)) >>= fun ips => pure (lsum (ips.map (·.2)), ips)) := by
  rw [gen_sobolev_time_eq]
  unfold sobolevLoop
  have hfil : (timeNbrs self.bdr_mesh c).filter (fun n => !(false && decide (c.id > n.id))) = timeNbrs self.bdr_mesh c := by
    simp
  rw [hfil]
  rw [mapM_congr_mem (timeNbrs self.bdr_mesh c) (g := fun n => do
    let v ← F residual (min n.t0 c.t0) (max n.t1 c.t1) (max n.x0 c.x0) (min n.x1 c.x1) c.piece
    pure (n.id, v)) ?_]
  · cases hm : List.mapM (fun n => do
        let v ← F residual (min n.t0 c.t0) (max n.t1 c.t1) (max n.x0 c.x0) (min n.x1 c.x1) c.piece
        pure (n.id, v)) (timeNbrs self.bdr_mesh c) with
    | error e => rfl
    | ok ips =>
      have hl := mapM_length _ _ _ hm
      have : ¬ ips.length < 1 := by rw [hl]; simp [timeNbrs]
      simp only [ok_bind, this, if_false]
  · intro n hn
    obtain ⟨p, hp⟩ := timePatch_defined h hb hc hn
    unfold evTime
    rw [hp, timePatch_val hp]
    rfl

/-- **the space patch of the generated code** (`space_patch_spec_partial` of `Props/C09.lean`): for an element `c` and a
neighbour `n ≠ c` across `x = x1 / x0` (seam included) the pair evaluation of the generated `sobolev_space` hands
`(common time interval, left, right)` to `__integrate_h_1_2`, and the generated `__integrate_h_1_2` (outer rule well-formed and
non-empty, `np.allclose` = `closesCurve`) passes its assertion and evaluates ONE seminorm call at every Gauss point which —
unless the two elements are adjacent through the seam on the same piece — runs forward over exactly the union of the two
space intervals -/
theorem gen_space_patch_spec_partial (self : ErrorEstimator) (h : Inv self.bdr_mesh) (hg : self.bdr_mesh.glue = true)
    (h0 : self.bdr_mesh.xmin = 0) (hL : self.bdr_mesh.xmax = self.gamma_len)
    (hwf : self.gauss.points.length = self.gauss.weights.length) (hne : self.gauss.points ≠ [])
    (c : Cell) (hc : c ∈ self.bdr_mesh.leaves) (n : Cell) (hnc : n ≠ c)
    (hn : n ∈ nbrs self.bdr_mesh c .right ∨ n ∈ nbrs self.bdr_mesh c .left)
    (s12 : (Rat → Rat → Nat → Rat) → Rat → Rat → Rat → Nat → Rat)
    (s12pw : (Rat → Rat → Nat → Rat) → Rat → Rat → Rat → Nat → Rat → Rat → Nat → Rat) (residual : Rat → Rat → Nat → Rat) :
    ∃ l r call, ((l = c ∧ r = n) ∨ (l = n ∧ r = c)) ∧
      (∀ F : (Rat → Rat → Nat → Rat) → Rat → Rat → Cell → Option Cell → Except String Rat,
        evSpace self.gamma_len (fun p => F residual p.ta p.tb p.left p.right) c n =
          F residual (max n.t0 c.t0) (min n.t1 c.t1) l (some r)) ∧
      integrate_h_1_2 self (fun rs t a b g => .ok (s12 rs t a b g))
        (fun rs t a1 b1 g1 a2 b2 g2 => if closesCurve self.gamma_len b1 a2 = true then .ok (s12pw rs t a1 b1 g1 a2 b2 g2)
          else .error "assert:pw-touch")
        (fun _ a b => closesCurve self.gamma_len a b) residual (max n.t0 c.t0) (min n.t1 c.t1) l (some r) =
        .ok ((min n.t1 c.t1 - max n.t0 c.t0) * dot (self.gauss.points.map fun q =>
          semOf (s12 residual) (s12pw residual) (max n.t0 c.t0 + (min n.t1 c.t1 - max n.t0 c.t0) * q) call) self.gauss.weights) ∧
      (¬ SeamSamePiece self.gamma_len l r → call.oriented ∧ ∀ q x, call.covers q x ↔ (covers l q x ∨ covers r q x)) := by
  obtain ⟨l, r, call, hp, hlr, _, _, _, hcall, hspec⟩ :=
    space_patch_spec_partial self.bdr_mesh h hg self.gamma_len h0 hL c hc n hnc hn
  refine ⟨l, r, call, hlr, fun F => ?_, ?_, hspec⟩
  · unfold evSpace; rw [hp]; rfl
  · rw [gen_integrate_h_1_2_eq self hwf hne]
    unfold integrateH12
    rw [hcall]
    rfl

/-- **the space patch of the generated code, full specification** (`space_patch_spec_full` of `Props/C09.lean`): for an
element `c` and EVERY neighbour `n ≠ c` across `x = x1 / x0` (seam included) the pair evaluation of the generated
`sobolev_space` hands `(common time interval, left, right)` to `__integrate_h_1_2`, and the generated `__integrate_h_1_2`
(outer rule well-formed and non-empty, `np.allclose` = `closesCurve`) passes its assertion and returns
`h_t · Σ_i w_i · sem(t_i, call)` for ONE seminorm call, where EITHER the pair is not a same-piece seam pair and the call runs
forward over exactly the union of the two space intervals (the definition) OR the pair is adjacent through the seam on one
piece and the call is `seminorm_h_1_2(f, left.x0, right.x1, γ)` with `right.x1 ≤ left.x0`: the complementary arc, run
backwards (finding F5; `gen_seam_same_piece_witness` shows the case occurs) -/
theorem gen_space_patch_spec_full (self : ErrorEstimator) (h : Inv self.bdr_mesh) (hg : self.bdr_mesh.glue = true)
    (h0 : self.bdr_mesh.xmin = 0) (hL : self.bdr_mesh.xmax = self.gamma_len)
    (hwf : self.gauss.points.length = self.gauss.weights.length) (hne : self.gauss.points ≠ [])
    (c : Cell) (hc : c ∈ self.bdr_mesh.leaves) (n : Cell) (hnc : n ≠ c)
    (hn : n ∈ nbrs self.bdr_mesh c .right ∨ n ∈ nbrs self.bdr_mesh c .left)
    (s12 : (Rat → Rat → Nat → Rat) → Rat → Rat → Rat → Nat → Rat)
    (s12pw : (Rat → Rat → Nat → Rat) → Rat → Rat → Rat → Nat → Rat → Rat → Nat → Rat) (residual : Rat → Rat → Nat → Rat) :
    ∃ l r call, ((l = c ∧ r = n) ∨ (l = n ∧ r = c)) ∧
      (∀ F : (Rat → Rat → Nat → Rat) → Rat → Rat → Cell → Option Cell → Except String Rat,
        evSpace self.gamma_len (fun p => F residual p.ta p.tb p.left p.right) c n =
          F residual (max n.t0 c.t0) (min n.t1 c.t1) l (some r)) ∧
      integrate_h_1_2 self (fun rs t a b g => .ok (s12 rs t a b g))
        (fun rs t a1 b1 g1 a2 b2 g2 => if closesCurve self.gamma_len b1 a2 = true then .ok (s12pw rs t a1 b1 g1 a2 b2 g2)
          else .error "assert:pw-touch")
        (fun _ a b => closesCurve self.gamma_len a b) residual (max n.t0 c.t0) (min n.t1 c.t1) l (some r) =
        .ok ((min n.t1 c.t1 - max n.t0 c.t0) * dot (self.gauss.points.map fun q =>
          semOf (s12 residual) (s12pw residual) (max n.t0 c.t0 + (min n.t1 c.t1 - max n.t0 c.t0) * q) call) self.gauss.weights) ∧
      ((¬ SeamSamePiece self.gamma_len l r ∧ call.oriented ∧ ∀ q x, call.covers q x ↔ (covers l q x ∨ covers r q x)) ∨
       (SeamSamePiece self.gamma_len l r ∧ call = .same l.x0 r.x1 l.piece ∧ r.x1 ≤ l.x0 ∧ ¬ call.oriented ∧
        (∀ ξ : Rat, 0 ≤ ξ → ξ ≤ 1 → r.x1 ≤ l.x0 + (r.x1 - l.x0) * ξ ∧ l.x0 + (r.x1 - l.x0) * ξ ≤ l.x0) ∧
        (∀ q x, r.x1 < x → x < l.x0 → ¬ covers l q x ∧ ¬ covers r q x))) := by
  obtain ⟨l, r, call, hp, hlr, _, _, _, hcall, hspec⟩ :=
    space_patch_spec_full self.bdr_mesh h hg self.gamma_len h0 hL c hc n hnc hn
  refine ⟨l, r, call, hlr, fun F => ?_, ?_, hspec⟩
  · unfold evSpace; rw [hp]; rfl
  · rw [gen_integrate_h_1_2_eq self hwf hne]
    unfold integrateH12
    rw [hcall]
    rfl

/-- **the same-piece seam pair in the generated code** (negation witness of the full patch statement, the known finding): on
the closed one-piece mesh with four elements `[0,1], …, [3,4]` (`L = 4`), outer rule `{1/2}`, `seminorm_h_1_2(f, a, b, γ) ↦ b - a`:
the generated `sobolev_space` of the element `[0,1]`, with `self.__integrate_h_1_2` bound to the generated method, evaluates the
element itself over `[0,1]` (length 1), the pair with `[1,2]` over `[0,2]` (length 2) and the pair with `[3,4]` THROUGH THE SEAM
over `[3, 1]`: "length" `-2` — the complementary arc, run backwards -/
theorem gen_seam_same_piece_witness :
    let self : ErrorEstimator := estOf (init true [0, 1, 2, 3, 4] [0, 1]) 4 ⟨[1 / 2], [1]⟩ [] []
    let c : Cell := ⟨0, 1, 0, 1, 0, 0, 0, none, 0⟩
    sobolev_space self (integrate_h_1_2 self (fun _ _ a b _ => .ok (b - a)) (fun _ _ _ _ _ _ _ _ => .error "pw")
      (fun _ a b => closesCurve 4 a b)) c (fun _ _ _ => 0) false = .ok (1, [(0, 1), (1, 2), (3, -2)]) := by
  decide +kernel

/-! ## 4. the generated definitions are executable: closed examples (evaluated by the kernel), non-vacuity -/

/-- the 3 × 2 glued tensor mesh of `Props/C09.lean` with `L = 3`, outer rule `{1/4, 3/4}`, tensor rule one point -/
def exEst : ErrorEstimator := estOf exTensor 3 ⟨[1 / 4, 3 / 4], [1 / 2, 1 / 2]⟩ [(1 / 2, 1 / 2)] [1]

/-- tokens that depend on all arguments: the generated `estimate_sobolev` (serial and pool with the order-preserving map) on
the six elements -/
example : estimate_sobolev exEst (fun _ _ tb l r => .ok (l.id + 7 * (match r with | some r => r.id + 1 | none => 0) + tb))
      (fun _ ta tb xa _ _ => .ok (tb - ta + 10 * xa)) 2 (fun f N _ => (List.range N).map f) exTensor.leaves (fun _ _ _ => 0) false =
    .ok [(3, 26), (23, 40), (43, 36), (3, 80), (23, 94), (43, 90)] := by decide +kernel
example : estimate_sobolev exEst (fun _ _ tb l r => .ok (l.id + 7 * (match r with | some r => r.id + 1 | none => 0) + tb))
      (fun _ ta tb xa _ _ => .ok (tb - ta + 10 * xa)) 2 (fun f N _ => (List.range N).map f) exTensor.leaves (fun _ _ _ => 0) true =
    .ok [(3, 26), (23, 40), (43, 36), (3, 80), (23, 94), (43, 90)] := by decide +kernel
/-- a list that misses a neighbour: `KeyError`; a pool that loses a result: `IndexError` -/
example : estimate_sobolev exEst (fun _ _ _ _ _ => .ok 1) (fun _ _ _ _ _ _ => .ok 1) 2 (fun f N _ => (List.range N).map f)
    (exTensor.leaves.take 2) (fun _ _ _ => 0) false = .error "KeyError" := by decide +kernel
example : estimate_sobolev exEst (fun _ _ _ _ _ => .ok 1) (fun _ _ _ _ _ _ => .ok 1) 2 (fun f N _ => (List.range (N - 1)).map f)
    exTensor.leaves (fun _ _ _ => 0) true = .error "IndexError" := by decide +kernel
/-- the time patch of element `0 = [0,1] × [0,1]` and its neighbour `3 = [1,2] × [0,1]`: `[0,2] × [0,1]` -/
example : sobolev_time exEst (fun _ ta tb xa xb pc => .ok (1000 * ta + 100 * tb + 10 * xa + xb + pc))
    ⟨0, 1, 0, 1, 0, 0, 0, none, 0⟩ (fun _ _ _ => 0) false = .ok (302, [(0, 101), (3, 201)]) := by decide +kernel
/-- `weighted_l2` with `h_t = 1`, `sqrt = id`: residual `t + x` at the midpoint of `[0,1]²` -/
example : weighted_l2 exEst (fun h => h) ⟨0, 1, 0, 1, 0, 0, 0, none, 0⟩ (fun t x _ => t + x) = .ok (1, 1) := by decide +kernel
/-- the hypotheses of `gen_accumulate_eq_direct_mesh`, `gen_sobolev_time_patches` are satisfiable: the tensor mesh -/
example (tokT : TimePatch → Rat) (tokS : SpacePatch → Rat) (residual : Rat → Rat → Nat → Rat) :
    estimate_sobolev exEst (fun _ ta tb l r => .ok (tokS ⟨ta, tb, l, r⟩)) (fun _ ta tb xa xb pc => .ok (tokT ⟨ta, tb, xa, xb, pc⟩)) 1
      (fun f N _ => (List.range N).map f) exTensor.leaves residual false =
    .ok (exTensor.leaves.map fun c => (lsum ((timeNbrs exTensor c).map (pairT tokT c)),
      lsum ((spaceNbrs exTensor c).map (pairS 3 tokS c)))) :=
  (gen_accumulate_eq_direct_mesh exEst exTensor_inv rfl rfl rfl _ exTensor_pieces tokT tokS 1 _ exTensor.leaves
    exTensor_inv.ids.leaves_nodup (fun _ => Iff.rfl) residual).1
example : exEst.gauss.points.length = exEst.gauss.weights.length ∧ exEst.gauss.points ≠ [] := by decide
example : ∃ c ∈ exEst.bdr_mesh.leaves, ∃ n, n ≠ c ∧ n ∈ nbrs exEst.bdr_mesh c .right :=
  ⟨⟨0, 1, 0, 1, 0, 0, 0, none, 0⟩, by decide +kernel, ⟨0, 1, 1, 2, 0, 0, 1, none, 0⟩, by decide, by decide +kernel⟩
example : ∀ (f : Nat → Except String Nat) (N c : Nat), ((fun f N (_ : Nat) => (List.range N).map f) f N c).length = N := by
  intro f N c; simp

end Stbem.EstimatorTie
