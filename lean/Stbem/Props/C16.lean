import Stbem.Lemmas.QuadtreeOps

/-!
# C16 — domain quadtree: tiling, 2:1 balance, unique vertices, boundary-segment targeting

Model: `Stbem.Model.Quadtree` (`src/initial_mesh.py`).  `QInv` (`Stbem.Lemmas.QuadtreeInv`) is the
conjunction of: the leaves tile the domain (= union of the root squares; half-open squares, every point of
the domain in exactly one leaf), leaves sharing a piece of positive length of an edge differ by at most one
level, vertex coordinates pairwise different and equal to the set of element corners, element indices =
positions, plus the forest bookkeeping (`Forest`) that makes the geometric reading of the dictionaries
`nbrs` / `parent_edge` / `__bisect_edge` meaningful.

* `unitSquare_inv`, `lShape_inv`: the invariant holds initially.
* `bisect_inv`: one legal refinement (all edge neighbours at least as deep) preserves it.
* `refine_ok`: `refine` on any leaf never fails (the level assertion never fires, fuel `level + 1`
  suffices), preserves the invariant, only refines.  `refine_stale`: on a non-leaf it runs its closure and
  then trips the `bisect_edge` assertion.
* `qt_inv`: the invariant holds after every sequence of leaf refinements (`qt_total`: each of them
  succeeds); `run_inv`: after every index sequence that does not fail; `uniform_refine_ok`: refining the
  coarsest leaves in any order never fails; `reach_unit_tiling`, `reach_lshape_tiling`: the tiling statement
  spelled out for the two shipped domains.
* `bdr_target`: for a leaf `c` with nothing across its side `s` (a boundary side) and the `k`-th of the
  `2^j` equal pieces of that side, in either orientation, `refineMshBdr` with fuel `j + 1` returns a leaf
  of level `c.level + j` whose side `s` is exactly that piece; the invariant holds afterwards, only
  refinement happened, both end points are found by `vertexFromCoords`, and no other (leaf, side) pair of
  the new mesh has an edge containing the piece (`Hit`: same line, range contained).  `bdr_target_unit`,
  `bdr_target_lshape`: instances for the sides of the unit square and the eight unit pieces of the L-shape.
-/
namespace Stbem.Quadtree

/-! ## the invariant and what it says -/

theorem unitSquare_inv : QInv unitSquare := unitSquare_inv'

theorem lShape_inv : QInv lShape := lShape_inv'

/-- the domain of the unit square -/
theorem unitSquare_domain (x y : Rat) :
    unitSquare.InDomain x y ↔ (0 ≤ x ∧ x < 1 ∧ 0 ≤ y ∧ y < 1) := by
  simp [QT.InDomain, unitSquare, mkRoot, Elem.Contains]

/-- the domain of the L-shape: three unit squares -/
theorem lShape_domain (x y : Rat) :
    lShape.InDomain x y ↔ ((0 ≤ x ∧ x < 1 ∧ -1 ≤ y ∧ y < 0) ∨ (0 ≤ x ∧ x < 1 ∧ 0 ≤ y ∧ y < 1) ∨
      (-1 ≤ x ∧ x < 0 ∧ 0 ≤ y ∧ y < 1)) := by
  simp [QT.InDomain, lShape, mkRoot, Elem.Contains]

/-- readable consequences of `QInv`: leaves are squares of positive size tiling the domain, 2:1 balance
in both directions, unique vertex coordinates, unique element indices -/
theorem qinv_facts {m : QT} (h : QInv m) :
    (∀ c ∈ m.leaves, 0 < c.size) ∧
    (∀ x y, m.InDomain x y → ∃ c ∈ m.leaves, c.Contains x y ∧ ∀ d ∈ m.leaves, d.Contains x y → d = c) ∧
    (∀ c ∈ m.leaves, ∀ x y, c.Contains x y → m.InDomain x y) ∧
    (∀ c ∈ m.leaves, ∀ n ∈ m.leaves, ∀ s, Adj c s n → c.level ≤ n.level + 1 ∧ n.level ≤ c.level + 1) ∧
    m.verts.Nodup ∧ (m.elems.map (·.id)).Nodup := by
  refine ⟨fun c hc => h.size_pos hc, ?_, h.tiles.inside, ?_, h.verts.nodup, ?_⟩
  · intro x y hd
    obtain ⟨c, hc, hcont⟩ := h.tiles.cover x y hd
    exact ⟨c, hc, hcont, fun d hd hd' => h.tiles.disjoint d hd c hc x y hd' hcont⟩
  · intro c hc n hn s ha
    exact ⟨h.bal c hc n hn s ha, h.bal n hn c hc s.opp ha.symm⟩
  · rw [h.ids.ids]; exact List.nodup_range

/-- one legal refinement: all edge-neighbours of the leaf `c` are at least as deep -/
theorem bisect_inv (m : QT) (h : QInv m) (c : Elem) (hc : c ∈ m.leaves)
    (hn : ∀ s, ∀ n ∈ m.leaves, Adj c s n → c.level ≤ n.level) :
    QInv (bisect m c) ∧ Ext m (bisect m c) :=
  ⟨bisect_inv' h hc hn, bisect_ext h hc⟩

/-- `refine` never fails on a leaf of a mesh satisfying the invariant (the level assertion does not fire,
the recursion terminates within fuel `level + 1`), preserves the invariant, replaces `c` by its four
children (the returned list) and otherwise only refines leaves that are coarser than `c` -/
theorem refine_ok (m : QT) (h : QInv m) (c : Elem) (hc : c ∈ m.leaves) (fuel : Nat)
    (hf : c.level < fuel) :
    ∃ m', refine fuel m c = .ok m' ∧ QInv m' ∧ Ext m m' ∧ c ∉ m'.leaves ∧
      lastChildren m' = children (m'.elems.length - 4) c ∧ (∀ l ∈ lastChildren m', l ∈ m'.leaves) ∧
      (∀ d ∈ m.leaves, d ≠ c → c.level ≤ d.level → d ∈ m'.leaves) := by
  obtain ⟨m', h1, r⟩ := refine_res fuel m c h hc hf
  exact ⟨m', h1, r.inv, r.ext, r.gone, r.last, r.kids, r.keep⟩

/-- the same through the element index -/
theorem refineId_ok (m : QT) (h : QInv m) (c : Elem) (hc : c ∈ m.leaves) :
    ∃ m', refineId m c.id = .ok m' ∧ QInv m' ∧ Ext m m' := by
  obtain ⟨m', h1, r⟩ := refineId_res h hc
  exact ⟨m', h1, r.inv, r.ext⟩

/-- an element that has been refined already: the closure runs, then `bisect_edge` asserts -/
theorem refine_stale_asserts (m : QT) (h : QInv m) (c : Elem) (hcm : c ∈ m.elems) (hnl : c ∉ m.leaves)
    (fuel : Nat) (hf : c.level < fuel) : refine fuel m c = .error "assert:bisected" :=
  refine_stale fuel h hcm hnl hf

/-- meshes reachable from `m0` by refining leaves -/
inductive Reach (m0 : QT) : QT → Prop
  | init : Reach m0 m0
  | step {m m' : QT} {c : Elem} : Reach m0 m → c ∈ m.leaves → refineId m c.id = .ok m' → Reach m0 m'

/-- the invariant holds after every sequence of leaf refinements, and the domain is unchanged -/
theorem qt_inv (m0 : QT) (h0 : QInv m0) (m : QT) (hr : Reach m0 m) : QInv m ∧ Ext m0 m := by
  induction hr with
  | init => exact ⟨h0, Ext.refl m0⟩
  | step _ hc hrun ih =>
    obtain ⟨m'', h1, r⟩ := refineId_res ih.1 hc
    rw [h1] at hrun
    cases hrun
    exact ⟨r.inv, ih.2.trans r.ext⟩

/-- every leaf refinement of a reachable mesh succeeds -/
theorem qt_total (m0 : QT) (h0 : QInv m0) (m : QT) (hr : Reach m0 m) (c : Elem) (hc : c ∈ m.leaves) :
    ∃ m', refineId m c.id = .ok m' ∧ Reach m0 m' := by
  obtain ⟨m', h1, -⟩ := refineId_res (qt_inv m0 h0 m hr).1 hc
  exact ⟨m', h1, Reach.step hr hc h1⟩

/-- whatever index is passed: if the call returns, the invariant holds -/
theorem refineId_inv (m : QT) (h : QInv m) (id : Nat) (m' : QT) (hr : refineId m id = .ok m') :
    QInv m' ∧ Ext m m' := by
  unfold refineId at hr
  cases hf : findElem m id with
  | none => rw [hf] at hr; cases hr
  | some e =>
    rw [hf] at hr
    dsimp only at hr
    have hem := findElem_some hf
    by_cases hl : e ∈ m.leaves
    · obtain ⟨m'', h1, r⟩ := refine_res (e.level + 1) m e h hl (Nat.lt_succ_self _)
      rw [h1] at hr; cases hr
      exact ⟨r.inv, r.ext⟩
    · rw [refine_stale (e.level + 1) h hem hl (Nat.lt_succ_self _)] at hr
      cases hr

/-- every index sequence (`uniform_refine` with any iteration order): if it returns, the invariant holds -/
theorem run_inv (ids : List Nat) : ∀ (m : QT), QInv m → ∀ m', uniformRefine m ids = .ok m' →
    QInv m' ∧ Ext m m' := by
  induction ids with
  | nil =>
    intro m h m' hr
    cases hr
    exact ⟨h, Ext.refl m⟩
  | cons id ids ih =>
    intro m h m' hr
    unfold uniformRefine at hr
    rw [List.foldlM_cons] at hr
    cases h1 : refineId m id with
    | error e => rw [h1] at hr; cases hr
    | ok m1 =>
      rw [h1] at hr
      obtain ⟨i1, e1⟩ := refineId_inv m h id m1 h1
      obtain ⟨i2, e2⟩ := ih m1 i1 m' hr
      exact ⟨i2, e1.trans e2⟩

/-- `uniform_refine` in any iteration order: refining a duplicate-free list of leaves of the coarsest
level `L` present in the mesh (all leaves of a uniform mesh, in particular) never fails and removes exactly
these leaves.  (On a non-uniform mesh `uniform_refine` may trip the assertion of `bisect_edge`, because the
balance closure can refine a leaf that is still in the work list: see `refine_stale_asserts`.) -/
theorem uniform_refine_ok (L : Nat) (todo : List Elem) (m : QT) (h : QInv m) (hnd : todo.Nodup)
    (hl : ∀ e ∈ todo, e ∈ m.leaves ∧ e.level = L) (hmin : ∀ d ∈ m.leaves, L ≤ d.level) :
    ∃ m', uniformRefine m (todo.map (·.id)) = .ok m' ∧ QInv m' ∧ Ext m m' ∧
      (∀ e ∈ todo, e ∉ m'.leaves) ∧ (∀ d ∈ m'.leaves, L ≤ d.level) :=
  uniformRefine_coarsest L todo m h hnd hl hmin

/-- unit square: after any sequence of leaf refinements every point of `[0,1)²` lies in exactly one leaf -/
theorem reach_unit_tiling (m : QT) (hr : Reach unitSquare m) (x y : Rat) (hx : 0 ≤ x ∧ x < 1)
    (hy : 0 ≤ y ∧ y < 1) :
    ∃ c ∈ m.leaves, c.Contains x y ∧ ∀ d ∈ m.leaves, d.Contains x y → d = c := by
  obtain ⟨i, e⟩ := qt_inv unitSquare unitSquare_inv m hr
  exact ext_tiling e i x y ((unitSquare_domain x y).mpr ⟨hx.1, hx.2, hy.1, hy.2⟩)

/-- L-shape: after any sequence of leaf refinements every point of the three unit squares lies in exactly
one leaf, and every leaf lies in the L-shape -/
theorem reach_lshape_tiling (m : QT) (hr : Reach lShape m) :
    (∀ x y, lShape.InDomain x y →
      ∃ c ∈ m.leaves, c.Contains x y ∧ ∀ d ∈ m.leaves, d.Contains x y → d = c) ∧
    (∀ c ∈ m.leaves, ∀ x y, c.Contains x y → lShape.InDomain x y) := by
  obtain ⟨i, e⟩ := qt_inv lShape lShape_inv m hr
  exact ⟨fun x y hd => ext_tiling e i x y hd,
    fun c hc x y hcont => (e.inDomain x y).mp (i.tiles.inside c hc x y hcont)⟩

/-! ## boundary-segment targeting -/

/-- For a leaf `c` whose side `s` has no leaf across it, and the `k`-th of the `2^j` equal pieces
`[P, Q]` of that side, `refine_msh_bdr(a, b)` with `{a, b} = {P, Q}` in either order returns within
`j + 1` rounds a leaf `e` of level `c.level + j` whose side `s` is exactly `[P, Q]`; the invariant holds for
the new mesh, which refines the old one; both end points are found by `vertex_from_coords`. -/
theorem bdr_target (m : QT) (h : QInv m) (c : Elem) (hc : c ∈ m.leaves) (s : Side)
    (hB : ∀ n ∈ m.leaves, ¬ Adj c s n) (j k : Nat) (hk : k < 2 ^ j) (a b : Rat × Rat)
    (hab : (a = pt s.axis (lineC c s) (lo c s + k * (c.size / 2 ^ j)) ∧
            b = pt s.axis (lineC c s) (lo c s + (k + 1) * (c.size / 2 ^ j))) ∨
           (a = pt s.axis (lineC c s) (lo c s + (k + 1) * (c.size / 2 ^ j)) ∧
            b = pt s.axis (lineC c s) (lo c s + k * (c.size / 2 ^ j)))) :
    ∃ m' e, refineMshBdr (j + 1) m a b = .ok (m', e) ∧ QInv m' ∧ Ext m m' ∧ e ∈ m'.leaves ∧
      e.level = c.level + j ∧ lineC e s = lineC c s ∧
      lo e s = lo c s + k * (c.size / 2 ^ j) ∧ hi e s = lo c s + (k + 1) * (c.size / 2 ^ j) ∧
      (∃ i, vertexFromCoords m' a.1 a.2 = .ok (some i) ∧ m'.verts[i]? = some a) ∧
      (∃ i, vertexFromCoords m' b.1 b.2 = .ok (some i) ∧ m'.verts[i]? = some b) ∧
      (∀ e' ∈ m'.leaves, ∀ s', Hit s.axis (lineC c s) (lo c s + k * (c.size / 2 ^ j))
        (lo c s + (k + 1) * (c.size / 2 ^ j)) e' s' → e' = e ∧ s' = s) := by
  have hp := h.size_pos hc
  have hw : 0 < c.size / 2 ^ j := div_pos hp (by positivity)
  have hlt : lo c s + k * (c.size / 2 ^ j) < lo c s + (k + 1) * (c.size / 2 ^ j) := by linarith
  have hseg : SegDy s.axis (lineC c s) (lo c s + k * (c.size / 2 ^ j))
      (lo c s + (k + 1) * (c.size / 2 ^ j)) c s j := by
    refine ⟨rfl, rfl, k, hk, ?_, ?_⟩ <;> simp [hi]
  obtain ⟨hit, _⟩ := hseg.hit hp
  obtain ⟨m', e, hrun, found⟩ := bdrLoop_spec j m m.leaves c h hc hc (fun e he => h.size_pos he) hseg
    (leaves_unique h hc hB hit hlt)
  obtain ⟨r1, r2⟩ := refineMshBdr_eq (axis := s.axis) (X := lineC c s) hlt (j + 1) m
  have hem := found.inv.forest.leaves_sub e found.leaf
  have vP := vertexFromCoords_corner found.inv hem (corner_lo e s)
  have vQ := vertexFromCoords_corner found.inv hem (corner_hi e s)
  rw [found.line, found.lo] at vP
  rw [found.line, found.hi] at vQ
  have hone := leaves_unique found.inv found.leaf
    (boundary_persist h found.inv found.ext hc hB found.sub found.line)
    (show Hit s.axis (lineC c s) _ _ e s from
      ⟨rfl, found.line, le_of_eq found.lo, le_of_lt hlt, le_of_eq found.hi.symm⟩) hlt
  rcases hab with ⟨rfl, rfl⟩ | ⟨rfl, rfl⟩
  · exact ⟨m', e, by rw [r1]; exact hrun, found.inv, found.ext, found.leaf, found.level, found.line,
      found.lo, found.hi, vP, vQ, hone⟩
  · exact ⟨m', e, by rw [r2]; exact hrun, found.inv, found.ext, found.leaf, found.level, found.line,
      found.lo, found.hi, vQ, vP, hone⟩

/-- every side of the unit square is a boundary side -/
theorem unitSquare_boundary (s : Side) : ∀ n ∈ unitSquare.leaves, ¬ Adj (mkRoot 0 0 0 1) s n := by
  intro n hn
  simp only [unitSquare, List.mem_cons, List.not_mem_nil, or_false] at hn
  subst hn
  cases s <;> simp [Adj, mkRoot]

/-- the eight unit pieces of the boundary of the L-shape: root 0 = `[0,1]×[-1,0]` (left, bottom, right),
root 1 = `[0,1]×[0,1]` (right, top), root 2 = `[-1,0]×[0,1]` (top, left, bottom) -/
def lShapePieces : List (Elem × Side) :=
  [(mkRoot 0 0 (-1) 1, .left), (mkRoot 0 0 (-1) 1, .bottom), (mkRoot 0 0 (-1) 1, .right),
   (mkRoot 1 0 0 1, .right), (mkRoot 1 0 0 1, .top),
   (mkRoot 2 (-1) 0 1, .top), (mkRoot 2 (-1) 0 1, .left), (mkRoot 2 (-1) 0 1, .bottom)]

theorem lShape_boundary : ∀ p ∈ lShapePieces, p.1 ∈ lShape.leaves ∧ ∀ n ∈ lShape.leaves, ¬ Adj p.1 p.2 n := by
  intro p hp
  simp only [lShapePieces, List.mem_cons, List.not_mem_nil, or_false] at hp
  rcases hp with rfl | rfl | rfl | rfl | rfl | rfl | rfl | rfl <;>
    refine ⟨by simp [lShape], ?_⟩ <;> intro n hn <;>
    simp only [lShape, List.mem_cons, List.not_mem_nil, or_false] at hn <;>
    rcases hn with rfl | rfl | rfl <;> simp [Adj, OvX, OvY, mkRoot] <;> norm_num

/-- unit square: the `k`-th of the `2^l` pieces of any side, either orientation: a leaf of level `l` -/
theorem bdr_target_unit (s : Side) (l k : Nat) (hk : k < 2 ^ l) (a b : Rat × Rat)
    (hab : (a = pt s.axis (lineC (mkRoot 0 0 0 1) s) (k / 2 ^ l) ∧
            b = pt s.axis (lineC (mkRoot 0 0 0 1) s) ((k + 1) / 2 ^ l)) ∨
           (a = pt s.axis (lineC (mkRoot 0 0 0 1) s) ((k + 1) / 2 ^ l) ∧
            b = pt s.axis (lineC (mkRoot 0 0 0 1) s) (k / 2 ^ l))) :
    ∃ m' e, refineMshBdr (l + 1) unitSquare a b = .ok (m', e) ∧ QInv m' ∧ Ext unitSquare m' ∧
      e ∈ m'.leaves ∧ e.level = l ∧ lineC e s = lineC (mkRoot 0 0 0 1) s ∧
      lo e s = k / 2 ^ l ∧ hi e s = (k + 1) / 2 ^ l ∧
      (∃ i, vertexFromCoords m' a.1 a.2 = .ok (some i) ∧ m'.verts[i]? = some a) ∧
      (∃ i, vertexFromCoords m' b.1 b.2 = .ok (some i) ∧ m'.verts[i]? = some b) ∧
      (∀ e' ∈ m'.leaves, ∀ s', Hit s.axis (lineC (mkRoot 0 0 0 1) s) (k / 2 ^ l) ((k + 1) / 2 ^ l) e' s' →
        e' = e ∧ s' = s) := by
  have e0 : lo (mkRoot 0 0 0 1) s = 0 := by cases s <;> rfl
  have e1 : ∀ t : Rat, lo (mkRoot 0 0 0 1) s + t * ((mkRoot 0 0 0 1).size / 2 ^ l) = t / 2 ^ l := by
    intro t; rw [e0]; simp [mkRoot]; ring
  have := bdr_target unitSquare unitSquare_inv (mkRoot 0 0 0 1) (by simp [unitSquare]) s
    (unitSquare_boundary s) l k hk a b (by rw [e1, e1]; exact hab)
  rw [e1, e1] at this
  obtain ⟨m', e, h1, h2, h3, h4, h5, rest⟩ := this
  exact ⟨m', e, h1, h2, h3, h4, by simpa [mkRoot] using h5, rest⟩

/-- L-shape: the `k`-th of the `2^l` pieces of any of the eight unit boundary pieces, either orientation -/
theorem bdr_target_lshape (p : Elem × Side) (hp : p ∈ lShapePieces) (l k : Nat) (hk : k < 2 ^ l)
    (a b : Rat × Rat)
    (hab : (a = pt p.2.axis (lineC p.1 p.2) (lo p.1 p.2 + k / 2 ^ l) ∧
            b = pt p.2.axis (lineC p.1 p.2) (lo p.1 p.2 + (k + 1) / 2 ^ l)) ∨
           (a = pt p.2.axis (lineC p.1 p.2) (lo p.1 p.2 + (k + 1) / 2 ^ l) ∧
            b = pt p.2.axis (lineC p.1 p.2) (lo p.1 p.2 + k / 2 ^ l))) :
    ∃ m' e, refineMshBdr (l + 1) lShape a b = .ok (m', e) ∧ QInv m' ∧ Ext lShape m' ∧
      e ∈ m'.leaves ∧ e.level = l ∧ lineC e p.2 = lineC p.1 p.2 ∧
      lo e p.2 = lo p.1 p.2 + k / 2 ^ l ∧ hi e p.2 = lo p.1 p.2 + (k + 1) / 2 ^ l ∧
      (∃ i, vertexFromCoords m' a.1 a.2 = .ok (some i) ∧ m'.verts[i]? = some a) ∧
      (∃ i, vertexFromCoords m' b.1 b.2 = .ok (some i) ∧ m'.verts[i]? = some b) ∧
      (∀ e' ∈ m'.leaves, ∀ s', Hit p.2.axis (lineC p.1 p.2) (lo p.1 p.2 + k / 2 ^ l)
        (lo p.1 p.2 + (k + 1) / 2 ^ l) e' s' → e' = e ∧ s' = p.2) := by
  obtain ⟨hc, hB⟩ := lShape_boundary p hp
  have hs : p.1.size = 1 ∧ p.1.level = 0 := by
    simp only [lShapePieces, List.mem_cons, List.not_mem_nil, or_false] at hp
    rcases hp with rfl | rfl | rfl | rfl | rfl | rfl | rfl | rfl <;> exact ⟨rfl, rfl⟩
  have e1 : ∀ t : Rat, t * (p.1.size / 2 ^ l) = t / 2 ^ l := by
    intro t; rw [hs.1]; ring
  have := bdr_target lShape lShape_inv p.1 hc p.2 hB l k hk a b (by rw [e1, e1]; exact hab)
  rw [e1, e1, hs.2] at this
  obtain ⟨m', e, h1, h2, h3, h4, h5, rest⟩ := this
  exact ⟨m', e, h1, h2, h3, h4, by simpa using h5, rest⟩

/-! ## non-vacuity: the hypotheses are satisfiable and the model really runs -/

def leafIds (r : Except String QT) : Option (List Nat × Nat) :=
  match r with
  | .ok m => some (m.leaves.map (·.id), m.verts.length)
  | .error _ => none

/-- unit square: refine the root, its child 3 (top left), then child 1 = element 6 of that (whose right
neighbour, element 2, is coarser and is refined first by the balance closure: children 9..12, then 13..16) -/
theorem run_example :
    leafIds (do
      let m ← refineId unitSquare 0
      let m ← refineId m 3
      refineId m 6) = some ([1, 4, 5, 7, 8, 9, 10, 11, 12, 13, 14, 15, 16], 23) := by
  decide +kernel

/-- a reachable mesh (so `qt_inv`, `qt_total` apply to something non-trivial) -/
example : ∃ m, Reach lShape m ∧ m.leaves.length = 6 := by
  obtain ⟨m', h1, hr⟩ := qt_total lShape lShape_inv lShape Reach.init (mkRoot 1 0 0 1) (by simp [lShape])
  obtain ⟨i, e⟩ := qt_inv lShape lShape_inv m' hr
  refine ⟨m', hr, ?_⟩
  have : refineId lShape 1 = .ok m' := h1
  have h2 : (match refineId lShape 1 with | .ok m => m.leaves.length | .error _ => 0) = 6 := by
    decide +kernel
  rw [this] at h2
  exact h2

/-- the hypothesis of `bisect_inv` is satisfiable: the root of the unit square has no neighbours -/
example : QInv (bisect unitSquare (mkRoot 0 0 0 1)) :=
  (bisect_inv unitSquare unitSquare_inv (mkRoot 0 0 0 1) (by simp [unitSquare])
    (fun s n hn ha => absurd ha (unitSquare_boundary s n hn))).1

/-- `uniform_refine_ok` applies to the initial L-shape (three leaves of level 0) -/
example : ∃ m', uniformRefine lShape [0, 1, 2] = .ok m' ∧ QInv m' := by
  obtain ⟨m', h1, h2, -⟩ := uniform_refine_ok 0 lShape.leaves lShape lShape_inv lShape_inv.ids.nodup
    (fun e he => ⟨he, by
      simp only [lShape, List.mem_cons, List.not_mem_nil, or_false] at he
      rcases he with rfl | rfl | rfl <;> rfl⟩) (fun d _ => Nat.zero_le _)
  exact ⟨m', h1, h2⟩

/-- a stale element is rejected (the assertion of `bisect_edge`) -/
theorem run_example_stale :
    leafIds (do
      let m ← refineId unitSquare 0
      refineId m 0) = none := by
  decide +kernel

def bdrResult (r : Except String (QT × Elem)) : Option (Nat × Nat × Nat) :=
  match r with
  | .ok (m, e) => some (e.id, e.level, m.leaves.length)
  | .error _ => none

/-- the segment of `initial_mesh_test.py`: `[(1, 1/2), (1, 17/32)]` on the right side of the unit square,
`k = 16`, `l = 5`, given in the reversed orientation: 25 leaves, the returned leaf has level 5 -/
theorem bdr_example :
    bdrResult (refineMshBdr 6 unitSquare (1, 17 / 32) (1, 1 / 2)) = some (30, 5, 25) := by
  decide +kernel

/-- the instance of `bdr_target_unit` for that segment -/
example : ∃ m' e, refineMshBdr 6 unitSquare (1, 17 / 32) (1, 1 / 2) = .ok (m', e) ∧ QInv m' ∧
    e ∈ m'.leaves ∧ e.level = 5 := by
  obtain ⟨m', e, h1, h2, -, h4, h5, -⟩ := bdr_target_unit .right 5 16 (by norm_num) (1, 17 / 32) (1, 1 / 2)
    (Or.inr ⟨by simp [pt, Side.axis, lineC, mkRoot]; norm_num, by simp [pt, Side.axis, lineC, mkRoot]; norm_num⟩)
  exact ⟨m', e, h1, h2, h4, h5⟩

/-- one of the L-shape pieces: `[(0, -1/2), (0, -3/4)]` on the left side of root 0 -/
theorem bdr_example_lshape :
    bdrResult (refineMshBdr 3 lShape (0, -1 / 2) (0, -3 / 4)) = some (10, 2, 9) := by
  decide +kernel

end Stbem.Quadtree
