import Stbem.Model.SingleLayer
namespace Stbem.SL
theorem placeholder_C12 : True := trivial
end Stbem.SL
