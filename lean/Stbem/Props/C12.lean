import Stbem.Props.SL
import Stbem.Props.Formulas
import Stbem.Props.C15

/-!
# C12 — Symmetries of kernel and curve

exchange of the space intervals and a common time shift leave the model's result identical (errors included) on both paths; mirrors are involutions and commute. Rotation invariance for the true kernel is up to quadrature error only (search).

The theorems are proved in `Stbem.Props.SL` (model `Stbem.Model.SingleLayer`, tied to `src/single_layer.py` by exact
execution of the real code), `Stbem.Props.Formulas` (terms regenerated from the Python source on every run) and
`Stbem.Props.C15`; this file lists, as aliases, the ones that carry property C12.
-/
namespace Stbem.C12

alias bilform_exchange_quad := Stbem.SL.bilform_exchange_quad
alias bilform_exchange_exact := Stbem.SL.bilform_exchange_exact
alias stik_symm := Stbem.SL.stik_symm
alias bilform_shift := Stbem.SL.bilform_shift
alias kernel_shift := Stbem.SL.kernel_shift
alias dtk_shift := Stbem.Formulas.R.dtk_shift
alias fint_1_shift := Stbem.Formulas.R.fint_1_shift
alias fint_2_shift := Stbem.Formulas.R.fint_2_shift
alias fint_3_shift := Stbem.Formulas.R.fint_3_shift
alias fint_4_shift := Stbem.Formulas.R.fint_4_shift
alias stik_1_shift := Stbem.Formulas.R.stik_1_shift
alias stik_2_shift := Stbem.Formulas.R.stik_2_shift
alias stik_3_shift := Stbem.Formulas.R.stik_3_shift
alias stik_4_shift := Stbem.Formulas.R.stik_4_shift
alias mirrorX2_mirrorX2 := Stbem.Quad.mirrorX2_mirrorX2
alias mirrorY2_mirrorY2 := Stbem.Quad.mirrorY2_mirrorY2
alias mirrorX2_mirrorY2_comm := Stbem.Quad.mirrorX2_mirrorY2_comm
alias duffy2_sym_agree := Stbem.Quad.duffy2_sym_agree

end Stbem.C12
