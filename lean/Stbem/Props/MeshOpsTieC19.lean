import Stbem.Props.MeshOpsTie
import Stbem.Props.C19

/-!
# MeshOpsTieC19 — the results of `Props/C19.lean` for `refine_grading` REGENERATED from `src/mesh.py`

Through `gen_refine_grading_sweep_eq` / `gen_refine_grading_eq` (Props/MeshOpsTie.lean): the generated loop is the
REPAIRED loop of the model (`grading true`: elements bisected by the time refinement are skipped in the space loop), so
its sweeps never fail on a mesh satisfying the invariant, whatever it returns has every leaf in the window
`h_t/K < h_x^σ < K h_t`, and on size-uniform meshes it terminates.
-/
namespace Stbem.MeshOpsTie
open Stbem.Mesh Stbem.Gen

/-- C19 (window on return): whatever the generated `refine_grading` returns satisfies the invariant, refines the input
and has every leaf in the window -/
theorem gen_refine_grading_window (fuel : Nat) (m : Mesh) (h : Inv m) (p q : Nat) (K : Rat) (m' : Mesh)
    (hr : MeshOps.refine_grading fuel m p q K = .ok m') :
    Inv m' ∧ Refines m m' ∧ ∀ c ∈ m'.leaves, InWindow c p q K :=
  grading_window true fuel m h p q K m' (by rw [← gen_refine_grading_eq, hr])

/-- … with the real exponent `σ = p/q` -/
theorem gen_refine_grading_window_real (fuel : Nat) (m : Mesh) (h : Inv m) (p : ℕ) {q : ℕ} (hq : 0 < q) {K : ℚ}
    (hK : 0 < K) (m' : Mesh) (hr : MeshOps.refine_grading fuel m p q K = .ok m') :
    ∀ c ∈ m'.leaves,
      ((c.t1 - c.t0 : ℚ) : ℝ) / (K : ℝ) < ((c.x1 - c.x0 : ℚ) : ℝ) ^ ((p : ℝ) / (q : ℝ)) ∧
      ((c.x1 - c.x0 : ℚ) : ℝ) ^ ((p : ℝ) / (q : ℝ)) < (K : ℝ) * ((c.t1 - c.t0 : ℚ) : ℝ) :=
  grading_window_real true fuel m h p hq hK m' (by rw [← gen_refine_grading_eq, hr])

/-- C19 (a sweep never fails): one pass of the generated `while` loop raises no assertion on a mesh satisfying the
invariant -/
theorem gen_refine_grading_sweep_ok (m : Mesh) (h : Inv m) (p q : Nat) (K : Rat) :
    ∃ r, MeshOps.refine_grading_sweep m p q K = .ok r ∧ Inv r.1 ∧ Refines m r.1 := by
  rw [gen_refine_grading_sweep_eq]
  exact gradeSweep_ok m h p q K

/-- C19: the only possible error of the generated `refine_grading` is the exhausted bound on the number of sweeps -/
theorem gen_refine_grading_error (fuel : Nat) (m : Mesh) (h : Inv m) (p q : Nat) (K : Rat) (e : String)
    (hr : MeshOps.refine_grading fuel m p q K = .error e) : e = "fuel" :=
  grading_fixed_error fuel m h p q K e (by rw [← gen_refine_grading_eq, hr])

/-- C19 (termination on size-uniform meshes, `K = 4`, `σ = p/q` with `p, q ≥ 1`) -/
theorem gen_refine_grading_total (m : Mesh) (h : Inv m) (Ht Hx : Rat) (hHt : 0 < Ht) (hHx : 0 < Hx)
    (hu : Uniform Ht Hx m) (p q : Nat) (hp : 1 ≤ p) (hq : 1 ≤ q) :
    ∃ fuel m', MeshOps.refine_grading fuel m p q 4 = .ok m' ∧ Inv m' ∧ Refines m m' ∧
      ∀ c ∈ m'.leaves, InWindow c p q 4 := by
  obtain ⟨fuel, m', h1, h2⟩ := grading_total m h Ht Hx hHt hHx hu p q hp hq
  exact ⟨fuel, m', by rw [gen_refine_grading_eq, h1], h2⟩

/-- C19 from any mesh reachable from an equidistant initial mesh, `σ ∈ {1, 3/2, 2}`, `K = 4` -/
theorem gen_refine_grading_total_reach (glue : Bool) (X T : List Rat) (hX : StrictInc X) (hT : StrictInc T)
    (hX2 : 2 ≤ X.length) (hT2 : 2 ≤ T.length) (Ht Hx : Rat)
    (hXe : ∀ p ∈ pairs X, p.2 - p.1 = Hx) (hTe : ∀ p ∈ pairs T, p.2 - p.1 = Ht)
    (m : Mesh) (hm : Reach (init glue X T) m) (p q : Nat)
    (hσ : (p, q) = (1, 1) ∨ (p, q) = (3, 2) ∨ (p, q) = (2, 1)) :
    ∃ fuel m', MeshOps.refine_grading fuel m p q 4 = .ok m' ∧ Inv m' ∧ Refines m m' ∧
      ∀ c ∈ m'.leaves, InWindow c p q 4 := by
  obtain ⟨fuel, m', h1, h2⟩ := grading_total_reach glue X T hX hT hX2 hT2 Ht Hx hXe hTe m hm p q hσ
  exact ⟨fuel, m', by rw [gen_refine_grading_eq, h1], h2⟩

/-- the generated loop is NOT the unrepaired one: on witness 1 of `Props/C19.lean` (a reachable mesh on which
`assert not elem.children` in the space loop fires) it returns -/
theorem gen_refine_grading_witness1 :
    isOk (witness1 >>= fun m => MeshOps.refine_grading 50 m 2 1 4) = true ∧
    isErr (witness1 >>= fun m => grading false 50 m 2 1 4) "assert:grading-not-leaf" = true := by
  constructor <;> decide +kernel

/-! ## non-vacuity -/

/-- the generated loop really runs: glued unit square, root `0` refined twice in space, then grading with `σ = 2`:
≥ 10 leaves, all in the window -/
example : allInWindow
    (hist (init true [0, 1, 2, 3, 4] [0, 1]) [(0, .space), (4, .space)] >>= fun m =>
      MeshOps.refine_grading 50 m 2 1 4) 2 1 4 10 = true := by
  decide +kernel

example : allInWindow
    (hist (init true [0, 1, 2, 3, 4] [0, 1]) [(0, .space), (4, .space)] >>= fun m =>
      MeshOps.refine_grading 50 m 3 2 4) 3 2 4 8 = true := by
  decide +kernel

example : ∃ r, MeshOps.refine_grading_sweep m3 2 1 4 = .ok r ∧ Inv r.1 ∧ Refines m3 r.1 :=
  gen_refine_grading_sweep_ok m3 m3_inv 2 1 4

end Stbem.MeshOpsTie
