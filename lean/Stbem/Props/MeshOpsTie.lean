import Stbem.Lemmas.MeshOpsLoops
import Stbem.Props.C02

/-!
# MeshOpsTie — the refinement drivers REGENERATED FROM `src/mesh.py` equal the hand-written mesh model

`Stbem.Gen.MeshOps` is produced on every run by `translate/meshops.py` from the bodies of `Mesh.refine_time`,
`refine_space`, `refine`, `uniform_refine`, `uniform_refine_space`, `dorfler_refine_isotropic`,
`dorfler_refine_anisotropic`, `refine_grading` (Python `ast` → Lean `do` blocks, statement by statement in the order of
the source).  This file proves that every generated definition is the corresponding definition of the hand-written
A-layer model `Stbem.Model.Mesh` — for ALL inputs, errors included (the only hypothesis anywhere: the index list that
stands for `np.argsort` in `dorfler_refine_isotropic` consists of `len(eta_sqr)` valid indices).  If the source changes
so that the order of the statements, a sort key, the list a loop runs over, the replacement of time-refined
space-marked elements, or the treatment of already bisected elements differs, these theorems no longer check.

Section 3 restates the results of `Props/C02.lean` for the generated functions; `Props/MeshOpsTieC06.lean` and
`Props/MeshOpsTieC19.lean` do the same for C06 and C19 (separate files: the lemma libraries of C02Closure and C19
cannot be imported together).
-/
namespace Stbem.MeshOpsTie
open Stbem.Mesh Stbem.Gen

/-! ## 1. the generated definitions equal the hand-written ones -/

/-- `Mesh.refine_time(elem)`: the refined mesh is the model's `refineId … .time` (same errors) -/
theorem gen_refine_time_eq (m : Mesh) (c : Cell) :
    (·.1) <$> MeshOps.refine_time m c = refineId m c.id .time := by
  rw [refine_time_eq, refineAxisRef_fst]

/-- `Mesh.refine_space(elem)` -/
theorem gen_refine_space_eq (m : Mesh) (c : Cell) :
    (·.1) <$> MeshOps.refine_space m c = refineId m c.id .space := by
  rw [refine_space_eq, refineAxisRef_fst]

/-- `Mesh.refine(elem)`: same refined mesh, and the four returned elements carry the indices `refineBoth` reports -/
theorem gen_refine_eq (m : Mesh) (c : Cell) :
    (fun r => (r.1, r.2.map (·.id))) <$> MeshOps.refine m c = refineBoth m c.id := by
  unfold MeshOps.refine refineBoth
  simp only [refine_time_eq, refine_space_eq, lastChildren]
  cases h1 : MeshOps.refineAxisRef m c .time with
  | error e => rw [refineAxisRef_error h1]; rfl
  | ok r1 =>
    obtain ⟨g1, k1, k2, hk, hk1, hk2⟩ := refineAxisRef_ok h1
    rw [g1]
    simp only [bind, Except.bind, pure, Except.pure, hk, List.forIn_cons, List.forIn_nil, List.nil_append]
    cases h2 : MeshOps.refineAxisRef r1.1 k1 .space with
    | error e => rw [← hk1, refineAxisRef_error h2]; rfl
    | ok r2 =>
      obtain ⟨g2, a1, a2, ha, ha1, ha2⟩ := refineAxisRef_ok h2
      rw [← hk1, g2]
      simp only []
      cases h3 : MeshOps.refineAxisRef r2.1 k2 .space with
      | error e => rw [← hk2, refineAxisRef_error h3]; rfl
      | ok r3 =>
        obtain ⟨g3, b1, b2, hb, hb1, hb2⟩ := refineAxisRef_ok h3
        rw [← hk2, g3]
        simp [ha, hb, ha1, ha2, hb1, hb2, Functor.map, Except.map]

/-- `Mesh.uniform_refine()`: leaves sorted (stably) by time level and refined in time, then the NEW leaves sorted by
space level and refined in space -/
theorem gen_uniform_refine_eq (m : Mesh) : MeshOps.uniform_refine m = uniformRefine m := by
  unfold MeshOps.uniform_refine uniformRefine
  simp only [refine_time_eq, refine_space_eq, forIn_refine, bind_pure]

/-- `Mesh.uniform_refine_space()`: the leaves in their own order, no sort -/
theorem gen_uniform_refine_space_eq (m : Mesh) : MeshOps.uniform_refine_space m = uniformRefineSpace m := by
  unfold MeshOps.uniform_refine_space uniformRefineSpace
  simp only [refine_space_eq, forIn_refine, bind_pure]

/-- `dorfler_refine_isotropic(eta_sqr, theta)`; `s_idx` (the reversed `np.argsort`) is an input: any list of
`len(eta_sqr)` valid indices -/
theorem gen_dorfler_refine_isotropic_eq (m : Mesh) (eta : List Rat) (perm : List Nat) (theta : Rat)
    (hlen : perm.length = eta.length) (hidx : ∀ i ∈ perm, i < eta.length) :
    MeshOps.dorfler_refine_isotropic m eta perm theta = dorflerIso m eta perm theta := by
  unfold MeshOps.dorfler_refine_isotropic dorflerIso
  simp only [refine_time_eq, refine_space_eq]
  by_cases hl : eta.length = m.leaves.length
  · have hv : ∀ i ∈ perm, i < m.leaves.length ∧ i < eta.length := fun i hi => ⟨hl ▸ hidx i hi, hidx i hi⟩
    have hs : (idxPairs m.leaves eta perm).length = eta.length := by rw [idxPairs_length _ _ _ hv, hlen]
    rw [assertThat_true _ hl]
    have hloop := forIn_idx m.leaves eta
      (fun (x : Rat × Cell) (st : Rat × List Cell) =>
        (if st.1 + x.1 ≥ sumQ eta * theta ^ 2 then pure (ForInStep.done (st.1 + x.1, st.2 ++ [x.2]))
         else pure (ForInStep.yield (st.1 + x.1, st.2 ++ [x.2])) : Except String _)) perm (0, []) hv
    obtain ⟨cs, hb1, hb2⟩ := forIn_bulk (sumQ eta * theta ^ 2) (fun (s : List Cell) (x : Rat × Cell) => s ++ [x.2])
      (idxPairs m.leaves eta perm) 0 []
    rw [hb1] at hloop
    simp only [] at hloop
    have hbulk : cs ≥ sumQ eta * theta ^ 2 ∨
        (List.foldl (fun s (x : Rat × Cell) => s ++ [x.2]) []
          (takeBulk (sumQ eta * theta ^ 2) 0 (idxPairs m.leaves eta perm))).length = m.leaves.length := by
      rcases hb2 with h | h
      · exact Or.inl h
      · right
        rw [foldl_append_snd, List.nil_append, List.length_map, h, hs, hl]
    rw [ok_bind, hloop, ok_bind, assertThat_true _ hbulk, ok_bind, foldl_append_snd, List.nil_append, forIn_phase]
    have hne : ¬ (idxPairs m.leaves eta perm).length ≠ eta.length := fun h => h hs
    rw [if_neg (fun h => h hl)]
    show _ = (if (idxPairs m.leaves eta perm).length ≠ eta.length then _ else _)
    rw [if_neg hne, refinePhase_eq]
    congr 1
    funext r
    rw [forIn_phase_fst .space _ _ [], refinePhase_eq, bind_pure, map_eq_bind]
    rfl
  · rw [assertThat_false _ hl]
    simp [hl]
    rfl

/-- `dorfler_refine_anisotropic(eta_sqr, theta)`, for all inputs (errors included) -/
theorem gen_dorfler_refine_anisotropic_eq (m : Mesh) (eta : List (Rat × Rat)) (theta : Rat) :
    MeshOps.dorfler_refine_anisotropic m eta theta = dorflerAniso m eta theta := by
  unfold MeshOps.dorfler_refine_anisotropic dorflerAniso
  simp only [refine_time_eq, refine_space_eq]
  by_cases hl : eta.length = m.leaves.length
  · rw [assertThat_true _ hl, ok_bind]
    show (forIn (sortBy (fun a b => decide (a.1 > b.1)) (errsG eta m.leaves)) _ _ >>= _) = _
    have htags : ∀ x ∈ sortBy (fun a b => decide (a.1 > b.1)) (errsG eta m.leaves), x.2.2 ≤ 1 :=
      fun x hx => errs_tags eta m.leaves x ((sortBy_perm _ _).mem_iff.mp hx)
    obtain ⟨cs, h1, h2⟩ := forIn_bulk_aniso (sumQ (eta.map fun p => p.1 + p.2) * theta ^ 2) _ htags
    rw [h1, ok_bind, if_neg (fun h => h hl), hand_marked]
    have hbulk : cs ≥ sumQ (eta.map fun p => p.1 + p.2) * theta ^ 2 ∨
        (mtOf (takeBulk (sumQ (eta.map fun p => p.1 + p.2) * theta ^ 2) 0
          (sortBy (fun a b => decide (a.1 > b.1)) (errsG eta m.leaves)))).length +
        (msOf (takeBulk (sumQ (eta.map fun p => p.1 + p.2) * theta ^ 2) 0
          (sortBy (fun a b => decide (a.1 > b.1)) (errsG eta m.leaves)))).length = 2 * m.leaves.length := by
      rcases h2 with h | h
      · exact Or.inl h
      · right
        rw [mtOf_msOf_length, h, (sortBy_perm _ _).length_eq, errs_length eta m.leaves hl]
    dsimp only
    rw [assertThat_true _ hbulk, ok_bind, forIn_phase_fst .time _ _ [], refinePhase_eq, map_eq_bind, bind_assoc]
    show _ = (List.foldlM (phaseStep .time) (m, []) (sortBy (fun a b : Cell => decide (a.lt < b.lt)) (mtOf _)) >>= _)
    congr 1
    funext r
    rw [pure_bind, forIn_replace, ok_bind, List.nil_append, forIn_phase_fst .space _ _ [], refinePhase_eq,
      bind_pure, map_eq_bind]
    rfl
  · rw [assertThat_false _ hl]
    simp [hl]
    rfl

/-- one pass of the `while` loop of `refine_grading` (with the loop condition evaluated at its end) is the sweep of
the model in its REPAIRED form (`fixed = true`: bisected elements are skipped in the space loop) -/
theorem gen_refine_grading_sweep_eq (m : Mesh) (p q : Nat) (K : Rat) :
    MeshOps.refine_grading_sweep m p q K = gradeSweep true m p q K := by
  unfold MeshOps.refine_grading_sweep gradeSweep
  simp only [refine_time_eq, refine_space_eq, forIn_classify, ok_bind, List.nil_append, forIn_refine,
    forIn_space_skip, sortBy_isEmpty]
  congr 1
  funext m1
  congr 1
  funext m2
  rw [Bool.or_comm]

/-- `Mesh.refine_grading(sigma = p/q, K)` with `fuel` passes allowed -/
theorem gen_refine_grading_eq : ∀ (fuel : Nat) (m : Mesh) (p q : Nat) (K : Rat),
    MeshOps.refine_grading fuel m p q K = grading true fuel m p q K
  | 0, _, _, _, _ => rfl
  | fuel + 1, m, p, q, K => by
    rw [MeshOps.refine_grading, grading, gen_refine_grading_sweep_eq]
    congr 1
    funext r
    rw [gen_refine_grading_eq fuel]


/-- what the element-returning calls return: the model's refined mesh and two cells carrying the last two indices -/
theorem gen_refine_time_result (m : Mesh) (c : Cell) (r : Mesh × List Cell)
    (h : MeshOps.refine_time m c = .ok r) :
    refineId m c.id .time = .ok r.1 ∧ ∃ k1 k2, r.2 = [k1, k2] ∧ k1.id = r.1.nElems - 2 ∧ k2.id = r.1.nElems - 1 := by
  rw [refine_time_eq] at h; exact refineAxisRef_ok h

theorem gen_refine_space_result (m : Mesh) (c : Cell) (r : Mesh × List Cell)
    (h : MeshOps.refine_space m c = .ok r) :
    refineId m c.id .space = .ok r.1 ∧ ∃ k1 k2, r.2 = [k1, k2] ∧ k1.id = r.1.nElems - 2 ∧ k2.id = r.1.nElems - 1 := by
  rw [refine_space_eq] at h; exact refineAxisRef_ok h

/-! ## 2. the generated definitions are executable: closed examples (evaluated by the kernel) -/

/-- leaf indices and element counter of a result -/
def ids (r : Except String Mesh) : Option (List Nat × Nat) :=
  match r with
  | .ok m => some (m.leaves.map (·.id), m.nElems)
  | .error _ => none

def errOf {α} (r : Except String α) : Option String :=
  match r with
  | .ok _ => none
  | .error e => some e

/-- three roots `0, 1, 2` on the glued cylinder `[0,3) × [0,1)` -/
def m3 : Mesh := init true [0, 1, 2, 3] [0, 1]

def cell (m : Mesh) (id : Nat) : Cell := (findLeaf m id).getD ⟨0, 0, 0, 0, 0, 0, id, none, 0⟩

example : ids ((·.1) <$> MeshOps.refine_space m3 (cell m3 0)) = some ([1, 2, 3, 4], 5) := by decide +kernel
example : (fun r => (r.1.leaves.map (·.id), r.2.map (·.id))) <$> MeshOps.refine m3 (cell m3 1) =
    .ok ([0, 2, 5, 6, 7, 8], [5, 6, 7, 8]) := by decide +kernel
/-- a stale element is rejected (`assert not elem.children` of `refine_axis`) -/
example : ids (do let r ← MeshOps.refine_time m3 (cell m3 1); (·.1) <$> MeshOps.refine_time r.1 (cell m3 1)) = none := by
  decide +kernel
example : ids (MeshOps.uniform_refine m3) = some ([9, 10, 11, 12, 13, 14, 15, 16, 17, 18, 19, 20], 21) := by
  decide +kernel
example : ids (MeshOps.uniform_refine_space m3) = some ([3, 4, 5, 6, 7, 8], 9) := by decide +kernel
/-- `θ = 1/2`, indicators `1, 5, 2`: only root `1` is marked -/
example : ids (MeshOps.dorfler_refine_isotropic m3 [1, 5, 2] [1, 2, 0] (1 / 2)) = some ([0, 2, 5, 6, 7, 8], 9) := by
  decide +kernel
example : ids (MeshOps.dorfler_refine_isotropic m3 [1, 5, 2] [1, 2, 0] (9 / 10)) =
    some ([0, 7, 8, 9, 10, 11, 12, 13, 14], 15) := by decide +kernel
/-- wrong length: `assert len(eta_sqr) == N` -/
example : errOf (MeshOps.dorfler_refine_isotropic m3 [1, 5] [1, 0] (1 / 2)) = some "assert:len" := by decide +kernel
/-- root `1` marked in space, root `2` in time and in space: the space phase runs over the two time-children of `2`,
found in the parent table -/
example : ids (MeshOps.dorfler_refine_anisotropic m3 [(1, 0), (0, 5), (2, 2)] (9 / 10)) =
    some ([0, 5, 6, 7, 8, 9, 10], 11) := by decide +kernel
example : ids (do
    let m ← MeshOps.dorfler_refine_isotropic m3 [1, 5, 2] [1, 2, 0] (1 / 2)
    MeshOps.dorfler_refine_anisotropic m [(1, 0), (0, 5), (2, 2), (1, 1), (3, 0), (0, 0)] (9 / 10)) =
    some ([6, 8, 10, 11, 12, 15, 16, 17, 18, 19, 20, 21, 22], 23) := by decide +kernel
/-- grading with `σ = 2`, `K = 4` of three roots of size `1 × 2` (`h_x² = 4 = K h_t`): one sweep bisects every root once
in space … -/
example : (fun r => (r.1.leaves.length, r.2)) <$> MeshOps.refine_grading_sweep (init true [0, 2, 4, 6] [0, 1]) 2 1 4 =
    .ok (6, true) := by decide +kernel
/-- … and the loop ends after the second sweep finds nothing to mark -/
example : ids (MeshOps.refine_grading 5 (init true [0, 2, 4, 6] [0, 1]) 2 1 4) = some ([3, 4, 5, 6, 7, 8], 9) := by
  decide +kernel
example : errOf (MeshOps.refine_grading 1 (init true [0, 2, 4, 6] [0, 1]) 2 1 4) = some "fuel" := by decide +kernel

/-! ## 3. the theorems of C02 for the generated-from-source functions -/

theorem ok_of_map_ok {α β : Type} {g : α → β} {x : Except String α} {b : β} (h : g <$> x = .ok b) :
    ∃ a, x = .ok a ∧ g a = b := by
  cases x with
  | error e => cases h
  | ok a => exact ⟨a, rfl, by injection h⟩

theorem map_ok_of_ok {α β : Type} {g : α → β} {x : Except String α} {a : α} (h : x = .ok a) :
    g <$> x = .ok (g a) := by rw [h]; rfl

/-- C02: whatever element is passed, if the generated `refine_time` / `refine_space` returns, the invariant holds and
the result refines the input -/
theorem gen_refine_time_inv (m : Mesh) (h : Inv m) (c : Cell) (r : Mesh × List Cell)
    (hr : MeshOps.refine_time m c = .ok r) : Inv r.1 ∧ Refines m r.1 :=
  refineId_inv m h c.id .time r.1 (by rw [← gen_refine_time_eq, hr]; rfl)

theorem gen_refine_space_inv (m : Mesh) (h : Inv m) (c : Cell) (r : Mesh × List Cell)
    (hr : MeshOps.refine_space m c = .ok r) : Inv r.1 ∧ Refines m r.1 :=
  refineId_inv m h c.id .space r.1 (by rw [← gen_refine_space_eq, hr]; rfl)

/-- C02: on a leaf of a mesh satisfying the invariant the generated calls never fail (no assertion fires) -/
theorem gen_refine_time_ok (m : Mesh) (h : Inv m) (c : Cell) (hc : c ∈ m.leaves) :
    ∃ r, MeshOps.refine_time m c = .ok r ∧ Inv r.1 ∧ Refines m r.1 := by
  obtain ⟨m', h1, h2, h3⟩ := refineId_ok m h c hc .time
  rw [← gen_refine_time_eq] at h1
  obtain ⟨r, hr, rfl⟩ := ok_of_map_ok h1
  exact ⟨r, hr, h2, h3⟩

theorem gen_refine_space_ok (m : Mesh) (h : Inv m) (c : Cell) (hc : c ∈ m.leaves) :
    ∃ r, MeshOps.refine_space m c = .ok r ∧ Inv r.1 ∧ Refines m r.1 := by
  obtain ⟨m', h1, h2, h3⟩ := refineId_ok m h c hc .space
  rw [← gen_refine_space_eq] at h1
  obtain ⟨r, hr, rfl⟩ := ok_of_map_ok h1
  exact ⟨r, hr, h2, h3⟩

theorem gen_refine_ok (m : Mesh) (h : Inv m) (c : Cell) (hc : c ∈ m.leaves) :
    ∃ r, MeshOps.refine m c = .ok r ∧ Inv r.1 ∧ Refines m r.1 := by
  obtain ⟨r', h1, h2, h3⟩ := refineBoth_ok m h c hc
  rw [← gen_refine_eq] at h1
  obtain ⟨r, hr, rfl⟩ := ok_of_map_ok h1
  exact ⟨r, hr, h2, h3⟩

theorem gen_uniform_refine_inv (m : Mesh) (h : Inv m) (m' : Mesh) (hr : MeshOps.uniform_refine m = .ok m') :
    Inv m' ∧ Refines m m' :=
  uniformRefine_inv m h m' (by rw [← gen_uniform_refine_eq, hr])

theorem gen_uniform_refine_space_inv (m : Mesh) (h : Inv m) (m' : Mesh)
    (hr : MeshOps.uniform_refine_space m = .ok m') : Inv m' ∧ Refines m m' :=
  uniformRefineSpace_inv m h m' (by rw [← gen_uniform_refine_space_eq, hr])

theorem gen_dorfler_refine_isotropic_inv (m : Mesh) (h : Inv m) (eta : List Rat) (perm : List Nat) (theta : Rat)
    (hlen : perm.length = eta.length) (hidx : ∀ i ∈ perm, i < eta.length) (m' : Mesh)
    (hr : MeshOps.dorfler_refine_isotropic m eta perm theta = .ok m') : Inv m' ∧ Refines m m' :=
  dorflerIso_inv m h eta perm theta m' (by rw [← gen_dorfler_refine_isotropic_eq m eta perm theta hlen hidx, hr])

theorem gen_dorfler_refine_anisotropic_inv (m : Mesh) (h : Inv m) (eta : List (Rat × Rat)) (theta : Rat) (m' : Mesh)
    (hr : MeshOps.dorfler_refine_anisotropic m eta theta = .ok m') : Inv m' ∧ Refines m m' :=
  dorflerAniso_inv m h eta theta m' (by rw [← gen_dorfler_refine_anisotropic_eq, hr])

theorem gen_refine_grading_inv (fuel : Nat) (m : Mesh) (h : Inv m) (p q : Nat) (K : Rat) (m' : Mesh)
    (hr : MeshOps.refine_grading fuel m p q K = .ok m') : Inv m' ∧ Refines m m' :=
  grading_inv true fuel m h p q K m' (by rw [← gen_refine_grading_eq, hr])

/-- the hypotheses are satisfiable: the glued three-root mesh satisfies the invariant, `[1, 2, 0]` is a list of three
valid indices, and the calls return -/
theorem m3_inv : Inv m3 :=
  init_inv true [0, 1, 2, 3] [0, 1] (by simp [StrictInc]; norm_num) (by simp [StrictInc]) (by simp) (by simp)

example : ∃ m', MeshOps.dorfler_refine_isotropic m3 [1, 5, 2] [1, 2, 0] (9 / 10) = .ok m' ∧ Inv m' ∧ Refines m3 m' := by
  have h : (MeshOps.dorfler_refine_isotropic m3 [1, 5, 2] [1, 2, 0] (9 / 10)).toBool = true := by decide +kernel
  cases hr : MeshOps.dorfler_refine_isotropic m3 [1, 5, 2] [1, 2, 0] (9 / 10) with
  | error e => rw [hr] at h; cases h
  | ok m' => exact ⟨m', rfl, gen_dorfler_refine_isotropic_inv m3 m3_inv _ _ _ (by decide) (by decide) m' hr⟩

example : ∃ r, MeshOps.refine m3 (cell m3 1) = .ok r ∧ Inv r.1 ∧ Refines m3 r.1 :=
  gen_refine_ok m3 m3_inv (cell m3 1) (by decide +kernel)

end Stbem.MeshOpsTie
