import Stbem.Lemmas.EstimDet

/-!
# C20 (supplement) — completeness of the model's linear solve in terms of the determinant

`Stbem.Estim.solve` (Model/Estim.lean) stands for `np.linalg.solve` in `HH2ErrorEstimator.estimate`.  Its elimination
searches the rows for a non-zero leading entry, i.e. it pivots; therefore it is complete for EVERY regular matrix, not
only for those with non-zero leading principal minors.  `Props/C20.lean` states this with injectivity on vectors
(`solve_complete`); here the hypothesis is the determinant of the Mathlib matrix with the same entries, and the two
hypotheses are shown to be equivalent.
-/
namespace Stbem.Estim

/-- injective on vectors of length `n` ⇔ non-zero determinant -/
theorem regular_iff_det {n : Nat} {A : List (List Rat)} (hA : A.length = n) (hrow : ∀ r ∈ A, r.length = n) :
    InjOn A n ↔ (toMat n A).det ≠ 0 := injOn_iff_det_ne_zero hA hrow

/-- **`solve` is complete**: for every square matrix with non-zero determinant and every right-hand side it returns
a vector, that vector solves the system and is its only solution -/
theorem solve_complete_det {A : List (List Rat)} {b : List Rat} (hsq : A.length = b.length)
    (hrow : ∀ r ∈ A, r.length = b.length) (hdet : (toMat b.length A).det ≠ 0) :
    ∃ y, solve A b = some y ∧ mulVec A y = b ∧ y.length = b.length ∧
      ∀ p, mulVec A p = b → p.length = b.length → y = p := by
  have hinj := (injOn_iff_det_ne_zero hsq hrow).mpr hdet
  obtain ⟨y, hy, h1, h2⟩ := solve_complete' hsq hrow hinj
  exact ⟨y, hy, h1, h2, fun _ hp hpl => solve_unique hinj hy hp hpl⟩

/-- **`none` only for singular matrices**: if `solve` refuses a square system, the determinant vanishes -/
theorem solve_none_det {A : List (List Rat)} {b : List Rat} (hsq : A.length = b.length)
    (hrow : ∀ r ∈ A, r.length = b.length) (h : solve A b = none) : (toMat b.length A).det = 0 := by
  by_contra hdet
  obtain ⟨y, hy, -⟩ := solve_complete_det hsq hrow hdet
  rw [hy] at h
  cases h

/-- for a singular square matrix `solve` cannot answer every right-hand side: whenever it answers, the answer is a
solution (`solve_sound`), and a singular matrix is not surjective -/
theorem solve_singular_some_none {n : Nat} {A : List (List Rat)} (hA : A.length = n)
    (hrow : ∀ r ∈ A, r.length = n) (hdet : (toMat n A).det = 0) :
    ∃ b : List Rat, b.length = n ∧ solve A b = none := by
  by_contra hno
  have hall : ∀ b : List Rat, b.length = n → ∃ y, solve A b = some y := by
    intro b hb
    cases hs : solve A b with
    | none => exact absurd ⟨b, hb, hs⟩ hno
    | some y => exact ⟨y, rfl⟩
  -- the matrix is surjective, hence a unit, hence of non-zero determinant
  have hsurj : Function.Surjective (toMat n A).mulVec := by
    intro v
    obtain ⟨y, hy⟩ := hall (List.ofFn v) (by simp)
    obtain ⟨h1, h2, -⟩ := solve_sound hy
    refine ⟨toVec n y, ?_⟩
    rw [← toVec_mulVec hA hrow (by simpa using h2), h1, toVec_ofFn]
  have hu : IsUnit (toMat n A) := Matrix.mulVec_surjective_iff_isUnit.mp hsurj
  rw [Matrix.isUnit_iff_isUnit_det, isUnit_iff_ne_zero] at hu
  exact hu hdet

/-- non-vacuity: a regular matrix with a zero in the first diagonal position (`det = -1`) -/
example : ([[0, 1], [1, 0]] : List (List Rat)).length = [2, (3 : Rat)].length ∧
    (∀ r ∈ ([[0, 1], [1, 0]] : List (List Rat)), r.length = [2, (3 : Rat)].length) ∧
    (toMat [2, (3 : Rat)].length [[0, 1], [1, 0]]).det ≠ 0 ∧ solve [[0, 1], [1, 0]] [2, 3] = some [3, 2] := by
  refine ⟨rfl, by decide, ?_, by decide +kernel⟩
  simp [toMat, Matrix.det_fin_two]

/-- non-vacuity of `solve_none_det` / `solve_singular_some_none` -/
example : solve [[1, 2], [2, 4]] [1, 0] = none ∧ (toMat 2 [[1, 2], [2, 4]]).det = 0 := by
  refine ⟨by decide +kernel, ?_⟩
  simp [toMat, Matrix.det_fin_two]
  norm_num

end Stbem.Estim
