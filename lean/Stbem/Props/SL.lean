import Stbem.Lemmas.SLAlign
import Stbem.Lemmas.SLLattice
import Stbem.Lemmas.SLBilformPw
import Stbem.Lemmas.SLEval

/-!
# SL — decision logic of the single-layer operator (`Stbem.Model.SingleLayer`)

Final statements only; the proofs live in `Stbem/Lemmas/SL*.lean`.  Every theorem is stated for
*all* rational inputs (and all configurations `cfg`, special-function records `S`, rules `log`,
piece lists `gs`) that satisfy its hypotheses.  Every section ends with closed examples
(evaluated by the kernel) showing that the hypotheses can be met and the statements are not empty.

Vocabulary (defined in the lemma files):
* `Panel.covers p x y` : `p.a ≤ x < p.b ∧ p.c ≤ y < p.d` (half-open rectangle);
* `coverCount ps x y`  : number of entries of `ps` covering `(x,y)`; `area ps` : sum of the areas;
* `Grid cfg δ`, `WellPosed cfg δ a b c d`, `OnLat δ x` : the lattice precondition of totality;
* `exchTrial`, `exchTest` : the two elements with their space data (interval, piece) exchanged;
* `shiftT δ e` : the element moved by `δ` in time;
* `distA`, `distB` : (seam-aware) distance of the evaluation parameter to `e.x0`, `e.x1`.
-/
namespace Stbem.SL
open Stbem.Quad Stbem.Formulas.Q

/-! ## concrete data for the non-vacuity examples -/

/-- closed curve of length 4 with the thresholds `1e-10`, `1e-8`, `1e-9` of the code -/
def cfgEx : Cfg := ⟨true, 4, 1/10^10, 1/10^8, 1/10^9⟩
/-- rational stand-ins for the special functions -/
def SEx : Fns :=
  ⟨fun x => 1 + x, fun x => x, fun x => x, fun x => 1 - x, fun x => x, fun x => x, fun x => x, 3, 1/12, 2, 1/6⟩
def logEx : Rule1 := [⟨1/4, 1/2⟩, ⟨3/4, 1/2⟩]
def gsEx : List Piece := [⟨0, 0, 0, 1, 0⟩, ⟨2, 2, 0, 0, 1⟩]
def elA : Elem := ⟨0, 1, 0, 1, 0⟩
def elB : Elem := ⟨1, 2, 1, 2, 0⟩
def elC : Elem := ⟨0, 2, 2, 3, 1⟩

/-! ## 1. totality: no assertion fires, fuel 12 suffices -/

/-- On a lattice `δℤ` finer than no threshold (`Grid`), for ordered non-degenerate intervals inside
`[0, len]` whose end points lie on the lattice, and which — on a closed curve — do not overlap when
they meet at the seam (`WellPosed`), `panels` returns a panel list: none of the assertions
`size`, `order`, `lex`, `isclose`, `seam`, `contained`, `overlap` fires, in particular every
recursive call satisfies the ordering assertion.  The recursion depth is at most `5`. -/
theorem panels_total {cfg : Cfg} {δ a b c d : Rat} (hG : Grid cfg δ) (h : WellPosed cfg δ a b c d) :
    ∃ ps, panels cfg 12 a b c d = .ok ps :=
  panels_total_of_le hG h 12 (by omega)

theorem panels_total_depth {cfg : Cfg} {δ a b c d : Rat} (hG : Grid cfg δ)
    (h : WellPosed cfg δ a b c d) (fuel : Nat) (hf : 5 ≤ fuel) :
    ∃ ps, panels cfg fuel a b c d = .ok ps :=
  panels_total_of_le hG h fuel hf

/-- a successful result does not depend on the fuel -/
theorem panels_fuel_irrelevant {cfg : Cfg} {fuel fuel' : Nat} {a b c d : Rat} {ps : List Panel}
    (h : panels cfg fuel a b c d = .ok ps) (hf : fuel ≤ fuel') : panels cfg fuel' a b c d = .ok ps :=
  panels_fuel_mono h hf

/-- the seam clause of `WellPosed` holds for elements of nested (e.g. dyadic) meshes — any two
intervals have disjoint interiors or one contains the other — none of which is the whole curve -/
theorem seam_clause_of_nested {len a b c d : Rat} (hcd : c < d) (hac : a ≤ c)
    (hb : b ≤ len) (hnest : b ≤ c ∨ d ≤ a ∨ (c ≤ a ∧ b ≤ d) ∨ (a ≤ c ∧ d ≤ b))
    (hw1 : ¬(a = 0 ∧ b = len)) (hw2 : ¬(c = 0 ∧ d = len)) (h0 : a = 0) (hd : d = len) : b ≤ c := by
  rcases hnest with h | h | ⟨h1, h2⟩ | ⟨h1, h2⟩
  · exact h
  · linarith [hcd]
  · exact absurd ⟨by linarith, hd⟩ hw2
  · exact absurd ⟨h0, by linarith⟩ hw1

example : Grid cfgEx (1/2) := by constructor <;> norm_num [cfgEx]
example : WellPosed cfgEx (1/2) 0 3 1 2 :=
  ⟨⟨0, by norm_num⟩, ⟨6, by norm_num⟩, ⟨2, by norm_num⟩, ⟨4, by norm_num⟩, by norm_num, by norm_num,
    Or.inl (by norm_num), by norm_num, by norm_num [cfgEx], by norm_num [cfgEx],
    fun _ _ h => by norm_num [cfgEx] at h⟩
example : panels cfgEx 12 0 3 1 2 =
    .ok [⟨.duffyMx, 0, 1, 1, 2⟩, ⟨.duffyId, 1, 2, 1, 2⟩, ⟨.duffyMy, 2, 3, 1, 2⟩] := by decide +kernel
example : panels cfgEx 12 0 1 1 3 = .ok [⟨.duffyMx, 0, 1, 1, 2⟩, ⟨.logMy, 0, 1, 2, 3⟩] := by
  decide +kernel
example : panels cfgEx 12 0 1 2 4 = .ok [⟨.logMy, 0, 1, 2, 3⟩, ⟨.duffyMy, 0, 1, 3, 4⟩] := by
  decide +kernel
/-- the seam clause of `WellPosed` cannot be dropped: lattice intervals that meet at the seam of a
closed curve *and* overlap run into `assert b < c` -/
example : panels cfgEx 12 0 3 2 4 = .error "assert:seam" := by decide +kernel
example : panels cfgEx 12 0 2 0 4 = .error "assert:seam" := by decide +kernel

/-! ## 2. tiling -/

/-- Whenever `panels` succeeds, the half-open panels tile `[a,b)×[c,d)`: every point of the rectangle
lies in exactly one panel, no point outside lies in any, every panel is a non-degenerate rectangle
inside `[a,b]×[c,d]`, and the areas add up. -/
theorem panels_tile {cfg : Cfg} {fuel : Nat} {a b c d : Rat} {ps : List Panel}
    (h : panels cfg fuel a b c d = .ok ps) :
    (∀ x y, a ≤ x → x < b → c ≤ y → y < d → coverCount ps x y = 1) ∧
    (∀ x y, ¬(a ≤ x ∧ x < b ∧ c ≤ y ∧ y < d) → coverCount ps x y = 0) ∧
    (∀ p ∈ ps, a ≤ p.a ∧ p.a < p.b ∧ p.b ≤ b ∧ c ≤ p.c ∧ p.c < p.d ∧ p.d ≤ d) ∧
    area ps = (b - a) * (d - c) := by
  obtain ⟨n, _, ht⟩ := panels_tiles cfg fuel a b c d ps h
  refine ⟨fun x y h1 h2 h3 h4 => ?_, fun x y hn => ?_, ht.inside, ht.area⟩
  · rw [ht.count, ind, if_pos ⟨h1, h2, h3, h4⟩]
  · rw [ht.count, ind, if_neg hn]

/-- the same as existence and uniqueness of the covering list entry -/
theorem panels_cover_unique {cfg : Cfg} {fuel : Nat} {a b c d : Rat} {ps : List Panel}
    (h : panels cfg fuel a b c d = .ok ps) {x y : Rat} (h1 : a ≤ x) (h2 : x < b) (h3 : c ≤ y) (h4 : y < d) :
    ∃ p ∈ ps, p.covers x y ∧ ∀ q ∈ ps, q.covers x y → q = p := by
  have := (panels_tile h).1 x y h1 h2 h3 h4
  obtain ⟨p, hp, hc, hu⟩ := countP_one _ ps this
  exact ⟨p, hp, of_decide_eq_true hc, fun q hq hqc => hu q hq (decide_eq_true hqc)⟩

/-- the assertions that are passed: a successful call had `a < b`, `c < d`, both sizes above
`minSize`, and lexicographically ordered intervals -/
theorem panels_ok_pre {cfg : Cfg} {fuel : Nat} {a b c d : Rat} {ps : List Panel}
    (h : panels cfg fuel a b c d = .ok ps) :
    a < b ∧ c < d ∧ cfg.minSize < b - a ∧ cfg.minSize < d - c ∧ lexLe a b c d = true := by
  obtain ⟨n, _, ht⟩ := panels_tiles cfg fuel a b c d ps h
  have hB := ht.base
  exact ⟨hB.ab, hB.cd, hB.sx, hB.sy, (lexLe_iff a b c d).mpr hB.lex⟩

example : coverCount [⟨.duffyMx, 0, 1, 1, 2⟩, ⟨.duffyId, 1, 2, 1, 2⟩, ⟨.duffyMy, 2, 3, 1, 2⟩] (5/2) (3/2) = 1 := by
  decide +kernel
example : area [⟨.duffyMx, 0, 1, 1, 2⟩, ⟨.duffyId, 1, 2, 1, 2⟩, ⟨.duffyMy, 2, 3, 1, 2⟩] = (3 - 0) * (2 - 1) := by
  decide +kernel

/-! ## 3. alignment of the rule kinds with the singular set -/

/-- Whenever `panels` succeeds, the kind of every panel matches its position:
* `duffyId`: a square on the diagonal;
* `duffyMx` (singular at the corner `(b,c)`): `b = c`, the corner lies on the diagonal;
* `duffyMy` (singular at the corner `(a,d)`): `a = d`, or the corner is the seam pair `(0, len)` of a
  closed curve and the intervals are disjoint;
* `logMx` (graded towards `(b,c)`): disjoint, and — on a closed curve — the direct gap `c − b` is
  smaller than the gap `len − d + a` through the seam;
* `logMy` (graded towards `(a,d)`): closed curve, disjoint, the gap through the seam is not larger.
The Duffy panels at `(b,c)` and at the seam are squares (exactly, or up to the `1e-10` test). -/
theorem panels_aligned {cfg : Cfg} {fuel : Nat} {a b c d : Rat} {ps : List Panel}
    (h : panels cfg fuel a b c d = .ok ps) : ∀ p ∈ ps,
    (p.kind = .duffyId → p.a = p.c ∧ p.b = p.d) ∧
    (p.kind = .duffyMx → p.b = p.c ∧ p.squarish cfg) ∧
    (p.kind = .duffyMy → p.a = p.d ∨
      (cfg.glue = true ∧ p.a = 0 ∧ p.d = cfg.len ∧ p.b < p.c ∧ p.squarish cfg)) ∧
    (p.kind = .logMx → p.b < p.c ∧ (cfg.glue = false ∨ p.c - p.b < cfg.len - p.d + p.a)) ∧
    (p.kind = .logMy → cfg.glue = true ∧ p.b < p.c ∧ cfg.len - p.d + p.a ≤ p.c - p.b) := by
  obtain ⟨n, _, ht⟩ := panels_tiles cfg fuel a b c d ps h
  intro p hp
  have hA := ht.aligned p hp
  unfold Panel.Aligned at hA
  refine ⟨fun hk => ?_, fun hk => ?_, fun hk => ?_, fun hk => ?_, fun hk => ?_⟩ <;>
    rw [hk] at hA <;> exact hA

/-- no panel other than `duffyId` has a diagonal point in its open rectangle -/
theorem panels_open_misses_diag {cfg : Cfg} {fuel : Nat} {a b c d : Rat} {ps : List Panel}
    (h : panels cfg fuel a b c d = .ok ps) {p : Panel} (hp : p ∈ ps) (hk : p.kind ≠ .duffyId)
    {x y : Rat} (hx1 : p.a < x) (hx2 : x < p.b) (hy1 : p.c < y) (hy2 : y < p.d) : x ≠ y := by
  obtain ⟨n, _, ht⟩ := panels_tiles cfg fuel a b c d ps h
  exact (ht.aligned p hp).open_misses_diag hk hx1 hx2 hy1 hy2

/-- a closed panel meets the diagonal only if it is `duffyId`, or in the corner at which its rule
is singular -/
theorem panels_closed_meets_diag {cfg : Cfg} {fuel : Nat} {a b c d : Rat} {ps : List Panel}
    (h : panels cfg fuel a b c d = .ok ps) {p : Panel} (hp : p ∈ ps)
    {x : Rat} (hx1 : p.a ≤ x) (hx2 : x ≤ p.b) (hy1 : p.c ≤ x) (hy2 : x ≤ p.d) :
    p.kind = .duffyId ∨ (p.kind = .duffyMx ∧ x = p.b ∧ x = p.c) ∨
      (p.kind = .duffyMy ∧ x = p.a ∧ x = p.d) := by
  obtain ⟨n, _, ht⟩ := panels_tiles cfg fuel a b c d ps h
  exact (ht.aligned p hp).closed_meets_diag hx1 hx2 hy1 hy2

/-- On a closed curve, inside `[0, len]`, a pair `(x,y)` with `p.a ≤ x`, `y ≤ p.d` (in particular: of the closed panel) is
identified through the seam (`y − x = len`) only in the corner `(p.a, p.d) = (0, len)`; such a panel is a seam Duffy
panel — **except** in two configurations in which the seam singularity is *not* resolved by the
rule: `duffyMx` with `b = c` (two elements that touch at both ends, i.e. a closed curve of two
elements of equal size) and `duffyId` (one element covering the whole closed curve). -/
theorem panels_seam {cfg : Cfg} {fuel : Nat} {a b c d : Rat} {ps : List Panel}
    (h : panels cfg fuel a b c d = .ok ps) (hg : cfg.glue = true) (h0 : 0 ≤ a) (hL : d ≤ cfg.len)
    {p : Panel} (hp : p ∈ ps) {x y : Rat} (hx1 : p.a ≤ x) (hy2 : y ≤ p.d) (hxy : y - x = cfg.len) :
    (x = 0 ∧ y = cfg.len ∧ p.a = 0 ∧ p.d = cfg.len) ∧
    ((p.kind = .duffyMy ∧ p.b < p.c) ∨ (p.kind = .duffyMx ∧ p.b = p.c) ∨
      (p.kind = .duffyId ∧ p.a = p.c ∧ p.b = p.d)) := by
  obtain ⟨n, _, ht⟩ := panels_tiles cfg fuel a b c d ps h
  obtain ⟨i1, _, _, _, _, i6⟩ := ht.inside p hp
  have e1 : p.a = 0 := by linarith
  have e2 : p.d = cfg.len := by linarith
  exact ⟨⟨by linarith, by linarith, e1, e2⟩, ht.seam hg h0 p hp e1 e2⟩

/-- both exceptional configurations of `panels_seam` occur -/
example : panels cfgEx 12 0 2 2 4 = .ok [⟨.duffyMx, 0, 2, 2, 4⟩] := by decide +kernel
example : panels cfgEx 12 0 4 0 4 = .ok [⟨.duffyId, 0, 4, 0, 4⟩] := by decide +kernel
/-- the regular seam case -/
example : panels cfgEx 12 0 1 3 4 = .ok [⟨.duffyMy, 0, 1, 3, 4⟩] := by decide +kernel
/-- graded towards the nearer corner -/
example : panels cfgEx 12 (1/2) 1 3 (7/2) = .ok [⟨.logMy, 1/2, 1, 3, 7/2⟩] := by decide +kernel
example : panels cfgEx 12 1 2 (5/2) 3 = .ok [⟨.logMx, 1, 2, 5/2, 3⟩] := by decide +kernel

/-! ## 4. `bilform` and `bilformMatrix` -/

/-- causality guard: a test element that ends before the trial element starts gives `0`
(on both paths, whatever the space data) -/
theorem bilform_acausal (cfg : Cfg) (S : Fns) (log : Rule1) (gs : List Piece) (pw : Bool)
    (trial test : Elem) (h : test.t1 ≤ trial.t0) : bilform cfg S log gs pw trial test = .ok 0 :=
  bilform_acausal_zero cfg S log gs pw trial test h

/-- independently of the guard the generated kernels vanish for `(a,b)` before `(c,d)` -/
theorem bilform_kernel_acausal (S : Fns) {a b c d : Rat} (hab : a < b) (hcd : c < d) (hbc : b ≤ c) :
    (∀ r, sl_dtk S a b c d r = 0) ∧ (∀ h, stik_1 S a b c d h = 0) ∧ (∀ h k, stik_2 S a b c d h k = 0) ∧
    (∀ h k, stik_3 S a b c d h k = 0) ∧ (∀ h k l, stik_4 S a b c d h k l = 0) :=
  ⟨fun r => sl_dtk_acausal S r hab hcd hbc, fun h => stik_1_acausal S h hab hcd hbc,
   fun h k => stik_2_acausal S h k hab hcd hbc, fun h k => stik_3_acausal S h k hab hcd hbc,
   fun h k l => stik_4_acausal S h k l hab hcd hbc⟩

/-- … through `fint_k(a, b, …) = 0` for `a ≤ b` -/
theorem fint_acausal (S : Fns) {a b : Rat} (h : a ≤ b) :
    (∀ h', fint_1 S a b h' = 0) ∧ (∀ h' k, fint_2 S a b h' k = 0) ∧ (∀ h' k, fint_3 S a b h' k = 0) ∧
    (∀ h' k l, fint_4 S a b h' k l = 0) :=
  ⟨fun h' => fint_1_zero S h' h, fun h' k => fint_2_zero S h' k h, fun h' k => fint_3_zero S h' k h,
   fun h' k l => fint_4_zero S h' k l h⟩

/-- … hence the closed-form path returns `0` there for whatever space intervals -/
theorem stik_acausal_zero (S : Fns) (fuel : Nat) {ta tb sa sb : Rat} (xa xb ya yb v : Rat)
    (h1 : ta < tb) (h2 : sa < sb) (h3 : tb ≤ sa)
    (h : stik S fuel ta tb sa sb xa xb ya yb = .ok v) : v = 0 :=
  stik_acausal S fuel ta tb sa sb xa xb ya yb v h1 h2 h3 h

/-- `bilformMatrix` is exactly the table of the single calls `bilform(trial_j, test_i)`:
rows = test elements, columns = trial elements -/
theorem bilformMatrix_table (cfg : Cfg) (S : Fns) (log : Rule1) (gs : List Piece) (pw : Bool)
    (tests trials : List Elem) (M : List (List Rat)) :
    bilformMatrix cfg S log gs pw tests trials = .ok M ↔
      M.length = tests.length ∧
      ∀ i (hi : i < tests.length) (hi' : i < M.length),
        M[i].length = trials.length ∧
        ∀ j (hj : j < trials.length) (hj' : j < M[i].length),
          bilform cfg S log gs pw trials[j] tests[i] = .ok M[i][j] :=
  bilformMatrix_ok_iff cfg S log gs pw tests trials M

/-- block lower triangular in time -/
theorem bilformMatrix_lower (cfg : Cfg) (S : Fns) (log : Rule1) (gs : List Piece) (pw : Bool)
    (tests trials : List Elem) (M : List (List Rat))
    (h : bilformMatrix cfg S log gs pw tests trials = .ok M)
    (i j : Nat) (hi : i < tests.length) (hj : j < trials.length) (hi' : i < M.length)
    (hj' : j < M[i].length) (hc : tests[i].t1 ≤ trials[j].t0) : M[i][j] = 0 :=
  bilformMatrix_block_lower cfg S log gs pw tests trials M h i j hi hj hi' hj' hc

/-- exchanging the space data (interval and piece) of the two elements, times kept, does not change
the result of the quadrature path — including the error, if any -/
theorem bilform_exchange_quad (cfg : Cfg) (S : Fns) (log : Rule1) (gs : List Piece) (trial test : Elem) :
    bilform cfg S log gs false
        { trial with x0 := test.x0, x1 := test.x1, piece := test.piece }
        { test with x0 := trial.x0, x1 := trial.x1, piece := trial.piece } =
      bilform cfg S log gs false trial test :=
  bilform_exchange cfg S log gs trial test

/-- the same on the closed-form path, for non-degenerate space intervals -/
theorem bilform_exchange_exact (cfg : Cfg) (S : Fns) (log : Rule1) (gs : List Piece) (trial test : Elem)
    (hx : test.x0 < test.x1) (hy : trial.x0 < trial.x1) :
    bilform cfg S log gs true
        { trial with x0 := test.x0, x1 := test.x1, piece := test.piece }
        { test with x0 := trial.x0, x1 := trial.x1, piece := trial.piece } =
      bilform cfg S log gs true trial test :=
  bilform_exchange_pw cfg S log gs trial test hx hy

/-- `spacetime_integrated_kernel` is symmetric in its two space intervals (any fuels, whenever both
calls succeed) … -/
theorem stik_symm (S : Fns) {fuel fuel' : Nat} {ta tb sa sb xa xb ya yb v w : Rat}
    (h : stik S fuel ta tb sa sb xa xb ya yb = .ok v)
    (h' : stik S fuel' ta tb sa sb ya yb xa xb = .ok w) : v = w :=
  stik_swap S h h'

/-- … and for non-degenerate intervals it always succeeds (depth `≤ 5`; its assertions
`assert:lex` and `assert:contained` are unreachable) -/
theorem stik_succeeds (S : Fns) {ta tb sa sb xa xb ya yb : Rat} (hx : xa < xb) (hy : ya < yb)
    (fuel : Nat) (hf : 5 ≤ fuel) : ∃ v, stik S fuel ta tb sa sb xa xb ya yb = .ok v :=
  stik_total S hx hy fuel hf

/-- a common shift of all four time values does not change `bilform` (either path) -/
theorem bilform_shift (cfg : Cfg) (S : Fns) (log : Rule1) (gs : List Piece) (pw : Bool) (δ : Rat)
    (trial test : Elem) :
    bilform cfg S log gs pw { trial with t0 := trial.t0 + δ, t1 := trial.t1 + δ }
        { test with t0 := test.t0 + δ, t1 := test.t1 + δ } =
      bilform cfg S log gs pw trial test :=
  bilform_time_shift cfg S log gs pw δ trial test

/-- … because the kernels depend on time differences only -/
theorem kernel_shift (S : Fns) (a b c d δ : Rat) :
    (∀ r, sl_dtk S (a + δ) (b + δ) (c + δ) (d + δ) r = sl_dtk S a b c d r) ∧
    (∀ h, stik_1 S (a + δ) (b + δ) (c + δ) (d + δ) h = stik_1 S a b c d h) ∧
    (∀ h k, stik_2 S (a + δ) (b + δ) (c + δ) (d + δ) h k = stik_2 S a b c d h k) ∧
    (∀ h k, stik_3 S (a + δ) (b + δ) (c + δ) (d + δ) h k = stik_3 S a b c d h k) ∧
    (∀ h k l, stik_4 S (a + δ) (b + δ) (c + δ) (d + δ) h k l = stik_4 S a b c d h k l) :=
  ⟨fun r => sl_dtk_shift S a b c d r δ, fun h => stik_1_shift S a b c d h δ,
   fun h k => stik_2_shift S a b c d h k δ, fun h k => stik_3_shift S a b c d h k δ,
   fun h k l => stik_4_shift S a b c d h k l δ⟩

/-- variable swap, first branch: the test interval is lexicographically first, the first
quadrature variable runs over it and is fed to the test parametrisation -/
theorem swap_consistent_fst (cfg : Cfg) (S : Fns) (log : Rule1) (gs : List Piece) (trial test : Elem)
    (hc : ¬ test.t1 ≤ trial.t0) (hl : lexLe test.x0 test.x1 trial.x0 trial.x1 = true)
    {ps : List Panel} (hp : panels cfg 12 test.x0 test.x1 trial.x0 trial.x1 = .ok ps) :
    bilform cfg S log gs false trial test =
      .ok (integratePanels log (fun x y => sl_dtk S test.t0 test.t1 trial.t0 trial.t1
        (distSq ((pieceOf gs test.piece).at x) ((pieceOf gs trial.piece).at y))) ps) :=
  bilform_swap_consistent_fst cfg S log gs trial test hc hl hp

/-- variable swap, second branch: the trial interval is first, the first quadrature variable runs
over it and is fed to the *trial* parametrisation; the kernel arguments keep their roles -/
theorem swap_consistent_snd (cfg : Cfg) (S : Fns) (log : Rule1) (gs : List Piece) (trial test : Elem)
    (hc : ¬ test.t1 ≤ trial.t0) (hl : lexLe test.x0 test.x1 trial.x0 trial.x1 = false)
    {ps : List Panel} (hp : panels cfg 12 trial.x0 trial.x1 test.x0 test.x1 = .ok ps) :
    bilform cfg S log gs false trial test =
      .ok (integratePanels log (fun x y => sl_dtk S test.t0 test.t1 trial.t0 trial.t1
        (distSq ((pieceOf gs test.piece).at y) ((pieceOf gs trial.piece).at x))) ps) :=
  bilform_swap_consistent_snd cfg S log gs trial test hc hl hp

example : bilform cfgEx SEx logEx gsEx false elA elB = .ok (-1337743 / 25165824) := by decide +kernel
example : bilform cfgEx SEx logEx gsEx false elB elA = .ok 0 := by decide +kernel
example : bilform cfgEx SEx logEx gsEx true elA elB = .ok (-997 / 24) := by decide +kernel
example : bilform cfgEx SEx logEx gsEx false elA elC = .ok (-843 / 8192) := by decide +kernel
example : bilform cfgEx SEx logEx gsEx false (exchTrial elA elC) (exchTest elA elC) = .ok (-843 / 8192) := by
  decide +kernel
example : bilform cfgEx SEx logEx gsEx true (exchTrial elA elB) (exchTest elA elB) = .ok (-997 / 24) := by
  decide +kernel
example : bilform cfgEx SEx logEx gsEx true (shiftT 5 elA) (shiftT 5 elB) = .ok (-997 / 24) := by
  decide +kernel
example : bilformMatrix cfgEx SEx logEx gsEx false [elA, elB] [elA, elB] =
    .ok [[-974395 / 12582912, 0], [-1337743 / 25165824, -974395 / 12582912]] := by decide +kernel
example : stik SEx 12 1 2 0 1 1 3 0 2 = .ok (-462235 / 2304) := by decide +kernel
example : stik SEx 12 1 2 0 1 0 2 1 3 = .ok (-462235 / 2304) := by decide +kernel

/-! ## 5. pointwise evaluation -/

theorem evalPlan_zero (cfg : Cfg) (onePlus oneMinus : Rat) (e : Elem) (t xhat : Rat) :
    evalPlan cfg onePlus oneMinus e t xhat = .zero ↔ t ≤ e.t0 :=
  evalPlan_zero_iff cfg onePlus oneMinus e t xhat

/-- before the element starts everything is `0` -/
theorem eval_acausal (cfg : Cfg) (onePlus oneMinus : Rat) (S : Fns) (log gauss : Rule1) (gs : List Piece)
    (e : Elem) (t xhat xs : Rat) (x : Rat × Rat) (h : t ≤ e.t0) :
    evaluate cfg onePlus oneMinus S log gs e t xhat x = 0 ∧ evaluateExact S e t xs = some 0 ∧
    potential S gauss gs e t x = 0 :=
  ⟨evaluate_zero cfg onePlus oneMinus S log gs e t xhat x h, evaluateExact_zero S e t xs h,
   potential_zero S gs gauss e t x h⟩

/-- in-element branch: exactly for `x0·(1+1e-10) ≤ xhat ≤ x1·(1−1e-10)`; the element is split at
`xhat`, the left part is integrated with the mirrored log rule (graded towards its right end
`xhat`), the right part with the log rule (graded towards its left end `xhat`) -/
theorem evalPlan_inElem (cfg : Cfg) (onePlus oneMinus : Rat) (S : Fns) (log : Rule1) (gs : List Piece)
    (e : Elem) (t xhat : Rat) (x : Rat × Rat) :
    (evalPlan cfg onePlus oneMinus e t xhat = .inElem ↔
      ¬ t ≤ e.t0 ∧ e.x0 * onePlus ≤ xhat ∧ xhat ≤ e.x1 * oneMinus) ∧
    (evalPlan cfg onePlus oneMinus e t xhat = .inElem →
      evaluate cfg onePlus oneMinus S log gs e t xhat x =
        integrate1 (mirror1 log)
          (fun y => evalKernel S t e.t0 e.t1 (distSq x ((pieceOf gs e.piece).at y))) e.x0 xhat +
        integrate1 log
          (fun y => evalKernel S t e.t0 e.t1 (distSq x ((pieceOf gs e.piece).at y))) xhat e.x1) :=
  ⟨evalPlan_inElem_iff cfg onePlus oneMinus e t xhat,
   evaluate_inElem cfg onePlus oneMinus S log gs e t xhat x⟩

/-- outside branch: the unmirrored log rule (graded towards `e.x0`) is used exactly when the
(seam-aware) distance of `xhat` to `e.x0` is not larger than that to `e.x1`; the value is that rule
applied on the whole element -/
theorem evalPlan_outside (cfg : Cfg) (onePlus oneMinus : Rat) (S : Fns) (log : Rule1) (gs : List Piece)
    (e : Elem) (t xhat : Rat) (x : Rat × Rat) (m : Bool)
    (h : evalPlan cfg onePlus oneMinus e t xhat = .outside m) :
    (m = false ↔ distA cfg e xhat ≤ distB cfg e xhat) ∧
    evaluate cfg onePlus oneMinus S log gs e t xhat x =
      integrate1 (if m then mirror1 log else log)
        (fun y => evalKernel S t e.t0 e.t1 (distSq x ((pieceOf gs e.piece).at y))) e.x0 e.x1 :=
  ⟨evalPlan_outside_graded cfg onePlus oneMinus e t xhat m h,
   evaluate_outside cfg onePlus oneMinus S log gs e t xhat x m h⟩

/-- at the end points of the element (`x0 > 0`): left end → rule graded towards `x0`; right end →
mirrored rule, graded towards `x1` (element non-degenerate and not the whole closed curve) -/
theorem evalPlan_endpoints (cfg : Cfg) (onePlus oneMinus : Rat) (e : Elem) (t : Rat) (ht : ¬ t ≤ e.t0)
    (h1 : 1 < onePlus) (h2 : oneMinus < 1) :
    (0 < e.x0 → evalPlan cfg onePlus oneMinus e t e.x0 = .outside false) ∧
    (0 < e.x1 → e.x0 ≠ e.x1 → (cfg.glue = true → cfg.len ≠ e.x1 - e.x0) →
      evalPlan cfg onePlus oneMinus e t e.x1 = .outside true) :=
  ⟨fun h0 => evalPlan_at_x0 cfg onePlus oneMinus e t ht h0 h1,
   fun h0 hne hw => evalPlan_at_x1 cfg onePlus oneMinus e t ht h0 h2 hne hw⟩

/-- the inline kernel of `evaluate` is `time_integrated_kernel` -/
theorem evalKernel_tik (S : Fns) (t ta tb r : Rat) (h : ta < t) :
    evalKernel S t ta tb r = sl_tik S t ta tb r :=
  evalKernel_eq_tik S t ta tb r h

/-- the four branches of `evaluate_exact`; the outside branch, written inline in the source, equals
the generated `spacetime_evaluated_2 = −gint_2(t−a, h, k) [+ gint_2(t−b, h, k)]` identically in the
special functions (only `u/(4(a−t)) = −(u/(4(t−a)))` is used); the implicit `None` is unreachable -/
theorem evaluateExact_cases (S : Fns) (e : Elem) (t x : Rat) (ht : ¬ t ≤ e.t0) :
    (e.x0 < x → x < e.x1 → evaluateExact S e t x =
      some (steval_1 S t e.t0 e.t1 (x - e.x0) + steval_1 S t e.t0 e.t1 (e.x1 - x))) ∧
    (e.x0 ≤ e.x1 → (x = e.x0 ∨ x = e.x1) →
      evaluateExact S e t x = some (steval_1 S t e.t0 e.t1 (e.x1 - e.x0))) ∧
    ((x < e.x0 ∨ x > e.x1) → evaluateExact S e t x =
      some (steval_2 S t e.t0 e.t1 (minR (absR (e.x0 - x)) (absR (e.x1 - x)))
        (maxR (absR (e.x0 - x)) (absR (e.x1 - x))))) ∧
    (evaluateExact S e t x).isSome = true :=
  ⟨evaluateExact_inside S e t x ht, evaluateExact_endpoint S e t x ht,
   evaluateExact_outside S e t x ht, evaluateExact_isSome S e t x⟩

/-- in the outside branch `h`, `k` are the distances to the nearer and to the farther end point, and
the asserted precondition `h < k` of `gint_2` holds for a non-degenerate element -/
theorem evaluateExact_hk (e : Elem) (x : Rat) (hx : e.x0 < e.x1) :
    (x < e.x0 → minR (absR (e.x0 - x)) (absR (e.x1 - x)) = e.x0 - x ∧
      maxR (absR (e.x0 - x)) (absR (e.x1 - x)) = e.x1 - x) ∧
    (x > e.x1 → minR (absR (e.x0 - x)) (absR (e.x1 - x)) = x - e.x1 ∧
      maxR (absR (e.x0 - x)) (absR (e.x1 - x)) = x - e.x0) ∧
    ((x < e.x0 ∨ x > e.x1) →
      0 < minR (absR (e.x0 - x)) (absR (e.x1 - x)) ∧
      minR (absR (e.x0 - x)) (absR (e.x1 - x)) < maxR (absR (e.x0 - x)) (absR (e.x1 - x))) :=
  evaluateExact_outside_hk e x hx

/-- `steval_2` in terms of `gint_2` (definitional unfolding of the generated term) -/
theorem steval_2_eq (S : Fns) (t a b h k : Rat) (ha : a < t) :
    steval_2 S t a b h k =
      if t > b then -(gint_2 S (t - a) h k) + gint_2 S (t - b) h k else -(gint_2 S (t - a) h k) := by
  have ha' : t > a := ha
  by_cases hb : t > b
  · simp only [steval_2, if_pos ha', if_pos hb]; ring
  · simp only [steval_2, if_pos ha', if_neg hb]; ring

example : evalPlan cfgEx (1 + 1/10^10) (1 - 1/10^10) elB (3/2) (3/2) = .inElem := by decide +kernel
example : evalPlan cfgEx (1 + 1/10^10) (1 - 1/10^10) elB (3/2) 1 = .outside false := by decide +kernel
example : evalPlan cfgEx (1 + 1/10^10) (1 - 1/10^10) elB (3/2) 2 = .outside true := by decide +kernel
example : evalPlan cfgEx (1 + 1/10^10) (1 - 1/10^10) elB 1 2 = .zero := by decide +kernel
example : evaluate cfgEx (1 + 1/10^10) (1 - 1/10^10) SEx logEx gsEx elB (3/2) (3/2) (3/2, 0) = 5 / 1536 := by
  decide +kernel
example : evaluate cfgEx (1 + 1/10^10) (1 - 1/10^10) SEx logEx gsEx elB (3/2) (7/2) (2, 3/2) = 41 / 384 := by
  decide +kernel
example : evaluateExact SEx elB (3/2) (3/2) = some (25 / 96) := by decide +kernel
example : evaluateExact SEx elB (3/2) 3 = some (11 / 24) := by decide +kernel
example : evaluateExact SEx elB (5/2) 3 = some (-7 / 36) := by decide +kernel

end Stbem.SL
