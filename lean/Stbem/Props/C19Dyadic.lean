import Stbem.Props.C19
import Stbem.Lemmas.MeshGradingDyadic
import Stbem.Lemmas.MeshNbrs

/-!
# C19, continued — termination of the repaired grading loop when the root cells differ by powers of two

`Props/C19` proves termination for meshes all of whose root cells have the same size.  Here the root
sizes are `Ht·2^i × Hx·2^j` with offsets `i ≤ Bt`, `j ≤ Bx` (the shipped L-shape before its long sides
are split: sides 1, 2, 2, 1, 1, 1, i.e. `Bt = 0`, `Bx = 1`; tensor grids with dyadically related
spacings).

* **termination** (`grading_terminates_dyadicTX`, `K = 4`, `σ = p/q`, `p, q ≥ 1`, `p < 4q`):
  the repaired loop returns for a suitable sweep budget provided `q·Bt + p·Bx < 4q + p`.
  With one bound `B` for both axes (`grading_terminates_dyadic`): `(p+q)·B < 4q + p`, in particular
  `B = 1` for `σ ∈ {1, 3/2, 2}` (`grading_terminates_dyadic_one`), `B ≤ 2` for `σ ∈ {1, 3/2}`;
  with offsets in space only (`Bt = 0`): `Bx ≤ 4, 3, 2` for `σ = 1, 3/2, 2`; in time only (`Bx = 0`):
  `Bt ≤ 4, 5, 5`.
* **the bound on the offsets cannot be dropped** (`grading_dyadic_diverges`,
  `grading_terminates_dyadic_unbounded_false`): on `init false [0,8,9] [0,1]` (`Bt = 0`, `Bx = 3`,
  `σ = 2`: `q·Bt + p·Bx = 6 = 4q + p`) the repaired loop returns for *no* sweep budget: a mesh with
  1-irregular leaves cannot have the leaves on both sides of `x = 8` inside the window.  So the statement
  without a bound on `B` is false, and for `σ = 2`, `Bt = 0` the bound `Bx ≤ 2` is sharp.
* `grading_total_dyadic`, `grading_total_reach_dyadic`: with partial correctness, from every mesh
  reachable by `refineId` steps from `init glue X T` over dyadically related grids.

Helper lemmas: `Stbem.Lemmas.MeshGradingDyadic`.
-/
namespace Stbem.Mesh

/-! ## 1. the hypothesis -/

/-- `DyadicRootsTX Ht Hx Bt Bx m`: every leaf of levels `(lt, lx)` has the size
`Ht·2^i / 2^lt × Hx·2^j / 2^lx` with root offsets `i ≤ Bt`, `j ≤ Bx` -/
theorem dyadicRootsTX_def (Ht Hx : Rat) (Bt Bx : Nat) (m : Mesh) :
    DyadicRootsTX Ht Hx Bt Bx m ↔ ∀ c ∈ m.leaves, ∃ i j : Nat, i ≤ Bt ∧ j ≤ Bx ∧
      c.t1 - c.t0 = Ht * 2 ^ i / 2 ^ c.lt ∧ c.x1 - c.x0 = Hx * 2 ^ j / 2 ^ c.lx :=
  Iff.rfl

/-- one bound for the offsets of both axes -/
def DyadicRoots (Ht Hx : Rat) (B : Nat) (m : Mesh) : Prop := DyadicRootsTX Ht Hx B B m

theorem dyadicRoots_def (Ht Hx : Rat) (B : Nat) (m : Mesh) :
    DyadicRoots Ht Hx B m ↔ ∀ c ∈ m.leaves, ∃ i j : Nat, i ≤ B ∧ j ≤ B ∧
      c.t1 - c.t0 = Ht * 2 ^ i / 2 ^ c.lt ∧ c.x1 - c.x0 = Hx * 2 ^ j / 2 ^ c.lx :=
  Iff.rfl

/-- `B = 0` is `Uniform` -/
theorem dyadicRoots_zero (Ht Hx : Rat) (m : Mesh) : DyadicRoots Ht Hx 0 m ↔ Uniform Ht Hx m := by
  constructor
  · intro h c hc
    obtain ⟨i, j, hi, hj, h1, h2⟩ := h c hc
    obtain rfl : i = 0 := by omega
    obtain rfl : j = 0 := by omega
    simpa using And.intro h1 h2
  · intro h c hc
    obtain ⟨h1, h2⟩ := h c hc
    exact ⟨0, 0, le_refl _, le_refl _, by simpa using h1, by simpa using h2⟩

/-- the initial mesh over grids with spacings `Hx·2^i` (`i ≤ Bx`) and `Ht·2^j` (`j ≤ Bt`) -/
theorem dyadicRootsTX_init (glue : Bool) (X T : List Rat) (Ht Hx : Rat) (Bt Bx : Nat)
    (hX : ∀ p ∈ pairs X, ∃ i : Nat, i ≤ Bx ∧ p.2 - p.1 = Hx * 2 ^ i)
    (hT : ∀ p ∈ pairs T, ∃ j : Nat, j ≤ Bt ∧ p.2 - p.1 = Ht * 2 ^ j) :
    DyadicRootsTX Ht Hx Bt Bx (init glue X T) :=
  init_dyadic glue hX hT

/-- preserved by every `refineId` (hence by every operation of the model) -/
theorem dyadicRootsTX_refineId (m : Mesh) (h : Inv m) (Ht Hx : Rat) (Bt Bx : Nat)
    (hd : DyadicRootsTX Ht Hx Bt Bx m) (id : Nat) (ax : Ax) (m' : Mesh)
    (hr : refineId m id ax = .ok m') : DyadicRootsTX Ht Hx Bt Bx m' :=
  refineId_stable (dyadicRootsTX_stable Ht Hx Bt Bx) h hd hr

/-! ## 2. termination -/

theorem four_pow_sq (q : Nat) : (4 : Rat) ^ q * 4 ^ q = 2 ^ (4 * q) := by
  rw [← mul_pow, show (4 : Rat) * 4 = 2 ^ 4 by norm_num, ← pow_mul]

/-- the invariant of the loop: every leaf lies below a target (cell size in the window) for the size
of its own root, and all these targets lie in `{Lt0, Lt0+1} × {Lx0, Lx0+1}`; a sweep that marks
something keeps it and strictly decreases the potential of `(Lt0+1, Lx0+1)` -/
theorem gradeSweep_progress_dyadic (p q : Nat) (K : Rat) (Lt0 Lx0 : Nat) (m : Mesh) (h : Inv m)
    (hg : AllGood p q K Lt0 Lx0 m) :
    ∃ r, gradeSweep true m p q K = .ok r ∧ Inv r.1 ∧
      ((r.2 = false) ∨ (r.2 = true ∧ AllGood p q K Lt0 Lx0 r.1 ∧
        pot (Lt0 + 1) (Lx0 + 1) r.1 < pot (Lt0 + 1) (Lx0 + 1) m)) :=
  gradeSweep_good h hg

theorem allGood_def (p q : Nat) (K : Rat) (Lt0 Lx0 : Nat) (m : Mesh) :
    AllGood p q K Lt0 Lx0 m ↔ ∀ c ∈ m.leaves, ∃ (Ht Hx : Rat) (Lt Lx : Nat),
      (c.t1 - c.t0 = Ht / 2 ^ c.lt ∧ c.x1 - c.x0 = Hx / 2 ^ c.lx) ∧
      (Lt0 ≤ Lt ∧ Lt ≤ Lt0 + 1) ∧ (Lx0 ≤ Lx ∧ Lx ≤ Lx0 + 1) ∧ (c.lt ≤ Lt ∧ c.lx ≤ Lx) ∧
      Target Ht Hx p q K Lt Lx :=
  Iff.rfl

/-- **termination**, separate bounds for the root offsets in time and in space (`K = 4`) -/
theorem grading_terminates_dyadicTX (m : Mesh) (h : Inv m) (Ht Hx : Rat) (hHt : 0 < Ht) (hHx : 0 < Hx)
    (Bt Bx : Nat) (hd : DyadicRootsTX Ht Hx Bt Bx m) (p q : Nat) (hp : 1 ≤ p) (hq : 1 ≤ q)
    (hσ : p < 4 * q) (hB : q * Bt + p * Bx < 4 * q + p) :
    ∃ fuel m', grading true fuel m p q 4 = .ok m' := by
  refine grading_terminates_dyadic' h hHt hHx hd hp hq (by norm_num) (by norm_num) ?_ ?_
  · rw [four_pow_sq]
    exact pow_lt_pow_right₀ (by norm_num) hσ
  · rw [four_pow_sq, ← pow_add]
    exact pow_lt_pow_right₀ (by norm_num) hB

/-- **termination**, one bound `B` for the root offsets of both axes: the statement asked for holds
under `(p+q)·B < 4q + p` (and is false without a bound on `B`, see §3) -/
theorem grading_terminates_dyadic (m : Mesh) (h : Inv m) (Ht Hx : Rat) (hHt : 0 < Ht) (hHx : 0 < Hx)
    (B : Nat) (hd : DyadicRoots Ht Hx B m) (p q : Nat) (hp : 1 ≤ p) (hq : 1 ≤ q)
    (hσ : p < 4 * q) (hB : (p + q) * B < 4 * q + p) :
    ∃ fuel m', grading true fuel m p q 4 = .ok m' :=
  grading_terminates_dyadicTX m h Ht Hx hHt hHx B B hd p q hp hq hσ (by
    have : q * B + p * B = (p + q) * B := by ring
    omega)

/-- root sizes differing by at most one factor of two in each axis, `σ ∈ {1, 3/2, 2}` -/
theorem grading_terminates_dyadic_one (m : Mesh) (h : Inv m) (Ht Hx : Rat) (hHt : 0 < Ht) (hHx : 0 < Hx)
    (hd : DyadicRoots Ht Hx 1 m) (p q : Nat)
    (hσ : (p, q) = (1, 1) ∨ (p, q) = (3, 2) ∨ (p, q) = (2, 1)) :
    ∃ fuel m', grading true fuel m p q 4 = .ok m' := by
  have hpq : 1 ≤ p ∧ 1 ≤ q ∧ p < 4 * q ∧ (p + q) * 1 < 4 * q + p := by
    rcases hσ with e | e | e <;> (injection e with e1 e2; subst e1; subst e2; simp)
  exact grading_terminates_dyadic m h Ht Hx hHt hHx 1 hd p q hpq.1 hpq.2.1 hpq.2.2.1 hpq.2.2.2

/-- **C19 for dyadically related root sizes**: the repaired grading terminates without error, only
refines, keeps the invariant, and every leaf ends in the window -/
theorem grading_total_dyadic (m : Mesh) (h : Inv m) (Ht Hx : Rat) (hHt : 0 < Ht) (hHx : 0 < Hx)
    (Bt Bx : Nat) (hd : DyadicRootsTX Ht Hx Bt Bx m) (p q : Nat) (hp : 1 ≤ p) (hq : 1 ≤ q)
    (hσ : p < 4 * q) (hB : q * Bt + p * Bx < 4 * q + p) :
    ∃ fuel m', grading true fuel m p q 4 = .ok m' ∧ Inv m' ∧ Refines m m' ∧
      ∀ c ∈ m'.leaves, InWindow c p q 4 := by
  obtain ⟨fuel, m', hr⟩ := grading_terminates_dyadicTX m h Ht Hx hHt hHx Bt Bx hd p q hp hq hσ hB
  exact ⟨fuel, m', hr, grading_window true fuel m h p q 4 m' hr⟩

theorem reach_dyadic {m0 m : Mesh} (h0 : Inv m0) {Ht Hx : Rat} {Bt Bx : Nat}
    (hd : DyadicRootsTX Ht Hx Bt Bx m0) (hr : Reach m0 m) : DyadicRootsTX Ht Hx Bt Bx m := by
  induction hr with
  | base => exact hd
  | step hprev hs ih =>
    exact refineId_stable (dyadicRootsTX_stable Ht Hx Bt Bx) (reach_inv h0 hprev) ih hs

/-- **C19 from any mesh reachable from an initial mesh over dyadically related grids**: all spacings
of `X` are `Hx·2^i` with `i ≤ Bx`, all spacings of `T` are `Ht·2^j` with `j ≤ Bt`,
`σ ∈ {1, 3/2, 2}`, `K = 4`, `q·Bt + p·Bx < 4q + p` -/
theorem grading_total_reach_dyadic (glue : Bool) (X T : List Rat) (hX : StrictInc X)
    (hT : StrictInc T) (hX2 : 2 ≤ X.length) (hT2 : 2 ≤ T.length) (Ht Hx : Rat) (Bt Bx : Nat)
    (hXd : ∀ p ∈ pairs X, ∃ i : Nat, i ≤ Bx ∧ p.2 - p.1 = Hx * 2 ^ i)
    (hTd : ∀ p ∈ pairs T, ∃ j : Nat, j ≤ Bt ∧ p.2 - p.1 = Ht * 2 ^ j)
    (m : Mesh) (hm : Reach (init glue X T) m) (p q : Nat)
    (hσ : (p, q) = (1, 1) ∨ (p, q) = (3, 2) ∨ (p, q) = (2, 1))
    (hB : q * Bt + p * Bx < 4 * q + p) :
    ∃ fuel m', grading true fuel m p q 4 = .ok m' ∧ Inv m' ∧ Refines m m' ∧
      ∀ c ∈ m'.leaves, InWindow c p q 4 := by
  have h0 := init_inv glue X T hX hT hX2 hT2
  have hd0 := dyadicRootsTX_init glue X T Ht Hx Bt Bx hXd hTd
  obtain ⟨xp, hxp⟩ := pairs_ne_nil hX2
  obtain ⟨tp, htp⟩ := pairs_ne_nil hT2
  have hHx : 0 < Hx := by
    have h1 := (pairs_mem hX xp hxp).1
    obtain ⟨i, _, e⟩ := hXd xp hxp
    have : 0 < Hx * 2 ^ i := by linarith
    exact (mul_pos_iff_of_pos_right (by positivity)).mp this
  have hHt : 0 < Ht := by
    have h1 := (pairs_mem hT tp htp).1
    obtain ⟨j, _, e⟩ := hTd tp htp
    have : 0 < Ht * 2 ^ j := by linarith
    exact (mul_pos_iff_of_pos_right (by positivity)).mp this
  have hpq : 1 ≤ p ∧ 1 ≤ q ∧ p < 4 * q := by
    rcases hσ with e | e | e <;> (injection e with e1 e2; subst e1; subst e2; simp)
  exact grading_total_dyadic m (reach_inv h0 hm) Ht Hx hHt hHx Bt Bx (reach_dyadic h0 hd0 hm) p q
    hpq.1 hpq.2.1 hpq.2.2 hB

/-! ## 3. without a bound on the offsets the loop can diverge -/

/-- two roots `8 × 1` and `1 × 1` side by side (`Ht = Hx = 1`, `Bt = 0`, `Bx = 3`) -/
def mesh89 : Mesh := init false [0, 8, 9] [0, 1]

theorem strictInc_089 : StrictInc [0, 8, 9] := by
  simp [StrictInc]; norm_num

theorem mesh89_inv : Inv mesh89 :=
  init_inv false [0, 8, 9] [0, 1] strictInc_089 strictInc_01 (by simp) (by simp)

theorem mesh89_dyadic : DyadicRootsTX 1 1 0 3 mesh89 := by
  refine dyadicRootsTX_init false _ _ 1 1 0 3 ?_ ?_
  · intro p hp
    simp only [pairs, List.mem_cons, List.not_mem_nil, or_false] at hp
    rcases hp with rfl | rfl
    · exact ⟨3, le_refl _, by norm_num⟩
    · exact ⟨0, by omega, by norm_num⟩
  · intro p hp
    simp only [pairs, List.mem_cons, List.not_mem_nil, or_false] at hp
    subst hp
    exact ⟨0, le_refl _, by norm_num⟩

/-- size in terms of the levels on the two sides of `x = 8` -/
def Size89 (c : Cell) : Prop :=
  c.t1 - c.t0 = 1 / 2 ^ c.lt ∧
    ((c.x1 ≤ 8 ∧ c.x1 - c.x0 = 8 / 2 ^ c.lx) ∨ (8 ≤ c.x0 ∧ c.x1 - c.x0 = 1 / 2 ^ c.lx))

theorem size89_childStable : ChildStable Size89 := by
  rintro M c ax ch ⟨ht, hx⟩ hch
  have hpt : c.t0 < c.t1 := by
    have : (0 : Rat) < 1 / 2 ^ c.lt := by positivity
    linarith
  rcases hx with ⟨hpos, hx⟩ | ⟨hpos, hx⟩
  · have hpx : c.x0 < c.x1 := by
      have : (0 : Rat) < 8 / 2 ^ c.lx := by positivity
      linarith
    obtain ⟨⟨_, _, _, s4⟩, _⟩ := hch.props ⟨hpt, hpx⟩
    obtain ⟨e1, e2⟩ := hch.size (Ht := 1) (Hx := 8) ⟨ht, hx⟩
    exact ⟨e1, Or.inl ⟨by linarith, e2⟩⟩
  · have hpx : c.x0 < c.x1 := by
      have : (0 : Rat) < 1 / 2 ^ c.lx := by positivity
      linarith
    obtain ⟨⟨_, _, s3, _⟩, _⟩ := hch.props ⟨hpt, hpx⟩
    obtain ⟨e1, e2⟩ := hch.size (Ht := 1) (Hx := 1) ⟨ht, hx⟩
    exact ⟨e1, Or.inr ⟨by linarith, e2⟩⟩

theorem mesh89_leaves :
    mesh89.leaves = [⟨0, 1, 0, 8, 0, 0, 0, none, 0⟩, ⟨0, 1, 8, 9, 0, 0, 1, none, 0⟩] := by
  decide +kernel

theorem mesh89_size : ∀ c ∈ mesh89.leaves, Size89 c := by
  intro c hc
  rw [mesh89_leaves] at hc
  simp only [List.mem_cons, List.not_mem_nil, or_false] at hc
  rcases hc with rfl | rfl
  · exact ⟨by norm_num, Or.inl ⟨by norm_num, by norm_num⟩⟩
  · exact ⟨by norm_num, Or.inr ⟨by norm_num, by norm_num⟩⟩

/-- left of `x = 8`: in the window only if `lt + 4 < 2·lx` -/
theorem window89_left {lt lx : Nat} (h : ((8 : Rat) / 2 ^ lx) ^ 2 < (4 * (1 / 2 ^ lt)) ^ 1) :
    lt + 4 < 2 * lx := by
  have h2 : (2 : Rat) ^ (lt + 4) < 2 ^ (2 * lx) := by
    rw [pow_one, div_pow, mul_one_div, div_lt_div_iff₀ (by positivity) (by positivity)] at h
    have e1 : (2 : Rat) ^ (2 * lx) = (2 ^ lx) ^ 2 := by rw [← pow_mul, mul_comm]
    have e2 : (2 : Rat) ^ (lt + 4) = 2 ^ lt * 16 := by rw [pow_add]; norm_num
    rw [e1, e2]
    linarith
  exact (pow_lt_pow_iff_right₀ (by norm_num : (1 : Rat) < 2)).mp h2

/-- right of `x = 8`: in the window only if `2·lx < lt + 2` -/
theorem window89_right {lt lx : Nat} (h : ((1 : Rat) / 2 ^ lt / 4) ^ 1 < (1 / 2 ^ lx) ^ 2) :
    2 * lx < lt + 2 := by
  have h2 : (2 : Rat) ^ (2 * lx) < 2 ^ (lt + 2) := by
    rw [pow_one, div_pow, div_div, div_lt_div_iff₀ (by positivity) (by positivity)] at h
    have e1 : (2 : Rat) ^ (2 * lx) = (2 ^ lx) ^ 2 := by rw [← pow_mul, mul_comm]
    have e2 : (2 : Rat) ^ (lt + 2) = 2 ^ lt * 4 := by rw [pow_add]; norm_num
    rw [e1, e2]
    linarith
  exact (pow_lt_pow_iff_right₀ (by norm_num : (1 : Rat) < 2)).mp h2

/-- no mesh refining `mesh89` can be 1-irregular, keep the size/level relation and have all leaves in
the window of `σ = 2`, `K = 4` -/
theorem mesh89_no_window (m' : Mesh) (hinv : Inv m') (href : Refines mesh89 m')
    (hs : ∀ c ∈ m'.leaves, Size89 c) (hw : ∀ c ∈ m'.leaves, InWindow c 2 1 4) : False := by
  obtain ⟨bx0, bx1, bt0, bt1⟩ := href.box
  have hglue : m'.glue = false := href.glue
  have x0 : m'.xmin = 0 := bx0
  have x1 : m'.xmax = 9 := bx1
  have t0 : m'.tmin = 0 := bt0
  have t1 : m'.tmax = 1 := bt1
  -- the leaf to the right of the point `(0, 8)`
  obtain ⟨b, hb, hb1, hb2, hb3, hb4⟩ := hinv.tiles.cover 0 8
    ⟨by rw [t0], by rw [t1]; norm_num, by rw [x0]; norm_num, by rw [x1]; norm_num⟩
  obtain ⟨htb, hxb⟩ := hs b hb
  have hxb' : b.x0 = 8 ∧ b.x1 - b.x0 = 1 / 2 ^ b.lx := by
    rcases hxb with ⟨h1, _⟩ | ⟨h1, h2⟩
    · linarith
    · exact ⟨le_antisymm hb3 h1, h2⟩
  -- its left neighbour
  obtain ⟨a, ha, hadj⟩ := exists_adj_left hinv hb (Or.inl (by rw [x0, hxb'.1]; norm_num))
  have hax1 : a.x1 = 8 := by
    rcases hadj.1 with h | ⟨hg, _, _⟩
    · rw [h, hxb'.1]
    · rw [hglue] at hg; cases hg
  obtain ⟨hta, hxa⟩ := hs a ha
  have hpa := hinv.tiles.proper a ha
  have hxa' : a.x1 - a.x0 = 8 / 2 ^ a.lx := by
    rcases hxa with ⟨_, h2⟩ | ⟨h1, _⟩
    · exact h2
    · linarith [hpa.2]
  have hirr := hinv.irr b hb a ha .left (adjacent_iff.mpr hadj)
  have wa := ((inWindow_iff a 2 1 4).mp (hw a ha)).2
  have wb := ((inWindow_iff b 2 1 4).mp (hw b hb)).1
  rw [hxa', hta] at wa
  rw [hxb'.2, htb] at wb
  have := window89_left wa
  have := window89_right wb
  omega

/-- **divergence**: on `mesh89` (`σ = 2`, `K = 4`) the repaired loop returns for no sweep budget -/
theorem grading_dyadic_diverges (fuel : Nat) (m' : Mesh) : grading true fuel mesh89 2 1 4 ≠ .ok m' := by
  intro hr
  obtain ⟨hinv, href, hw⟩ := grading_window true fuel mesh89 mesh89_inv 2 1 4 m' hr
  have hs : ∀ c ∈ m'.leaves, Size89 c :=
    grading_stable (leafwise_stable size89_childStable) fuel mesh89_inv mesh89_size hr
  exact mesh89_no_window m' hinv href hs hw

/-- it runs out of fuel (it cannot raise an assertion, `grading_fixed_error`) -/
theorem grading_dyadic_diverges_fuel (fuel : Nat) : grading true fuel mesh89 2 1 4 = .error "fuel" := by
  cases hr : grading true fuel mesh89 2 1 4 with
  | ok m' => exact absurd hr (grading_dyadic_diverges fuel m')
  | error e => rw [grading_fixed_error fuel mesh89 mesh89_inv 2 1 4 e hr]

/-- the termination statement without a bound on the root offsets is false (`B = 3`, `σ = 2`) -/
theorem grading_terminates_dyadic_unbounded_false :
    ¬ ∀ (m : Mesh), Inv m → ∀ (Ht Hx : Rat), 0 < Ht → 0 < Hx → ∀ (B : Nat), DyadicRoots Ht Hx B m →
      ∀ (p q : Nat), 1 ≤ p → 1 ≤ q → ∃ fuel m', grading true fuel m p q 4 = .ok m' := by
  intro hall
  obtain ⟨fuel, m', hr⟩ := hall mesh89 mesh89_inv 1 1 (by norm_num) (by norm_num) 3
    (mesh89_dyadic.mono (by omega) (le_refl _)) 2 1 (by omega) (by omega)
  exact grading_dyadic_diverges fuel m' hr

/-- the bound of `grading_terminates_dyadicTX` is attained by the diverging example:
`q·Bt + p·Bx = 4q + p` for `(p, q) = (2, 1)`, `(Bt, Bx) = (0, 3)` -/
example : 1 * 0 + 2 * 3 = 4 * 1 + 2 := rfl

/-! ## 4. non-vacuity: the L-shape before its long sides are split -/

/-- the L-shape-like grid: sides 1, 2, 2, 1, 1, 1 -/
def gridL : List Rat := [0, 1, 3, 5, 6, 7, 8]

theorem strictInc_gridL : StrictInc gridL := by
  simp [StrictInc, gridL]; norm_num

theorem gridL_dyadic : ∀ p ∈ pairs gridL, ∃ i : Nat, i ≤ 1 ∧ p.2 - p.1 = 1 * 2 ^ i := by
  intro p hp
  simp only [gridL, pairs, List.mem_cons, List.not_mem_nil, or_false] at hp
  rcases hp with rfl | rfl | rfl | rfl | rfl | rfl
  · exact ⟨0, by omega, by norm_num⟩
  · exact ⟨1, by omega, by norm_num⟩
  · exact ⟨1, by omega, by norm_num⟩
  · exact ⟨0, by omega, by norm_num⟩
  · exact ⟨0, by omega, by norm_num⟩
  · exact ⟨0, by omega, by norm_num⟩

theorem grid01_dyadic : ∀ p ∈ pairs ([0, 1] : List Rat), ∃ j : Nat, j ≤ 0 ∧ p.2 - p.1 = 1 * 2 ^ j := by
  intro p hp
  simp only [pairs, List.mem_cons, List.not_mem_nil, or_false] at hp
  subst hp
  exact ⟨0, le_refl _, by norm_num⟩

/-- the hypotheses of `grading_total_reach_dyadic` hold for the L-shape grid (`Bt = 0`, `Bx = 1`) and
all three `σ`; the root sizes really differ (so `Uniform` fails) -/
theorem gridL_total (glue : Bool) (m : Mesh) (hm : Reach (init glue gridL [0, 1]) m) (p q : Nat)
    (hσ : (p, q) = (1, 1) ∨ (p, q) = (3, 2) ∨ (p, q) = (2, 1)) :
    ∃ fuel m', grading true fuel m p q 4 = .ok m' ∧ Inv m' ∧ Refines m m' ∧
      ∀ c ∈ m'.leaves, InWindow c p q 4 :=
  grading_total_reach_dyadic glue gridL [0, 1] strictInc_gridL strictInc_01 (by simp [gridL]) (by simp)
    1 1 0 1 gridL_dyadic grid01_dyadic m hm p q hσ (by
      rcases hσ with e | e | e <;> (injection e with e1 e2; subst e1; subst e2; simp))

/-- kernel-evaluated: on the glued L-shape grid the repaired loop returns within 60 sweeps (`σ = 2`),
with at least 8 leaves, all in the window -/
example : isOk (grading true 60 (init true gridL [0, 1]) 2 1 4) = true := by
  decide +kernel

example : allInWindow (grading true 60 (init true gridL [0, 1]) 2 1 4) 2 1 4 8 = true := by
  decide +kernel

/-- after a refinement history (root `1 = [1,3]` twice in space, then a time refinement) -/
example : allInWindow
    (hist (init true gridL [0, 1]) [(1, .space), (6, .space), (8, .time)] >>= fun m =>
      grading true 60 m 2 1 4) 2 1 4 12 = true := by
  decide +kernel

/-- the roots of the L-shape grid are not of uniform size: no `Hx` fits roots `0` and `1` -/
example : ¬ ∃ Ht Hx, Uniform Ht Hx (init true gridL [0, 1]) := by
  rintro ⟨Ht, Hx, h⟩
  have h0 := (h ⟨0, 1, 0, 1, 0, 0, 0, none, 0⟩ (by decide +kernel)).2
  have h1 := (h ⟨0, 1, 1, 3, 0, 0, 1, none, 0⟩ (by decide +kernel)).2
  simp only [pow_zero, div_one] at h0 h1
  linarith

end Stbem.Mesh
