import Stbem.Props.SLRestTie

/-!
# C07 — the closed-form pointwise evaluation is additive in time

The C07 search (`harness/checks/C07.py`, key `C07:evaluate_exact-inaccurate:just-after-end`) uses, at times `t` just after the
end `b` of the trial element `[a,b] × X`, the oracle

    (V 1_[a,b]×X)(t, x) = (V 1_[a,t]×X)(t, x) − (V 1_[b,t]×X)(t, x)          (a < t, b < t)

where the left side is computed by the "after the element" branch (`t > b`) of `SingleLayerOperator.evaluate_exact` and both
terms on the right by its "up to the end of the element" branch (`t ≤ b'` with `b' = t`).  This file proves that this is an
identity of the CLOSED FORMS the code evaluates, for every point `x` (outside the element, strictly inside, at an end point, and
trivially on the unreachable implicit-`None` path) and for ANY interpretation `S : Fns` of the special functions `sqrt`, `erf`,
`expi` and of the constants: no law about them is used.

Why no law is needed (the totalised division does not matter):
* outside branch: the `t > b` closed form contains `expi(h²/(4(a−t)))`, the `t ≤ b` closed form `expi(−(h²/(4(t−a))))`; the two
  arguments are the same rational number (`u/(4(a−t)) = −(u/(4(t−a)))` holds in ℚ also for the totalised division), all other
  special-function arguments are syntactically the same, and the rest is ring arithmetic in `fpiInv`, `piSqrt`;
* inside / end-point branches: `spacetime_evaluated_1(t, a, b, h)` for `t > b` is literally `R(a) − R(b)` with
  `R(c) = (2√π √(t−c) erf(h/(2√(t−c))) − h expi(−h²/(4(t−c)))) / (4π)`, while `spacetime_evaluated_1(t, c, t, h)` is `R(c)`
  (guard `t ≤ c` false, subtraction guard `t > t` false);
* no term with `t − b' = 0` occurs anywhere: with `b' = t` both right-hand calls take the `t ≤ b'` branch (resp. skip the `t > b'`
  correction), which does not mention `b'`.

Only `t0 < t` and `t1 < t` are needed (not `t0 < t1`); `t0 < t` cannot be dropped, see the counterexample at the end.
-/
namespace Stbem.C07
open Stbem.Formulas.Q Stbem.SL Stbem.Gen

/-- the element with the same space interval and the time interval `[c, d]` -/
def withTime (e : Elem) (c d : Rat) : Elem := { e with t0 := c, t1 := d }

/-- `spacetime_evaluated_1` is additive in time: for `a < t`, `b < t` the value on `[a,b]` is the value on `[a,t]` minus the value
on `[b,t]` (both of the latter computed WITHOUT the `t > b` correction term) -/
theorem steval_1_time_additive (S : Fns) (t a b h : Rat) (hat : a < t) (hbt : b < t) :
    steval_1 S t a b h = steval_1 S t a t h - steval_1 S t b t h := by
  unfold steval_1
  simp only [if_neg (not_le.mpr hat), if_neg (not_le.mpr hbt), if_pos hbt, if_neg (lt_irrefl t), gt_iff_lt]

/-- the outside closed form of `evaluate_exact`: the `t > b` expression is the `t ≤ b'` expression for `(a, ·)` minus the one
for `(b, ·)`, for arbitrary `h`, `k` and arbitrary special functions -/
theorem outside_time_additive (S : Fns) (t a b h k : Rat) :
    S.fpiInv * (2 * S.piSqrt *
        (S.sqrt (t - a) * (-S.erf (h / (2 * S.sqrt (t - a))) + S.erf (k / (2 * S.sqrt (t - a)))) +
         S.sqrt (t - b) * (S.erf (h / (2 * S.sqrt (t - b))) - S.erf (k / (2 * S.sqrt (t - b))))) +
        h * S.ei (h ^ 2 / (4 * (a - t))) - k * S.ei (k ^ 2 / (4 * (a - t))) -
        h * S.ei (h ^ 2 / (4 * (b - t))) + k * S.ei (k ^ 2 / (4 * (b - t)))) =
      (-S.fpiInv * (S.piSqrt * (2 * S.sqrt (t - a)) * (S.erf (h / (2 * S.sqrt (t - a))) - S.erf (k / (2 * S.sqrt (t - a)))) -
        h * S.ei (-(h ^ 2 / (4 * (t - a)))) + k * S.ei (-(k ^ 2 / (4 * (t - a)))))) -
      (-S.fpiInv * (S.piSqrt * (2 * S.sqrt (t - b)) * (S.erf (h / (2 * S.sqrt (t - b))) - S.erf (k / (2 * S.sqrt (t - b)))) -
        h * S.ei (-(h ^ 2 / (4 * (t - b)))) + k * S.ei (-(k ^ 2 / (4 * (t - b)))))) := by
  rw [neg_div_flip (h ^ 2) a t, neg_div_flip (k ^ 2) a t, neg_div_flip (h ^ 2) b t, neg_div_flip (k ^ 2) b t]
  ring

/-- **Time additivity of the closed-form evaluation** (`SingleLayerOperator.evaluate_exact`), all space cases, any `S`:
for an evaluation time after the start and after the end of the element,
`(V 1_[t0,t1]×X)(t,x) = (V 1_[t0,t]×X)(t,x) − (V 1_[t1,t]×X)(t,x)` as an identity of the closed forms the code evaluates
(`Option` = the possible implicit `None` of the Python function, which propagates) -/
theorem evaluateExact_time_additive_of_lt (S : Fns) (e : Elem) (t x : Rat) (hat : e.t0 < t) (hbt : e.t1 < t) :
    evaluateExact S e t x =
      (fun u v => u - v) <$> evaluateExact S (withTime e e.t0 t) t x <*> evaluateExact S (withTime e e.t1 t) t x := by
  unfold evaluateExact withTime
  simp only [if_neg (not_le.mpr hat), if_neg (not_le.mpr hbt), if_pos (le_refl t)]
  by_cases ho : x < e.x0 ∨ x > e.x1
  · simp only [if_pos ho]
    show some _ = some _
    rw [outside_time_additive]
  · simp only [if_neg ho]
    by_cases hi : e.x0 < x ∧ x < e.x1
    · simp only [if_pos hi]
      show some _ = some _
      rw [steval_1_time_additive S t e.t0 e.t1 (x - e.x0) hat hbt,
        steval_1_time_additive S t e.t0 e.t1 (e.x1 - x) hat hbt]
      congr 1; ring
    · simp only [if_neg hi]
      by_cases he : x = e.x0 ∨ x = e.x1
      · simp only [if_pos he]
        show some _ = some _
        rw [steval_1_time_additive S t e.t0 e.t1 (e.x1 - e.x0) hat hbt]
      · simp only [if_neg he]
        rfl

/-- the statement of the brief (`a < b < t`), with record-update syntax -/
theorem evaluateExact_time_additive (S : Fns) (e : Elem) (t x : Rat) (hab : e.t0 < e.t1) (hbt : e.t1 < t) :
    evaluateExact S e t x =
      (fun u v => u - v) <$> evaluateExact S { e with t1 := t } t x
        <*> evaluateExact S { e with t0 := e.t1, t1 := t } t x :=
  evaluateExact_time_additive_of_lt S e t x (lt_trans hab hbt) hbt

/-- the same in "value" form: the three evaluations are all defined and the values satisfy `u = v − w` -/
theorem evaluateExact_time_additive_val (S : Fns) (e : Elem) (t x : Rat) (hat : e.t0 < t) (hbt : e.t1 < t) :
    ∃ v w, evaluateExact S (withTime e e.t0 t) t x = some v ∧ evaluateExact S (withTime e e.t1 t) t x = some w ∧
      evaluateExact S e t x = some (v - w) := by
  have h1 := evaluateExact_isSome S (withTime e e.t0 t) t x
  have h2 := evaluateExact_isSome S (withTime e e.t1 t) t x
  obtain ⟨v, hv⟩ := Option.isSome_iff_exists.mp h1
  obtain ⟨w, hw⟩ := Option.isSome_iff_exists.mp h2
  refine ⟨v, w, hv, hw, ?_⟩
  rw [evaluateExact_time_additive_of_lt S e t x hat hbt, hv, hw]
  rfl

/-- transfer to the function regenerated from `src/single_layer.py` on every run -/
theorem gen_evaluate_exact_time_additive (S : Fns) (e : Elem) (t x : Rat) (hat : e.t0 < t) (hbt : e.t1 < t) :
    SLRest.evaluate_exact S e t x =
      (fun u v => u - v) <$> SLRest.evaluate_exact S (withTime e e.t0 t) t x
        <*> SLRest.evaluate_exact S (withTime e e.t1 t) t x := by
  simp only [SLRestTie.gen_evaluate_exact_eq]
  exact evaluateExact_time_additive_of_lt S e t x hat hbt

theorem gen_evaluate_exact_time_additive_val (S : Fns) (e : Elem) (t x : Rat) (hat : e.t0 < t) (hbt : e.t1 < t) :
    ∃ v w, SLRest.evaluate_exact S (withTime e e.t0 t) t x = some v ∧
      SLRest.evaluate_exact S (withTime e e.t1 t) t x = some w ∧
      SLRest.evaluate_exact S e t x = some (v - w) := by
  simp only [SLRestTie.gen_evaluate_exact_eq]
  exact evaluateExact_time_additive_val S e t x hat hbt

/-! ## non-vacuity: a concrete element, time and point for each of the three space cases

`STa` interprets the special functions by rational functions that are neither even nor odd nor additive, so that the
concrete values below are not equal by accident. -/

def STa : Fns :=
  ⟨fun x => 1 + x, fun x => 1 + x * x, fun x => x / (1 + x * x), fun x => 1 - x, fun x => 1 / (3 + x), fun x => x,
   fun x => x, 3, 1/12, 2, 1/6⟩

/-- element `[1, 2] × [1, 2]` (time × space) on piece 0 -/
def elT : Elem := ⟨1, 2, 1, 2, 0⟩

-- outside (x = 3 > x1), strictly inside (x = 3/2), end point (x = 1); evaluation time 9/4 just after the end 2
example : evaluateExact STa elT (9/4) 3 =
    (fun u v => u - v) <$> evaluateExact STa { elT with t1 := 9/4 } (9/4) 3
      <*> evaluateExact STa { elT with t0 := elT.t1, t1 := 9/4 } (9/4) 3 :=
  evaluateExact_time_additive STa elT (9/4) 3 (by decide +kernel) (by decide +kernel)
example : evaluateExact STa elT (9/4) (3/2) =
    (fun u v => u - v) <$> evaluateExact STa { elT with t1 := 9/4 } (9/4) (3/2)
      <*> evaluateExact STa { elT with t0 := elT.t1, t1 := 9/4 } (9/4) (3/2) :=
  evaluateExact_time_additive STa elT (9/4) (3/2) (by decide +kernel) (by decide +kernel)
example : evaluateExact STa elT (9/4) 1 =
    (fun u v => u - v) <$> evaluateExact STa { elT with t1 := 9/4 } (9/4) 1
      <*> evaluateExact STa { elT with t0 := elT.t1, t1 := 9/4 } (9/4) 1 :=
  evaluateExact_time_additive STa elT (9/4) 1 (by decide +kernel) (by decide +kernel)
example : SLRest.evaluate_exact STa elT (9/4) 3 =
    (fun u v => u - v) <$> SLRest.evaluate_exact STa (withTime elT 1 (9/4)) (9/4) 3
      <*> SLRest.evaluate_exact STa (withTime elT 2 (9/4)) (9/4) 3 :=
  gen_evaluate_exact_time_additive STa elT (9/4) 3 (by decide +kernel) (by decide +kernel)

-- the three evaluations are different non-zero numbers in each case (the identity is not `0 = 0 − 0`)
example : (evaluateExact STa elT (9/4) 3).isSome = true ∧ evaluateExact STa elT (9/4) 3 ≠ some 0 ∧
    evaluateExact STa (withTime elT 1 (9/4)) (9/4) 3 ≠ evaluateExact STa elT (9/4) 3 ∧
    evaluateExact STa (withTime elT 2 (9/4)) (9/4) 3 ≠ some 0 := by decide +kernel
example : (evaluateExact STa elT (9/4) (3/2)).isSome = true ∧ evaluateExact STa elT (9/4) (3/2) ≠ some 0 ∧
    evaluateExact STa (withTime elT 1 (9/4)) (9/4) (3/2) ≠ evaluateExact STa elT (9/4) (3/2) ∧
    evaluateExact STa (withTime elT 2 (9/4)) (9/4) (3/2) ≠ some 0 := by decide +kernel
example : (evaluateExact STa elT (9/4) 1).isSome = true ∧ evaluateExact STa elT (9/4) 1 ≠ some 0 ∧
    evaluateExact STa (withTime elT 1 (9/4)) (9/4) 1 ≠ evaluateExact STa elT (9/4) 1 ∧
    evaluateExact STa (withTime elT 2 (9/4)) (9/4) 1 ≠ some 0 := by decide +kernel

-- the hypothesis `t0 < t` is necessary: for a (degenerate) element with `t1 < t ≤ t0` the left side is the literal `0`
-- of the causality guard while the right side is `0 − (V 1_[t1,t]×X)(t,x) ≠ 0`
example : evaluateExact STa ⟨3, 2, 1, 2, 0⟩ (9/4) 1 ≠
    (fun u v => u - v) <$> evaluateExact STa (withTime ⟨3, 2, 1, 2, 0⟩ 3 (9/4)) (9/4) 1
      <*> evaluateExact STa (withTime ⟨3, 2, 1, 2, 0⟩ 2 (9/4)) (9/4) 1 := by decide +kernel

end Stbem.C07
