import Stbem.Lemmas.MeshOpsParam
import Stbem.Props.C18

/-!
# MeshOpsTieC18 — `MeshParametrized.__init__` REGENERATED from `src/mesh.py` equals the hand-written `initParam`

`Stbem.Gen.MeshOps.MeshParametrized_init` is produced by `translate/meshops.py` from the body of the constructor
(default of `initial_space_mesh`, the two end-point assertions, `super().__init__` = the model's `init`, the loop over the
roots with the index loop `if pw_start[i] <= x < pw_start[i + 1]: … break` and `assert elem.gamma_space`, the four vertex
counts, the guard `self.glue_space and len(initial_space_mesh) - 1 < 3` with its two rounds of space refinement).

`gen_MeshParametrized_init_eq`: for strictly increasing grids `X`, `T` with `T[0] = 0` and `gamma_length = pw_start[-1]`
(`PiecewiseParametrization.__init__`) the generated constructor returns exactly when `initParam true` (guard counted per
time slab) returns, with the same mesh.  The hypotheses are what the four vertex-count assertions of the source need —
the hand-written model has no counterpart of them (`counts_needed` shows that they matter: with `T[0] ≠ 0` the source
raises where the model returns).  Error labels are not compared (an `IndexError` of the source, `pw_start[i + 1]` past the
end, is an `assert:piece` of the model).
-/
namespace Stbem.MeshOpsTie
open Stbem.Mesh Stbem.Gen

/-- `initParam` (guard counted per time slab) in sequential form -/
theorem initParam_unfold (closed : Bool) (pw X T : List Rat) :
    initParam true closed pw X T =
      if X.head? ≠ some 0 then .error "assert:x0"
      else if X.getLast? ≠ pw.getLast? then .error "assert:xlast"
      else (init closed X T).leaves.mapM (handAssign pw) >>= fun leaves =>
        if (closed && decide (X.length - 1 < 3)) = true then
          refineAll { init closed X T with leaves := leaves } (leaves.map (·.id)) .space >>= fun m1 =>
            refineAll m1 (m1.leaves.map (·.id)) .space
        else pure { init closed X T with leaves := leaves } := by
  unfold initParam
  by_cases h1 : X.head? ≠ some 0
  · simp only [h1, if_true]; rfl
  · by_cases h2 : X.getLast? ≠ pw.getLast?
    · simp only [h1, h2, if_true, if_false]; rfl
    · simp only [h1, h2, if_false]
      rfl

theorem gen_MeshParametrized_init_eq (closed : Bool) (pw X T : List Rat) (L : Rat)
    (hX : X.Pairwise (· < ·)) (hT : T.Pairwise (· < ·)) (hT0 : T.head? = some 0) (hL : pw.getLast? = some L) :
    (MeshOps.MeshParametrized_init closed pw L (some X) T).toOption = (initParam true closed pw X T).toOption := by
  rw [initParam_unfold]
  unfold MeshOps.MeshParametrized_init
  simp only []
  cases X with
  | nil => rfl
  | cons x X' =>
    rw [getIdx_of_lt _ 0 (by simp), ok_bind]
    simp only [List.getElem_cons_zero]
    by_cases hx : x = 0
    · subst hx
      have h1 : ¬ ((0 : Rat) :: X').head? ≠ some 0 := by simp
      rw [assertThat_true _ rfl, ok_bind, if_neg h1]
      have hne : ((0 : Rat) :: X') ≠ [] := by simp
      have hg : MeshOps.getLast ((0 : Rat) :: X') = .ok (((0 : Rat) :: X').getLast hne) := by
        unfold MeshOps.getLast; rw [List.getLast?_eq_some_getLast hne]; rfl
      have hgp : MeshOps.getLast pw = .ok L := by
        unfold MeshOps.getLast; rw [hL]; rfl
      rw [hg, ok_bind, hgp, ok_bind]
      by_cases hl : ((0 : Rat) :: X').getLast hne = L
      · have h2 : ¬ ((0 : Rat) :: X').getLast? ≠ pw.getLast? := by
          rw [List.getLast?_eq_some_getLast hne, hL, hl]; simp
        rw [assertThat_true _ hl, ok_bind, if_neg h2]
        -- the loop over the roots
        have hroots : (forIn (init closed ((0 : Rat) :: X') T).leaves (init closed ((0 : Rat) :: X') T)
            (fun elem s => do
              let r ← forIn (List.range pw.length) (s, (none : Option Nat)) (pieceBody pw elem)
              MeshOps.assertThat (r.2.isSome = true) "assert:piece"
              pure (ForInStep.yield r.1))).toOption =
            ((init closed ((0 : Rat) :: X') T).leaves.mapM (handAssign pw)).toOption.map fun ls =>
              { init closed ((0 : Rat) :: X') T with leaves := ls } := by
          rw [forIn_toOption_foldlM (fun e s => root_body pw e s)]
          have hnd : (([] ++ (init closed ((0 : Rat) :: X') T).leaves).map (fun d : Cell => d.id)).Nodup := by
            rw [List.nil_append]
            show ((init.number 0 _).map (fun d : Cell => d.id)).Nodup
            rw [number_ids]
            exact List.nodup_range'
          exact roots_fold pw (init closed ((0 : Rat) :: X') T) _ [] hnd
        rw [toOption_bind', toOption_bind']
        show Option.bind (forIn (init closed ((0 : Rat) :: X') T).leaves (init closed ((0 : Rat) :: X') T)
            (fun elem s => do
              let r ← forIn (List.range pw.length) (s, (none : Option Nat)) (pieceBody pw elem)
              MeshOps.assertThat (r.2.isSome = true) "assert:piece"
              pure (ForInStep.yield r.1))).toOption _ = _
        rw [hroots]
        cases hm : (init closed ((0 : Rat) :: X') T).leaves.mapM (handAssign pw) with
        | error e => rfl
        | ok ls =>
          simp only [Except.toOption, Option.map_some, Option.bind_some]
          -- the four vertex counts hold on strictly increasing grids with `T[0] = 0`
          have hv : (init closed ((0 : Rat) :: X') T).verts =
              T.flatMap fun t => ((0 : Rat) :: X').map fun x => (t, x) := rfl
          have hTne : T ≠ [] := by
            intro e; rw [e] at hT0; cases hT0
          have h0T : (0 : Rat) ∈ T := by
            cases T with
            | nil => exact absurd rfl hTne
            | cons t T' => simp at hT0; subst hT0; simp
          have hLX : L ∈ ((0 : Rat) :: X') := hl ▸ List.getLast_mem hne
          have c1 : ((List.filter (fun vtx : Rat × Rat => decide (vtx.2 = 0))
              (init closed ((0 : Rat) :: X') T).verts).map fun vtx => vtx).length = T.length := by
            rw [List.map_id', hv, count_x, count_mem_sinc _ hX 0 (by simp), Nat.mul_one]
          have c2 : ((List.filter (fun vtx : Rat × Rat => decide (vtx.1 = 0))
              (init closed ((0 : Rat) :: X') T).verts).map fun vtx => vtx).length = ((0 : Rat) :: X').length := by
            rw [List.map_id', hv, count_t, count_mem_sinc _ hT 0 h0T, Nat.one_mul]
          have c3 : ((List.filter (fun vtx : Rat × Rat => decide (vtx.2 = L))
              (init closed ((0 : Rat) :: X') T).verts).map fun vtx => vtx).length = T.length := by
            rw [List.map_id', hv, count_x, count_mem_sinc _ hX L hLX, Nat.mul_one]
          have c4 : ([] ++ (init closed ((0 : Rat) :: X') T).verts.filter
              fun v : Rat × Rat => decide (v.1 = T.getLast hTne)).length = ((0 : Rat) :: X').length := by
            rw [List.nil_append, hv, count_t, count_mem_sinc _ hT _ (List.getLast_mem hTne), Nat.one_mul]
          rw [assertThat_true _ c1, ok_bind, assertThat_true _ c2, ok_bind, assertThat_true _ c3, ok_bind,
            forIn_count_last T hTne, ok_bind, assertThat_true _ c4, ok_bind]
          -- the guard
          have hglue : (init closed ((0 : Rat) :: X') T).glue = closed := rfl
          by_cases hgd : closed = true ∧ ((0 : Rat) :: X').length < 3 + 1
          · have hgd' : (closed && decide (((0 : Rat) :: X').length - 1 < 3)) = true := by
              simp only [Bool.and_eq_true, decide_eq_true_eq]
              exact ⟨hgd.1, by have := hgd.2; simp only [List.length_cons] at this ⊢; omega⟩
            rw [if_pos (by rw [hglue]; exact hgd), if_pos hgd']
            simp only [refine_space_eq, forIn_refine, bind_pure]
          · have hgd' : ¬ (closed && decide (((0 : Rat) :: X').length - 1 < 3)) = true := by
              simp only [Bool.and_eq_true, decide_eq_true_eq]
              intro h
              exact hgd ⟨h.1, by have := h.2; simp only [List.length_cons] at this ⊢; omega⟩
            rw [if_neg (by rw [hglue]; exact hgd), if_neg hgd']
      · have h2 : ((0 : Rat) :: X').getLast? ≠ pw.getLast? := by
          rw [List.getLast?_eq_some_getLast hne, hL]; simpa using hl
        rw [assertThat_false _ hl, if_pos h2]
        rfl
    · have h1 : (x :: X').head? ≠ some 0 := by simpa using hx
      rw [assertThat_false _ hx, if_pos h1]
      rfl


/-- `initial_space_mesh=None`: the break points are the grid -/
theorem gen_MeshParametrized_init_default (closed : Bool) (pw T : List Rat) (L : Rat)
    (hX : pw.Pairwise (· < ·)) (hT : T.Pairwise (· < ·)) (hT0 : T.head? = some 0) (hL : pw.getLast? = some L) :
    (MeshOps.MeshParametrized_init closed pw L none T).toOption = (initParam true closed pw pw T).toOption :=
  gen_MeshParametrized_init_eq closed pw pw T L hX hT hT0 hL

theorem ok_of_toOption_eq {x y : Except String Mesh} (h : x.toOption = y.toOption) (m : Mesh) :
    x = .ok m ↔ y = .ok m := by
  cases x <;> cases y <;> simp_all [Except.toOption]

/-- the four vertex counts matter: with a time grid that does not start at `0` the source raises
(`assert len([vtx … if vtx.t == 0]) == len(initial_space_mesh)`), the hand-written model returns -/
theorem counts_needed :
    (MeshOps.MeshParametrized_init true [0, 1, 2, 3] 3 none [1, 2]).toOption = none ∧
    ((initParam true true [0, 1, 2, 3] [0, 1, 2, 3] [1, 2]).toOption.map fun m => m.leaves.length) = some 3 := by
  constructor <;> decide +kernel

/-! ## the results of `Props/C18.lean` for the generated constructor -/

/-- C18 (≥ 3 elements around a closed curve, per time slab): whatever the generated constructor returns on a closed
curve has at least three leaves around the curve at every time -/
theorem gen_three_per_slab {pw X T : List Rat} {L : Rat} {m : Mesh} (hX : SInc X) (hT : SInc T)
    (hT0 : T.head? = some 0) (hL : pw.getLast? = some L) (hX2 : 2 ≤ X.length)
    (h : MeshOps.MeshParametrized_init true pw L (some X) T = .ok m) :
    ∀ t, T.headD 0 ≤ t → t < T.getLastD 0 → 3 ≤ cross m t :=
  three_per_slab hX2 ((ok_of_toOption_eq (gen_MeshParametrized_init_eq true pw X T L hX hT hT0 hL) m).mp h)

/-- C18 (piece assignment): if the grid contains all break points, every leaf of the mesh the generated constructor
returns (guard included) lies inside the parameter range of the piece it carries -/
theorem gen_piece_assigned {closed : Bool} {pw X T : List Rat} {L : Rat} {m : Mesh} (hX : SInc X) (hT : SInc T)
    (hT0 : T.head? = some 0) (hL : pw.getLast? = some L) (hsub : ∀ p ∈ pw, p ∈ X)
    (h : MeshOps.MeshParametrized_init closed pw L (some X) T = .ok m) : PieceOK pw m :=
  piece_assigned hX hsub ((ok_of_toOption_eq (gen_MeshParametrized_init_eq closed pw X T L hX hT hT0 hL) m).mp h)

/-- C18, mesh part, from the generated constructor: every mesh reachable from `MeshParametrized(γ, X, T)` satisfies the
tiling invariant, the piece ranges, ≥ 3 leaves around a closed curve at every time, and no two leaves touch in both end
points -/
theorem gen_c18_mesh {closed : Bool} {pw X T : List Rat} {L : Rat} {m0 m : Mesh} (hX : SInc X) (hT : SInc T)
    (hT0 : T.head? = some 0) (hL : pw.getLast? = some L)
    (hX2 : 2 ≤ X.length) (hT2 : 2 ≤ T.length) (hsub : ∀ p ∈ pw, p ∈ X)
    (h : MeshOps.MeshParametrized_init closed pw L (some X) T = .ok m0) (hr : Reach m0 m) :
    Inv m ∧ PieceOK pw m ∧
    (closed = true → ∀ t, T.headD 0 ≤ t → t < T.getLastD 0 → 3 ≤ cross m t) ∧
    ∀ c ∈ m.leaves, ∀ d ∈ m.leaves, c ≠ d → OvT c d → ¬ (TouchR m c d ∧ TouchR m d c) :=
  c18_mesh hX hT hX2 hT2 hsub
    ((ok_of_toOption_eq (gen_MeshParametrized_init_eq closed pw X T L hX hT hT0 hL) m0).mp h) hr

/-! ## closed examples (evaluated by the kernel) -/

/-- the one-piece closed curve of length 7 with three time slabs: the guard (counted per slab) refines twice, four
elements around the curve in every slab -/
example : crossAt (MeshOps.MeshParametrized_init true [0, 7] 7 (some [0, 7]) [0, 1, 2, 3]) [0, 1/2, 1, 2, 5/2] =
    some (12, [4, 4, 4, 4, 4]) := by decide +kernel

/-- pieces of the roots: unit square boundary, grid = break points plus the midpoints of two sides -/
example : ((MeshOps.MeshParametrized_init true [0, 1, 2, 3, 4] 4 (some [0, 1/2, 1, 2, 5/2, 3, 4]) [0, 1]).toOption.map
    fun m => m.leaves.map (·.piece)) = some [0, 0, 1, 2, 2, 3] := by decide +kernel

/-- a grid that misses the last break point: `assert initial_space_mesh[-1] == gamma_space.pw_start[-1]` -/
example : (match MeshOps.MeshParametrized_init true [0, 1, 2] 2 (some [0, 1]) [0, 1] with
    | .error e => some e | .ok _ => none) = some "assert:xlast" := by decide +kernel

example : SInc [0, 1/2, 1, 2, 5/2, 3, 4] ∧ SInc [0, 1] ∧ ([0, 1] : List Rat).head? = some 0 ∧
    ([0, 1, 2, 3, 4] : List Rat).getLast? = some 4 := by
  refine ⟨?_, ?_, rfl, rfl⟩ <;> simp [SInc] <;> norm_num

end Stbem.MeshOpsTie
