import Stbem.Gen.CtorKeys
import Stbem.Gen.QuadGen
import Mathlib.Tactic.NormNum

/-!
# QuadCtorTie — the `*_quadrature_scheme` constructors regenerated from `src/quadrature.py`

`translate/quadgen.py` translates the eight module functions of `src/quadrature.py` statement by statement; the
tabulated rule function each one calls (`src/quadrature_rules.py`, resp. `np.polynomial.legendre.leggauss`) is a
PARAMETER `rule`.  This file states what each generated constructor does with it — which key it requests, whether an
even degree is rejected, what happens to the returned arrays — and, for the three Gauss families, that the requested
key is the `ctorKey_*` map that C05's translator (`translate/rules.py`, by a separate `ast` pattern) records in
`Gen/CtorKeys.lean` and that `Props/C05.lean` (`constructors_ok`, through `Gen/RuleChecks/All.lean`) proves sufficient for
the advertised degree.  (This file does not import the table certificates: a defect of a table is C05's finding.)
-/
namespace Stbem.QuadCtorTie
open Stbem.Gen Stbem.Rules.Gen

/-- `gauss_sqrtinv_quadrature_scheme(N_poly)`: even degrees are rejected; the key is C05's `ctorKey_gaussSqrtinv` -/
theorem gen_gauss_sqrtinv_scheme_eq (rule : Int → List Rat × List Rat) (N : Int) :
    QuadGen.gauss_sqrtinv_quadrature_scheme rule N =
      if N % 2 ≠ 0 then
        .ok (QuadGen.QuadScheme1D.init (rule (ctorKey_gaussSqrtinv N)).1 (rule (ctorKey_gaussSqrtinv N)).2)
      else .error "assert:odd" := by
  unfold QuadGen.gauss_sqrtinv_quadrature_scheme ctorKey_gaussSqrtinv
  by_cases h : N % 2 ≠ 0
  · rw [if_neg (not_not.mpr h), if_pos h]
    show Except.ok _ = Except.ok _
    congr 4 <;> omega
  · rw [if_pos h, if_neg h]

/-- `gauss_x_quadrature_scheme(N_poly)`: every degree is accepted; the key is C05's `ctorKey_gaussX` -/
theorem gen_gauss_x_scheme_eq (rule : Int → List Rat × List Rat) (N : Int) :
    QuadGen.gauss_x_quadrature_scheme rule N =
      QuadGen.QuadScheme1D.init (rule (ctorKey_gaussX N)).1 (rule (ctorKey_gaussX N)).2 := by
  unfold QuadGen.gauss_x_quadrature_scheme ctorKey_gaussX
  dsimp only
  congr 3 <;> omega

/-- `gauss_log_quadrature_scheme(N_poly)`: every degree is accepted; the key is C05's `ctorKey_gaussLog` -/
theorem gen_gauss_log_scheme_eq (rule : Int → List Rat × List Rat) (N : Int) :
    QuadGen.gauss_log_quadrature_scheme rule N =
      QuadGen.QuadScheme1D.init (rule (ctorKey_gaussLog N)).1 (rule (ctorKey_gaussLog N)).2 := by
  unfold QuadGen.gauss_log_quadrature_scheme ctorKey_gaussLog
  dsimp only
  congr 3 <;> omega

/-- whether an even degree is rejected, as recorded by C05's translator (`ctorOdd_*`), is what the regenerated
functions do: `gauss_sqrtinv_quadrature_scheme` fails exactly on even degrees; the other two are total (their
generated result type has no error case) and are recorded as not asserting -/
theorem ctorOdd_agree (rule : Int → List Rat × List Rat) (N : Int) :
    ((∃ e, QuadGen.gauss_sqrtinv_quadrature_scheme rule N = .error e) ↔ (ctorOdd_gaussSqrtinv = true ∧ N % 2 = 0)) ∧
    ctorOdd_gaussX = false ∧ ctorOdd_gaussLog = false := by
  refine ⟨?_, rfl, rfl⟩
  rw [gen_gauss_sqrtinv_scheme_eq]
  by_cases h : N % 2 ≠ 0
  · rw [if_pos h]
    constructor
    · rintro ⟨e, he⟩; cases he
    · rintro ⟨_, h0⟩; exact absurd h0 h
  · rw [if_neg h]
    exact ⟨fun _ => ⟨rfl, not_not.mp h⟩, fun _ => ⟨_, rfl⟩⟩

/-- the key requested for an odd degree `2n - 1` is `n`; for the even degree `2n` (where even degrees are accepted)
it is `n + 1` for the `x`-weight family (an `n`-point rule is exact only to degree `2n - 1`; on the pinned tree the
map was `(N_poly + 1) // 2`, which gave `n`: finding F10, repaired) and `n` for the `-log x` family, whose table
under key `n` holds an `(n+1)`-point rule -/
theorem ctorKey_odd_even (n : Int) :
    ctorKey_gaussSqrtinv (2 * n - 1) = n ∧ ctorKey_gaussX (2 * n - 1) = n ∧ ctorKey_gaussX (2 * n) = n + 1 ∧
    ctorKey_gaussLog (2 * n - 1) = n ∧ ctorKey_gaussLog (2 * n) = n := by
  unfold ctorKey_gaussSqrtinv ctorKey_gaussX ctorKey_gaussLog
  refine ⟨?_, ?_, ?_, ?_, ?_⟩ <;> omega

/-- `gauss_quadrature_scheme(N_poly)`: even degrees are rejected, `leggauss` is asked for `(N_poly + 1) // 2` nodes,
the nodes go through `u ↦ 0.5·(u + 1.0)` and the weights through `w ↦ 0.5·w` (the two float literals are exact) -/
theorem gen_gauss_scheme_eq (leggauss : Int → List Rat × List Rat) (N : Int) :
    QuadGen.gauss_quadrature_scheme leggauss N =
      if N % 2 ≠ 0 then
        .ok ⟨(leggauss ((N + 1) / 2)).1.map fun u => 1 / 2 * (u + 1), (leggauss ((N + 1) / 2)).2.map fun w => 1 / 2 * w⟩
      else .error "assert:odd" := by
  unfold QuadGen.gauss_quadrature_scheme
  by_cases h : N % 2 ≠ 0
  · rw [if_neg (not_not.mpr h), if_pos h]
    simp only [QuadGen.QuadScheme1D.init, QuadGen.npArray, QuadGen.npSA, QuadGen.npAS, List.map_map, Function.comp_def,
      QuadGen.c_0p5, QuadGen.c_1p0]
    rfl
  · rw [if_pos h, if_neg h]

/-- the four two-key constructors hand both arguments through unchanged, in this order -/
theorem gen_two_key_schemes_eq (rule : Int → Int → List Rat × List Rat) (N M : Int) :
    QuadGen.log_quadrature_scheme rule N M = QuadGen.QuadScheme1D.init (rule N M).1 (rule N M).2 ∧
    QuadGen.log_log_quadrature_scheme rule N M = QuadGen.QuadScheme1D.init (rule N M).1 (rule N M).2 ∧
    QuadGen.sqrt_quadrature_scheme rule N M = QuadGen.QuadScheme1D.init (rule N M).1 (rule N M).2 ∧
    QuadGen.sqrtinv_quadrature_scheme rule N M = QuadGen.QuadScheme1D.init (rule N M).1 (rule N M).2 :=
  ⟨rfl, rfl, rfl, rfl⟩

/-! closed examples (kernel evaluation) on a rule table that encodes the requested key -/
example : QuadGen.gauss_sqrtinv_quadrature_scheme (fun n => ([(n : Rat)], [1])) 7 = .ok ⟨[4], [1]⟩ := by decide +kernel
example : QuadGen.gauss_sqrtinv_quadrature_scheme (fun n => ([(n : Rat)], [1])) 8 = .error "assert:odd" := by
  decide +kernel
example : QuadGen.gauss_x_quadrature_scheme (fun n => ([(n : Rat)], [1])) 8 = ⟨[5], [1]⟩ := by decide +kernel
example : QuadGen.gauss_x_quadrature_scheme (fun n => ([(n : Rat)], [1])) 9 = ⟨[5], [1]⟩ := by decide +kernel
example : QuadGen.gauss_quadrature_scheme (fun n => ([(n : Rat)], [3])) 5 = .ok ⟨[2], [3 / 2]⟩ := by decide +kernel
example : QuadGen.log_quadrature_scheme (fun n m => ([(n : Rat)], [(m : Rat)])) 3 5 = ⟨[3], [5]⟩ := by decide +kernel

end Stbem.QuadCtorTie
