import Stbem.Gen.ProblemsQ
import Stbem.Gen.ProblemsR
import Stbem.Lemmas.ProblemsSingular
import Stbem.Lemmas.ProblemsSmooth
import Stbem.Lemmas.ProblemsSmoothPot
import Stbem.Lemmas.ProblemsSmoothSol
import Stbem.Lemmas.ProblemsCurve
import Stbem.Lemmas.ProblemsModel
import Stbem.Lemmas.ProblemsTable

/-!
# C03 / C08 — the data of `problems.py` (closed-form initial potentials, exact solutions, Dirichlet data)

Every statement is about a term GENERATED from the current text of `/repo/problems.py` by
`translate/problemdefs.py` (`Stbem/Gen/ProblemsR.lean` over `ℝ`, `Stbem/Gen/ProblemsQ.lean` executable); the proofs
are in `Stbem/Lemmas/Problems*.lean`.  Special functions are parameters `S : Fns`; each theorem lists the laws it needs:

* `hsqrt : S.sqrt = Real.sqrt`, `hexp : S.exp = Real.exp`, `hsin : S.sin = Real.sin`, `hpi : S.pi = Real.pi`;
* `herf : ∀ x, HasDerivAt S.erf (2/√π · exp(−x²)) x` (Mathlib has no error function), and where needed
  `hodd : S.erf (−x) = −S.erf x`, `hlim : S.erf → 1 at +∞`.
  `model` (`Lemmas/ProblemsModel.lean`, `erf x = 2/√π ∫₀ˣ e^{−s²}`) satisfies all of them; the `example`s instantiate it.

1. `g_linform_*`            the generated `g-linform` of an element `[a,b]×[c,d]` is `∫_a^b ∫_c^d g` (generated `g`).
2. `singular_square_*`, `singular_lshape_*`   the generated `M0u0` solves the heat equation for `t > 0`, tends to the
   (normalised) indicator of the domain as `t → 0+` (to the generated `u0 = 1` inside, to `0` outside the closure), and IS
   the heat-kernel potential `∫_Ω G(t, x − y) u0(y) dy` over the rectangles of `UnitSquare/LShape.integrator`.
3. `smooth_square_*`, `smooth_pisquare_*`     `e^{−2κ²t} u0` (`κ = π` resp. `1`) solves the heat equation, has the generated
   `u0` as initial value, vanishes on the boundary, and the generated `u_neumann(t, x̂)` is its outward normal derivative at
   `γ(x̂)` on each closed side of the counter-clockwise arc-length parametrisation, Python's `%` included
   (`sqGamma_unit_is_model`: that curve is what the executable model of `UnitSquare().eval` returns).
   `smooth_*_potential`: the complex-error-function closed forms `smooth_square_M0u0`, `smooth_pisquare_M0u0` ARE the
   heat-kernel potentials `∫_{[0,L]²} G(t, x − y) u0(y) dy` of the generated `u0`, for every `cerf : ℂ → ℂ` with complex
   derivative `2/√π · e^{−z²}` that is odd (`hcerf`, `hodd`; `cexp = Complex.exp`, and `erfc = 1 − erf` for the π-square);
   `model.cerf` is a primitive of that entire function (Morera), so the hypotheses are satisfiable.
4. `helper_*`               the dispatch table of `problem_helper`.
5. `roundedLiterals_close`  literal quotients (`1 / 3`) that Python evaluates in binary64: executed vs ideal value.

NOT proved: that the Smooth `M0u0` solve the heat equation / take the initial value `u0·1_Ω` (consequences of the potential
representation by differentiation under the integral and an approximate-identity argument, not formalised); the
relation between the parameter `erf : ℝ → ℝ` and `cerf : ℂ → ℂ` (SciPy's one `erf`) is not used and not assumed.
-/
namespace Stbem.Problems.R
open Filter Topology MeasureTheory

/-! ## 1. Dirichlet data: `g-linform` is the element integral of `g` -/

/-- Dirichlet: `g = 1`, `g-linform(elem) = h_t · h_x` with `h_t = b − a`, `h_x = d − c`, `time_interval = (a, b)`;
`γ` is the element's `gamma_space` (any curve: `g` does not depend on the point) -/
theorem g_linform_dirichlet (S : Fns) (γ : ℝ → ℝ × ℝ) (a b c d : ℝ) :
    dirichlet_g_linform S (b - a) (d - c) a b = ∫ t in a..b, ∫ x in c..d, dirichlet_g S t (γ x).1 (γ x).2 := by
  simp only [dirichlet_g_linform, dirichlet_g, intervalIntegral.integral_const, smul_eq_mul, mul_one]

/-- MildSingular: `g = t²`, `g-linform(elem) = 1/3 · h_x · (b³ − a³)` -/
theorem g_linform_mildsingular (S : Fns) (γ : ℝ → ℝ × ℝ) (a b c d : ℝ) :
    mildsingular_g_linform S (b - a) (d - c) a b
      = ∫ t in a..b, ∫ x in c..d, mildsingular_g S t (γ x).1 (γ x).2 := by
  simp only [mildsingular_g_linform, mildsingular_g, intervalIntegral.integral_const, smul_eq_mul]
  rw [intervalIntegral.integral_const_mul, integral_pow]
  ring

example : mildsingular_g_linform model (2 - 1) (5 - 3) 1 2 = 14 / 3 := by
  simp only [mildsingular_g_linform]; norm_num

/-! ## 2. Singular problems: the closed-form initial potentials -/

/-- **heat equation**, unit square: `u(t, a, b) = M0u0 t (a, b)` has all partial derivatives in `∂ₜu = ∂ₐₐu + ∂_bb u` and
satisfies the equation at every `t > 0` (`Heat2`, `Lemmas/ProblemsHeat.lean`); `c` is `2/√π` for the true `erf` -/
theorem singular_square_heat (S : Fns) (hsqrt : S.sqrt = Real.sqrt) (c : ℝ)
    (herf : ∀ x, HasDerivAt S.erf (c * Real.exp (-x ^ 2)) x) (t a b : ℝ) (ht : 0 < t) :
    Heat2 (fun τ α β => singular_square_M0u0 S τ α β) t a b :=
  singular_square_heat' S hsqrt c herf t a b ht

/-- the same in terms of `deriv` -/
theorem singular_square_heat_deriv (S : Fns) (hsqrt : S.sqrt = Real.sqrt) (c : ℝ)
    (herf : ∀ x, HasDerivAt S.erf (c * Real.exp (-x ^ 2)) x) (t a b : ℝ) (ht : 0 < t) :
    deriv (fun τ => singular_square_M0u0 S τ a b) t
      = deriv (deriv (fun α => singular_square_M0u0 S t α b)) a
        + deriv (deriv (fun β => singular_square_M0u0 S t a β)) b :=
  (singular_square_heat S hsqrt c herf t a b ht).deriv_eq

/-- **initial value**, unit square, every point of the plane: `M0u0 t (a, b) → ind₀₁ a · ind₀₁ b` as `t → 0+`, where
`ind lo hi` is `1` in `(lo, hi)`, `1/2` at the end points, `0` outside -/
theorem singular_square_initial (S : Fns) (hsqrt : S.sqrt = Real.sqrt) (hodd : ∀ x, S.erf (-x) = - S.erf x)
    (hlim : Tendsto S.erf atTop (𝓝 1)) (a b : ℝ) :
    Tendsto (fun t => singular_square_M0u0 S t a b) (𝓝[>] 0) (𝓝 (ind 0 1 a * ind 0 1 b)) :=
  singular_square_initial' S hsqrt hodd hlim a b

/-- inside the open square the initial value is the generated `u0` -/
theorem singular_square_initial_inside (S : Fns) (hsqrt : S.sqrt = Real.sqrt) (hodd : ∀ x, S.erf (-x) = - S.erf x)
    (hlim : Tendsto S.erf atTop (𝓝 1)) (a b : ℝ) (ha : 0 < a ∧ a < 1) (hb : 0 < b ∧ b < 1) :
    Tendsto (fun t => singular_square_M0u0 S t a b) (𝓝[>] 0) (𝓝 (singular_square_u0 S a b)) := by
  have h := singular_square_initial S hsqrt hodd hlim a b
  rw [ind_inside ha.1 ha.2, ind_inside hb.1 hb.2, one_mul] at h
  exact h

/-- outside the closed square the initial value is `0` -/
theorem singular_square_initial_outside (S : Fns) (hsqrt : S.sqrt = Real.sqrt) (hodd : ∀ x, S.erf (-x) = - S.erf x)
    (hlim : Tendsto S.erf atTop (𝓝 1)) (a b : ℝ) (h : a < 0 ∨ 1 < a ∨ b < 0 ∨ 1 < b) :
    Tendsto (fun t => singular_square_M0u0 S t a b) (𝓝[>] 0) (𝓝 0) := by
  have h0 := singular_square_initial S hsqrt hodd hlim a b
  have e : ind 0 1 a * ind 0 1 b = 0 := by
    rcases h with h | h | h | h
    · rw [ind_left h zero_le_one, zero_mul]
    · rw [ind_right h zero_le_one, zero_mul]
    · rw [ind_left h zero_le_one, mul_zero]
    · rw [ind_right h zero_le_one, mul_zero]
  rw [e] at h0; exact h0

/-- **the closed form is the initial potential**: `M0u0 t x = ∫_{[0,1]²} G(t, x − y) u0(y) dy` with the generated `u0`
and the kernel of `InitialOperator.evaluate` -/
theorem singular_square_potential (S : Fns) (hsqrt : S.sqrt = Real.sqrt)
    (herf : ∀ x, HasDerivAt S.erf (2 / Real.sqrt Real.pi * Real.exp (-x ^ 2)) x)
    (hodd : ∀ x, S.erf (-x) = - S.erf x) (t a b : ℝ) (ht : 0 < t) :
    singular_square_M0u0 S t a b
      = ∫ x in (0 : ℝ)..1, ∫ y in (0 : ℝ)..1, heatKernel t (a - x) (b - y) * singular_square_u0 S x y :=
  singular_square_potential' S hsqrt herf hodd t a b ht

/-- **heat equation**, L-shape -/
theorem singular_lshape_heat (S : Fns) (hsqrt : S.sqrt = Real.sqrt) (c : ℝ)
    (herf : ∀ x, HasDerivAt S.erf (c * Real.exp (-x ^ 2)) x) (t a b : ℝ) (ht : 0 < t) :
    Heat2 (fun τ α β => singular_lshape_M0u0 S τ α β) t a b :=
  singular_lshape_heat' S hsqrt c herf t a b ht

theorem singular_lshape_heat_deriv (S : Fns) (hsqrt : S.sqrt = Real.sqrt) (c : ℝ)
    (herf : ∀ x, HasDerivAt S.erf (c * Real.exp (-x ^ 2)) x) (t a b : ℝ) (ht : 0 < t) :
    deriv (fun τ => singular_lshape_M0u0 S τ a b) t
      = deriv (deriv (fun α => singular_lshape_M0u0 S t α b)) a
        + deriv (deriv (fun β => singular_lshape_M0u0 S t a β)) b :=
  (singular_lshape_heat S hsqrt c herf t a b ht).deriv_eq

/-- **initial value**, L-shape `[-1,1]×[0,1] ∪ [0,1]×[-1,0]` (the polygon `LShape` of `src/parametrization.py`), every
point of the plane: the limit is `lshapeInd a b = ind₋₁₁ a · ind₀₁ b + ind₀₁ a · ind₋₁₀ b` -/
theorem singular_lshape_initial (S : Fns) (hsqrt : S.sqrt = Real.sqrt) (hodd : ∀ x, S.erf (-x) = - S.erf x)
    (hlim : Tendsto S.erf atTop (𝓝 1)) (a b : ℝ) :
    Tendsto (fun t => singular_lshape_M0u0 S t a b) (𝓝[>] 0) (𝓝 (lshapeInd a b)) :=
  singular_lshape_initial' S hsqrt hodd hlim a b

/-- in the interior of the L-shape (both open rectangles and the open interface `b = 0, 0 < a < 1`) the initial
value is the generated `u0` -/
theorem singular_lshape_initial_inside (S : Fns) (hsqrt : S.sqrt = Real.sqrt) (hodd : ∀ x, S.erf (-x) = - S.erf x)
    (hlim : Tendsto S.erf atTop (𝓝 1)) (a b : ℝ) (h : InLShape a b) :
    Tendsto (fun t => singular_lshape_M0u0 S t a b) (𝓝[>] 0) (𝓝 (singular_lshape_u0 S a b)) := by
  have h0 := singular_lshape_initial S hsqrt hodd hlim a b
  rw [lshapeInd_inside h] at h0; exact h0

/-- outside the closed L-shape the initial value is `0` -/
theorem singular_lshape_initial_outside (S : Fns) (hsqrt : S.sqrt = Real.sqrt) (hodd : ∀ x, S.erf (-x) = - S.erf x)
    (hlim : Tendsto S.erf atTop (𝓝 1)) (a b : ℝ) (h : OutLShape a b) :
    Tendsto (fun t => singular_lshape_M0u0 S t a b) (𝓝[>] 0) (𝓝 0) := by
  have h0 := singular_lshape_initial S hsqrt hodd hlim a b
  rw [lshapeInd_outside h] at h0; exact h0

/-- **the closed form is the initial potential** over the three unit squares of `LShape.integrator` -/
theorem singular_lshape_potential (S : Fns) (hsqrt : S.sqrt = Real.sqrt)
    (herf : ∀ x, HasDerivAt S.erf (2 / Real.sqrt Real.pi * Real.exp (-x ^ 2)) x)
    (hodd : ∀ x, S.erf (-x) = - S.erf x) (t a b : ℝ) (ht : 0 < t) :
    singular_lshape_M0u0 S t a b
      = (∫ x in (-1 : ℝ)..0, ∫ y in (0 : ℝ)..1, heatKernel t (a - x) (b - y) * singular_lshape_u0 S x y)
        + (∫ x in (0 : ℝ)..1, ∫ y in (0 : ℝ)..1, heatKernel t (a - x) (b - y) * singular_lshape_u0 S x y)
        + (∫ x in (0 : ℝ)..1, ∫ y in (-1 : ℝ)..0, heatKernel t (a - x) (b - y) * singular_lshape_u0 S x y) :=
  singular_lshape_potential' S hsqrt herf hodd t a b ht

/-! non-vacuity: the model satisfies the laws -/

example (t a b : ℝ) (ht : 0 < t) : Heat2 (fun τ α β => singular_square_M0u0 model τ α β) t a b :=
  singular_square_heat model rfl _ erfModel_deriv t a b ht

example : Tendsto (fun t => singular_square_M0u0 model t (1 / 2) (1 / 3)) (𝓝[>] 0) (𝓝 1) :=
  singular_square_initial_inside model rfl erfModel_odd erfModel_tendsto _ _ (by norm_num) (by norm_num)

example : Tendsto (fun t => singular_square_M0u0 model t 2 (1 / 3)) (𝓝[>] 0) (𝓝 0) :=
  singular_square_initial_outside model rfl erfModel_odd erfModel_tendsto _ _ (by norm_num)

example (a b : ℝ) : singular_square_M0u0 model 1 a b
    = ∫ x in (0 : ℝ)..1, ∫ y in (0 : ℝ)..1, heatKernel 1 (a - x) (b - y) * singular_square_u0 model x y :=
  singular_square_potential model rfl erfModel_deriv erfModel_odd 1 a b one_pos

example (t a b : ℝ) (ht : 0 < t) : Heat2 (fun τ α β => singular_lshape_M0u0 model τ α β) t a b :=
  singular_lshape_heat model rfl _ erfModel_deriv t a b ht

example : Tendsto (fun t => singular_lshape_M0u0 model t (1 / 2) 0) (𝓝[>] 0) (𝓝 1) :=
  singular_lshape_initial_inside model rfl erfModel_odd erfModel_tendsto _ _ (Or.inr (by norm_num))

example : Tendsto (fun t => singular_lshape_M0u0 model t (-1 / 2) (-1 / 2)) (𝓝[>] 0) (𝓝 0) :=
  singular_lshape_initial_outside model rfl erfModel_odd erfModel_tendsto _ _
    (Or.inr (Or.inr (Or.inr (Or.inr (by norm_num)))))

example (a b : ℝ) : singular_lshape_M0u0 model (1 / 2) a b
    = (∫ x in (-1 : ℝ)..0, ∫ y in (0 : ℝ)..1, heatKernel (1 / 2) (a - x) (b - y) * singular_lshape_u0 model x y)
      + (∫ x in (0 : ℝ)..1, ∫ y in (0 : ℝ)..1, heatKernel (1 / 2) (a - x) (b - y) * singular_lshape_u0 model x y)
      + (∫ x in (0 : ℝ)..1, ∫ y in (-1 : ℝ)..0, heatKernel (1 / 2) (a - x) (b - y) * singular_lshape_u0 model x y) :=
  singular_lshape_potential model rfl erfModel_deriv erfModel_odd _ a b (by norm_num)

/-! ## 3. Smooth problems: exact solution, initial value, Neumann trace

`smoothSquareSol S t x y = e^{−2π²t} · smooth_square_u0 S x y` and `smoothPiSquareSol S t x y = e^{−2t} · smooth_pisquare_u0 S x y`
(the generated `u0`; `Lemmas/ProblemsSmoothSol.lean`). -/

/-- **heat equation** (every `t`, every point) -/
theorem smooth_square_heat (S : Fns) (hsin : S.sin = Real.sin) (hpi : S.pi = Real.pi) (t a b : ℝ) :
    Heat2 (fun τ α β => smoothSquareSol S τ α β) t a b := by
  have e : (fun τ α β => smoothSquareSol S τ α β) = fun τ α β => sinSol Real.pi τ α β := by
    funext τ α β; exact smoothSquareSol_eq S hsin hpi τ α β
  rw [e]; exact heat2_sinSol _ t a b

theorem smooth_pisquare_heat (S : Fns) (hsin : S.sin = Real.sin) (t a b : ℝ) :
    Heat2 (fun τ α β => smoothPiSquareSol S τ α β) t a b := by
  have e : (fun τ α β => smoothPiSquareSol S τ α β) = fun τ α β => sinSol 1 τ α β := by
    funext τ α β; exact smoothPiSquareSol_eq S hsin τ α β
  rw [e]; exact heat2_sinSol _ t a b

/-- **initial value**: at `t = 0` the solution is the generated `u0` -/
theorem smooth_square_initial (S : Fns) (x y : ℝ) : smoothSquareSol S 0 x y = smooth_square_u0 S x y := by
  simp [smoothSquareSol]

theorem smooth_pisquare_initial (S : Fns) (x y : ℝ) : smoothPiSquareSol S 0 x y = smooth_pisquare_u0 S x y := by
  simp [smoothPiSquareSol]

/-- **homogeneous Dirichlet values** on the four sides of `[0,1]²` -/
theorem smooth_square_boundary (S : Fns) (hsin : S.sin = Real.sin) (hpi : S.pi = Real.pi) (t s : ℝ) :
    smoothSquareSol S t s 0 = 0 ∧ smoothSquareSol S t 1 s = 0 ∧ smoothSquareSol S t s 1 = 0 ∧
      smoothSquareSol S t 0 s = 0 := by
  simp only [smoothSquareSol_eq S hsin hpi]
  exact sinSol_boundary (κ := Real.pi) (L := 1) (mul_one _) t s

/-- on the four sides of `[0,π]²` -/
theorem smooth_pisquare_boundary (S : Fns) (hsin : S.sin = Real.sin) (t s : ℝ) :
    smoothPiSquareSol S t s 0 = 0 ∧ smoothPiSquareSol S t Real.pi s = 0 ∧ smoothPiSquareSol S t s Real.pi = 0 ∧
      smoothPiSquareSol S t 0 s = 0 := by
  simp only [smoothPiSquareSol_eq S hsin]
  exact sinSol_boundary (κ := 1) (L := Real.pi) (one_mul _) t s

/-- **Neumann trace**, unit square: on the closed side `k ∈ {0,1,2,3}` (bottom, right, top, left; `x̂ ∈ [k, k+1]`, both
corners included) of the counter-clockwise arc-length parametrisation `sqGamma 1` (`UnitSquare` of
`src/parametrization.py`), the generated `u_neumann(t, x̂)` -- with Python's `x̂ % 1` -- equals `n_k · ∇u(t, γ(x̂))` -/
theorem smooth_square_neumann (S : Fns) (hexp : S.exp = Real.exp) (hsin : S.sin = Real.sin) (hpi : S.pi = Real.pi)
    (t : ℝ) (k : ℕ) (hk : k < 4) (xh : ℝ) (h0 : (k : ℝ) ≤ xh) (h1 : xh ≤ k + 1) :
    ∃ ux uy : ℝ, HasDerivAt (fun x => smoothSquareSol S t x (sqGamma 1 xh).2) ux (sqGamma 1 xh).1 ∧
      HasDerivAt (fun y => smoothSquareSol S t (sqGamma 1 xh).1 y) uy (sqGamma 1 xh).2 ∧
      smooth_square_u_neumann S t xh = (sqNormal k).1 * ux + (sqNormal k).2 * uy := by
  obtain ⟨ux, uy, hx, hy, hn⟩ := normalDeriv_sinSol (κ := Real.pi) (L := 1) one_pos (mul_one _) t k hk
    (xh := xh) (by simpa using h0) (by simpa using h1)
  refine ⟨ux, uy, ?_, ?_, ?_⟩
  · simpa only [smoothSquareSol_eq S hsin hpi] using hx
  · simpa only [smoothSquareSol_eq S hsin hpi] using hy
  · rw [hn]
    have hs := sin_pmod' (κ := Real.pi) (L := 1) one_pos (mul_one _) k (x := xh) (by simpa using h0) (by simpa using h1)
    simp only [smooth_square_u_neumann, hexp, hsin, hpi]
    have : pmod xh 1 = pmod' xh 1 := rfl
    rw [this, hs]

/-- **Neumann trace**, π-square (`x̂ ∈ [kπ, (k+1)π]`, Python's `x̂ % π`) -/
theorem smooth_pisquare_neumann (S : Fns) (hexp : S.exp = Real.exp) (hsin : S.sin = Real.sin) (hpi : S.pi = Real.pi)
    (t : ℝ) (k : ℕ) (hk : k < 4) (xh : ℝ) (h0 : k * Real.pi ≤ xh) (h1 : xh ≤ (k + 1) * Real.pi) :
    ∃ ux uy : ℝ, HasDerivAt (fun x => smoothPiSquareSol S t x (sqGamma Real.pi xh).2) ux (sqGamma Real.pi xh).1 ∧
      HasDerivAt (fun y => smoothPiSquareSol S t (sqGamma Real.pi xh).1 y) uy (sqGamma Real.pi xh).2 ∧
      smooth_pisquare_u_neumann S t xh = (sqNormal k).1 * ux + (sqNormal k).2 * uy := by
  obtain ⟨ux, uy, hx, hy, hn⟩ := normalDeriv_sinSol (κ := 1) (L := Real.pi) Real.pi_pos (one_mul _) t k hk
    (xh := xh) h0 h1
  refine ⟨ux, uy, ?_, ?_, ?_⟩
  · simpa only [smoothPiSquareSol_eq S hsin] using hx
  · simpa only [smoothPiSquareSol_eq S hsin] using hy
  · rw [hn]
    have hs := sin_pmod' (κ := 1) (L := Real.pi) Real.pi_pos (one_mul _) k (x := xh) h0 h1
    simp only [smooth_pisquare_u_neumann, hexp, hsin, hpi]
    have : pmod xh Real.pi = pmod' xh Real.pi := rfl
    rw [this]
    rw [one_mul, one_mul] at hs
    rw [hs]
    simp only [one_pow, mul_one, one_mul]
    ring

/-- the curve `sqGamma 1` of `smooth_square_neumann` is what the executable model of `UnitSquare().eval`
(`Stbem.Param.unitSquare`, tied to `src/parametrization.py` by the correspondence of C18) returns at every rational
parameter of `[0, 4]` -/
theorem sqGamma_unit_is_model (x : ℚ) (h0 : 0 ≤ x) (h4 : x ≤ 4) :
    ∃ c p, Stbem.Param.unitSquare = .ok c ∧ Stbem.Param.evalCurve c x = .ok p ∧
      (((p.1 : ℚ) : ℝ), ((p.2 : ℚ) : ℝ)) = sqGamma 1 (x : ℝ) := by
  obtain ⟨p, hp, he⟩ := evalCurve_unitSquare x h0 h4
  exact ⟨_, p, unitSquare_eq, hp, he⟩

/-- the curve `sqGamma π` of `smooth_pisquare_neumann` is the unit-square curve in units of `π` (as the model treats
`PiSquare`) -/
theorem sqGamma_pi_is_scaled (xh : ℝ) :
    sqGamma Real.pi xh = (Real.pi * (sqGamma 1 (xh / Real.pi)).1, Real.pi * (sqGamma 1 (xh / Real.pi)).2) :=
  sqGamma_scale Real.pi_pos xh

example : ∃ c p, Stbem.Param.unitSquare = .ok c ∧ Stbem.Param.evalCurve c (5 / 2) = .ok p ∧
    (((p.1 : ℚ) : ℝ), ((p.2 : ℚ) : ℝ)) = sqGamma 1 ((5 / 2 : ℚ) : ℝ) :=
  sqGamma_unit_is_model (5 / 2) (by norm_num) (by norm_num)

example (t a b : ℝ) : Heat2 (fun τ α β => smoothSquareSol model τ α β) t a b := smooth_square_heat model rfl rfl t a b

example (t : ℝ) : ∃ ux uy : ℝ, HasDerivAt (fun x => smoothSquareSol model t x (sqGamma 1 (5 / 2)).2) ux (sqGamma 1 (5 / 2)).1 ∧
    HasDerivAt (fun y => smoothSquareSol model t (sqGamma 1 (5 / 2)).1 y) uy (sqGamma 1 (5 / 2)).2 ∧
    smooth_square_u_neumann model t (5 / 2) = (sqNormal 2).1 * ux + (sqNormal 2).2 * uy :=
  smooth_square_neumann model rfl rfl rfl t 2 (by norm_num) _ (by norm_num) (by norm_num)

example (t : ℝ) : ∃ ux uy : ℝ,
    HasDerivAt (fun x => smoothPiSquareSol model t x (sqGamma Real.pi (4 * Real.pi)).2) ux (sqGamma Real.pi (4 * Real.pi)).1 ∧
    HasDerivAt (fun y => smoothPiSquareSol model t (sqGamma Real.pi (4 * Real.pi)).1 y) uy (sqGamma Real.pi (4 * Real.pi)).2 ∧
    smooth_pisquare_u_neumann model t (4 * Real.pi) = (sqNormal 3).1 * ux + (sqNormal 3).2 * uy :=
  smooth_pisquare_neumann model rfl rfl rfl t 3 (by norm_num) _
    (by have := Real.pi_pos; norm_num; linarith) (by norm_num)

/-- **the complex-erf closed form of Smooth/UnitSquare is the initial potential** of the generated `u0` over `[0,1]²`
(kernel of `InitialOperator.evaluate`) -/
theorem smooth_square_potential (S : Fns) (hsqrt : S.sqrt = Real.sqrt) (hpi : S.pi = Real.pi)
    (hsin : S.sin = Real.sin) (hcexp : S.cexp = Complex.exp)
    (hcerf : ∀ z, HasDerivAt S.cerf (2 / ((Real.sqrt Real.pi : ℝ) : ℂ) * Complex.exp (-z ^ 2)) z)
    (hodd : ∀ z, S.cerf (-z) = - S.cerf z) (t x y : ℝ) (ht : 0 < t) :
    smooth_square_M0u0 S t x y
      = ∫ x' in (0 : ℝ)..1, ∫ y' in (0 : ℝ)..1, heatKernel t (x - x') (y - y') * smooth_square_u0 S x' y' :=
  smooth_square_potential' S hsqrt hpi hsin hcexp hcerf hodd t x y ht

/-- **the complex-erf closed form of Smooth/PiSquare is the initial potential** of the generated `u0` over `[0,π]²` -/
theorem smooth_pisquare_potential (S : Fns) (hsqrt : S.sqrt = Real.sqrt) (hpi : S.pi = Real.pi)
    (hsin : S.sin = Real.sin) (hcexp : S.cexp = Complex.exp)
    (hcerf : ∀ z, HasDerivAt S.cerf (2 / ((Real.sqrt Real.pi : ℝ) : ℂ) * Complex.exp (-z ^ 2)) z)
    (hodd : ∀ z, S.cerf (-z) = - S.cerf z) (herfc : ∀ z, S.cerfc z = 1 - S.cerf z) (t x y : ℝ) (ht : 0 < t) :
    smooth_pisquare_M0u0 S t x y
      = ∫ x' in (0 : ℝ)..Real.pi, ∫ y' in (0 : ℝ)..Real.pi,
          heatKernel t (x - x') (y - y') * smooth_pisquare_u0 S x' y' :=
  smooth_pisquare_potential' S hsqrt hpi hsin hcexp hcerf hodd herfc t x y ht

example (x y : ℝ) : smooth_square_M0u0 model (1 / 10) x y
    = ∫ x' in (0 : ℝ)..1, ∫ y' in (0 : ℝ)..1, heatKernel (1 / 10) (x - x') (y - y') * smooth_square_u0 model x' y' :=
  smooth_square_potential model rfl rfl rfl rfl cerfModel_deriv cerfModel_odd _ x y (by norm_num)

example (x y : ℝ) : smooth_pisquare_M0u0 model 2 x y
    = ∫ x' in (0 : ℝ)..Real.pi, ∫ y' in (0 : ℝ)..Real.pi,
        heatKernel 2 (x - x') (y - y') * smooth_pisquare_u0 model x' y' :=
  smooth_pisquare_potential model rfl rfl rfl rfl cerfModel_deriv cerfModel_odd (fun _ => rfl) _ x y (by norm_num)

end Stbem.Problems.R

/-! ## 4. The dispatch table of `problem_helper`, 5. rounded literals -/
namespace Stbem.Problems.Q

/-- inadmissible names fail the corresponding assertion -/
theorem helper_rejects (p d : String) (h : p ∉ problemNames ∨ d ∉ domainNames) : ∃ e, helper p d = .error e :=
  helper_rejects' p d h

/-- `problem_helper` returns a dictionary exactly for these twelve (problem, domain) pairs -/
theorem helper_ok_iff (p d : String) :
    (∃ r, helper p d = .ok r) ↔ (p, d) ∈ [("Smooth", "UnitSquare"), ("Smooth", "PiSquare"), ("Singular", "UnitSquare"),
      ("Singular", "LShape"), ("Dirichlet", "UnitSquare"), ("Dirichlet", "PiSquare"), ("Dirichlet", "LShape"),
      ("Dirichlet", "Circle"), ("MildSingular", "UnitSquare"), ("MildSingular", "PiSquare"),
      ("MildSingular", "LShape"), ("MildSingular", "Circle")] :=
  helper_ok_iff' p d

/-- what `example.py` relies on: `'u0'` comes with `'M0u0'`, `'g'` with `'g-linform'` (and conversely), and every
dictionary carries initial data or Dirichlet data -/
theorem helper_keys (p d : String) (r : List (String × String)) (h : helper p d = .ok r) :
    (("u0" ∈ r.map Prod.fst) ↔ ("M0u0" ∈ r.map Prod.fst)) ∧ (("g" ∈ r.map Prod.fst) ↔ ("g-linform" ∈ r.map Prod.fst)) ∧
      (("u0" ∈ r.map Prod.fst) ∨ ("g" ∈ r.map Prod.fst)) :=
  helper_keys' p d r h

/-- every function handed out is a translated function, stored under the key whose signature it was translated with -/
theorem helper_entries_translated (p d : String) (r : List (String × String)) (h : helper p d = .ok r) :
    ∀ kn ∈ r, ∃ e ∈ table, e.1 = kn.2 ∧ e.2.1 = kn.1 :=
  helper_entries_translated' p d r h

/-- the pairs whose closed forms are the subject of section 2 and 3 -/
theorem helper_closed_forms :
    helper "Singular" "UnitSquare" = .ok [("u0", "singular_square_u0"), ("M0u0", "singular_square_M0u0")] ∧
    helper "Singular" "LShape" = .ok [("u0", "singular_lshape_u0"), ("M0u0", "singular_lshape_M0u0")] ∧
    helper "Smooth" "UnitSquare" = .ok [("u-trace", "smooth_square_u_neumann"), ("u0", "smooth_square_u0"),
      ("M0u0", "smooth_square_M0u0")] ∧
    helper "Smooth" "PiSquare" = .ok [("u-trace", "smooth_pisquare_u_neumann"), ("u0", "smooth_pisquare_u0"),
      ("M0u0", "smooth_pisquare_M0u0")] ∧
    helper "Dirichlet" "Circle" = .ok [("g-linform", "dirichlet_g_linform"), ("g", "dirichlet_g")] ∧
    helper "MildSingular" "LShape" = .ok [("g-linform", "mildsingular_g_linform"), ("g", "mildsingular_g")] := by
  decide +kernel

/-- every literal quotient that Python evaluates in binary64 is within relative distance `2⁻⁵³` of its ideal value
(the `ℝ` definitions use the ideal value, the executable ones the rounded value) -/
theorem roundedLiterals_close :
    ∀ e ∈ roundedLiterals, (e.2.2.2 - e.2.2.1) ^ 2 * 2 ^ 106 ≤ e.2.2.1 ^ 2 := by
  decide +kernel

end Stbem.Problems.Q
