import Stbem.Lemmas.SloboPw
import Stbem.Lemmas.SloboMoments

/-!
# C14 — Slobodeckij seminorm quadratures are exact on polynomials and invariant

All statements are about the executable model (`Stbem.Model.Quad`: `semi14`, `semi12`, `semi12pw`;
`Stbem.Model.Slobo`: `semi12g`, `semi12pwVal`), tied to `src/norms.py` by exact execution of the real
class (`harness/checks/C14.py`).  `semi14 g f a h` is `seminorm_h_1_4(f, a, a+h) / √h` for the base
rule `g`; `semi12 gx gl f a h` is `seminorm_h_1_2(f, a, a+h)`; `semi12g` the curve-aware variant;
`semi12pwVal` is `seminorm_h_1_2_pw`.  Every theorem holds for *every* base rule (any nodes, any
weights, any length), every integrand and every interval unless a hypothesis says otherwise.

Full statements:

  theorem semi12_exact : (∀ k ≤ N, mom gx k = 1/(k+2)) → Exact1 gl N → … → 2 * deg ≤ N + 2 → h ≠ 0 →
      semi12 gx gl (evalPoly cs) a h = ∫_a^{a+h} ∫_a^{a+h} (f x - f y)² / (x - y)² dy dx
    — PROVED in `Props/C14Integral.lean` (`semi12_eq_integral_poly`, `semi12_exact`; for the generated code
    `NormsTie.gen_h12_eq_integral_poly`): for polynomial `f` the quotient `(f x - f y)/(x - y)` is the divided-difference
    polynomial, the integrand is a polynomial, the double integral is proper; the Duffy substitution is carried out with
    Mathlib interval integrals.  `semi12_exact_partial` below (one value for all exact rules) is kept under its name;
    its value is that integral.

  theorem semi14_exact : (∀ k ≤ N, mom g k = 2/(2k+1)) → cs.length ≤ deg + 1 → 2 * deg ≤ N → 0 < h →
      √h · semi14 g (evalPoly cs) a h = ∫_a^{a+h} ∫_a^{a+h} (f x - f y)² / |x - y|^{3/2} dy dx
    — PROVED in `Props/C14Integral14.lean` (`semi14_eq_integral_ref`, `semi14_eq_integral_triangle`,
    `semi14_eq_integral_square`, `semi14_exact`; for the generated code `gen_h14_exact` in `Props/C14Integral14Gen.lean`).
    The integrand is not a polynomial (`|x - y|^{1/2}` remains after dividing out `(x - y)²`), but the Duffy-transformed
    summand of the routine is a polynomial against the weights `x^{-1/2} y^{-1/2}`: linearity of the iterated weighted
    integral over `Span2` plus the moments `∫₀¹ xᵏ x^{-1/2} = 2/(2k+1)` give the reference-square integral, two affine
    substitutions the triangle integral, Fubini for the continuous symmetric kernel `|t - s|^{1/2} D(t, s)²` the square.
    `semi14_exact_partial`, `semi14_reduction`, `semi14_moment_form`, `semi14_exact_indep`, `sqrtinv_weight_moment` below are
    kept under their names (one value `v(f, a, h)` for all exact rules — it is `h^{-1/2}` times that integral,
    `semi14_exact_value`).
Binary64 rounding ("twelve digits") is not modelled.
-/
namespace Stbem.C14
open Stbem.Quad

/-! ## H^{1/4}: sign, constants, scaling, translation -/

theorem semi14_nonneg (g : Rule1) (f : Rat → Rat) (a h : Rat) (hg : ∀ n ∈ g, 0 ≤ n.w ∧ 0 ≤ n.x) :
    0 ≤ semi14 g f a h := Quad.semi14_nonneg g f a h hg

theorem semi14_const (g : Rule1) (c a h : Rat) : semi14 g (fun _ => c) a h = 0 :=
  Quad.semi14_const g c a h

theorem semi14_scale (g : Rule1) (f : Rat → Rat) (c a h : Rat) :
    semi14 g (fun x => c * f x) a h = c ^ 2 * semi14 g f a h := Quad.semi14_scale g f c a h

theorem semi14_translate (g : Rule1) (f : Rat → Rat) (a h τ : Rat) :
    semi14 g (fun x => f (x - τ)) (a + τ) h = semi14 g f a h := Quad.semi14_translate g f a h τ

/-! ## H^{1/2} (flat): sign, constants, scaling, translation -/

theorem semi12_nonneg (gx gl : Rule1) (f : Rat → Rat) (a h : Rat)
    (hx : ∀ n ∈ gx, 0 ≤ n.w) (hl : ∀ n ∈ gl, 0 ≤ n.w) : 0 ≤ semi12 gx gl f a h :=
  Quad.semi12_nonneg gx gl f a h hx hl

theorem semi12_const (gx gl : Rule1) (c a h : Rat) : semi12 gx gl (fun _ => c) a h = 0 :=
  Quad.semi12_const gx gl c a h

theorem semi12_scale (gx gl : Rule1) (f : Rat → Rat) (c a h : Rat) :
    semi12 gx gl (fun x => c * f x) a h = c ^ 2 * semi12 gx gl f a h := Quad.semi12_scale gx gl f c a h

theorem semi12_translate (gx gl : Rule1) (f : Rat → Rat) (a h τ : Rat) :
    semi12 gx gl (fun x => f (x - τ)) (a + τ) h = semi12 gx gl f a h := Quad.semi12_translate gx gl f a h τ

/-! ## curve-aware variant -/

theorem semi12g_nonneg (gx gl : Rule1) (γ : Rat → Rat × Rat) (f : Rat → Rat × Rat → Rat) (a h : Rat)
    (hx : ∀ n ∈ gx, 0 ≤ n.w) (hl : ∀ n ∈ gl, 0 ≤ n.w) : 0 ≤ semi12g gx gl γ f a h :=
  Quad.semi12g_nonneg gx gl γ f a h hx hl

theorem semi12g_const (gx gl : Rule1) (γ : Rat → Rat × Rat) (c a h : Rat) :
    semi12g gx gl γ (fun _ _ => c) a h = 0 := Quad.semi12g_const gx gl γ c a h

theorem semi12g_scale (gx gl : Rule1) (γ : Rat → Rat × Rat) (f : Rat → Rat × Rat → Rat) (c a h : Rat) :
    semi12g gx gl γ (fun x p => c * f x p) a h = c ^ 2 * semi12g gx gl γ f a h :=
  Quad.semi12g_scale gx gl γ f c a h

/-- on a straight unit-speed piece `γ(x) = p + (x - s) d`, `|d| = 1` (any placement, any rational
direction), the curve-aware routine equals the flat routine applied to `x̂ ↦ f(x̂, γ(x̂))` -/
theorem semi12_curve_eq_flat (gx gl : Rule1) (g : Seg) (hd : g.d1 ^ 2 + g.d2 ^ 2 = 1)
    (f : Rat → Rat × Rat → Rat) (a h : Rat) :
    semi12g gx gl g.at f a h = semi12 gx gl (fun x => f x (g.at x)) a h :=
  Quad.semi12_curve_eq_flat gx gl g hd f a h

/-- straight piece traversed with another speed: the flat value divided by `|d|²` -/
theorem semi12_curve_speed (gx gl : Rule1) (g : Seg) (f : Rat → Rat × Rat → Rat) (a h : Rat) :
    semi12g gx gl g.at f a h = semi12 gx gl (fun x => f x (g.at x)) a h / (g.d1 ^ 2 + g.d2 ^ 2) :=
  Quad.semi12_curve_speed gx gl g f a h

/-! ## exactness on polynomials: reduction to moments, rule independence -/

/-- **reduction, H^{1/4}**: for `f = Σ cₖ xᵏ`, `deg f ≤ deg`, there is a polynomial `G(x, y)` in the
span of `xⁱ yʲ`, `i ≤ 2 deg`, `j ≤ 2 deg - 1`, depending on `(f, a, h)` only, such that for every
base rule the routine is the tensor rule applied to `G` (the weight `1/y` of the Duffy substitution
cancels against `(f(x) - f(x - h x y))²`) -/
theorem semi14_reduction (cs : List Rat) (a h : Rat) (deg : Nat) (hlen : cs.length ≤ deg + 1) :
    ∃ G, Span2 (2 * deg) (2 * deg - 1) G ∧
      ∀ g : Rule1, semi14 g (evalPoly cs) a h = apply2 (product2 g g) G :=
  Quad.semi14_reduction cs a h deg hlen

/-- hence the routine is a fixed bilinear form in the moments of the base rule -/
theorem semi14_moment_form (cs : List Rat) (a h : Rat) (deg : Nat) (hlen : cs.length ≤ deg + 1) :
    ∃ C : Nat → Nat → Rat, ∀ g : Rule1, semi14 g (evalPoly cs) a h =
      (Finset.range (2 * deg + 1)).sum fun i => (Finset.range (2 * deg - 1 + 1)).sum fun j =>
        C i j * (mom g i * mom g j) := by
  obtain ⟨G, hG, hval⟩ := Quad.semi14_reduction cs a h deg hlen
  obtain ⟨C, hC⟩ := apply2_span_moments hG
  exact ⟨C, fun g => by rw [hval g, hC g g]⟩

/-- **rule independence, H^{1/4}**: base rules with equal moments up to order `N` return the same
value for every polynomial of degree `≤ N / 2` on every interval -/
theorem semi14_exact_indep (g g' : Rule1) (N : Nat) (hm : ∀ k, k ≤ N → mom g k = mom g' k)
    (cs : List Rat) (deg : Nat) (hlen : cs.length ≤ deg + 1) (hdeg : 2 * deg ≤ N) (a h : Rat) :
    semi14 g (evalPoly cs) a h = semi14 g' (evalPoly cs) a h :=
  Quad.semi14_exact_indep g g' N hm cs deg hlen hdeg a h

/-- **closed form, H^{1/4}**: there is a number depending on `(f, a, h)` only — the bilinear form
of `semi14_moment_form` evaluated at the moments `2/(2k+1)` of the weight `x^{-1/2}` — which every
rule that integrates `xᵏ x^{-1/2}` exactly for `k ≤ N`, `2 deg f ≤ N`, returns -/
theorem semi14_exact_partial (cs : List Rat) (a h : Rat) (deg : Nat) (hlen : cs.length ≤ deg + 1) :
    ∃ v : Rat, ∀ (g : Rule1) (N : Nat), 2 * deg ≤ N →
      (∀ k, k ≤ N → mom g k = 2 / (2 * (k : Rat) + 1)) → semi14 g (evalPoly cs) a h = v := by
  obtain ⟨C, hC⟩ := semi14_moment_form cs a h deg hlen
  refine ⟨(Finset.range (2 * deg + 1)).sum fun i => (Finset.range (2 * deg - 1 + 1)).sum fun j =>
    C i j * (2 / (2 * (i : Rat) + 1) * (2 / (2 * (j : Rat) + 1))), fun g N hN hm => ?_⟩
  rw [hC g]
  apply Finset.sum_congr rfl; intro i hi
  apply Finset.sum_congr rfl; intro j hj
  have hi' := Finset.mem_range.mp hi
  have hj' := Finset.mem_range.mp hj
  rw [hm i (by omega), hm j (by omega)]

/-- **reduction, H^{1/2}** (`h ≠ 0`, no node at the singular set `x = 0`, `y = 1`) -/
theorem semi12_reduction (cs : List Rat) (a h : Rat) (hh : h ≠ 0) (deg : Nat) (hlen : cs.length ≤ deg + 1) :
    ∃ G, Span2 (2 * deg - 2) (2 * deg - 2) G ∧
      ∀ gx gl : Rule1, (∀ n ∈ gx, n.x ≠ 0) → (∀ n ∈ gl, n.x ≠ 1) →
        semi12 gx gl (evalPoly cs) a h = 2 * h ^ 2 * apply2 (product2 gx gl) G :=
  Quad.semi12_reduction cs a h hh deg hlen

/-- **rule independence, H^{1/2}**: equal moments up to order `N` ⇒ equal values for every
polynomial of degree `≤ N / 2 + 1` (in particular `≤ (N - 1) / 2`) -/
theorem semi12_exact_indep (gx gl gx' gl' : Rule1) (N : Nat)
    (hmx : ∀ k, k ≤ N → mom gx k = mom gx' k) (hml : ∀ k, k ≤ N → mom gl k = mom gl' k)
    (hx : ∀ n ∈ gx, n.x ≠ 0) (hl : ∀ n ∈ gl, n.x ≠ 1) (hx' : ∀ n ∈ gx', n.x ≠ 0) (hl' : ∀ n ∈ gl', n.x ≠ 1)
    (cs : List Rat) (deg : Nat) (hlen : cs.length ≤ deg + 1) (hdeg : 2 * deg ≤ N + 2) (a h : Rat) (hh : h ≠ 0) :
    semi12 gx gl (evalPoly cs) a h = semi12 gx' gl' (evalPoly cs) a h :=
  Quad.semi12_exact_indep gx gl gx' gl' N hmx hml hx hl hx' hl' cs deg hlen hdeg a h hh

/-- **closed form, H^{1/2}**: one value for all pairs of rules with the moments `1/(k+2)` (weight
`x`) and `1/(k+1)` (Legendre) up to order `N`, `2 deg f ≤ N + 2`.  (The name is historical: the identification of this
value with the double integral — formerly missing — is `semi12_eq_integral_poly` / `semi12_exact` in
`Props/C14Integral.lean`.) -/
theorem semi12_exact_partial (cs : List Rat) (a h : Rat) (hh : h ≠ 0) (deg : Nat) (hlen : cs.length ≤ deg + 1) :
    ∃ v : Rat, ∀ (gx gl : Rule1) (N : Nat), 2 * deg ≤ N + 2 →
      (∀ k, k ≤ N → mom gx k = 1 / ((k : Rat) + 2)) → Exact1 gl N →
      (∀ n ∈ gx, n.x ≠ 0) → (∀ n ∈ gl, n.x ≠ 1) → semi12 gx gl (evalPoly cs) a h = v := by
  obtain ⟨G, hG, hval⟩ := Quad.semi12_reduction cs a h hh deg hlen
  obtain ⟨C, hC⟩ := apply2_span_moments hG
  refine ⟨2 * h ^ 2 * (Finset.range (2 * deg - 2 + 1)).sum fun i => (Finset.range (2 * deg - 2 + 1)).sum fun j =>
    C i j * (1 / ((i : Rat) + 2) * (1 / ((j : Rat) + 1))), fun gx gl N hN hmx hml hx hl => ?_⟩
  rw [hval gx gl hx hl, hC gx gl]
  congr 1
  apply Finset.sum_congr rfl; intro i hi
  apply Finset.sum_congr rfl; intro j hj
  have hi' := Finset.mem_range.mp hi
  have hj' := Finset.mem_range.mp hj
  rw [hmx i (by omega), hml j (by omega)]

/-! ## the moment hypotheses are the moments of the weight functions (real integrals) -/

theorem sqrtinv_weight_moment (k : ℕ) :
    ∫ x in (0 : ℝ)..1, x ^ ((k : ℝ) - 1 / 2) = 2 / (2 * (k : ℝ) + 1) := Quad.sqrtinv_weight_moment k

theorem x_weight_moment (k : ℕ) : ∫ x in (0 : ℝ)..1, x ^ k * x = 1 / ((k : ℝ) + 2) :=
  Quad.x_weight_moment k

theorem legendre_weight_moment (k : ℕ) : ∫ x in (0 : ℝ)..1, x ^ k = 1 / ((k : ℝ) + 1) :=
  Quad.legendre_weight_moment k

/-! ## two pieces meeting in a corner -/

/-- the cross rule in pull-back form (singular corner `(x̂, ŷ) = (b₁, a₂)`, i.e. `(1, 0)` of the
reference square) -/
theorem apply2_semi12pw (gx gl : Rule1) (F : Rat → Rat → Rat) :
    apply2 (semi12pw gx gl) F =
      apply2 (product2 gx gl) (fun x y => F (1 - x) (x * y) + F (1 - x * y) x) :=
  Quad.apply2_semi12pw gx gl F

/-- the cross rule integrates every monomial `sⁱ tʲ`, `i + j ≤ n`, exactly over the unit square -/
theorem semi12pw_exact {gx gl : Rule1} {n : Nat} (hx : ∀ k, k ≤ n → mom gx k = 1 / ((k : Rat) + 2))
    (hl : Exact1 gl n) (i j : Nat) (hij : i + j ≤ n) :
    apply2 (semi12pw gx gl) (fun s t => s ^ i * t ^ j) = 1 / (((i : Rat) + 1) * ((j : Rat) + 1)) :=
  Quad.semi12pw_exact hx hl i j hij

theorem semi12pw_measure {gx gl : Rule1} (hx : mom gx 0 = 1 / 2) (hl : mom gl 0 = 1) (a1 b1 a2 b2 : Rat) :
    integrate2 (semi12pw gx gl) (fun _ _ => 1) a1 b1 a2 b2 = (b1 - a1) * (b2 - a2) :=
  Quad.semi12pw_measure hx hl a1 b1 a2 b2

/-- whenever `seminorm_h_1_2_pw` returns, the pieces are distinct objects, they meet in the corner,
both parameter intervals are longer than the binary64 number `1e-7`, and the value is
piece 1 + piece 2 + 2 · cross term with Euclidean distances -/
theorem semi12pwVal_ok {gx gl : Rule1} {same : Bool} {γ1 γ2 : Rat → Rat × Rat}
    {f : Rat → Rat × Rat → Rat} {a1 b1 a2 b2 v : Rat}
    (h : semi12pwVal gx gl same γ1 γ2 f a1 b1 a2 b2 = .ok v) :
    same = false ∧ γ1 b1 = γ2 a2 ∧ tol7 < b1 - a1 ∧ tol7 < b2 - a2 ∧
      v = semi12g gx gl γ1 f a1 (b1 - a1) + semi12g gx gl γ2 f a2 (b2 - a2) +
        2 * integrate2 (semi12pw gx gl) (sloCross γ1 γ2 f) a1 b1 a2 b2 := Quad.semi12pwVal_ok h

theorem semi12pwVal_nonneg {gx gl : Rule1} {same : Bool} {γ1 γ2 : Rat → Rat × Rat}
    {f : Rat → Rat × Rat → Rat} {a1 b1 a2 b2 v : Rat}
    (hx : ∀ n ∈ gx, 0 ≤ n.w) (hl : ∀ n ∈ gl, 0 ≤ n.w)
    (h : semi12pwVal gx gl same γ1 γ2 f a1 b1 a2 b2 = .ok v) : 0 ≤ v := Quad.semi12pwVal_nonneg hx hl h

theorem semi12pwVal_const {gx gl : Rule1} {same : Bool} {γ1 γ2 : Rat → Rat × Rat} {c a1 b1 a2 b2 v : Rat}
    (h : semi12pwVal gx gl same γ1 γ2 (fun _ _ => c) a1 b1 a2 b2 = .ok v) : v = 0 :=
  Quad.semi12pwVal_const h

theorem semi12pwVal_scale {gx gl : Rule1} {same : Bool} {γ1 γ2 : Rat → Rat × Rat}
    {f : Rat → Rat × Rat → Rat} {a1 b1 a2 b2 v : Rat} (c : Rat)
    (h : semi12pwVal gx gl same γ1 γ2 f a1 b1 a2 b2 = .ok v) :
    semi12pwVal gx gl same γ1 γ2 (fun x p => c * f x p) a1 b1 a2 b2 = .ok (c ^ 2 * v) :=
  Quad.semi12pwVal_scale c h

/-- on two straight unit-speed pieces the same-piece parts of the two-piece routine are the flat
routine of the pulled-back data -/
theorem semi12pwVal_straight {gx gl : Rule1} {g1 g2 : Seg} {f : Rat → Rat × Rat → Rat}
    {a1 b1 a2 b2 v : Rat} (h1 : g1.d1 ^ 2 + g1.d2 ^ 2 = 1) (h2 : g2.d1 ^ 2 + g2.d2 ^ 2 = 1)
    (h : semi12pwVal gx gl false g1.at g2.at f a1 b1 a2 b2 = .ok v) :
    v = semi12 gx gl (fun x => f x (g1.at x)) a1 (b1 - a1) + semi12 gx gl (fun x => f x (g2.at x)) a2 (b2 - a2) +
      2 * integrate2 (semi12pw gx gl) (sloCross g1.at g2.at f) a1 b1 a2 b2 := by
  obtain ⟨_, _, _, _, rfl⟩ := Quad.semi12pwVal_ok h
  rw [Quad.semi12_curve_eq_flat gx gl g1 h1, Quad.semi12_curve_eq_flat gx gl g2 h2]

/-! ## non-vacuity: three-node rational rules with the exact moments of the three weights up to
order 2 (nodes 1/10, 1/2, 9/10, positive weights) -/

def gS : Rule1 := [⟨1 / 10, 55 / 48⟩, ⟨1 / 2, 13 / 24⟩, ⟨9 / 10, 5 / 16⟩]
def gX : Rule1 := [⟨1 / 10, 5 / 192⟩, ⟨1 / 2, 23 / 96⟩, ⟨9 / 10, 15 / 64⟩]
def gL : Rule1 := [⟨1 / 10, 25 / 96⟩, ⟨1 / 2, 23 / 48⟩, ⟨9 / 10, 25 / 96⟩]

theorem gS_moments : ∀ k, k ≤ 2 → mom gS k = 2 / (2 * (k : Rat) + 1) := by
  intro k hk
  interval_cases k <;> simp [mom, apply1, gS] <;> norm_num

/-- a second rule with the same moments (other nodes) -/
def gS2 : Rule1 := [⟨1 / 20, 37 / 42⟩, ⟨2 / 5, 46 / 63⟩, ⟨17 / 20, 7 / 18⟩]

theorem gS2_moments : ∀ k, k ≤ 2 → mom gS2 k = 2 / (2 * (k : Rat) + 1) := by
  intro k hk
  interval_cases k <;> simp [mom, apply1, gS2] <;> norm_num

theorem gX_moments : ∀ k, k ≤ 2 → mom gX k = 1 / ((k : Rat) + 2) := by
  intro k hk
  interval_cases k <;> simp [mom, apply1, gX] <;> norm_num

theorem gL_exact : Exact1 gL 2 := by
  intro k hk
  interval_cases k <;> simp [mom, apply1, gL] <;> norm_num

/-- sign hypotheses are satisfiable -/
example : ∀ n ∈ gS, 0 ≤ n.w ∧ 0 ≤ n.x := by decide +kernel
example : (∀ n ∈ gX, 0 ≤ n.w) ∧ (∀ n ∈ gL, 0 ≤ n.w) ∧ (∀ n ∈ gX, n.x ≠ 0) ∧ (∀ n ∈ gL, n.x ≠ 1) := by decide +kernel

/-- `f(x) = x` on `[0, 1]`: `∫₀¹∫₀¹ |x - y|^{1/2} = 8/15` -/
example : semi14 gS (evalPoly [0, 1]) 0 1 = 8 / 15 := by decide +kernel
/-- `f(x) = 1 + 3x` on `[2, 2 + 4]`: `9 · 4² · 8/15`, times `√4` in the Python routine -/
example : semi14 gS (evalPoly [1, 3]) 2 4 = 9 * 16 * (8 / 15) := by decide +kernel
/-- `f(x) = x²` on `[0, 1]`: `∫₀¹∫₀¹ (x + y)² = 7/6` -/
example : semi12 gX gL (evalPoly [0, 0, 1]) 0 1 = 7 / 6 := by decide +kernel
/-- the hypotheses of `semi14_exact_indep`, `semi12_exact_indep` hold for `N = 2`, degree 1 resp. 2 -/
example : semi14 gS (evalPoly [5, -2]) 3 (1 / 4) = semi14 gS2 (evalPoly [5, -2]) 3 (1 / 4) :=
  semi14_exact_indep gS gS2 2 (fun k hk => by rw [gS_moments k hk, gS2_moments k hk]) [5, -2] 1 (by simp)
    (by norm_num) 3 (1 / 4)
/-- the cross rule integrates `s t` over the unit square exactly -/
example : apply2 (semi12pw gX gL) (fun s t => s ^ 1 * t ^ 1) = 1 / 4 := by
  have := semi12pw_exact gX_moments gL_exact 1 1 (by norm_num)
  rw [this]; norm_num
/-- a rational direction of length one that is not axis-parallel -/
example : (⟨0, 0, 3 / 5, 4 / 5, 0⟩ : Seg).d1 ^ 2 + (⟨0, 0, 3 / 5, 4 / 5, 0⟩ : Seg).d2 ^ 2 = 1 := by norm_num
/-- a right-angle corner on which the two-piece routine returns -/
example : ∃ v, semi12pwVal gX gL false (Seg.at ⟨1, 0, 1, 0, 1⟩) (Seg.at ⟨1, 0, 0, 1, 1⟩)
    (fun _ p => p.1 + 2 * p.2) 0 1 1 2 = .ok v :=
  ⟨_, Quad.semi12pwVal_eq gX gL _ _ _ 0 1 1 2 (by simp [Seg.at]) (by norm_num [tol7]) (by norm_num [tol7])⟩

end Stbem.C14
