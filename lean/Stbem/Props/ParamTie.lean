import Stbem.Lemmas.ParamGenFD
import Stbem.Lemmas.ProblemsCurve
import Stbem.Props.C18

/-!
# ParamTie — `src/parametrization.py` REGENERATED from source equals the hand-written polygon model (C18, also C07 / C12)

`Stbem.Gen.ParamGen` is produced by `translate/paramgen.py` from the current text of `src/parametrization.py` on every run:
`line` (with its closure and the offset `x_start`), `line_project`, `circle`, `central_derivative`,
`PiecewiseParametrization.__init__` (all four assertions, the two numerical self checks included) and `eval` (range
assertion on the whole array, single-piece shortcut, `np.select` = first matching piece), `PiecewisePolygon.__init__` (vertex
checks, the main loop with the bit-exact end-point assertions and the accumulation of `pw_start`), every shipped curve class
with its literal vertices.  This file proves, for ALL inputs:

* `gen_line_eq_axis`, `gen_call_eq`       : `line(a, b, x_start)` returns the hand model's piece and length; calling the closure on
                                       an ARRAY of parameters is `Piece.at` entry by entry;
* `gen_eval_eq_array`                : `eval` on an array = `evalCurve` entry by entry — in particular WHICH piece a break
                                       point evaluates to (`gen_eval_break_point`), and the failure of the whole call when one
                                       parameter is out of range;
* `gen_init_accepts_iff`             : the generated `PiecewiseParametrization.__init__` accepts iff the hand model's length
                                       test, the closing test and the arc-length test `fdOK` pass;
* `gen_polygon_eq_hand`, `gen_polygon_ok_iff` : the generated `PiecewisePolygon.__init__` = the hand model `polygon` for every
                                       vertex list with axis-parallel sides (the scope of the hand model), up to the arc-length
                                       self check that the hand model does not contain; `fdOK_discharged` discharges that check
                                       when the 50 sample points keep `1e-5` away from the corners;
* the shipped classes                : `gen_UnitSquare_eq`, `gen_LShape_eq`, `gen_UnitInterval_eq`, `gen_PiSquare_*` — the
                                       generated constructors return the curves of the hand model (`Stbem.Param.unitSquare`, …)
                                       with the same vertex lists;
* the C18 curve results restated for the generated curves: `gen_unit_speed`, `gen_piece_length`, `gen_continuous_at_breaks`,
  `gen_closed_curve`, `gen_eval_eq_piece`, `gen_eval_total`, `gen_polygon_accepts`.

Beyond the hand model: sides with a rational length that are not axis-parallel (`gen_line_unit`, `gen_pythagorean_example`).
-/
namespace Stbem.ParamTie
open Stbem.Gen.ParamGen
open Stbem.Param
open Stbem.SL (Piece absR distSq)
open Stbem.Mesh (pairs)

variable (S : Fns)

/-! ### the functions -/

/-- **`line(a, b, x_start)`** on an axis-parallel side of positive length: the closure of the hand model's piece (offset
`x_start`, base point `a`, unit direction `(b - a)/‖b - a‖`) and the hand model's length -/
theorem gen_line_eq_axis {a b : Pt} {n : Rat} (h : axisNorm a b = some n) (hn : n ≠ 0) (xs : Rat) :
    Gen.ParamGen.line (arr a) (arr b) xs = .ok (ofPiece (mkPiece a b n xs), n) := gen_line_eq h hn xs

/-- the same through the hand model's `line` -/
theorem gen_line_eq_hand {a b : Pt} {g : Piece} {n : Rat} (h : Stbem.Param.line a b xs = some (g, n)) (hn : n ≠ 0) :
    Gen.ParamGen.line (arr a) (arr b) xs = .ok (ofPiece g, n) := by
  unfold Stbem.Param.line at h
  cases hn' : axisNorm a b with
  | none => rw [hn'] at h; cases h
  | some m =>
    rw [hn'] at h
    simp only [Option.map_some, Option.some.injEq, Prod.mk.injEq] at h
    obtain ⟨rfl, rfl⟩ := h
    exact gen_line_eq hn' hn xs

/-- calling the closure on an array of parameters = `Piece.at` entry by entry -/
theorem gen_call_eq (g : Piece) (xs : List Rat) : (ofPiece g).call S xs = toRows (xs.map g.at) := call_ofPiece S g xs

/-- **`line` beyond the hand model**: whenever the generated `line` returns (the side has a rational positive length, axis-parallel
or not), its closure is a unit-speed parametrisation: `‖γ(x) - γ(y)‖² = (x - y)²` -/
theorem gen_line_unit {a b : Pt} {γ : Gamma} {n xs : Rat} (h : Gen.ParamGen.line (arr a) (arr b) xs = .ok (γ, n)) :
    ∃ g : Piece, γ = ofPiece g ∧ g.start = xs ∧ g.at xs = a ∧ g.at (xs + n) = b ∧ 0 < n ∧
      ∀ x y : Rat, distSq (g.at x) (g.at y) = (x - y) ^ 2 := by
  unfold Gen.ParamGen.line at h
  cases hnorm : npLinalgNorm (npAA (· - ·) (arr b) (arr a)) with
  | error e => rw [hnorm] at h; cases h
  | ok m =>
    rw [hnorm, ok_bind] at h
    obtain ⟨hsq, hm0⟩ := npLinalgNorm_sound hnorm
    by_cases hm : m = 0
    · subst hm
      simp [npDivAS] at h
      cases h
    · simp only [npDivAS, if_neg hm, pure, Except.pure, npAA, arr, List.zipWith_cons_cons, List.zipWith_nil_right,
        List.map_cons, List.map_nil, npReshape21, npCopyM, bind, Except.bind, Except.ok.injEq, Prod.mk.injEq] at h
      obtain ⟨rfl, rfl⟩ := h
      have hsq' : m * m = (b.1 - a.1) * (b.1 - a.1) + (b.2 - a.2) * (b.2 - a.2) := by
        rw [hsq]; simp [npSum, npAA, arr]
      have hunit : ((b.1 - a.1) / m) ^ 2 + ((b.2 - a.2) / m) ^ 2 = 1 := by
        field_simp
        nlinarith [hsq']
      refine ⟨⟨xs, a.1, a.2, (b.1 - a.1) / m, (b.2 - a.2) / m⟩, rfl, rfl, ?_, ?_, lt_of_le_of_ne hm0 (Ne.symm hm), ?_⟩
      · simp [Piece.at]
      · ext
        · simp only [Piece.at]; field_simp; ring
        · simp only [Piece.at]; field_simp; ring
      · exact fun x y => Piece.unit_speed hunit x y

/-! ### `eval` -/

/-- **`PiecewiseParametrization.eval`** on an array = the hand model's `evalCurve` entry by entry -/
theorem gen_eval_eq_array (c : Curve) (hlen : c.pw.length = c.pieces.length + 1) (hne : c.pieces ≠ []) (xs : List Rat) :
    PiecewiseParametrization.eval S (ofCurve c) xs = (xs.mapM (evalCurve c)).map toRows := gen_eval_eq S c hlen hne xs

/-- which piece a break point evaluates to: with at least two pieces the generated `eval` takes, like `np.select`, the FIRST
piece whose closed range contains the parameter — at the break point `hi` between two pieces the one that ENDS there -/
theorem gen_eval_break_point (lo hi : Rat) (pw : List Rat) (g1 g2 : Piece) (gs : List Piece) (cl : Bool)
    (hlen : pw.length = gs.length + 1) (h0 : 0 ≤ lo) (hlh : lo ≤ hi)
    (hL : hi ≤ (⟨lo :: hi :: pw, g1 :: g2 :: gs, cl⟩ : Curve).length) :
    PiecewiseParametrization.eval S (ofCurve ⟨lo :: hi :: pw, g1 :: g2 :: gs, cl⟩) (npScalar hi) = .ok (col (g1.at hi)) := by
  rw [evalCurve_scalar S _ (by simp [hlen]) (by simp)]
  have : evalCurve ⟨lo :: hi :: pw, g1 :: g2 :: gs, cl⟩ hi = .ok (g1.at hi) := by
    rw [evalCurve_in ⟨le_trans h0 hlh, hL⟩]
    show Except.ok (selD (lo :: hi :: pw) (g1 :: g2 :: gs) hi) = _
    rw [selD_cons2, if_pos ⟨hlh, le_refl _⟩]
  rw [this]; rfl

/-! ### the constructors -/

/-- **`PiecewiseParametrization.__init__`** on the data of a hand-model curve -/
theorem gen_init_accepts_iff (c : Curve) (hlen : c.pw.length = c.pieces.length + 1) (hne : c.pieces ≠ []) :
    (PiecewiseParametrization.init S c.pw (c.pieces.map ofPiece) c.closed).toOption =
      if (c.pw.headD 0 = 0 ∧ 0 < c.length) ∧ (c.closed = true → closeOK c = true) ∧ fdOK c = true then some (ofCurve c)
      else none := gen_init_toOption S c hlen hne

/-- **`PiecewisePolygon.__init__` regenerated from source = the hand model**, for all vertex lists with axis-parallel sides -/
theorem gen_polygon_eq_hand (vs : List Pt) (closed : Bool) (hax : ∀ e ∈ pairs vs, axisNorm e.1 e.2 ≠ none) :
    (PiecewisePolygon.init S (vs.map arr) closed).toOption =
      (polygon vs closed).toOption.bind fun c => if fdOK c = true then some (ofCurve c) else none :=
  gen_polygon_toOption S vs closed hax

theorem toOption_eq_some {α : Type} {x : Except String α} {a : α} : x.toOption = some a ↔ x = .ok a := by
  cases x with
  | error e => simp [Except.toOption]
  | ok b => simp [Except.toOption]

/-- the generated constructor returns `P` iff the hand model returns a curve `c` that passes the arc-length self check, and
`P` is that curve -/
theorem gen_polygon_ok_iff (vs : List Pt) (closed : Bool) (hax : ∀ e ∈ pairs vs, axisNorm e.1 e.2 ≠ none)
    (P : PiecewiseParametrization) :
    PiecewisePolygon.init S (vs.map arr) closed = .ok P ↔
      ∃ c, polygon vs closed = .ok c ∧ fdOK c = true ∧ P = ofCurve c := by
  rw [← toOption_eq_some, gen_polygon_toOption S vs closed hax]
  cases hp : polygon vs closed with
  | error e => simp [Except.toOption]
  | ok c =>
    simp only [Except.toOption, Option.bind_some]
    constructor
    · intro h
      by_cases hf : fdOK c = true
      · rw [if_pos hf] at h
        exact ⟨c, rfl, hf, (Option.some.inj h).symm⟩
      · rw [if_neg hf] at h; cases h
    · rintro ⟨c', hc', hf, rfl⟩
      cases (Except.ok.inj hc')
      rw [if_pos hf]

/-- the arc-length self check is discharged when the sample points stay clear of the corners -/
theorem fdOK_discharged {vs : List Pt} {closed : Bool} {c : Curve} (h : polygon vs closed = .ok c)
    (hclear : ∀ x ∈ fdSamples c.length, ∃ q ∈ c.segs, q.1.1 ≤ x - c_1e_m5 ∧ x + c_1e_m5 ≤ q.1.2) : fdOK c = true :=
  fdOK_of_clear h hclear

/-! ### the shipped curve classes -/

def pieceTup (g : Piece) : Rat × Rat × Rat × Rat × Rat := (g.start, g.px, g.py, g.dx, g.dy)

theorem pieceTup_injective : Function.Injective pieceTup := by
  intro a b h
  cases a; cases b
  simp only [pieceTup, Prod.mk.injEq] at h
  obtain ⟨h1, h2, h3, h4, h5⟩ := h
  subst h1 h2 h3 h4 h5
  rfl

/-- decidable summaries of a result of the hand-model constructor -/
def sumPw (r : Except String Curve) : Option (List Rat) := match r with | .ok c => some c.pw | .error _ => none
def sumPieces (r : Except String Curve) : Option (List (Rat × Rat × Rat × Rat × Rat)) :=
  match r with | .ok c => some (c.pieces.map pieceTup) | .error _ => none
def sumClosed (r : Except String Curve) : Option Bool := match r with | .ok c => some c.closed | .error _ => none

theorem eq_of_summary {r : Except String Curve} {c : Curve}
    (h : sumPw r = some c.pw ∧ sumPieces r = some (c.pieces.map pieceTup) ∧ sumClosed r = some c.closed) : r = .ok c := by
  cases r with
  | error e => simp [sumPw] at h
  | ok c' =>
    simp only [sumPw, sumPieces, sumClosed, Option.some.injEq] at h
    obtain ⟨h1, h2, h3⟩ := h
    have h2' := (List.map_injective_iff.mpr pieceTup_injective) h2
    cases c'; cases c
    simp only at h1 h2' h3
    subst h1 h2' h3
    rfl

/-- the unit square of the hand model -/
def unitSquareC : Curve :=
  ⟨[0, 1, 2, 3, 4], [⟨0, 0, 0, 1, 0⟩, ⟨1, 1, 0, 0, 1⟩, ⟨2, 1, 1, -1, 0⟩, ⟨3, 0, 1, 0, -1⟩], true⟩
/-- the L-shape of the hand model -/
def lShapeC : Curve :=
  ⟨[0, 1, 2, 4, 6, 7, 8], [⟨0, 0, 0, 0, -1⟩, ⟨1, 0, -1, 1, 0⟩, ⟨2, 1, -1, 0, 1⟩, ⟨4, 1, 1, -1, 0⟩, ⟨6, -1, 1, 0, -1⟩,
    ⟨7, -1, 0, 1, 0⟩], true⟩
/-- the unit interval of the hand model -/
def unitIntervalC : Curve := ⟨[0, 1], [⟨0, 0, 0, 1, 0⟩], false⟩

theorem unitSquare_ok : Stbem.Param.unitSquare = .ok unitSquareC := eq_of_summary (by decide +kernel)
theorem lShape_ok : Stbem.Param.lShape = .ok lShapeC := eq_of_summary (by decide +kernel)
theorem unitInterval_ok : Stbem.Param.unitInterval = .ok unitIntervalC := eq_of_summary (by decide +kernel)

/-- the vertex lists of the shipped classes, as the generated constructors hand them to `PiecewisePolygon.__init__` — the
lists the hand model (`Stbem.Param.unitSquare`, `lShape`, `unitInterval`) is defined with -/
theorem gen_UnitSquare_vertices :
    UnitSquare.init S = PiecewisePolygon.init S ([((0 : Rat), (0 : Rat)), (1, 0), (1, 1), (0, 1), (0, 0)].map arr) true ∧
    Stbem.Param.unitSquare = polygon [(0, 0), (1, 0), (1, 1), (0, 1), (0, 0)] true := ⟨rfl, rfl⟩

theorem gen_LShape_vertices :
    LShape.init S = PiecewisePolygon.init S
      ([((0 : Rat), (0 : Rat)), (0, -1), (1, -1), (1, 1), (-1, 1), (-1, 0), (0, 0)].map arr) true ∧
    Stbem.Param.lShape = polygon [(0, 0), (0, -1), (1, -1), (1, 1), (-1, 1), (-1, 0), (0, 0)] true := ⟨rfl, rfl⟩

theorem gen_UnitInterval_vertices :
    UnitInterval.init S = PiecewisePolygon.init S ([((0 : Rat), (0 : Rat)), (1, 0)].map arr) false ∧
    Stbem.Param.unitInterval = polygon [(0, 0), (1, 0)] false := ⟨rfl, rfl⟩

/-- `PiSquare` is `UnitSquare` with the vertices scaled by the parameter `np.pi` -/
theorem gen_PiSquare_vertices :
    PiSquare.init S = PiecewisePolygon.init S
      ([((0 : Rat), (0 : Rat)), (1, 0), (1, 1), (0, 1), (0, 0)].map fun p => arr (S.pi * p.1, S.pi * p.2)) true := by
  simp only [PiSquare.init, npArray, List.map_cons, List.map_nil, arr, mul_zero, mul_one]

/-- … so for `np.pi := 1` it IS the unit square (this is how the hand model treats the π-square: in units of π) -/
theorem gen_PiSquare_unit (h : S.pi = 1) : PiSquare.init S = UnitSquare.init S := by
  rw [gen_PiSquare_vertices, (gen_UnitSquare_vertices S).1, h]
  simp

theorem shipped_of_polygon {vs : List Pt} {closed : Bool} {c : Curve} (hax : ∀ e ∈ pairs vs, axisNorm e.1 e.2 ≠ none)
    (hc : polygon vs closed = .ok c) (hf : fdOK c = true) :
    PiecewisePolygon.init S (vs.map arr) closed = .ok (ofCurve c) :=
  (gen_polygon_ok_iff S vs closed hax _).mpr ⟨c, hc, hf, rfl⟩

/-- **`UnitSquare()`**: the generated constructor (all assertions of the source included) returns the hand model's unit
square, for every choice of the special functions -/
theorem gen_UnitSquare_eq : UnitSquare.init S = .ok (ofCurve unitSquareC) := by
  rw [(gen_UnitSquare_vertices S).1]
  exact shipped_of_polygon S (by decide +kernel) unitSquare_ok (by decide +kernel)

/-- **`LShape()`** -/
theorem gen_LShape_eq : LShape.init S = .ok (ofCurve lShapeC) := by
  rw [(gen_LShape_vertices S).1]
  exact shipped_of_polygon S (by decide +kernel) lShape_ok (by decide +kernel)

/-- **`UnitInterval()`** -/
theorem gen_UnitInterval_eq : UnitInterval.init S = .ok (ofCurve unitIntervalC) := by
  rw [(gen_UnitInterval_vertices S).1]
  exact shipped_of_polygon S (by decide +kernel) unitInterval_ok (by decide +kernel)

/-- **`PiSquare()`** in units of π -/
theorem gen_PiSquare_eq (h : S.pi = 1) : PiSquare.init S = .ok (ofCurve unitSquareC) := by
  rw [gen_PiSquare_unit S h, gen_UnitSquare_eq]

/-- the curve of the Neumann-trace theorems of C03 (`Lemmas/ProblemsCurve.lean`: `sqGamma 1` is what this curve evaluates to) is
the curve the generated `UnitSquare()` returns -/
theorem gen_UnitSquare_is_problems_curve :
    UnitSquare.init S = .ok (ofCurve Stbem.Problems.R.unitSquareCurve) ∧ Stbem.Problems.R.unitSquareCurve = unitSquareC :=
  ⟨gen_UnitSquare_eq S, rfl⟩

/-- the names under which the curves enter the cache keys (C17) -/
theorem gen_repr : UnitSquare.repr = "UnitSquare" ∧ LShape.repr = "LShape" ∧ PiSquare.repr = "PiSquare" ∧
    Circle.repr = "Circle" := ⟨rfl, rfl, rfl, rfl⟩

/-! ### the C18 curve results for the generated curves -/

/-- the pieces of a generated curve with their closed parameter ranges `[pw_start[i], pw_start[i+1]]` -/
def gsegs (P : PiecewiseParametrization) : List ((Rat × Rat) × Gamma) := (pairs P.pw_start).zip P.pw_gamma

theorem gsegs_ofCurve (c : Curve) : gsegs (ofCurve c) = c.segs.map fun q => (q.1, ofPiece q.2) := by
  simp only [gsegs, ofCurve, Curve.segs, segsOf, List.zip_map_right]
  congr 1

theorem pairs_map {α β : Type} (f : α → β) : ∀ (l : List α), pairs (l.map f) = (pairs l).map fun p => (f p.1, f p.2) := by
  intro l
  induction l with
  | nil => rfl
  | cons a l ih =>
    cases l with
    | nil => rfl
    | cons b l =>
      rw [List.map_cons, List.map_cons, Stbem.Mesh.pairs_cons2, Stbem.Mesh.pairs_cons2, List.map_cons, ← ih]
      rfl

theorem ofCurve_wf {vs : List Pt} {closed : Bool} {c : Curve} (hc : polygon vs closed = .ok c) :
    c.pw.length = c.pieces.length + 1 ∧ c.pieces ≠ [] := by
  obtain ⟨h1, h2, _⟩ := piece_length hc
  have := polygon_two_le hc
  refine ⟨h2, ?_⟩
  intro h
  rw [h] at h1
  simp at h1
  omega

/-- `eval` fails as a whole when one parameter of the array is out of range -/
theorem gen_eval_out_of_range (P : PiecewiseParametrization) (xs : List Rat) (h : ¬ ∀ x ∈ xs, 0 ≤ x ∧ x ≤ P.gamma_length) :
    P.eval S xs = .error "assert:range" := by
  unfold PiecewiseParametrization.eval
  rw [assertThat_false _ (fun hh => h ((rangeOK_iff _ _).mp hh))]
  rfl

section
variable {vs : List Pt} {closed : Bool} {P : PiecewiseParametrization}
  (hax : ∀ e ∈ pairs vs, axisNorm e.1 e.2 ≠ none) (hP : PiecewisePolygon.init S (vs.map arr) closed = .ok P)
include hax hP

/-- every piece of a generated polygon is parametrised by arc length: the squared chord between two parameters is the squared
parameter distance -/
theorem gen_unit_speed : ∀ γ ∈ P.pw_gamma, ∀ x y : Rat, ∃ p q : Pt,
    γ.call S (npScalar x) = col p ∧ γ.call S (npScalar y) = col q ∧ distSq p q = (x - y) ^ 2 := by
  obtain ⟨c, hc, _, rfl⟩ := (gen_polygon_ok_iff S vs closed hax P).mp hP
  intro γ hγ x y
  obtain ⟨g, hg, rfl⟩ := List.mem_map.mp hγ
  exact ⟨g.at x, g.at y, call_ofPiece_scalar S g x, call_ofPiece_scalar S g y, unit_speed hc g hg x y⟩

/-- one piece per side; its parameter range has the length of the side, it starts at `pw_start[i]` in vertex `i` and ends at
`pw_start[i+1]` in vertex `i+1`; `pw_start[0] = 0`, `gamma_length = pw_start[-1]` -/
theorem gen_piece_length :
    P.pw_gamma.length = vs.length - 1 ∧ P.pw_start.length = P.pw_gamma.length + 1 ∧ P.pw_start.head? = some 0 ∧
    P.gamma_length = P.pw_start.getLastD 0 ∧ P.closed = closed ∧ (gsegs P).length = P.pw_gamma.length ∧
    ∀ q ∈ (gsegs P).zip (pairs vs), q.1.1.1 < q.1.1.2 ∧ q.1.2.call S (npScalar q.1.1.1) = col q.2.1 ∧
      q.1.2.call S (npScalar q.1.1.2) = col q.2.2 ∧ distSq q.2.1 q.2.2 = (q.1.1.2 - q.1.1.1) ^ 2 := by
  obtain ⟨c, hc, _, rfl⟩ := (gen_polygon_ok_iff S vs closed hax P).mp hP
  obtain ⟨h1, h2, h3, h4, _, h6⟩ := piece_length hc
  obtain ⟨pw, _, hcl, _⟩ := polygon_spec hc
  refine ⟨by simp [ofCurve, h1], by simp [ofCurve, h2], h3, rfl, hcl, by rw [gsegs_ofCurve]; simp [h4, ofCurve], ?_⟩
  intro q hq
  rw [gsegs_ofCurve, List.zip_map_left] at hq
  obtain ⟨q0, hq0, rfl⟩ := List.mem_map.mp hq
  obtain ⟨hs, hd⟩ := h6 q0 hq0
  refine ⟨hs.pos, ?_, ?_, hd⟩
  · simp only [Prod.map, id]; rw [call_ofPiece_scalar, hs.at_lo]
  · simp only [Prod.map, id]; rw [call_ofPiece_scalar, hs.at_hi]

/-- consecutive pieces share the break point and agree there -/
theorem gen_continuous_at_breaks : ∀ r ∈ pairs (gsegs P),
    r.1.1.2 = r.2.1.1 ∧ r.1.2.call S (npScalar r.1.1.2) = r.2.2.call S (npScalar r.1.1.2) := by
  obtain ⟨c, hc, _, rfl⟩ := (gen_polygon_ok_iff S vs closed hax P).mp hP
  intro r hr
  rw [gsegs_ofCurve, pairs_map] at hr
  obtain ⟨r0, hr0, rfl⟩ := List.mem_map.mp hr
  obtain ⟨h1, h2⟩ := continuous_at_breaks hc r0 hr0
  refine ⟨h1, ?_⟩
  simp only
  rw [call_ofPiece_scalar, call_ofPiece_scalar, h2]

/-- evaluating the whole curve on an array of parameters that lie in the closed range of ONE piece = evaluating that piece
(at a break point both adjacent pieces qualify, and give the same point) -/
theorem gen_eval_eq_piece : ∀ q ∈ gsegs P, ∀ xs : List Rat, (∀ x ∈ xs, q.1.1 ≤ x ∧ x ≤ q.1.2) →
    P.eval S xs = .ok (q.2.call S xs) := by
  obtain ⟨c, hc, _, rfl⟩ := (gen_polygon_ok_iff S vs closed hax P).mp hP
  obtain ⟨hlen, hne⟩ := ofCurve_wf hc
  intro q hq xs hxs
  rw [gsegs_ofCurve] at hq
  obtain ⟨q0, hq0, rfl⟩ := List.mem_map.mp hq
  rw [gen_eval_eq S c hlen hne, mapM_ok_of_forall (evalCurve c) q0.2.at xs
    (fun x hx => eval_eq_piece hc q0 hq0 x (hxs x hx).1 (hxs x hx).2)]
  simp only [Except.map]
  rw [call_ofPiece]

/-- every parameter of `[0, L]` lies in the range of some piece, and `eval` fails (as a whole) iff a parameter is outside -/
theorem gen_eval_total (xs : List Rat) :
    (∀ x ∈ xs, 0 ≤ x ∧ x ≤ P.gamma_length) → (∃ m, P.eval S xs = .ok m) ∧ ∀ x ∈ xs, ∃ q ∈ gsegs P, q.1.1 ≤ x ∧ x ≤ q.1.2 := by
  obtain ⟨c, hc, _, rfl⟩ := (gen_polygon_ok_iff S vs closed hax P).mp hP
  obtain ⟨hlen, hne⟩ := ofCurve_wf hc
  intro hxs
  constructor
  · rw [gen_eval_eq S c hlen hne, mapM_ok_of_forall (evalCurve c) (evalPt c) xs (fun x hx => evalCurve_in (hxs x hx))]
    exact ⟨_, rfl⟩
  · intro x hx
    obtain ⟨q, hq, h1, h2⟩ := eval_total hc (hxs x hx).1 (hxs x hx).2
    exact ⟨(q.1, ofPiece q.2), by rw [gsegs_ofCurve]; exact List.mem_map.mpr ⟨q, hq, rfl⟩, h1, h2⟩

/-- a curve declared closed returns to its first vertex -/
theorem gen_closed_curve (hc : closed = true) : ∃ v, vs.head? = some v ∧ P.eval S (npScalar 0) = .ok (col v) ∧
    P.eval S (npScalar P.gamma_length) = .ok (col v) ∧ 0 < P.gamma_length := by
  obtain ⟨c, hcv, _, rfl⟩ := (gen_polygon_ok_iff S vs closed hax P).mp hP
  obtain ⟨hlen, hne⟩ := ofCurve_wf hcv
  obtain ⟨v, h1, h2, h3, h4⟩ := closed_curve hcv hc
  refine ⟨v, h1, ?_, ?_, h4⟩
  · rw [evalCurve_scalar S c hlen hne, h2]; rfl
  · rw [show (ofCurve c).gamma_length = c.length from rfl, evalCurve_scalar S c hlen hne, h3]; rfl

end

/-- acceptance of the generated constructor: axis-parallel sides of positive length, at least one side, first = last vertex
when closed, sample points of the arc-length test clear of the corners — nothing else can make it fail -/
theorem gen_polygon_accepts {vs : List Pt} {closed : Bool} (h2 : 2 ≤ vs.length)
    (hax : ∀ e ∈ pairs vs, (e.1.1 = e.2.1 ∨ e.1.2 = e.2.2) ∧ e.1 ≠ e.2)
    (hcl : closed = true → vs.head? = vs.getLast?)
    (hfd : ∀ c, polygon vs closed = .ok c → ∀ x ∈ fdSamples c.length, ∃ q ∈ c.segs, q.1.1 ≤ x - c_1e_m5 ∧ x + c_1e_m5 ≤ q.1.2) :
    ∃ P, PiecewisePolygon.init S (vs.map arr) closed = .ok P := by
  obtain ⟨c, hc⟩ := polygon_accepts h2 hax hcl
  have hax' : ∀ e ∈ pairs vs, axisNorm e.1 e.2 ≠ none := by
    intro e he
    obtain ⟨h, _⟩ := hax e he
    unfold axisNorm
    rcases h with h | h
    · by_cases h' : e.1.2 = e.2.2
      · rw [if_pos h']; simp
      · rw [if_neg h', if_pos h]; simp
    · rw [if_pos h]; simp
  exact ⟨_, (gen_polygon_ok_iff S vs closed hax' _).mpr ⟨c, hc, fdOK_of_clear hc (hfd c hc), rfl⟩⟩

/-! ### non-vacuity -/

/-- hypotheses of the restated results on the unit square -/
example : ∃ P, PiecewisePolygon.init S ([((0 : Rat), (0 : Rat)), (1, 0), (1, 1), (0, 1), (0, 0)].map arr) true = .ok P :=
  ⟨_, (gen_UnitSquare_vertices S).1 ▸ gen_UnitSquare_eq S⟩

/-- the break point 1 of the unit square evaluates to the corner `(1, 0)` through the piece that ENDS there -/
example : PiecewiseParametrization.eval S (ofCurve unitSquareC) (npScalar 1) = .ok (col (1, 0)) := by
  have := gen_eval_break_point S 0 1 [2, 3, 4] ⟨0, 0, 0, 1, 0⟩ ⟨1, 1, 0, 0, 1⟩ [⟨2, 1, 1, -1, 0⟩, ⟨3, 0, 1, 0, -1⟩] true rfl
    (by norm_num) (by norm_num) (by decide +kernel)
  rw [show (⟨0, 0, 0, 1, 0⟩ : Piece).at 1 = (1, 0) by decide +kernel] at this
  exact this

/-- the polygon of length 49 with its corner at 24 is accepted by the hand model but REJECTED by the generated constructor —
as by the real one: a sample point of the arc-length test falls within `1e-5` of the corner -/
example : (polygon [(0, 0), (24, 0), (24, 25)] false).toOption.isSome = true ∧
    (PiecewisePolygon.init ⟨fun _ => 0, fun _ => 0, fun _ => 0, 1⟩ [[0, 0], [24, 0], [24, 25]] false).toOption = none := by
  decide +kernel

/-- beyond the hand model: the 3-4-5 triangle is outside the hand model (`not-axis-parallel`) and accepted by the generated
constructor, with `pw_start = [0, 5, 9, 12]` (its sides have rational lengths) -/
theorem gen_pythagorean_example :
    (polygon [(0, 0), (3, 4), (3, 0), (0, 0)] true).toOption.isSome = false ∧
    (PiecewisePolygon.init ⟨fun _ => 0, fun _ => 0, fun _ => 0, 1⟩ [[0, 0], [3, 4], [3, 0], [0, 0]] true).toOption.map
      (fun P => (P.pw_start, P.gamma_length, P.closed)) = some ([0, 5, 9, 12], 12, true) := by
  decide +kernel

end Stbem.ParamTie
