import Stbem.Props.C08
import Stbem.Lemmas.InitPotGenTie
import Stbem.Lemmas.AssemblyPaths

/-!
# InitPotTie — `InitialOperator` REGENERATED FROM `src/initial_potential.py` equals the hand-written model

`Stbem.Gen.InitPotGen` is produced on every run by `translate/initpotgen.py` from the bodies of `InitialOperator.__init__`,
`linform`, `linform_vector`, `MP_M0_val`, `evaluate`, `evaluate_mesh` (Python `ast` → Lean, statement by statement) and, from
src/initial_mesh.py, of `Element.diam`, `Element.gamma`, `Element.connected_to_vertex`, the domain meshes `UnitSquare()`,
`PiSquare()`, `LShape()` and the factories `<Domain>BoundaryRefined` that are handed to `InitialOperator(initial_mesh=…)`.
This file proves, for ALL inputs (rule, special functions, initial datum, domain-mesh factory, boundary element; errors
included), that the generated `linform` is the hand-written model `Stbem.Model.InitialPotential` — the same mesh request,
vertex look-ups and assertions in the same order, the same four cell classes with the same vertex matching,
parametrisations, kernels (`G_time` for the identical cell, the inline kernel with its `a == 0` branch for the others),
rules and Jacobian factors, the same per-cell list and sum.  If the source changes so that any of these differs, the
theorems no longer check.

Consequently the theorems of `Props/C08.lean` are theorems about the generated-from-source functions; section 3 states
them.  Section 4: `evaluate` / `evaluate_mesh` (no hand model: what the generated functions compute).
-/
namespace Stbem.InitPotTie
open Stbem.Quadtree Stbem.Quad Stbem.InitPot Stbem.Formulas.Q
open Stbem.Gen

/-! ## 1. the generated definitions equal the hand-written ones -/

/-- `__init__`: `duff_3d_id = DuffySchemeIdentical3D(ProductScheme3D(log_scheme), symmetric_xy=False)`,
`duff_3d_touch = DuffySchemeTouch3D(ProductScheme3D(log_scheme))` are the two rules of the model -/
theorem gen_rules_eq (log : Rule1) :
    InitPotGen.duff_3d_id log = duffId log ∧ InitPotGen.duff_3d_touch log = duffTouch log := ⟨rfl, rfl⟩

/-- the constructor defaults the accuracy searches of C08 run with (`quad_int=12`, `quad_eval=19`) -/
theorem gen_default_orders : InitPotGen.default_quad_int = 12 ∧ InitPotGen.default_quad_eval = 19 := ⟨rfl, rfl⟩

/-- `Element.diam` of src/initial_mesh.py (regenerated: `vertices[1].x - vertices[0].x`) is the side of the square: the
binding `diam` of the object model -/
theorem gen_Element_diam_eq (e : Elem) : InitPotGen.Element_diam e = .ok (InitPotGen.diam e) := by
  simp [InitPotGen.Element_diam, InitPotGen.vertices, corners, InitPotGen.pyIndex, InitPotGen.diam, bind, Except.bind, pure,
    Except.pure]

/-- `Element.gamma()` (regenerated: the affine map through the vertices 0, 1, 3) is the binding `elemGamma` -/
theorem gen_Element_gamma_eq (e : Elem) : InitPotGen.Element_gamma e = .ok (InitPotGen.elemGamma e) := rfl

/-- `Element.connected_to_vertex(vertex)` (regenerated: membership assertion, the loop over `self.vertices` with the `^` test,
`assert len(result) == 2`) is the model's `connected` -/
theorem gen_Element_connected_eq (e : Elem) (v : Pt) :
    InitPotGen.Element_connected_to_vertex e v = connected e v := by
  unfold InitPotGen.Element_connected_to_vertex connected
  simp only [InitPotGen.vertices, connected_fold, bind, Except.bind, List.nil_append, pure, Except.pure]

/-- `vertex_from_coords`: the vertex handed back carries the coordinates that were looked up (the model works with
those directly) -/
theorem gen_vertex_from_coords_eq (m : QT) (p : Pt) :
    InitPotGen.vertex_from_coords m p = (vertexFromCoords m p.1 p.2).map fun o => o.map fun _ => p :=
  vertex_from_coords_eq m p

/-- the loop body: for every loop state and leaf, the count of identical cells and the contribution list change as the
model's `cellVal` says (same class, same assertion failures, same value) -/
theorem gen_loop_eq (C : Ctx) (s : Seg) (st : Nat × Nat × List (Elem × Rat)) (e : Elem) :
    (InitPotGen.linform_loop1 C.fns C.rule C.u0 s.a s.b (fun x => ip_tik C.fns s.a s.b x) s.c s.d s.p0 s.p1 s.p0 s.p1
        st e).map proj3 =
      (cellVal C s e).map fun r => (st.1 + (if r.1 then 1 else 0), st.2.2 ++ [(e, r.2)]) :=
  gen_loop_spec C s st e

/-- `linform` for an arbitrary domain-mesh factory `F` (`self.initial_mesh`): the factory is called once with
`(γ(c), γ(d))`; the rest is the model's `linformOn` on the mesh it returns -/
theorem gen_linform_factory_eq (C : Ctx) (F : Pt → Pt → Except String QT) (s : Seg) :
    (InitPotGen.linform C.fns C.rule C.u0 (some F) s).map toIds = (F s.p0 s.p1).bind fun m => linformOn C m s := by
  unfold InitPotGen.linform
  simp only [vertex_from_coords_eq]
  cases F s.p0 s.p1 with
  | error e => rfl
  | ok m =>
    simp only [bind, Except.bind]
    unfold linformOn
    cases vertexFromCoords m s.p0.1 s.p0.2 with
    | error e => rfl
    | ok i0 =>
      cases vertexFromCoords m s.p1.1 s.p1.2 with
      | error e => cases i0 <;> rfl
      | ok i1 =>
        cases i0 with
        | none => cases i1 <;> rfl
        | some i0 =>
          cases i1 with
          | none => rfl
          | some i1 =>
            have key := foldlM_cells C s _ (gen_loop_spec C s) m.leaves (0, 0, [])
            rw [cells_of_elems]
            generalize List.mapM (fun e => (cellVal C s e).map fun r => (e, r)) m.leaves = X at key ⊢
            simp only [Except.map, Option.map, bind, Except.bind, InitPotGen.leaf_elements] at key ⊢
            cases hfold : List.foldlM (InitPotGen.linform_loop1 C.fns C.rule C.u0 s.a s.b (fun x => ip_tik C.fns s.a s.b x)
                s.c s.d s.p0 s.p1 s.p0 s.p1) ((0 : Nat), (0 : Nat), ([] : List (Elem × Rat))) m.leaves with
            | error err =>
              rw [hfold] at key
              cases X with
              | error err' => cases key; rfl
              | ok rs => cases key
            | ok st =>
              rw [hfold] at key
              cases X with
              | error err' => cases key
              | ok rs =>
                simp only [Except.ok.injEq, proj3, Prod.mk.injEq, Nat.zero_add, List.nil_append] at key
                simp only [Option.isNone_some, Bool.or_self, Bool.false_eq_true, if_false, key.1, key.2, List.filter_map,
                  List.length_map, Function.comp_def, List.map_map, toIds, pure, Except.pure]
                by_cases hc : (List.filter (fun c : Elem × Bool × Rat => c.2.1) rs).length = 1 <;> simp [hc]

/-- **`linform` = the model**, for the shipped factories `<Domain>BoundaryRefined` (fresh domain mesh `dom`, `refine_msh_bdr`
with `fuel` rounds): same load, same per-cell list, same assertion failure — for all inputs -/
theorem gen_linform_eq (C : Ctx) (dom : QT) (fuel : Nat) (s : Seg) :
    (InitPotGen.linform C.fns C.rule C.u0 (some (InitPotGen.boundaryRefined dom fuel)) s).map toIds =
      linform C dom fuel s := by
  rw [gen_linform_factory_eq, linform_eq]
  unfold InitPotGen.boundaryRefined
  cases refineMshBdr fuel dom s.p0 s.p1 with
  | error e => rfl
  | ok me => rfl

/-- the same with the parameters spelt out (`S` = special functions / constants, `log` = the 1-D rule, `u0`) -/
theorem gen_linform_eq_params (S : Fns) (log : Rule1) (u0 : Rat → Rat → Rat) (dom : QT) (fuel : Nat) (s : Seg) :
    (InitPotGen.linform S log u0 (some (InitPotGen.boundaryRefined dom fuel)) s).map toIds =
      linform ⟨log, S, u0⟩ dom fuel s :=
  gen_linform_eq ⟨log, S, u0⟩ dom fuel s

/-! ### the domain meshes and factories of src/initial_mesh.py -/

/-- `UnitSquare()` (regenerated: the literal vertex / element lists handed to `InitialMesh`) is the model's `unitSquare` -/
theorem gen_UnitSquare_eq : InitPotGen.UnitSquare = .ok unitSquare := by
  have h : InitPotGen.UnitSquare.map qtData = .ok (qtData unitSquare) := by decide +kernel
  cases hm : InitPotGen.UnitSquare with
  | error e => rw [hm] at h; cases h
  | ok m => rw [hm] at h; simp only [Except.map, Except.ok.injEq] at h; rw [qt_ext h]

/-- `LShape()` is the model's `lShape` (three unit roots, the vertex order of the source) -/
theorem gen_LShape_eq : InitPotGen.LShape = .ok lShape := by
  have h : InitPotGen.LShape.map qtData = .ok (qtData lShape) := by decide +kernel
  cases hm : InitPotGen.LShape with
  | error e => rw [hm] at h; cases h
  | ok m => rw [hm] at h; simp only [Except.map, Except.ok.injEq] at h; rw [qt_ext h]

/-- the factory `UnitSquareBoundaryRefined` is the binding `boundaryRefined unitSquare` the tie theorems are stated for -/
theorem gen_UnitSquareBoundaryRefined_eq (fuel : Nat) (v0 v1 : Pt) :
    InitPotGen.UnitSquareBoundaryRefined fuel v0 v1 = InitPotGen.boundaryRefined unitSquare fuel v0 v1 := by
  unfold InitPotGen.UnitSquareBoundaryRefined InitPotGen.boundaryRefined
  rw [gen_UnitSquare_eq]
  simp only [bind, Except.bind]
  cases refineMshBdr fuel unitSquare v0 v1 <;> rfl

/-- `PiSquare()` with `np.pi` a positive parameter: the one-root square mesh `[0, π]²` -/
theorem gen_PiSquare_eq (pi : Rat) (hpi : 0 < pi) :
    InitPotGen.PiSquare pi = .ok ⟨[mkRoot 0 0 0 pi], [mkRoot 0 0 0 pi], [(0, 0), (pi, 0), (pi, pi), (0, pi)]⟩ := by
  have h0 : pi ≠ 0 := ne_of_gt hpi
  have e1 : ((pi, (0 : Rat)) == ((0 : Rat), (0 : Rat))) = false := by
    rw [beq_eq_false_iff_ne]; intro h; exact h0 (Prod.mk.inj h).1
  have e2 : ((pi, pi) == (pi, (0 : Rat))) = false := by
    rw [beq_eq_false_iff_ne]; intro h; exact h0 (Prod.mk.inj h).2
  have e3 : ((pi, pi) == ((0 : Rat), (0 : Rat))) = false := by
    rw [beq_eq_false_iff_ne]; intro h; exact h0 (Prod.mk.inj h).1
  have e4 : (((0 : Rat), pi) == (pi, pi)) = false := by
    rw [beq_eq_false_iff_ne]; intro h; exact h0 (Prod.mk.inj h).1.symm
  have e5 : (((0 : Rat), pi) == (pi, (0 : Rat))) = false := by
    rw [beq_eq_false_iff_ne]; intro h; exact h0 (Prod.mk.inj h).2
  have e6 : (((0 : Rat), pi) == ((0 : Rat), (0 : Rat))) = false := by
    rw [beq_eq_false_iff_ne]; intro h; exact h0 (Prod.mk.inj h).2
  simp [InitPotGen.PiSquare, initExplicit, initExplicit.mk, hpi, mkRoot, List.eraseDups, isIntegral, bind, Except.bind, pure, Except.pure,
    List.eraseDupsBy, List.eraseDupsBy.loop, e1, e2, e3, e4, e5, e6]

theorem gen_LShapeBoundaryRefined_eq (fuel : Nat) (v0 v1 : Pt) :
    InitPotGen.LShapeBoundaryRefined fuel v0 v1 = InitPotGen.boundaryRefined lShape fuel v0 v1 := by
  unfold InitPotGen.LShapeBoundaryRefined InitPotGen.boundaryRefined
  rw [gen_LShape_eq]
  simp only [bind, Except.bind]
  cases refineMshBdr fuel lShape v0 v1 <;> rfl

theorem gen_PiSquareBoundaryRefined_eq (pi : Rat) (hpi : 0 < pi) (fuel : Nat) (v0 v1 : Pt) :
    InitPotGen.PiSquareBoundaryRefined pi fuel v0 v1 =
      InitPotGen.boundaryRefined ⟨[mkRoot 0 0 0 pi], [mkRoot 0 0 0 pi], [(0, 0), (pi, 0), (pi, pi), (0, pi)]⟩ fuel v0 v1 := by
  unfold InitPotGen.PiSquareBoundaryRefined InitPotGen.boundaryRefined
  rw [gen_PiSquare_eq pi hpi]
  simp only [bind, Except.bind]
  cases refineMshBdr fuel _ v0 v1 <;> rfl

/-- **`linform` with the shipped factories**: an operator built with `initial_mesh=UnitSquareBoundaryRefined` /
`LShapeBoundaryRefined` (both regenerated from src/initial_mesh.py) runs the model on `unitSquare` / `lShape` -/
theorem gen_linform_unit_eq (C : Ctx) (fuel : Nat) (s : Seg) :
    (InitPotGen.linform C.fns C.rule C.u0 (some (InitPotGen.UnitSquareBoundaryRefined fuel)) s).map toIds =
      linform C unitSquare fuel s := by
  rw [show InitPotGen.UnitSquareBoundaryRefined fuel = InitPotGen.boundaryRefined unitSquare fuel from
    funext fun v0 => funext fun v1 => gen_UnitSquareBoundaryRefined_eq fuel v0 v1]
  exact gen_linform_eq C unitSquare fuel s

theorem gen_linform_lshape_eq (C : Ctx) (fuel : Nat) (s : Seg) :
    (InitPotGen.linform C.fns C.rule C.u0 (some (InitPotGen.LShapeBoundaryRefined fuel)) s).map toIds =
      linform C lShape fuel s := by
  rw [show InitPotGen.LShapeBoundaryRefined fuel = InitPotGen.boundaryRefined lShape fuel from
    funext fun v0 => funext fun v1 => gen_LShapeBoundaryRefined_eq fuel v0 v1]
  exact gen_linform_eq C lShape fuel s

/-- an operator constructed without `initial_mesh` (the default `None`): `assert self.initial_mesh is not None` -/
theorem gen_linform_none (S : Fns) (log : Rule1) (u0 : Rat → Rat → Rat) (s : Seg) :
    InitPotGen.linform S log u0 none s = .error "assert:initial_mesh-none" := rfl

/-- `linform_vector`, serial branch: the loads of the elements in order -/
theorem gen_linformVectorSerial_eq (C : Ctx) (dom : QT) (fuel : Nat) (segs : List Seg) :
    InitPotGen.linformVectorSerial C.fns C.rule C.u0 (some (InitPotGen.boundaryRefined dom fuel)) segs =
      linformVector C dom fuel segs := by
  unfold InitPotGen.linformVectorSerial linformVector
  congr 1
  funext s
  rw [← gen_linform_eq]
  cases InitPotGen.linform C.fns C.rule C.u0 (some (InitPotGen.boundaryRefined dom fuel)) s <;> rfl

/-- `linform_vector`, pool branch (`Pool.map(MP_M0_val, range(N), chunk)` on the globals `__M0 = self`, `__elems = elems`):
the same list as the serial branch, for all inputs, errors included (scheduling / forking: `Stbem.Model.Assembly`, C17) -/
theorem gen_linformVectorPool_eq (S : Fns) (log : Rule1) (u0 : Rat → Rat → Rat) (F : Option (Pt → Pt → Except String QT))
    (segs : List Seg) :
    InitPotGen.linformVectorPool S log u0 F segs = InitPotGen.linformVectorSerial S log u0 F segs := by
  unfold InitPotGen.linformVectorPool InitPotGen.linformVectorSerial
  rw [List.range_eq_range']
  apply mapM_range_getElem
  intro i hi
  unfold InitPotGen.mpVal InitPotGen.pyIndex
  simp [List.getElem?_eq_getElem hi]

/-- link to C17 (`Stbem.Model.Assembly` is abstract over the leaf `lin = self.linform(·)[0]`): if the generated `linform`
succeeds on every element with load `lin s`, both generated branches of `linform_vector` return the vector
`Assembly.serialVec lin segs` the assembly model computes -/
theorem gen_vector_assembly (S : Fns) (log : Rule1) (u0 : Rat → Rat → Rat) (F : Option (Pt → Pt → Except String QT))
    (segs : List Seg) (lin : Seg → Rat)
    (h : ∀ s ∈ segs, ∃ ips, InitPotGen.linform S log u0 F s = .ok (lin s, ips)) :
    InitPotGen.linformVectorSerial S log u0 F segs = .ok (Stbem.Assembly.serialVec lin segs) ∧
    InitPotGen.linformVectorPool S log u0 F segs = .ok (Stbem.Assembly.serialVec lin segs) := by
  have h1 : InitPotGen.linformVectorSerial S log u0 F segs = .ok (Stbem.Assembly.serialVec lin segs) := by
    rw [Stbem.Assembly.serialVec_eq]
    unfold InitPotGen.linformVectorSerial
    induction segs with
    | nil => rfl
    | cons s l ih =>
      obtain ⟨ips, hs⟩ := h s (by simp)
      rw [List.mapM_cons, hs, ih (fun t ht => h t (by simp [ht]))]
      rfl
  exact ⟨h1, by rw [gen_linformVectorPool_eq, h1]⟩

/-! ## 2. the generated definitions are executable: closed examples (evaluated by the kernel) -/

/-- the load and the element indices of a result -/
def loadIds (r : Except String (Rat × List (Elem × Rat))) : Option (Rat × List Nat) :=
  match r with
  | .ok (l, ips) => some (l, ips.map (·.1.id))
  | .error _ => none

example : loadIds (InitPotGen.linform ctxS.fns ctxS.rule ctxS.u0 (some (InitPotGen.boundaryRefined unitSquare 2)) segB) =
    some (3 / 4, [1, 2, 3, 4]) := by decide +kernel
example : InitPotGen.linform ctxS.fns ctxS.rule ctxS.u0 (some (InitPotGen.boundaryRefined unitSquare 6))
    ⟨0, 1 / 4, 1 / 4, 3 / 4, (1 / 4, 0), (3 / 4, 0)⟩ = .error "assert:parent" := by decide +kernel
example : InitPotGen.linformVectorSerial ctxS.fns ctxS.rule ctxS.u0 (some (InitPotGen.boundaryRefined unitSquare 2))
    [segB, ⟨0, 1 / 4, 0, 1 / 2, (0, 0), (1 / 2, 0)⟩] = .ok [3 / 4, 3 / 4] := by decide +kernel
example : InitPotGen.linformVectorPool ctxS.fns ctxS.rule ctxS.u0 (some (InitPotGen.boundaryRefined unitSquare 2))
    [segB, ⟨0, 1 / 4, 0, 1 / 2, (0, 0), (1 / 2, 0)⟩] = .ok [3 / 4, 3 / 4] := by decide +kernel

example : ∀ s ∈ [segB], ∃ ips, InitPotGen.linform ctxS.fns ctxS.rule ctxS.u0 (some (InitPotGen.UnitSquareBoundaryRefined 2)) s =
    .ok ((fun _ => (3 : Rat) / 4) s, ips) := by
  intro s hs
  simp only [List.mem_singleton] at hs
  subst hs
  have h : loadIds (InitPotGen.linform ctxS.fns ctxS.rule ctxS.u0 (some (InitPotGen.UnitSquareBoundaryRefined 2)) segB) =
      some (3 / 4, [1, 2, 3, 4]) := by decide +kernel
  cases hr : InitPotGen.linform ctxS.fns ctxS.rule ctxS.u0 (some (InitPotGen.UnitSquareBoundaryRefined 2)) segB with
  | error e => rw [hr] at h; cases h
  | ok r =>
    rw [hr] at h
    obtain ⟨l, ips⟩ := r
    simp only [loadIds, Option.some.injEq, Prod.mk.injEq] at h
    exact ⟨ips, by rw [h.1]⟩
example : InitPotGen.Element_connected_to_vertex (mkRoot 0 0 0 1) (1, 0) = .ok [(0, 0), (1, 1)] := by decide +kernel
example : InitPotGen.Element_connected_to_vertex (mkRoot 0 0 0 1) (1 / 2, 0) = .error "assert:connected-member" := by
  decide +kernel
example : InitPotGen.Element_diam (mkRoot 0 0 (-1) 1) = .ok 1 := by decide +kernel
example : loadIds (InitPotGen.linform ctxS.fns ctxS.rule ctxS.u0 (some (InitPotGen.UnitSquareBoundaryRefined 2)) segB) =
    some (3 / 4, [1, 2, 3, 4]) := by decide +kernel

/-! ## 3. the theorems of C08 for the generated-from-source functions -/

/-- C08 (linearity in `u0`): the generated `linform` with `α u + β v` is the combination of the runs with `u` and `v` —
load, per-cell contributions, or the assertion that fails -/
theorem gen_linform_linear (S : Fns) (log : Rule1) (u v : Rat → Rat → Rat) (α β : Rat) (dom : QT) (fuel : Nat) (s : Seg) :
    (InitPotGen.linform S log (fun x y => α * u x y + β * v x y) (some (InitPotGen.boundaryRefined dom fuel)) s).map toIds =
      ((InitPotGen.linform S log u (some (InitPotGen.boundaryRefined dom fuel)) s).map toIds).bind fun ru =>
        ((InitPotGen.linform S log v (some (InitPotGen.boundaryRefined dom fuel)) s).map toIds).map (comb α β ru) := by
  rw [gen_linform_eq_params, gen_linform_eq_params, gen_linform_eq_params]
  exact linform_linear ⟨log, S, u⟩ u v α β dom fuel s

/-- C08 (additivity in time): splitting `[a, b]` at `m ≠ 0` splits the generated load and every per-cell contribution, for
every kernel stand-in -/
theorem gen_linform_additive_time (S : Fns) (log : Rule1) (u0 : Rat → Rat → Rat) (dom : QT) (fuel : Nat) (s : Seg)
    (m : Rat) (hm : m ≠ 0) :
    (InitPotGen.linform S log u0 (some (InitPotGen.boundaryRefined dom fuel)) s).map toIds =
      ((InitPotGen.linform S log u0 (some (InitPotGen.boundaryRefined dom fuel)) { s with b := m }).map toIds).bind fun r1 =>
        ((InitPotGen.linform S log u0 (some (InitPotGen.boundaryRefined dom fuel)) { s with a := m }).map toIds).map
          (comb 1 1 r1) := by
  rw [gen_linform_eq_params, gen_linform_eq_params, gen_linform_eq_params]
  exact linform_additive_time ⟨log, S, u0⟩ dom fuel s m hm

/-- C08 (**load = integral**, polynomial integrands): hypotheses as in `linform_eq_integral_poly`; the generated `linform`
returns the integral over domain × segment, and every cell contributes its own exact integral -/
theorem gen_linform_eq_integral_poly (C : Ctx) (n N : Nat) (hrule : Exact1 C.rule n) (hN : N + 2 ≤ n)
    (dom : QT) (hdom : QInv dom) (c : Elem) (hc : c ∈ dom.leaves) (sd : Side)
    (hB : ∀ nb ∈ dom.leaves, ¬ Adj c sd nb) (j k : Nat) (hk : k < 2 ^ j) (s : Seg)
    (hends : (s.p0 = pt sd.axis (lineC c sd) (lo c sd + k * (c.size / 2 ^ j)) ∧
              s.p1 = pt sd.axis (lineC c sd) (lo c sd + (k + 1) * (c.size / 2 ^ j))) ∨
             (s.p0 = pt sd.axis (lineC c sd) (lo c sd + (k + 1) * (c.size / 2 ^ j)) ∧
              s.p1 = pt sd.axis (lineC c sd) (lo c sd + k * (c.size / 2 ^ j))))
    (hlen : s.d - s.c = c.size / 2 ^ j) (ts : List Term) (hd : ∀ t ∈ ts, t.deg ≤ N)
    (hP : PolyIntegrand C s sd.axis (lineC c sd) ts) :
    ∃ m', (∃ e, refineMshBdr (j + 1) dom s.p0 s.p1 = .ok (m', e)) ∧
      (InitPotGen.linform C.fns C.rule C.u0 (some (InitPotGen.boundaryRefined dom (j + 1))) s).map toIds =
        .ok (leafSum (cellInt ts (lo c sd + k * (c.size / 2 ^ j)) (lo c sd + (k + 1) * (c.size / 2 ^ j))) dom,
          m'.leaves.map fun e' =>
            (e'.id, cellInt ts (lo c sd + k * (c.size / 2 ^ j)) (lo c sd + (k + 1) * (c.size / 2 ^ j)) e')) := by
  rw [gen_linform_eq]
  exact linform_eq_integral_poly C n N hrule hN dom hdom c hc sd hB j k hk s hends hlen ts hd hP

/-- a successful run of the model is a successful run of the generated function with the same load -/
theorem gen_load_of_model {C : Ctx} {dom : QT} {fuel : Nat} {s : Seg} {l : Rat} {ids : List (Nat × Rat)}
    (h : linform C dom fuel s = .ok (l, ids)) :
    ∃ ips, InitPotGen.linform C.fns C.rule C.u0 (some (InitPotGen.boundaryRefined dom fuel)) s = .ok (l, ips) ∧
      ips.map (fun p => (p.1.id, p.2)) = ids := by
  rw [← gen_linform_eq] at h
  cases hg : InitPotGen.linform C.fns C.rule C.u0 (some (InitPotGen.boundaryRefined dom fuel)) s with
  | error e => rw [hg] at h; cases h
  | ok r =>
    rw [hg] at h
    simp only [Except.map, toIds, Except.ok.injEq, Prod.mk.injEq] at h
    exact ⟨r.2, by rw [← h.1], h.2⟩

/-- C08: every mesh reachable from `UnitSquare()`: the generated load is the integral over `[0,1]² × segment` -/
theorem gen_linform_eq_integral_unit (C : Ctx) (n N : Nat) (hrule : Exact1 C.rule n) (hN : N + 2 ≤ n)
    (dom : QT) (hreach : Reach unitSquare dom) (c : Elem) (hc : c ∈ dom.leaves) (sd : Side)
    (hB : ∀ nb ∈ dom.leaves, ¬ Adj c sd nb) (j k : Nat) (hk : k < 2 ^ j) (s : Seg)
    (hends : (s.p0 = pt sd.axis (lineC c sd) (lo c sd + k * (c.size / 2 ^ j)) ∧
              s.p1 = pt sd.axis (lineC c sd) (lo c sd + (k + 1) * (c.size / 2 ^ j))) ∨
             (s.p0 = pt sd.axis (lineC c sd) (lo c sd + (k + 1) * (c.size / 2 ^ j)) ∧
              s.p1 = pt sd.axis (lineC c sd) (lo c sd + k * (c.size / 2 ^ j))))
    (hlen : s.d - s.c = c.size / 2 ^ j) (ts : List Term) (hd : ∀ t ∈ ts, t.deg ≤ N)
    (hP : PolyIntegrand C s sd.axis (lineC c sd) ts) :
    ∃ ips, InitPotGen.linform C.fns C.rule C.u0 (some (InitPotGen.boundaryRefined dom (j + 1))) s =
      .ok (boxInt ts 0 1 0 1 (lo c sd + k * (c.size / 2 ^ j)) (lo c sd + (k + 1) * (c.size / 2 ^ j)), ips) := by
  obtain ⟨ids, h⟩ := linform_eq_integral_unit C n N hrule hN dom hreach c hc sd hB j k hk s hends hlen ts hd hP
  obtain ⟨ips, h1, -⟩ := gen_load_of_model h
  exact ⟨ips, h1⟩

/-- C08: every mesh reachable from `LShape()`: the generated load is the integral over the three unit squares × segment -/
theorem gen_linform_eq_integral_lshape (C : Ctx) (n N : Nat) (hrule : Exact1 C.rule n) (hN : N + 2 ≤ n)
    (dom : QT) (hreach : Reach lShape dom) (c : Elem) (hc : c ∈ dom.leaves) (sd : Side)
    (hB : ∀ nb ∈ dom.leaves, ¬ Adj c sd nb) (j k : Nat) (hk : k < 2 ^ j) (s : Seg)
    (hends : (s.p0 = pt sd.axis (lineC c sd) (lo c sd + k * (c.size / 2 ^ j)) ∧
              s.p1 = pt sd.axis (lineC c sd) (lo c sd + (k + 1) * (c.size / 2 ^ j))) ∨
             (s.p0 = pt sd.axis (lineC c sd) (lo c sd + (k + 1) * (c.size / 2 ^ j)) ∧
              s.p1 = pt sd.axis (lineC c sd) (lo c sd + k * (c.size / 2 ^ j))))
    (hlen : s.d - s.c = c.size / 2 ^ j) (ts : List Term) (hd : ∀ t ∈ ts, t.deg ≤ N)
    (hP : PolyIntegrand C s sd.axis (lineC c sd) ts) :
    ∃ ips, InitPotGen.linform C.fns C.rule C.u0 (some (InitPotGen.boundaryRefined dom (j + 1))) s =
      .ok (boxInt ts 0 1 (-1) 0 (lo c sd + k * (c.size / 2 ^ j)) (lo c sd + (k + 1) * (c.size / 2 ^ j)) +
            (boxInt ts 0 1 0 1 (lo c sd + k * (c.size / 2 ^ j)) (lo c sd + (k + 1) * (c.size / 2 ^ j)) +
             boxInt ts (-1) 0 0 1 (lo c sd + k * (c.size / 2 ^ j)) (lo c sd + (k + 1) * (c.size / 2 ^ j))),
          ips) := by
  obtain ⟨ids, h⟩ := linform_eq_integral_lshape C n N hrule hN dom hreach c hc sd hB j k hk s hends hlen ts hd hP
  obtain ⟨ips, h1, -⟩ := gen_load_of_model h
  exact ⟨ips, h1⟩

/-- C08 (additivity in space, polynomial integrands): the generated load of a piece is the sum of the generated loads of
its two halves -/
theorem gen_linform_additive_space_poly (C : Ctx) (n N : Nat) (hrule : Exact1 C.rule n) (hN : N + 2 ≤ n)
    (dom : QT) (hdom : QInv dom) (c : Elem) (hc : c ∈ dom.leaves) (sd : Side)
    (hB : ∀ nb ∈ dom.leaves, ¬ Adj c sd nb) (j k : Nat) (hk : k < 2 ^ j) (s sL sR : Seg)
    (hends : s.p0 = pt sd.axis (lineC c sd) (lo c sd + k * (c.size / 2 ^ j)) ∧
             s.p1 = pt sd.axis (lineC c sd) (lo c sd + (k + 1) * (c.size / 2 ^ j)))
    (hendsL : sL.p0 = pt sd.axis (lineC c sd) (lo c sd + (2 * k : Nat) * (c.size / 2 ^ (j + 1))) ∧
              sL.p1 = pt sd.axis (lineC c sd) (lo c sd + ((2 * k : Nat) + 1) * (c.size / 2 ^ (j + 1))))
    (hendsR : sR.p0 = pt sd.axis (lineC c sd) (lo c sd + (2 * k + 1 : Nat) * (c.size / 2 ^ (j + 1))) ∧
              sR.p1 = pt sd.axis (lineC c sd) (lo c sd + ((2 * k + 1 : Nat) + 1) * (c.size / 2 ^ (j + 1))))
    (hlen : s.d - s.c = c.size / 2 ^ j) (hlenL : sL.d - sL.c = c.size / 2 ^ (j + 1))
    (hlenR : sR.d - sR.c = c.size / 2 ^ (j + 1)) (ts : List Term) (hd : ∀ t ∈ ts, t.deg ≤ N)
    (hP : PolyIntegrand C s sd.axis (lineC c sd) ts) (hPL : PolyIntegrand C sL sd.axis (lineC c sd) ts)
    (hPR : PolyIntegrand C sR sd.axis (lineC c sd) ts) :
    ∃ l lL lR ips ipsL ipsR,
      InitPotGen.linform C.fns C.rule C.u0 (some (InitPotGen.boundaryRefined dom (j + 1))) s = .ok (l, ips) ∧
      InitPotGen.linform C.fns C.rule C.u0 (some (InitPotGen.boundaryRefined dom (j + 2))) sL = .ok (lL, ipsL) ∧
      InitPotGen.linform C.fns C.rule C.u0 (some (InitPotGen.boundaryRefined dom (j + 2))) sR = .ok (lR, ipsR) ∧
      l = lL + lR := by
  obtain ⟨l, lL, lR, ids, idsL, idsR, h, hL, hR, hsum⟩ := linform_additive_space_poly C n N hrule hN dom hdom c hc sd hB
    j k hk s sL sR hends hendsL hendsR hlen hlenL hlenR ts hd hP hPL hPR
  obtain ⟨ips, h1, -⟩ := gen_load_of_model h
  obtain ⟨ipsL, h2, -⟩ := gen_load_of_model hL
  obtain ⟨ipsR, h3, -⟩ := gen_load_of_model hR
  exact ⟨l, lL, lR, ips, ipsL, ipsR, h1, h2, h3, hsum⟩

/-! non-vacuity: the instances of `Props/C08.lean` for the generated functions (Boole's / Simpson's rule, `segB`) -/

example : ∃ ips, InitPotGen.linform ctxB.fns ctxB.rule ctxB.u0 (some (InitPotGen.boundaryRefined unitSquare 2)) segB =
    .ok (boxInt tsB 0 1 0 1 (lo (mkRoot 0 0 0 1) .bottom + (1 : Nat) * ((mkRoot 0 0 0 1).size / 2 ^ 1))
      (lo (mkRoot 0 0 0 1) .bottom + ((1 : Nat) + 1) * ((mkRoot 0 0 0 1).size / 2 ^ 1)), ips) :=
  gen_linform_eq_integral_unit ctxB 5 2 boole_exact (by norm_num) unitSquare Reach.init
    (mkRoot 0 0 0 1) (by simp [unitSquare]) .bottom (unitSquare_boundary .bottom) 1 1 (by norm_num) segB
    (Or.inl ⟨by simp [segB, pt, Side.axis, lineC, lo, mkRoot],
      by simp [segB, pt, Side.axis, lineC, lo, mkRoot]; norm_num⟩)
    (by simp [segB, mkRoot]; norm_num) tsB
    (by intro t ht; simp [tsB] at ht; rcases ht with rfl | rfl | rfl | rfl <;> simp [Term.deg])
    (polyB segB rfl rfl)
example : ∃ l lL lR ips ipsL ipsR,
    InitPotGen.linform ctxB.fns ctxB.rule ctxB.u0 (some (InitPotGen.boundaryRefined unitSquare 1))
      ⟨0, 1 / 4, 0, 1, (0, 0), (1, 0)⟩ = .ok (l, ips) ∧
    InitPotGen.linform ctxB.fns ctxB.rule ctxB.u0 (some (InitPotGen.boundaryRefined unitSquare 2))
      ⟨0, 1 / 4, 0, 1 / 2, (0, 0), (1 / 2, 0)⟩ = .ok (lL, ipsL) ∧
    InitPotGen.linform ctxB.fns ctxB.rule ctxB.u0 (some (InitPotGen.boundaryRefined unitSquare 2)) segB = .ok (lR, ipsR) ∧
    l = lL + lR :=
  gen_linform_additive_space_poly ctxB 5 2 boole_exact (by norm_num) unitSquare unitSquare_inv (mkRoot 0 0 0 1)
    (by simp [unitSquare]) .bottom (unitSquare_boundary .bottom) 0 0 (by norm_num) _ _ _
    ⟨by simp [pt, Side.axis, lineC, lo, mkRoot], by simp [pt, Side.axis, lineC, lo, mkRoot]⟩
    ⟨by simp [pt, Side.axis, lineC, lo, mkRoot], by simp [pt, Side.axis, lineC, lo, mkRoot]⟩
    ⟨by simp [segB, pt, Side.axis, lineC, lo, mkRoot], by simp [segB, pt, Side.axis, lineC, lo, mkRoot]; norm_num⟩
    (by simp [mkRoot]) (by simp [mkRoot]) (by simp [segB, mkRoot]; norm_num) tsB
    (by intro t ht; simp [tsB] at ht; rcases ht with rfl | rfl | rfl | rfl <;> simp [Term.deg])
    (polyB _ rfl rfl) (polyB _ rfl rfl) (polyB _ rfl rfl)
example : InitPotGen.PiSquare (25 / 8) =
    .ok ⟨[mkRoot 0 0 0 (25 / 8)], [mkRoot 0 0 0 (25 / 8)], [(0, 0), (25 / 8, 0), (25 / 8, 25 / 8), (0, 25 / 8)]⟩ :=
  gen_PiSquare_eq _ (by norm_num)
example := gen_linform_additive_time ctxS.fns ctxS.rule ctxS.u0 unitSquare 2 segB (1 / 8) (by norm_num)
example := gen_linform_linear ctxS.fns ctxS.rule (fun x _ => x) (fun _ y => y) 1 2 unitSquare 2 segB

/-! ## 4. `evaluate` / `evaluate_mesh` (no hand-written model: what the generated functions compute) -/

/-- `evaluate(t, x)` hands exactly this integrand to `self.space_integrator` (which is built by the curve class) -/
theorem gen_evaluate_eq (S : Fns) (u0 : Rat → Rat → Rat) (I : (Pt → Rat) → Rat) (t : Rat) (x : Pt) :
    InitPotGen.evaluate S u0 I t x = I (heatIntegrand S u0 t x) := rfl

/-- `evaluate` is linear in `u0` whenever the domain integrator is linear -/
theorem gen_evaluate_linear (S : Fns) (u v : Rat → Rat → Rat) (α β : Rat) (I : (Pt → Rat) → Rat)
    (hI : ∀ (f g : Pt → Rat) (a b : Rat), I (fun y => a * f y + b * g y) = a * I f + b * I g) (t : Rat) (x : Pt) :
    InitPotGen.evaluate S (fun p q => α * u p q + β * v p q) I t x =
      α * InitPotGen.evaluate S u I t x + β * InitPotGen.evaluate S v I t x := by
  rw [gen_evaluate_eq, gen_evaluate_eq, gen_evaluate_eq, ← hI]
  congr 1
  funext y
  unfold heatIntegrand
  ring

/-- `evaluate_mesh(t, x, initial_mesh)` never raises and is the sum over the leaves of the tensor Gauss rule
`ProductScheme2D(gauss_quadrature_scheme(quad_eval))` applied to the heat-kernel integrand on the cell
`[v0.x, v2.x] × [v0.y, v2.y]` -/
theorem gen_evaluate_mesh_eq (S : Fns) (gauss : Rule1) (u0 : Rat → Rat → Rat) (t : Rat) (x : Pt) (m : QT) :
    InitPotGen.evaluate_mesh S gauss u0 t x m =
      .ok (sumR (m.leaves.map fun e => integrate2 (product2 gauss gauss) (fun a b => heatIntegrand S u0 t x (a, b))
        e.x0 (e.x0 + e.size) e.y0 (e.y0 + e.size))) := by
  unfold InitPotGen.evaluate_mesh
  simp only [InitPotGen.leaf_elements, evaluate_mesh_fold, bind, Except.bind, pure, Except.pure, List.nil_append, List.map_map,
    Function.comp_def]
  rfl

/-- on the unrefined `UnitSquare()` mesh `evaluate_mesh` is `evaluate` with the integrator the curve class `UnitSquare` of
src/parametrization.py builds (`lambda f: scheme.integrate(f, 0, 1, 0, 1)`, `scheme = ProductScheme2D(gauss)`) -/
theorem gen_evaluate_mesh_unit (S : Fns) (gauss : Rule1) (u0 : Rat → Rat → Rat) (t : Rat) (x : Pt) :
    InitPotGen.evaluate_mesh S gauss u0 t x unitSquare =
      .ok (InitPotGen.evaluate S u0 (fun f => integrate2 (product2 gauss gauss) (fun a b => f (a, b)) 0 1 0 1) t x) := by
  rw [gen_evaluate_mesh_eq, gen_evaluate_eq]
  simp [unitSquare, mkRoot, sumR]

/-- a linear domain integrator (a two-point rule) for `gen_evaluate_linear` -/
example : ∀ (f g : Pt → Rat) (a b : Rat),
    (fun h : Pt → Rat => h (1, 2) + 3 * h (0, 1)) (fun y => a * f y + b * g y) =
      a * (fun h : Pt → Rat => h (1, 2) + 3 * h (0, 1)) f + b * (fun h : Pt → Rat => h (1, 2) + 3 * h (0, 1)) g := by
  intro f g a b; ring

def fnsExp (e : Rat → Rat) (pi : Rat) : Fns :=
  { exp := e, sqrt := fun _ => 0, erf := fun _ => 0, erfc := fun _ => 0, ei := fun _ => 0, e1 := fun _ => 0,
    pow32 := fun _ => 0, pi := pi, fpiInv := 0, piSqrt := 0, hpiInv := 0 }

example : InitPotGen.evaluate_mesh (fnsExp (fun u => 1 + u) (1 / 4)) simpson (fun p q => p + 2 * q) (1 / 2) (0, 0) unitSquare =
    .ok (7 / 4) := by decide +kernel
example : InitPotGen.evaluate (fnsExp (fun u => 1 + u) (1 / 4)) (fun p q => p + 2 * q)
    (fun f => integrate2 (product2 simpson simpson) (fun a b => f (a, b)) 0 1 0 1) (1 / 2) (0, 0) = 7 / 4 := by decide +kernel

end Stbem.InitPotTie
