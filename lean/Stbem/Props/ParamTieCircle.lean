import Stbem.Gen.ParamGenR
import Stbem.Lemmas.ParamCircle
import Mathlib.Analysis.SpecialFunctions.Trigonometric.Bounds
import Mathlib.Analysis.SpecialFunctions.Trigonometric.Arctan
import Mathlib.Analysis.Real.Pi.Bounds
import Mathlib.Tactic.Linarith
import Mathlib.Tactic.NormNum

/-!
# ParamTieCircle — `circle` / `Circle` of `src/parametrization.py` REGENERATED from source, over the real numbers

`Stbem.Gen.ParamGenR` is the translation of `src/parametrization.py` (the same bodies as `Gen/ParamGen.lean`) emitted over `ℝ`
with `np.cos`, `np.sin`, `np.atan`, `np.pi` as parameters.  Instantiated with Mathlib's functions (`realFns`):

* `gen_circle_eq`        : the generated `circle` on an array is `(cos x, sin x)` entry by entry — the curve `Stbem.Param.circle` of
                           `Lemmas/ParamCircle.lean` about which C18's circle theorems are stated;
* `gen_Circle_eq`        : **the generated constructor `Circle()` accepts** — `pw_start[0] == 0`, `2π > 0`, the closing test
                           `np.allclose(eval(0), eval(2π))` and the finite-difference arc-length test on the 50 sample points all
                           hold in exact real arithmetic (the central difference of the circle has norm `sin h / h`,
                           `h = 1e-5`, within `1e-8 + 1e-5` of 1) — and returns `pw_start = [0, 2π]`, `pw_gamma = [circle]`,
                           `closed = True`, `gamma_length = 2π`;
* `gen_circle_unit_speed`, `gen_circle_closed`, `gen_circle_chord_le_arc` : C18's circle results for the generated function;
* `gen_Circle_eval`      : `Circle().eval` on an array of parameters of `[0, 2π]` is the generated `circle` (single-piece shortcut).
-/
namespace Stbem.ParamTieCircle
open Stbem.Gen.ParamGenR

/-- Mathlib's functions for the parameters `np.cos`, `np.sin`, `np.atan`, `np.pi` -/
noncomputable def realFns : Fns := ⟨Real.cos, Real.sin, Real.arctan, Real.pi⟩

/-- **`circle(x_hat)`** regenerated from source on an array of parameters -/
theorem gen_circle_eq (xs : List ℝ) : circle realFns xs = [xs.map Real.cos, xs.map Real.sin] := by
  simp [circle, npVstack, npRow2d, npMap1, realFns]

/-- … at a single parameter it is the point of `Stbem.Param.circle` -/
theorem gen_circle_eq_model (x : ℝ) :
    circle realFns (npScalar x) = [[(Stbem.Param.circle x).1], [(Stbem.Param.circle x).2]] := by
  simp [gen_circle_eq, npScalar, Stbem.Param.circle]

theorem ok_bind {ε α β : Type} (a : α) (f : α → Except ε β) : (Except.ok a >>= f) = f a := rfl

theorem assertThat_true {c : Prop} {inst : Decidable c} (tag : String) (h : c) : @assertThat c inst tag = .ok () := by
  simp [assertThat, h]; rfl

theorem rangeOK_iff (L : ℝ) (xs : List ℝ) :
    npAll (npAndB (npLeSA (0 : ℝ) xs) (npLeAS xs L)) = true ↔ ∀ x ∈ xs, 0 ≤ x ∧ x ≤ L := by
  induction xs with
  | nil => simp [npAll, npAndB, npLeSA, npLeAS]
  | cons x xs ih =>
    simp only [npAll, npAndB, npLeSA, npLeAS, List.map_cons, List.zipWith_cons_cons, List.all_cons, id, Bool.and_eq_true,
      decide_eq_true_eq, List.mem_cons, forall_eq_or_imp] at ih ⊢
    rw [ih]

/-- the single-piece shortcut of `eval` -/
theorem eval_single (S : Fns) (pw : List ℝ) (g : Gamma) (cl : Bool) (L : ℝ) (xs : List ℝ) (h : ∀ x ∈ xs, 0 ≤ x ∧ x ≤ L) :
    PiecewiseParametrization.eval S ⟨pw, [g], cl, L⟩ xs = .ok (g.call S xs) := by
  unfold PiecewiseParametrization.eval
  rw [assertThat_true _ ((rangeOK_iff _ _).mpr h), ok_bind]
  simp only [List.length_cons, List.length_nil, Nat.zero_add, if_true]
  rfl

theorem zipWith_map_same {α β γ δ : Type} (op : β → γ → δ) (f : α → β) (g : α → γ) :
    ∀ xs : List α, List.zipWith op (xs.map f) (xs.map g) = xs.map fun x => op (f x) (g x) := by
  intro xs
  induction xs with
  | nil => rfl
  | cons x xs ih => simp only [List.map_cons, List.zipWith_cons_cons, ih]

theorem h_pos : (0 : ℝ) < c_1e_m5 := by unfold c_1e_m5; norm_num
theorem a_pos : (0 : ℝ) < c_1e_m4 := by unfold c_1e_m4; norm_num
theorem h_lt_a : c_1e_m5 < c_1e_m4 := by unfold c_1e_m5 c_1e_m4; norm_num
theorem absQ_one : absQ (1 : ℝ) = 1 := by unfold absQ; norm_num

/-- the squared norm of the central difference of the circle: `(sin h / h)²` at every parameter -/
theorem central_sq (x h : ℝ) (hh : h ≠ 0) :
    (Real.cos (x + h) - Real.cos (x - h)) / (2 * h) * ((Real.cos (x + h) - Real.cos (x - h)) / (2 * h)) +
      (Real.sin (x + h) - Real.sin (x - h)) / (2 * h) * ((Real.sin (x + h) - Real.sin (x - h)) / (2 * h)) =
      (Real.sin h / h) ^ 2 := by
  rw [Real.cos_add, Real.cos_sub, Real.sin_add, Real.sin_sub]
  field_simp
  nlinarith [Real.sin_sq_add_cos_sq x, Real.sin_sq_add_cos_sq h]

/-- `sin h / h` for `h = 1e-5` lies within the tolerance of `np.allclose(·, 1)` -/
theorem speed_bounds :
    ((1 : ℝ) - (c_atol + c_rtol * absQ (1 : ℝ))) ^ 2 ≤ (Real.sin c_1e_m5 / c_1e_m5) ^ 2 ∧
    (Real.sin c_1e_m5 / c_1e_m5) ^ 2 ≤ ((1 : ℝ) + (c_atol + c_rtol * absQ (1 : ℝ))) ^ 2 := by
  have hp := h_pos
  have h1 : Real.sin c_1e_m5 < c_1e_m5 := Real.sin_lt hp
  have h2 := Real.sin_gt_sub_cube hp
  have hs1 : Real.sin c_1e_m5 / c_1e_m5 < 1 := by rw [div_lt_one hp]; exact h1
  have hs2 : 1 - c_1e_m5 ^ 2 / 6 < Real.sin c_1e_m5 / c_1e_m5 := by
    rw [lt_div_iff₀ hp]
    nlinarith
  have htol : (0 : ℝ) ≤ 1 - (c_atol + c_rtol * absQ (1 : ℝ)) ∧ 1 - (c_atol + c_rtol * absQ (1 : ℝ)) ≤ 1 - c_1e_m5 ^ 2 / 6 ∧
      (0 : ℝ) ≤ c_atol + c_rtol * absQ (1 : ℝ) := by
    rw [absQ_one]; unfold c_atol c_rtol c_1e_m5; norm_num
  constructor
  · apply pow_le_pow_left₀ htol.1
    linarith [htol.2.1]
  · apply pow_le_pow_left₀ (by linarith [htol.1, htol.2.1])
    linarith [htol.2.2]

theorem call_circle (S : Fns) (xs : List ℝ) : Gamma.call S Gamma.of_circle xs = circle S xs := rfl

/-- the arc-length test on the circle, for ANY list of sample points -/
theorem fd_circle (xs : List ℝ) :
    npAllcloseNormAxis0 ((npMM (· - ·) (circle realFns (npAS (· + ·) xs c_1e_m5)) (circle realFns (npAS (· - ·) xs c_1e_m5))).map
      fun r => r.map fun u => u / ((2 : ℝ) * c_1e_m5)) (1 : ℝ) = true := by
  rw [gen_circle_eq, gen_circle_eq]
  simp only [npAS, npMM, List.map_map, List.zipWith_cons_cons, List.zipWith_nil_right, zipWith_map_same, List.map_cons,
    List.map_nil, npAllcloseNormAxis0, npColSumSq, List.all_eq_true, List.mem_map, forall_exists_index, and_imp,
    forall_apply_eq_imp_iff₂, decide_eq_true_eq, Function.comp]
  intro x _
  rw [central_sq x c_1e_m5 (ne_of_gt h_pos)]
  exact speed_bounds

theorem linspace_mem {a b x : ℝ} (hab : a ≤ b) (hx : x ∈ npLinspace a b) : a ≤ x ∧ x ≤ b := by
  unfold npLinspace at hx
  obtain ⟨k, hk, rfl⟩ := List.mem_map.mp hx
  have hk' : (k : ℝ) ≤ 49 := by
    have := List.mem_range.mp hk
    exact_mod_cast (by omega : k ≤ 49)
  have hk0 : (0 : ℝ) ≤ k := Nat.cast_nonneg k
  have hd : 0 ≤ (b - a) / 49 := by apply div_nonneg <;> linarith
  constructor
  · nlinarith [mul_nonneg hk0 hd]
  · have : (k : ℝ) * ((b - a) / 49) ≤ 49 * ((b - a) / 49) := mul_le_mul_of_nonneg_right hk' hd
    linarith

theorem two_pi_gt : (1 : ℝ) < 2 * Real.pi := by linarith [Real.pi_gt_three]

/-- **`Circle()` regenerated from source accepts** (all four assertions of `PiecewiseParametrization.__init__` hold in exact real
arithmetic) and returns the curve with `pw_start = [0, 2π]`, the single piece `circle`, closed, length `2π` -/
theorem gen_Circle_eq :
    Circle.init realFns = .ok ⟨[0, 2 * Real.pi], [Gamma.of_circle], true, 2 * Real.pi⟩ := by
  have hpi := two_pi_gt
  have ha := a_pos
  have hh := h_pos
  have hha := h_lt_a
  have ha1 : c_1e_m4 < 1 / 2 := by unfold c_1e_m4; norm_num
  show PiecewiseParametrization.init realFns [0, 2 * realFns.pi] [Gamma.of_circle] true = _
  unfold PiecewiseParametrization.init
  rw [show realFns.pi = Real.pi from rfl, show pyLast [(0 : ℝ), 2 * Real.pi] = .ok (2 * Real.pi) from rfl, ok_bind]
  simp only []
  rw [show pyIdx [(0 : ℝ), 2 * Real.pi] 0 = .ok 0 from rfl, ok_bind, assertThat_true _ ⟨rfl, by linarith⟩, ok_bind, if_pos trivial,
    eval_single realFns _ _ _ _ (npScalar 0) (by intro x hx; simp [npScalar] at hx; subst hx; constructor <;> linarith), ok_bind,
    eval_single realFns _ _ _ _ (npScalar (2 * Real.pi)) (by intro x hx; simp [npScalar] at hx; subst hx; constructor <;> linarith),
    ok_bind]
  have hclose : npAllcloseMM (Gamma.call realFns Gamma.of_circle (npScalar 0))
      (Gamma.call realFns Gamma.of_circle (npScalar (2 * Real.pi))) = true := by
    show npAllcloseMM (circle realFns (npScalar 0)) (circle realFns (npScalar (2 * Real.pi))) = true
    rw [gen_circle_eq, gen_circle_eq]
    have h0 : absQ (0 : ℝ) = 0 := by unfold absQ; norm_num
    have h1 : (0 : ℝ) ≤ c_atol + c_rtol * absQ (1 : ℝ) := by rw [absQ_one]; unfold c_atol c_rtol; norm_num
    have h3 : (0 : ℝ) ≤ c_atol := by unfold c_atol; norm_num
    simp [npAllcloseMM, npScalar, h0, h1, h3]
  rw [assertThat_true _ hclose, ok_bind]
  unfold central_derivative
  have hr1 : ∀ x ∈ npAS (· + ·) (npLinspace c_1e_m4 (2 * Real.pi - c_1e_m4)) c_1e_m5, 0 ≤ x ∧ x ≤ 2 * Real.pi := by
    intro x hx
    obtain ⟨y, hy, rfl⟩ := List.mem_map.mp hx
    obtain ⟨h1, h2⟩ := linspace_mem (by linarith) hy
    constructor <;> linarith
  have hr2 : ∀ x ∈ npAS (· - ·) (npLinspace c_1e_m4 (2 * Real.pi - c_1e_m4)) c_1e_m5, 0 ≤ x ∧ x ≤ 2 * Real.pi := by
    intro x hx
    obtain ⟨y, hy, rfl⟩ := List.mem_map.mp hx
    obtain ⟨h1, h2⟩ := linspace_mem (by linarith) hy
    constructor <;> linarith
  simp only []
  rw [eval_single realFns _ _ _ _ _ hr1, ok_bind, eval_single realFns _ _ _ _ _ hr2, ok_bind]
  have h2h : (2 : ℝ) * c_1e_m5 ≠ 0 := by linarith
  simp only [npDivMS, if_neg h2h, pure, Except.pure, ok_bind]
  simp only [call_circle]
  have hfd := fd_circle (npLinspace c_1e_m4 (2 * Real.pi - c_1e_m4))
  simp only [assertThat, hfd, if_true]
  rfl

/-- the generated curve object of the circle -/
noncomputable def circleCurve : PiecewiseParametrization := ⟨[0, 2 * Real.pi], [Gamma.of_circle], true, 2 * Real.pi⟩

/-- `Circle().eval` on an array of parameters of `[0, 2π]` is the generated `circle` (single-piece shortcut), entry by entry
`(cos x, sin x)` -/
theorem gen_Circle_eval (xs : List ℝ) (h : ∀ x ∈ xs, 0 ≤ x ∧ x ≤ 2 * Real.pi) :
    Circle.init realFns = .ok circleCurve ∧ circleCurve.eval realFns xs = .ok [xs.map Real.cos, xs.map Real.sin] := by
  refine ⟨gen_Circle_eq, ?_⟩
  unfold circleCurve
  rw [eval_single realFns _ _ _ _ xs h, call_circle, gen_circle_eq]

/-- C18 for the generated circle: `‖γ'(x)‖ = 1` -/
theorem gen_circle_unit_speed (x : ℝ) :
    (∀ y, circle realFns (npScalar y) = [[(Stbem.Param.circle y).1], [(Stbem.Param.circle y).2]]) ∧
    HasDerivAt (fun y => (Stbem.Param.circle y).1) (Stbem.Param.circleDeriv x).1 x ∧
    HasDerivAt (fun y => (Stbem.Param.circle y).2) (Stbem.Param.circleDeriv x).2 x ∧
    Real.sqrt ((Stbem.Param.circleDeriv x).1 ^ 2 + (Stbem.Param.circleDeriv x).2 ^ 2) = 1 :=
  ⟨gen_circle_eq_model, (Stbem.Param.circle_hasDerivAt x).1, (Stbem.Param.circle_hasDerivAt x).2,
    Stbem.Param.circleDeriv_norm x⟩

/-- C18 for the generated circle: closed with the declared length `pw_start = [0, 2π]` -/
theorem gen_circle_closed : circle realFns (npScalar (2 * Real.pi)) = circle realFns (npScalar 0) := by
  rw [gen_circle_eq_model, gen_circle_eq_model, Stbem.Param.circle_period]

/-- C18 for the generated circle: chord ≤ arc -/
theorem gen_circle_chord_le_arc (x y : ℝ) : ∃ p q : ℝ × ℝ,
    circle realFns (npScalar x) = [[p.1], [p.2]] ∧ circle realFns (npScalar y) = [[q.1], [q.2]] ∧
    (p.1 - q.1) ^ 2 + (p.2 - q.2) ^ 2 ≤ (x - y) ^ 2 :=
  ⟨_, _, gen_circle_eq_model x, gen_circle_eq_model y, Stbem.Param.circle_chord_le_arc x y⟩

/-- `PiSquare()` over the reals: the unit-square vertices scaled by π -/
theorem gen_PiSquare_vertices_real :
    PiSquare.init realFns = PiecewisePolygon.init realFns
      [[0, 0], [Real.pi, 0], [Real.pi, Real.pi], [0, Real.pi], [0, 0]] true := rfl

/-- the hypotheses of `gen_Circle_eval` are satisfiable: the break points themselves -/
example : circleCurve.eval realFns [0, 2 * Real.pi] = .ok [[Real.cos 0, Real.cos (2 * Real.pi)], [Real.sin 0, Real.sin (2 * Real.pi)]] :=
  (gen_Circle_eval [0, 2 * Real.pi] (by
    intro x hx
    have := two_pi_gt
    simp only [List.mem_cons, List.mem_nil_iff, or_false] at hx
    rcases hx with rfl | rfl <;> constructor <;> linarith)).2

end Stbem.ParamTieCircle
