import Stbem.Props.SLRestTie
import Stbem.Props.C03
import Mathlib.Algebra.BigOperators.Fin
import Mathlib.LinearAlgebra.Pi

/-!
# SLRestResidual — `ErrorEstimator.residual` and the assembly slice of `example.py`, regenerated from source

`Stbem.Gen.SLRest.residual_point` / `residual` are generated from the closure returned by `ErrorEstimator.residual`
(`src/error_estimator.py`), `Stbem.Gen.SLRest.assembly_slice` from the statements of `example.py` that define `mat`, `rhs`,
`Phi`.  There is no hand-written model of either; this file proves what the code does:

* `gen_residual_point_eq`, `gen_residual_ok`: the generated residual is, at every point,
  `resVSign · Σ_j Φ_j · (V 1_j)(t, x̂) + resM0Sign · M0u0(t, x) + resGSign · g(t, x)` with the signs of
  `Gen/Conventions.lean` (extracted independently by `translate/conventions.py`), where `(V 1_j)` is the generated
  `evaluate_exact` for `SL_exact_eval` and an element on the piece handed to the closure, the generated `evaluate`
  otherwise; the guard `t <= elem.time_interval[0]: continue` changes nothing (`evalOf_acausal`: skipped terms are `0`);
  no exception is raised as soon as `Phi` has an entry for every element;
* `gen_slice_eq`: the generated slice computes `rhs = rhsM0Sign · M0.linform_vector + rhsGSign · g_linform(elems)`
  (a missing operator contributes the zero vector of `np.zeros(N)`) and `Phi = solve(mat, rhs)` with
  `mat = SL.bilform_matrix(elems, elems, use_mp=True)`;
* `gen_residual_orthogonal`: **Galerkin orthogonality for the generated functions** — for arbitrary linear element
  means `I i`: if the assembled data are the element means of the functions the residual is made of and the solver
  returns a solution, every element mean of the generated residual function vanishes.  The algebra is
  `Stbem.C03.galerkin_orthogonality` with `conventions_consistent`; the signs now come from the generated residual and the
  generated slice, the five extracted constants are only their names.
-/
namespace Stbem.SLRestResidual
open Stbem.Quad Stbem.Formulas.Q Stbem.SL Stbem.Conv
open Stbem.Assembly hiding Elem
open Stbem.Gen Stbem.PanelsTie Stbem.SLRestTie

/-! ## 1. the residual at a point -/

/-- the pointwise evaluation routine the residual calls for the trial element `e`: the closed form for
`SL_exact_eval and elem_trial.gamma_space is gamma`, the quadrature `evaluate` otherwise -/
def evalOf (L : Rat) (glue : Bool) (S : Fns) (log : Rule1) (gs : List Piece) (exact : Bool) (gamma : Nat) (e : Elem)
    (t xh : Rat) (x : Rat × Rat) : Rat :=
  if exact = true ∧ e.piece = gamma then (SLRest.evaluate_exact S e t xh).getD 0
  else Panels.evaluate L glue S log gs e t xh x

/-- an element that has not started contributes `0`: the `continue` of the residual loop only saves work -/
theorem evalOf_acausal (L : Rat) (glue : Bool) (S : Fns) (log : Rule1) (gs : List Piece) (exact : Bool) (gamma : Nat)
    (e : Elem) (t xh : Rat) (x : Rat × Rat) (h : t ≤ e.t0) : evalOf L glue S log gs exact gamma e t xh x = 0 := by
  unfold evalOf
  split
  · rw [(gen_pointwise_acausal S [] gs e t xh x h).1]; rfl
  · exact gen_evaluate_acausal L glue S log gs e t xh x h

theorem enumFoldM_sum (Phi : List Rat) (ev : Elem → Rat) (step : Nat → Elem → Rat → Except String Rat)
    (hstep : ∀ (j : Nat) (e : Elem) (acc : Rat) (h : j < Phi.length), step j e acc = .ok (acc + Phi[j] * ev e)) :
    ∀ (elems : List Elem) (j : Nat) (acc : Rat), j + elems.length ≤ Phi.length →
      SLRest.enumFoldM step elems j acc =
        .ok (acc + (List.zipWith (fun e c => c * ev e) elems (Phi.drop j)).sum) := by
  intro elems
  induction elems with
  | nil => intro j acc _; simp [SLRest.enumFoldM, pure, Except.pure]
  | cons e es ih =>
    intro j acc h
    have hj : j < Phi.length := by simp at h; omega
    rw [SLRest.enumFoldM, hstep j e acc hj]
    show SLRest.enumFoldM step es (j + 1) (acc + Phi[j] * ev e) = _
    rw [ih (j + 1) _ (by simp at h ⊢; omega), List.drop_eq_getElem_cons hj]
    simp only [List.zipWith_cons_cons, List.sum_cons]
    congr 1
    ring

/-- value of the residual at one point: `resVSign·VΦ + resM0Sign·M0u0 + resGSign·g` -/
def resVal (L : Rat) (glue : Bool) (S : Fns) (log : Rule1) (gs : List Piece) (elems : List Elem) (Phi : List Rat)
    (M0u0 g : Option (Rat → Rat × Rat → Rat)) (exact : Bool) (gamma : Nat) (t xh : Rat) (x : Rat × Rat) : Rat :=
  (resVSign : ℚ) * (List.zipWith (fun e c => c * evalOf L glue S log gs exact gamma e t xh x) elems Phi).sum +
    (resM0Sign : ℚ) * (M0u0.elim 0 fun f => f t x) + (resGSign : ℚ) * (g.elim 0 fun f => f t x)

/-- **the generated residual at a point**: for every input with `len(Phi) ≥ len(elems)` no exception is raised and the value
is `resVSign · Σ_j Φ_j (V 1_j)(t, x̂) + resM0Sign · M0u0(t, x) + resGSign · g(t, x)`; the three signs are those
`translate/conventions.py` extracts (`Gen/Conventions.lean`), the evaluation routine is `evalOf` -/
theorem gen_residual_point_eq (L : Rat) (glue : Bool) (S : Fns) (log : Rule1) (gs : List Piece) (elems : List Elem)
    (Phi : List Rat) (M0u0 g : Option (Rat → Rat × Rat → Rat)) (exact : Bool) (gamma : Nat) (t xh : Rat) (x : Rat × Rat)
    (hlen : elems.length ≤ Phi.length) :
    SLRest.residual_point L glue S log gs elems Phi M0u0 g exact gamma t xh x =
      .ok (resVal L glue S log gs elems Phi M0u0 g exact gamma t xh x) := by
  unfold SLRest.residual_point
  simp only []
  rw [enumFoldM_sum Phi (fun e => evalOf L glue S log gs exact gamma e t xh x) _ ?_ elems 0 0 (by simpa using hlen)]
  · simp only [List.drop_zero, zero_add]
    show Except.ok _ = _
    congr 1
    unfold resVal
    cases M0u0 <;> cases g <;> simp [resVSign, resM0Sign, resGSign] <;> ring
  · intro j e acc hj
    by_cases h1 : t ≤ e.t0
    · simp only [h1, if_true, evalOf_acausal L glue S log gs exact gamma e t xh x h1, mul_zero, add_zero]; rfl
    · simp only [h1, if_false]
      have hidx : SLRest.pyIndex Phi j = .ok Phi[j] := by
        unfold SLRest.pyIndex; rw [List.getElem?_eq_getElem hj]; rfl
      by_cases h2 : exact = true ∧ e.piece = gamma
      · have hsome := (gen_evaluate_exact_cases S e t xh h1).2.2.2
        obtain ⟨v, hv⟩ := Option.isSome_iff_exists.mp hsome
        simp only [h2, and_self, if_true, hidx, evalOf, hv, SLRest.pyNumber, Option.getD_some]
        rfl
      · simp only [h2, if_false, hidx, evalOf]
        rfl

/-! ## 2. the closure `residual(t, x_hat, gamma)` -/

theorem mapM_ok_map {α β : Type} (F : α → β) : ∀ l : List α,
    (l.mapM fun a => (Except.ok (F a) : Except String β)) = .ok (l.map F)
  | [] => rfl
  | a :: l => by
    rw [List.mapM_cons, mapM_ok_map F l]; rfl

theorem zip3_map {α β γ δ : Type} (F : α → β → γ → δ) (c : β → γ) : ∀ (ts : List α) (xs : List β),
    (SLRest.zip3 ts xs (xs.map c)).map (fun p => F p.1 p.2.1 p.2.2) = List.zipWith (fun t x => F t x (c x)) ts xs
  | [], _ => by simp [SLRest.zip3]
  | _ :: _, [] => by simp [SLRest.zip3]
  | t :: ts, x :: xs => by
    have := zip3_map F c ts xs
    simp only [SLRest.zip3] at this
    simp [SLRest.zip3, this]

/-- **the generated closure**: the assertion `len(t) == len(x_hat)` is its only failure (given `len(Phi) ≥ len(elems)`); entry
`i` of the result is `resVal` at `(t_i, x̂_i, γ(x̂_i))` with `γ` the piece handed to the closure -/
theorem gen_residual_ok (L : Rat) (glue : Bool) (S : Fns) (log : Rule1) (gs : List Piece) (elems : List Elem)
    (Phi : List Rat) (M0u0 g : Option (Rat → Rat × Rat → Rat)) (exact : Bool) (ts xs : List Rat) (gamma : Nat)
    (hlen : elems.length ≤ Phi.length) :
    SLRest.residual L glue S log gs elems Phi M0u0 g exact ts xs gamma =
      if ts.length = xs.length then
        .ok (List.zipWith (fun t xh => resVal L glue S log gs elems Phi M0u0 g exact gamma t xh ((pieceOf gs gamma).at xh)) ts xs)
      else .error "assert:len" := by
  unfold SLRest.residual
  by_cases h : ts.length = xs.length
  · simp only [h, not_true_eq_false, if_false, if_true]
    simp only [gen_residual_point_eq L glue S log gs elems Phi M0u0 g exact gamma _ _ _ hlen]
    rw [mapM_ok_map (fun p : Rat × Rat × (Rat × Rat) => resVal L glue S log gs elems Phi M0u0 g exact gamma p.1 p.2.1 p.2.2)]
    congr 1
    exact zip3_map (fun t xh x => resVal L glue S log gs elems Phi M0u0 g exact gamma t xh x) _ ts xs
  · simp only [h, not_false_eq_true, if_true, if_false]

/-! ## 3. the assembly slice of `example.py` -/

/-- what `M0` contributes: `M0.linform_vector(elems=elems, use_mp=True)`, or the zeros of `np.zeros(N)` when `M0` is `None` -/
def m0Vec {E : Type} (M0 : Option (List E → Bool → Except String (List Rat))) (elems : List E) : Except String (List Rat) :=
  match M0 with
  | some f => f elems true
  | none => .ok (List.replicate elems.length 0)

/-- what `g_linform` contributes: `g_linform(elems)`, or zeros when it is `None` -/
def gVec {E : Type} (gl : Option (List E → Except String (List Rat))) (elems : List E) : Except String (List Rat) :=
  match gl with
  | some f => f elems
  | none => .ok (List.replicate elems.length 0)

theorem zipWith_replicate_right_len {α β γ : Type} (f : α → β → γ) (b : β) : ∀ (l : List α),
    List.zipWith f l (List.replicate l.length b) = l.map fun a => f a b
  | [] => rfl
  | a :: l => by simp [List.replicate_succ, zipWith_replicate_right_len f b l]

theorem zipWith_replicate_left_len {α β γ : Type} (f : α → β → γ) (a : α) : ∀ (l : List β),
    List.zipWith f (List.replicate l.length a) l = l.map fun b => f a b
  | [] => rfl
  | b :: l => by simp [List.replicate_succ, zipWith_replicate_left_len f a l]

/-- `rhs = np.zeros(N); if M0: rhs = -M0.linform_vector(elems=elems, use_mp=True)` -/
def rhsStep1 {E : Type} (M0 : Option (List E → Bool → Except String (List Rat))) (elems : List E) :
    Except String (List Rat) :=
  match M0 with
  | some f => do let v ← f elems true; pure (v.map fun u => -u)
  | none => pure (zerosVec elems.length)

/-- `if g_linform: rhs += g_linform(elems)` -/
def rhsStep2 {E : Type} (gl : Option (List E → Except String (List Rat))) (elems : List E) (rhs : List Rat) :
    Except String (List Rat) :=
  match gl with
  | some f => do let v ← f elems; SLRest.npIAdd rhs v
  | none => pure rhs

theorem rhs_steps {E : Type} (M0 : Option (List E → Bool → Except String (List Rat)))
    (gl : Option (List E → Except String (List Rat))) (elems : List E) (m0 gv : List Rat)
    (hm0 : m0Vec M0 elems = .ok m0) (hg : gVec gl elems = .ok gv) (h1 : m0.length = elems.length)
    (h2 : gv.length = elems.length) :
    (rhsStep1 M0 elems).bind (rhsStep2 gl elems) =
      .ok (List.zipWith (fun a b => (rhsM0Sign : ℚ) * a + (rhsGSign : ℚ) * b) m0 gv) := by
  cases M0 with
  | some f =>
    simp only [m0Vec] at hm0
    cases gl with
    | some f2 =>
      simp only [gVec] at hg
      simp only [rhsStep1, hm0]
      show rhsStep2 (some f2) elems (m0.map fun u => -u) = _
      simp only [rhsStep2, hg]
      show SLRest.npIAdd (m0.map fun u => -u) gv = _
      unfold SLRest.npIAdd
      rw [if_pos (by simp [h1, h2])]
      show Except.ok _ = _
      congr 1
      simp [List.zipWith_map_left, rhsM0Sign, rhsGSign]
    | none =>
      simp only [gVec, Except.ok.injEq] at hg
      simp only [rhsStep1, hm0]
      show Except.ok (m0.map fun u => -u) = _
      congr 1
      subst hg
      rw [← h1, zipWith_replicate_right_len]
      simp [rhsM0Sign, rhsGSign]
  | none =>
    simp only [m0Vec, Except.ok.injEq] at hm0
    cases gl with
    | some f2 =>
      simp only [gVec] at hg
      show rhsStep2 (some f2) elems (zerosVec elems.length) = _
      simp only [rhsStep2, hg]
      show SLRest.npIAdd (zerosVec elems.length) gv = _
      unfold SLRest.npIAdd
      rw [if_pos (by simp [zerosVec, h2])]
      show Except.ok _ = _
      congr 1
      subst hm0
      rw [zerosVec, ← h2, zipWith_replicate_left_len, zipWith_replicate_left_len]
      simp [rhsM0Sign, rhsGSign]
    | none =>
      simp only [gVec, Except.ok.injEq] at hg
      show Except.ok (zerosVec elems.length) = _
      congr 1
      subst hm0 hg
      simp [zerosVec, rhsM0Sign, rhsGSign]

/-- **the generated slice**: with the two load vectors `m0`, `gv` (length `N`) it is: `mat = SL.bilform_matrix(elems, elems,
use_mp=True)`, `rhs = rhsM0Sign · m0 + rhsGSign · gv`, `Phi = solve(mat, rhs)`, exceptions passed on, in this order -/
theorem gen_slice_eq {E : Type} (bm : Option (List E) → Option (List E) → Bool → Except String (Mat Rat))
    (M0 : Option (List E → Bool → Except String (List Rat))) (gl : Option (List E → Except String (List Rat)))
    (solve : Mat Rat → List Rat → Except String (List Rat)) (elems : List E) (m0 gv : List Rat)
    (hm0 : m0Vec M0 elems = .ok m0) (hg : gVec gl elems = .ok gv) (h1 : m0.length = elems.length)
    (h2 : gv.length = elems.length) :
    SLRest.assembly_slice bm M0 gl solve elems =
      (bm (some elems) (some elems) true).bind fun mat =>
        (solve mat (List.zipWith (fun a b => (rhsM0Sign : ℚ) * a + (rhsGSign : ℚ) * b) m0 gv)).bind fun Phi =>
          .ok (mat, List.zipWith (fun a b => (rhsM0Sign : ℚ) * a + (rhsGSign : ℚ) * b) m0 gv, Phi) := by
  have key := rhs_steps M0 gl elems m0 gv hm0 hg h1 h2
  have shape : SLRest.assembly_slice bm M0 gl solve elems =
      (bm (some elems) (some elems) true).bind fun mat =>
        ((rhsStep1 M0 elems).bind (rhsStep2 gl elems)).bind fun rhs =>
          (solve mat rhs).bind fun Phi => .ok (mat, rhs, Phi) := by
    unfold SLRest.assembly_slice
    cases bm (some elems) (some elems) true with
    | error e => rfl
    | ok mat =>
      cases M0 with
      | some f =>
        cases hf : f elems true with
        | error e => simp only [rhsStep1, hf]; rfl
        | ok v => cases gl <;> simp only [rhsStep1, hf] <;> rfl
      | none => cases gl <;> rfl
  rw [shape, key]
  rfl

/-! ## 4. Galerkin orthogonality for the generated residual against the generated system -/

/-- a point of the residual function: (the piece handed to the closure, `t`, `x_hat`) -/
abbrev Pt := Nat × Rat × Rat

/-- `(V 1_e)` as the residual evaluates it, as a function of the point -/
def vFun (L : Rat) (glue : Bool) (S : Fns) (log : Rule1) (gs : List Piece) (exact : Bool) (e : Elem) : Pt → ℚ :=
  fun p => evalOf L glue S log gs exact p.1 e p.2.1 p.2.2 ((pieceOf gs p.1).at p.2.2)

/-- `M0u0` resp. `g` as the residual evaluates it (`None` = the zero function) -/
def dataFun (gs : List Piece) (f : Option (Rat → Rat × Rat → Rat)) : Pt → ℚ :=
  fun p => f.elim 0 fun f => f p.2.1 ((pieceOf gs p.1).at p.2.2)

/-- the generated closure as a function of one point (called on 1-element arrays) -/
def resFun (L : Rat) (glue : Bool) (S : Fns) (log : Rule1) (gs : List Piece) (elems : List Elem) (Phi : List Rat)
    (M0u0 g : Option (Rat → Rat × Rat → Rat)) (exact : Bool) : Pt → ℚ :=
  fun p => match SLRest.residual L glue S log gs elems Phi M0u0 g exact [p.2.1] [p.2.2] p.1 with
    | .ok l => l.headD 0
    | .error _ => 0

theorem zipWith_ofFn_sum : ∀ {n : ℕ} (el : Fin n → Elem) (Φ : Fin n → ℚ) (ev : Elem → ℚ),
    (List.zipWith (fun e c => c * ev e) (List.ofFn el) (List.ofFn Φ)).sum = ∑ j, Φ j * ev (el j)
  | 0, _, _, _ => by simp
  | n + 1, el, Φ, ev => by
    rw [List.ofFn_succ, List.ofFn_succ, List.zipWith_cons_cons, List.sum_cons, Fin.sum_univ_succ,
      zipWith_ofFn_sum (fun i => el i.succ) (fun i => Φ i.succ) ev]

/-- **the generated residual function is the linear combination** `resVSign • Σ_j Φ_j • V 1_j + resM0Sign • M0u0 + resGSign • g` -/
theorem gen_residual_fun_eq {n : ℕ} (L : Rat) (glue : Bool) (S : Fns) (log : Rule1) (gs : List Piece) (el : Fin n → Elem)
    (Φ : Fin n → ℚ) (M0u0 g : Option (Rat → Rat × Rat → Rat)) (exact : Bool) :
    resFun L glue S log gs (List.ofFn el) (List.ofFn Φ) M0u0 g exact =
      (resVSign : ℚ) • ∑ j, Φ j • vFun L glue S log gs exact (el j) + (resM0Sign : ℚ) • dataFun gs M0u0 +
        (resGSign : ℚ) • dataFun gs g := by
  funext p
  unfold resFun
  rw [gen_residual_ok L glue S log gs _ _ M0u0 g exact _ _ _ (by simp)]
  simp only [List.length_cons, List.length_nil, if_true, List.zipWith_cons_cons, List.zipWith_nil_right, List.headD_cons]
  unfold resVal
  rw [zipWith_ofFn_sum]
  simp only [Pi.add_apply, Pi.smul_apply, Finset.sum_apply, smul_eq_mul, vFun, dataFun]

/-- **Galerkin orthogonality for the GENERATED residual against the GENERATED system.**  `I i` are arbitrary linear
"element mean" functionals on functions of a point.  If the generated assembly slice succeeds with `(mat, rhs, Phi)`, the
assembled data are the element means of the functions the generated residual is made of (`hmat`, `hm0v`, `hgv`: what
`bilform_matrix`, `linform_vector`, `g_linform` approximate by quadrature) and `Phi` solves the system (`hsolve`: what
`np.linalg.solve` returns up to rounding), then every element mean of the generated residual function is `0`. -/
theorem gen_residual_orthogonal {n : ℕ} (L : Rat) (glue : Bool) (S : Fns) (log : Rule1) (gs : List Piece) (exact : Bool)
    (el : Fin n → Elem) (M0u0 g : Option (Rat → Rat × Rat → Rat)) (I : Fin n → (Pt → ℚ) →ₗ[ℚ] ℚ)
    (bm : Option (List Elem) → Option (List Elem) → Bool → Except String (Mat Rat))
    (M0 : Option (List Elem → Bool → Except String (List Rat))) (gl : Option (List Elem → Except String (List Rat)))
    (solve : Mat Rat → List Rat → Except String (List Rat)) (mat : Mat Rat) (rhs Phi m0 gv : List Rat)
    (hs : SLRest.assembly_slice bm M0 gl solve (List.ofFn el) = .ok (mat, rhs, Phi))
    (hm0 : m0Vec M0 (List.ofFn el) = .ok m0) (hg : gVec gl (List.ofFn el) = .ok gv)
    (hm0l : m0.length = n) (hgl : gv.length = n) (hPhi : Phi.length = n)
    (hmat : ∀ i j : Fin n, (mat.getD i []).getD j 0 = I i (vFun L glue S log gs exact (el j)))
    (hm0v : ∀ i : Fin n, m0.getD i 0 = I i (dataFun gs M0u0))
    (hgv : ∀ i : Fin n, gv.getD i 0 = I i (dataFun gs g))
    (hsolve : ∀ i : Fin n, ∑ j : Fin n, (mat.getD i []).getD j 0 * Phi.getD j 0 = rhs.getD i 0)
    (i : Fin n) :
    I i (resFun L glue S log gs (List.ofFn el) Phi M0u0 g exact) = 0 := by
  -- the right-hand side the slice computed
  have hrhs : rhs = List.zipWith (fun a b => (rhsM0Sign : ℚ) * a + (rhsGSign : ℚ) * b) m0 gv := by
    rw [gen_slice_eq bm M0 gl solve _ m0 gv hm0 hg (by simpa using hm0l) (by simpa using hgl)] at hs
    cases hb : bm (some (List.ofFn el)) (some (List.ofFn el)) true with
    | error e => rw [hb] at hs; cases hs
    | ok mat' =>
      rw [hb] at hs
      simp only [Except.bind] at hs
      cases hsol : solve mat' (List.zipWith (fun a b => (rhsM0Sign : ℚ) * a + (rhsGSign : ℚ) * b) m0 gv) with
      | error e => rw [hsol] at hs; cases hs
      | ok Phi' =>
        rw [hsol] at hs
        simp only [Except.ok.injEq, Prod.mk.injEq] at hs
        exact hs.2.1.symm
  have hPhi' : Phi = List.ofFn fun j : Fin n => Phi.getD j 0 := by
    apply List.ext_getElem
    · simp [hPhi]
    · intro k h1 h2
      simp [List.getD_eq_getElem?_getD, List.getElem?_eq_getElem h1]
  rw [hPhi', gen_residual_fun_eq]
  obtain ⟨c1, c2, _⟩ := Stbem.C03.conventions_consistent
  refine Stbem.C03.galerkin_orthogonality I (fun j => vFun L glue S log gs exact (el j)) (dataFun gs M0u0) (dataFun gs g)
    (fun j => Phi.getD j 0) _ _ _ (rhsM0Sign : ℚ) (rhsGSign : ℚ) (by exact_mod_cast c1) (by exact_mod_cast c2) ?_ i
  intro i
  have hi1 : (i : ℕ) < m0.length := by omega
  have hi2 : (i : ℕ) < gv.length := by omega
  have := hsolve i
  rw [hrhs] at this
  simp only [← hmat, ← hm0v, ← hgv, this]
  simp [List.getD_eq_getElem?_getD, List.getElem?_zipWith, List.getElem?_eq_getElem hi1, List.getElem?_eq_getElem hi2]

/-- **`residual_mean_zero` (Props/C03.lean) applies to the generated residual**: over `ℝ`, for arbitrary real-linear element
means `I i` on real functions of a point, with `v j`, `w`, `g` the (casts of the) functions the GENERATED residual evaluates.
If `Φ` solves `Σ_j I_i(v_j) Φ_j = rhsM0Sign·I_i(w) + rhsGSign·I_i(g)` — the system the generated slice assembles, `gen_slice_eq` —
then every element mean of the generated residual function vanishes. -/
theorem gen_residual_mean_zero_real {n : ℕ} (L : Rat) (glue : Bool) (S : Fns) (log : Rule1) (gs : List Piece) (exact : Bool)
    (el : Fin n → Elem) (Φ : Fin n → ℚ) (M0u0 g : Option (Rat → Rat × Rat → Rat)) (I : Fin n → (Pt → ℝ) →ₗ[ℝ] ℝ)
    (hsolve : ∀ i, ∑ j, I i (fun p => (vFun L glue S log gs exact (el j) p : ℝ)) * (Φ j : ℝ) =
      (rhsM0Sign : ℝ) * I i (fun p => (dataFun gs M0u0 p : ℝ)) + (rhsGSign : ℝ) * I i (fun p => (dataFun gs g p : ℝ)))
    (i : Fin n) :
    I i (fun p => (resFun L glue S log gs (List.ofFn el) (List.ofFn Φ) M0u0 g exact p : ℝ)) = 0 := by
  have h := Stbem.C03.residual_mean_zero I (fun j p => (vFun L glue S log gs exact (el j) p : ℝ))
    (fun p => (dataFun gs M0u0 p : ℝ)) (fun p => (dataFun gs g p : ℝ)) (fun j => (Φ j : ℝ)) hsolve i
  rw [← h]
  congr 1
  funext p
  rw [gen_residual_fun_eq]
  simp only [Pi.add_apply, Pi.smul_apply, Finset.sum_apply, smul_eq_mul]
  push_cast
  rfl

/-! ## 5. the statements are not empty: a concrete one-element system (closed evaluation by the kernel) -/

/-- one element, the mean functional = evaluation at the point (piece 0, t = 3/2, x̂ = 3/2) -/
example :
    let M0u0 : Option (Rat → Rat × Rat → Rat) := some fun t x => t + x.1
    let g : Option (Rat → Rat × Rat → Rat) := some fun _ _ => 2
    let I : Fin 1 → (Pt → ℚ) →ₗ[ℚ] ℚ := fun _ => LinearMap.proj ((0, 3/2, 3/2) : Pt)
    I 0 (resFun 4 true SEx logEx gsEx (List.ofFn fun _ : Fin 1 => elB) [-1536/5] M0u0 g false) = 0 := by
  intro M0u0 g I
  refine gen_residual_orthogonal 4 true SEx logEx gsEx false (fun _ => elB) M0u0 g I
    (fun _ _ _ => .ok [[5/1536]]) (some fun _ _ => .ok [3]) (some fun _ => .ok [2])
    (fun A b => .ok [b.headD 0 / (A.headD []).headD 1]) [[5/1536]] [-1] [-1536/5] [3] [2] ?_ rfl rfl rfl rfl rfl ?_ ?_ ?_ ?_ 0
  · decide +kernel
  · intro i j
    show _ = vFun 4 true SEx logEx gsEx false elB (0, 3/2, 3/2)
    have : vFun 4 true SEx logEx gsEx false elB (0, 3/2, 3/2) = 5 / 1536 := by decide +kernel
    rw [this]; fin_cases i; fin_cases j; rfl
  · intro i
    show _ = dataFun gsEx M0u0 (0, 3/2, 3/2)
    have : dataFun gsEx M0u0 (0, 3/2, 3/2) = 3 := by decide +kernel
    rw [this]; fin_cases i; rfl
  · intro i
    show _ = dataFun gsEx g (0, 3/2, 3/2)
    have : dataFun gsEx g (0, 3/2, 3/2) = 2 := by decide +kernel
    rw [this]; fin_cases i; rfl
  · intro i
    fin_cases i
    simp

example : SLRest.residual 4 true SEx logEx gsEx [elA, elB] [2, 3] (some fun t x => t + x.1) none false [3/2] [3/2] 0 =
    .ok [resVal 4 true SEx logEx gsEx [elA, elB] [2, 3] (some fun t x => t + x.1) none false 0 (3/2) (3/2)
      ((pieceOf gsEx 0).at (3/2))] := by
  rw [gen_residual_ok _ _ _ _ _ _ _ _ _ _ _ _ _ (by decide)]; rfl
example : SLRest.residual 4 true SEx logEx gsEx [elA] [2] none none false [1, 2] [1] 0 = .error "assert:len" := by
  decide +kernel
example : SLRest.residual_point 4 true SEx logEx gsEx [elA, elB] [2] none none false 0 (5/2) (3/2) (3/2, 0) =
    .error "raise:IndexError" := by decide +kernel

end Stbem.SLRestResidual
