import Stbem.Model.Mesh
namespace Stbem.Mesh
theorem placeholder_C06 : True := trivial
end Stbem.Mesh
