import Stbem.Props.C02
import Stbem.Lemmas.MeshKids

/-!
# C06 — Dörfler marking and refinement

For non-negative indicators and `0 ≤ θ ≤ 1` the marked contributions form the **shortest non-empty
prefix** of the (descending) ordering whose sum reaches `θ²·total`; every marked element ends up
bisected in the marked directions; **the call never fails** on a mesh satisfying the invariant.

* marking (pure list lemmas, `Stbem.Lemmas.MeshBulk`): `takeBulk_prefix`, `takeBulk_ne_nil`,
  `takeBulk_reaches`, `takeBulk_minimal`, `bulk_bound_reached`, `sortDesc_perm`, `sortDesc_sorted`;
  assembled here in `marking_shortest_prefix`, `dorflerIso_marking`, `dorflerAniso_marking`;
* the level-sorted phase (`Stbem.Lemmas.MeshPhase`): `refinePhase_ok`;
* the two routines (`Stbem.Lemmas.MeshDorfler`): `dorflerIso_ok`, `dorflerIso_marked_refined`,
  `dorflerAniso_ok`, `dorflerAniso_marked_refined`.

`dorflerAniso` looks the children of a space-marked, time-refined element up in the `kids` table.
`Inv` says nothing about that table, so the anisotropic routine needs the additional invariant
`KidsOK` (no entry of the table has a current leaf as parent; holds initially, preserved by all
bisections); `dorflerAniso_needs_kidsOK` exhibits a mesh with `Inv` and a corrupt table on which the
call fails.
-/
namespace Stbem.Mesh

/-! ## A. marking -/

/-- the marked entries `takeBulk (θ²·total) 0 l` are a non-empty prefix of `l`, their sum reaches
`θ²·total`, and every strictly shorter non-empty prefix stays below -/
theorem marking_shortest_prefix {α} (l : List (Rat × α)) (θ : Rat) (hv : ∀ p ∈ l, 0 ≤ p.1)
    (h0 : 0 ≤ θ) (h1 : θ ≤ 1) (hl : l ≠ []) :
    takeBulk (sumQ (l.map (·.1)) * θ ^ 2) 0 l <+: l ∧
    takeBulk (sumQ (l.map (·.1)) * θ ^ 2) 0 l ≠ [] ∧
    sumQ (l.map (·.1)) * θ ^ 2 ≤ sumQ ((takeBulk (sumQ (l.map (·.1)) * θ ^ 2) 0 l).map (·.1)) ∧
    ∀ p, p <+: takeBulk (sumQ (l.map (·.1)) * θ ^ 2) 0 l →
      p.length < (takeBulk (sumQ (l.map (·.1)) * θ ^ 2) 0 l).length → p ≠ [] →
      sumQ (p.map (·.1)) < sumQ (l.map (·.1)) * θ ^ 2 :=
  bulk_spec l θ _ rfl hv h0 h1 hl

/-- `dorfler_refine_isotropic`: the list that is scanned is the permutation `perm` of the
(indicator, leaf) pairs; the marked cells are the second components of the shortest non-empty prefix
reaching `θ²·Σ eta` -/
theorem dorflerIso_marking (m : Mesh) (eta : List Rat) (perm : List Nat) (θ : Rat)
    (hlen : eta.length = m.leaves.length) (hperm : perm.Perm (List.range eta.length))
    (hv : ∀ v ∈ eta, 0 ≤ v) (h0 : 0 ≤ θ) (h1 : θ ≤ 1) (hne : eta ≠ []) :
    (isoSorted m eta perm).Perm (eta.zip m.leaves) ∧
    isoMarked m eta perm θ = (takeBulk (sumQ eta * θ ^ 2) 0 (isoSorted m eta perm)).map (·.2) ∧
    takeBulk (sumQ eta * θ ^ 2) 0 (isoSorted m eta perm) <+: isoSorted m eta perm ∧
    takeBulk (sumQ eta * θ ^ 2) 0 (isoSorted m eta perm) ≠ [] ∧
    sumQ eta * θ ^ 2 ≤ sumQ ((takeBulk (sumQ eta * θ ^ 2) 0 (isoSorted m eta perm)).map (·.1)) ∧
    ∀ p, p <+: takeBulk (sumQ eta * θ ^ 2) 0 (isoSorted m eta perm) →
      p.length < (takeBulk (sumQ eta * θ ^ 2) 0 (isoSorted m eta perm)).length → p ≠ [] →
      sumQ (p.map (·.1)) < sumQ eta * θ ^ 2 := by
  have hfst := isoSorted_fst m eta perm hlen hperm
  have hl : isoSorted m eta perm ≠ [] := by
    intro e
    have := isoSorted_length m eta perm hlen hperm
    rw [e] at this
    cases eta with
    | nil => exact hne rfl
    | cons a l => simp at this
  refine ⟨isoSorted_perm m eta perm hlen hperm, rfl, ?_⟩
  refine bulk_spec (isoSorted m eta perm) θ (sumQ eta) (sumQ_perm hfst.symm) ?_ h0 h1 hl
  intro p hp
  exact hv p.1 (hfst.mem_iff.mp (List.mem_map.mpr ⟨p, hp, rfl⟩))

/-- `dorfler_refine_anisotropic`: the `2·n` directional indicators are sorted descending (stable);
the marked (cell, direction) pairs are the shortest non-empty prefix reaching `θ²·Σ (ηt + ηx)` -/
theorem dorflerAniso_marking (m : Mesh) (eta : List (Rat × Rat)) (θ : Rat)
    (hlen : eta.length = m.leaves.length) (hv : ∀ p ∈ eta, 0 ≤ p.1 ∧ 0 ≤ p.2)
    (h0 : 0 ≤ θ) (h1 : θ ≤ 1) (hne : eta ≠ []) :
    (sortDesc (anisoErrs m eta)).Perm (anisoErrs m eta) ∧
    (sortDesc (anisoErrs m eta)).Pairwise (fun a b => a.1 ≥ b.1) ∧
    anisoMarked m eta θ =
      (takeBulk (sumQ (eta.map fun p => p.1 + p.2) * θ ^ 2) 0 (sortDesc (anisoErrs m eta))).map (·.2) ∧
    takeBulk (sumQ (eta.map fun p => p.1 + p.2) * θ ^ 2) 0 (sortDesc (anisoErrs m eta)) <+:
      sortDesc (anisoErrs m eta) ∧
    takeBulk (sumQ (eta.map fun p => p.1 + p.2) * θ ^ 2) 0 (sortDesc (anisoErrs m eta)) ≠ [] ∧
    sumQ (eta.map fun p => p.1 + p.2) * θ ^ 2 ≤
      sumQ ((takeBulk (sumQ (eta.map fun p => p.1 + p.2) * θ ^ 2) 0
        (sortDesc (anisoErrs m eta))).map (·.1)) ∧
    ∀ p, p <+: takeBulk (sumQ (eta.map fun p => p.1 + p.2) * θ ^ 2) 0 (sortDesc (anisoErrs m eta)) →
      p.length < (takeBulk (sumQ (eta.map fun p => p.1 + p.2) * θ ^ 2) 0
        (sortDesc (anisoErrs m eta))).length → p ≠ [] →
      sumQ (p.map (·.1)) < sumQ (eta.map fun p => p.1 + p.2) * θ ^ 2 :=
  ⟨sortDesc_perm _, sortDesc_sorted _, rfl,
    bulk_spec (sortDesc (anisoErrs m eta)) θ _ (aniso_total m eta hlen)
      (aniso_nonneg m eta hlen hv) h0 h1 (anisoErrs_ne_nil m eta hlen hne)⟩

/-! ## B. the refinement never fails -/

/-- the level-sorted phase succeeds when the marked cells are distinct leaves; every marked cell is
gone afterwards, the returned children are distinct leaves of the result, two per marked cell -/
theorem refinePhase_ok (m : Mesh) (h : Inv m) (marked : List Cell) (ax : Ax)
    (hm : ∀ c ∈ marked, c ∈ m.leaves) (hnd : marked.Nodup) :
    ∃ r, refinePhase m marked ax = .ok r ∧ Inv r.1 ∧ Refines m r.1 ∧
      (∀ c ∈ marked, c ∉ r.1.leaves) ∧ (∀ k ∈ r.2, k ∈ r.1.leaves) ∧ r.2.Nodup ∧
      r.2.length = 2 * marked.length :=
  refinePhase_ok' m h marked ax hm hnd

/-- in a phase every original leaf is bisected at most once: each leaf of the result is an original
leaf or lies in an original leaf exactly one level above (in the axis of the phase) -/
theorem refinePhase_once (m : Mesh) (h : Inv m) (marked : List Cell) (ax : Ax)
    (hm : ∀ c ∈ marked, c ∈ m.leaves) (hnd : marked.Nodup) (r : Mesh × List Cell)
    (hr : refinePhase m marked ax = .ok r) :
    ∀ d ∈ r.1.leaves, d ∈ m.leaves ∨ ∃ o ∈ m.leaves, d.Sub o ∧ d.level ax = o.level ax + 1 := by
  obtain ⟨r', f, hr', -, hQ, -⟩ := refinePhase_spec m h marked ax hm hnd
  rw [hr] at hr'
  cases hr'
  exact hQ.2.1

theorem dorflerIso_ok (m : Mesh) (h : Inv m) (eta : List Rat) (perm : List Nat) (θ : Rat)
    (hlen : eta.length = m.leaves.length) (hperm : perm.Perm (List.range eta.length)) :
    ∃ m', dorflerIso m eta perm θ = .ok m' ∧ Inv m' ∧ Refines m m' := by
  obtain ⟨m', h1, h2, h3, -⟩ := dorflerIso_full m h eta perm θ hlen hperm
  exact ⟨m', h1, h2, h3⟩

/-- the marked cells are distinct leaves -/
theorem dorflerIso_marked_leaves (m : Mesh) (h : Inv m) (eta : List Rat) (perm : List Nat) (θ : Rat)
    (hlen : eta.length = m.leaves.length) (hperm : perm.Perm (List.range eta.length)) :
    (∀ c ∈ isoMarked m eta perm θ, c ∈ m.leaves) ∧ (isoMarked m eta perm θ).Nodup := by
  obtain ⟨m', -, -, -, -, h4, h5, -⟩ := dorflerIso_full m h eta perm θ hlen hperm
  exact ⟨h4, h5⟩

/-- marked ⇒ refined: every leaf of the result inside an iso-marked cell is (at least) one level
deeper in both axes -/
theorem dorflerIso_marked_refined (m : Mesh) (h : Inv m) (eta : List Rat) (perm : List Nat) (θ : Rat)
    (hlen : eta.length = m.leaves.length) (hperm : perm.Perm (List.range eta.length)) (m' : Mesh)
    (hr : dorflerIso m eta perm θ = .ok m') :
    ∀ c ∈ isoMarked m eta perm θ, ∀ d ∈ m'.leaves, d.Sub c → c.lt + 1 ≤ d.lt ∧ c.lx + 1 ≤ d.lx := by
  obtain ⟨m'', h1, -, -, -, -, -, h6⟩ := dorflerIso_full m h eta perm θ hlen hperm
  rw [hr] at h1
  cases h1
  exact h6

theorem dorflerIso_kidsOK (m : Mesh) (h : Inv m) (hK : KidsOK m) (eta : List Rat) (perm : List Nat)
    (θ : Rat) (hlen : eta.length = m.leaves.length) (hperm : perm.Perm (List.range eta.length))
    (m' : Mesh) (hr : dorflerIso m eta perm θ = .ok m') : KidsOK m' := by
  obtain ⟨m'', h1, -, -, h4, -⟩ := dorflerIso_full m h eta perm θ hlen hperm
  rw [hr] at h1
  cases h1
  exact h4 hK

theorem dorflerAniso_ok (m : Mesh) (h : Inv m) (hK : KidsOK m) (eta : List (Rat × Rat)) (θ : Rat)
    (hlen : eta.length = m.leaves.length) :
    ∃ m', dorflerAniso m eta θ = .ok m' ∧ Inv m' ∧ Refines m m' ∧ KidsOK m' := by
  obtain ⟨m', h1, h2, h3, h4, -⟩ := dorflerAniso_full m h hK eta θ hlen
  exact ⟨m', h1, h2, h3, h4⟩

theorem dorflerAniso_marked_leaves (m : Mesh) (h : Inv m) (eta : List (Rat × Rat)) (θ : Rat)
    (hlen : eta.length = m.leaves.length) :
    (∀ p ∈ anisoMarked m eta θ, p.1 ∈ m.leaves) ∧ (anisoMarked m eta θ).Nodup :=
  ⟨(anisoMarked_props m h eta θ hlen).2, (anisoMarked_props m h eta θ hlen).1⟩

/-- marked ⇒ refined: every leaf of the result inside a time-marked cell is deeper in time, inside
a space-marked cell deeper in space -/
theorem dorflerAniso_marked_refined (m : Mesh) (h : Inv m) (hK : KidsOK m) (eta : List (Rat × Rat))
    (θ : Rat) (hlen : eta.length = m.leaves.length) (m' : Mesh)
    (hr : dorflerAniso m eta θ = .ok m') :
    (∀ c, (c, Ax.time) ∈ anisoMarked m eta θ → ∀ d ∈ m'.leaves, d.Sub c → c.lt + 1 ≤ d.lt) ∧
    (∀ c, (c, Ax.space) ∈ anisoMarked m eta θ → ∀ d ∈ m'.leaves, d.Sub c → c.lx + 1 ≤ d.lx) := by
  obtain ⟨m'', h1, -, -, -, -, -, h6, h7⟩ := dorflerAniso_full m h hK eta θ hlen
  rw [hr] at h1
  cases h1
  exact ⟨h6, h7⟩

/-- `KidsOK` holds initially and is preserved by `refineId`/`refineAll` (hence by every composite
operation; for the Dörfler routines see `dorflerIso_kidsOK`, `dorflerAniso_ok`) -/
theorem kidsOK_init (glue : Bool) (X T : List Rat) : KidsOK (init glue X T) := init_kidsOK glue X T

theorem kidsOK_refineId (m : Mesh) (h : Inv m) (hK : KidsOK m) (id : Nat) (ax : Ax) (m' : Mesh)
    (hr : refineId m id ax = .ok m') : KidsOK m' := refineId_kidsOK h hK hr

theorem kidsOK_refineAll (m : Mesh) (h : Inv m) (hK : KidsOK m) (ids : List Nat) (ax : Ax)
    (m' : Mesh) (hr : refineAll m ids ax = .ok m') : KidsOK m' := refineAll_kidsOK h hK hr

/-- every other operation of the model preserves `Inv ∧ KidsOK` as well (whatever the arguments,
provided the call returns) -/
theorem invK_preserved :
    (∀ m id r, InvK m → refineBoth m id = .ok r → InvK r.1) ∧
    (∀ m m', InvK m → uniformRefine m = .ok m' → InvK m') ∧
    (∀ m m', InvK m → uniformRefineSpace m = .ok m' → InvK m') ∧
    (∀ m eta perm θ m', InvK m → dorflerIso m eta perm θ = .ok m' → InvK m') ∧
    (∀ m eta θ m', InvK m → dorflerAniso m eta θ = .ok m' → InvK m') ∧
    (∀ fixed fuel m p q K m', InvK m → grading fixed fuel m p q K = .ok m' → InvK m') :=
  ⟨fun _ _ _ h hr => refineBoth_invK h hr, fun _ _ h hr => uniformRefine_invK h hr,
    fun _ _ h hr => uniformRefineSpace_invK h hr, fun _ _ _ _ _ h hr => dorflerIso_invK h hr,
    fun _ _ _ _ h hr => dorflerAniso_invK h hr,
    fun fixed fuel _ _ _ _ _ h hr => grading_invK fixed fuel h hr⟩

/-! ## non-vacuity -/

/-- three roots `0, 1, 2` on the glued cylinder `[0,3) × [0,1)` -/
def mesh3 : Mesh := init true [0, 1, 2, 3] [0, 1]

theorem mesh3_inv : Inv mesh3 :=
  init_inv true [0, 1, 2, 3] [0, 1] (by simp [StrictInc]; norm_num) (by simp [StrictInc]) (by simp) (by simp)

theorem mesh3_kidsOK : KidsOK mesh3 := init_kidsOK _ _ _

/-- `θ = 1/2`, indicators `1, 5, 2`: bound `2`, the largest indicator alone reaches it: only root `1`
is marked; it is bisected in time (`3, 4`) and both children in space (`5..8`); the neighbours `0`, `2`
stay (one level coarser, which 1-irregularity allows) -/
theorem run_iso_half :
    (isoMarked mesh3 [1, 5, 2] [1, 2, 0] (1 / 2)).map (·.id) = [1] ∧
    leafIds (dorflerIso mesh3 [1, 5, 2] [1, 2, 0] (1 / 2)) = some ([0, 2, 5, 6, 7, 8], 9) := by
  constructor <;> decide +kernel

/-- `θ = 9/10`: bound `6.48`, the prefix `5, 2` is needed: roots `1` and `2` are marked -/
theorem run_iso_most :
    (isoMarked mesh3 [1, 5, 2] [1, 2, 0] (9 / 10)).map (·.id) = [1, 2] ∧
    leafIds (dorflerIso mesh3 [1, 5, 2] [1, 2, 0] (9 / 10)) =
      some ([0, 7, 8, 9, 10, 11, 12, 13, 14], 15) := by
  constructor <;> decide +kernel

/-- anisotropic: root `1` is marked in space, root `2` in time and in space; the space phase
therefore refines the two time-children of `2`, which it finds in the `kids` table -/
theorem run_aniso :
    (anisoMarked mesh3 [(1, 0), (0, 5), (2, 2)] (9 / 10)).map (fun p => (p.1.id, p.2)) =
      [(1, Ax.space), (2, Ax.time), (2, Ax.space)] ∧
    leafIds (dorflerAniso mesh3 [(1, 0), (0, 5), (2, 2)] (9 / 10)) =
      some ([0, 5, 6, 7, 8, 9, 10], 11) := by
  constructor <;> decide +kernel

/-- two adaptive rounds -/
theorem run_two_rounds :
    leafIds (do
      let m ← dorflerIso mesh3 [1, 5, 2] [1, 2, 0] (1 / 2)
      dorflerAniso m [(1, 0), (0, 5), (2, 2), (1, 1), (3, 0), (0, 0)] (9 / 10)) =
      some ([6, 8, 10, 11, 12, 15, 16, 17, 18, 19, 20, 21, 22], 23) := by
  decide +kernel

/-- the hypotheses of the theorems are satisfiable: instances on `mesh3` -/
example : ∃ m', dorflerIso mesh3 [1, 5, 2] [1, 2, 0] (9 / 10) = .ok m' ∧ Inv m' ∧ Refines mesh3 m' :=
  dorflerIso_ok mesh3 mesh3_inv [1, 5, 2] [1, 2, 0] (9 / 10) (by decide) (by decide)

example : ∃ m', dorflerAniso mesh3 [(1, 0), (0, 5), (2, 2)] (9 / 10) = .ok m' ∧ Inv m' ∧
    Refines mesh3 m' ∧ KidsOK m' :=
  dorflerAniso_ok mesh3 mesh3_inv mesh3_kidsOK _ _ (by decide)

/-- `Inv` does not constrain the `kids` table -/
theorem inv_kids_irrelevant {m : Mesh} (h : Inv m) (k : List (Nat × Nat × Nat)) :
    Inv { m with kids := k } :=
  ⟨h.dom, ⟨h.tiles.proper, h.tiles.inside, h.tiles.cover, h.tiles.disjoint⟩, h.irr, h.ids⟩

/-- without `KidsOK` the anisotropic routine can fail although `Inv` holds: a stale entry for the
leaf `1` sends the space phase to non-existent children -/
theorem dorflerAniso_needs_kidsOK :
    ∃ m : Mesh, Inv m ∧ ∃ (eta : List (Rat × Rat)) (θ : Rat), eta.length = m.leaves.length ∧
      leafIds (dorflerAniso m eta θ) = none :=
  ⟨{ mesh3 with kids := [(1, 50, 51)] }, inv_kids_irrelevant mesh3_inv _,
    [(1, 0), (0, 5), (2, 2)], 9 / 10, by decide, by decide +kernel⟩

/-- a permutation that is not one is rejected (`bad-perm`), a wrong length as well -/
theorem run_iso_badperm :
    leafIds (dorflerIso mesh3 [1, 5, 2] [1, 2, 7] (1 / 2)) = none ∧
    leafIds (dorflerIso mesh3 [1, 5] [1, 0] (1 / 2)) = none := by
  constructor <;> decide +kernel

end Stbem.Mesh

section Axioms
open Stbem.Mesh
end Axioms
