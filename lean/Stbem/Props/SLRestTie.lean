import Stbem.Props.PanelsTie
import Stbem.Props.C17
import Stbem.Gen.SLRest

/-!
# SLRestTie — the REST of `src/single_layer.py` regenerated from source equals the hand-written models

`Stbem.Gen.SLRest` is produced on every run by `translate/slrest.py` from the bodies of `SingleLayerOperator.evaluate_exact`,
`potential`, `evaluate_vector`, `potential_vector`, `rhs_vector`, `MP_SL_matrix_col`, the WHOLE of `bilform_matrix` (defaults,
threshold, cache key and file name, `np.load` / `np.save` in `try`, serial loop, worker pool), of `ErrorEstimator.residual`
(`src/error_estimator.py`) and of the assembly statements of `example.py` (Python `ast` → Lean).

This file proves, for ALL inputs, that the generated definitions are the hand-written models where such a model exists:
`evaluate_exact` = `SL.evaluateExact`, `potential` = `SL.potential` (`Stbem.Model.SingleLayer`), `MP_SL_matrix_col` =
`Assembly.workerCol`, `bilform_matrix` = `Assembly.computeMatrix` (no cache directory) resp. `Assembly.callStep` of
`Assembly.slSpec` (with a cache directory), and restates the C04 / C07 / C17 results for the generated functions.
The residual and the assembly slice (no hand model) are treated in `Props/SLRestResidual.lean`.
-/
namespace Stbem.SLRestTie
open Stbem.Quad Stbem.Formulas.Q Stbem.SL
open Stbem.Assembly hiding Elem
open Stbem.Gen Stbem.PanelsTie

/-! ## 1. `evaluate_exact`, `potential` and the vector methods -/

/-- `evaluate_exact`: guard, the three-way case split (outside / strictly inside / at an end point), the closed form
written inline in the outside branch with `h`, `k` = distance to the nearer / farther end point, both time branches,
`spacetime_evaluated_1` with its arguments, and the implicit `None`: the generated function IS the model's -/
theorem gen_evaluate_exact_eq (S : Fns) (e : Elem) (t x : Rat) :
    SLRest.evaluate_exact S e t x = SL.evaluateExact S e t x := by
  unfold SLRest.evaluate_exact SL.evaluateExact
  rfl

/-- `potential`: guard, `time_integrated_kernel(t, *time_interval)` at `x − γ(y)`, Gauss rule over the space interval -/
theorem gen_potential_eq (S : Fns) (gauss : Rule1) (gs : List Piece) (e : Elem) (t : Rat) (x : Rat × Rat) :
    SLRest.potential S gauss gs e t x = SL.potential S gauss gs e t x := by
  unfold SLRest.potential SL.potential
  rfl

/-- `evaluate_vector`: one `gamma.eval`, then the model's `evaluate` for every leaf, in leaf order -/
theorem gen_evaluate_vector_eq (L : Rat) (glue : Bool) (S : Fns) (log : Rule1) (gs : List Piece) (leaves : List Elem)
    (γ : Rat → Rat × Rat) (t xhat : Rat) :
    SLRest.evaluate_vector L glue S log gs leaves γ t xhat =
      leaves.map fun e =>
        SL.evaluate (cfgOf L glue) Panels.c_1_plus_1e_m10 Panels.c_1_minus_1e_m10 S log gs e t xhat (γ xhat) := by
  unfold SLRest.evaluate_vector
  simp only [gen_evaluate_eq]

/-- C04 / C07 for the generated `evaluate_vector`: as long as an element has not started its entry is the literal `0` -/
theorem gen_evaluate_vector_acausal (L : Rat) (glue : Bool) (S : Fns) (log : Rule1) (gs : List Piece) (leaves : List Elem)
    (γ : Rat → Rat × Rat) (t xhat : Rat) (j : Nat) (hj : j < leaves.length) (h : t ≤ leaves[j].t0) :
    (SLRest.evaluate_vector L glue S log gs leaves γ t xhat)[j]'(by simpa [SLRest.evaluate_vector] using hj) = 0 := by
  simp only [SLRest.evaluate_vector, List.getElem_map]
  exact gen_evaluate_acausal L glue S log gs _ t xhat _ h

theorem gen_potential_vector_eq (S : Fns) (gauss : Rule1) (gs : List Piece) (leaves : List Elem) (t : Rat) (x : Rat × Rat) :
    SLRest.potential_vector S gauss gs leaves t x = leaves.map fun e => SL.potential S gauss gs e t x := by
  unfold SLRest.potential_vector
  simp only [gen_potential_eq]

/-- C04 for the generated closed-form evaluation, potential and potential vector -/
theorem gen_pointwise_acausal (S : Fns) (gauss : Rule1) (gs : List Piece) (e : Elem) (t xs : Rat) (x : Rat × Rat)
    (h : t ≤ e.t0) :
    SLRest.evaluate_exact S e t xs = some 0 ∧ SLRest.potential S gauss gs e t x = 0 := by
  rw [gen_evaluate_exact_eq, gen_potential_eq]
  exact ⟨(eval_acausal (cfgOf 0 false) 1 1 S [] gauss gs e t 0 xs x h).2.1,
    (eval_acausal (cfgOf 0 false) 1 1 S [] gauss gs e t 0 xs x h).2.2⟩

/-- C07 for the generated `evaluate_exact`: the four branches in terms of the generated closed forms `steval_1`, `steval_2`;
the implicit `None` is unreachable -/
theorem gen_evaluate_exact_cases (S : Fns) (e : Elem) (t x : Rat) (ht : ¬ t ≤ e.t0) :
    (e.x0 < x → x < e.x1 → SLRest.evaluate_exact S e t x =
      some (steval_1 S t e.t0 e.t1 (x - e.x0) + steval_1 S t e.t0 e.t1 (e.x1 - x))) ∧
    (e.x0 ≤ e.x1 → (x = e.x0 ∨ x = e.x1) →
      SLRest.evaluate_exact S e t x = some (steval_1 S t e.t0 e.t1 (e.x1 - e.x0))) ∧
    ((x < e.x0 ∨ x > e.x1) → SLRest.evaluate_exact S e t x =
      some (steval_2 S t e.t0 e.t1 (minR (absR (e.x0 - x)) (absR (e.x1 - x)))
        (maxR (absR (e.x0 - x)) (absR (e.x1 - x))))) ∧
    (SLRest.evaluate_exact S e t x).isSome = true := by
  rw [gen_evaluate_exact_eq]
  exact evaluateExact_cases S e t x ht

theorem integrate2_add (r : Rule2) (f g : Rat → Rat → Rat) (a b c d : Rat) :
    integrate2 r (fun x y => f x y + g x y) a b c d = integrate2 r f a b c d + integrate2 r g a b c d := by
  unfold integrate2
  rw [← mul_add, ← sumR_map_add]
  congr 2
  apply List.map_congr_left
  intro n _
  ring

/-- `rhs_vector`: entry `i` is the tensor Gauss rule of order `gauss_order` over the time × space rectangle of leaf `i`
applied to `(t, y) ↦ f(t, γ_i(y))`; in particular it is additive in `f` -/
theorem gen_rhs_vector_add (gaussOf : Nat → Rule1) (gs : List Piece) (leaves : List Elem)
    (f g : Rat → Rat × Rat → Rat) (n : Nat) :
    SLRest.rhs_vector gaussOf gs leaves (fun t p => f t p + g t p) n =
      List.zipWith (fun a b => a + b) (SLRest.rhs_vector gaussOf gs leaves f n) (SLRest.rhs_vector gaussOf gs leaves g n) := by
  unfold SLRest.rhs_vector
  simp only [List.zipWith_map_left, List.zipWith_map_right, List.zipWith_self]
  apply List.map_congr_left
  intro e _
  exact integrate2_add _ _ _ _ _ _ _

example : SLRest.evaluate_exact SEx elB 1 2 = some 0 := by decide +kernel
example : SLRest.evaluate_exact SEx elB (3/2) (3/2) = SL.evaluateExact SEx elB (3/2) (3/2) := gen_evaluate_exact_eq _ _ _ _
example : (SLRest.evaluate_vector 4 true SEx logEx gsEx [elA, elB] (fun y => (y, 0)) (3/2) (3/2)).length = 2 := by
  decide +kernel
example : SLRest.evaluate_vector 4 true SEx logEx gsEx [elB] (fun y => (y, 0)) (3/2) (3/2) = [5 / 1536] := by
  decide +kernel

/-! ## 2. `MP_SL_matrix_col` and the whole of `bilform_matrix` -/
section assembly
variable {E V Hh : Type} [Zero V] [DecidableEq Hh]

/-- the guard of the worker as the assembly model sees it -/
def acausalOf (ti : E → Rat × Rat) (tr te : E) : Bool := decide ((ti te).2 ≤ (ti tr).1)

/-- the leaf of the assembly model made of `self.bilform` and the time intervals -/
def leafOf (bil : E → E → V) (ti : E → Rat × Rat) : Leaf E V := ⟨bil, acausalOf ti⟩

/-- the schedule the code asks for: `mp.Pool(cpu)`, chunk size `M // (16 * cpu) + 1` -/
def codeSched (cpu M : Nat) (assign : Nat → Nat) (order : List Nat) : Schedule :=
  ⟨cpu, codeChunk 16 cpu M, assign, order⟩

omit [DecidableEq Hh] in
/-- the worker: `IndexError` outside the list, `np.zeros`, the skip rule `continue`, `col[i] = __SL.bilform(trial, test)` -/
theorem gen_MP_SL_matrix_col_eq (bil : E → E → V) (ti : E → Rat × Rat) (tests trials : List E) (j : Nat) :
    SLRest.MP_SL_matrix_col bil ti tests trials j = workerCol ⟨leafOf bil ti, tests, trials⟩ j := by
  unfold SLRest.MP_SL_matrix_col workerCol
  cases trials[j]? with
  | none => rfl
  | some tr =>
    simp only [leafOf, acausalOf, decide_eq_true_eq]

omit [DecidableEq Hh] in
/-- **path selection without a cache directory**: defaults resolved, threshold `N * M < 100`, serial loop for `not use_mp`,
otherwise the pool with `mp.cpu_count()` workers, the code's chunk size, forked globals, columns written in task order:
the generated method IS `computeMatrix` of the assembly model, and the directory is untouched -/
theorem gen_bilform_matrix_nocache (bil : E → E → V) (ti : E → Rat × Rat) (leaves : List E) (strg : List Char)
    (repr : E → List Char) (qo : Nat) (pw : Bool) (md5 : List Char → Hh) [DecidableEq Hh] (cpu : Nat) (assign : Nat → Nat)
    (order : List Nat) (sv : SaveOutcome) (d : Dir (List Char × Nat × Nat × Hh) (Mat V)) (tests trials : List E) (mp : Bool) :
    SLRest.bilform_matrix bil ti leaves false strg repr qo pw md5 cpu assign order sv d (some tests) (some trials) mp =
      (d, computeMatrix (leafOf bil ti) tests trials ⟨mp, codeSched cpu trials.length assign order⟩) := by
  unfold SLRest.bilform_matrix computeMatrix
  by_cases h : tests.length * trials.length < 100
  · simp only [h, if_true]; rfl
  · simp only [h, if_false]
    cases mp with
    | false => simp [serialPath, loopFill, leafOf]
    | true =>
      simp only [poolPath, forkView, codeSched, codeChunk, gen_MP_SL_matrix_col_eq]
      simp
      cases poolMap (fun _ j => workerCol ⟨leafOf bil ti, tests, trials⟩ j) trials.length
        ⟨cpu, trials.length / (16 * cpu) + 1, assign, order⟩ <;> rfl

/-- the operator family (one configuration) the generated method belongs to: curve name, configuration text
`str((quad_order, pw_exact))`, leaf -/
def familyOf (bil : E → E → V) (ti : E → Rat × Rat) (strg : List Char) (qo : Nat) (pw : Bool) : Family Unit E V :=
  ⟨fun _ => strg, fun _ => cfgText qo pw, fun _ => leafOf bil ti⟩

/-- **path selection with a cache directory**: the hashed text `str(gamma) + str(elems_test) + str(elems_trial) +
str((quad_order, pw_exact))`, the file name `(curve, N, M, md5)`, `try: np.load → return`, compute (threshold / serial /
pool), `try: np.save`: the generated method IS one `callStep` of the assembly model's cached routine `slSpec` -/
theorem gen_bilform_matrix_cache (bil : E → E → V) (ti : E → Rat × Rat) (leaves : List E) (strg : List Char)
    (repr : E → List Char) (qo : Nat) (pw : Bool) (md5 : List Char → Hh) (cpu : Nat) (assign : Nat → Nat)
    (order : List Nat) (sv : SaveOutcome) (d : Dir (List Char × Nat × Nat × Hh) (Mat V)) (tests trials : List E) (mp : Bool) :
    SLRest.bilform_matrix bil ti leaves true strg repr qo pw md5 cpu assign order sv d (some tests) (some trials) mp =
      callStep (slSpec (familyOf bil ti strg qo pw) md5 repr) d ((), tests, trials)
        ⟨mp, codeSched cpu trials.length assign order⟩ sv := by
  have hc := gen_bilform_matrix_nocache bil ti leaves strg repr qo pw md5 cpu assign order sv d tests trials mp
  unfold SLRest.bilform_matrix at hc ⊢
  unfold callStep
  simp only [slSpec, familyOf, slKey, keyText, List.append_assoc]
  by_cases h : tests.length * trials.length < 100
  · simp only [h, if_true, decide_true, Bool.not_true, Bool.false_eq_true, if_false] at hc ⊢
    rw [Prod.ext_iff] at hc
    simp only [computeMatrix, h, if_true] at hc ⊢
    exact Prod.ext rfl hc.2
  · simp only [h, if_false, decide_false, Bool.not_false, if_true] at hc ⊢
    cases hl : load (d (strg, tests.length, trials.length,
        md5 (strg ++ (listStr repr tests ++ (listStr repr trials ++ cfgText qo pw))))) with
    | some m => simp
    | none =>
      simp only [Bool.false_eq_true, if_false] at hc
      simp only
      rw [Prod.ext_iff] at hc
      have hc2 := hc.2
      simp only at hc2
      generalize hX : (if ¬mp = true then
          (Except.ok (enumLoop (fun elem_test row => enumLoop (fun elem_trial _ => bil elem_trial elem_test) trials 0 row)
            tests 0 (zerosMat tests.length trials.length)) : Except String (Mat V))
        else
          (poolMap (fun _ j => SLRest.MP_SL_matrix_col bil ti tests trials j) trials.length
            ⟨cpu, trials.length / (16 * cpu) + 1, assign, order⟩).map fun cols =>
              colLoop cols 0 (zerosMat tests.length trials.length)) = X at hc2 ⊢
      cases X with
      | error e => simp only at hc2 ⊢; rw [← hc2]
      | ok m => simp only at hc2 ⊢; rw [← hc2]

omit [DecidableEq Hh] in
/-- the two defaults: `elems_test=None` is the list of leaves, `elems_trial=None` is the TEST list -/
theorem gen_bilform_matrix_defaults (bil : E → E → V) (ti : E → Rat × Rat) (leaves : List E) (c : Bool) (strg : List Char)
    (repr : E → List Char) (qo : Nat) (pw : Bool) (md5 : List Char → Hh) [DecidableEq Hh] (cpu : Nat) (assign : Nat → Nat)
    (order : List Nat) (sv : SaveOutcome) (d : Dir (List Char × Nat × Nat × Hh) (Mat V)) (tests : List E) (mp : Bool) :
    SLRest.bilform_matrix bil ti leaves c strg repr qo pw md5 cpu assign order sv d none none mp =
      SLRest.bilform_matrix bil ti leaves c strg repr qo pw md5 cpu assign order sv d (some leaves) (some leaves) mp ∧
    SLRest.bilform_matrix bil ti leaves c strg repr qo pw md5 cpu assign order sv d (some tests) none mp =
      SLRest.bilform_matrix bil ti leaves c strg repr qo pw md5 cpu assign order sv d (some tests) (some tests) mp :=
  ⟨rfl, rfl⟩

omit [DecidableEq Hh] in
/-- C17 / C04 for the generated method (no cache directory): whatever `use_mp`, the size relative to the threshold, the
number of CPUs (≥ 1), the assignment of chunks to workers and their completion order are, `bilform_matrix` returns the
table of single calls `bilform(trial_j, test_i)`, rows = test — provided `bilform` is `0` on the pairs the worker skips -/
theorem gen_bilform_matrix_pure (bil : E → E → V) (ti : E → Rat × Rat) (hc : (leafOf bil ti).Causal) (leaves : List E)
    (strg : List Char) (repr : E → List Char) (qo : Nat) (pw : Bool) (md5 : List Char → Hh) [DecidableEq Hh] (cpu : Nat)
    (hcpu : cpu ≠ 0) (assign : Nat → Nat) (order : List Nat) (sv : SaveOutcome)
    (d : Dir (List Char × Nat × Nat × Hh) (Mat V)) (tests trials : List E) (mp : Bool)
    (hp : order.Perm (List.range (numChunks (codeChunk 16 cpu trials.length) trials.length))) :
    SLRest.bilform_matrix bil ti leaves false strg repr qo pw md5 cpu assign order sv d (some tests) (some trials) mp =
      (d, .ok (pureMat (leafOf bil ti) tests trials)) := by
  rw [gen_bilform_matrix_nocache]
  congr 1
  exact bilform_matrix_pure _ hc tests trials _ (fun _ => code_schedule_valid 16 cpu _ hcpu assign order hp)

end assembly

/-- the concrete leaf: the generated `bilform` (errors as values) with the elements' time intervals is causal in the sense
of the assembly model — what `gen_bilform_matrix_pure` asks for -/
theorem gen_leaf_causal (L : Rat) (glue : Bool) (S : Fns) (log : Rule1) (gs : List Piece) (pw : Bool) :
    ∀ tr te : Elem, acausalOf (fun e : Elem => (e.t0, e.t1)) tr te = true →
      Panels.bilform L glue S log gs pw tr te = .ok 0 := by
  intro tr te h
  simp only [acausalOf, decide_eq_true_eq] at h
  exact gen_bilform_acausal L glue S log gs pw tr te h

end Stbem.SLRestTie
