import Stbem.Props.C14
import Stbem.Lemmas.Slobo14IntegralSq

/-!
# C14 (supplement) — for polynomials the H^{1/4} routine IS the integral of the definition

`semi14 g f a h` models `seminorm_h_1_4(f, a, a + h) / √h` (`src/norms.py`, `Slobodeckij.seminorm_h_1_4`) for the base rule
`g` of the weight `x^{-1/2}` on `(0, 1)`.  For a polynomial `f = Σ cₖ xᵏ`, `t = a + h x`, `s = a + h x (1 - y)`:
`f t - f s = (h x y) · D(t, s)` with the divided-difference polynomial `D = ddR cs`, so the summand of the routine is the
polynomial `P(x, y) = 2 y (h x)² D(t, s)²` and

* `semi14_eq_integral_ref`: for every rule with the moments `2/(2k+1)`, `k ≤ N`, every polynomial with `2 deg ≤ N`, all
  `a h : ℚ` (any sign), the routine returns `∫₀¹ ∫₀¹ P(x, y) x^{-1/2} y^{-1/2} dy dx` (Mathlib interval integrals, real powers);
* `semi14_eq_integral_triangle` (`0 < h`): this is `h^{-1/2} · 2 ∫_a^{a+h} ∫_a^t (f t - f s)² / (t - s)^{3/2} ds dt`, the
  Slobodeckij integrand of the definition over the triangle `a ≤ s ≤ t ≤ a + h` (two affine substitutions; no integrability
  side condition is needed for them, and the triangle integrand is `(t - s)^{1/2} D(t, s)²`, continuous: `kernel14_eq`);
* `semi14_eq_integral_square` / `semi14_exact` (`0 < h`): by symmetry of the kernel and Fubini on the triangle (Mathlib
  `intervalIntegral_intervalIntegral_swap`; the kernel `(f t - f s)² / |t - s|^{3/2}` equals the CONTINUOUS function
  `|t - s|^{1/2} D(t, s)²` everywhere, `kernel14_everywhere`) this is `h^{-1/2}` times the Slobodeckij double integral
  `∫_a^{a+h} ∫_a^{a+h} |f t - f s|² / |t - s|^{3/2} ds dt` of the definition: `√h · semi14 = |f|²_{H^{1/4}(a, a+h)}`, the statement
  `semi14_exact` announced as not formalised in the header of `Props/C14.lean`.  `semi14_exact_value` restates
  `semi14_exact_partial` with the value identified.

Nothing of the H^{1/4} statement for polynomial data remains trusted calculus (the moments `2/(2k+1)` of the rule are the
integrals `∫₀¹ xᵏ x^{-1/2} dx`: `sqrtinv_weight_moment`).  Binary64 rounding and the accuracy of the actual Gauss–Jacobi base
rule of `src/quadrature.py` (whose nodes are irrational) are outside the model, as before.
-/
namespace Stbem.C14
open Stbem.Quad intervalIntegral

/-- **H^{1/4}, weighted reference-square form.**  `P(x, y) = 2 y (h x)² D(a + h x, a + h x (1 - y))²`. -/
theorem semi14_eq_integral_ref (cs : List Rat) (a h : Rat) (deg : Nat) (hlen : cs.length ≤ deg + 1)
    (g : Rule1) (N : Nat) (hN : 2 * deg ≤ N) (hm : ∀ k, k ≤ N → mom g k = 2 / (2 * (k : Rat) + 1)) :
    ((semi14 g (evalPoly cs) a h : Rat) : ℝ) =
      ∫ x in (0 : ℝ)..1, ∫ y in (0 : ℝ)..1,
        (2 * (y * ((h : ℝ) * x) ^ 2 * ddR cs ((a : ℝ) + h * x) ((a : ℝ) + h * (x * (1 - y))) ^ 2)) *
          x ^ (-(1 / 2) : ℝ) * y ^ (-(1 / 2) : ℝ) :=
  semi14_eq_wI14 cs a h deg hlen g N hN hm

/-- **H^{1/4}, triangle form of the definition** (`0 < h`): the routine (which is `seminorm_h_1_4 / √h`) returns
`h^{-1/2}` times twice the integral of `(f t - f s)² / (t - s)^{3/2}` over the triangle `a ≤ s ≤ t ≤ a + h`. -/
theorem semi14_eq_integral_triangle (cs : List Rat) (a h : Rat) (hh : 0 < h) (deg : Nat) (hlen : cs.length ≤ deg + 1)
    (g : Rule1) (N : Nat) (hN : 2 * deg ≤ N) (hm : ∀ k, k ≤ N → mom g k = 2 / (2 * (k : Rat) + 1)) :
    ((semi14 g (evalPoly cs) a h : Rat) : ℝ) =
      (h : ℝ) ^ (-(1 / 2) : ℝ) * (2 * ∫ t in (a : ℝ)..(a : ℝ) + h, ∫ s in (a : ℝ)..t,
        (evalPolyR cs t - evalPolyR cs s) ^ 2 / (t - s) ^ ((3 : ℝ) / 2)) := by
  rw [semi14_eq_wI14 cs a h deg hlen g N hN hm, wI14_eq_triangle cs a h (by exact_mod_cast hh)]

/-- the same with the factor `√h` of the Python routine on the left: `√h · semi14 = 2 ∫_a^{a+h} ∫_a^t …` -/
theorem semi14_sqrt_mul_eq_triangle (cs : List Rat) (a h : Rat) (hh : 0 < h) (deg : Nat) (hlen : cs.length ≤ deg + 1)
    (g : Rule1) (N : Nat) (hN : 2 * deg ≤ N) (hm : ∀ k, k ≤ N → mom g k = 2 / (2 * (k : Rat) + 1)) :
    Real.sqrt (h : ℝ) * ((semi14 g (evalPoly cs) a h : Rat) : ℝ) =
      2 * ∫ t in (a : ℝ)..(a : ℝ) + h, ∫ s in (a : ℝ)..t,
        (evalPolyR cs t - evalPolyR cs s) ^ 2 / (t - s) ^ ((3 : ℝ) / 2) := by
  have hh' : (0 : ℝ) < (h : ℝ) := by exact_mod_cast hh
  rw [semi14_eq_integral_triangle cs a h hh deg hlen g N hN hm, ← mul_assoc, Real.sqrt_eq_rpow,
    ← Real.rpow_add hh']
  norm_num

/-- on the triangle the integrand of the definition is the continuous function `(t - s)^{1/2} D(t, s)²` -/
theorem kernel14_polynomial_form (cs : List Rat) {t s : ℝ} (hst : s ≤ t) :
    (evalPolyR cs t - evalPolyR cs s) ^ 2 / (t - s) ^ ((3 : ℝ) / 2) = (t - s) ^ ((1 : ℝ) / 2) * ddR cs t s ^ 2 :=
  kernel14_eq cs (sub_nonneg.mpr hst)

/-- everywhere (diagonal included, where both sides are `0`) the integrand of the definition is the continuous function
`|t - s|^{1/2} D(t, s)²` -/
theorem kernel14_everywhere (cs : List Rat) (t s : ℝ) :
    (evalPolyR cs t - evalPolyR cs s) ^ 2 / |t - s| ^ ((3 : ℝ) / 2) = |t - s| ^ ((1 : ℝ) / 2) * ddR cs t s ^ 2 :=
  kernel14_abs_eq cs t s

/-- the integrand of the definition is interval integrable in the inner variable on every interval (it is a continuous
function), so the double integrals below are genuine integrals, not the default value `0` of a divergent one -/
theorem kernel14_intervalIntegrable (cs : List Rat) (t a b : ℝ) :
    IntervalIntegrable (fun s => (evalPolyR cs t - evalPolyR cs s) ^ 2 / |t - s| ^ ((3 : ℝ) / 2)) MeasureTheory.volume a b := by
  have e : (fun s => (evalPolyR cs t - evalPolyR cs s) ^ 2 / |t - s| ^ ((3 : ℝ) / 2)) =
      fun s => |t - s| ^ ((1 : ℝ) / 2) * ddR cs t s ^ 2 := funext (kernel14_abs_eq cs t)
  rw [e]
  exact ((kernel14_continuous cs).comp (Continuous.prodMk_right t)).intervalIntegrable _ _

/-- … and so is the outer integrand `t ↦ ∫_a^b (f t - f s)² / |t - s|^{3/2} ds` (continuous in `t`) -/
theorem kernel14_outer_intervalIntegrable (cs : List Rat) (a b c d : ℝ) :
    IntervalIntegrable (fun t => ∫ s in a..b, (evalPolyR cs t - evalPolyR cs s) ^ 2 / |t - s| ^ ((3 : ℝ) / 2))
      MeasureTheory.volume c d := by
  have e : (fun t => ∫ s in a..b, (evalPolyR cs t - evalPolyR cs s) ^ 2 / |t - s| ^ ((3 : ℝ) / 2)) =
      fun t => ∫ s in a..b, |t - s| ^ ((1 : ℝ) / 2) * ddR cs t s ^ 2 := by
    funext t; congr 1; funext s; exact kernel14_abs_eq cs t s
  rw [e]
  exact (continuous_parametric_intervalIntegral_of_continuous' (kernel14_continuous cs) a b).intervalIntegrable _ _

/-- **H^{1/4}, the double integral of the definition** (`0 < h`): the routine returns `h^{-1/2}` times the Slobodeckij
double integral of `f` over the square `[a, a + h]²` -/
theorem semi14_eq_integral_square (cs : List Rat) (a h : Rat) (hh : 0 < h) (deg : Nat) (hlen : cs.length ≤ deg + 1)
    (g : Rule1) (N : Nat) (hN : 2 * deg ≤ N) (hm : ∀ k, k ≤ N → mom g k = 2 / (2 * (k : Rat) + 1)) :
    ((semi14 g (evalPoly cs) a h : Rat) : ℝ) =
      (h : ℝ) ^ (-(1 / 2) : ℝ) * ∫ t in (a : ℝ)..(a : ℝ) + h, ∫ s in (a : ℝ)..(a : ℝ) + h,
        (evalPolyR cs t - evalPolyR cs s) ^ 2 / |t - s| ^ ((3 : ℝ) / 2) := by
  have hh' : (0 : ℝ) < (h : ℝ) := by exact_mod_cast hh
  rw [semi14_eq_integral_triangle cs a h hh deg hlen g N hN hm, tri14_eq_square cs (by linarith)]

/-- **C14, H^{1/4}: exactness on polynomials, full statement** (closes the gap of `semi14_exact_partial`; the statement
`semi14_exact` of the header of `Props/C14.lean`).  For every polynomial `f = Σ cₖ xᵏ` of degree `≤ deg`, every interval
`[a, a + h]`, `0 < h`, and every base rule with the moments `2/(2k+1)` of the weight `x^{-1/2}` for `k ≤ N`, `2 deg ≤ N`:
`seminorm_h_1_4(f, a, a + h) = √h · semi14` is the Slobodeckij double integral of the definition. -/
theorem semi14_exact (cs : List Rat) (a h : Rat) (hh : 0 < h) (deg : Nat) (hlen : cs.length ≤ deg + 1)
    (g : Rule1) (N : Nat) (hN : 2 * deg ≤ N) (hm : ∀ k, k ≤ N → mom g k = 2 / (2 * (k : Rat) + 1)) :
    Real.sqrt (h : ℝ) * ((semi14 g (evalPoly cs) a h : Rat) : ℝ) =
      ∫ x in (a : ℝ)..(a : ℝ) + h, ∫ y in (a : ℝ)..(a : ℝ) + h,
        (evalPolyR cs x - evalPolyR cs y) ^ 2 / |x - y| ^ ((3 : ℝ) / 2) := by
  have hh' : (0 : ℝ) < (h : ℝ) := by exact_mod_cast hh
  rw [semi14_sqrt_mul_eq_triangle cs a h hh deg hlen g N hN hm, tri14_eq_square cs (by linarith)]

/-- the value `v` of `semi14_exact_partial` is this integral: every admissible rule returns `v`, and
`v = h^{-1/2} ∫∫ (f x - f y)² / |x - y|^{3/2}` -/
theorem semi14_exact_value (cs : List Rat) (a h : Rat) (hh : 0 < h) (deg : Nat) (hlen : cs.length ≤ deg + 1) :
    ∃ v : Rat, ∀ (g : Rule1) (N : Nat), 2 * deg ≤ N → (∀ k, k ≤ N → mom g k = 2 / (2 * (k : Rat) + 1)) →
      semi14 g (evalPoly cs) a h = v ∧
      ((v : Rat) : ℝ) = (h : ℝ) ^ (-(1 / 2) : ℝ) * ∫ x in (a : ℝ)..(a : ℝ) + h, ∫ y in (a : ℝ)..(a : ℝ) + h,
        (evalPolyR cs x - evalPolyR cs y) ^ 2 / |x - y| ^ ((3 : ℝ) / 2) := by
  obtain ⟨v, hv⟩ := semi14_exact_partial cs a h deg hlen
  refine ⟨v, fun g N hN hm => ⟨hv g N hN hm, ?_⟩⟩
  rw [← hv g N hN hm]
  exact semi14_eq_integral_square cs a h hh deg hlen g N hN hm

/-! ## non-vacuity -/

/-- the one-node rule `[(1/3, 2)]` has the moments `2`, `2/3` of the weight `x^{-1/2}` (`N = 1`) -/
def gS1 : Rule1 := [⟨1 / 3, 2⟩]

theorem gS1_moments : ∀ k, k ≤ 1 → mom gS1 k = 2 / (2 * (k : Rat) + 1) := by
  intro k hk
  interval_cases k <;> norm_num [mom, apply1, gS1, sumR]

/-- hypotheses of `semi14_eq_integral_ref` hold for the one-node rule and a constant (`deg = 0`, `N = 1`) … -/
example : ((semi14 gS1 (evalPoly [7]) 2 (-3) : Rat) : ℝ) =
    ∫ x in (0 : ℝ)..1, ∫ y in (0 : ℝ)..1,
      (2 * (y * (((-3 : Rat) : ℝ) * x) ^ 2 * ddR [7] (((2 : Rat) : ℝ) + ((-3 : Rat) : ℝ) * x)
        (((2 : Rat) : ℝ) + ((-3 : Rat) : ℝ) * (x * (1 - y))) ^ 2)) * x ^ (-(1 / 2) : ℝ) * y ^ (-(1 / 2) : ℝ) :=
  semi14_eq_integral_ref [7] 2 (-3) 0 (by simp) gS1 1 (by norm_num) gS1_moments

/-- … and for the three-node rule `gS` (`N = 2`) and `f(x) = 1 + 3x` on `[2, 6]` (`deg = 1`) -/
example : ((semi14 gS (evalPoly [1, 3]) 2 4 : Rat) : ℝ) =
    (((4 : Rat) : ℝ)) ^ (-(1 / 2) : ℝ) * (2 * ∫ t in ((2 : Rat) : ℝ)..((2 : Rat) : ℝ) + ((4 : Rat) : ℝ),
      ∫ s in ((2 : Rat) : ℝ)..t, (evalPolyR [1, 3] t - evalPolyR [1, 3] s) ^ 2 / (t - s) ^ ((3 : ℝ) / 2)) :=
  semi14_eq_integral_triangle [1, 3] 2 4 (by norm_num) 1 (by simp) gS 2 (by norm_num) gS_moments

/-- `f(x) = x` on `[0, 1]`: `2 ∫₀¹ ∫₀^t (t - s)² / (t - s)^{3/2} ds dt = 8/15`, the value the routine returns -/
example : (2 * ∫ t in (0 : ℝ)..1, ∫ s in (0 : ℝ)..t,
    (evalPolyR [0, 1] t - evalPolyR [0, 1] s) ^ 2 / (t - s) ^ ((3 : ℝ) / 2)) = 8 / 15 := by
  have h := semi14_sqrt_mul_eq_triangle [0, 1] 0 1 (by norm_num) 1 (by simp) gS 2 (by norm_num) gS_moments
  have v : semi14 gS (evalPoly [0, 1]) 0 1 = 8 / 15 := by decide +kernel
  rw [v] at h
  push_cast at h
  simp only [Real.sqrt_one, one_mul, zero_add] at h
  exact h.symm

/-- hypotheses of `semi14_exact` hold for `gS` (`N = 2`) and `f(x) = 5 - 2x` on `[3, 3 + 1/4]` -/
example : Real.sqrt (((1 / 4 : Rat) : ℝ)) * ((semi14 gS (evalPoly [5, -2]) 3 (1 / 4) : Rat) : ℝ) =
    ∫ x in ((3 : Rat) : ℝ)..((3 : Rat) : ℝ) + ((1 / 4 : Rat) : ℝ), ∫ y in ((3 : Rat) : ℝ)..((3 : Rat) : ℝ) + ((1 / 4 : Rat) : ℝ),
      (evalPolyR [5, -2] x - evalPolyR [5, -2] y) ^ 2 / |x - y| ^ ((3 : ℝ) / 2) :=
  semi14_exact [5, -2] 3 (1 / 4) (by norm_num) 1 (by simp) gS 2 (by norm_num) gS_moments

/-- `f(x) = x` on `[0, 1]`: the Slobodeckij double integral `∫₀¹ ∫₀¹ |x - y|² / |x - y|^{3/2} dy dx` is `8/15` -/
example : (∫ x in (0 : ℝ)..1, ∫ y in (0 : ℝ)..1,
    (evalPolyR [0, 1] x - evalPolyR [0, 1] y) ^ 2 / |x - y| ^ ((3 : ℝ) / 2)) = 8 / 15 := by
  have h := semi14_exact [0, 1] 0 1 (by norm_num) 1 (by simp) gS 2 (by norm_num) gS_moments
  have v : semi14 gS (evalPoly [0, 1]) 0 1 = 8 / 15 := by decide +kernel
  rw [v] at h
  push_cast at h
  simp only [Real.sqrt_one, one_mul, zero_add] at h
  exact h.symm

end Stbem.C14
