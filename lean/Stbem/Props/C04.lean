import Stbem.Model.SingleLayer
namespace Stbem.SL
theorem placeholder_C04 : True := trivial
end Stbem.SL
