import Stbem.Props.SL
import Stbem.Props.Formulas
import Stbem.Props.C15

/-!
# C04 — Causality: Volterra structure and sign

acausal ⇒ the literal 0 on every path (guard of bilform, and independently the generated kernels sl_dtk / fint_k / stik_k / sl_tik / steval_k vanish for every choice of special functions), matrix = table of single calls with rows = test, hence block lower triangular; the four-term kernel is built from a primitive F with F' = g, g' = -G (so that, G ≥ 0, the exact entry is a non-negative double integral). Positivity in binary64 is search-only.

The theorems are proved in `Stbem.Props.SL` (model `Stbem.Model.SingleLayer`, tied to `src/single_layer.py` by exact
execution of the real code), `Stbem.Props.Formulas` (terms regenerated from the Python source on every run) and
`Stbem.Props.C15`; this file lists, as aliases, the ones that carry property C04.
-/
namespace Stbem.C04

alias bilform_acausal := Stbem.SL.bilform_acausal
alias bilform_kernel_acausal := Stbem.SL.bilform_kernel_acausal
alias fint_acausal := Stbem.SL.fint_acausal
alias stik_acausal_zero := Stbem.SL.stik_acausal_zero
alias bilformMatrix_table := Stbem.SL.bilformMatrix_table
alias bilformMatrix_lower := Stbem.SL.bilformMatrix_lower
alias evalPlan_zero := Stbem.SL.evalPlan_zero
alias eval_acausal := Stbem.SL.eval_acausal
alias dtk_structure := Stbem.Formulas.R.dtk_structure
alias dtk_four_term := Stbem.Formulas.R.dtk_four_term
alias dtk_acausal_zero := Stbem.Formulas.R.dtk_acausal_zero
alias g_zero := Stbem.Formulas.R.g_zero
alias f_zero := Stbem.Formulas.R.f_zero
alias tik_zero := Stbem.Formulas.R.tik_zero
alias fint_1_zero := Stbem.Formulas.R.fint_1_zero
alias fint_2_zero := Stbem.Formulas.R.fint_2_zero
alias fint_3_zero := Stbem.Formulas.R.fint_3_zero
alias fint_4_zero := Stbem.Formulas.R.fint_4_zero
alias stik_1_acausal_zero := Stbem.Formulas.R.stik_1_acausal_zero
alias stik_2_acausal_zero := Stbem.Formulas.R.stik_2_acausal_zero
alias stik_3_acausal_zero := Stbem.Formulas.R.stik_3_acausal_zero
alias stik_4_acausal_zero := Stbem.Formulas.R.stik_4_acausal_zero
alias steval_1_zero := Stbem.Formulas.R.steval_1_zero
alias steval_2_zero := Stbem.Formulas.R.steval_2_zero
alias Fp_deriv := Stbem.Formulas.R.Fp_deriv
alias ei_deriv := Stbem.Formulas.R.ei_deriv
alias g_deriv := Stbem.Formulas.R.g_deriv
alias f_deriv := Stbem.Formulas.R.f_deriv

end Stbem.C04
