import Stbem.Props.SL
import Stbem.Props.Formulas
import Stbem.Props.C15
import Stbem.Props.C04Sign

/-!
# C04 — Causality: Volterra structure and sign

acausal ⇒ the literal 0 on every path (guard of bilform, and independently the generated kernels sl_dtk / fint_k / stik_k / sl_tik / steval_k vanish for every choice of special functions), matrix = table of single calls with rows = test, hence block lower triangular; the four-term kernel is built from a primitive F with F' = g, g' = -G (so that, G ≥ 0, the exact entry is a non-negative double integral). The sign part is proved in `Stbem.Props.C04Sign`: with the laws `exp = Real.exp`, `Ei' x = eˣ/x` (x<0), `Ei → 0` at `-∞`, `fpiInv > 0` the generated terms `sl_tik`, `sl_dtk` (guards included) are the single / double time integral of the causal heat kernel (`tik_eq_integral`, `dtk_eq_integral`), `≥ 0`, and `> 0` iff the observation time / test interval ends later than the trial interval begins; the quadrature sums of the model (`bilform` quadrature path, `evaluate`, `potential`) are `≥ 0` for rules with weights `≥ 0` and interior nodes, over `ℚ` for every record with non-negative kernels and over `ℝ` with the true functions (there `> 0` for causal pairs). Positivity in binary64 and the sign of the closed-form (`pw_exact`, `erf`) path are search-only.

The theorems are proved in `Stbem.Props.SL` (model `Stbem.Model.SingleLayer`, tied to `src/single_layer.py` by exact
execution of the real code), `Stbem.Props.Formulas` (terms regenerated from the Python source on every run) and
`Stbem.Props.C15`; this file lists, as aliases, the ones that carry property C04.
-/
namespace Stbem.C04

alias bilform_acausal := Stbem.SL.bilform_acausal
alias bilform_kernel_acausal := Stbem.SL.bilform_kernel_acausal
alias fint_acausal := Stbem.SL.fint_acausal
alias stik_acausal_zero := Stbem.SL.stik_acausal_zero
alias bilformMatrix_table := Stbem.SL.bilformMatrix_table
alias bilformMatrix_lower := Stbem.SL.bilformMatrix_lower
alias evalPlan_zero := Stbem.SL.evalPlan_zero
alias eval_acausal := Stbem.SL.eval_acausal
alias dtk_structure := Stbem.Formulas.R.dtk_structure
alias dtk_four_term := Stbem.Formulas.R.dtk_four_term
alias dtk_acausal_zero := Stbem.Formulas.R.dtk_acausal_zero
alias g_zero := Stbem.Formulas.R.g_zero
alias f_zero := Stbem.Formulas.R.f_zero
alias tik_zero := Stbem.Formulas.R.tik_zero
alias fint_1_zero := Stbem.Formulas.R.fint_1_zero
alias fint_2_zero := Stbem.Formulas.R.fint_2_zero
alias fint_3_zero := Stbem.Formulas.R.fint_3_zero
alias fint_4_zero := Stbem.Formulas.R.fint_4_zero
alias stik_1_acausal_zero := Stbem.Formulas.R.stik_1_acausal_zero
alias stik_2_acausal_zero := Stbem.Formulas.R.stik_2_acausal_zero
alias stik_3_acausal_zero := Stbem.Formulas.R.stik_3_acausal_zero
alias stik_4_acausal_zero := Stbem.Formulas.R.stik_4_acausal_zero
alias steval_1_zero := Stbem.Formulas.R.steval_1_zero
alias steval_2_zero := Stbem.Formulas.R.steval_2_zero
alias Fp_deriv := Stbem.Formulas.R.Fp_deriv
alias ei_deriv := Stbem.Formulas.R.ei_deriv
alias g_deriv := Stbem.Formulas.R.g_deriv
alias f_deriv := Stbem.Formulas.R.f_deriv

alias ei_neg := Stbem.C04Sign.ei_neg
alias ei_strictAnti := Stbem.C04Sign.ei_strictAnti
alias tik_nonneg := Stbem.C04Sign.tik_nonneg
alias tik_pos := Stbem.C04Sign.tik_pos
alias tik_pos_iff := Stbem.C04Sign.tik_pos_iff
alias dtk_nonneg := Stbem.C04Sign.dtk_nonneg
alias dtk_pos := Stbem.C04Sign.dtk_pos
alias dtk_pos_iff := Stbem.C04Sign.dtk_pos_iff
alias tik_eq_integral := Stbem.C04Sign.tik_eq_integral
alias dtk_eq_integral_tik := Stbem.C04Sign.dtk_eq_integral_tik
alias dtk_eq_integral := Stbem.C04Sign.dtk_eq_integral
alias F_ext_hasDerivAt := Stbem.C04Sign.F_ext_hasDerivAt
alias g_ext_hasDerivAt := Stbem.C04Sign.g_ext_hasDerivAt
alias mirror1_pos := Stbem.C04Sign.mirror1_pos
alias product2_pos := Stbem.C04Sign.product2_pos
alias duffy2_pos := Stbem.C04Sign.duffy2_pos
alias mirror2_pos := Stbem.C04Sign.mirror2_pos
alias panel_rules_pos := Stbem.C04Sign.panel_rules_pos
alias panel_nodes_interior_offdiag := Stbem.C04Sign.panel_nodes_interior_offdiag
alias bilform_quad_nonneg := Stbem.C04Sign.bilform_quad_nonneg
alias bilform_quad_nonneg_all := Stbem.C04Sign.bilform_quad_nonneg_all
alias evaluate_nonneg := Stbem.C04Sign.evaluate_nonneg
alias potential_nonneg := Stbem.C04Sign.potential_nonneg
alias kernels_cast := Stbem.C04Sign.kernels_cast
alias bilformQuadR_is_model := Stbem.C04Sign.bilformQuadR_is_model
alias bilformQuadR_succeeds_iff := Stbem.C04Sign.bilformQuadR_succeeds_iff
alias evaluateR_is_model := Stbem.C04Sign.evaluateR_is_model
alias potentialR_is_model := Stbem.C04Sign.potentialR_is_model
alias bilform_quad_real_nonneg := Stbem.C04Sign.bilform_quad_real_nonneg
alias bilform_quad_real_pos := Stbem.C04Sign.bilform_quad_real_pos
alias evaluate_real_nonneg := Stbem.C04Sign.evaluate_real_nonneg
alias evaluate_real_pos := Stbem.C04Sign.evaluate_real_pos
alias potential_real_nonneg := Stbem.C04Sign.potential_real_nonneg
alias potential_real_pos := Stbem.C04Sign.potential_real_pos

end Stbem.C04
