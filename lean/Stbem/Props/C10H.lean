import Stbem.Lemmas.HalfEdgeInitInv
import Stbem.Lemmas.HalfEdgeSim

/-!
# C10H — the half-edge pointer structure of `src/mesh.py` computes the geometric neighbour relation

H-layer: `Stbem.Model.HalfEdge` is an arena translation of `Vertex` / `Edge` / `Element` / `Mesh`
(`__init__`, `Edge.bisect`, `Edge.neighbour_elements`, `__bisect_edge`, `__create_edges`, `refine_axis`,
`refine`), `HMesh.abs` maps it to the A-layer mesh of C02/C10.

The pointer invariant `HInv h` (`Stbem/Lemmas/HalfEdgeInv.lean`): handles in range, every edge of a leaf is
owned by it and unrefined, the four edges of a leaf run around its rectangle, `on_boundary`/`glued` say where
the side lies, and for every side of every leaf exactly one of the cases (a)–(d) of
`Edge.neighbour_elements()` holds with the neighbour edges being the same segment with opposite orientation.

`HVerts h`: every vertex is a corner of a leaf (needed for the vertex reuse of `__bisect_edge`).
`HAll h` = `HInv h ∧ HVerts h ∧ Inv (abs h)`.

Proved here:
* `init_hinv`, `init_hall`    : `Mesh.__init__` succeeds, `HInv`/`HAll` hold, `abs (init …) = Stbem.Mesh.init …`;
* `hinv_cases_exclusive`      : the four cases exclude each other;
* `neighbourElements_eq_nbrs` : under `HInv h` and `Inv (abs h)`, `Edge.neighbour_elements()` of side `s` of a
  leaf never asserts and returns exactly `nbrs (abs h) c s` (the geometric neighbours of the A-layer), same order;
* `neighbourElements_fuel`    : the recursion of `neighbour_elements` through `parent` returns after one step;
* `bisect_preserves`, `bisect_commutes` : one legal bisection (the part of `refine_axis` after the conformity loop)
  runs without raising, preserves `HInv` / `HVerts` and commutes with `abs` (`= Stbem.Mesh.bisect`);
* `refinement_theorem`        : THE REFINEMENT THEOREM — `refine_axis` with its recursive conformity closure on a
  leaf (fuel > level) never raises, preserves `HAll`, and
  `Stbem.Mesh.refineAxis fuel (abs h) id ax = .ok (abs h')` for the result `h'` of the H-layer;
* `refineId_commutes`         : the same for the entry point used by the drivers (`hm rt/rs` vs `mesh rt/rs`);
* `refineBoth_commutes`       : `Mesh.refine` (`rb`);
* `history_commutes`          : every history of `rt`/`rs` operations on leaves from `Mesh.__init__`.
-/
namespace Stbem.HalfEdge
open Stbem.Mesh (Ax Side Cell Mesh Inv nbrs bisect)

/-- `Mesh.__init__(glue, X, T)` on strictly increasing grids: no exception, the pointer invariant holds and the
abstraction is the initial mesh of the A-layer -/
theorem init_hinv (glue : Bool) (X T : List Rat) (hX : X.Pairwise (· < ·)) (hT : T.Pairwise (· < ·))
    (hX2 : 2 ≤ X.length) :
    ∃ h, init glue X T = .ok h ∧ HInv h ∧ h.abs = Stbem.Mesh.init glue X T :=
  init_spec glue hX hT hX2

/-- the invariants of both layers for the initial mesh -/
theorem init_inv_both (glue : Bool) (X T : List Rat) (hX : X.Pairwise (· < ·)) (hT : T.Pairwise (· < ·))
    (hX2 : 2 ≤ X.length) (hT2 : 2 ≤ T.length) :
    ∃ h, init glue X T = .ok h ∧ HInv h ∧ Inv h.abs := by
  obtain ⟨h, e, hi, ha⟩ := init_spec glue hX hT hX2
  exact ⟨h, e, hi, by rw [ha]; exact Stbem.Mesh.init_inv' glue X T hX hT hX2 hT2⟩

theorem hinv_cases_exclusive (h : HMesh) (e : Nat) (s : Side) :
    ¬ (CaseA h e s ∧ CaseB h e s) ∧ ¬ (CaseA h e s ∧ CaseC h e s) ∧ ¬ (CaseA h e s ∧ CaseD h e) ∧
    ¬ (CaseB h e s ∧ CaseC h e s) ∧ ¬ (CaseB h e s ∧ CaseD h e) ∧ ¬ (CaseC h e s ∧ CaseD h e) :=
  cases_exclusive h e s

/-- `Edge.neighbour_elements()` needs no fuel beyond 2 -/
theorem neighbourElements_fuel (h : HMesh) (ei fuel : Nat) :
    neighbourElementsF (fuel + 2) h ei = h.neighbourElements ei :=
  neighbourElementsF_fuel h ei fuel

/-- the pointer lookup computes the geometric neighbour list of the A-layer: for side `s` of the leaf `el`
the call `edge.neighbour_elements()` returns (without assertion failure) leaves whose cells are
`nbrs (abs h) c s`, in the same order; in particular the `glob_idx` lists agree -/
theorem neighbourElements_eq_nbrs (h : HMesh) (hi : HInv h) (ha : Inv h.abs) (el : Nat)
    (hel : el ∈ h.leaves) (s : Side) :
    ∃ l : List Nat, h.neighbourElements ((h.elem el).side s) = .ok (l.map some) ∧
      (∀ n ∈ l, n ∈ h.leaves) ∧
      l.map h.cellOf = nbrs h.abs (h.cellOf el) s ∧
      l.map (fun n => (h.elem n).id) = (nbrs h.abs (h.cellOf el) s).map (·.id) := by
  obtain ⟨l, h1, h2, h3⟩ := neighbourElements_cells hi ha hel s
  refine ⟨l, h1, h2, h3, ?_⟩
  rw [← h3, List.map_map]
  rfl

/-- ONE LEGAL BISECTION (no closure needed): if every edge-neighbour of the leaf `el` is at least as deep in the axis
(`Legal`, the state after the conformity loop of `refine_axis`), the rest of `refine_axis` — clearing the owners,
the two `__bisect_edge` calls with vertex reuse and cross-linking, `__create_edges`, the two `Element`
constructors with all their assertions, the dictionary update — runs without raising and the pointer invariant
holds afterwards -/
theorem bisect_preserves (h : HMesh) (hi : HInv h) (ha : Inv h.abs) (el : Nat) (hel : el ∈ h.leaves) (ax : Ax)
    (hl : Legal h el ax) : ∃ h', h.bisectElem el ax = .ok h' ∧ HInv h' :=
  bisectElem_hinv hi ha hel hl

/-- the same bisection commutes with the abstraction function and keeps `HVerts` -/
theorem bisect_commutes (h : HMesh) (H : HAll h) (el : Nat) (hel : el ∈ h.leaves) (ax : Ax) (hl : Legal h el ax) :
    ∃ h', h.bisectElem el ax = .ok h' ∧ HInv h' ∧ HVerts h' ∧ h'.abs = bisect h.abs (h.cellOf el) ax :=
  ⟨res h el ax, Ctx.run ⟨H.hinv, H.inv, hel, hl⟩, Ctx.hinv_res ⟨H.hinv, H.inv, hel, hl⟩,
    Ctx.hverts_res ⟨H.hinv, H.inv, hel, hl⟩ H.verts, Ctx.abs_res ⟨H.hinv, H.inv, hel, hl⟩ H.verts⟩

/-- `Mesh.__init__` establishes the full invariant -/
theorem init_hall (glue : Bool) (X T : List Rat) (hX : X.Pairwise (· < ·)) (hT : T.Pairwise (· < ·))
    (hX2 : 2 ≤ X.length) (hT2 : 2 ≤ T.length) :
    ∃ h, init glue X T = .ok h ∧ HAll h ∧ h.abs = Stbem.Mesh.init glue X T := by
  obtain ⟨h, e, hi, ha⟩ := init_spec glue hX hT hX2
  exact ⟨h, e, ⟨hi, init_hverts glue hX hT hX2 hT2 e,
    by rw [ha]; exact Stbem.Mesh.init_inv' glue X T hX hT hX2 hT2⟩, ha⟩

/-- THE REFINEMENT THEOREM: `Mesh.refine_axis(elem, ax)` of the pointer structure — the conformity loop over the
four edges and their `neighbour_elements()`, the recursive calls on shallower neighbours, then the bisection —
called on a leaf with fuel above its level, does not raise (no assertion, no `None` access, no fuel exhaustion),
preserves the full invariant, and its abstraction is the result of the A-layer function `Stbem.Mesh.refineAxis`
on the abstraction of the input (same element, same axis, same fuel) -/
theorem refinement_theorem (h : HMesh) (H : HAll h) (el : Nat) (hel : el ∈ h.leaves) (ax : Ax) (fuel : Nat)
    (hf : (h.elem el).level ax < fuel) :
    ∃ h', refineAxis fuel h el ax = .ok h' ∧ HAll h' ∧
      Stbem.Mesh.refineAxis fuel h.abs el ax = .ok h'.abs := by
  obtain ⟨h', r, H', -, a, -, -⟩ := sim ax fuel h el H hel hf
  exact ⟨h', r, H', a⟩

/-- the entry point of the drivers (`hm rt <id>` / `mesh rt <id>`): fuel `level + 1` -/
theorem refineId_commutes (h : HMesh) (H : HAll h) (el : Nat) (hel : el ∈ h.leaves) (ax : Ax) :
    ∃ h', refineId h el ax = .ok h' ∧ HAll h' ∧ Stbem.Mesh.refineId h.abs el ax = .ok h'.abs :=
  refineId_sim H hel ax

/-- `Mesh.refine(elem)` (the driver command `hm rb`): time, then both children in space; the returned `glob_idx`
list is the same -/
theorem refineBoth_commutes (h : HMesh) (H : HAll h) (el : Nat) (hel : el ∈ h.leaves) :
    ∃ r, refineBoth h el = .ok r ∧ HAll r.1 ∧ Stbem.Mesh.refineBoth h.abs el = .ok (r.1.abs, r.2) :=
  refineBoth_sim H hel

/-- a history of single-axis refinements of leaves, executed on both layers -/
def runH (h : HMesh) : List (Nat × Ax) → Except String HMesh
  | [] => .ok h
  | (id, ax) :: ops => do let h' ← refineId h id ax; runH h' ops

def runA (m : Mesh) : List (Nat × Ax) → Except String Mesh
  | [] => .ok m
  | (id, ax) :: ops => do let m' ← Stbem.Mesh.refineId m id ax; runA m' ops

/-- whenever the A-layer executes a history successfully (i.e. every operation addresses a leaf), the H-layer
executes it without raising and ends in a state whose abstraction is the A-layer state -/
theorem history_commutes (ops : List (Nat × Ax)) : ∀ (h : HMesh) (m' : Mesh), HAll h → runA h.abs ops = .ok m' →
    ∃ h', runH h ops = .ok h' ∧ HAll h' ∧ h'.abs = m' := by
  induction ops with
  | nil => intro h m' H hr; cases hr; exact ⟨h, rfl, H, rfl⟩
  | cons op ops ih =>
    intro h m' H hr
    obtain ⟨id, ax⟩ := op
    simp only [runA] at hr
    cases h1 : Stbem.Mesh.refineId h.abs id ax with
    | error e => rw [h1] at hr; cases hr
    | ok m1 =>
      rw [h1] at hr
      simp only [bind, Except.bind] at hr
      -- the operation addresses a leaf
      obtain ⟨c, hc, hid, -⟩ := Stbem.Mesh.refineId_res_of_ok H.inv h1
      obtain ⟨hl, -⟩ := H.leaf_of_cell hc
      rw [hid] at hl
      obtain ⟨h1', r1, H1, a1⟩ := refineId_sim H hl ax
      rw [h1] at a1
      cases a1
      obtain ⟨h', r', H', a'⟩ := ih h1' m' H1 hr
      exact ⟨h', by simp only [runH, r1, bind, Except.bind]; exact r', H', a'⟩

/-! ## non-vacuity -/

theorem sinc_012 : ([0, 1, 2] : List Rat).Pairwise (· < ·) := by simp
theorem sinc_01 : ([0, 1] : List Rat).Pairwise (· < ·) := by simp

/-- a concrete glued mesh (two roots, one time slab): `init` runs, both invariants hold, and every side of
every leaf has its pointer lookup equal to the geometric neighbour list -/
example : ∃ h, init true [0, 1, 2] [0, 1] = .ok h ∧ HInv h ∧ Inv h.abs ∧ h.leaves ≠ [] ∧
    ∀ el ∈ h.leaves, ∀ s, ∃ l : List Nat, h.neighbourElements ((h.elem el).side s) = .ok (l.map some) ∧
      l.map (fun n => (h.elem n).id) = (nbrs h.abs (h.cellOf el) s).map (·.id) := by
  obtain ⟨h, e, hi, ha⟩ := init_inv_both true [0, 1, 2] [0, 1] sinc_012 sinc_01 (by simp) (by simp)
  refine ⟨h, e, hi, ha, ?_, fun el hel s => ?_⟩
  · obtain ⟨h', e', F⟩ := init_final true sinc_012 sinc_01 (by simp)
    rw [e] at e'; cases e'
    rw [F.leaves]; simp
  · obtain ⟨l, h1, -, -, h4⟩ := neighbourElements_eq_nbrs h hi ha el hel s
    exact ⟨l, h1, h4⟩

/-- `bisect_preserves` applies to every root of the example in both axes (level 0 is legal) -/
example : ∃ h, init true [0, 1, 2] [0, 1] = .ok h ∧ ∀ el ∈ h.leaves, ∀ ax, ∃ h', h.bisectElem el ax = .ok h' ∧ HInv h' := by
  obtain ⟨h, e, hi, ha⟩ := init_inv_both true [0, 1, 2] [0, 1] sinc_012 sinc_01 (by simp) (by simp)
  obtain ⟨h', e', F⟩ := init_final true sinc_012 sinc_01 (by simp)
  rw [e] at e'; cases e'
  refine ⟨h, e, fun el hel ax => bisect_preserves h hi ha el hel ax ?_⟩
  intro s n _ _
  rw [cellOf_level, F.level0 (F.mem_leaves.mp hel)]
  exact Nat.zero_le _

/-- the refinement theorem applies to every leaf reached from the example mesh: here the history of `exMesh` of C10
(refining `0`, `3`, `2`, with a forced closure bisection) -/
example : ∃ h h', init true [0, 1, 2] [0, 1] = .ok h ∧
    runH h [(0, .space), (3, .space), (2, .time)] = .ok h' ∧ HAll h' ∧
    runA h.abs [(0, .space), (3, .space), (2, .time)] = .ok h'.abs := by
  obtain ⟨h, e, H, ha⟩ := init_hall true [0, 1, 2] [0, 1] sinc_012 sinc_01 (by simp) (by simp)
  have hA : ∃ m', runA h.abs [(0, .space), (3, .space), (2, .time)] = .ok m' := by
    rw [ha]
    have : (runA (Stbem.Mesh.init true [0, 1, 2] [0, 1]) [(0, .space), (3, .space), (2, .time)]).toBool = true := by
      decide +kernel
    cases hr : runA (Stbem.Mesh.init true [0, 1, 2] [0, 1]) [(0, .space), (3, .space), (2, .time)] with
    | ok m' => exact ⟨m', rfl⟩
    | error e => rw [hr] at this; cases this
  obtain ⟨m', hm'⟩ := hA
  obtain ⟨h', r', H', a'⟩ := history_commutes _ h m' H hm'
  exact ⟨h, h', e, r', H', by rw [hm', a']⟩

/-- the executable model on the example: the neighbour ids computed through the pointers -/
def nbrIds (r : Except String HMesh) : Option (List (Nat × List (List (Option Nat)))) :=
  match r with
  | .ok h => some (h.leaves.map fun el => ((h.elem el).id, (h.elem el).edgeList.map fun ei =>
      match h.neighbourElements ei with
      | .ok l => l.map fun n => n.map fun n => (h.elem n).id
      | .error _ => []))
  | .error _ => none

/-- roots `0 = [0,1]`, `1 = [1,2]` glued; `0` split in space (`2, 3`), then `3` (forcing `1 → 4, 5`, then
`3 → 6, 7`), then `2` in time (`8`, `9`): the same table as `exMesh_nbrs` of C10 -/
theorem exH_nbrs : nbrIds (do
      let h ← init true [0, 1, 2] [0, 1]
      let h ← refineId h 0 .space
      let h ← refineId h 3 .space
      refineId h 2 .time) = some
    [(4, [[], [some 5], [], [some 7]]), (5, [[], [some 9, some 8], [], [some 4]]),
     (6, [[], [some 7], [], [some 8, some 9]]), (7, [[], [some 4], [], [some 6]]),
     (8, [[], [some 6], [some 9], [some 5]]), (9, [[some 8], [some 6], [], [some 5]])] := by
  decide +kernel

end Stbem.HalfEdge
