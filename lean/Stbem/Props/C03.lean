import Stbem.Gen.Conventions
import Stbem.Props.Formulas
import Mathlib.Algebra.BigOperators.Group.Finset.Basic
import Mathlib.Algebra.Module.LinearMap.Defs
import Mathlib.Algebra.BigOperators.GroupWithZero.Action
import Mathlib.Tactic.Ring
import Mathlib.Tactic.LinearCombination

/-!
# C03 — Galerkin orthogonality of the estimator's residual

The residual handed to the estimators is `r = sV·VΦ + sM0·M₀u₀ + sG·g`; the density solves
`M Φ = rM0·m₀ + rG·γ` with `M i j = ∫_{E_i} V 1_j`, `m₀ i = ∫_{E_i} M₀u₀`, `γ i = ∫_{E_i} g`.
The five signs and the row/column convention are *generated* from `example.py`,
`src/error_estimator.py`, `src/single_layer.py` (`Stbem.Gen.Conventions`).
-/
namespace Stbem.C03
open Stbem.Conv

/-- pure algebra: if the signs cancel, every element mean of the residual vanishes -/
theorem galerkin_orthogonality_alg {K : Type*} [CommRing K] {n : ℕ} (M : Fin n → Fin n → K)
    (Φ m0 γ : Fin n → K) (sV sM0 sG rM0 rG : K) (h1 : sV * rM0 + sM0 = 0) (h2 : sV * rG + sG = 0)
    (hsolve : ∀ i, ∑ j, M i j * Φ j = rM0 * m0 i + rG * γ i) (i : Fin n) :
    sV * ∑ j, Φ j * M i j + sM0 * m0 i + sG * γ i = 0 := by
  have : ∑ j, Φ j * M i j = rM0 * m0 i + rG * γ i := by
    rw [← hsolve i]; apply Finset.sum_congr rfl; intro j _; ring
  rw [this]
  linear_combination m0 i * h1 + γ i * h2

/-- the same for any linear "element mean" functionals `I i` on a space of functions: with
`M i j = I i (v j)`, `m₀ i = I i w`, `γ i = I i g` and `Φ` solving the assembled system, the residual
`r = sV • Σ Φ_j v_j + sM0 • w + sG • g` has `I i r = 0` for every element -/
theorem galerkin_orthogonality {K F : Type*} [CommRing K] [AddCommGroup F] [Module K F] {n : ℕ}
    (I : Fin n → F →ₗ[K] K) (v : Fin n → F) (w g : F) (Φ : Fin n → K) (sV sM0 sG rM0 rG : K)
    (h1 : sV * rM0 + sM0 = 0) (h2 : sV * rG + sG = 0)
    (hsolve : ∀ i, ∑ j, I i (v j) * Φ j = rM0 * I i w + rG * I i g) (i : Fin n) :
    I i (sV • ∑ j, Φ j • v j + sM0 • w + sG • g) = 0 := by
  simp only [map_add, map_smul, map_sum, smul_eq_mul]
  exact galerkin_orthogonality_alg (fun i j => I i (v j)) Φ (fun i => I i w) (fun i => I i g) sV sM0 sG rM0 rG h1 h2
    hsolve i

/-- **the conventions of the code are mutually consistent**: the generated signs cancel, and rows of
the matrix are indexed by the test element (so that row `i` of `M Φ = rhs` is the mean over `E_i`) -/
theorem conventions_consistent :
    resVSign * rhsM0Sign + resM0Sign = 0 ∧ resVSign * rhsGSign + resGSign = 0 ∧ matRowIsTest = true := by
  decide

/-- orthogonality with the generated conventions plugged in -/
theorem residual_mean_zero {F : Type*} [AddCommGroup F] [Module ℝ F] {n : ℕ}
    (I : Fin n → F →ₗ[ℝ] ℝ) (v : Fin n → F) (w g : F) (Φ : Fin n → ℝ)
    (hsolve : ∀ i, ∑ j, I i (v j) * Φ j = (rhsM0Sign : ℝ) * I i w + (rhsGSign : ℝ) * I i g) (i : Fin n) :
    I i ((resVSign : ℝ) • ∑ j, Φ j • v j + (resM0Sign : ℝ) • w + (resGSign : ℝ) • g) = 0 := by
  obtain ⟨c1, c2, _⟩ := conventions_consistent
  refine galerkin_orthogonality I v w g Φ _ _ _ _ _ ?_ ?_ hsolve i
  · exact_mod_cast c1
  · exact_mod_cast c2

/-! The element integrals of the Dirichlet data of `problems.py` (`g_linform_dirichlet`, `g_linform_mildsingular`) and
all other statements about the problem definitions are in `Props/C03Problems.lean`, about terms generated from the source. -/

/-! ## non-vacuity: a 1-element "mesh" with exact data -/

example : (2 : ℝ) * (3 / 2) = (-1) * (-1 : ℝ) + 1 * 2 := by norm_num

end Stbem.C03
