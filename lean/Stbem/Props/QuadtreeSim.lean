import Stbem.Lemmas.QuadtreeCoherentPres
import Stbem.Props.QuadtreeTie

/-!
# QuadtreeSim — the generated `refine` of `src/initial_mesh.py` SIMULATES the hand model's `refine`: the gap of `QuadtreeTie` closed

`Props/QuadtreeTie.lean` proves the generated `refine_msh_bdr`, `uniform_refine` and the C16 results for the generated functions
RELATIVE to `RefineSim I`.  Here `RefineSim` is proved for the invariant `CohInv g := Coherent g ∧ QInv (absMesh g)`:

* `Coherent g` (`Lemmas/QuadtreeCoherent.lean`): `nbrs` holds exactly the directed edges of all elements, `__bisect_edge` those of
  the refined elements with a vertex of the mesh at the mid point, `parent_edge` the two halves of those; vertex indices are
  positions; the vertices of the elements are vertices of the mesh; every element is `Shaped`; leaves are elements; the non-root
  elements come in groups of four.  It is decidable and evaluated by the kernel on the generated `UnitSquare()` and `LShape()`.
* `gen_refine_eq`: for EVERY coherent state whose abstraction satisfies the quadtree invariant and EVERY element `e` of it (leaf or
  not), the generated `refine(e)` (recursion through `nbrs` / `parent_edge`, four `bisect_edge` calls, registration loops, the set
  of leaves) and the hand model's `refine` give the same result -- same abstract mesh or the same error (`assert:bisected`,
  `assert:level`, `fuel`) -- and the returned state is coherent again, with the quadtree invariant.
* the five results of `QuadtreeTie` §2 without hypothesis on `refine`, for all states reachable (`GenReach`) from the generated
  `UnitSquare()` / `LShape()` by the generated `refine`, `uniform_refine`, `refine_msh_bdr`.

Proof structure (`Lemmas/QuadtreeCoherent*.lean`): `bisect_edge` evaluated (`bisect_edge_eq`), the part of `refine` after the
balance closure evaluated to an explicit state (`refineTail_eq`), the geometric reading of the three dictionaries (`nbrs_has`,
`nbrs_get`, `bis_has`, `bis_rev`, `par_get`, `par_has`: a directed edge determines the square on its left, by the uniqueness of
grid squares in the forest), `tail_abs` (the explicit state stands for `bisect`), `gen_closure_step` (one pass of the loop over
the edges is `closureStep`), induction on the fuel (`sim_succ`), `tailPres` (the explicit state is coherent).

Not covered here (unchanged trusted base, see DESIGN): the object model of the translator (identity of `Vertex` / `Element`
objects = equality of records, dictionaries as insertion lists), `math.isclose` / `eps` as exact comparison.
-/
namespace Stbem.QuadtreeTie
open Stbem.Quadtree Stbem.Gen

/-! ## 1. one call of `refine` -/

/-- the full statement announced in `QuadtreeTie`: one call of the generated `refine` on ANY element of a coherent state is one
call of the hand model's `refine` on the abstraction (same mesh or same error), and a returning call leaves a coherent state
whose abstraction satisfies the quadtree invariant -/
theorem gen_refine_eq (g : GMesh) (hI : Coherent g) (hq : QInv (absMesh g)) (e : GElem) (he : e ∈ g.elements) :
    (fun r : GMesh × List GElem => absMesh r.1) <$> QuadtreeGen.refineCall g e =
        refine (e.level + 1) (absMesh g) (absElem (nRoots g) e) ∧
      (∀ r, QuadtreeGen.refineCall g e = .ok r → Coherent r.1 ∧ QInv (absMesh r.1)) :=
  ⟨refineSim_cohInv.step g ⟨hI, hq⟩ e he, fun r hr => (refineSim_cohInv.pres g ⟨hI, hq⟩ e he r hr).1⟩

/-- `RefineSim` holds for `CohInv` (the hypothesis of the `_partial` theorems of `QuadtreeTie`) -/
theorem gen_refineSim : RefineSim CohInv := refineSim_cohInv

/-- the generated initial meshes satisfy the invariant -/
theorem cohInv_unitSquare {g : GMesh} (hg : QuadtreeGen.UnitSquare = .ok g) : CohInv g := by
  obtain ⟨g', h1, h2, -⟩ := gen_unitSquare
  rw [hg] at h1
  injection h1 with h1
  subst h1
  exact ⟨coherent_unitSquare hg, h2 ▸ unitSquare_inv⟩

theorem cohInv_lShape {g : GMesh} (hg : QuadtreeGen.LShape = .ok g) : CohInv g := by
  obtain ⟨g', h1, h2, -⟩ := gen_lShape
  rw [hg] at h1
  injection h1 with h1
  subst h1
  exact ⟨coherent_lShape hg, h2 ▸ lShape_inv⟩

/-- the hypotheses of `gen_refine_eq` are satisfiable: the generated `UnitSquare()` and its root -/
example : ∃ g e, Coherent g ∧ QInv (absMesh g) ∧ e ∈ g.elements := by
  obtain ⟨g, h1, h2, -⟩ := gen_unitSquare
  have hc := cohInv_unitSquare h1
  have : (absMesh g).elems ≠ [] := by rw [h2]; simp [unitSquare]
  cases he : g.elements with
  | nil => simp [absMesh, he] at this
  | cons e l => exact ⟨g, e, hc.1, hc.2, by simp [he]⟩

/-! ## 2. the states reachable by the generated functions -/

/-- `uniform_refine` keeps the invariant -/
theorem uniform_refine_inv {I : GMesh → Prop} (hI : RefineSim I) : ∀ (es : List GElem) (g : GMesh), I g →
    (∀ e ∈ es, e ∈ g.elements) → ∀ g', QuadtreeGen.InitialMesh_uniform_refine g es = .ok g' → I g' := by
  intro es
  unfold QuadtreeGen.InitialMesh_uniform_refine
  induction es with
  | nil => intro g hg _ g' h; cases h; exact hg
  | cons e es ih =>
    intro g hg hes g' h
    rw [List.foldlM_cons] at h
    simp only [QuadtreeGen.InitialMesh_uniform_refine_loop1] at h
    cases hr : QuadtreeGen.refineCall g e with
    | error err => rw [hr] at h; cases h
    | ok r =>
      rw [hr] at h
      obtain ⟨q1, -, q3, -, -⟩ := hI.pres g hg e (hes e (by simp)) r hr
      exact ih r.1 q1 (fun c hc => q3 c (hes c (by simp [hc]))) g' h

/-- the states that the generated code reaches from `UnitSquare()` / `LShape()`: `refine` on any element, `uniform_refine` for
any enumeration of elements, `refine_msh_bdr` for any end points, tolerance and fuel -/
inductive GenReach : GMesh → Prop
  | unit {g : GMesh} : QuadtreeGen.UnitSquare = .ok g → GenReach g
  | lshape {g : GMesh} : QuadtreeGen.LShape = .ok g → GenReach g
  | refine {g : GMesh} {e : GElem} {r : GMesh × List GElem} : GenReach g → e ∈ g.elements →
      QuadtreeGen.refineCall g e = .ok r → GenReach r.1
  | uniform {g g' : GMesh} {es : List GElem} : GenReach g → (∀ e ∈ es, e ∈ g.elements) →
      QuadtreeGen.InitialMesh_uniform_refine g es = .ok g' → GenReach g'
  | bdr {g : GMesh} {fuel : Nat} {a b : Rat × Rat} {eps : Rat} {r : GMesh × GElem} : GenReach g →
      QuadtreeGen.InitialMesh_refine_msh_bdr fuel g a b eps = .ok r → GenReach r.1

/-- every reachable state is coherent and its abstraction satisfies the quadtree invariant -/
theorem genReach_cohInv {g : GMesh} (h : GenReach g) : Coherent g ∧ QInv (absMesh g) := by
  induction h with
  | unit hg => exact cohInv_unitSquare hg
  | lshape hg => exact cohInv_lShape hg
  | refine _ he hr ih => exact (refineSim_cohInv.pres _ ih _ he _ hr).1
  | uniform _ hes hr ih => exact uniform_refine_inv refineSim_cohInv _ _ ih hes _ hr
  | bdr _ hr ih => exact gen_refine_msh_bdr_inv refineSim_cohInv _ _ ih _ _ _ _ hr

/-- a reachable state with a leaf, for the examples -/
theorem genReach_example : ∃ g e, GenReach g ∧ e ∈ g.leaf_elements ∧ absMesh g = unitSquare := by
  obtain ⟨g, h1, h2, -⟩ := gen_unitSquare
  have : (absMesh g).leaves ≠ [] := by rw [h2]; simp [unitSquare]
  cases he : g.leaf_elements with
  | nil => simp [absMesh, he] at this
  | cons e l => exact ⟨g, e, .unit h1, by simp [he], h2⟩

/-! ## 3. the results of `QuadtreeTie` §2 without hypothesis on `refine` -/

/-- `refine_msh_bdr(a, b)` regenerated from the source is `refineMshBdr` of the hand model (same mesh, same returned element,
same errors, same fuel; `eps = 0`) on every reachable state -/
theorem gen_refine_msh_bdr_eq (fuel : Nat) (g : GMesh) (hg : GenReach g) (a b : Rat × Rat) :
    (fun r : GMesh × GElem => (absMesh r.1, absElem (nRoots r.1) r.2)) <$>
        QuadtreeGen.InitialMesh_refine_msh_bdr fuel g a b 0 = refineMshBdr fuel (absMesh g) a b :=
  gen_refine_msh_bdr_eq_partial refineSim_cohInv fuel g (genReach_cohInv hg) a b

example : ∃ g, GenReach g ∧ (fun r : GMesh × GElem => (absMesh r.1, absElem (nRoots r.1) r.2)) <$>
    QuadtreeGen.InitialMesh_refine_msh_bdr 6 g (1, 17 / 32) (1, 1 / 2) 0 =
      refineMshBdr 6 (absMesh g) (1, 17 / 32) (1, 1 / 2) := by
  obtain ⟨g, _, hg, _, _⟩ := genReach_example
  exact ⟨g, hg, gen_refine_msh_bdr_eq 6 g hg _ _⟩

/-- `uniform_refine()` regenerated from the source, for EVERY enumeration `es` of `list(self.leaf_elements)` (any list of
elements of the mesh), is `uniformRefine` of the hand model on the indices in that order, on every reachable state -/
theorem gen_uniform_refine_eq (es : List GElem) (g : GMesh) (hg : GenReach g) (hes : ∀ e ∈ es, e ∈ g.elements) :
    absMesh <$> QuadtreeGen.InitialMesh_uniform_refine g es = uniformRefine (absMesh g) (es.map (·.id)) :=
  gen_uniform_refine_eq_partial refineSim_cohInv es g (genReach_cohInv hg) hes

example : ∃ g es, GenReach g ∧ es ≠ [] ∧ (∀ e ∈ es, e ∈ g.elements) ∧
    absMesh <$> QuadtreeGen.InitialMesh_uniform_refine g es = uniformRefine (absMesh g) (es.map (·.id)) := by
  obtain ⟨g, e, hg, he, _⟩ := genReach_example
  have hes : ∀ x ∈ [e], x ∈ g.elements := by
    intro x hx
    simp only [List.mem_singleton] at hx
    subst hx
    exact (genReach_cohInv hg).1.leaves_sub x he
  exact ⟨g, [e], hg, by simp, hes, gen_uniform_refine_eq [e] g hg hes⟩

/-- C16 (`refine_ok`) for the generated `refine`: on a leaf of a reachable state the call returns, the state is reachable and the
quadtree invariant holds afterwards, only refinement happened, the leaf is gone, the returned list is the four children -/
theorem gen_refine_ok (g : GMesh) (hg : GenReach g) (e : GElem) (he : e ∈ g.leaf_elements) :
    ∃ r, QuadtreeGen.refineCall g e = .ok r ∧ GenReach r.1 ∧ QInv (absMesh r.1) ∧ Ext (absMesh g) (absMesh r.1) ∧
      absElem (nRoots g) e ∉ (absMesh r.1).leaves ∧
      r.2.map (absElem (nRoots r.1)) = children ((absMesh r.1).elems.length - 4) (absElem (nRoots g) e) := by
  have hi := genReach_cohInv hg
  obtain ⟨r, h1, -, h3, h4, h5, h6⟩ := gen_refine_ok_partial refineSim_cohInv g hi hi.2 e he
  exact ⟨r, h1, .refine hg (hi.1.leaves_sub e he) h1, h3, h4, h5, h6⟩

example : ∃ g e, GenReach g ∧ e ∈ g.leaf_elements ∧ ∃ r, QuadtreeGen.refineCall g e = .ok r ∧ GenReach r.1 := by
  obtain ⟨g, e, hg, he, _⟩ := genReach_example
  obtain ⟨r, h1, h2, -⟩ := gen_refine_ok g hg e he
  exact ⟨g, e, hg, he, r, h1, h2⟩

/-- C16 (`qt_inv`) for the generated functions: in every reachable state the dictionaries are coherent, the abstraction
satisfies the quadtree invariant, and `refine` returns on every leaf -/
theorem gen_qt_inv (g : GMesh) (hg : GenReach g) :
    Coherent g ∧ QInv (absMesh g) ∧ ∀ e ∈ g.leaf_elements, ∃ r, QuadtreeGen.refineCall g e = .ok r := by
  refine ⟨(genReach_cohInv hg).1, (genReach_cohInv hg).2, fun e he => ?_⟩
  obtain ⟨r, h1, -⟩ := gen_refine_ok g hg e he
  exact ⟨r, h1⟩

/-- the same along sequences of `refine` calls on leaves (`GReach` of `QuadtreeTie`), with `Ext` from the start -/
theorem gen_qt_inv_seq (g0 : GMesh) (h0 : GenReach g0) (g : GMesh) (hr : GReach g0 g) :
    GenReach g ∧ QInv (absMesh g) ∧ Ext (absMesh g0) (absMesh g) ∧
      ∀ e ∈ g.leaf_elements, ∃ r, QuadtreeGen.refineCall g e = .ok r := by
  have hi := genReach_cohInv h0
  have hreach : GenReach g := by
    induction hr with
    | init => exact h0
    | step _ he hrun ih => exact .refine ih ((genReach_cohInv ih).1.leaves_sub _ he) hrun
  obtain ⟨-, h2, h3, h4⟩ := gen_qt_inv_partial refineSim_cohInv g0 hi hi.2 g hr
  exact ⟨hreach, h2, h3, h4⟩

example : ∃ g0 g, GenReach g0 ∧ GReach g0 g ∧ g.leaf_elements ≠ [] := by
  obtain ⟨g, e, hg, he, _⟩ := genReach_example
  exact ⟨g, g, hg, .init, by intro h; rw [h] at he; cases he⟩

/-- C16 (`bdr_target`) for the generated `refine_msh_bdr` and `vertex_from_coords` on every reachable state: for a leaf `c` with
nothing across its side `s` and the `k`-th of the `2^j` pieces of that side, in either orientation, the generated call with
fuel `j + 1` returns a leaf of level `c.level + j` whose side `s` is exactly the piece; the result is reachable, the quadtree
invariant holds afterwards; both end points are found by the generated `vertex_from_coords`; no other (leaf, side) has an edge
containing the piece -/
theorem gen_bdr_target (g : GMesh) (hg : GenReach g)
    (c : Elem) (hc : c ∈ (absMesh g).leaves) (s : Side) (hB : ∀ n ∈ (absMesh g).leaves, ¬ Adj c s n) (j k : Nat)
    (hk : k < 2 ^ j) (a b : Rat × Rat)
    (hab : (a = pt s.axis (lineC c s) (lo c s + k * (c.size / 2 ^ j)) ∧
            b = pt s.axis (lineC c s) (lo c s + (k + 1) * (c.size / 2 ^ j))) ∨
           (a = pt s.axis (lineC c s) (lo c s + (k + 1) * (c.size / 2 ^ j)) ∧
            b = pt s.axis (lineC c s) (lo c s + k * (c.size / 2 ^ j)))) :
    ∃ r, QuadtreeGen.InitialMesh_refine_msh_bdr (j + 1) g a b 0 = .ok r ∧ GenReach r.1 ∧ QInv (absMesh r.1) ∧
      Ext (absMesh g) (absMesh r.1) ∧ absElem (nRoots r.1) r.2 ∈ (absMesh r.1).leaves ∧
      r.2.level = c.level + j ∧ lineC (absElem (nRoots r.1) r.2) s = lineC c s ∧
      lo (absElem (nRoots r.1) r.2) s = lo c s + k * (c.size / 2 ^ j) ∧
      hi (absElem (nRoots r.1) r.2) s = lo c s + (k + 1) * (c.size / 2 ^ j) ∧
      (∃ v, QuadtreeGen.InitialMesh_vertex_from_coords r.1 a = .ok (some v) ∧ (absMesh r.1).verts[v.idx]? = some a) ∧
      (∃ v, QuadtreeGen.InitialMesh_vertex_from_coords r.1 b = .ok (some v) ∧ (absMesh r.1).verts[v.idx]? = some b) ∧
      (∀ e' ∈ (absMesh r.1).leaves, ∀ s', Hit s.axis (lineC c s) (lo c s + k * (c.size / 2 ^ j))
        (lo c s + (k + 1) * (c.size / 2 ^ j)) e' s' → e' = absElem (nRoots r.1) r.2 ∧ s' = s) := by
  have hi := genReach_cohInv hg
  obtain ⟨r, h1, -, rest⟩ := gen_bdr_target_partial refineSim_cohInv g hi hi.2 c hc s hB j k hk a b hab
  exact ⟨r, h1, .bdr hg h1, rest⟩

/-- the hypotheses of `gen_bdr_target` are satisfiable: the segment `[(1, 17/32), (1, 1/2)]` of `initial_mesh_test.py` on the
right side of the generated `UnitSquare()` -/
example : ∃ g r, GenReach g ∧ QuadtreeGen.InitialMesh_refine_msh_bdr 6 g (1, 17 / 32) (1, 1 / 2) 0 = .ok r ∧
    GenReach r.1 ∧ r.2.level = 5 := by
  obtain ⟨g, _, hg, _, habs⟩ := genReach_example
  obtain ⟨r, h1, h2, -, -, -, h6, -⟩ := gen_bdr_target g hg (mkRoot 0 0 0 1) (by rw [habs]; simp [unitSquare]) .right
    (by rw [habs]; exact unitSquare_boundary .right) 5 16 (by norm_num) (1, 17 / 32) (1, 1 / 2)
    (Or.inr ⟨by simp [pt, Side.axis, lineC, lo, mkRoot]; norm_num, by simp [pt, Side.axis, lineC, lo, mkRoot]; norm_num⟩)
  exact ⟨g, r, hg, h1, h2, by simpa [mkRoot] using h6⟩

end Stbem.QuadtreeTie
