import Stbem.Props.SL
import Stbem.Gen.Panels

/-!
# PanelsTie — the control flow REGENERATED FROM `src/single_layer.py` equals the hand-written model

`Stbem.Gen.Panels` is produced on every run by `translate/panels.py` from the bodies of
`SingleLayerOperator.__integrate`, `bilform`, `evaluate`, `_init_elems`, `MP_SL_matrix_col` and the loop nests of
`bilform_matrix` (Python `ast` → Lean).  This file proves, for ALL inputs, that every generated definition is the
corresponding definition of the hand-written model `Stbem.Model.SingleLayer` (with the thresholds `1e-10`, `1e-8`,
`1 ± 1e-10` and the default `rel_tol` of `math.isclose` at the exact binary64 values the source denotes: `cfgOf`).
If the source changes so that the decision structure differs, these theorems no longer check.

Consequently every theorem of `Props/SL.lean` (aliased in `C01`, `C04`, `C07`, `C11`, `C12`) is a theorem about the
generated-from-source functions; section 3 states the ones that carry those properties explicitly.
-/
namespace Stbem.PanelsTie
open Stbem.Quad Stbem.Formulas.Q Stbem.SL
open Stbem.Gen

/-- the configuration of the hand model that the source text denotes: closed curve?, its length, and the float
literals `1e-10`, `1e-8` of `__integrate` and the default `rel_tol = 1e-09` of `math.isclose` as exact binary64 values -/
def cfgOf (L : Rat) (glue : Bool) : Cfg :=
  ⟨glue, L, Panels.c_1e_m10, Panels.c_1e_m8, Panels.c_isclose_rel_tol⟩

/-! ## 1. the generated definitions equal the hand-written ones -/

theorem gen_isclose_eq (L : Rat) (glue : Bool) (x y : Rat) :
    Panels.isclose x y = SL.isclose (cfgOf L glue) x y := rfl

/-- `__integrate`: the generated panel recursion IS `panels` — same assertions (same labels), same case split,
same rule kinds on the same rectangles, same recursive calls in the same order, for every fuel -/
theorem gen_panels_eq (L : Rat) (glue : Bool) : ∀ (fuel : Nat) (a b c d : Rat),
    Panels.integrate L glue fuel a b c d = panels (cfgOf L glue) fuel a b c d := by
  intro fuel
  induction fuel with
  | zero => intro a b c d; rfl
  | succ n ih =>
    intro a b c d
    rw [Panels.integrate, panels]
    simp only [ih, gen_isclose_eq L glue]
    cases glue <;> simp [cfgOf, not_and_or, -not_and]

/-- the rule behind every panel kind, as resolved through `__init__`, is the model's `ruleOf` -/
theorem gen_ruleOf_eq (log : Rule1) (k : PKind) : Panels.ruleOf log k = SL.ruleOf log k := by
  cases k <;> rfl

theorem gen_integrateWith_eq (L : Rat) (glue : Bool) (log : Rule1) (F : Rat → Rat → Rat) (a b c d : Rat) :
    Panels.integrateWith L glue log F a b c d =
      integratePanels log F <$> panels (cfgOf L glue) 12 a b c d := by
  unfold Panels.integrateWith integratePanels
  simp only [gen_panels_eq, gen_ruleOf_eq]
  cases panels (cfgOf L glue) 12 a b c d <;> rfl

/-- `bilform`: causality guard, closed-form branch, ordering of the two space intervals, swap of the variables,
the panel recursion and its rules: the generated function IS the model's `bilform` (errors included) -/
theorem gen_bilform_eq (L : Rat) (glue : Bool) (S : Fns) (log : Rule1) (gs : List Piece) (pw : Bool)
    (trial test : Elem) :
    Panels.bilform L glue S log gs pw trial test = SL.bilform (cfgOf L glue) S log gs pw trial test := by
  unfold Panels.bilform SL.bilform
  simp only [gen_integrateWith_eq]
  by_cases h1 : test.t1 ≤ trial.t0
  · simp [h1]
  · simp only [h1, if_false]
    cases pw <;> simp [Panels.vsub, distSq]

/-- the same as a plan: which of the three paths is taken, which interval goes first, which variable feeds which
parametrisation (`kern … x y` = time kernel at `|γ_test(x) − γ_trial(y)|²`) -/
theorem gen_bilform_plan_eq (L : Rat) (glue : Bool) (S : Fns) (log : Rule1) (gs : List Piece) (pw : Bool)
    (trial test : Elem) :
    Panels.bilform L glue S log gs pw trial test =
      if test.t1 ≤ trial.t0 then .ok 0
      else if pw = true ∧ test.piece = trial.piece then
        stik S 12 test.t0 test.t1 trial.t0 trial.t1 test.x0 test.x1 trial.x0 trial.x1
      else if lexLe test.x0 test.x1 trial.x0 trial.x1 = true then
        integratePanels log (fun x y => kern S gs trial test x y) <$>
          panels (cfgOf L glue) 12 test.x0 test.x1 trial.x0 trial.x1
      else
        integratePanels log (fun x y => kern S gs trial test y x) <$>
          panels (cfgOf L glue) 12 trial.x0 trial.x1 test.x0 test.x1 := by
  rw [gen_bilform_eq, bilform_eq]
  by_cases h1 : test.t1 ≤ trial.t0
  · simp [h1]; rfl
  · simp only [h1, if_false]
    cases pw <;> simp [quadPath]

/-! ### `evaluate` -/

/-- `np.dot(weights of log, values at the nodes of r)` = the zipped sum of the model -/
theorem dot_eq_zip (G : N1 → Rat) : ∀ (r log : Rule1),
    sumR (List.zipWith (fun u v => u * v) (log.map fun n => n.w) (r.map G)) =
      sumR ((r.zip log).map fun p => p.2.w * G p.1)
  | [], log => by cases log <;> simp [sumR]
  | m :: r, [] => by simp [sumR]
  | m :: r, n :: log => by
    have := dot_eq_zip G r log
    simp only [sumR] at this
    simp only [sumR, List.map_cons, List.zipWith_cons_cons, List.zip_cons_cons, List.foldr_cons, this]

/-- `xy_sqr[0] + xy_sqr[1]` at the curve points pre-evaluated by `_init_elems` for the nodes of `r` -/
theorem xy_nodes (x : Rat × Rat) (g : Piece) (a b : Rat) (r : Rule1) :
    List.zipWith (fun u v => u + v)
      ((((((((r.map fun n => n.x).map fun u => (b - a) * u).map fun u => a + u).map fun y => g.at y).map
        fun p => Panels.vsub x p).map fun p => Panels.vsq p).map fun p => p.1))
      ((((((((r.map fun n => n.x).map fun u => (b - a) * u).map fun u => a + u).map fun y => g.at y).map
        fun p => Panels.vsub x p).map fun p => Panels.vsq p).map fun p => p.2)) =
    r.map fun n => distSq x (g.at (a + (b - a) * n.x)) := by
  simp [List.zipWith_map_left, List.zipWith_map_right, List.zipWith_self, Panels.vsq, Panels.vsub, distSq,
    Function.comp_def]

theorem vec_le (S : Fns) (t ta : Rat) (l : List Rat) :
    ((((l.map fun u => -u).map fun u => u / (4 * (t - ta))).map fun u => S.ei u).map fun u => -S.fpiInv * u) =
      l.map fun r => -S.fpiInv * S.ei (-r / (4 * (t - ta))) := by
  simp [List.map_map, Function.comp_def]

theorem vec_gt (S : Fns) (t ta tb : Rat) (l : List Rat) :
    ((List.zipWith (fun u v => u - v)
        (((l.map fun u => -u).map fun u => u / (4 * (t - tb))).map fun u => S.ei u)
        (((l.map fun u => -u).map fun u => u / (4 * (t - ta))).map fun u => S.ei u)).map fun u => S.fpiInv * u) =
      l.map fun r => S.fpiInv * (S.ei (-r / (4 * (t - tb))) - S.ei (-r / (4 * (t - ta)))) := by
  simp [List.map_map, List.zipWith_map_left, List.zipWith_map_right, List.zipWith_self, Function.comp_def]

/-- the outside branch for a fixed choice `r` of the graded rule; `G n` = squared distance at node `n` -/
theorem outside_eq (S : Fns) (log r : Rule1) (G : N1 → Rat) (t ta tb : Rat) :
    sumR (List.zipWith (fun u v => u * v) (log.map fun n => n.w)
      (if t ≤ tb then
        (((((r.map G).map fun u => -u).map fun u => u / (4 * (t - ta))).map fun u => S.ei u).map
          fun u => -S.fpiInv * u)
      else
        ((List.zipWith (fun u v => u - v)
          ((((r.map G).map fun u => -u).map fun u => u / (4 * (t - tb))).map fun u => S.ei u)
          ((((r.map G).map fun u => -u).map fun u => u / (4 * (t - ta))).map fun u => S.ei u)).map
            fun u => S.fpiInv * u))) =
    sumR ((r.zip log).map fun p => p.2.w * evalKernel S t ta tb (G p.1)) := by
  by_cases h : t ≤ tb
  · rw [if_pos h, vec_le, List.map_map, dot_eq_zip]
    simp [evalKernel, h]
  · rw [if_neg h, vec_gt, List.map_map, dot_eq_zip]
    simp [evalKernel, h]

/-- `evaluate`: guard `t ≤ t_a`, in-element test with the folded doubles `1 ± 1e-10`, split at `x_hat` with the
mirrored / unmirrored log rule, seam-aware distances, choice `d_a ≤ d_b` of the pre-evaluated points, the two
time branches, `(x_b − x_a)·np.dot(weights, vec)`: the generated function IS the model's `evaluate` -/
theorem gen_evaluate_eq (L : Rat) (glue : Bool) (S : Fns) (log : Rule1) (gs : List Piece) (e : Elem)
    (t xhat : Rat) (x : Rat × Rat) :
    Panels.evaluate L glue S log gs e t xhat x =
      SL.evaluate (cfgOf L glue) Panels.c_1_plus_1e_m10 Panels.c_1_minus_1e_m10 S log gs e t xhat x := by
  unfold Panels.evaluate SL.evaluate evalPlan
  by_cases h1 : t ≤ e.t0
  · simp [h1]
  simp only [h1, if_false]
  by_cases h2 : e.x0 * Panels.c_1_plus_1e_m10 ≤ xhat ∧ xhat ≤ e.x1 * Panels.c_1_minus_1e_m10
  · simp only [h2, and_self, if_true]
    simp [evalKernel, distSq, Panels.vsq, Panels.vsub]
  · simp only [h2, if_false, show (cfgOf L glue).glue = glue from rfl, show (cfgOf L glue).len = L from rfl]
    by_cases h3 : (if glue = true then minR (absR (xhat - e.x0)) (absR (L - xhat + e.x0))
                              else absR (xhat - e.x0)) ≤
                              if glue = true then minR (absR (xhat - e.x1)) (absR (L - e.x1 + xhat))
                              else absR (xhat - e.x1)
    · simp only [h3, if_true, decide_true, Bool.not_true, Bool.false_eq_true, if_false,
        Panels.init_log_scheme_y, xy_nodes]
      rw [outside_eq]
    · simp only [h3, if_false, decide_false, Bool.not_false, if_true, Panels.init_log_scheme_m_y, xy_nodes]
      rw [outside_eq]

/-- the same as a plan: which rule on which interval in which case (`evalPlan` is the model's three-way decision
`zero | inElem | outside mirrored`) -/
theorem gen_evaluate_plan_eq (L : Rat) (glue : Bool) (S : Fns) (log : Rule1) (gs : List Piece) (e : Elem)
    (t xhat : Rat) (x : Rat × Rat) :
    Panels.evaluate L glue S log gs e t xhat x =
      match evalPlan (cfgOf L glue) Panels.c_1_plus_1e_m10 Panels.c_1_minus_1e_m10 e t xhat with
      | .zero => 0
      | .inElem =>
        integrate1 (mirror1 log) (fun y => evalKernel S t e.t0 e.t1 (distSq x ((pieceOf gs e.piece).at y))) e.x0 xhat +
        integrate1 log (fun y => evalKernel S t e.t0 e.t1 (distSq x ((pieceOf gs e.piece).at y))) xhat e.x1
      | .outside m =>
        integrate1 (if m then mirror1 log else log)
          (fun y => evalKernel S t e.t0 e.t1 (distSq x ((pieceOf gs e.piece).at y))) e.x0 e.x1 := by
  rw [gen_evaluate_eq]
  generalize hp : evalPlan (cfgOf L glue) Panels.c_1_plus_1e_m10 Panels.c_1_minus_1e_m10 e t xhat = p
  cases p with
  | zero => exact evaluate_zero _ _ _ S log gs e t xhat x ((evalPlan_zero_iff _ _ _ e t xhat).mp hp)
  | inElem => exact evaluate_inElem _ _ _ S log gs e t xhat x hp
  | outside m => exact evaluate_outside _ _ _ S log gs e t xhat x m hp

/-! ### matrix assembly: the two loop nests of `bilform_matrix`, the worker `MP_SL_matrix_col` -/

theorem gen_matrixLoop1_eq (L : Rat) (glue : Bool) (S : Fns) (log : Rule1) (gs : List Piece) (pw : Bool)
    (tests trials : List Elem) :
    Panels.matrixLoop1 L glue S log gs pw tests trials = bilformMatrix (cfgOf L glue) S log gs pw tests trials := by
  simp only [Panels.matrixLoop1, bilformMatrix, gen_bilform_eq]

theorem gen_matrixLoop2_eq (L : Rat) (glue : Bool) (S : Fns) (log : Rule1) (gs : List Piece) (pw : Bool)
    (tests trials : List Elem) :
    Panels.matrixLoop2 L glue S log gs pw tests trials = bilformMatrix (cfgOf L glue) S log gs pw tests trials := by
  simp only [Panels.matrixLoop2, bilformMatrix, gen_bilform_eq]

/-- the skip rule of the worker changes no entry: a column of the pool path is the column of single calls -/
theorem gen_mpCol_eq (L : Rat) (glue : Bool) (S : Fns) (log : Rule1) (gs : List Piece) (pw : Bool)
    (tests : List Elem) (trial : Elem) :
    Panels.mpCol L glue S log gs pw tests trial =
      tests.mapM fun test => SL.bilform (cfgOf L glue) S log gs pw trial test := by
  unfold Panels.mpCol
  congr 1
  funext test
  by_cases h : test.t1 ≤ trial.t0
  · rw [if_pos h, bilform_acausal_zero _ S log gs pw trial test h]; rfl
  · rw [if_neg h, gen_bilform_eq]

/-- the pool path succeeds with the list of columns `C` iff `C[j][i]` is the single call `bilform(trial_j, test_i)` -/
theorem gen_matrixPoolCols_table (L : Rat) (glue : Bool) (S : Fns) (log : Rule1) (gs : List Piece) (pw : Bool)
    (tests trials : List Elem) (C : List (List Rat)) :
    Panels.matrixPoolCols L glue S log gs pw tests trials = .ok C ↔
      C.length = trials.length ∧
      ∀ j (hj : j < trials.length) (hj' : j < C.length),
        C[j].length = tests.length ∧
        ∀ i (hi : i < tests.length) (hi' : i < C[j].length),
          SL.bilform (cfgOf L glue) S log gs pw trials[j] tests[i] = .ok C[j][i] := by
  unfold Panels.matrixPoolCols
  simp only [gen_mpCol_eq]
  rw [mapM_ok_iff]
  constructor
  · intro h
    obtain ⟨h1, h2⟩ := forall₂_get h
    refine ⟨h1, fun j hj hj' => ?_⟩
    have := h2 j hj hj'
    rw [mapM_ok_iff] at this
    exact forall₂_get this
  · rintro ⟨h1, h2⟩
    refine forall₂_of_get h1 (fun j hj hj' => ?_)
    rw [mapM_ok_iff]
    exact forall₂_of_get (h2 j hj hj').1 (h2 j hj hj').2

/-- serial / inline path and pool path deliver the same numbers: `mat[i, j]` of the loop nests is entry `i` of
column `j` of the pool path (rows = test elements, columns = trial elements on every path) -/
theorem gen_pool_transpose (L : Rat) (glue : Bool) (S : Fns) (log : Rule1) (gs : List Piece) (pw : Bool)
    (tests trials : List Elem) (M C : List (List Rat))
    (hM : Panels.matrixLoop2 L glue S log gs pw tests trials = .ok M)
    (hC : Panels.matrixPoolCols L glue S log gs pw tests trials = .ok C)
    (i j : Nat) (hi : i < tests.length) (hj : j < trials.length)
    (hi' : i < M.length) (hj' : j < M[i].length) (hj'' : j < C.length) (hi'' : i < C[j].length) :
    M[i][j] = C[j][i] := by
  rw [gen_matrixLoop2_eq] at hM
  have h1 := (((bilformMatrix_ok_iff _ S log gs pw tests trials M).mp hM).2 i hi hi').2 j hj hj'
  have h2 := (((gen_matrixPoolCols_table L glue S log gs pw tests trials C).mp hC).2 j hj hj'').2 i hi hi''
  rw [h1] at h2
  exact Except.ok.inj h2

/-! ## 2. the generated definitions are executable: closed examples (evaluated by the kernel) -/

example : Panels.integrate 4 true 12 0 3 1 2 =
    .ok [⟨.duffyMx, 0, 1, 1, 2⟩, ⟨.duffyId, 1, 2, 1, 2⟩, ⟨.duffyMy, 2, 3, 1, 2⟩] := by decide +kernel
example : Panels.integrate 4 true 12 0 1 2 4 = .ok [⟨.logMy, 0, 1, 2, 3⟩, ⟨.duffyMy, 0, 1, 3, 4⟩] := by
  decide +kernel
example : Panels.integrate 4 true 12 1 2 (5/2) 3 = .ok [⟨.logMx, 1, 2, 5/2, 3⟩] := by decide +kernel
example : Panels.integrate 4 true 12 (1/2) 1 3 (7/2) = .ok [⟨.logMy, 1/2, 1, 3, 7/2⟩] := by decide +kernel
example : Panels.integrate 4 false 12 (1/2) 1 3 (7/2) = .ok [⟨.logMx, 1/2, 1, 3, 7/2⟩] := by decide +kernel
example : Panels.integrate 4 true 12 0 3 2 4 = .error "assert:seam" := by decide +kernel
example : Panels.bilform 4 true SEx logEx gsEx false elA elB = .ok (-1337743 / 25165824) := by decide +kernel
example : Panels.bilform 4 true SEx logEx gsEx false elB elA = .ok 0 := by decide +kernel
example : Panels.bilform 4 true SEx logEx gsEx true elA elB = .ok (-997 / 24) := by decide +kernel
example : Panels.evaluate 4 true SEx logEx gsEx elB (3/2) (3/2) (3/2, 0) = 5 / 1536 := by decide +kernel
example : Panels.evaluate 4 true SEx logEx gsEx elB (3/2) (7/2) (2, 3/2) = 41 / 384 := by decide +kernel
example : Panels.mpCol 4 true SEx logEx gsEx false [elA, elB] elB = .ok [0, -974395 / 12582912] := by
  decide +kernel
example : Panels.matrixLoop1 4 true SEx logEx gsEx false [elA, elB] [elA, elB] =
    .ok [[-974395 / 12582912, 0], [-1337743 / 25165824, -974395 / 12582912]] := by decide +kernel
example : Grid (cfgOf 4 true) (1/2) := by
  constructor <;> norm_num [cfgOf, Panels.c_1e_m10, Panels.c_1e_m8, Panels.c_isclose_rel_tol]

/-! ## 3. the theorems of C01 / C04 / C07 / C11 / C12 for the generated-from-source functions -/

/-- C04 (causality): an acausal pair gives the literal `0` on every path of the generated `bilform` -/
theorem gen_bilform_acausal (L : Rat) (glue : Bool) (S : Fns) (log : Rule1) (gs : List Piece) (pw : Bool)
    (trial test : Elem) (h : test.t1 ≤ trial.t0) : Panels.bilform L glue S log gs pw trial test = .ok 0 := by
  rw [gen_bilform_eq]; exact bilform_acausal _ S log gs pw trial test h

/-- C04: the generated matrix loops are block lower triangular in time -/
theorem gen_matrix_lower (L : Rat) (glue : Bool) (S : Fns) (log : Rule1) (gs : List Piece) (pw : Bool)
    (tests trials : List Elem) (M : List (List Rat))
    (h : Panels.matrixLoop1 L glue S log gs pw tests trials = .ok M)
    (i j : Nat) (hi : i < tests.length) (hj : j < trials.length) (hi' : i < M.length)
    (hj' : j < M[i].length) (hc : tests[i].t1 ≤ trials[j].t0) : M[i][j] = 0 := by
  rw [gen_matrixLoop1_eq] at h
  exact bilformMatrix_lower _ S log gs pw tests trials M h i j hi hj hi' hj' hc

/-- C04 / C07: before the element starts the generated `evaluate` is `0` -/
theorem gen_evaluate_acausal (L : Rat) (glue : Bool) (S : Fns) (log : Rule1) (gs : List Piece) (e : Elem)
    (t xhat : Rat) (x : Rat × Rat) (h : t ≤ e.t0) : Panels.evaluate L glue S log gs e t xhat x = 0 := by
  rw [gen_evaluate_eq]; exact evaluate_zero _ _ _ S log gs e t xhat x h

/-- C01 (totality): on lattice-aligned well-posed inputs the generated recursion returns a panel list — none of
the assertions of `__integrate` fires, depth ≤ 5 -/
theorem gen_panels_total {L : Rat} {glue : Bool} {δ a b c d : Rat} (hG : Grid (cfgOf L glue) δ)
    (h : WellPosed (cfgOf L glue) δ a b c d) : ∃ ps, Panels.integrate L glue 12 a b c d = .ok ps := by
  rw [gen_panels_eq]; exact panels_total hG h

/-- C01 / C11 (tiling): whenever the generated recursion succeeds, its half-open panels tile `[a,b)×[c,d)` -/
theorem gen_panels_tile {L : Rat} {glue : Bool} {fuel : Nat} {a b c d : Rat} {ps : List Panel}
    (h : Panels.integrate L glue fuel a b c d = .ok ps) :
    (∀ x y, a ≤ x → x < b → c ≤ y → y < d → coverCount ps x y = 1) ∧
    (∀ x y, ¬(a ≤ x ∧ x < b ∧ c ≤ y ∧ y < d) → coverCount ps x y = 0) ∧
    (∀ p ∈ ps, a ≤ p.a ∧ p.a < p.b ∧ p.b ≤ b ∧ c ≤ p.c ∧ p.c < p.d ∧ p.d ≤ d) ∧
    area ps = (b - a) * (d - c) := by
  rw [gen_panels_eq] at h; exact panels_tile h

/-- C01 (placement of the singular rules): the kind of every generated panel matches its position -/
theorem gen_panels_aligned {L : Rat} {glue : Bool} {fuel : Nat} {a b c d : Rat} {ps : List Panel}
    (h : Panels.integrate L glue fuel a b c d = .ok ps) : ∀ p ∈ ps,
    (p.kind = .duffyId → p.a = p.c ∧ p.b = p.d) ∧
    (p.kind = .duffyMx → p.b = p.c ∧ p.squarish (cfgOf L glue)) ∧
    (p.kind = .duffyMy → p.a = p.d ∨
      (glue = true ∧ p.a = 0 ∧ p.d = L ∧ p.b < p.c ∧ p.squarish (cfgOf L glue))) ∧
    (p.kind = .logMx → p.b < p.c ∧ (glue = false ∨ p.c - p.b < L - p.d + p.a)) ∧
    (p.kind = .logMy → glue = true ∧ p.b < p.c ∧ L - p.d + p.a ≤ p.c - p.b) := by
  rw [gen_panels_eq] at h; exact panels_aligned h

/-- C01: on a closed curve the seam pair `(0, L)` is met only by a seam Duffy panel (or the two documented
exceptional configurations) -/
theorem gen_panels_seam {L : Rat} {fuel : Nat} {a b c d : Rat} {ps : List Panel}
    (h : Panels.integrate L true fuel a b c d = .ok ps) (h0 : 0 ≤ a) (hL : d ≤ L)
    {p : Panel} (hp : p ∈ ps) {x y : Rat} (hx1 : p.a ≤ x) (hy2 : y ≤ p.d) (hxy : y - x = L) :
    (x = 0 ∧ y = L ∧ p.a = 0 ∧ p.d = L) ∧
    ((p.kind = .duffyMy ∧ p.b < p.c) ∨ (p.kind = .duffyMx ∧ p.b = p.c) ∨
      (p.kind = .duffyId ∧ p.a = p.c ∧ p.b = p.d)) := by
  rw [gen_panels_eq] at h
  exact panels_seam (cfg := cfgOf L true) h rfl h0 hL hp hx1 hy2 hxy

/-- C12 (exchange symmetry): exchanging the space data of the two elements does not change the generated
`bilform` on the quadrature path — errors included -/
theorem gen_bilform_exchange_quad (L : Rat) (glue : Bool) (S : Fns) (log : Rule1) (gs : List Piece)
    (trial test : Elem) :
    Panels.bilform L glue S log gs false
        { trial with x0 := test.x0, x1 := test.x1, piece := test.piece }
        { test with x0 := trial.x0, x1 := trial.x1, piece := trial.piece } =
      Panels.bilform L glue S log gs false trial test := by
  rw [gen_bilform_eq, gen_bilform_eq]; exact bilform_exchange_quad _ S log gs trial test

/-- C12: … and on the closed-form path, for non-degenerate space intervals -/
theorem gen_bilform_exchange_exact (L : Rat) (glue : Bool) (S : Fns) (log : Rule1) (gs : List Piece)
    (trial test : Elem) (hx : test.x0 < test.x1) (hy : trial.x0 < trial.x1) :
    Panels.bilform L glue S log gs true
        { trial with x0 := test.x0, x1 := test.x1, piece := test.piece }
        { test with x0 := trial.x0, x1 := trial.x1, piece := trial.piece } =
      Panels.bilform L glue S log gs true trial test := by
  rw [gen_bilform_eq, gen_bilform_eq]; exact bilform_exchange_exact _ S log gs trial test hx hy

/-- C12 (time shift): a common shift of all four time values does not change the generated `bilform` -/
theorem gen_bilform_shift (L : Rat) (glue : Bool) (S : Fns) (log : Rule1) (gs : List Piece) (pw : Bool) (δ : Rat)
    (trial test : Elem) :
    Panels.bilform L glue S log gs pw { trial with t0 := trial.t0 + δ, t1 := trial.t1 + δ }
        { test with t0 := test.t0 + δ, t1 := test.t1 + δ } =
      Panels.bilform L glue S log gs pw trial test := by
  rw [gen_bilform_eq, gen_bilform_eq]; exact bilform_shift _ S log gs pw δ trial test

/-- C07 (end points): at the left end the generated `evaluate` uses the rule graded towards `x0`, at the right end
the mirrored rule -/
theorem gen_evaluate_endpoints (L : Rat) (glue : Bool) (S : Fns) (log : Rule1) (gs : List Piece) (e : Elem)
    (t : Rat) (x : Rat × Rat) (ht : ¬ t ≤ e.t0) :
    (0 < e.x0 → Panels.evaluate L glue S log gs e t e.x0 x =
      integrate1 log (fun y => evalKernel S t e.t0 e.t1 (distSq x ((pieceOf gs e.piece).at y))) e.x0 e.x1) ∧
    (0 < e.x1 → e.x0 ≠ e.x1 → (glue = true → L ≠ e.x1 - e.x0) →
      Panels.evaluate L glue S log gs e t e.x1 x =
        integrate1 (mirror1 log) (fun y => evalKernel S t e.t0 e.t1 (distSq x ((pieceOf gs e.piece).at y)))
          e.x0 e.x1) := by
  have h1 : (1 : Rat) < Panels.c_1_plus_1e_m10 := by norm_num [Panels.c_1_plus_1e_m10]
  have h2 : Panels.c_1_minus_1e_m10 < (1 : Rat) := by norm_num [Panels.c_1_minus_1e_m10]
  have hE := evalPlan_endpoints (cfgOf L glue) _ _ e t ht h1 h2
  refine ⟨fun h0 => ?_, fun h0 hne hw => ?_⟩
  · rw [gen_evaluate_plan_eq, hE.1 h0]; rfl
  · rw [gen_evaluate_plan_eq, hE.2 h0 hne hw]; rfl

example : Panels.integrate 4 true 12 0 1 3 4 = .ok [⟨.duffyMy, 0, 1, 3, 4⟩] := by decide +kernel
example : WellPosed (cfgOf 4 true) (1/2) 0 3 1 2 :=
  ⟨⟨0, by norm_num⟩, ⟨6, by norm_num⟩, ⟨2, by norm_num⟩, ⟨4, by norm_num⟩, by norm_num, by norm_num,
    Or.inl (by norm_num), by norm_num, by norm_num [cfgOf], by norm_num [cfgOf],
    fun _ _ h => by norm_num [cfgOf] at h⟩
example : Panels.bilform 4 true SEx logEx gsEx false (exchTrial elA elC) (exchTest elA elC) =
    Panels.bilform 4 true SEx logEx gsEx false elA elC := by decide +kernel
example : Panels.evaluate 4 true SEx logEx gsEx elB 1 2 (2, 0) = 0 := by decide +kernel

end Stbem.PanelsTie
