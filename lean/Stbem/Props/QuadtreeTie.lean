import Stbem.Lemmas.QuadtreeGenLoops
import Stbem.Props.C16

/-!
# QuadtreeTie — `src/initial_mesh.py` REGENERATED FROM THE SOURCE (`Stbem.Gen.QuadtreeGen`) against the hand-written quadtree model

`Stbem.Gen.QuadtreeGen` is produced on every run by `translate/quadtreegen.py` from the bodies of `Element.__init__`, `Element.edges`,
`InitialMesh.__init__`, `vertex_from_coords`, `bisect_edge`, `refine`, `uniform_refine`, `refine_msh_bdr` and the domain meshes (Python
`ast` → Lean, statement by statement).  Unlike the hand model (`Stbem.Model.Quadtree`, which reads the dictionaries `nbrs`,
`parent_edge`, `__bisect_edge` geometrically) the generated code keeps them as real maps keyed by pairs of vertex objects.
`absMesh` (`Lemmas/QuadtreeGenAbs.lean`) maps a generated state to the state of the hand model.

Proved for ALL inputs
* `gen_element_init_shaped`: an element that `Element.__init__` accepts is the axis-parallel square the hand model works with;
* `gen_vertex_from_coords_eq`: the generated `vertex_from_coords` = `vertexFromCoords` (same assertion);
* `gen_scan_eq`: the two nested `for` loops of `refine_msh_bdr` (edge-coincidence test, containment test, `return` inside the
  loops, the assertion `v0[n_axis] <= v1[n_axis]` never firing) = `scan` of the hand model, with `eps = 0`;
* `gen_unitSquare`, `gen_lShape`: the generated constructor on the literal lists of `UnitSquare()`, `LShape()` gives `unitSquare`, `lShape`.

Proved RELATIVE to `RefineSim I` (one call of the generated `refine` simulates one call of the hand model's under an invariant `I`
of the generated state): `gen_refine_msh_bdr_eq_partial` (end-point sorting, axis selection, `while True` loop),
`gen_uniform_refine_eq_partial`, and the C16 results for the generated functions (`gen_refine_ok_partial`, `gen_bdr_target_partial`).

`RefineSim I` itself IS proved, in `Props/QuadtreeSim.lean` (which imports this file), for the invariant
`CohInv g := Coherent g ∧ QInv (absMesh g)` where `Coherent g` (`Lemmas/QuadtreeCoherent.lean`) says that `nbrs` holds exactly the
directed edges of all elements, `__bisect_edge` those of the refined elements (with the mid-point vertex), `parent_edge` the two
halves of those, that vertex indices are positions and every element is `Shaped`; `Coherent` is evaluated by the kernel on the
generated `UnitSquare()` / `LShape()`.  There: the full statement

    theorem gen_refine_eq (g : GMesh) (hI : Coherent g) (hq : QInv (absMesh g)) (e : GElem) (he : e ∈ g.elements) :
        (fun r => absMesh r.1) <$> QuadtreeGen.refineCall g e = refine (e.level + 1) (absMesh g) (absElem (nRoots g) e)
          ∧ (∀ r, QuadtreeGen.refineCall g e = .ok r → Coherent r.1 ∧ QInv (absMesh r.1))

and the unconditional versions `gen_refine_msh_bdr_eq`, `gen_uniform_refine_eq`, `gen_refine_ok`, `gen_qt_inv`,
`gen_bdr_target` of the `_partial` theorems below for every state reachable from the generated `UnitSquare()` / `LShape()`.
The `_partial` theorems stay here as the lemmas they are proved from.  Nothing of the statement announced earlier is missing;
what remains trusted is the object model of the translator (header of `Gen/QuadtreeGen.lean`).  The generated twins of the C16
correspondence and the kernel-evaluated runs below (`gen_run_*`) remain as independent evidence.
-/
namespace Stbem.QuadtreeTie
open Stbem.Quadtree Stbem.Gen

/-! ## 1. proved for all inputs -/

/-- the assertions of `Element.__init__` make the element an axis-parallel square with its vertices in counter-clockwise order -/
theorem gen_element_init_shaped (v0 v1 v2 v3 : Vtx) (p : Option GElem) (id : Nat) (e : GElem)
    (h : QuadtreeGen.Element_init v0 v1 v2 v3 p id = .ok e) :
    Shaped e ∧ e.v0 = v0 ∧ e.v1 = v1 ∧ e.v2 = v2 ∧ e.v3 = v3 ∧ e.id = id ∧ e.parent = p.map (·.id) ∧
      e.level = ((p.map (·.level + 1)).getD 0) := by
  unfold QuadtreeGen.Element_init at h
  simp only [QuadtreeGen.assertThat, QuadtreeGen.isclose, decide_eq_true_eq, bind, Except.bind, pure, Except.pure] at h
  split_ifs at h with h1 h2 h3 h4 h5 h6 h7
  injection h with h
  subst h
  exact ⟨⟨h1, h2, h3, h4, h7, h5⟩, rfl, rfl, rfl, rfl, rfl, rfl, by cases p <;> rfl⟩

/-- `InitialMesh.vertex_from_coords(xy)`: same vertex (by index), same assertion, for every state whose vertices carry their
positions -/
theorem gen_vertex_from_coords_eq (g : GMesh) (hv : VIdx g) (x y : Rat) :
    (fun r : Option Vtx => r.map (·.idx)) <$> QuadtreeGen.InitialMesh_vertex_from_coords g (x, y) =
      vertexFromCoords (absMesh g) x y :=
  vertex_from_coords_eq_aux g hv x y

/-- the scan of `refine_msh_bdr` over a list of candidates (`for elem in children: for a, b in elem.edges: …`) with `eps = 0`,
for end points sorted along the free axis, is `scan` of the hand model: same returned element, same `parent` -/
theorem gen_scan_eq (n : Nat) (v0 v1 : Rat × Rat) (b : Bool) (hs : coord v0 (!b) ≤ coord v1 (!b)) (cs : List GElem)
    (hsh : ∀ e ∈ cs, Shaped e) :
    absScan n <$> cs.foldlM (QuadtreeGen.InitialMesh_refine_msh_bdr_loop2 v0 v1 0 (ax b) (ax (!b))) (none, none) =
      .ok (scan v0 v1 b (cs.map (absElem n))) :=
  scan_eq n v0 v1 b hs cs (none, none) hsh

/-- observable content of a generated state, with the vertex indices -/
def view (r : Except String GMesh) : Option (List Elem × List Elem × List (Rat × Rat) × List Nat) :=
  match r with
  | .ok g => some ((absMesh g).elems, (absMesh g).leaves, (absMesh g).verts, g.vertices.map (·.idx))
  | .error _ => none

def viewH (r : Except String QT) : Option (List Elem × List Elem × List (Rat × Rat) × List Nat) :=
  match r with
  | .ok m => some (m.elems, m.leaves, m.verts, List.range m.verts.length)
  | .error _ => none

theorem view_ok {r : Except String GMesh} {m : QT} (h : view r = viewH (.ok m)) :
    ∃ g, r = .ok g ∧ absMesh g = m ∧ VIdx g := by
  cases r with
  | error e => cases h
  | ok g =>
    simp only [view, viewH, Option.some.injEq, Prod.mk.injEq] at h
    obtain ⟨h1, h2, h3, h4⟩ := h
    refine ⟨g, rfl, ?_, ?_⟩
    · cases m
      simp only [absMesh] at h1 h2 h3
      simp only [absMesh, h1, h2, h3]
    · intro i v hv
      have : (g.vertices.map (·.idx))[i]? = some v.idx := by rw [List.getElem?_map, hv]; rfl
      rw [h4, List.getElem?_range] at this
      · injection this with this; exact this.symm
      · rw [← h3]
        have := (List.getElem?_eq_some_iff.mp hv).1
        simpa [absMesh] using this

/-- `UnitSquare()` through the generated constructor is the initial state of the hand model -/
theorem gen_unitSquare : ∃ g, QuadtreeGen.UnitSquare = .ok g ∧ absMesh g = unitSquare ∧ VIdx g :=
  view_ok (by decide +kernel)

/-- `LShape()` through the generated constructor -/
theorem gen_lShape : ∃ g, QuadtreeGen.LShape = .ok g ∧ absMesh g = lShape ∧ VIdx g :=
  view_ok (by decide +kernel)

/-- the hypothesis of `gen_vertex_from_coords_eq` is satisfiable: the generated `UnitSquare()` -/
example : ∃ g, VIdx g ∧ (fun r : Option Vtx => r.map (·.idx)) <$> QuadtreeGen.InitialMesh_vertex_from_coords g (1, 1) =
    vertexFromCoords (absMesh g) 1 1 := by
  obtain ⟨g, _, _, hv⟩ := gen_unitSquare
  exact ⟨g, hv, gen_vertex_from_coords_eq g hv 1 1⟩

/-- the root of the unit square as `Element.__init__` builds it -/
def rootElem : GElem := ⟨⟨0, 0, 0⟩, ⟨1, 0, 1⟩, ⟨1, 1, 2⟩, ⟨0, 1, 3⟩, none, 0, 0⟩

/-- the hypotheses of `gen_element_init_shaped` and `gen_scan_eq` are satisfiable (the root of the unit square, a segment on its
right side) -/
example : QuadtreeGen.Element_init ⟨0, 0, 0⟩ ⟨1, 0, 1⟩ ⟨1, 1, 2⟩ ⟨0, 1, 3⟩ none 0 = .ok rootElem := by decide +kernel

example : absScan 1 <$> [rootElem].foldlM (QuadtreeGen.InitialMesh_refine_msh_bdr_loop2 (1, 1 / 2) (1, 17 / 32) 0 (ax false)
    (ax (!false))) (none, none) = .ok (scan (1, 1 / 2) (1, 17 / 32) false ([rootElem].map (absElem 1))) :=
  gen_scan_eq 1 (1, 1 / 2) (1, 17 / 32) false (by norm_num [coord]) [rootElem]
    (fun e he => by
      simp only [List.mem_singleton] at he
      subst he
      exact ⟨rfl, rfl, rfl, rfl, by norm_num [rootElem], by norm_num [rootElem]⟩)

/-! ## 2. proved relative to `RefineSim` (`RefineSim CohInv` is proved in `Props/QuadtreeSim.lean`) -/

/-- `refine_msh_bdr(a, b)` regenerated from the source: sorting of the end points (`tuple(v0) > tuple(v1)`), selection of the
axis (`for i in range(2)`, the last hit wins), `assert axis is not None`, the `while True` loop with its scan, `assert parent`
and the hand-over `children = self.refine(parent)` are `refineMshBdr` of the hand model (same mesh, same returned element, same
errors, same fuel), for `eps = 0` -/
theorem gen_refine_msh_bdr_eq_partial {I : GMesh → Prop} (hI : RefineSim I) (fuel : Nat) (g : GMesh) (hg : I g)
    (a b : Rat × Rat) :
    (fun r : GMesh × GElem => (absMesh r.1, absElem (nRoots r.1) r.2)) <$>
        QuadtreeGen.InitialMesh_refine_msh_bdr fuel g a b 0 = refineMshBdr fuel (absMesh g) a b :=
  gen_refine_msh_bdr_eq_rel hI fuel g hg a b

/-- `uniform_refine()` regenerated from the source, for EVERY enumeration `es` of `list(self.leaf_elements)` (any list of
elements of the mesh): `uniformRefine` of the hand model on the indices in that order -/
theorem gen_uniform_refine_eq_partial {I : GMesh → Prop} (hI : RefineSim I) (es : List GElem) (g : GMesh) (hg : I g)
    (hes : ∀ e ∈ es, e ∈ g.elements) :
    absMesh <$> QuadtreeGen.InitialMesh_uniform_refine g es = uniformRefine (absMesh g) (es.map (·.id)) :=
  gen_uniform_refine_eq_rel hI es g hg hes

/-- C16 (`refine_ok`) for the generated `refine`: on a leaf of a state whose abstraction satisfies the quadtree invariant the
call returns, the invariant holds afterwards, only refinement happened, the returned list is the four children -/
theorem gen_refine_ok_partial {I : GMesh → Prop} (hI : RefineSim I) (g : GMesh) (hg : I g) (hq : QInv (absMesh g))
    (e : GElem) (he : e ∈ g.leaf_elements) :
    ∃ r, QuadtreeGen.refineCall g e = .ok r ∧ I r.1 ∧ QInv (absMesh r.1) ∧ Ext (absMesh g) (absMesh r.1) ∧
      absElem (nRoots g) e ∉ (absMesh r.1).leaves ∧
      r.2.map (absElem (nRoots r.1)) = children ((absMesh r.1).elems.length - 4) (absElem (nRoots g) e) := by
  have hc : absElem (nRoots g) e ∈ (absMesh g).leaves := List.mem_map_of_mem he
  obtain ⟨m', h1, h2, h3, h4, h5, -⟩ := refine_ok (absMesh g) hq (absElem (nRoots g) e) hc (e.level + 1)
    (Nat.lt_succ_self _)
  have hstep := hI.step g hg e (hI.leaves g hg e he)
  have h1' : refine (e.level + 1) (absMesh g) (absElem (nRoots g) e) = .ok m' := h1
  rw [h1'] at hstep
  obtain ⟨r, hr, rfl⟩ := ok_of_map_ok hstep
  obtain ⟨q1, _, _, _, q5⟩ := hI.pres g hg e (hI.leaves g hg e he) r hr
  exact ⟨r, hr, q1, h2, h3, h4, by rw [q5, h5]⟩

/-- C16 (`qt_inv`) for the generated functions: along every sequence of generated `refine` calls on leaves the abstraction
satisfies the quadtree invariant and every call returns -/
inductive GReach (g0 : GMesh) : GMesh → Prop
  | init : GReach g0 g0
  | step {g : GMesh} {e : GElem} {r : GMesh × List GElem} : GReach g0 g → e ∈ g.leaf_elements →
      QuadtreeGen.refineCall g e = .ok r → GReach g0 r.1

theorem gen_qt_inv_partial {I : GMesh → Prop} (hI : RefineSim I) (g0 : GMesh) (h0 : I g0) (hq0 : QInv (absMesh g0))
    (g : GMesh) (hr : GReach g0 g) :
    I g ∧ QInv (absMesh g) ∧ Ext (absMesh g0) (absMesh g) ∧
      ∀ e ∈ g.leaf_elements, ∃ r, QuadtreeGen.refineCall g e = .ok r := by
  have key : I g ∧ QInv (absMesh g) ∧ Ext (absMesh g0) (absMesh g) := by
    induction hr with
    | init => exact ⟨h0, hq0, Ext.refl _⟩
    | step _ he hrun ih =>
      obtain ⟨i1, i2, i3⟩ := ih
      obtain ⟨r', h1, q1, q2, q3, -⟩ := gen_refine_ok_partial hI _ i1 i2 _ he
      rw [hrun] at h1
      cases h1
      exact ⟨q1, q2, i3.trans q3⟩
  refine ⟨key.1, key.2.1, key.2.2, fun e he => ?_⟩
  obtain ⟨r, h1, -⟩ := gen_refine_ok_partial hI g key.1 key.2.1 e he
  exact ⟨r, h1⟩

/-- C16 (`bdr_target`) for the generated `refine_msh_bdr` and `vertex_from_coords`: for a leaf `c` with nothing across its side
`s` and the `k`-th of the `2^j` pieces of that side, in either orientation, the generated call with fuel `j + 1` returns a leaf of
level `c.level + j` whose side `s` is exactly the piece; the invariant holds afterwards; both end points are found by the
generated `vertex_from_coords`; no other (leaf, side) has an edge containing the piece -/
theorem gen_bdr_target_partial {I : GMesh → Prop} (hI : RefineSim I) (g : GMesh) (hg : I g) (hq : QInv (absMesh g))
    (c : Elem) (hc : c ∈ (absMesh g).leaves) (s : Side) (hB : ∀ n ∈ (absMesh g).leaves, ¬ Adj c s n) (j k : Nat)
    (hk : k < 2 ^ j) (a b : Rat × Rat)
    (hab : (a = pt s.axis (lineC c s) (lo c s + k * (c.size / 2 ^ j)) ∧
            b = pt s.axis (lineC c s) (lo c s + (k + 1) * (c.size / 2 ^ j))) ∨
           (a = pt s.axis (lineC c s) (lo c s + (k + 1) * (c.size / 2 ^ j)) ∧
            b = pt s.axis (lineC c s) (lo c s + k * (c.size / 2 ^ j)))) :
    ∃ r, QuadtreeGen.InitialMesh_refine_msh_bdr (j + 1) g a b 0 = .ok r ∧ I r.1 ∧ QInv (absMesh r.1) ∧
      Ext (absMesh g) (absMesh r.1) ∧ absElem (nRoots r.1) r.2 ∈ (absMesh r.1).leaves ∧
      r.2.level = c.level + j ∧ lineC (absElem (nRoots r.1) r.2) s = lineC c s ∧
      lo (absElem (nRoots r.1) r.2) s = lo c s + k * (c.size / 2 ^ j) ∧
      hi (absElem (nRoots r.1) r.2) s = lo c s + (k + 1) * (c.size / 2 ^ j) ∧
      (∃ v, QuadtreeGen.InitialMesh_vertex_from_coords r.1 a = .ok (some v) ∧ (absMesh r.1).verts[v.idx]? = some a) ∧
      (∃ v, QuadtreeGen.InitialMesh_vertex_from_coords r.1 b = .ok (some v) ∧ (absMesh r.1).verts[v.idx]? = some b) ∧
      (∀ e' ∈ (absMesh r.1).leaves, ∀ s', Hit s.axis (lineC c s) (lo c s + k * (c.size / 2 ^ j))
        (lo c s + (k + 1) * (c.size / 2 ^ j)) e' s' → e' = absElem (nRoots r.1) r.2 ∧ s' = s) := by
  obtain ⟨m', e, h1, h2, h3, h4, h5, h6, h7, h8, h9, h10, h11⟩ := bdr_target (absMesh g) hq c hc s hB j k hk a b hab
  have heq := gen_refine_msh_bdr_eq_partial hI (j + 1) g hg a b
  rw [h1] at heq
  obtain ⟨r, hr, hre⟩ := ok_of_map_ok heq
  injection hre with e1 e2
  subst e1 e2
  have hi1 := gen_refine_msh_bdr_inv hI (j + 1) g hg a b 0 r hr
  have vtx : ∀ p : Rat × Rat, (∃ i, vertexFromCoords (absMesh r.1) p.1 p.2 = .ok (some i) ∧ (absMesh r.1).verts[i]? = some p) →
      ∃ v, QuadtreeGen.InitialMesh_vertex_from_coords r.1 p = .ok (some v) ∧ (absMesh r.1).verts[v.idx]? = some p := by
    intro p ⟨i, hi, hv⟩
    have := vertex_from_coords_eq_aux r.1 (hI.vidx r.1 hi1) p.1 p.2
    rw [hi] at this
    obtain ⟨ov, ho, hm⟩ := ok_of_map_ok this
    cases ov with
    | none => cases hm
    | some v =>
      simp only [Option.map_some, Option.some.injEq] at hm
      exact ⟨v, ho, by rw [hm]; exact hv⟩
  exact ⟨r, hr, hi1, h2, h3, h4, h5, h6, h7, h8, vtx a h9, vtx b h10, h11⟩

/-- the trivial instance shows the structure is consistent; the instance that matters (`CohInv`, satisfied by the generated
`UnitSquare()` / `LShape()`) is `gen_refineSim` in `Props/QuadtreeSim.lean` -/
example : RefineSim (fun _ => False) :=
  ⟨fun _ h => h.elim, fun _ h => h.elim, fun _ h => h.elim, fun _ h => h.elim, fun _ h => h.elim, fun _ h => h.elim⟩

/-! ## 3. both sides evaluated by the kernel on closed runs (the generated code really runs; `decide +kernel`) -/

/-- the generated `refine` on the element with the given identity -/
def refId (g : GMesh) (id : Nat) : Except String GMesh :=
  match g.elements.find? (·.id == id) with
  | some e => (·.1) <$> QuadtreeGen.refineCall g e
  | none => .error "bad-id"

/-- unit square: refine the root, its child 3, then element 6 (whose right neighbour, element 2, is coarser: the balance closure
recurses through `parent_edge` / `nbrs`): the generated run and the run of the hand model give the same elements, leaves,
vertices -/
theorem gen_run_unit :
    view (do let g ← QuadtreeGen.UnitSquare; let g ← refId g 0; let g ← refId g 3; refId g 6) =
      viewH (do let m ← refineId unitSquare 0; let m ← refineId m 3; refineId m 6) := by
  decide +kernel

/-- L-shape: a run whose closure crosses the seams between the three roots -/
theorem gen_run_lshape :
    view (do let g ← QuadtreeGen.LShape; let g ← refId g 1; let g ← refId g 3; let g ← refId g 7; refId g 9) =
      viewH (do let m ← refineId lShape 1; let m ← refineId m 3; let m ← refineId m 7; refineId m 9) := by
  decide +kernel

/-- a stale element trips `assert not (a, b) in self.__bisect_edge` in both -/
theorem gen_run_stale :
    (match (do let g ← QuadtreeGen.UnitSquare; let g ← refId g 0; refId g 0) with
      | .ok _ => "ok" | .error e => e) = "assert:bisected" ∧
    (match (do let m ← refineId unitSquare 0; refineId m 0) with | .ok _ => "ok" | .error e => e) = "assert:bisected" := by
  decide +kernel

/-- the segment of `initial_mesh_test.py`, reversed orientation: same mesh, same returned element (index 30) -/
theorem gen_run_bdr :
    (do let g ← QuadtreeGen.UnitSquare
        let r ← QuadtreeGen.InitialMesh_refine_msh_bdr 6 g (1, 17 / 32) (1, 1 / 2) 0
        pure ((absMesh r.1).leaves, (absMesh r.1).verts, absElem (nRoots r.1) r.2) : Except String _) =
      (do let r ← refineMshBdr 6 unitSquare (1, 17 / 32) (1, 1 / 2)
          pure (r.1.leaves, r.1.verts, r.2)) := by
  decide +kernel

/-- `uniform_refine` on the L-shape in the order 2, 0, 1 -/
theorem gen_run_uniform :
    view (do let g ← QuadtreeGen.LShape
             let es ← ([2, 0, 1].mapM fun id => QuadtreeGen.getIdx g.elements id)
             QuadtreeGen.InitialMesh_uniform_refine g es) =
      viewH (uniformRefine lShape [2, 0, 1]) := by
  decide +kernel

end Stbem.QuadtreeTie
