import Stbem.Model.SingleLayer
namespace Stbem.SL
theorem placeholder_C07 : True := trivial
end Stbem.SL
