import Stbem.Props.SL
import Stbem.Props.Formulas
import Stbem.Props.C15

/-!
# C07 — Pointwise evaluation on the boundary

the evaluation plan: zero iff t ≤ t0, in-element split graded towards the singular point, outside branch graded towards the seam-aware nearer end point, end-point cases; the inline kernels equal the generated time-integrated kernel; the closed-form variant equals steval_1 / steval_2 = ∓gint combinations in all cases and never falls through. Accuracy zones are search-only.

The theorems are proved in `Stbem.Props.SL` (model `Stbem.Model.SingleLayer`, tied to `src/single_layer.py` by exact
execution of the real code), `Stbem.Props.Formulas` (terms regenerated from the Python source on every run) and
`Stbem.Props.C15`; this file lists, as aliases, the ones that carry property C07.
-/
namespace Stbem.C07

alias evalPlan_zero := Stbem.SL.evalPlan_zero
alias eval_acausal := Stbem.SL.eval_acausal
alias evalPlan_inElem := Stbem.SL.evalPlan_inElem
alias evalPlan_outside := Stbem.SL.evalPlan_outside
alias evalPlan_endpoints := Stbem.SL.evalPlan_endpoints
alias evalKernel_tik := Stbem.SL.evalKernel_tik
alias evaluateExact_cases := Stbem.SL.evaluateExact_cases
alias evaluateExact_hk := Stbem.SL.evaluateExact_hk
alias steval_2_eq := Stbem.SL.steval_2_eq
alias tik_eq := Stbem.Formulas.R.tik_eq
alias tik_zero := Stbem.Formulas.R.tik_zero
alias tik_split := Stbem.Formulas.R.tik_split
alias g_zero := Stbem.Formulas.R.g_zero
alias gint2_eq := Stbem.Formulas.R.gint2_eq
alias steval1_eq := Stbem.Formulas.R.steval1_eq
alias steval2_eq := Stbem.Formulas.R.steval2_eq
alias steval_1_zero := Stbem.Formulas.R.steval_1_zero
alias steval_2_zero := Stbem.Formulas.R.steval_2_zero
alias g_deriv := Stbem.Formulas.R.g_deriv
alias ei_deriv := Stbem.Formulas.R.ei_deriv

end Stbem.C07
