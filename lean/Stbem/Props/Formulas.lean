import Stbem.Lemmas.FormulasA
import Stbem.Lemmas.FormulasB
import Stbem.Lemmas.FormulasB3
import Stbem.Lemmas.FormulasC
import Stbem.Lemmas.FormulasModel

/-!
# Properties of the closed-form kernels (`Stbem/Gen/FormulasR.lean`)

Final statements only; the proofs are in `Stbem/Lemmas/Formulas*.lean`.

* **A** (every `S : Fns`, no law): four-term structure of `sl_dtk`, causality, additivity in the
  time intervals, invariance under time shifts, for `sl_dtk`, `sl_tik`, `stik_k`, `steval_k`.
  The ordering hypotheses of the `_split_` theorems are *not used* (see `dtk_add_test` etc. in
  `Lemmas/FormulasA.lean` for the unconditional versions).
* **B** (algebraic laws of the special functions as hypotheses): `fint_2`, `fint_3`, `fint_4` are
  second differences of `fint_1`; `gint_2` is a difference of `gint_1`; `steval_k`, `ip_tik`.
* **C** (`exp = Real.exp`, `Ei' x = e^x/x` on `x < 0`): `∂_z f_z = g_z`, `∂_z g_z = -G(z,·)`.
* `model` (`Lemmas/FormulasModel.lean`) satisfies every hypothesis bundle; the `example`s
  instantiate each theorem that has hypotheses on `S`.
-/
namespace Stbem.Formulas.R

/-! ## A. structure, causality, additivity, shift -/

theorem dtk_structure (S : Fns) (a b c d r : ℝ) : sl_dtk S a b c d r =
    (if b > d then Fp S (b-d) r else 0) - (if b > c then Fp S (b-c) r else 0)
      + (if a > c then Fp S (a-c) r else 0) - (if a > d then Fp S (a-d) r else 0) :=
  dtk_structure' S a b c d r

/-- the four-term formula of `sl_dtk` in terms of the generated `sl_f` -/
theorem dtk_four_term (S : Fns) (a b c d r : ℝ) :
    sl_dtk S a b c d r = sl_f S b d r - sl_f S b c r + sl_f S a c r - sl_f S a d r :=
  dtk_eq_f S a b c d r

theorem dtk_acausal_zero (S : Fns) (a b c d r : ℝ) (hab : a < b) (hcd : c < d) (h : b ≤ c) :
    sl_dtk S a b c d r = 0 := dtk_acausal_zero' S a b c d r hab hcd h

theorem dtk_split_test (S : Fns) (a m b c d r : ℝ) (_h1 : a < m) (_h2 : m < b) :
    sl_dtk S a b c d r = sl_dtk S a m c d r + sl_dtk S m b c d r := dtk_add_test S a m b c d r

theorem dtk_split_trial (S : Fns) (a b c m d r : ℝ) (_h1 : c < m) (_h2 : m < d) :
    sl_dtk S a b c d r = sl_dtk S a b c m r + sl_dtk S a b m d r := dtk_add_trial S a b c m d r

theorem dtk_shift (S : Fns) (a b c d r δ : ℝ) :
    sl_dtk S (a+δ) (b+δ) (c+δ) (d+δ) r = sl_dtk S a b c d r := dtk_shift' S a b c d r δ

theorem g_zero (S : Fns) (a b r : ℝ) (h : a ≤ b) : sl_g S a b r = 0 := g_zero' S a b r h

theorem f_zero (S : Fns) (a b r : ℝ) (h : a ≤ b) : sl_f S a b r = 0 := f_zero' S a b r h

theorem tik_eq (S : Fns) (t a b r : ℝ) : sl_tik S t a b r = sl_g S t b r - sl_g S t a r :=
  tik_eq' S t a b r

theorem tik_zero (S : Fns) (t a b r : ℝ) (hab : a < b) (h : t ≤ a) : sl_tik S t a b r = 0 :=
  tik_zero' S t a b r hab h

theorem tik_split (S : Fns) (t a m b r : ℝ) :
    sl_tik S t a b r = sl_tik S t a m r + sl_tik S t m b r := tik_add S t a m b r

theorem fint_1_zero (S : Fns) (a b h : ℝ) (hab : a ≤ b) : fint_1 S a b h = 0 :=
  fint_1_zero' S a b h hab
theorem fint_2_zero (S : Fns) (a b h k : ℝ) (hab : a ≤ b) : fint_2 S a b h k = 0 :=
  fint_2_zero' S a b h k hab
theorem fint_3_zero (S : Fns) (a b h k : ℝ) (hab : a ≤ b) : fint_3 S a b h k = 0 :=
  fint_3_zero' S a b h k hab
theorem fint_4_zero (S : Fns) (a b h k l : ℝ) (hab : a ≤ b) : fint_4 S a b h k l = 0 :=
  fint_4_zero' S a b h k l hab

/-- `fint_k S a b …` depends on `a`, `b` only through `a - b` -/
theorem fint_1_shift (S : Fns) (a b a' b' h : ℝ) (e : a - b = a' - b') :
    fint_1 S a b h = fint_1 S a' b' h := fint_1_shift' S a b a' b' h e
theorem fint_2_shift (S : Fns) (a b a' b' h k : ℝ) (e : a - b = a' - b') :
    fint_2 S a b h k = fint_2 S a' b' h k := fint_2_shift' S a b a' b' h k e
theorem fint_3_shift (S : Fns) (a b a' b' h k : ℝ) (e : a - b = a' - b') :
    fint_3 S a b h k = fint_3 S a' b' h k := fint_3_shift' S a b a' b' h k e
theorem fint_4_shift (S : Fns) (a b a' b' h k l : ℝ) (e : a - b = a' - b') :
    fint_4 S a b h k l = fint_4 S a' b' h k l := fint_4_shift' S a b a' b' h k l e

theorem stik_1_structure (S : Fns) (a b c d h : ℝ) : stik_1 S a b c d h =
    fint_1 S b d h - fint_1 S b c h + fint_1 S a c h - fint_1 S a d h :=
  stik_1_structure' S a b c d h
theorem stik_2_structure (S : Fns) (a b c d h k : ℝ) : stik_2 S a b c d h k =
    fint_2 S b d h k - fint_2 S b c h k + fint_2 S a c h k - fint_2 S a d h k :=
  stik_2_structure' S a b c d h k
theorem stik_3_structure (S : Fns) (a b c d h k : ℝ) : stik_3 S a b c d h k =
    fint_3 S b d h k - fint_3 S b c h k + fint_3 S a c h k - fint_3 S a d h k :=
  stik_3_structure' S a b c d h k
theorem stik_4_structure (S : Fns) (a b c d h k l : ℝ) : stik_4 S a b c d h k l =
    fint_4 S b d h k l - fint_4 S b c h k l + fint_4 S a c h k l - fint_4 S a d h k l :=
  stik_4_structure' S a b c d h k l

theorem stik_1_acausal_zero (S : Fns) (a b c d h : ℝ) (hab : a < b) (hcd : c < d) (hbc : b ≤ c) :
    stik_1 S a b c d h = 0 := stik_1_acausal' S a b c d h hab hcd hbc
theorem stik_2_acausal_zero (S : Fns) (a b c d h k : ℝ) (hab : a < b) (hcd : c < d)
    (hbc : b ≤ c) : stik_2 S a b c d h k = 0 := stik_2_acausal' S a b c d h k hab hcd hbc
theorem stik_3_acausal_zero (S : Fns) (a b c d h k : ℝ) (hab : a < b) (hcd : c < d)
    (hbc : b ≤ c) : stik_3 S a b c d h k = 0 := stik_3_acausal' S a b c d h k hab hcd hbc
theorem stik_4_acausal_zero (S : Fns) (a b c d h k l : ℝ) (hab : a < b) (hcd : c < d)
    (hbc : b ≤ c) : stik_4 S a b c d h k l = 0 := stik_4_acausal' S a b c d h k l hab hcd hbc

theorem stik_1_split_test (S : Fns) (a m b c d h : ℝ) (_h1 : a < m) (_h2 : m < b) :
    stik_1 S a b c d h = stik_1 S a m c d h + stik_1 S m b c d h := stik_1_add_test S a m b c d h
theorem stik_2_split_test (S : Fns) (a m b c d h k : ℝ) (_h1 : a < m) (_h2 : m < b) :
    stik_2 S a b c d h k = stik_2 S a m c d h k + stik_2 S m b c d h k :=
  stik_2_add_test S a m b c d h k
theorem stik_3_split_test (S : Fns) (a m b c d h k : ℝ) (_h1 : a < m) (_h2 : m < b) :
    stik_3 S a b c d h k = stik_3 S a m c d h k + stik_3 S m b c d h k :=
  stik_3_add_test S a m b c d h k
theorem stik_4_split_test (S : Fns) (a m b c d h k l : ℝ) (_h1 : a < m) (_h2 : m < b) :
    stik_4 S a b c d h k l = stik_4 S a m c d h k l + stik_4 S m b c d h k l :=
  stik_4_add_test S a m b c d h k l

theorem stik_1_split_trial (S : Fns) (a b c m d h : ℝ) (_h1 : c < m) (_h2 : m < d) :
    stik_1 S a b c d h = stik_1 S a b c m h + stik_1 S a b m d h := stik_1_add_trial S a b c m d h
theorem stik_2_split_trial (S : Fns) (a b c m d h k : ℝ) (_h1 : c < m) (_h2 : m < d) :
    stik_2 S a b c d h k = stik_2 S a b c m h k + stik_2 S a b m d h k :=
  stik_2_add_trial S a b c m d h k
theorem stik_3_split_trial (S : Fns) (a b c m d h k : ℝ) (_h1 : c < m) (_h2 : m < d) :
    stik_3 S a b c d h k = stik_3 S a b c m h k + stik_3 S a b m d h k :=
  stik_3_add_trial S a b c m d h k
theorem stik_4_split_trial (S : Fns) (a b c m d h k l : ℝ) (_h1 : c < m) (_h2 : m < d) :
    stik_4 S a b c d h k l = stik_4 S a b c m h k l + stik_4 S a b m d h k l :=
  stik_4_add_trial S a b c m d h k l

theorem stik_1_shift (S : Fns) (a b c d h δ : ℝ) :
    stik_1 S (a+δ) (b+δ) (c+δ) (d+δ) h = stik_1 S a b c d h := stik_1_shift' S a b c d h δ
theorem stik_2_shift (S : Fns) (a b c d h k δ : ℝ) :
    stik_2 S (a+δ) (b+δ) (c+δ) (d+δ) h k = stik_2 S a b c d h k := stik_2_shift' S a b c d h k δ
theorem stik_3_shift (S : Fns) (a b c d h k δ : ℝ) :
    stik_3 S (a+δ) (b+δ) (c+δ) (d+δ) h k = stik_3 S a b c d h k := stik_3_shift' S a b c d h k δ
theorem stik_4_shift (S : Fns) (a b c d h k l δ : ℝ) :
    stik_4 S (a+δ) (b+δ) (c+δ) (d+δ) h k l = stik_4 S a b c d h k l :=
  stik_4_shift' S a b c d h k l δ

theorem steval_1_zero (S : Fns) (t a b h : ℝ) (hta : t ≤ a) : steval_1 S t a b h = 0 :=
  steval_1_zero' S t a b h hta

theorem steval_2_zero (S : Fns) (t a b h k : ℝ) (hab : a < b) (hta : t ≤ a) :
    steval_2 S t a b h k = 0 := steval_2_zero' S t a b h k hab hta

/-! ## B. algebraic identities between the closed forms -/

/-- `[-h,0] × [0,k]` from the squares `[0,h+k]²`, `[0,h]²`, `[0,k]²` -/
theorem fint2_eq (S : Fns) (hhpi : S.hpiInv = 1 / (192 * S.pi)) (a b h k : ℝ) :
    fint_2 S a b h k = (fint_1 S a b (h+k) - fint_1 S a b h - fint_1 S a b k) / 2 :=
  fint2_eq' S hhpi a b h k

example (a b h k : ℝ) :
    fint_2 model a b h k = (fint_1 model a b (h+k) - fint_1 model a b h - fint_1 model a b k) / 2 :=
  fint2_eq model model_hpiInv a b h k

/-- `[0,h] × [k,l]` as a second difference of squares -/
theorem fint4_eq (S : Fns) (hodd : ∀ x, S.erf (-x) = -S.erf x)
    (hhpi : S.hpiInv = 1 / (192 * S.pi)) (a b h k l : ℝ) :
    fint_4 S a b h k l
      = (fint_1 S a b l - fint_1 S a b (l-h) - fint_1 S a b k + fint_1 S a b (k-h)) / 2 :=
  fint4_eq' S hodd hhpi a b h k l

example (a b h k l : ℝ) : fint_4 model a b h k l
    = (fint_1 model a b l - fint_1 model a b (l-h) - fint_1 model a b k
        + fint_1 model a b (k-h)) / 2 :=
  fint4_eq model model_erf_odd model_hpiInv a b h k l

/-- `[0,h] × [0,k]` as a second difference of squares (`hh`, `hk` are not used) -/
theorem fint3_eq (S : Fns) (hmul : ∀ x y, S.exp (x + y) = S.exp x * S.exp y)
    (hne : ∀ x, S.exp x ≠ 0) (herfc : ∀ x, S.erfc x = 1 - S.erf x)
    (hodd : ∀ x, S.erf (-x) = -S.erf x) (hhpi : S.hpiInv = 1 / (192 * S.pi))
    (a b h k : ℝ) (_hh : 0 < h) (_hk : 0 < k) :
    fint_3 S a b h k = (fint_1 S a b h + fint_1 S a b k - fint_1 S a b |h-k|) / 2 :=
  fint3_eq' S ⟨hmul, hne⟩ herfc hodd hhpi a b h k

example (a b : ℝ) : fint_3 model a b 1 2
    = (fint_1 model a b 1 + fint_1 model a b 2 - fint_1 model a b |1-2|) / 2 :=
  fint3_eq model Real.exp_add Real.exp_ne_zero model_erfc model_erf_odd model_hpiInv a b 1 2
    one_pos two_pos

/-- consistency of the cases "disjoint" and "touch" of `spacetime_integrated_kernel` -/
theorem fint4_touch (S : Fns) (hexp0 : S.exp 0 = 1) (hodd : ∀ x, S.erf (-x) = -S.erf x)
    (hhpi : S.hpiInv = 1 / (192 * S.pi)) (a b h l : ℝ) :
    fint_4 S a b h h l = fint_2 S a b h (l - h) := fint4_touch' S hexp0 hodd hhpi a b h l

example (a b h l : ℝ) : fint_4 model a b h h l = fint_2 model a b h (l - h) :=
  fint4_touch model Real.exp_zero model_erf_odd model_hpiInv a b h l

/-- `fint_3` on a square is `fint_1` -/
theorem fint3_same (S : Fns) (hmul : ∀ x y, S.exp (x + y) = S.exp x * S.exp y)
    (hne : ∀ x, S.exp x ≠ 0) (herfc : ∀ x, S.erfc x = 1 - S.erf x)
    (hodd : ∀ x, S.erf (-x) = -S.erf x) (hhpi : S.hpiInv = 1 / (192 * S.pi)) (a b h : ℝ) :
    fint_3 S a b h h = fint_1 S a b h := fint3_same' S ⟨hmul, hne⟩ herfc hodd hhpi a b h

example (a b h : ℝ) : fint_3 model a b h h = fint_1 model a b h :=
  fint3_same model Real.exp_add Real.exp_ne_zero model_erfc model_erf_odd model_hpiInv a b h

/-- `∫_h^k g_z = ∫_0^k g_z - ∫_0^h g_z` -/
theorem gint2_eq (S : Fns) (hps : S.piSqrt = S.sqrt S.pi) (hfpi : S.fpiInv = 1 / (4 * S.pi))
    (z h k : ℝ) : gint_2 S z h k = gint_1 S z k - gint_1 S z h := gint2_eq' S hps hfpi z h k

example (z h k : ℝ) : gint_2 model z h k = gint_1 model z k - gint_1 model z h :=
  gint2_eq model model_piSqrt model_fpiInv z h k

theorem steval1_eq (S : Fns) (t a b h : ℝ) : steval_1 S t a b h =
    (if t ≤ a then 0 else - gint_1 S (t-a) h + (if t > b then gint_1 S (t-b) h else 0)) :=
  steval_1_structure S t a b h

theorem steval2_eq (S : Fns) (t a b h k : ℝ) : steval_2 S t a b h k =
    (if t > a then - gint_2 S (t-a) h k else 0) + (if t > b then gint_2 S (t-b) h k else 0) :=
  steval_2_structure S t a b h k

theorem ip_tik_zero_branch (S : Fns) (b xy : ℝ) :
    ip_tik S 0 b xy = 1/(4*S.pi) * S.e1 (xy/(4*b)) := ip_tik_zero' S b xy

theorem ip_tik_general (S : Fns) (a b xy : ℝ) (ha : a ≠ 0) :
    ip_tik S a b xy = 1/(4*S.pi) * (S.e1 (xy/(4*b)) - S.e1 (xy/(4*a))) := ip_tik_ne' S a b xy ha

/-! ## C. the four-term formula is a double primitive of the heat kernel -/

/-- `d/dz [ z e^{-ρ/z} + (ρ+z) Ei(-ρ/z) ] = Ei(-ρ/z)` for `z > 0`, `ρ > 0` -/
theorem Fp_deriv (S : Fns) (hexp : S.exp = Real.exp) (hei : EiLaw S) (ρ z : ℝ) (hρ : 0 < ρ)
    (hz : 0 < z) :
    HasDerivAt (fun z => z * S.exp (-ρ/z) + (ρ+z) * S.ei (-ρ/z)) (S.ei (-ρ/z)) z :=
  Fp_deriv' S hexp hei ρ z hρ hz

/-- `d/dz Ei(-ρ/z) = - e^{-ρ/z} / z` (note the sign) -/
theorem ei_deriv (S : Fns) (hei : EiLaw S) (ρ z : ℝ) (hρ : 0 < ρ) (hz : 0 < z) :
    HasDerivAt (fun z : ℝ => S.ei (-ρ / z)) (-(Real.exp (-ρ / z) / z)) z :=
  ei_inner_deriv S hei ρ z hρ hz

/-- `∂_z g_z = -G(z,·)`, `G(z,x) = fpiInv · e^{-r/(4z)} / z` with `r = |x|²` -/
theorem g_deriv (S : Fns) (hei : EiLaw S) (r z : ℝ) (hr : 0 < r) (hz : 0 < z) :
    HasDerivAt (fun z => sl_g S z 0 r) (-(S.fpiInv * (Real.exp (-r / (4 * z)) / z))) z :=
  g_deriv' S hei r z hr hz

/-- `∂_z f_z = g_z` (so `∂_z² f_z = -G`) -/
theorem f_deriv (S : Fns) (hexp : S.exp = Real.exp) (hei : EiLaw S) (r z : ℝ) (hr : 0 < r)
    (hz : 0 < z) : HasDerivAt (fun z => sl_f S z 0 r) (sl_g S z 0 r) z :=
  f_deriv' S hexp hei r z hr hz

example (r z : ℝ) (hr : 0 < r) (hz : 0 < z) :
    HasDerivAt (fun z => sl_f model z 0 r) (sl_g model z 0 r) z :=
  f_deriv model model_exp model_eiLaw r z hr hz

example (r z : ℝ) (hr : 0 < r) (hz : 0 < z) :
    HasDerivAt (fun z => sl_g model z 0 r) (-(model.fpiInv * (Real.exp (-r / (4 * z)) / z))) z :=
  g_deriv model model_eiLaw r z hr hz

example (ρ z : ℝ) (hρ : 0 < ρ) (hz : 0 < z) :
    HasDerivAt (fun z => z * model.exp (-ρ/z) + (ρ+z) * model.ei (-ρ/z)) (model.ei (-ρ/z)) z :=
  Fp_deriv model model_exp model_eiLaw ρ z hρ hz

end Stbem.Formulas.R
