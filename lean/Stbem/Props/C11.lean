import Stbem.Props.SL
import Stbem.Props.Formulas
import Stbem.Props.C15

/-!
# C11 — Additivity under splitting

the time kernels telescope (exact additivity in either time interval, for every choice of special functions), the Ψ-combinations of the closed-form path are exactly additive in space (fint2_eq / fint4_eq / touch / same), the panels of parent and children tile the same rectangle and the rules are exact on polynomials. Additivity for the true kernel on the quadrature path holds up to quadrature error only (search).

The theorems are proved in `Stbem.Props.SL` (model `Stbem.Model.SingleLayer`, tied to `src/single_layer.py` by exact
execution of the real code), `Stbem.Props.Formulas` (terms regenerated from the Python source on every run) and
`Stbem.Props.C15`; this file lists, as aliases, the ones that carry property C11.
-/
namespace Stbem.C11

alias dtk_split_test := Stbem.Formulas.R.dtk_split_test
alias dtk_split_trial := Stbem.Formulas.R.dtk_split_trial
alias tik_split := Stbem.Formulas.R.tik_split
alias stik_1_split_test := Stbem.Formulas.R.stik_1_split_test
alias stik_2_split_test := Stbem.Formulas.R.stik_2_split_test
alias stik_3_split_test := Stbem.Formulas.R.stik_3_split_test
alias stik_4_split_test := Stbem.Formulas.R.stik_4_split_test
alias stik_1_split_trial := Stbem.Formulas.R.stik_1_split_trial
alias stik_2_split_trial := Stbem.Formulas.R.stik_2_split_trial
alias stik_3_split_trial := Stbem.Formulas.R.stik_3_split_trial
alias stik_4_split_trial := Stbem.Formulas.R.stik_4_split_trial
alias fint2_eq := Stbem.Formulas.R.fint2_eq
alias fint4_eq := Stbem.Formulas.R.fint4_eq
alias fint4_touch := Stbem.Formulas.R.fint4_touch
alias fint3_same := Stbem.Formulas.R.fint3_same
alias panels_tile := Stbem.SL.panels_tile
alias panels_cover_unique := Stbem.SL.panels_cover_unique
alias duffy2_exact := Stbem.Quad.duffy2_exact
alias product2_exact := Stbem.Quad.product2_exact

end Stbem.C11
