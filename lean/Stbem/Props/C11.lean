import Stbem.Model.SingleLayer
namespace Stbem.SL
theorem placeholder_C11 : True := trivial
end Stbem.SL
