import Stbem.Lemmas.MeshInit
import Stbem.Lemmas.MeshOps

/-!
# C02 — the mesh refinement model preserves the mesh invariant

`Inv` (tiling by half-open rectangles, 1-irregularity across edges incl. the glued seam, unique
element indices) holds for the initial tensor mesh and is preserved by every refinement operation
of the executable model `Stbem.Model.Mesh`; `refine_axis` never trips its assertions on a leaf and
its fuel `level + 1` suffices.  Helper lemmas: `Stbem.Lemmas.MeshGeom/MeshRefine/MeshInit/MeshOps`.
-/
namespace Stbem.Mesh

/-- strictly increasing -/
def StrictInc (l : List Rat) : Prop := l.Pairwise (· < ·)

theorem init_inv (glue : Bool) (X T : List Rat) (hX : StrictInc X) (hT : StrictInc T)
    (hX2 : 2 ≤ X.length) (hT2 : 2 ≤ T.length) : Inv (init glue X T) :=
  init_inv' glue X T hX hT hX2 hT2

theorem refines_refl (m : Mesh) : Refines m m := Refines.refl m

theorem refines_trans {a b c : Mesh} (h1 : Refines a b) (h2 : Refines b c) : Refines a c :=
  h1.trans h2

/-- one legal bisection: all edge-neighbours of `c` are at least as deep in the axis -/
theorem bisect_inv (m : Mesh) (h : Inv m) (c : Cell) (hc : c ∈ m.leaves) (ax : Ax)
    (hn : ∀ s, ∀ n ∈ m.leaves, adjacent m c s n = true → c.level ax ≤ n.level ax) :
    Inv (bisect m c ax) ∧ Refines m (bisect m c ax) :=
  ⟨bisect_inv' h hc ax (fun s n hnl ha => hn s n hnl (adjacent_iff.mpr ha)), bisect_refines h hc ax⟩

/-- `refine_axis` never fails on a leaf of a mesh satisfying the invariant (no assertion fires, the
fuel `level+1` suffices), preserves the invariant, removes exactly `c` among the leaves that are at
least as deep as `c` in the axis, and only refines -/
theorem refineAxis_ok (m : Mesh) (h : Inv m) (c : Cell) (hc : c ∈ m.leaves) (ax : Ax) (fuel : Nat)
    (hf : c.level ax < fuel) :
    ∃ m', refineAxis fuel m c.id ax = .ok m' ∧ Inv m' ∧ Refines m m' ∧ c ∉ m'.leaves ∧
      (∀ d ∈ m.leaves, d ≠ c → c.level ax ≤ d.level ax → d ∈ m'.leaves) := by
  obtain ⟨m', h1, r⟩ := refineAxis_res ax fuel m c h hc hf
  exact ⟨m', h1, r.inv, r.ref, r.gone, r.keep⟩

theorem refineId_ok (m : Mesh) (h : Inv m) (c : Cell) (hc : c ∈ m.leaves) (ax : Ax) :
    ∃ m', refineId m c.id ax = .ok m' ∧ Inv m' ∧ Refines m m' := by
  obtain ⟨m', h1, r⟩ := refineId_res h hc ax
  exact ⟨m', h1, r.inv, r.ref⟩

/-- whatever id is passed: if the call returns, the invariant holds -/
theorem refineId_inv (m : Mesh) (h : Inv m) (id : Nat) (ax : Ax) (m' : Mesh)
    (hr : refineId m id ax = .ok m') : Inv m' ∧ Refines m m' :=
  refineId_inv' h hr

theorem refineBoth_ok (m : Mesh) (h : Inv m) (c : Cell) (hc : c ∈ m.leaves) :
    ∃ r, refineBoth m c.id = .ok r ∧ Inv r.1 ∧ Refines m r.1 :=
  refineBoth_res h hc

theorem refineAll_inv (m : Mesh) (h : Inv m) (ids : List Nat) (ax : Ax) (m' : Mesh)
    (hr : refineAll m ids ax = .ok m') : Inv m' ∧ Refines m m' :=
  refineAll_inv' h hr

theorem uniformRefine_inv (m : Mesh) (h : Inv m) (m' : Mesh)
    (hr : uniformRefine m = .ok m') : Inv m' ∧ Refines m m' :=
  uniformRefine_inv' h hr

theorem uniformRefineSpace_inv (m : Mesh) (h : Inv m) (m' : Mesh)
    (hr : uniformRefineSpace m = .ok m') : Inv m' ∧ Refines m m' :=
  uniformRefineSpace_inv' h hr

theorem dorflerIso_inv (m : Mesh) (h : Inv m) (eta : List Rat) (perm : List Nat) (theta : Rat)
    (m' : Mesh) (hr : dorflerIso m eta perm theta = .ok m') : Inv m' ∧ Refines m m' :=
  dorflerIso_inv' h hr

theorem dorflerAniso_inv (m : Mesh) (h : Inv m) (eta : List (Rat × Rat)) (theta : Rat)
    (m' : Mesh) (hr : dorflerAniso m eta theta = .ok m') : Inv m' ∧ Refines m m' :=
  dorflerAniso_inv' h hr

theorem grading_inv (fixed : Bool) (fuel : Nat) (m : Mesh) (h : Inv m) (p q : Nat) (K : Rat)
    (m' : Mesh) (hr : grading fixed fuel m p q K = .ok m') : Inv m' ∧ Refines m m' :=
  grading_inv' fixed fuel h hr



/-! ### non-vacuity: the hypotheses are satisfiable and the model really runs -/

/-! ## non-vacuity -/

theorem strictInc_012 : StrictInc [0, 1, 2] := by
  simp [StrictInc]

theorem strictInc_01 : StrictInc [0, 1] := by
  simp [StrictInc]

/-- a concrete glued mesh satisfying the invariant -/
theorem inv_example : Inv (init true [0, 1, 2] [0, 1]) :=
  init_inv true [0, 1, 2] [0, 1] strictInc_012 strictInc_01 (by simp) (by simp)

def leafIds (r : Except String Mesh) : Option (List Nat × Nat) :=
  match r with
  | .ok m => some (m.leaves.map (·.id), m.nElems)
  | .error _ => none

/-- two roots `0 = [0,1]`, `1 = [1,2]`; refining `0` in space gives `2, 3`; refining `3` again in
space forces the recursive refinement of its coarser neighbour `1` (children `4, 5`) before `3`
is bisected (children `6, 7`) -/
theorem run_example :
    leafIds (do
      let m ← refineId (init true [0, 1, 2] [0, 1]) 0 .space
      refineId m 3 .space) = some ([2, 4, 5, 6, 7], 8) := by
  decide +kernel

/-- a stale id is rejected (the `assert not elem.children` of the Python code) -/
theorem run_example_stale :
    leafIds (do
      let m ← refineId (init true [0, 1, 2] [0, 1]) 0 .space
      refineId m 0 .space) = none := by
  decide +kernel


end Stbem.Mesh
