import Stbem.Model.Mesh
namespace Stbem.Mesh
theorem placeholder_c02 : True := trivial
end Stbem.Mesh
