import Stbem.Props.SL
import Stbem.Props.Formulas
import Stbem.Props.C15

/-!
# C01 — Galerkin entries: panel recursion, rules, request, kernels, closed forms

the panel recursion is total on grid-aligned inputs, its panels tile the parameter rectangle, every singular rule sits exactly where the integrand is singular (diagonal, corners, seam), the request feeds each quadrature variable to the right parametrisation, the composite rules are exact on polynomials (C15), the time kernel and the closed forms satisfy their structural, differential and Ψ identities. That the fixed order-12 log rules resolve the heat kernel to 1e-7 is NOT a theorem (search only): claim partial.

The theorems are proved in `Stbem.Props.SL` (model `Stbem.Model.SingleLayer`, tied to `src/single_layer.py` by exact
execution of the real code), `Stbem.Props.Formulas` (terms regenerated from the Python source on every run) and
`Stbem.Props.C15`; this file lists, as aliases, the ones that carry property C01.
-/
namespace Stbem.C01

alias panels_total := Stbem.SL.panels_total
alias panels_total_depth := Stbem.SL.panels_total_depth
alias panels_fuel_irrelevant := Stbem.SL.panels_fuel_irrelevant
alias seam_clause_of_nested := Stbem.SL.seam_clause_of_nested
alias panels_tile := Stbem.SL.panels_tile
alias panels_cover_unique := Stbem.SL.panels_cover_unique
alias panels_ok_pre := Stbem.SL.panels_ok_pre
alias panels_aligned := Stbem.SL.panels_aligned
alias panels_open_misses_diag := Stbem.SL.panels_open_misses_diag
alias panels_closed_meets_diag := Stbem.SL.panels_closed_meets_diag
alias panels_seam := Stbem.SL.panels_seam
alias swap_consistent_fst := Stbem.SL.swap_consistent_fst
alias swap_consistent_snd := Stbem.SL.swap_consistent_snd
alias stik_succeeds := Stbem.SL.stik_succeeds
alias stik_symm := Stbem.SL.stik_symm
alias dtk_structure := Stbem.Formulas.R.dtk_structure
alias dtk_four_term := Stbem.Formulas.R.dtk_four_term
alias Fp_deriv := Stbem.Formulas.R.Fp_deriv
alias ei_deriv := Stbem.Formulas.R.ei_deriv
alias g_deriv := Stbem.Formulas.R.g_deriv
alias f_deriv := Stbem.Formulas.R.f_deriv
alias stik_1_structure := Stbem.Formulas.R.stik_1_structure
alias stik_2_structure := Stbem.Formulas.R.stik_2_structure
alias stik_3_structure := Stbem.Formulas.R.stik_3_structure
alias stik_4_structure := Stbem.Formulas.R.stik_4_structure
alias fint2_eq := Stbem.Formulas.R.fint2_eq
alias fint3_eq := Stbem.Formulas.R.fint3_eq
alias fint4_eq := Stbem.Formulas.R.fint4_eq
alias fint4_touch := Stbem.Formulas.R.fint4_touch
alias fint3_same := Stbem.Formulas.R.fint3_same
alias duffy2_exact := Stbem.Quad.duffy2_exact
alias product2_exact := Stbem.Quad.product2_exact
alias apply2_duffy2_false := Stbem.Quad.apply2_duffy2_false
alias apply2_mirrorX2 := Stbem.Quad.apply2_mirrorX2
alias apply2_mirrorY2 := Stbem.Quad.apply2_mirrorY2
alias integrate2_eq := Stbem.Quad.integrate2_eq

end Stbem.C01
