import Stbem.Model.SingleLayer
namespace Stbem.SL
theorem placeholder_C01 : True := trivial
end Stbem.SL
