import Stbem.Model.Mesh
namespace Stbem.Mesh
theorem placeholder_C19 : True := trivial
end Stbem.Mesh
