import Stbem.Props.C02
import Stbem.Lemmas.MeshGrading
import Stbem.Lemmas.MeshGradingTerm
import Stbem.Lemmas.WindowReal

/-!
# C19 — grading (`refine_grading`, `K = 4`, `σ = p/q ∈ {1, 3/2, 2}`)

* **partial correctness** (`grading_window`, both variants of the space loop): whatever `grading`
  returns satisfies `Inv`, refines the input and has every leaf in the window
  `h_t/K < h_x^σ < K h_t` (`inWindow_iff`: decided without roots; `inWindow_iff_real`: the same
  statement with the real power `h_x^(p/q)`);
* **no assertion after the repair** (`gradeSweep_ok`, `grading_fixed_error`): with the space loop
  that skips elements which are no longer leaves, a sweep never fails on a mesh satisfying `Inv`;
  the only possible error of `grading true` is the exhausted sweep budget;
* **the unrepaired loop aborts** (`grading_unfixed_can_fail`, `grading_unfixed_can_fail_uniform`):
  kernel-evaluated witnesses on reachable meshes (`assert not elem.children`, `mesh.py:440`);
* **termination** (`grading_terminates`, `grading_total`, `grading_total_reach`): on meshes all of
  whose root cells have the same size in time and the same size in space (equidistant initial
  grids, any refinement history), for `p, q ≥ 1` and `K = 4` there is a sweep budget for which the
  repaired loop returns, with all of the above.

Helper lemmas: `Stbem.Lemmas.MeshGrading` (sweeps), `MeshTrace` (`refineAxis` as a sequence of
level-bounded bisections), `MeshGradingTerm` (potential argument), `WindowReal`.
-/
namespace Stbem.Mesh

/-! ## 1. partial correctness -/

/-- `InWindow c p q K` (defined in `Lemmas/MeshGrading`): neither mark applies to the leaf -/
theorem inWindow_def (c : Cell) (p q : Nat) (K : Rat) :
    InWindow c p q K ↔ (markTime c p q K = false ∧ markSpace c p q K = false) := Iff.rfl

theorem grading_window (fixed : Bool) (fuel : Nat) (m : Mesh) (h : Inv m) (p q : Nat) (K : Rat)
    (m' : Mesh) (hr : grading fixed fuel m p q K = .ok m') :
    Inv m' ∧ Refines m m' ∧ ∀ c ∈ m'.leaves, InWindow c p q K :=
  grading_window' fixed fuel h hr

/-- meaning of the window without roots -/
theorem inWindow_iff (c : Cell) (p q : Nat) (K : Rat) :
    InWindow c p q K ↔ ((c.t1 - c.t0) / K) ^ q < (c.x1 - c.x0) ^ p ∧
      (c.x1 - c.x0) ^ p < (K * (c.t1 - c.t0)) ^ q :=
  inWindow_iff' c p q K

/-- meaning of the window with the real exponent `σ = p/q`: `h_t/K < h_x^σ < K h_t` -/
theorem inWindow_iff_real (c : Cell) (hc : c.t0 < c.t1 ∧ c.x0 < c.x1) (p : ℕ) {q : ℕ} (hq : 0 < q)
    {K : ℚ} (hK : 0 < K) :
    InWindow c p q K ↔
      (((c.t1 - c.t0 : ℚ) : ℝ) / (K : ℝ) < ((c.x1 - c.x0 : ℚ) : ℝ) ^ ((p : ℝ) / (q : ℝ)) ∧
       ((c.x1 - c.x0 : ℚ) : ℝ) ^ ((p : ℝ) / (q : ℝ)) < (K : ℝ) * ((c.t1 - c.t0 : ℚ) : ℝ)) :=
  inWindow_iff_rpow c hc p hq hK

/-- the leaves of a mesh satisfying `Inv` are proper, so `inWindow_iff_real` applies to them -/
theorem grading_window_real (fixed : Bool) (fuel : Nat) (m : Mesh) (h : Inv m) (p : ℕ) {q : ℕ}
    (hq : 0 < q) {K : ℚ} (hK : 0 < K) (m' : Mesh) (hr : grading fixed fuel m p q K = .ok m') :
    ∀ c ∈ m'.leaves,
      ((c.t1 - c.t0 : ℚ) : ℝ) / (K : ℝ) < ((c.x1 - c.x0 : ℚ) : ℝ) ^ ((p : ℝ) / (q : ℝ)) ∧
      ((c.x1 - c.x0 : ℚ) : ℝ) ^ ((p : ℝ) / (q : ℝ)) < (K : ℝ) * ((c.t1 - c.t0 : ℚ) : ℝ) := by
  obtain ⟨i, _, w⟩ := grading_window fixed fuel m h p q K m' hr
  intro c hc
  exact (inWindow_iff_real c (i.tiles.proper c hc) p hq hK).mp (w c hc)

/-! ## 2. the repaired loop raises no assertion -/

theorem gradeSweep_ok (m : Mesh) (h : Inv m) (p q : Nat) (K : Rat) :
    ∃ r, gradeSweep true m p q K = .ok r ∧ Inv r.1 ∧ Refines m r.1 :=
  gradeSweep_ok' h p q K

theorem grading_fixed_error (fuel : Nat) (m : Mesh) (h : Inv m) (p q : Nat) (K : Rat) (e : String)
    (hr : grading true fuel m p q K = .error e) : e = "fuel" :=
  grading_fixed_error' fuel h hr

/-! ## 3. the unrepaired loop can abort -/

/-- a refinement history: `(element index, axis)` steps of `refineId` -/
def hist (m : Mesh) (l : List (Nat × Ax)) : Except String Mesh :=
  l.foldlM (fun m s => refineId m s.1 s.2) m

theorem hist_inv {m : Mesh} (h : Inv m) {l : List (Nat × Ax)} {m' : Mesh}
    (hr : hist m l = .ok m') : Inv m' ∧ Refines m m' :=
  foldlM_except_inv (fun m (s : Nat × Ax) => refineId m s.1 s.2) Inv Refines Refines.refl
    (fun _ _ _ => Refines.trans) (fun _ _ _ hI hf => refineId_inv' hI hf) l m m' h hr

def isErr (r : Except String Mesh) (e : String) : Bool :=
  match r with
  | .error e' => e' == e
  | .ok _ => false

def isOk (r : Except String Mesh) : Bool :=
  match r with
  | .error _ => false
  | .ok _ => true

theorem isErr_iff {r : Except String Mesh} {e : String} : isErr r e = true ↔ r = .error e := by
  cases r <;> simp [isErr]

theorem isOk_iff {r : Except String Mesh} : isOk r = true ↔ ∃ m, r = .ok m := by
  cases r <;> simp [isOk]

/-- Witness 1 (two roots of widths 1 and 2 as on the L-shape, one time slab): root `0 = [0,1]` is
refined twice in space towards `x = 0`, then element `5 = [1/4,1/2]` and its lower child `6` in time.
Root `1 = [1,3]×[0,1]` (`h_x² = 4 = K h_t`) is marked for space refinement; `12`, `13`
(`h_t = h_x = 1/4`) are marked for time refinement; the closure of the time refinement of `12`
bisects `10 = [1/2,1]×[0,1/2]` and then root `1` in time — root `1` is no longer a leaf when the
space loop reaches it. -/
def witness1 : Except String Mesh :=
  hist (init false [0, 1, 3] [0, 1]) [(0, .space), (2, .space), (5, .time), (6, .time)]

theorem witness1_fails :
    isErr (witness1 >>= fun m => grading false 50 m 2 1 4) "assert:grading-not-leaf" = true := by
  decide +kernel

theorem witness1_fixed_ok : isOk (witness1 >>= fun m => grading true 50 m 2 1 4) = true := by
  decide +kernel

theorem strictInc_013 : StrictInc [0, 1, 3] := by
  simp [StrictInc]

theorem grading_unfixed_witness :
    ∃ m, Inv m ∧ grading false 50 m 2 1 4 = .error "assert:grading-not-leaf" ∧
      ∃ m', grading true 50 m 2 1 4 = .ok m' := by
  have h1 := witness1_fails
  have h2 := witness1_fixed_ok
  cases hw : witness1 with
  | error e => rw [hw] at h2; simp [bind, Except.bind, isOk] at h2
  | ok m =>
    rw [hw] at h1 h2
    simp only [bind, Except.bind] at h1 h2
    have hinv : Inv m := (hist_inv (init_inv false [0, 1, 3] [0, 1] strictInc_013 strictInc_01
      (by simp) (by simp)) hw).1
    exact ⟨m, hinv, isErr_iff.mp h1, isOk_iff.mp h2⟩

/-- the unrepaired grading loop aborts on a reachable mesh on which the repaired loop succeeds -/
theorem grading_unfixed_can_fail :
    ∃ m, Inv m ∧ (∃ e, grading false 50 m 2 1 4 = .error e) ∧
      (∃ m', grading true 50 m 2 1 4 = .ok m') := by
  obtain ⟨m, h1, h2, h3⟩ := grading_unfixed_witness
  exact ⟨m, h1, ⟨_, h2⟩, h3⟩

/-- Witness 2 (two unit roots, as on the unit square): root `0` is refined four times in space
towards `x = 0`, then the cell `[1/16,1/8]` six times in time towards `t = 0`.  The closure builds
the staircase of levels `(lt,lx) = (6,4),(5,3),(4,2),(3,1),(2,0)`; the leaf `(2,0)` in root `1` is
marked for space refinement, the leaf `(6,4)` for time refinement, and the closure of the latter
runs down the staircase.  (On unit roots a chain of length ≥ 4 is necessary for `σ = 2`.) -/
def witness2 : Except String Mesh :=
  hist (init false [0, 1, 2] [0, 1])
    [(0, .space), (2, .space), (4, .space), (6, .space),
     (9, .time), (10, .time), (16, .time), (24, .time), (34, .time), (46, .time)]

theorem witness2_fails :
    isErr (witness2 >>= fun m => grading false 50 m 2 1 4) "assert:grading-not-leaf" = true := by
  decide +kernel

theorem witness2_ok : isOk witness2 = true := by
  decide +kernel

/-! ## 4. termination on size-uniform meshes -/

/-- `Uniform Ht Hx m`: a leaf of levels `(lt, lx)` has the size `Ht/2^lt × Hx/2^lx` -/
theorem uniform_def (Ht Hx : Rat) (m : Mesh) :
    Uniform Ht Hx m ↔ ∀ c ∈ m.leaves, c.t1 - c.t0 = Ht / 2 ^ c.lt ∧ c.x1 - c.x0 = Hx / 2 ^ c.lx :=
  Iff.rfl

/-- the initial mesh over equidistant grids is uniform -/
theorem uniform_init (glue : Bool) (X T : List Rat) (Ht Hx : Rat)
    (hX : ∀ p ∈ pairs X, p.2 - p.1 = Hx) (hT : ∀ p ∈ pairs T, p.2 - p.1 = Ht) :
    Uniform Ht Hx (init glue X T) :=
  init_uniform glue hX hT

/-- uniformity is preserved by every `refineId` (hence by every operation of the model) -/
theorem uniform_refineId (m : Mesh) (h : Inv m) (Ht Hx : Rat) (hu : Uniform Ht Hx m) (id : Nat)
    (ax : Ax) (m' : Mesh) (hr : refineId m id ax = .ok m') : Uniform Ht Hx m' :=
  refineId_uniform h hu hr

/-- a sweep of the repaired loop that marks something strictly decreases the potential
`Σ_leaves (2^(Lt-lt+Lx-lx+1) - 1)` of a target `(Lt, Lx)` whose cell is in the window, and keeps
all leaves below the target -/
theorem gradeSweep_progress (Ht Hx : Rat) (p q : Nat) (K : Rat) (Lt Lx : Nat)
    (T : Target Ht Hx p q K Lt Lx) (m : Mesh) (h : Inv m) (hu : Uniform Ht Hx m)
    (hund : Under Lt Lx m) :
    ∃ r, gradeSweep true m p q K = .ok r ∧ Inv r.1 ∧
      ((r.2 = false) ∨ (r.2 = true ∧ Uniform Ht Hx r.1 ∧ Under Lt Lx r.1 ∧
        pot Lt Lx r.1 < pot Lt Lx m)) :=
  gradeSweep_St T h hu hund

/-- **termination** (`K = 4`, `σ = p/q` with `p, q ≥ 1`) -/
theorem grading_terminates (m : Mesh) (h : Inv m) (Ht Hx : Rat) (hHt : 0 < Ht) (hHx : 0 < Hx)
    (hu : Uniform Ht Hx m) (p q : Nat) (hp : 1 ≤ p) (hq : 1 ≤ q) :
    ∃ fuel m', grading true fuel m p q 4 = .ok m' :=
  grading_terminates' h hHt hHx hu hp hq (by norm_num) (by norm_num)

/-- **C19 on size-uniform meshes**: the repaired grading terminates without error, only refines,
keeps the invariant, and every leaf ends in the window -/
theorem grading_total (m : Mesh) (h : Inv m) (Ht Hx : Rat) (hHt : 0 < Ht) (hHx : 0 < Hx)
    (hu : Uniform Ht Hx m) (p q : Nat) (hp : 1 ≤ p) (hq : 1 ≤ q) :
    ∃ fuel m', grading true fuel m p q 4 = .ok m' ∧ Inv m' ∧ Refines m m' ∧
      ∀ c ∈ m'.leaves, InWindow c p q 4 := by
  obtain ⟨fuel, m', hr⟩ := grading_terminates m h Ht Hx hHt hHx hu p q hp hq
  exact ⟨fuel, m', hr, grading_window true fuel m h p q 4 m' hr⟩

/-- meshes reachable from `m0` by `refineId` steps (every refinement operation of the model acts
through `refineId` only) -/
inductive Reach (m0 : Mesh) : Mesh → Prop
  | base : Reach m0 m0
  | step {m m' : Mesh} {id : Nat} {ax : Ax} : Reach m0 m → refineId m id ax = .ok m' → Reach m0 m'

theorem reach_inv {m0 m : Mesh} (h0 : Inv m0) (hr : Reach m0 m) : Inv m := by
  induction hr with
  | base => exact h0
  | step _ hs ih => exact (refineId_inv' ih hs).1

theorem reach_uniform {m0 m : Mesh} (h0 : Inv m0) {Ht Hx : Rat} (hu : Uniform Ht Hx m0)
    (hr : Reach m0 m) : Uniform Ht Hx m := by
  induction hr with
  | base => exact hu
  | step hprev hs ih => exact refineId_uniform (reach_inv h0 hprev) ih hs

/-- **C19 from any mesh reachable from an equidistant initial mesh**, `σ ∈ {1, 3/2, 2}`, `K = 4` -/
theorem grading_total_reach (glue : Bool) (X T : List Rat) (hX : StrictInc X) (hT : StrictInc T)
    (hX2 : 2 ≤ X.length) (hT2 : 2 ≤ T.length) (Ht Hx : Rat)
    (hXe : ∀ p ∈ pairs X, p.2 - p.1 = Hx) (hTe : ∀ p ∈ pairs T, p.2 - p.1 = Ht)
    (m : Mesh) (hm : Reach (init glue X T) m) (p q : Nat)
    (hσ : (p, q) = (1, 1) ∨ (p, q) = (3, 2) ∨ (p, q) = (2, 1)) :
    ∃ fuel m', grading true fuel m p q 4 = .ok m' ∧ Inv m' ∧ Refines m m' ∧
      ∀ c ∈ m'.leaves, InWindow c p q 4 := by
  have h0 := init_inv glue X T hX hT hX2 hT2
  have hu0 := uniform_init glue X T Ht Hx hXe hTe
  obtain ⟨xp, hxp⟩ := pairs_ne_nil hX2
  obtain ⟨tp, htp⟩ := pairs_ne_nil hT2
  have hHx : 0 < Hx := by
    have := (pairs_mem hX xp hxp).1
    have := hXe xp hxp
    linarith
  have hHt : 0 < Ht := by
    have := (pairs_mem hT tp htp).1
    have := hTe tp htp
    linarith
  have hpq : 1 ≤ p ∧ 1 ≤ q := by
    rcases hσ with e | e | e <;> (injection e with e1 e2; subst e1; subst e2; simp)
  exact grading_total m (reach_inv h0 hm) Ht Hx hHt hHx (reach_uniform h0 hu0 hm) p q hpq.1 hpq.2

/-- on witness 2 (unit roots) the unrepaired loop aborts, the repaired one terminates correctly -/
theorem grading_unfixed_can_fail_uniform :
    ∃ m, Inv m ∧ Uniform 1 1 m ∧ grading false 50 m 2 1 4 = .error "assert:grading-not-leaf" ∧
      ∃ fuel m', grading true fuel m 2 1 4 = .ok m' ∧ Inv m' ∧ Refines m m' ∧
        ∀ c ∈ m'.leaves, InWindow c 2 1 4 := by
  have h1 := witness2_fails
  cases hw : witness2 with
  | error e => have h2 := witness2_ok; rw [hw] at h2; simp [isOk] at h2
  | ok m =>
    rw [hw] at h1
    simp only [bind, Except.bind] at h1
    have h0 : Inv (init false [0, 1, 2] [0, 1]) :=
      init_inv false [0, 1, 2] [0, 1] strictInc_012 strictInc_01 (by simp) (by simp)
    have hu0 : Uniform 1 1 (init false [0, 1, 2] [0, 1]) :=
      uniform_init false _ _ 1 1 (by simp [pairs]; norm_num) (by simp [pairs])
    have hreach : ∀ (l : List (Nat × Ax)) (a b : Mesh), Reach (init false [0, 1, 2] [0, 1]) a →
        hist a l = .ok b → Reach (init false [0, 1, 2] [0, 1]) b := by
      intro l
      induction l with
      | nil => intro a b ha hb; cases hb; exact ha
      | cons s l ih =>
        intro a b ha hb
        simp only [hist, List.foldlM_cons, bind, Except.bind] at hb
        split at hb
        · cases hb
        · rename_i a1 hs
          exact ih a1 b (Reach.step ha hs) hb
    have hr := hreach _ _ _ Reach.base hw
    have hinv := reach_inv h0 hr
    have hu := reach_uniform h0 hu0 hr
    exact ⟨m, hinv, hu, isErr_iff.mp h1,
      grading_total m hinv 1 1 (by norm_num) (by norm_num) hu 2 1 (by norm_num) (by norm_num)⟩

/-! ## non-vacuity -/

/-- equidistant grids exist: the unit-square boundary `[0,1,2,3,4]`, one time slab -/
example : ∀ p ∈ pairs ([0, 1, 2, 3, 4] : List Rat), p.2 - p.1 = 1 := by
  simp [pairs]; norm_num

/-- all leaves in the window, decided -/
def allInWindow (r : Except String Mesh) (p q : Nat) (K : Rat) (minLeaves : Nat) : Bool :=
  match r with
  | .ok m => m.leaves.all (fun c => !markTime c p q K && !markSpace c p q K) &&
      decide (minLeaves ≤ m.leaves.length)
  | .error _ => false

/-- the repaired loop really runs: glued unit square, root `0` refined twice in space (closure
refines the neighbours), then grading with `σ = 2`: result has ≥ 10 leaves, all in the window -/
example : allInWindow
    (hist (init true [0, 1, 2, 3, 4] [0, 1]) [(0, .space), (4, .space)] >>= fun m =>
      grading true 50 m 2 1 4) 2 1 4 10 = true := by
  decide +kernel

/-- `σ = 3/2` and `σ = 1` on the same mesh -/
example : allInWindow
    (hist (init true [0, 1, 2, 3, 4] [0, 1]) [(0, .space), (4, .space)] >>= fun m =>
      grading true 50 m 3 2 4) 3 2 4 8 = true := by
  decide +kernel

example : allInWindow
    (hist (init true [0, 1, 2, 3, 4] [0, 1]) [(0, .space), (4, .space)] >>= fun m =>
      grading true 50 m 1 1 4) 1 1 4 4 = true := by
  decide +kernel

/-- on witness 1 the repaired loop ends with all leaves in the window -/
example : allInWindow (witness1 >>= fun m => grading true 50 m 2 1 4) 2 1 4 20 = true := by
  decide +kernel

/-- the window is a non-trivial condition: the root cell `[0,1]×[1,3]` of witness 1 is outside -/
example : ¬ InWindow ⟨0, 1, 1, 3, 0, 0, 1, none, 0⟩ 2 1 4 := by
  simp [InWindow, markTime, markSpace]; norm_num

/-- a target exists for the unit cell and `σ = 2`: `(Lt, Lx) = (0, 0)` -/
example : Target 1 1 2 1 4 0 0 := ⟨by norm_num, by norm_num, by norm_num, by norm_num, by norm_num⟩

end Stbem.Mesh

section axioms
open Stbem.Mesh
end axioms
