import Stbem.Props.NormsTie
import Stbem.Props.C14Integral14

/-!
# C14 (supplement) — the H^{1/4} identification for the code REGENERATED FROM `src/norms.py`

`NormsTie.gen_seminorm_h_1_4_eq`: the generated `seminorm_h_1_4` is `powHalf (b - a) * semi14 g14 f a (b - a)` where `powHalf`
stands for `h ↦ h**(1/2)`.  With `Props/C14Integral14.lean`: for polynomial data within the exactness range the generated
routine returns `powHalf(h) · h^{-1/2} ·` (Slobodeckij double integral of the definition), i.e. the double integral itself as
soon as `powHalf h` is the square root of `h` (in the exact correspondence runs `h` is a rational square and `powHalf` its
exact root).
-/
namespace Stbem.NormsTie
open Stbem.Quad Stbem.QuadConv Stbem.NormsConv Stbem.QuadTie
open Stbem.Gen Stbem.Gen.NormsGen intervalIntegral

/-- **H^{1/4}, exactness on polynomials, for the generated code**, `powHalf` arbitrary -/
theorem gen_h14_eq_integral_poly (g14 gl gx : Rule1) (powHalf : Rat → Rat) (cs : List Rat) (a b : Rat) (hab : a < b)
    (deg : Nat) (hcs : cs.length ≤ deg + 1) (N : Nat) (hN : 2 * deg ≤ N)
    (hm : ∀ k, k ≤ N → mom g14 k = 2 / (2 * (k : Rat) + 1)) :
    (((sloOf g14 gl gx).seminorm_h_1_4 powHalf (evalPoly cs) a b : Rat) : ℝ) =
      (powHalf (b - a) : ℝ) * (((b : ℝ) - a) ^ (-(1 / 2) : ℝ) * ∫ x in (a : ℝ)..(b : ℝ), ∫ y in (a : ℝ)..(b : ℝ),
        (evalPolyR cs x - evalPolyR cs y) ^ 2 / |x - y| ^ ((3 : ℝ) / 2)) := by
  rw [gen_seminorm_h_1_4_eq]
  push_cast
  have h := C14.semi14_eq_integral_square cs a (b - a) (by linarith) deg hcs g14 N hN hm
  push_cast at h
  have e : (a : ℝ) + ((b : ℝ) - a) = b := by ring
  rw [e] at h
  rw [h]

/-- … and when `powHalf (b - a)` is the square root of `b - a`, the generated routine returns the Slobodeckij double
integral `∫_a^b ∫_a^b |f x - f y|² / |x - y|^{3/2} dy dx` of the definition -/
theorem gen_h14_exact (g14 gl gx : Rule1) (powHalf : Rat → Rat) (cs : List Rat) (a b : Rat) (hab : a < b)
    (hp : ((powHalf (b - a) : Rat) : ℝ) = Real.sqrt ((b : ℝ) - a))
    (deg : Nat) (hcs : cs.length ≤ deg + 1) (N : Nat) (hN : 2 * deg ≤ N)
    (hm : ∀ k, k ≤ N → mom g14 k = 2 / (2 * (k : Rat) + 1)) :
    (((sloOf g14 gl gx).seminorm_h_1_4 powHalf (evalPoly cs) a b : Rat) : ℝ) =
      ∫ x in (a : ℝ)..(b : ℝ), ∫ y in (a : ℝ)..(b : ℝ),
        (evalPolyR cs x - evalPolyR cs y) ^ 2 / |x - y| ^ ((3 : ℝ) / 2) := by
  have hba : (0 : ℝ) < (b : ℝ) - a := by
    have : (a : ℝ) < b := by exact_mod_cast hab
    linarith
  rw [gen_h14_eq_integral_poly g14 gl gx powHalf cs a b hab deg hcs N hN hm, hp, ← mul_assoc, Real.sqrt_eq_rpow,
    ← Real.rpow_add hba]
  norm_num

/-- non-vacuity: `gS` (`N = 2`), `f(x) = 1 + 3x` on `[2, 6]`, `powHalf 4 = 2 = √4` -/
example : (((sloOf C14.gS C14.gL C14.gX).seminorm_h_1_4 (fun h => h / 2) (evalPoly [1, 3]) 2 6 : Rat) : ℝ) =
    ∫ x in ((2 : Rat) : ℝ)..((6 : Rat) : ℝ), ∫ y in ((2 : Rat) : ℝ)..((6 : Rat) : ℝ),
      (evalPolyR [1, 3] x - evalPolyR [1, 3] y) ^ 2 / |x - y| ^ ((3 : ℝ) / 2) :=
  gen_h14_exact C14.gS C14.gL C14.gX (fun h => h / 2) [1, 3] 2 6 (by norm_num)
    (by
      have : ((6 : Rat) : ℝ) - ((2 : Rat) : ℝ) = 2 ^ 2 := by norm_num
      rw [this, Real.sqrt_sq (by norm_num)]; norm_num)
    1 (by simp) 2 (by norm_num) C14.gS_moments

end Stbem.NormsTie
