import Stbem.Lemmas.MeshOpsProlong
import Stbem.Props.C20

/-!
# MeshOpsTieC20 — `Prolongate` REGENERATED from `src/mesh.py` equals the hand-written `prolongate`

`Stbem.Gen.MeshOps.Prolongate` / `Prolongate_climb` are produced by `translate/meshops.py` from the body of the function
`Prolongate` (position map of the coarse list, parent-chain `while` loop with its `assert elem_coarse.parent`, lookup,
item assignment).  For a coarse list WITHOUT REPETITION (for a repeated element Python's dict keeps the last position, the
model's `idxOf?` the first) the generated function succeeds exactly when the model returns a vector, with the same
vector.  The results of `Props/C20.lean` on `prolongate` follow for the generated function.
-/
namespace Stbem.MeshOpsTie
open Stbem.Mesh Stbem.Gen

/-- `Prolongate(vec_coarse, elems_coarse, elems_fine)` on the elements of the mesh `m` -/
theorem gen_Prolongate_eq (m : Mesh) (vec : List Rat) (coarse fine : List Nat) (hnd : coarse.Nodup) :
    (MeshOps.Prolongate m vec coarse fine).toOption = prolongate m coarse vec fine := by
  unfold MeshOps.Prolongate prolongate MeshOps.enumerate
  simp only [bind_pure]
  have h := forIn_set (fun e => do
      let a ← MeshOps.Prolongate_climb m (MeshOps.dictOfEnumerate coarse) (m.nElems + 1) e
      MeshOps.assertThat (MeshOps.dictHas (MeshOps.dictOfEnumerate coarse) a = true) "assert:coarse"
      let i ← MeshOps.dictGet (MeshOps.dictOfEnumerate coarse) a
      MeshOps.getIdx vec i) fine []
  simp only [List.length_nil, List.nil_append, climb_eq m coarse vec hnd, bind_assoc] at h
  have hid : ∀ o : Option (List Rat), Option.map (fun x => x) o = o := fun o => by cases o <;> rfl
  rw [hid] at h
  rw [← h]

/-- the position map really differs from `idxOf?` on a list with a repetition: Python's dict keeps the LAST position -/
example : MeshOps.dictGet (MeshOps.dictOfEnumerate [7, 8, 7]) 7 = .ok 2 ∧ ([7, 8, 7] : List Nat).idxOf? 7 = some 0 := by
  constructor <;> decide +kernel

/-! ## the results of `Props/C20.lean` for the generated function -/

theorem toOption_some {α : Type} {x : Except String α} {a : α} (h : x.toOption = some a) : x = .ok a := by
  cases x with
  | error e => cases h
  | ok b => injection h with h; rw [h]

/-- C20: entry `j` of the result of the generated `Prolongate` is the entry of `vec` at the position of the nearest
ancestor-or-self `a` of `fine[j]` in the coarse list -/
theorem gen_Prolongate_spec {m : Mesh} {coarse : List Nat} {vec : List Rat} {fine : List Nat} {out : List Rat}
    (hnd : coarse.Nodup) (h : MeshOps.Prolongate m vec coarse fine = .ok out) :
    out.length = fine.length ∧ ∀ (j : Nat) id, fine[j]? = some id →
      ∃ a i v, Anc m id a ∧ a ∈ coarse ∧ (∀ b, Anc m id b → b ∈ coarse → Anc m a b) ∧
        coarse.idxOf? a = some i ∧ vec[i]? = some v ∧ out[j]? = some v :=
  prolongate_spec (by rw [← gen_Prolongate_eq m vec coarse fine hnd, h]; rfl)

/-- C20: no assertion of the generated `Prolongate` fails when every fine element has an ancestor-or-self in the coarse
list (`KidsWF`: the parent table is well formed — holds initially, preserved by every refinement) -/
theorem gen_Prolongate_runs {m : Mesh} (hW : KidsWF m) {coarse : List Nat} {vec : List Rat} {fine : List Nat}
    (hnd : coarse.Nodup) (hlen : vec.length = coarse.length) (hfine : ∀ id ∈ fine, id < m.nElems + 1)
    (hanc : ∀ id ∈ fine, ∃ b ∈ coarse, Anc m id b) :
    ∃ out, MeshOps.Prolongate m vec coarse fine = .ok out := by
  obtain ⟨out, h⟩ := prolongate_runs hW hlen hfine hanc
  exact ⟨out, toOption_some (by rw [gen_Prolongate_eq m vec coarse fine hnd, h])⟩

/-- C20: coarse = fine is the identity -/
theorem gen_Prolongate_same (m : Mesh) {coarse : List Nat} {vec : List Rat} (hnd : coarse.Nodup)
    (hlen : vec.length = coarse.length) : MeshOps.Prolongate m vec coarse coarse = .ok vec :=
  toOption_some (by rw [gen_Prolongate_eq m vec coarse coarse hnd, prolongate_same m hnd hlen])

/-! ## closed examples (root `1` of `mesh3` bisected in time (`3, 4`), then `3` in space (`5, 6`)) -/

example : (mesh3r.toOption.bind fun m => (MeshOps.Prolongate m [10, 20, 30] [0, 1, 2] [0, 2, 4, 5, 6]).toOption) =
    some [10, 30, 20, 20, 20] := by decide +kernel

example : (mesh3r.toOption.bind fun m => (MeshOps.Prolongate m [1, 2, 3, 4] [0, 2, 3, 4] [0, 2, 4, 5, 6]).toOption) =
    some [1, 2, 4, 3, 3] := by decide +kernel

/-- a fine element without coarse ancestor trips `assert elem_coarse.parent` -/
example : (mesh3r.toOption.bind fun m => match MeshOps.Prolongate m [1, 2] [3, 4] [0] with
    | .error e => some e | .ok _ => none) = some "assert:parent" := by decide +kernel

example : ([0, 2, 3, 4] : List Nat).Nodup := by decide

end Stbem.MeshOpsTie
