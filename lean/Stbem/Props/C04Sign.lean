import Stbem.Lemmas.KernelIntegral
import Stbem.Lemmas.KernelModel
import Stbem.Lemmas.SLSign
import Stbem.Lemmas.SLSignTie
import Stbem.Props.SL

/-!
# C04, sign part — the single-layer kernels are never negative (exact arithmetic)

Final statements only; proofs in `Stbem/Lemmas/Kernel{Sign,Ext,Integral,Model}.lean` (over `ℝ`) and
`Stbem/Lemmas/SLSign.lean` (model level, over `ℚ`).

**Part R** is about the terms `sl_g`, `sl_tik`, `sl_dtk` of `Stbem/Gen/FormulasR.lean`, *as generated*
from `g`, `time_integrated_kernel`, `double_time_integrated_kernel` of `src/single_layer.py` on
every run (guards `if b > d`, `if a ≤ b` … included).  Laws of the special functions used as
hypotheses, all true for the real functions and all satisfied by `modelT` (`Lemmas/KernelModel.lean`):

* `hexp  : S.exp = Real.exp`                       (only for `sl_dtk`);
* `hei   : EiLaw S`  — `Ei' x = eˣ/x` for `x < 0`;
* `hlim  : EiLim S`  — `Ei x → 0` as `x → -∞`;
* `hfpi  : 0 < S.fpiInv`                           (`FPI_INV = 1/(4π)`).

The squared distance `x` must be `> 0` (at `x = 0` the source evaluates `expi(0) = -inf`).

**Part Q** is about the executable model `Stbem.Model.SingleLayer` (tied to the Python code by
exact correspondence and by `Props/PanelsTie.lean`): the quadrature path of `bilform`, both
quadrature branches of `evaluate`, and `potential` are `≥ 0` for every special-function record
whose generated time kernels are `≥ 0` at positive squared distances (which Part R proves for the
real functions), every rule with weights `≥ 0` and nodes in `(0,1)`, and parametrisations that
separate distinct parameters.

**Part QR** composes the two: `bilformQuadR`, `evaluateR`, `potentialR` (`Lemmas/SLSignReal.lean`) are
the model's quadrature sums — same `panels`, `lexLe`, `evalPlan` decisions over `ℚ`, same nodes and
weights — with the *real* generated kernels at the rational nodes; `Lemmas/SLSignTie.lean` proves that
they are the casts of the model's values whenever the real record extends the rational one.  For the
true special functions these values are `≥ 0`, and `> 0` for causal pairs (rules with positive
weights): this is the exact-arithmetic content of "never negative, strictly positive otherwise".

Not covered: the closed-form path (`pw_exact`, `stik_k`, `evaluate_exact`: needs laws of `erf`),
binary64 rounding (cancellation in the four-term formula) — search only.
-/

namespace Stbem.C04Sign

/-! ## Part R: the time kernels over `ℝ` -/
section R
open Stbem.Formulas.R MeasureTheory

/-- `Ei` is strictly decreasing on the negative axis -/
theorem ei_strictAnti (S : Fns) (hei : EiLaw S) {x y : ℝ} (hxy : x < y) (hy : y < 0) :
    S.ei y < S.ei x :=
  Stbem.Formulas.R.ei_strictAnti S hei hxy hy

/-- `Ei x < 0` for `x < 0` -/
theorem ei_neg (S : Fns) (hei : EiLaw S) (hlim : EiLim S) {x : ℝ} (hx : x < 0) : S.ei x < 0 :=
  Stbem.Formulas.R.ei_neg S hei hlim hx

/-- `time_integrated_kernel(t, a, b)(x) ≥ 0` -/
theorem tik_nonneg (S : Fns) (hei : EiLaw S) (hlim : EiLim S) (hfpi : 0 < S.fpiInv) {t a b x : ℝ}
    (hab : a < b) (hx : 0 < x) : 0 ≤ sl_tik S t a b x :=
  tik_nonneg' S hei hlim hfpi hab hx

/-- `time_integrated_kernel(t, a, b)(x) > 0` as soon as `t` is later than the start `a` -/
theorem tik_pos (S : Fns) (hei : EiLaw S) (hlim : EiLim S) (hfpi : 0 < S.fpiInv) {t a b x : ℝ}
    (hab : a < b) (hx : 0 < x) (hta : a < t) : 0 < sl_tik S t a b x :=
  tik_pos' S hei hlim hfpi hab hx hta

/-- … and only then (with `tik_zero`: it is the literal `0` otherwise) -/
theorem tik_pos_iff (S : Fns) (hei : EiLaw S) (hlim : EiLim S) (hfpi : 0 < S.fpiInv) {t a b x : ℝ}
    (hab : a < b) (hx : 0 < x) : 0 < sl_tik S t a b x ↔ a < t :=
  tik_pos_iff' S hei hlim hfpi hab hx

/-- `double_time_integrated_kernel(a, b, c, d)(x) ≥ 0` -/
theorem dtk_nonneg (S : Fns) (hexp : S.exp = Real.exp) (hei : EiLaw S) (hlim : EiLim S)
    (hfpi : 0 < S.fpiInv) {a b c d x : ℝ} (hab : a < b) (hcd : c < d) (hx : 0 < x) :
    0 ≤ sl_dtk S a b c d x :=
  dtk_nonneg' S hexp hei hlim hfpi hab.le hcd hx

/-- `double_time_integrated_kernel(a, b, c, d)(x) > 0` as soon as the test interval `[a,b]` ends
later than the trial interval `[c,d]` begins -/
theorem dtk_pos (S : Fns) (hexp : S.exp = Real.exp) (hei : EiLaw S) (hlim : EiLim S)
    (hfpi : 0 < S.fpiInv) {a b c d x : ℝ} (hab : a < b) (hcd : c < d) (hx : 0 < x) (hcb : c < b) :
    0 < sl_dtk S a b c d x :=
  dtk_pos' S hexp hei hlim hfpi hab hcd hx hcb

/-- … and only then (with `dtk_acausal_zero`: it is the literal `0` otherwise) -/
theorem dtk_pos_iff (S : Fns) (hexp : S.exp = Real.exp) (hei : EiLaw S) (hlim : EiLim S)
    (hfpi : 0 < S.fpiInv) {a b c d x : ℝ} (hab : a < b) (hcd : c < d) (hx : 0 < x) :
    0 < sl_dtk S a b c d x ↔ c < b :=
  dtk_pos_iff' S hexp hei hlim hfpi hab hcd hx

/-- `time_integrated_kernel` **is** the time integral of the heat kernel
`G(z,x) = fpiInv·e^{-x/(4z)}/z` (`Gk`, `kernel` of the source) over the part of `[a,b]` before `t`;
no ordering of `a, b, t` is needed -/
theorem tik_eq_integral (S : Fns) (hei : EiLaw S) (hlim : EiLim S) (t a b x : ℝ) (hx : 0 < x) :
    sl_tik S t a b x = ∫ s in a..b, (if s < t then Gk S (t - s) x else 0) :=
  tik_eq_integral' S hei hlim t a b x hx

/-- `double_time_integrated_kernel` **is** the integral of `time_integrated_kernel` over the test
interval -/
theorem dtk_eq_integral_tik (S : Fns) (hexp : S.exp = Real.exp) (hei : EiLaw S) (hlim : EiLim S)
    (a b c d x : ℝ) (hx : 0 < x) : sl_dtk S a b c d x = ∫ t in a..b, sl_tik S t c d x :=
  dtk_eq_integral_tik' S hexp hei hlim a b c d x hx

/-- **analytic double time integration**: the four-term formula with its guards is the double time
integral of the (causal) heat kernel over `[a,b] × [c,d]`, for all real `a b c d` -/
theorem dtk_eq_integral (S : Fns) (hexp : S.exp = Real.exp) (hei : EiLaw S) (hlim : EiLim S)
    (a b c d x : ℝ) (hx : 0 < x) :
    sl_dtk S a b c d x = ∫ t in a..b, ∫ s in c..d, (if s < t then Gk S (t - s) x else 0) :=
  dtk_eq_integral' S hexp hei hlim a b c d x hx

/-- the extension by zero of the bracket of the four-term formula is `C¹` on `ℝ` (differentiable at
`z = 0` too) with derivative the extension by zero of `Ei(-ρ/z)` … -/
theorem F_ext_hasDerivAt (S : Fns) (hexp : S.exp = Real.exp) (hei : EiLaw S) (hlim : EiLim S)
    (ρ : ℝ) (hρ : 0 < ρ) (z : ℝ) : HasDerivAt (ext0 (Hp S ρ)) (ext0 (Ep S ρ) z) z :=
  Hext_hasDerivAt S hexp hei hlim ρ hρ z

/-- … whose derivative is minus the extension by zero of the heat kernel `e^{-ρ/z}/z ≥ 0` -/
theorem g_ext_hasDerivAt (S : Fns) (hei : EiLaw S) (hlim : EiLim S) (ρ : ℝ) (hρ : 0 < ρ) (z : ℝ) :
    HasDerivAt (ext0 (Ep S ρ)) (-(ext0 (Kp ρ) z)) z :=
  Eext_hasDerivAt S hei hlim ρ hρ z

/-! ### the hypotheses are satisfiable: the true exponential integral -/

example : EiLaw modelT ∧ EiLim modelT ∧ modelT.exp = Real.exp ∧ 0 < modelT.fpiInv :=
  ⟨modelT_eiLaw, modelT_eiLim, modelT_exp, modelT_fpiInv_pos⟩

example {x : ℝ} (hx : x < 0) : modelT.ei x < 0 := ei_neg modelT modelT_eiLaw modelT_eiLim hx

example : modelT.ei (-1) < modelT.ei (-2) :=
  ei_strictAnti modelT modelT_eiLaw (by norm_num) (by norm_num)

example : 0 < sl_tik modelT (3/2) 1 2 (1/4) :=
  tik_pos modelT modelT_eiLaw modelT_eiLim modelT_fpiInv_pos (by norm_num) (by norm_num) (by norm_num)

example : sl_tik modelT 1 1 2 (1/4) = 0 := tik_zero' modelT 1 1 2 (1/4) (by norm_num) le_rfl

/-- overlapping intervals, test interval begins first -/
example : 0 < sl_dtk modelT 0 2 1 3 (1/4) :=
  dtk_pos modelT modelT_exp modelT_eiLaw modelT_eiLim modelT_fpiInv_pos (by norm_num) (by norm_num)
    (by norm_num) (by norm_num)

/-- the same interval twice (the diagonal blocks of the matrix) -/
example : 0 < sl_dtk modelT 0 1 0 1 (1/4) :=
  dtk_pos modelT modelT_exp modelT_eiLaw modelT_eiLim modelT_fpiInv_pos (by norm_num) (by norm_num)
    (by norm_num) (by norm_num)

example {a b c d x : ℝ} (hab : a < b) (hcd : c < d) (hx : 0 < x) : 0 ≤ sl_dtk modelT a b c d x :=
  dtk_nonneg modelT modelT_exp modelT_eiLaw modelT_eiLim modelT_fpiInv_pos hab hcd hx

example (a b c d x : ℝ) (hx : 0 < x) :
    sl_dtk modelT a b c d x = ∫ t in a..b, ∫ s in c..d, (if s < t then Gk modelT (t - s) x else 0) :=
  dtk_eq_integral modelT modelT_exp modelT_eiLaw modelT_eiLim a b c d x hx

end R

/-! ## Part Q: the quadrature sums of the model -/
section Q
open Stbem.SL Stbem.Quad Stbem.Formulas.Q

/-- mirroring keeps weights `≥ 0` and nodes in `(0,1)` -/
theorem mirror1_pos {r : Rule1} (h : PosRule1 r) : PosRule1 (mirror1 r) := h.mirror

/-- `ProductScheme2D`: weights `wₓ·w_y ≥ 0`, nodes in the open unit square -/
theorem product2_pos {rx ry : Rule1} (hx : PosRule1 rx) (hy : PosRule1 ry) :
    PosRule2 (product2 rx ry) := hx.product hy

/-- `DuffyScheme2D` (either value of `symmetric`): weights `w·x ≥ 0`, nodes in the open unit square
and off the diagonal -/
theorem duffy2_pos {r : Rule2} (h : PosRule2 r) (sym : Bool) :
    PosRule2 (duffy2 r sym) ∧ OffDiag2 (duffy2 r sym) := ⟨h.duffy sym, h.duffy_offDiag sym⟩

theorem mirror2_pos {r : Rule2} (h : PosRule2 r) : PosRule2 (mirrorX2 r) ∧ PosRule2 (mirrorY2 r) :=
  ⟨h.mirrorX, h.mirrorY⟩

/-- hence all five rules the panel recursion applies have weights `≥ 0` and interior nodes -/
theorem panel_rules_pos {log : Rule1} (h : PosRule1 log) (k : PKind) : PosRule2 (ruleOf log k) :=
  ruleOf_pos h k

/-- the kernel is only evaluated at pairs of distinct parameters strictly inside the rectangle -/
theorem panel_nodes_interior_offdiag {cfg : Cfg} {fuel : Nat} {a b c d : Rat} {ps : List Panel}
    (h : panels cfg fuel a b c d = .ok ps) {log : Rule1} (hlog : PosRule1 log)
    {p : Panel} (hp : p ∈ ps) {n : N2} (hn : n ∈ ruleOf log p.kind) :
    a < p.a + (p.b - p.a) * n.x ∧ p.a + (p.b - p.a) * n.x < b ∧
    c < p.c + (p.d - p.c) * n.y ∧ p.c + (p.d - p.c) * n.y < d ∧
    p.a + (p.b - p.a) * n.x ≠ p.c + (p.d - p.c) * n.y :=
  panel_node_open_offdiag h hlog hp hn

/-- **the quadrature path of `bilform` is never negative** whenever it returns a value -/
theorem bilform_quad_nonneg (cfg : Cfg) (S : Fns) (log : Rule1) (gs : List Piece) (trial test : Elem)
    (v : Rat) (hlog : PosRule1 log)
    (hK : ∀ r, 0 < r → 0 ≤ sl_dtk S test.t0 test.t1 trial.t0 trial.t1 r)
    (hsep : ∀ u w, test.x0 < u → u < test.x1 → trial.x0 < w → w < trial.x1 → u ≠ w →
      0 < distSq ((pieceOf gs test.piece).at u) ((pieceOf gs trial.piece).at w))
    (h : bilform cfg S log gs false trial test = .ok v) : 0 ≤ v :=
  bilform_quad_nonneg' cfg S log gs trial test v hlog hK hsep h

/-- variant without geometric hypothesis, for kernels that are `≥ 0` at every argument -/
theorem bilform_quad_nonneg_all (cfg : Cfg) (S : Fns) (log : Rule1) (gs : List Piece)
    (trial test : Elem) (v : Rat) (hlog : PosRule1 log)
    (hK : ∀ r, 0 ≤ sl_dtk S test.t0 test.t1 trial.t0 trial.t1 r)
    (h : bilform cfg S log gs false trial test = .ok v) : 0 ≤ v :=
  bilform_quad_nonneg_all' cfg S log gs trial test v hlog hK h

/-- **`evaluate` is never negative** (in-element branch and outside branch); `hstrip` excludes the
`1e-10`-thin strips inside the element next to its end points where the code takes the outside
branch although `xhat` is strictly inside -/
theorem evaluate_nonneg (cfg : Cfg) (onePlus oneMinus : Rat) (S : Fns) (log : Rule1) (gs : List Piece)
    (e : Elem) (t xhat : Rat) (x : Rat × Rat) (hlog : PosRule1 log)
    (hx0 : 0 ≤ e.x0) (hx : e.x0 ≤ e.x1) (h1 : 1 ≤ onePlus) (h2 : oneMinus ≤ 1)
    (hK : ∀ r, 0 < r → 0 ≤ sl_tik S t e.t0 e.t1 r)
    (hsep : ∀ y, e.x0 < y → y < e.x1 → y ≠ xhat → 0 < distSq x ((pieceOf gs e.piece).at y))
    (hstrip : e.x0 < xhat → xhat < e.x1 → e.x0 * onePlus ≤ xhat ∧ xhat ≤ e.x1 * oneMinus) :
    0 ≤ evaluate cfg onePlus oneMinus S log gs e t xhat x :=
  evaluate_nonneg' cfg S log gs onePlus oneMinus e t xhat x hlog hx0 hx h1 h2 hK hsep hstrip

/-- **`potential` is never negative** -/
theorem potential_nonneg (S : Fns) (gauss : Rule1) (gs : List Piece) (e : Elem) (t : Rat)
    (x : Rat × Rat) (hg : PosRule1 gauss) (hx : e.x0 ≤ e.x1)
    (hK : ∀ r, 0 < r → 0 ≤ sl_tik S t e.t0 e.t1 r)
    (hsep : ∀ y, e.x0 < y → y < e.x1 → 0 < distSq x ((pieceOf gs e.piece).at y)) :
    0 ≤ potential S gauss gs e t x :=
  potential_nonneg' S gs gauss e t x hg hx hK hsep

/-! ### the hypotheses are satisfiable -/

/-- rational stand-ins with a kernel of the right sign: `exp ≡ 0`, `Ei x = 1/x`, `fpiInv = 1/12`
(then `g_z(r) = -4·fpiInv·z/r`, decreasing in `z`, and the bracket of the four-term formula is the
concave `-(z + 4z²/r)`) -/
def SPos : Fns :=
  ⟨fun _ => 0, fun x => x, fun x => x, fun x => 1 - x, fun x => 1 / x, fun x => x, fun x => x, 3, 1/12, 2, 1/6⟩

theorem logEx_pos : PosRule1 logEx := by
  intro n hn
  simp only [logEx, List.mem_cons, List.mem_nil_iff, or_false] at hn
  rcases hn with rfl | rfl <;> norm_num

theorem SPos_dtk_1201 : ∀ r : Rat, 0 < r → 0 ≤ sl_dtk SPos 1 2 0 1 r := by
  intro r hr
  simp only [sl_dtk, SPos]
  norm_num
  field_simp
  linarith

theorem SPos_tik : ∀ r : Rat, 0 < r → 0 ≤ sl_tik SPos (3/2) 1 2 r := by
  intro r hr
  simp only [sl_tik, sl_g, SPos]
  norm_num
  have : 0 < 2 / r := div_pos two_pos hr
  rw [div_neg]
  linarith

theorem gsEx_at (u : Rat) : (pieceOf gsEx 0).at u = (u, 0) := by
  simp [pieceOf, gsEx, Piece.at]

theorem gsEx_sep_pt : ∀ u w : Rat, u ≠ w → 0 < distSq (u, 0) ((pieceOf gsEx 0).at w) := by
  intro u w huw
  have e : distSq (u, 0) ((pieceOf gsEx 0).at w) = (u - w) ^ 2 := by
    rw [gsEx_at]; simp [distSq]
  have hne : u - w ≠ 0 := sub_ne_zero.mpr huw
  rw [e]
  positivity

theorem gsEx_sep : ∀ u w : Rat, u ≠ w →
    0 < distSq ((pieceOf gsEx 0).at u) ((pieceOf gsEx 0).at w) := by
  intro u w huw
  rw [gsEx_at u]
  exact gsEx_sep_pt u w huw

/-- test element `elB` (time `[1,2]`, space `[1,2]`), trial element `elA` (time `[0,1]`, space `[0,1]`) -/
example (v : Rat) (h : bilform cfgEx SPos logEx gsEx false elA elB = .ok v) : 0 ≤ v :=
  bilform_quad_nonneg cfgEx SPos logEx gsEx elA elB v logEx_pos SPos_dtk_1201
    (fun u w _ _ _ _ huw => gsEx_sep u w huw) h

example : bilform cfgEx SPos logEx gsEx false elA elB = .ok (18944 / 11025) := by decide +kernel

example : 0 ≤ evaluate cfgEx (1 + 1/10^10) (1 - 1/10^10) SPos logEx gsEx elB (3/2) (3/2) (3/2, 0) :=
  evaluate_nonneg cfgEx _ _ SPos logEx gsEx elB (3/2) (3/2) (3/2, 0) logEx_pos (by norm_num [elB])
    (by norm_num [elB]) (by norm_num) (by norm_num) SPos_tik
    (fun y _ _ hy => gsEx_sep_pt (3/2) y (Ne.symm hy)) (fun _ _ => by norm_num [elB])

example : evaluate cfgEx (1 + 1/10^10) (1 - 1/10^10) SPos logEx gsEx elB (3/2) (3/2) (3/2, 0) = 160 / 27 := by
  decide +kernel

example : 0 ≤ potential SPos logEx gsEx elB (3/2) (5/2, 0) :=
  potential_nonneg SPos logEx gsEx elB (3/2) (5/2, 0) logEx_pos (by norm_num [elB]) SPos_tik
    (fun y _ hy => by
      have : y ≠ 5/2 := by
        intro h; rw [h] at hy; norm_num [elB] at hy
      exact gsEx_sep_pt (5/2) y (Ne.symm this))

end Q

/-! ## Part QR: the model's quadrature sums with the real kernels -/
section QR
open Stbem.SL Stbem.Quad
open Stbem.Formulas.R (EiLaw EiLim modelT modelT_exp modelT_eiLaw modelT_eiLim modelT_fpiInv_pos)

/-- the generated real and rational terms agree at rational arguments (both emissions of the
translator are the same expression) -/
theorem kernels_cast {SR : Stbem.Formulas.R.Fns} {S : Stbem.Formulas.Q.Fns} (h : Extends SR S) :
    (∀ a b c d r : Rat, Stbem.Formulas.R.sl_dtk SR a b c d r =
      ((Stbem.Formulas.Q.sl_dtk S a b c d r : Rat) : ℝ)) ∧
    (∀ t a b r : Rat, Stbem.Formulas.R.sl_tik SR t a b r =
      ((Stbem.Formulas.Q.sl_tik S t a b r : Rat) : ℝ)) :=
  ⟨dtk_cast h, tik_cast h⟩

/-- the real-valued quadrature path is the model's `bilform` (errors included) … -/
theorem bilformQuadR_is_model {SR : Stbem.Formulas.R.Fns} {S : Stbem.Formulas.Q.Fns}
    (h : Extends SR S) (cfg : Cfg) (log : Rule1) (gs : List Piece) (trial test : Elem) :
    bilformQuadR cfg SR log gs trial test =
      (bilform cfg S log gs false trial test).map fun q : Rat => (q : ℝ) :=
  bilformQuadR_cast cfg log gs h trial test

/-- … and succeeds exactly when the model does, whatever the special functions -/
theorem bilformQuadR_succeeds_iff (cfg : Cfg) (SR : Stbem.Formulas.R.Fns)
    (S : Stbem.Formulas.Q.Fns) (log : Rule1) (gs : List Piece) (trial test : Elem) :
    (∃ v, bilformQuadR cfg SR log gs trial test = .ok v) ↔
      ∃ w, bilform cfg S log gs false trial test = .ok w :=
  bilformQuadR_ok_iff cfg SR log gs S trial test

theorem evaluateR_is_model {SR : Stbem.Formulas.R.Fns} {S : Stbem.Formulas.Q.Fns}
    (h : Extends SR S) (cfg : Cfg) (log : Rule1) (gs : List Piece) (onePlus oneMinus : Rat)
    (e : Elem) (t xhat : Rat) (x : Rat × Rat) :
    evaluateR cfg SR log gs onePlus oneMinus e t xhat x =
      ((evaluate cfg onePlus oneMinus S log gs e t xhat x : Rat) : ℝ) :=
  evaluateR_cast cfg log gs h onePlus oneMinus e t xhat x

theorem potentialR_is_model {SR : Stbem.Formulas.R.Fns} {S : Stbem.Formulas.Q.Fns}
    (h : Extends SR S) (gs : List Piece) (gauss : Rule1) (e : Elem) (t : Rat) (x : Rat × Rat) :
    potentialR SR gs gauss e t x = ((potential S gauss gs e t x : Rat) : ℝ) :=
  potentialR_cast gs h gauss e t x

/-- **a matrix entry computed by the quadrature path in exact arithmetic with the true special
functions is never negative** -/
theorem bilform_quad_real_nonneg (cfg : Cfg) (SR : Stbem.Formulas.R.Fns) (log : Rule1)
    (gs : List Piece) (hexp : SR.exp = Real.exp) (hei : EiLaw SR) (hlim : EiLim SR)
    (hfpi : 0 < SR.fpiInv) (trial test : Elem) (v : ℝ) (hlog : PosRule1 log)
    (ht : test.t0 < test.t1) (hs : trial.t0 < trial.t1)
    (hsep : ∀ u w, test.x0 < u → u < test.x1 → trial.x0 < w → w < trial.x1 → u ≠ w →
      0 < distSq ((pieceOf gs test.piece).at u) ((pieceOf gs trial.piece).at w))
    (h : bilformQuadR cfg SR log gs trial test = .ok v) : 0 ≤ v :=
  bilformQuadR_nonneg cfg SR log gs hexp hei hlim hfpi trial test v hlog ht hs hsep h

/-- … **and strictly positive as soon as the test element ends later than the trial element
begins** (non-empty rule with positive weights) -/
theorem bilform_quad_real_pos (cfg : Cfg) (SR : Stbem.Formulas.R.Fns) (log : Rule1)
    (gs : List Piece) (hexp : SR.exp = Real.exp) (hei : EiLaw SR) (hlim : EiLim SR)
    (hfpi : 0 < SR.fpiInv) (trial test : Elem) (v : ℝ) (hlog : SPosRule1 log) (hne : log ≠ [])
    (ht : test.t0 < test.t1) (hs : trial.t0 < trial.t1) (hc : trial.t0 < test.t1)
    (hsep : ∀ u w, test.x0 < u → u < test.x1 → trial.x0 < w → w < trial.x1 → u ≠ w →
      0 < distSq ((pieceOf gs test.piece).at u) ((pieceOf gs trial.piece).at w))
    (h : bilformQuadR cfg SR log gs trial test = .ok v) : 0 < v :=
  bilformQuadR_pos cfg SR log gs hexp hei hlim hfpi trial test v hlog hne ht hs hc hsep h

/-- `evaluate` with the true special functions is never negative … -/
theorem evaluate_real_nonneg (cfg : Cfg) (SR : Stbem.Formulas.R.Fns) (log : Rule1) (gs : List Piece)
    (hei : EiLaw SR) (hlim : EiLim SR) (hfpi : 0 < SR.fpiInv) (onePlus oneMinus : Rat) (e : Elem)
    (t xhat : Rat) (x : Rat × Rat) (hlog : PosRule1 log) (hx0 : 0 ≤ e.x0) (hx : e.x0 ≤ e.x1)
    (h1 : 1 ≤ onePlus) (h2 : oneMinus ≤ 1) (hte : e.t0 < e.t1)
    (hsep : ∀ y, e.x0 < y → y < e.x1 → y ≠ xhat → 0 < distSq x ((pieceOf gs e.piece).at y))
    (hstrip : e.x0 < xhat → xhat < e.x1 → e.x0 * onePlus ≤ xhat ∧ xhat ≤ e.x1 * oneMinus) :
    0 ≤ evaluateR cfg SR log gs onePlus oneMinus e t xhat x :=
  evaluateR_nonneg cfg SR log gs hei hlim hfpi onePlus oneMinus e t xhat x hlog hx0 hx h1 h2 hte hsep
    hstrip

/-- … and positive for `t` later than the start of the element -/
theorem evaluate_real_pos (cfg : Cfg) (SR : Stbem.Formulas.R.Fns) (log : Rule1) (gs : List Piece)
    (hei : EiLaw SR) (hlim : EiLim SR) (hfpi : 0 < SR.fpiInv) (onePlus oneMinus : Rat) (e : Elem)
    (t xhat : Rat) (x : Rat × Rat) (hlog : SPosRule1 log) (hne : log ≠ []) (hx0 : 0 ≤ e.x0)
    (hx : e.x0 < e.x1) (h1 : 1 ≤ onePlus) (h2 : oneMinus ≤ 1) (hte : e.t0 < e.t1) (ht : e.t0 < t)
    (hsep : ∀ y, e.x0 < y → y < e.x1 → y ≠ xhat → 0 < distSq x ((pieceOf gs e.piece).at y))
    (hstrip : e.x0 < xhat → xhat < e.x1 → e.x0 * onePlus ≤ xhat ∧ xhat ≤ e.x1 * oneMinus) :
    0 < evaluateR cfg SR log gs onePlus oneMinus e t xhat x :=
  evaluateR_pos cfg SR log gs hei hlim hfpi onePlus oneMinus e t xhat x hlog hne hx0 hx h1 h2 hte ht
    hsep hstrip

theorem potential_real_nonneg (SR : Stbem.Formulas.R.Fns) (gs : List Piece) (hei : EiLaw SR)
    (hlim : EiLim SR) (hfpi : 0 < SR.fpiInv) (gauss : Rule1) (e : Elem) (t : Rat) (x : Rat × Rat)
    (hg : PosRule1 gauss) (hx : e.x0 ≤ e.x1) (hte : e.t0 < e.t1)
    (hsep : ∀ y, e.x0 < y → y < e.x1 → 0 < distSq x ((pieceOf gs e.piece).at y)) :
    0 ≤ potentialR SR gs gauss e t x :=
  potentialR_nonneg SR gs hei hlim hfpi gauss e t x hg hx hte hsep

theorem potential_real_pos (SR : Stbem.Formulas.R.Fns) (gs : List Piece) (hei : EiLaw SR)
    (hlim : EiLim SR) (hfpi : 0 < SR.fpiInv) (gauss : Rule1) (e : Elem) (t : Rat) (x : Rat × Rat)
    (hg : SPosRule1 gauss) (hne : gauss ≠ []) (hx : e.x0 < e.x1) (hte : e.t0 < e.t1) (ht : e.t0 < t)
    (hsep : ∀ y, e.x0 < y → y < e.x1 → 0 < distSq x ((pieceOf gs e.piece).at y)) :
    0 < potentialR SR gs gauss e t x :=
  potentialR_pos SR gs hei hlim hfpi gauss e t x hg hne hx hte ht hsep

/-! ### the hypotheses are satisfiable -/

theorem logEx_spos : SPosRule1 logEx := by
  intro n hn
  simp only [logEx, List.mem_cons, List.mem_nil_iff, or_false] at hn
  rcases hn with rfl | rfl <;> norm_num

/-- the real twin of `SPos` -/
noncomputable def SPosR : Stbem.Formulas.R.Fns :=
  ⟨fun _ => 0, fun x => x, fun x => x, fun x => 1 - x, fun x => 1 / x, fun x => x, fun x => x, 3, 1/12, 2, 1/6⟩

example : Extends SPosR SPos :=
  ⟨fun q => by simp [SPosR, SPos], fun q => by simp [SPosR, SPos], by simp [SPosR, SPos]⟩

/-- with the true `exp`, `Ei`: the entry (test `elB`, trial `elA`) exists and is positive -/
example : ∃ v, bilformQuadR cfgEx modelT logEx gsEx elA elB = .ok v ∧ 0 < v := by
  obtain ⟨v, hv⟩ := (bilformQuadR_succeeds_iff cfgEx modelT SPos logEx gsEx elA elB).mpr
    ⟨18944 / 11025, by decide +kernel⟩
  exact ⟨v, hv, bilform_quad_real_pos cfgEx modelT logEx gsEx modelT_exp modelT_eiLaw modelT_eiLim
    modelT_fpiInv_pos elA elB v logEx_spos (by simp [logEx]) (by norm_num [elB]) (by norm_num [elA])
    (by norm_num [elA, elB]) (fun u w _ _ _ _ huw => gsEx_sep u w huw) hv⟩

example : 0 < evaluateR cfgEx modelT logEx gsEx (1 + 1/10^10) (1 - 1/10^10) elB (3/2) (3/2) (3/2, 0) :=
  evaluate_real_pos cfgEx modelT logEx gsEx modelT_eiLaw modelT_eiLim modelT_fpiInv_pos _ _ elB (3/2)
    (3/2) (3/2, 0) logEx_spos (by simp [logEx]) (by norm_num [elB]) (by norm_num [elB]) (by norm_num)
    (by norm_num) (by norm_num [elB]) (by norm_num [elB])
    (fun y _ _ hy => gsEx_sep_pt (3/2) y (Ne.symm hy)) (fun _ _ => by norm_num [elB])

example : 0 < potentialR modelT gsEx logEx elB (3/2) (5/2, 0) :=
  potential_real_pos modelT gsEx modelT_eiLaw modelT_eiLim modelT_fpiInv_pos logEx elB (3/2) (5/2, 0)
    logEx_spos (by simp [logEx]) (by norm_num [elB]) (by norm_num [elB]) (by norm_num [elB])
    (fun y _ hy => by
      have : y ≠ 5/2 := by
        intro h; rw [h] at hy; norm_num [elB] at hy
      exact gsEx_sep_pt (5/2) y (Ne.symm this))

end QR

end Stbem.C04Sign
