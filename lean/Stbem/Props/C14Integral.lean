import Stbem.Props.C14
import Stbem.Lemmas.SloboIntegral

/-!
# C14 (supplement) — for polynomials the H^{1/2} routine IS the double integral of the definition

`semi12_exact_partial` of `Props/C14.lean` says that all rules with the exact moments return one number `v(f, a, h)`; what
was missing was the identification of `v` with the integral of the definition.  For a polynomial `f = Σ cₖ xᵏ` the quotient
`(f(x) - f(y)) / (x - y)` is itself a polynomial (the divided difference `ddR cs x y`, `ddR_eq_div`), so
`|f(x) - f(y)|² / |x - y|²` is a polynomial in `(x, y)` off the diagonal and the Slobodeckij double integral is a PROPER
integral.  `semi12_eq_integral_poly` identifies the value of the routine — for every pair of base rules with the moments of
the weights `x` and `1` up to order `N` and no node on the singular set, every polynomial with `2 deg f ≤ N + 2`, every
interval (`b < a` included) — with `∫_a^b ∫_a^b ((f x - f y)/(x - y))² dy dx` (Mathlib interval integrals).  No part of the
H^{1/2} statement for polynomial data remains in the trusted base.

The H^{1/4} routine (`semi14`, kernel `|x - y|^{-3/2}`): the integrand `(f x - f y)² |x - y|^{-3/2}` is NOT a polynomial
(after dividing out `(x - y)²` the factor `|x - y|^{1/2}` remains), so the argument above does not apply verbatim.  It is
nevertheless PROVED now, in `Props/C14Integral14.lean` (lemmas `Lemmas/Slobo14Integral{,Tri,Sq}.lean`): after the Duffy
substitution the summand of the routine is a polynomial `P(x, y)` against the weights `x^{-1/2} y^{-1/2}`, so
`semi14 = ∫₀¹∫₀¹ P x^{-1/2} y^{-1/2}` moment by moment (`semi14_eq_integral_ref`), two affine substitutions give
`h^{-1/2} · 2 ∫_a^{a+h} ∫_a^t (f t - f s)² / (t - s)^{3/2} ds dt` (`semi14_eq_integral_triangle`), and Fubini for the continuous
symmetric kernel `|t - s|^{1/2} D(t, s)²` gives the Slobodeckij double integral over the square (`semi14_eq_integral_square`,
`semi14_exact`: `√h · semi14 = ∫_a^{a+h} ∫_a^{a+h} (f x - f y)² / |x - y|^{3/2} dy dx` for `0 < h`).  `semi14_exact_partial` keeps its
name; its value is that integral (`semi14_exact_value`).  Nothing of C14's exactness statements for polynomial data remains
trusted calculus.
-/
namespace Stbem.C14
open Stbem.Quad intervalIntegral

/-- `(f x - f y) / (x - y)` is the divided-difference polynomial off the diagonal; on the diagonal the polynomial takes the
value `f'(x)` while Lean's quotient is `0 / 0 = 0` — a null set for the integral -/
theorem quotient_is_polynomial (cs : List Rat) {x y : ℝ} (h : x ≠ y) :
    (evalPolyR cs x - evalPolyR cs y) / (x - y) = ddR cs x y := (ddR_eq_div cs h).symm

/-- the real polynomial is the rational one: `evalPolyR cs` extends `evalPoly cs` -/
theorem evalPolyR_extends (cs : List Rat) (x : Rat) : evalPolyR cs (x : ℝ) = ((evalPoly cs x : Rat) : ℝ) :=
  (evalPoly_cast cs x).symm

/-- **H^{1/2}, polynomial integrand, divided-difference form**: the routine returns the double integral of the squared
divided difference -/
theorem semi12_eq_integral_dd (cs : List Rat) (a b : Rat) (hab : b - a ≠ 0) (deg : Nat) (hlen : cs.length ≤ deg + 1)
    (gx gl : Rule1) (N : Nat) (hN : 2 * deg ≤ N + 2) (hmx : ∀ k, k ≤ N → mom gx k = 1 / ((k : Rat) + 2))
    (hml : Exact1 gl N) (hx : ∀ n ∈ gx, n.x ≠ 0) (hl : ∀ n ∈ gl, n.x ≠ 1) :
    ((semi12 gx gl (evalPoly cs) a (b - a) : Rat) : ℝ) =
      ∫ x in (a : ℝ)..(b : ℝ), ∫ y in (a : ℝ)..(b : ℝ), ddR cs x y ^ 2 := by
  have hG := (dd_span (span_u a (b - a)) (span_v12 a (b - a)) cs (deg - 1) (by omega)).sq
  have step1 := semi12_eq_apply2 gx gl (evalPoly cs) a (b - a)
    (fun x y => dd cs (a + (b - a) * x) (a + (b - a) * (x * y))) (fun x y => dd_spec cs _ _) hab hx hl
  obtain ⟨FR, pFR, cFR, vFR⟩ := span2_real hG
  have hGR : Continuous (Function.uncurry fun x y : ℝ =>
      ddR cs ((a : ℝ) + ((b : ℝ) - a) * x) ((a : ℝ) + ((b : ℝ) - a) * (x * y)) ^ 2) :=
    (poly2_ddR_sq cs).continuous.comp
      (by fun_prop : Continuous fun p : ℝ × ℝ => ((a : ℝ) + ((b : ℝ) - a) * p.1, (a : ℝ) + ((b : ℝ) - a) * (p.1 * p.2)))
  have hFR : FR = fun x y : ℝ =>
      ddR cs ((a : ℝ) + ((b : ℝ) - a) * x) ((a : ℝ) + ((b : ℝ) - a) * (x * y)) ^ 2 := by
    apply eq_of_eq_on_rat pFR.continuous hGR
    intro x y
    rw [← cFR]
    push_cast
    rw [dd_cast]
    push_cast
    rfl
  rw [step1]
  push_cast
  rw [vFR gx gl (fun k hk => hmx k (by omega)) (fun k hk => hml k (by omega)), hFR, mul_assoc,
    duffy_subst (fun u v => ddR cs u v ^ 2) (a : ℝ) ((b : ℝ) - a)]
  have e : (a : ℝ) + ((b : ℝ) - a) = b := by ring
  rw [e, ← (poly2_ddR_sq cs).sq_eq_two_tri (fun u v => by rw [ddR_symm]) a b]
  rfl

/-- **C14, H^{1/2}: exactness on polynomials, full statement** (closes the gap of `semi12_exact_partial`).  For every
polynomial `f = Σ cₖ xᵏ` of degree `≤ deg`, every interval with end points `a ≠ b`, and every pair of base rules with the
moments `1/(k+2)` (weight `x`) and `1/(k+1)` (Legendre) for `k ≤ N`, `2 deg ≤ N + 2`, without nodes at `x = 0` resp. `y = 1`,
`seminorm_h_1_2(f, a, b)` is the Slobodeckij double integral of the definition. -/
theorem semi12_eq_integral_poly (cs : List Rat) (a b : Rat) (hab : b - a ≠ 0) (deg : Nat) (hlen : cs.length ≤ deg + 1)
    (gx gl : Rule1) (N : Nat) (hN : 2 * deg ≤ N + 2) (hmx : ∀ k, k ≤ N → mom gx k = 1 / ((k : Rat) + 2))
    (hml : Exact1 gl N) (hx : ∀ n ∈ gx, n.x ≠ 0) (hl : ∀ n ∈ gl, n.x ≠ 1) :
    ((semi12 gx gl (evalPoly cs) a (b - a) : Rat) : ℝ) =
      ∫ x in (a : ℝ)..(b : ℝ), ∫ y in (a : ℝ)..(b : ℝ), ((evalPolyR cs x - evalPolyR cs y) / (x - y)) ^ 2 := by
  rw [semi12_eq_integral_dd cs a b hab deg hlen gx gl N hN hmx hml hx hl]
  congr 1
  funext x
  apply integral_congr_ae
  have : ∀ᵐ y ∂(MeasureTheory.volume : MeasureTheory.Measure ℝ), y ∉ ({x} : Set ℝ) :=
    (Set.countable_singleton x).ae_notMem _
  filter_upwards [this] with y hy _
  have hne : x ≠ y := fun e => hy (by simp [e])
  rw [ddR_eq_div cs hne]

/-- **`semi12_exact`** — the statement announced (as not formalised) in the header of `Props/C14.lean`, in its notation:
interval `[a, a + h]`, `h ≠ 0` (either sign), integrand `(f x - f y)² / (x - y)²` -/
theorem semi12_exact (cs : List Rat) (a h : Rat) (hh : h ≠ 0) (deg : Nat) (hlen : cs.length ≤ deg + 1)
    (gx gl : Rule1) (N : Nat) (hN : 2 * deg ≤ N + 2) (hmx : ∀ k, k ≤ N → mom gx k = 1 / ((k : Rat) + 2))
    (hml : Exact1 gl N) (hx : ∀ n ∈ gx, n.x ≠ 0) (hl : ∀ n ∈ gl, n.x ≠ 1) :
    ((semi12 gx gl (evalPoly cs) a h : Rat) : ℝ) =
      ∫ x in (a : ℝ)..((a : ℝ) + h), ∫ y in (a : ℝ)..((a : ℝ) + h),
        (evalPolyR cs x - evalPolyR cs y) ^ 2 / (x - y) ^ 2 := by
  have e : a + h - a = h := by ring
  have := semi12_eq_integral_poly cs a (a + h) (by rw [e]; exact hh) deg hlen gx gl N hN hmx hml hx hl
  rw [e] at this
  rw [this]
  push_cast
  simp only [div_pow]

/-- the value is the same for all admissible pairs of rules (`semi12_exact_partial`) — and it is this integral -/
theorem semi12_exact_value (cs : List Rat) (a h : Rat) (hh : h ≠ 0) (deg : Nat) (hlen : cs.length ≤ deg + 1)
    (gx gl gx' gl' : Rule1) (N N' : Nat) (hN : 2 * deg ≤ N + 2) (hN' : 2 * deg ≤ N' + 2)
    (hmx : ∀ k, k ≤ N → mom gx k = 1 / ((k : Rat) + 2)) (hml : Exact1 gl N)
    (hmx' : ∀ k, k ≤ N' → mom gx' k = 1 / ((k : Rat) + 2)) (hml' : Exact1 gl' N')
    (hx : ∀ n ∈ gx, n.x ≠ 0) (hl : ∀ n ∈ gl, n.x ≠ 1) (hx' : ∀ n ∈ gx', n.x ≠ 0) (hl' : ∀ n ∈ gl', n.x ≠ 1) :
    semi12 gx gl (evalPoly cs) a h = semi12 gx' gl' (evalPoly cs) a h := by
  have h1 := semi12_exact cs a h hh deg hlen gx gl N hN hmx hml hx hl
  have h2 := semi12_exact cs a h hh deg hlen gx' gl' N' hN' hmx' hml' hx' hl'
  exact_mod_cast h1.trans h2.symm

/-! ## non-vacuity: the three-node rules `gX`, `gL` of `Props/C14.lean` (moments exact up to order 2) -/

/-- hypotheses of `semi12_eq_integral_poly` hold for `f(x) = 3 - x + 2x²` on `[1, 3]` and on the reversed interval -/
example : ((semi12 gX gL (evalPoly [3, -1, 2]) 1 (3 - 1) : Rat) : ℝ) =
    ∫ x in ((1 : Rat) : ℝ)..((3 : Rat) : ℝ), ∫ y in ((1 : Rat) : ℝ)..((3 : Rat) : ℝ),
      ((evalPolyR [3, -1, 2] x - evalPolyR [3, -1, 2] y) / (x - y)) ^ 2 :=
  semi12_eq_integral_poly [3, -1, 2] 1 3 (by norm_num) 2 (by simp) gX gL 2 (by norm_num) gX_moments gL_exact
    (by decide +kernel) (by decide +kernel)

/-- `f(x) = x²` on `[0, 1]`: `∫₀¹∫₀¹ ((x² - y²)/(x - y))² dy dx = ∫₀¹∫₀¹ (x + y)² = 7/6`, the value the routine returns -/
example : (∫ x in (0 : ℝ)..1, ∫ y in (0 : ℝ)..1, ((evalPolyR [0, 0, 1] x - evalPolyR [0, 0, 1] y) / (x - y)) ^ 2) = 7 / 6 := by
  have h := semi12_eq_integral_poly [0, 0, 1] 0 1 (by norm_num) 2 (by simp) gX gL 2 (by norm_num) gX_moments gL_exact
    (by decide +kernel) (by decide +kernel)
  have v : semi12 gX gL (evalPoly [0, 0, 1]) 0 (1 - 0) = 7 / 6 := by decide +kernel
  rw [v] at h
  push_cast at h
  exact h.symm

end Stbem.C14
