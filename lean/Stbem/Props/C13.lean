import Stbem.Lemmas.PosDefMatrix
import Stbem.Lemmas.PosDefDom
import Stbem.Lemmas.PosDefConseq
import Stbem.Gen.Consts

/-!
# C13 — positive definite symmetric part: verified certificate checker and the consequences (PARTIAL)

Property text: "On every mesh the Galerkin matrix of the single-layer operator has a positive definite symmetric part
(smallest eigenvalue of the diagonally scaled symmetric part above 0.01), so the linear systems are uniquely solvable
and energy-norm quantities such as the h-h/2 estimator and the hierarchical scaling factors are real and positive."

What is proved here (model: `Stbem/Model/PosDef.lean`, run by the driver command `pd check` over `Rat`):

* A. the checker is **sound and complete**: for every square matrix `M` over an ordered field,
  `certPD M = true ↔ ∀ x ≠ 0, 0 < xᵀ M x` (`certPD_iff`); a failed run proves the existence of a vector with
  `xᵀ M x ≤ 0` (`notpd_witness`); the driver's two answers are exactly the two values of the certificate
  (`checkQ_ok_iff`, `checkQ_error_iff`); a second, hint-based checker for large matrices (`Rᵀ M R` strictly diagonally
  dominant for an untrusted `R`) is sound: it accepts only what the exact elimination accepts (`domCert_certPD`,
  `domCertScaledQ_sound`);
* B. **scaled bound**: `certScaledQ A μ = true ↔ ∀ x ≠ 0, μ Σ aᵢᵢ xᵢ² < xᵀ A x` over `ℚ` (`scaled_bound_iff`), and the
  same run over `ℚ` decides the statement over `ℝ` for the real matrix with the same (rational = binary64) entries
  (`scaled_bound_real_iff`) — the transfer is the theorem that the elimination commutes with the cast;
* C. **consequences** for every real matrix with positive definite quadratic form (= positive definite symmetric
  part, `posDefForm_iff_symPart`): `det ≠ 0`, injectivity, exactly one solution of `A Φ = rhs`
  (`unique_solvability`); `dᵀ A d > 0` for `d ≠ 0`, `= 0` for `d = 0`, `sqrt(dᵀAd)² = dᵀAd` (`hh2_energy`); every
  principal sub-matrix inherits the property, so the scaling factors `ψᵀ S ψ` of the three sign patterns on a 4 × 4
  child block are positive (`hierarchical_scaling_pos`); the diagonal is positive; Rayleigh quotient of
  `D^{-1/2} A D^{-1/2}` above `μ`, every eigenvalue of its symmetric part above `μ` (`certified_consequences`).

What is NOT proved: that the matrices assembled by `bilform_matrix` satisfy the bound on EVERY mesh.  That needs the
coercivity of the heat single-layer operator and bounds on quadrature and rounding errors.  The bound is *decided per
assembled binary64 matrix* by running this verified checker (compiled) in the harness — a test of samples with a
verified oracle, not a proof of the ∀-meshes claim.
-/
namespace Stbem.PosDef
open Matrix

variable {K : Type} [Field K] [LinearOrder K] [IsStrictOrderedRing K]

/-! ## A. the certificate checker is sound and complete -/

/-- **soundness**: if the elimination finds `n` positive pivots, the quadratic form is positive on every non-zero
    vector (no symmetry hypothesis: the elimination works with the mean of row and column, see the model file) -/
theorem certPD_sound {n : Nat} {M : List (List K)} (hM : Shape n n M) (h : certPD M = true)
    (x : List K) (hx : x.length = n) (hnz : NonZero x) : 0 < quad M x :=
  certPD_sound' hM h x hx hnz

/-- **completeness**: on a matrix whose quadratic form is positive definite the elimination succeeds -/
theorem certPD_complete {n : Nat} {M : List (List K)} (hM : Shape n n M)
    (hpd : ∀ x : List K, x.length = n → NonZero x → 0 < quad M x) : certPD M = true :=
  certPD_complete' hM hpd

theorem certPD_iff {n : Nat} {M : List (List K)} (hM : Shape n n M) :
    certPD M = true ↔ ∀ x : List K, x.length = n → NonZero x → 0 < quad M x :=
  ⟨fun h x hx hnz => certPD_sound hM h x hx hnz, certPD_complete hM⟩

/-- a failed run is a proof that the matrix is not positive definite -/
theorem notpd_witness {n : Nat} {M : List (List K)} (hM : Shape n n M) (h : certPD M = false) :
    ∃ x : List K, x.length = n ∧ NonZero x ∧ quad M x ≤ 0 := by
  by_contra hno
  have : certPD M = true := by
    apply certPD_complete hM
    intro x hx hnz
    by_contra hle
    exact hno ⟨x, hx, hnz, not_lt.mp hle⟩
  rw [h] at this
  exact Bool.false_ne_true this

/-- the pivots reported by a successful run: as many as rows, all positive -/
theorem pivots_pos {M : List (List K)} {ps : List K} (h : ldlPivots M = some ps) :
    ps.length = M.length ∧ ∀ p ∈ ps, 0 < p :=
  ldlAux_pivots_pos _ M ps (ldlPivots_eq_some.mp h)

/-- with a symmetric matrix the step is the textbook one: the mean of first row and first column is the first row -/
theorem rowcol_of_symmetric (r : List K) (rest : List (List K)) (hsym : heads rest = r) : rowcol r rest = r := by
  subst hsym
  unfold rowcol
  induction heads rest with
  | nil => rfl
  | cons a l ih =>
    simp only [List.zipWith_cons_cons, ih]
    congr 1
    ring

/-- the driver's answer `ok` is the certificate … -/
theorem checkQ_ok_iff (A : Mat) (μ : ℚ) : (∃ ps, checkQ A μ = .ok ps) ↔ certScaledQ A μ = true := by
  unfold checkQ certScaledQ certPD ldlPivots
  simp only
  generalize ldlAux (scaledShift A μ).length (scaledShift A μ) = r
  cases r <;> simp

/-- … and the answer `notpd k` its negation -/
theorem checkQ_error_iff (A : Mat) (μ : ℚ) : (∃ k, checkQ A μ = .error k) ↔ certScaledQ A μ = false := by
  unfold checkQ certScaledQ certPD ldlPivots
  simp only
  generalize ldlAux (scaledShift A μ).length (scaledShift A μ) = r
  cases r <;> simp

/-- **hint-based certificate** (`pd dom`, for matrices too large for the exact elimination): whatever the untrusted
    hint `R` is, if `Rᵀ M R` is strictly diagonally dominant (rows + columns) then the exact elimination would succeed
    on `M`, hence (by `certPD_iff`) the form of `M` is positive definite.  No completeness is claimed for this path. -/
theorem domCert_certPD {n : Nat} {M R : List (List K)} (h : domCert n M R = true) : certPD M = true :=
  domCert_sound h

/-- the driver's `pd dom … = ok` implies the driver's `pd check … = ok`; every theorem below about `certScaledQ`
    therefore applies to matrices accepted through a hint -/
theorem domCertScaledQ_sound (A R : Mat) (μ : ℚ) (h : domCertScaledQ A μ R = true) : certScaledQ A μ = true :=
  domCert_sound h

/-- the certificate over `ℚ` is a certificate over every ordered field for the cast matrix (used with `K = ℝ`) -/
theorem certPD_transfer {n : Nat} {M : List (List ℚ)} (hM : Shape n n M) (h : certPD M = true)
    (x : List K) (hx : x.length = n) (hnz : NonZero x) : 0 < quad (castM M : List (List K)) x :=
  certPD_sound (shape_castM hM) (by rw [certPD_cast]; exact h) x hx hnz

/-! ## B. the scaled bound -/

/-- **scaled bound**, list form over an ordered field: a certificate for `sym(A) − μ diag(A)` ⇔ `μ Σ aᵢᵢ xᵢ² < xᵀ A x`
    for all `x ≠ 0` -/
theorem scaled_bound_list_iff {n : Nat} {A : List (List K)} (hA : Shape n n A) (μ : K) :
    certPD (scaledShift A μ) = true ↔
      ∀ x : List K, x.length = n → NonZero x → μ * sqsum (diagN n A) x < quad A x :=
  ⟨fun h x hx hnz => scaled_bound_list hA μ h x hx hnz, scaled_bound_list_conv hA μ⟩

/-- **scaled bound** for a rational `n × n` matrix in Mathlib's terms: the checker run by the driver decides
    `μ Σ aᵢᵢ xᵢ² < xᵀ A x` for all rational `x ≠ 0` -/
theorem scaled_bound_iff {n : Nat} (A : Matrix (Fin n) (Fin n) ℚ) (μ : ℚ) :
    certScaledQ (toLists A) μ = true ↔
      ∀ x : Fin n → ℚ, x ≠ 0 → μ * ∑ i, A i i * x i * x i < x ⬝ᵥ A *ᵥ x := by
  show certPD (scaledShift (toLists A) μ) = true ↔ _
  rw [scaled_bound_list_iff (shape_toLists A) μ]
  constructor
  · intro h x hx
    have := h (List.ofFn x) (by simp) ((nonZero_ofFn x).mpr hx)
    rwa [diagN_toLists, sqsum_ofFn, quad_toLists] at this
  · intro h x hx hnz
    obtain ⟨f, rfl⟩ := exists_ofFn x hx
    rw [diagN_toLists, sqsum_ofFn, quad_toLists]
    exact h f ((nonZero_ofFn f).mp hnz)

/-- **transfer to ℝ**: the SAME run over `ℚ` decides the bound over the reals for the real matrix with these entries -/
theorem scaled_bound_real_iff {n : Nat} (A : Matrix (Fin n) (Fin n) ℚ) (μ : ℚ) :
    certScaledQ (toLists A) μ = true ↔
      ∀ x : Fin n → ℝ, x ≠ 0 →
        (μ : ℝ) * ∑ i, (A i i : ℝ) * x i * x i < x ⬝ᵥ (A.map fun q => (q : ℝ)) *ᵥ x := by
  show certPD (scaledShift (toLists A) μ) = true ↔ _
  rw [← certScaled_cast (K := ℝ), castM_toLists, scaled_bound_list_iff (shape_toLists _) (μ : ℝ)]
  constructor
  · intro h x hx
    have := h (List.ofFn x) (by simp) ((nonZero_ofFn x).mpr hx)
    rwa [diagN_toLists, sqsum_ofFn, quad_toLists] at this
  · intro h x hx hnz
    obtain ⟨f, rfl⟩ := exists_ofFn x hx
    rw [diagN_toLists, sqsum_ofFn, quad_toLists]
    exact h f ((nonZero_ofFn f).mp hnz)

/-- the wire format: a well-shaped list of rows is `toLists` of its matrix, so `scaled_bound_iff` speaks about exactly
    the `n·n` numbers sent to the driver -/
theorem wire_format {n : Nat} (M : List (List ℚ)) (hM : Shape n n M) : toLists (ofLists n M) = M :=
  toLists_ofLists M hM

/-! ## C. consequences (the "so that" part of the property) -/

section consequences
variable {ι : Type} [Fintype ι] [DecidableEq ι]

/-- **unique solvability**: `det A ≠ 0`, `A` injective, and `A Φ = rhs` has exactly one solution -/
theorem unique_solvability {A : Matrix ι ι ℝ} (hA : PosDefForm A) :
    A.det ≠ 0 ∧ Function.Injective A.mulVec ∧ ∀ rhs : ι → ℝ, ∃! Φ : ι → ℝ, A *ᵥ Φ = rhs :=
  ⟨hA.det_ne_zero, hA.mulVec_injective, hA.existsUnique_solution⟩

/-- **h-h/2 estimator** `sqrt(dᵀ A d)`: the radicand is positive for `d ≠ 0` and `0` for `d = 0`, so the square root
    is that of a non-negative number, squares back to the energy, and is positive exactly when `d ≠ 0` -/
theorem hh2_energy {A : Matrix ι ι ℝ} (hA : PosDefForm A) (d : ι → ℝ) :
    (d ≠ 0 → 0 < d ⬝ᵥ A *ᵥ d) ∧ (d ⬝ᵥ A *ᵥ d = 0 ↔ d = 0) ∧
    Real.sqrt (d ⬝ᵥ A *ᵥ d) ^ 2 = d ⬝ᵥ A *ᵥ d ∧ (0 < Real.sqrt (d ⬝ᵥ A *ᵥ d) ↔ d ≠ 0) :=
  ⟨hA d, hA.energy_eq_zero_iff d, (hA.sqrt_energy d).1, (hA.sqrt_energy d).2⟩

/-- a coefficient pattern of `HierarchicalErrorEstimator.estimate` (a row of the GENERATED constant
    `Stbem.Gen.Consts.hierPatterns`, regenerated from `src/hierarchical_error_estimator.py` on every run) as a real vector
    on the four children -/
def patternVec (p : List Int) : Fin 4 → ℝ := fun i => ((p.getD i.val 0 : Int) : ℝ)

/-- **hierarchical scaling factors**: the 4 × 4 block of four distinct (child) elements of a matrix with positive
    definite form has `ψᵀ S ψ > 0` for every `ψ ≠ 0`, in particular `scaling_estim = coefs @ (S @ coefs.T) > 0` for each of
    the sign patterns the source iterates over (so the `assert scaling_estim > 0` of the estimator cannot fire) -/
theorem hierarchical_scaling_pos {A : Matrix ι ι ℝ} (hA : PosDefForm A) (children : Fin 4 → ι)
    (hinj : Function.Injective children) :
    PosDefForm (A.submatrix children children) ∧
    ∀ p ∈ Stbem.Gen.Consts.hierPatterns,
      0 < patternVec p ⬝ᵥ (A.submatrix children children) *ᵥ patternVec p := by
  have hS := hA.submatrix children hinj
  refine ⟨hS, ?_⟩
  intro p hp
  apply hS
  intro h0
  have hnz : ∀ q ∈ Stbem.Gen.Consts.hierPatterns, q.getD 0 0 ≠ 0 := by decide
  have h1 : patternVec p 0 = 0 := congrFun h0 0
  simp only [patternVec, Fin.val_zero, Int.cast_eq_zero] at h1
  exact hnz p hp h1

/-- **everything the harness concludes from one `ok` of the driver** (`pd check μ n …` with `0 ≤ μ < 1`): for the real
    matrix `AR` with the transmitted entries — positive diagonal; positive definite form (= symmetric part);
    `det ≠ 0`; unique solvability; Rayleigh quotient of the diagonally scaled matrix above `μ`; every eigenvalue of the
    symmetric part of the diagonally scaled matrix above `μ`. -/
theorem certified_consequences {n : Nat} (A : Matrix (Fin n) (Fin n) ℚ) (μ : ℚ) (hμ0 : 0 ≤ μ) (hμ1 : μ < 1)
    (h : certScaledQ (toLists A) μ = true) :
    let AR : Matrix (Fin n) (Fin n) ℝ := A.map fun q => (q : ℝ)
    (∀ i, 0 < AR i i) ∧ PosDefForm AR ∧ PosDefForm ((1 / 2 : ℝ) • (AR + ARᵀ)) ∧ AR.det ≠ 0 ∧
    (∀ rhs : Fin n → ℝ, ∃! Φ : Fin n → ℝ, AR *ᵥ Φ = rhs) ∧
    (∀ y : Fin n → ℝ, y ≠ 0 → (μ : ℝ) * (y ⬝ᵥ y) < y ⬝ᵥ (diagScaled AR) *ᵥ y) ∧
    (∀ (lam : ℝ) (y : Fin n → ℝ), y ≠ 0 →
      ((1 / 2 : ℝ) • (diagScaled AR + (diagScaled AR)ᵀ)) *ᵥ y = lam • y → (μ : ℝ) < lam) := by
  intro AR
  have hb := (scaled_bound_real_iff A μ).mp h
  have hb' : ∀ x : Fin n → ℝ, x ≠ 0 → (μ : ℝ) * ∑ i, AR i i * x i * x i < x ⬝ᵥ AR *ᵥ x := hb
  obtain ⟨hdiag, hpd⟩ := posDefForm_of_scaled_bound (by exact_mod_cast hμ0) (by exact_mod_cast hμ1) hb'
  have hray := rayleigh_of_scaled_bound hdiag hb'
  exact ⟨hdiag, hpd, (posDefForm_iff_symPart AR).mp hpd, hpd.det_ne_zero, hpd.existsUnique_solution, hray,
    fun lam y hy heig => eigenvalue_gt_of_rayleigh hray lam y hy heig⟩

/-
  FULL STATEMENT of C13 (NOT proved; it cannot even be stated without a model of the binary64 assembly):

    theorem c13 : ∀ (γ : closed curve) (mesh : reachable from MeshParametrized γ, aspect ≤ 32, ≤ ~500 elements),
        certScaledQ (toLists (the binary64 matrix returned by bilform_matrix on mesh)) (1/100) = true
      -- and the same for the 4 × 4 child blocks of the hierarchical estimator.

  Missing: (1) coercivity of the heat single-layer operator on H^{-1/2,-1/4}(Σ) with an explicit constant for piecewise
  constants on anisotropic meshes (not in Mathlib; the kernel's special functions `erf`, `Ei` are not in Mathlib either),
  (2) bounds on the quadrature error of the fixed rules of `SingleLayerOperator.__integrate` and on binary64 rounding,
  small enough to be absorbed by the spectral gap.  What is proved instead is the per-matrix decision below; the harness
  runs it on the matrices the real code assembles (a sample of meshes).
-/

/-- **C13, partial**: for EVERY rational (= binary64) `n × n` matrix `A` and `0 ≤ μ < 1` the two possible answers of the
    verified checker mean: `ok` ⇒ the real matrix with these entries has a positive diagonal, a positive definite symmetric
    part with Rayleigh quotient of `D^{-1/2} A D^{-1/2}` above `μ`, non-zero determinant and uniquely solvable systems;
    `notpd` ⇒ there is a real vector `x ≠ 0` with `xᵀ A x ≤ μ Σ aᵢᵢ xᵢ²`, i.e. the bound of the property fails for `A`. -/
theorem c13_partial {n : Nat} (A : Matrix (Fin n) (Fin n) ℚ) (μ : ℚ) (hμ0 : 0 ≤ μ) (hμ1 : μ < 1) :
    let AR : Matrix (Fin n) (Fin n) ℝ := A.map fun q => (q : ℝ)
    ((∃ ps, checkQ (toLists A) μ = .ok ps) →
      (∀ i, 0 < AR i i) ∧ PosDefForm ((1 / 2 : ℝ) • (AR + ARᵀ)) ∧ AR.det ≠ 0 ∧
      (∀ rhs : Fin n → ℝ, ∃! Φ : Fin n → ℝ, AR *ᵥ Φ = rhs) ∧
      (∀ d : Fin n → ℝ, d ≠ 0 → 0 < d ⬝ᵥ AR *ᵥ d) ∧
      (∀ y : Fin n → ℝ, y ≠ 0 → (μ : ℝ) * (y ⬝ᵥ y) < y ⬝ᵥ (diagScaled AR) *ᵥ y)) ∧
    ((∃ k, checkQ (toLists A) μ = .error k) →
      ∃ x : Fin n → ℝ, x ≠ 0 ∧ x ⬝ᵥ AR *ᵥ x ≤ (μ : ℝ) * ∑ i, AR i i * x i * x i) := by
  intro AR
  constructor
  · intro hok
    have h := (checkQ_ok_iff (toLists A) μ).mp hok
    obtain ⟨h1, h2, h3, h4, h5, h6, -⟩ := certified_consequences A μ hμ0 hμ1 h
    exact ⟨h1, h3, h4, h5, h2, h6⟩
  · intro herr
    have h := (checkQ_error_iff (toLists A) μ).mp herr
    by_contra hno
    have hall : ∀ x : Fin n → ℝ, x ≠ 0 →
        (μ : ℝ) * ∑ i, (A i i : ℝ) * x i * x i < x ⬝ᵥ (A.map fun q => (q : ℝ)) *ᵥ x := by
      intro x hx
      by_contra hlt
      exact hno ⟨x, hx, not_lt.mp hlt⟩
    have := (scaled_bound_real_iff A μ).mpr hall
    rw [h] at this
    exact Bool.false_ne_true this

end consequences

/-! ## non-vacuity: a concrete non-symmetric 3 × 3 matrix (kernel evaluation) -/

/-- a non-symmetric matrix with positive definite symmetric part -/
def exA : Mat := [[4, 1, 0], [-1, 3, 1], [2, 0, 5]]
/-- a matrix with positive entries whose symmetric part `[[1,2],[2,1]]` is indefinite -/
def exB : Mat := [[1, 3], [1, 1]]

example : symPart exA = [[4, 0, 1], [0, 3, 1 / 2], [1, 1 / 2, 5]] := by decide +kernel
example : scaledShift exA (1 / 100) = [[99 / 25, 0, 1], [0, 297 / 100, 1 / 2], [1, 1 / 2, 99 / 20]] := by
  decide +kernel
example : checkQ exA (1 / 100) = .ok [99 / 25, 297 / 100, 27403 / 5940] := by decide +kernel
example : certScaledQ exA (1 / 100) = true := by decide +kernel
example : checkQ exB (1 / 100) = .error 1 := by decide +kernel
example : certScaledQ exB (1 / 100) = false := by decide +kernel
/-- the form of `exB` is indeed not positive: `x = (1, -1)` -/
example : quad exB [1, -1] = -2 := by decide +kernel
example : Shape 3 3 exA := ⟨rfl, by decide⟩

/-- the hypotheses of `certPD_sound` are satisfiable, and its conclusion on a concrete vector -/
example : 0 < quad (scaledShift exA (1 / 100)) [1, -2, 1 / 3] :=
  certPD_sound (n := 3) ⟨rfl, by decide +kernel⟩ (by decide +kernel) _ rfl ⟨1, by simp, one_ne_zero⟩

/-- `notpd_witness` applies to `exB` -/
example : ∃ x : List ℚ, x.length = 2 ∧ NonZero x ∧ quad (scaledShift exB (1 / 100)) x ≤ 0 :=
  notpd_witness (n := 2) ⟨rfl, by decide +kernel⟩ (by decide +kernel)

/-- hint-based path: `scaledShift exA (1/100)` is itself diagonally dominant (hint = identity); `[[2,3],[3,5]]` is not,
    the hint `[[1,-3/2],[0,1]]` (inverse transposed unit triangular factor) makes `Rᵀ M R = diag(2, 1/2)` -/
example : domCertScaledQ exA (1 / 100) [[1, 0, 0], [0, 1, 0], [0, 0, 1]] = true := by decide +kernel
example : domCert 2 ([[2, 3], [3, 5]] : Mat) [[1, 0], [0, 1]] = false := by decide +kernel
example : domCert 2 ([[2, 3], [3, 5]] : Mat) [[1, -3 / 2], [0, 1]] = true := by decide +kernel
example : congr 2 ([[2, 3], [3, 5]] : Mat) [[1, -3 / 2], [0, 1]] = [[2, 0], [0, 1 / 2]] := by decide +kernel

/-- the Mathlib matrix of `exA` -/
def exAm : Matrix (Fin 3) (Fin 3) ℚ := !![4, 1, 0; -1, 3, 1; 2, 0, 5]

example : toLists exAm = exA := by decide +kernel

/-- both hypotheses of the two halves of `c13_partial` occur: `ok` for `exAm`, `notpd` for the matrix of `exB` -/
example : (∃ ps, checkQ (toLists exAm) (1 / 100) = .ok ps) ∧
    ∃ k, checkQ (toLists (!![1, 3; 1, 1] : Matrix (Fin 2) (Fin 2) ℚ)) (1 / 100) = .error k :=
  ⟨⟨[99 / 25, 297 / 100, 27403 / 5940], by decide +kernel⟩, ⟨1, by decide +kernel⟩⟩

/-- `certified_consequences` applies to `exAm` with `μ = 1/100`: e.g. the real matrix is regular -/
example : (exAm.map fun q => (q : ℝ)).det ≠ 0 :=
  (certified_consequences exAm (1 / 100) (by norm_num) (by norm_num) (by decide +kernel)).2.2.2.1

/-- the hypothesis of `certPD_complete` (a positive definite form) is satisfiable: it holds for `scaledShift exA (1/100)` -/
example : ∀ x : List ℚ, x.length = 3 → NonZero x → 0 < quad (scaledShift exA (1 / 100)) x :=
  (certPD_iff (n := 3) ⟨rfl, by decide +kernel⟩).mp (by decide +kernel)

example : ([99 / 25, 297 / 100, 27403 / 5940] : List ℚ).length = (scaledShift exA (1 / 100)).length ∧
    ∀ p ∈ ([99 / 25, 297 / 100, 27403 / 5940] : List ℚ), 0 < p :=
  pivots_pos (M := scaledShift exA (1 / 100)) (by decide +kernel)

example : rowcol ([1, 2] : List ℚ) [[1, 5, 6], [2, 6, 7]] = [1, 2] := rowcol_of_symmetric _ _ rfl

/-- `certPD_transfer` with `K = ℝ` -/
example : 0 < quad (castM (scaledShift exA (1 / 100)) : List (List ℝ)) [1, -2, 1 / 3] :=
  certPD_transfer (n := 3) ⟨rfl, by decide +kernel⟩ (by decide +kernel) _ rfl ⟨1, by simp, one_ne_zero⟩

/-- the right-hand sides of `scaled_bound_iff` / `scaled_bound_real_iff` hold for `exAm`, `μ = 1/100` -/
example : ∀ x : Fin 3 → ℚ, x ≠ 0 → (1 / 100 : ℚ) * ∑ i, exAm i i * x i * x i < x ⬝ᵥ exAm *ᵥ x :=
  (scaled_bound_iff exAm (1 / 100)).mp (by decide +kernel)

example : ∀ x : Fin 3 → ℝ, x ≠ 0 →
    ((1 / 100 : ℚ) : ℝ) * ∑ i, (exAm i i : ℝ) * x i * x i < x ⬝ᵥ (exAm.map fun q => (q : ℝ)) *ᵥ x :=
  (scaled_bound_real_iff exAm (1 / 100)).mp (by decide +kernel)

example : toLists (ofLists 3 exA) = exA := wire_format exA ⟨rfl, by decide⟩

/-- a real matrix satisfying the hypothesis `PosDefForm` of the consequence theorems … -/
theorem exAm_posDefForm : PosDefForm (exAm.map fun q => (q : ℝ)) :=
  (certified_consequences exAm (1 / 100) (by norm_num) (by norm_num) (by decide +kernel)).2.1

/-- … so `unique_solvability` and `hh2_energy` are not vacuous -/
example : ∀ rhs : Fin 3 → ℝ, ∃! Φ : Fin 3 → ℝ, (exAm.map fun q => (q : ℝ)) *ᵥ Φ = rhs :=
  (unique_solvability exAm_posDefForm).2.2

example : 0 < Real.sqrt (![1, 0, -1] ⬝ᵥ (exAm.map fun q => (q : ℝ)) *ᵥ ![1, 0, -1]) :=
  ((hh2_energy exAm_posDefForm ![1, 0, -1]).2.2.2).mpr (fun h => by simpa using congrFun h 0)

/-- `hierarchical_scaling_pos`: hypotheses satisfiable (identity on `Fin 4`, the 4 × 4 identity matrix); the generated
    patterns are the three sign vectors -/
example : ∀ p ∈ Stbem.Gen.Consts.hierPatterns,
    0 < patternVec p ⬝ᵥ ((1 : Matrix (Fin 4) (Fin 4) ℝ).submatrix id id) *ᵥ patternVec p :=
  (hierarchical_scaling_pos (A := (1 : Matrix (Fin 4) (Fin 4) ℝ))
    (fun x hx => by
      rw [one_mulVec]
      exact dotProduct_self_pos hx) id Function.injective_id).2

example : Stbem.Gen.Consts.hierPatterns = [[1, 1, -1, -1], [1, -1, 1, -1], [1, -1, -1, 1]] := by decide

end Stbem.PosDef
