import Stbem.Props.C15
import Stbem.Model.Slobo
import Stbem.Lemmas.QuadGenBasic

/-!
# QuadTie — `src/quadrature.py` REGENERATED FROM THE SOURCE equals the hand-written model

`Stbem.Gen.QuadGen` is produced on every run by `translate/quadgen.py` from the text of `src/quadrature.py`
(Python `ast` → Lean, statement by statement: the constructors with their `np.repeat / np.tile / np.kron /
np.hstack / np.vstack` calls, the `mirror*` methods with their memo, the `integrate` methods with the `a == b`
shortcut and the size assertions at the exact binary64 values of `1e-5`, `1e-7`).  The generated functions work on
what the Python objects hold — the `points` array (rows) and the `weights` array; the hand-written model
`Stbem.Model.Quad` works on lists of nodes.  `ofRule1/2/3` (`Stbem.Model.QuadConv`) lays a node list out as arrays.

Section 1 proves, for ALL rules (any length, any numbers), integrands and boxes, that every generated function
maps the array layout of a rule to the array layout of what the hand-written function returns.  Section 2 shows
that every well-formed scheme object is such a layout, so nothing is lost.  Section 3 restates the results of
`Props/C15.lean` for the generated functions.  If the source changes behaviour, these theorems no longer check.
-/
namespace Stbem.QuadTie
open Stbem.Quad Stbem.QuadConv
open Stbem.Gen

-- the fallback tactics after `simp` / `rfl` only run when the source was rewritten (see `quad_tail`)
set_option linter.unusedTactic false
set_option linter.unreachableTactic false
set_option linter.unusedSimpArgs false

/-- closes what `simp` leaves when the source was rewritten up to commutativity / associativity of the arithmetic
(`∀ a ∈ r, e₁ = e₂` for every array, possibly as a conjunction): harmless rewrites should not break the tie -/
syntax "quad_tail" : tactic
macro_rules
  | `(tactic| quad_tail) =>
    `(tactic| first
      | done
      | rfl
      | ring1
      | (constructor <;> quad_tail)
      | (intro _ _; quad_tail)
      | (funext _; quad_tail)
      | (congr 1 <;> quad_tail))

/-! ## 1. the generated definitions equal the hand-written ones -/

/-! ### 1-D -/

theorem gen_init1_eq (r : Rule1) :
    QuadGen.QuadScheme1D.init (r.map (·.x)) (r.map (·.w)) = ofRule1 r := rfl

/-- `QuadScheme1D.mirror` -/
theorem gen_mirror1_eq (r : Rule1) : (ofRule1 r).mirror = ofRule1 (mirror1 r) := by
  simp [QuadGen.QuadScheme1D.mirror, QuadGen.QuadScheme1D.init, ofRule1, mirror1, List.map_map, Function.comp_def] <;> quad_tail

/-- `QuadScheme1D.integrate`: the `a == b` shortcut, then the assertion `b - a > 1e-5` (binary64 value of the
literal), then the value of the hand model -/
theorem gen_integrate1_eq (r : Rule1) (f : Rat → Rat) (a b : Rat) :
    (ofRule1 r).integrate f a b =
      if a = b then .ok 0
      else if b - a > QuadGen.c_1e_m5 then .ok (integrate1 r f a b) else .error "assert:size" := by
  unfold QuadGen.QuadScheme1D.integrate integrate1
  by_cases h : a = b
  · simp [h]; rfl
  · simp only [h, if_false]
    by_cases h2 : b - a > QuadGen.c_1e_m5
    · simp only [h2, not_true_eq_false, if_false, if_true, ofRule1, npSA_map, npAS_map, npAA_map, npMap1_map, npArray_eq, npDot_map]
      first
        | rfl
        | (show Except.ok _ = Except.ok _; congr 1; apply sumR_map_congr; intro n _; ring_nf)
    · simp [h2]

/-! ### 2-D -/

theorem gen_mirrorX2_eq (r : Rule2) : (ofRule2 r).mirror_x = ofRule2 (mirrorX2 r) := by
  simp [QuadGen.QuadScheme2D.mirror_x, QuadGen.QuadScheme2D.init, ofRule2, mirrorX2, List.map_map, Function.comp_def] <;> quad_tail

theorem gen_mirrorY2_eq (r : Rule2) : (ofRule2 r).mirror_y = ofRule2 (mirrorY2 r) := by
  simp [QuadGen.QuadScheme2D.mirror_y, QuadGen.QuadScheme2D.init, ofRule2, mirrorY2, List.map_map, Function.comp_def] <;> quad_tail

/-- `QuadScheme2D.integrate`: the assertion `b - a > 1e-7 and d - c > 1e-7`, then the value of the hand model -/
theorem gen_integrate2_eq (r : Rule2) (f : Rat → Rat → Rat) (a b c d : Rat) :
    (ofRule2 r).integrate f a b c d =
      if b - a > QuadGen.c_1e_m7 ∧ d - c > QuadGen.c_1e_m7 then .ok (integrate2 r f a b c d)
      else .error "assert:size" := by
  unfold QuadGen.QuadScheme2D.integrate integrate2
  by_cases h : b - a > QuadGen.c_1e_m7 ∧ d - c > QuadGen.c_1e_m7
  · simp only [h, and_self, not_true_eq_false, if_false, if_true, ofRule2, npRow_zero, npRow_one, npSA_map, npAS_map, npAA_map,
      npArrayM_eq, npMap2_map, npArray_eq, npDot_map]
    first
      | rfl
      | (show Except.ok _ = Except.ok _; congr 1
         exact congrArg₂ HMul.hMul (by ring) (sumR_map_congr _ _ _ (fun n _ => by ring_nf)))
  · simp [h]

/-- `ProductScheme2D(scheme_x, scheme_y)`: `np.repeat`, `np.tile`, `np.kron` give the node order of `product2` -/
theorem gen_product2_eq (rx ry : Rule1) :
    QuadGen.ProductScheme2D.init (ofRule1 rx) (some (ofRule1 ry)) = ofRule2 (product2 rx ry) := by
  simp only [QuadGen.ProductScheme2D.init, QuadGen.QuadScheme2D.init, ofRule1, ofRule2, npArrayM_eq, npArray_eq,
    npLen_map, product2, List.map_flatMap, List.map_map, Function.comp_def]
  congr 1
  · congr 1
    · rw [npRepeat_map]; simp [List.map_const']
    · rw [← flatMap_const_eq_tile]
  · simp [QuadGen.npKron, List.flatMap_map, List.map_map, Function.comp_def]

/-- the default `scheme_y=None` means `scheme_y = scheme_x` -/
theorem gen_product2_default_eq (rx : Rule1) :
    QuadGen.ProductScheme2D.init (ofRule1 rx) none = ofRule2 (product2 rx rx) := by
  rw [← gen_product2_eq]; rfl

/-- `DuffyScheme2D(scheme2d, symmetric)`, both variants -/
theorem gen_duffy2_eq (r : Rule2) (symmetric : Bool) :
    QuadGen.DuffyScheme2D.init (ofRule2 r) symmetric = ofRule2 (duffy2 r symmetric) := by
  cases symmetric
  · simp [QuadGen.DuffyScheme2D.init, QuadGen.QuadScheme2D.init, ofRule2, duffy2, duffyHalfA, duffyHalfB,
      QuadGen.npHstack, List.map_map, Function.comp_def] <;> quad_tail
  · simp [QuadGen.DuffyScheme2D.init, QuadGen.QuadScheme2D.init, ofRule2, duffy2, List.map_map, Function.comp_def] <;> quad_tail

/-! ### 3-D -/

theorem gen_mirrorX3_eq (r : Rule3) : (ofRule3 r).mirror_x = ofRule3 (mirrorX3 r) := by
  simp [QuadGen.QuadScheme3D.mirror_x, QuadGen.QuadScheme3D.init, ofRule3, mirrorX3, List.map_map, Function.comp_def] <;> quad_tail

theorem gen_mirrorY3_eq (r : Rule3) : (ofRule3 r).mirror_y = ofRule3 (mirrorY3 r) := by
  simp [QuadGen.QuadScheme3D.mirror_y, QuadGen.QuadScheme3D.init, ofRule3, mirrorY3, List.map_map, Function.comp_def] <;> quad_tail

theorem gen_mirrorZ3_eq (r : Rule3) : (ofRule3 r).mirror_z = ofRule3 (mirrorZ3 r) := by
  simp [QuadGen.QuadScheme3D.mirror_z, QuadGen.QuadScheme3D.init, ofRule3, mirrorZ3, List.map_map, Function.comp_def] <;> quad_tail

/-- `QuadScheme3D.integrate` (no assertion in the source) -/
theorem gen_integrate3_eq (r : Rule3) (f : Rat → Rat → Rat → Rat) (a b c d k l : Rat) :
    (ofRule3 r).integrate f a b c d k l = integrate3 r f a b c d k l := by
  unfold QuadGen.QuadScheme3D.integrate integrate3
  simp only [ofRule3, npRow_zero, npRow_one, npRow_two, npSA_map, npAS_map, npAA_map, npArrayM_eq, npMap3_map, npArray_eq, npDot_map] <;>
    first
      | rfl
      | exact congrArg₂ HMul.hMul (by ring) (sumR_map_congr _ _ _ (fun n _ => by ring_nf))

/-- `ProductScheme3D(scheme_x)`: `np.repeat(…, axis=1)`, `np.tile(…, points_xy.shape[1])`, `np.vstack`, nested
`np.kron` give the node order of `product3` -/
theorem gen_product3_eq (r : Rule1) : QuadGen.ProductScheme3D.init (ofRule1 r) = ofRule3 (product3 r) := by
  simp only [QuadGen.ProductScheme3D.init, QuadGen.QuadScheme3D.init, ofRule1, ofRule3, npArrayM_eq, npArray_eq,
    npLen_map, product3, List.map_flatMap, List.map_map, Function.comp_def, QuadGen.npVstack, QuadGen.npRow2d,
    QuadGen.npRepeatAxis1, QuadGen.npShape1, List.map_cons, List.map_nil, List.flatten_cons, List.flatten_nil,
    List.headD_cons, List.cons_append, List.nil_append, List.append_nil]
  congr 1
  · congr 1
    · rw [npRepeat_map, npRepeat_flatMap]
      simp only [List.map_const']
      congr 1; funext nx
      rw [← replicate_length_flatMap]; rfl
    · congr 1
      · rw [← flatMap_const_eq_tile, npRepeat_flatMap]
        congr 1; funext nx
        rw [npRepeat_map]; simp [List.map_const']
      · congr 1
        rw [npRepeat_length, List.length_map, npTile_mul, ← flatMap_const_eq_tile, ← flatMap_const_eq_tile]
  · simp [QuadGen.npKron, List.flatMap_map, List.map_map, Function.comp_def, List.flatMap_assoc, mul_assoc]

/-- `DuffySchemeIdentical3D(scheme3d, symmetric_xy)`, both variants -/
theorem gen_duffyId3_eq (r : Rule3) (symmetric_xy : Bool) :
    QuadGen.DuffySchemeIdentical3D.init (ofRule3 r) symmetric_xy = ofRule3 (duffyId3 r symmetric_xy) := by
  cases symmetric_xy
  · simp [QuadGen.DuffySchemeIdentical3D.init, QuadGen.QuadScheme3D.init, ofRule3, duffyId3, idT1, idT2, idT3, idT4,
      idT5, idT6, QuadGen.npHstackM, npTile6, List.map_map, Function.comp_def] <;> quad_tail
  · simp [QuadGen.DuffySchemeIdentical3D.init, QuadGen.QuadScheme3D.init, ofRule3, duffyId3, idT1, idT2, idT3,
      scaleW3, QuadGen.npHstackM, QuadGen.npSA, npTile3, List.map_map, Function.comp_def] <;> quad_tail

/-- `DuffySchemeTouch3D(scheme3d)` -/
theorem gen_duffyTouch3_eq (r : Rule3) :
    QuadGen.DuffySchemeTouch3D.init (ofRule3 r) = ofRule3 (duffyTouch3 r) := by
  simp [QuadGen.DuffySchemeTouch3D.init, QuadGen.QuadScheme3D.init, ofRule3, duffyTouch3, touchP1, touchP2, touchP3,
    QuadGen.npHstackM, npTile3, List.map_map, Function.comp_def] <;> quad_tail

/-! ## 2. every well-formed scheme object is the array layout of a node list

`WF1/2/3 s`: `points` has the 1 / 2 / 3 rows of its class and every row is as long as `weights` (what NumPy needs
for `integrate` not to raise).  Such an `s` is `ofRule (toRule s)`; hence a statement proved for all `ofRule r`
holds for all well-formed objects, and the constructors return well-formed objects. -/

theorem wf1_iff (s : QuadGen.QuadScheme1D) : WF1 s ↔ ∃ r, s = ofRule1 r :=
  ⟨fun h => ⟨_, (ofRule1_toRule1 h).symm⟩, fun ⟨r, h⟩ => h ▸ wf_ofRule1 r⟩
theorem wf2_iff (s : QuadGen.QuadScheme2D) : WF2 s ↔ ∃ r, s = ofRule2 r :=
  ⟨fun h => ⟨_, (ofRule2_toRule2 h).symm⟩, fun ⟨r, h⟩ => h ▸ wf_ofRule2 r⟩
theorem wf3_iff (s : QuadGen.QuadScheme3D) : WF3 s ↔ ∃ r, s = ofRule3 r :=
  ⟨fun h => ⟨_, (ofRule3_toRule3 h).symm⟩, fun ⟨r, h⟩ => h ▸ wf_ofRule3 r⟩

/-- the array layout loses nothing: two rules with the same arrays are the same rule -/
theorem ofRule1_injective : Function.Injective ofRule1 :=
  fun r s h => by rw [← toRule1_ofRule1 r, h, toRule1_ofRule1]
theorem ofRule2_injective : Function.Injective ofRule2 :=
  fun r s h => by rw [← toRule2_ofRule2 r, h, toRule2_ofRule2]
theorem ofRule3_injective : Function.Injective ofRule3 :=
  fun r s h => by rw [← toRule3_ofRule3 r, h, toRule3_ofRule3]

/-- the generated constructors and mirrors return well-formed objects, with the nodes of the hand model -/
theorem gen_wf_closed (sx sy : QuadGen.QuadScheme1D) (s2 : QuadGen.QuadScheme2D) (s3 : QuadGen.QuadScheme3D) (sym : Bool)
    (hx : WF1 sx) (hy : WF1 sy) (h2 : WF2 s2) (h3 : WF3 s3) :
    (WF1 sx.mirror ∧ toRule1 sx.mirror = mirror1 (toRule1 sx)) ∧
    (WF2 (QuadGen.ProductScheme2D.init sx (some sy)) ∧
      toRule2 (QuadGen.ProductScheme2D.init sx (some sy)) = product2 (toRule1 sx) (toRule1 sy)) ∧
    (WF2 s2.mirror_x ∧ toRule2 s2.mirror_x = mirrorX2 (toRule2 s2)) ∧
    (WF2 s2.mirror_y ∧ toRule2 s2.mirror_y = mirrorY2 (toRule2 s2)) ∧
    (WF2 (QuadGen.DuffyScheme2D.init s2 sym) ∧ toRule2 (QuadGen.DuffyScheme2D.init s2 sym) = duffy2 (toRule2 s2) sym) ∧
    (WF3 (QuadGen.ProductScheme3D.init sx) ∧ toRule3 (QuadGen.ProductScheme3D.init sx) = product3 (toRule1 sx)) ∧
    (WF3 s3.mirror_x ∧ toRule3 s3.mirror_x = mirrorX3 (toRule3 s3)) ∧
    (WF3 s3.mirror_y ∧ toRule3 s3.mirror_y = mirrorY3 (toRule3 s3)) ∧
    (WF3 s3.mirror_z ∧ toRule3 s3.mirror_z = mirrorZ3 (toRule3 s3)) ∧
    (WF3 (QuadGen.DuffySchemeIdentical3D.init s3 sym) ∧
      toRule3 (QuadGen.DuffySchemeIdentical3D.init s3 sym) = duffyId3 (toRule3 s3) sym) ∧
    (WF3 (QuadGen.DuffySchemeTouch3D.init s3) ∧ toRule3 (QuadGen.DuffySchemeTouch3D.init s3) = duffyTouch3 (toRule3 s3)) := by
  obtain ⟨rx, rfl⟩ := (wf1_iff sx).mp hx
  obtain ⟨ry, rfl⟩ := (wf1_iff sy).mp hy
  obtain ⟨r2, rfl⟩ := (wf2_iff s2).mp h2
  obtain ⟨r3, rfl⟩ := (wf3_iff s3).mp h3
  simp only [gen_mirror1_eq, gen_product2_eq, gen_mirrorX2_eq, gen_mirrorY2_eq, gen_duffy2_eq, gen_product3_eq,
    gen_mirrorX3_eq, gen_mirrorY3_eq, gen_mirrorZ3_eq, gen_duffyId3_eq, gen_duffyTouch3_eq, toRule1_ofRule1,
    toRule2_ofRule2, toRule3_ofRule3, wf_ofRule1, wf_ofRule2, wf_ofRule3, and_self]

/-! ## 3. the theorems of `Props/C15.lean` for the generated-from-source functions

All hypotheses are about the generated objects: `WF*` (shapes), `GenExact1` (the generated `integrate` of the base
rule returns `1/(k+1)` for `xᵏ` on `[0,1]`, `k ≤ n`).  `1e-5 < 1` and `1e-7 < 1`, so the unit box passes the
assertions. -/

theorem c5_lt_one : (1 : Rat) - 0 > QuadGen.c_1e_m5 := by norm_num [QuadGen.c_1e_m5]
theorem c7_lt_one : (1 : Rat) - 0 > QuadGen.c_1e_m7 := by norm_num [QuadGen.c_1e_m7]

/-- the generated `integrate` on the reference interval is the weighted sum of the hand model -/
theorem gen_ref1 (r : Rule1) (f : Rat → Rat) : (ofRule1 r).integrate f 0 1 = .ok (apply1 r f) := by
  rw [gen_integrate1_eq, if_neg (by norm_num), if_pos c5_lt_one, integrate1_eq]; simp

theorem gen_ref2 (r : Rule2) (f : Rat → Rat → Rat) : (ofRule2 r).integrate f 0 1 0 1 = .ok (apply2 r f) := by
  rw [gen_integrate2_eq, if_pos ⟨c7_lt_one, c7_lt_one⟩, integrate2_eq]; simp

theorem gen_ref3 (r : Rule3) (f : Rat → Rat → Rat → Rat) : (ofRule3 r).integrate f 0 1 0 1 0 1 = apply3 r f := by
  rw [gen_integrate3_eq, integrate3_eq]; simp

/-- the generated base rule integrates `xᵏ`, `k ≤ n`, exactly on `[0,1]` -/
def GenExact1 (s : QuadGen.QuadScheme1D) (n : Nat) : Prop :=
  ∀ k, k ≤ n → s.integrate (fun x => x ^ k) 0 1 = .ok (1 / ((k : Rat) + 1))

theorem genExact1_iff (r : Rule1) (n : Nat) : GenExact1 (ofRule1 r) n ↔ Exact1 r n := by
  unfold GenExact1 Exact1 mom
  constructor
  · intro h k hk; have := h k hk; rw [gen_ref1] at this; exact Except.ok.inj this
  · intro h k hk; rw [gen_ref1, h k hk]

/-! ### mirrors -/

/-- mirroring twice gives the object back (1-D: for every object) -/
theorem gen_mirror1_mirror1 (s : QuadGen.QuadScheme1D) : s.mirror.mirror = s := by
  cases s with
  | mk p w =>
    simp only [QuadGen.QuadScheme1D.mirror, QuadGen.QuadScheme1D.init, npArray_eq, QuadGen.npSA, QuadGen.npAS,
      QuadGen.npNeg, List.map_map, Function.comp_def]
    congr 1
    exact (List.map_congr_left (fun u _ => show _ = id u by simp only [id]; ring)).trans (List.map_id _)

theorem gen_mirror2_involution {s : QuadGen.QuadScheme2D} (h : WF2 s) :
    s.mirror_x.mirror_x = s ∧ s.mirror_y.mirror_y = s ∧ s.mirror_x.mirror_y = s.mirror_y.mirror_x := by
  obtain ⟨r, rfl⟩ := (wf2_iff s).mp h
  simp only [gen_mirrorX2_eq, gen_mirrorY2_eq, mirrorX2_mirrorX2, mirrorY2_mirrorY2, mirrorX2_mirrorY2_comm, and_self]

theorem gen_mirror3_involution {s : QuadGen.QuadScheme3D} (h : WF3 s) :
    s.mirror_x.mirror_x = s ∧ s.mirror_y.mirror_y = s ∧ s.mirror_z.mirror_z = s := by
  obtain ⟨r, rfl⟩ := (wf3_iff s).mp h
  simp only [gen_mirrorX3_eq, gen_mirrorY3_eq, gen_mirrorZ3_eq, mirrorX3_mirrorX3, mirrorY3_mirrorY3,
    mirrorZ3_mirrorZ3, and_self]

/-- mirroring never touches the weights (every object, no shape hypothesis) -/
theorem gen_mirror_weights (s1 : QuadGen.QuadScheme1D) (s2 : QuadGen.QuadScheme2D) (s3 : QuadGen.QuadScheme3D) :
    s1.mirror.weights = s1.weights ∧ s2.mirror_x.weights = s2.weights ∧ s2.mirror_y.weights = s2.weights ∧
    s3.mirror_x.weights = s3.weights ∧ s3.mirror_y.weights = s3.weights ∧ s3.mirror_z.weights = s3.weights :=
  ⟨rfl, rfl, rfl, rfl, rfl, rfl⟩

/-- a mirrored rule integrates `f` as the rule integrates the reflected `f` (any interval; the assertion and the
shortcut are the same on both sides) -/
theorem gen_integrate1_mirror {s : QuadGen.QuadScheme1D} (h : WF1 s) (f : Rat → Rat) (a b : Rat) :
    s.mirror.integrate f a b = s.integrate (fun x => f (a + b - x)) a b := by
  obtain ⟨r, rfl⟩ := (wf1_iff s).mp h
  rw [gen_mirror1_eq, gen_integrate1_eq, gen_integrate1_eq, integrate1_eq, integrate1_eq, apply1_mirror1]
  congr 3
  unfold apply1
  congr 2; apply List.map_congr_left; intro n _; ring_nf

/-- exactness is inherited by the mirrored rule -/
theorem gen_exact1_mirror {s : QuadGen.QuadScheme1D} {n : Nat} (h : WF1 s) (he : GenExact1 s n) :
    GenExact1 s.mirror n := by
  obtain ⟨r, rfl⟩ := (wf1_iff s).mp h
  rw [gen_mirror1_eq, genExact1_iff]
  exact ((genExact1_iff r n).mp he).mirror

/-! ### measure and exactness -/

/-- weights of an exact rule mapped to `[a,b]` sum to `b - a` (for every interval that passes the assertion) -/
theorem gen_weights_sum_interval {s : QuadGen.QuadScheme1D} {n : Nat} (h : WF1 s) (he : GenExact1 s n) (a b : Rat)
    (hab : b - a > QuadGen.c_1e_m5) : s.integrate (fun _ => 1) a b = .ok (b - a) := by
  obtain ⟨r, rfl⟩ := (wf1_iff s).mp h
  have hne : a ≠ b := by
    intro e; subst e; norm_num [QuadGen.c_1e_m5] at hab
  rw [gen_integrate1_eq, if_neg hne, if_pos hab, weights_sum_interval ((genExact1_iff r n).mp he)]

/-- tensor rule: exact for `xⁱyʲ`, `i, j ≤ n`, on the unit square -/
theorem gen_product2_exact {sx sy : QuadGen.QuadScheme1D} {n : Nat} (hx : WF1 sx) (hy : WF1 sy)
    (ex : GenExact1 sx n) (ey : GenExact1 sy n) (i j : Nat) (hi : i ≤ n) (hj : j ≤ n) :
    (QuadGen.ProductScheme2D.init sx (some sy)).integrate (fun x y => x ^ i * y ^ j) 0 1 0 1 =
      .ok (1 / (((i : Rat) + 1) * ((j : Rat) + 1))) := by
  obtain ⟨rx, rfl⟩ := (wf1_iff sx).mp hx
  obtain ⟨ry, rfl⟩ := (wf1_iff sy).mp hy
  rw [gen_product2_eq, gen_ref2,
    product2_exact ((genExact1_iff rx n).mp ex) ((genExact1_iff ry n).mp ey) i j hi hj]

/-- weights of the tensor rule mapped to a rectangle sum to its area -/
theorem gen_product2_measure {sx sy : QuadGen.QuadScheme1D} {n : Nat} (hx : WF1 sx) (hy : WF1 sy)
    (ex : GenExact1 sx n) (ey : GenExact1 sy n) (a b c d : Rat)
    (hab : b - a > QuadGen.c_1e_m7) (hcd : d - c > QuadGen.c_1e_m7) :
    (QuadGen.ProductScheme2D.init sx (some sy)).integrate (fun _ _ => 1) a b c d = .ok ((b - a) * (d - c)) := by
  obtain ⟨rx, rfl⟩ := (wf1_iff sx).mp hx
  obtain ⟨ry, rfl⟩ := (wf1_iff sy).mp hy
  rw [gen_product2_eq, gen_integrate2_eq, if_pos ⟨hab, hcd⟩,
    product2_measure ((genExact1_iff rx n).mp ex) ((genExact1_iff ry n).mp ey)]

/-- **2-D Duffy: exact for total degree `i + j ≤ n - 1`** on the unit square -/
theorem gen_duffy2_exact {sx sy : QuadGen.QuadScheme1D} {n : Nat} (hx : WF1 sx) (hy : WF1 sy)
    (ex : GenExact1 sx n) (ey : GenExact1 sy n) (i j : Nat) (hij : i + j + 1 ≤ n) :
    (QuadGen.DuffyScheme2D.init (QuadGen.ProductScheme2D.init sx (some sy)) false).integrate
        (fun x y => x ^ i * y ^ j) 0 1 0 1 = .ok (1 / (((i : Rat) + 1) * ((j : Rat) + 1))) := by
  obtain ⟨rx, rfl⟩ := (wf1_iff sx).mp hx
  obtain ⟨ry, rfl⟩ := (wf1_iff sy).mp hy
  rw [gen_product2_eq, gen_duffy2_eq, gen_ref2,
    duffy2_exact ((genExact1_iff rx n).mp ex) ((genExact1_iff ry n).mp ey) i j hij]

/-- the Duffy weights mapped to a rectangle sum to its area -/
theorem gen_duffy2_measure {sx sy : QuadGen.QuadScheme1D} {n : Nat} (hx : WF1 sx) (hy : WF1 sy)
    (ex : GenExact1 sx n) (ey : GenExact1 sy n) (hn : 1 ≤ n) (a b c d : Rat)
    (hab : b - a > QuadGen.c_1e_m7) (hcd : d - c > QuadGen.c_1e_m7) :
    (QuadGen.DuffyScheme2D.init (QuadGen.ProductScheme2D.init sx (some sy)) false).integrate (fun _ _ => 1) a b c d =
      .ok ((b - a) * (d - c)) := by
  obtain ⟨rx, rfl⟩ := (wf1_iff sx).mp hx
  obtain ⟨ry, rfl⟩ := (wf1_iff sy).mp hy
  rw [gen_product2_eq, gen_duffy2_eq, gen_integrate2_eq, if_pos ⟨hab, hcd⟩,
    duffy2_measure ((genExact1_iff rx n).mp ex) ((genExact1_iff ry n).mp ey) hn]

/-- the symmetric and the non-symmetric Duffy variants agree on symmetric integrands (same interval in both
directions, as `DuffyScheme2D(…, symmetric=True)` is used) -/
theorem gen_duffy2_sym_agree {s : QuadGen.QuadScheme2D} (h : WF2 s) (f : Rat → Rat → Rat)
    (hf : ∀ x y, f x y = f y x) (a b : Rat) :
    (QuadGen.DuffyScheme2D.init s true).integrate f a b a b = (QuadGen.DuffyScheme2D.init s false).integrate f a b a b := by
  obtain ⟨r, rfl⟩ := (wf2_iff s).mp h
  rw [gen_duffy2_eq, gen_duffy2_eq, gen_integrate2_eq, gen_integrate2_eq, integrate2_eq, integrate2_eq,
    duffy2_sym_agree r (fun x y => f (a + (b - a) * x) (a + (b - a) * y)) (fun x y => hf _ _)]

/-- 3-D tensor rule: exact for `xⁱyʲzᵏ`, each exponent `≤ n`, on the unit cube -/
theorem gen_product3_exact {s : QuadGen.QuadScheme1D} {n : Nat} (h : WF1 s) (e : GenExact1 s n) (i j k : Nat)
    (hi : i ≤ n) (hj : j ≤ n) (hk : k ≤ n) :
    (QuadGen.ProductScheme3D.init s).integrate (fun x y z => x ^ i * y ^ j * z ^ k) 0 1 0 1 0 1 =
      1 / (((i : Rat) + 1) * ((j : Rat) + 1) * ((k : Rat) + 1)) := by
  obtain ⟨r, rfl⟩ := (wf1_iff s).mp h
  rw [gen_product3_eq, gen_ref3, product3_exact ((genExact1_iff r n).mp e) i j k hi hj hk]

/-- weights of the 3-D tensor rule mapped to a box sum to its volume (no assertion in `QuadScheme3D.integrate`) -/
theorem gen_product3_measure {s : QuadGen.QuadScheme1D} {n : Nat} (h : WF1 s) (e : GenExact1 s n) (a b c d k l : Rat) :
    (QuadGen.ProductScheme3D.init s).integrate (fun _ _ _ => 1) a b c d k l = (b - a) * (d - c) * (l - k) := by
  obtain ⟨r, rfl⟩ := (wf1_iff s).mp h
  rw [gen_product3_eq, gen_integrate3_eq, integrate3_eq]
  have := product3_exact ((genExact1_iff r n).mp e) 0 0 0 (Nat.zero_le _) (Nat.zero_le _) (Nat.zero_le _)
  simp only [pow_zero, mul_one, Nat.cast_zero, zero_add, div_one] at this
  rw [this]; ring

/-- **3-D "touch" Duffy: exact for total degree `i + j + k ≤ n - 2`** on the unit cube -/
theorem gen_duffyTouch3_exact {s : QuadGen.QuadScheme1D} {n : Nat} (h : WF1 s) (e : GenExact1 s n) (i j k : Nat)
    (hijk : i + j + k + 2 ≤ n) :
    (QuadGen.DuffySchemeTouch3D.init (QuadGen.ProductScheme3D.init s)).integrate
        (fun x y z => x ^ i * y ^ j * z ^ k) 0 1 0 1 0 1 = 1 / (((i : Rat) + 1) * ((j : Rat) + 1) * ((k : Rat) + 1)) := by
  obtain ⟨r, rfl⟩ := (wf1_iff s).mp h
  rw [gen_product3_eq, gen_duffyTouch3_eq, gen_ref3, duffyTouch3_exact ((genExact1_iff r n).mp e) i j k hijk]

/-- the weights of the "touch" scheme mapped to a box sum to its volume (`n ≥ 2`) -/
theorem gen_duffyTouch3_measure {s : QuadGen.QuadScheme1D} {n : Nat} (h : WF1 s) (e : GenExact1 s n) (hn : 2 ≤ n)
    (a b c d k l : Rat) :
    (QuadGen.DuffySchemeTouch3D.init (QuadGen.ProductScheme3D.init s)).integrate (fun _ _ _ => 1) a b c d k l =
      (b - a) * (d - c) * (l - k) := by
  obtain ⟨r, rfl⟩ := (wf1_iff s).mp h
  rw [gen_product3_eq, gen_duffyTouch3_eq, gen_integrate3_eq, integrate3_eq]
  have := duffyTouch3_exact ((genExact1_iff r n).mp e) 0 0 0 (by omega)
  simp only [pow_zero, mul_one, Nat.cast_zero, zero_add, div_one] at this
  rw [this]; ring

/-- the two variants of the identical-panel scheme agree on integrands symmetric in `x ↔ y` -/
theorem gen_duffyId3_sym_agree {s : QuadGen.QuadScheme3D} (h : WF3 s) (f : Rat → Rat → Rat → Rat)
    (hf : ∀ x y z, f x y z = f y x z) (a b k l : Rat) :
    (QuadGen.DuffySchemeIdentical3D.init s true).integrate f a b a b k l =
      (QuadGen.DuffySchemeIdentical3D.init s false).integrate f a b a b k l := by
  obtain ⟨r, rfl⟩ := (wf3_iff s).mp h
  rw [gen_duffyId3_eq, gen_duffyId3_eq, gen_integrate3_eq, gen_integrate3_eq, integrate3_eq, integrate3_eq,
    duffyId3_sym_agree r (fun x y z => f (a + (b - a) * x) (a + (b - a) * y) (k + (l - k) * z)) (fun x y z => hf _ _ _)]

/-- the pull-back form of the generated 2-D Duffy scheme (no hypothesis on the rule) -/
theorem gen_duffy2_pullback {s : QuadGen.QuadScheme2D} (h : WF2 s) (f : Rat → Rat → Rat) :
    (QuadGen.DuffyScheme2D.init s false).integrate f 0 1 0 1 =
      s.integrate (fun x y => x * (f x (x * (1 - y)) + f (x * (1 - y)) x)) 0 1 0 1 := by
  obtain ⟨r, rfl⟩ := (wf2_iff s).mp h
  rw [gen_duffy2_eq, gen_ref2, gen_ref2, apply2_duffy2_false]

/-! ### C14: the size assertion inside `Slobodeckij.seminorm_h_1_2_pw` is the generated one -/

/-- the threshold of the hand-written `semi12pwVal` is the `1e-7` of the source of `QuadScheme2D.integrate` -/
theorem gen_size_threshold : QuadGen.c_1e_m7 = tol7 := by norm_num [QuadGen.c_1e_m7, tol7]

/-- the cross term of `seminorm_h_1_2_pw`, its size assertion included, is the generated `QuadScheme2D.integrate` on
the two-piece point set -/
theorem semi12pwVal_via_gen (gx gl : Rule1) (sameObj : Bool) (γ1 γ2 : Rat → Rat × Rat)
    (f : Rat → Rat × Rat → Rat) (a1 b1 a2 b2 : Rat) :
    semi12pwVal gx gl sameObj γ1 γ2 f a1 b1 a2 b2 =
      if sameObj then .error "assert:gamma-identity"
      else if γ1 b1 ≠ γ2 a2 then .error "assert:corner"
      else (fun v => semi12g gx gl γ1 f a1 (b1 - a1) + semi12g gx gl γ2 f a2 (b2 - a2) + 2 * v) <$>
        (ofRule2 (semi12pw gx gl)).integrate (sloCross γ1 γ2 f) a1 b1 a2 b2 := by
  unfold semi12pwVal
  rw [gen_integrate2_eq, gen_size_threshold]
  split_ifs <;> rfl

/-! ## 4. the generated definitions are executable: closed examples (evaluated by the kernel), non-vacuity -/

example : QuadGen.ProductScheme2D.init (ofRule1 simpson) none =
    ⟨[[0, 0, 0, 1/2, 1/2, 1/2, 1, 1, 1], [0, 1/2, 1, 0, 1/2, 1, 0, 1/2, 1]],
     [1/36, 1/9, 1/36, 1/9, 4/9, 1/9, 1/36, 1/9, 1/36]⟩ := by decide +kernel
example : (ofRule1 simpson).mirror = ⟨[1, 1/2, 0], [1/6, 2/3, 1/6]⟩ := by decide +kernel
example : (QuadGen.DuffyScheme2D.init (ofRule2 [⟨1/2, 1/3, 5⟩, ⟨1/4, 1, 7⟩]) false) =
    ⟨[[1/2, 1/4, 1/3, 0], [1/3, 0, 1/2, 1/4]], [5/2, 7/4, 5/2, 7/4]⟩ := by decide +kernel
example : (QuadGen.DuffyScheme2D.init (ofRule2 [⟨1/2, 1/3, 5⟩, ⟨1/4, 1, 7⟩]) true) =
    ⟨[[1/2, 1/4], [1/3, 0]], [5, 7/2]⟩ := by decide +kernel
example : (ofRule1 simpson).integrate (fun x => x ^ 3) 2 4 = .ok 60 := by decide +kernel
example : (ofRule1 simpson).integrate (fun x => x ^ 3) 2 2 = .ok 0 := by decide +kernel
example : (ofRule1 simpson).integrate (fun x => x ^ 3) 2 (2 + 1 / 100000) = .error "assert:size" := by decide +kernel
example : (QuadGen.DuffyScheme2D.init (QuadGen.ProductScheme2D.init (ofRule1 simpson) none) false).integrate
    (fun x y => x * y) 0 1 0 1 = .ok (1 / 4) := by decide +kernel
example : (QuadGen.DuffySchemeTouch3D.init (QuadGen.ProductScheme3D.init (ofRule1 simpson))).integrate
    (fun x y z => x + 2 * y - z) 0 1 0 1 0 1 = 1 := by decide +kernel
example : (QuadGen.DuffySchemeIdentical3D.init (QuadGen.ProductScheme3D.init (ofRule1 simpson)) false).integrate
    (fun x y z => x + 2 * y - z) 0 1 0 1 0 1 = 1 := by decide +kernel
example : WF1 (ofRule1 simpson) ∧ GenExact1 (ofRule1 simpson) 3 :=
  ⟨wf_ofRule1 _, (genExact1_iff _ _).mpr simpson_exact⟩
/-- the hypotheses of `gen_duffy2_exact` / `gen_duffyTouch3_exact` are satisfiable with a non-trivial degree -/
example : (QuadGen.DuffyScheme2D.init (QuadGen.ProductScheme2D.init (ofRule1 simpson) (some (ofRule1 simpson))) false).integrate
    (fun x y => x ^ 1 * y ^ 1) 0 1 0 1 = .ok (1 / ((((1 : Nat) : Rat) + 1) * (((1 : Nat) : Rat) + 1))) :=
  gen_duffy2_exact (wf_ofRule1 _) (wf_ofRule1 _) ((genExact1_iff _ _).mpr simpson_exact)
    ((genExact1_iff _ _).mpr simpson_exact) 1 1 (by norm_num)
example : (QuadGen.DuffySchemeTouch3D.init (QuadGen.ProductScheme3D.init (ofRule1 simpson))).integrate
    (fun x y z => x ^ 0 * y ^ 1 * z ^ 0) 0 1 0 1 0 1 =
      1 / ((((0 : Nat) : Rat) + 1) * (((1 : Nat) : Rat) + 1) * (((0 : Nat) : Rat) + 1)) :=
  gen_duffyTouch3_exact (wf_ofRule1 _) ((genExact1_iff _ _).mpr simpson_exact) 0 1 0 (by norm_num)
example : WF2 (QuadGen.ProductScheme2D.init (ofRule1 simpson) none) := by
  rw [gen_product2_default_eq]; exact wf_ofRule2 _
example : WF3 (QuadGen.ProductScheme3D.init (ofRule1 simpson)) := by
  rw [gen_product3_eq]; exact wf_ofRule3 _
example : (2 : Rat) + 1 - 2 > QuadGen.c_1e_m5 ∧ (1 : Rat) - 0 > QuadGen.c_1e_m7 := by
  norm_num [QuadGen.c_1e_m5, QuadGen.c_1e_m7]
example : ∀ x y : Rat, (fun x y : Rat => 1 / (3 + x * y + x + y)) x y = (fun x y : Rat => 1 / (3 + x * y + x + y)) y x := by
  intro x y; simp only; congr 1; ring

end Stbem.QuadTie
