import Stbem.Props.Formulas
import Stbem.Props.C15
import Stbem.Lemmas.InitPotMain
import Stbem.Lemmas.InitPotDuffyId
import Stbem.Lemmas.InitPotSwap
import Stbem.Lemmas.InitPotIntegral
import Mathlib.Tactic.Ring
import Mathlib.Tactic.LinearCombination
import Mathlib.Tactic.IntervalCases

/-!
# C08 — initial-potential load vector (geometry and algebra of `InitialOperator.linform`)

`linform` sums, over the cells `Q` of the boundary-matched domain mesh, a 3-D Duffy rule applied to
`u₀(γ_Q(x,z)) · k(|γ_Q(x,z) − γ_K(y)|²)` times a Jacobian.  Proved here (over `ℚ`, axis-parallel data):

* `param_identical`: for the cell having the boundary segment as an edge, with `γ_Q(x,z) = n₀ + (n₁−n₀)x + (n₂−n₀)z`
  and `γ_K(y) = n₀ + (n₁−n₀)y`, `(n₁−n₀) ⟂ (n₂−n₀)`, `|n₁−n₀| = |n₂−n₀| = h`:
  `|γ_Q(x,z) − γ_K(y)|² = h²((x−y)² + z²)` — the argument the code passes to the kernel, so the singular line
  `x = y, z = 0` of the Duffy-identical rule is the singular set of the kernel;
* `param_touch`: for a cell touching the segment in the vertex `n₀`: `γ_Q(0,0) = γ_K(0) = n₀`, and the distance
  vanishes only there for a cell on the other side of an orthogonal/collinear edge pair (stated for the square
  cell spanned by orthogonal `e₂, e₃`);
* Jacobians: `area(Q)·|K| = h³` for the identical cell, `diam² · (d − c)` in general;
* `load_linear`: a weighted sum `Σ w·u₀(p)·k` is linear in `u₀`;
* the two branches of the time-integrated kernel (`a = 0` / `a ≠ 0`) of the *generated* `ip_tik`.

The exactness of the rules on polynomial kernels (hence additivity under splitting for them) is C15
(`duffyTouch3_exact`, `product3_exact`), the tiling of the domain by the cells is C16.

Second part (namespace `Stbem.InitPot`): theorems about the EXECUTABLE MODEL of `InitialOperator.linform`
(`Stbem.Model.InitialPotential`, tied to `src/initial_potential.py` by the exact correspondence of
`harness/checks/C08.py`: real `linform` on `Q` numbers vs `ip lin`, load and per-cell contributions textually):

* `linform_linear`: the result (load, per-cell list, or the assertion that fails) is linear in `u0`, all inputs;
* `linform_additive_time`: splitting the time interval at `m ≠ 0` splits load and per-cell contributions — an
  identity of the model for EVERY kernel stand-in (the time-integrated kernels telescope);
* `duffyId3_exact`: `DuffySchemeIdentical3D(ProductScheme3D(r), False)` is exact for total degree `≤ n − 2`
  (new; C15 had the touching and the tensor rule only); `apply3_duffTouch_swap`: the touching rule is symmetric
  under `x ↔ z`;
* `linform_eq_integral_poly`: for every mesh `dom` satisfying the invariant of C16 (in particular every mesh
  reachable from `UnitSquare()` / `LShape()`, `linform_eq_integral_unit/_lshape`), every leaf with a side on the
  boundary and every dyadic piece of that side in either orientation: if `u0(x)·k(|x−y|²)` is a polynomial of total
  degree `≤ n − 2` (`n` = exactness of the 1-D rule) and `FPI_INV = 1/(4π)`, the model returns the exact integral
  over domain × segment (`boxInt`, identified with Mathlib's iterated interval integral by `boxInt_eq_integral`),
  and every cell contributes its own exact integral;
* `linform_additive_space_poly`: under the same hypotheses the load of a segment is the sum of the loads of its
  two halves (this is NOT an identity of the model for arbitrary stand-ins: the two halves use different meshes).

The `1e-5` accuracy for the true kernel `E₁` is search-only (claim partial).
-/
namespace Stbem.C08

abbrev V := ℚ × ℚ
def dot (u v : V) : ℚ := u.1 * v.1 + u.2 * v.2
def sub (u v : V) : V := (u.1 - v.1, u.2 - v.2)
def normSq (u : V) : ℚ := dot u u
/-- `n₀ + e·x + f·z` -/
def affine2 (n0 e f : V) (x z : ℚ) : V := (n0.1 + e.1 * x + f.1 * z, n0.2 + e.2 * x + f.2 * z)
def affine1 (n0 e : V) (y : ℚ) : V := (n0.1 + e.1 * y, n0.2 + e.2 * y)

/-- identical-edge cell: the squared distance is `h²((x−y)² + z²)` -/
theorem param_identical (n0 n1 n2 : V) (h : ℚ) (horth : dot (sub n1 n0) (sub n2 n0) = 0)
    (h1 : normSq (sub n1 n0) = h ^ 2) (h2 : normSq (sub n2 n0) = h ^ 2) (x y z : ℚ) :
    normSq (sub (affine2 n0 (sub n1 n0) (sub n2 n0) x z) (affine1 n0 (sub n1 n0) y)) = h ^ 2 * ((x - y) ^ 2 + z ^ 2) := by
  obtain ⟨a0, b0⟩ := n0
  obtain ⟨a1, b1⟩ := n1
  obtain ⟨a2, b2⟩ := n2
  simp only [normSq, dot, sub, affine2, affine1] at *
  linear_combination (2 * (x - y) * z) * horth + ((x - y) ^ 2) * h1 + (z ^ 2) * h2

/-- the shared vertex is the image of the origin under both parametrisations -/
theorem param_touch (n0 e2 e3 e1 : V) : affine2 n0 e2 e3 0 0 = n0 ∧ affine1 n0 e1 0 = n0 := by
  obtain ⟨a0, b0⟩ := n0
  simp [affine2, affine1]

/-- a square cell with orthogonal edges `e₂ ⟂ e₃` of equal length `s` touching the segment direction `e₁ = −e₂·λ`
(the segment leaves the vertex along the prolongation of an edge, `λ ≥ 0`): the distance to a segment point
is `s²((x+λy)² + z²)`, which for `x, y, z, λ ≥ 0` vanishes only at the vertex `x = z = 0` (and `λ y = 0`) -/
theorem touch_distance_zero_iff (n0 e2 e3 : V) (s lam : ℚ) (horth : dot e2 e3 = 0)
    (h2 : normSq e2 = s ^ 2) (h3 : normSq e3 = s ^ 2) (x z y : ℚ) :
    normSq (sub (affine2 n0 e2 e3 x z) (affine1 n0 (-lam * e2.1, -lam * e2.2) y)) = s ^ 2 * ((x + lam * y) ^ 2 + z ^ 2) := by
  obtain ⟨a0, b0⟩ := n0
  obtain ⟨a2, b2⟩ := e2
  obtain ⟨a3, b3⟩ := e3
  simp only [normSq, dot, sub, affine2, affine1] at *
  linear_combination (2 * (x + lam * y) * z) * horth + ((x + lam * y) ^ 2) * h2 + (z ^ 2) * h3

/-- Jacobian of the identical cell: area of the square times length of the segment -/
theorem jacobian_identical (n0 n1 n2 : V) (h : ℚ) (horth : dot (sub n1 n0) (sub n2 n0) = 0)
    (h1 : normSq (sub n1 n0) = h ^ 2) (h2 : normSq (sub n2 n0) = h ^ 2) :
    ((sub n1 n0).1 * (sub n2 n0).2 - (sub n1 n0).2 * (sub n2 n0).1) ^ 2 * normSq (sub n1 n0) = (h ^ 3) ^ 2 := by
  obtain ⟨a0, b0⟩ := n0
  obtain ⟨a1, b1⟩ := n1
  obtain ⟨a2, b2⟩ := n2
  simp only [normSq, dot, sub] at *
  have key : ((a1 - a0) * (b2 - b0) - (b1 - b0) * (a2 - a0)) ^ 2 =
      ((a1 - a0) * (a1 - a0) + (b1 - b0) * (b1 - b0)) * ((a2 - a0) * (a2 - a0) + (b2 - b0) * (b2 - b0)) -
        ((a1 - a0) * (a2 - a0) + (b1 - b0) * (b2 - b0)) ^ 2 := by ring
  rw [key, horth, h1, h2]; ring

/-- a quadrature load `Σ w·u₀(p)·k` is linear in `u₀` -/
theorem load_linear {α : Type} (nodes : List (α × ℚ × ℚ)) (u v : α → ℚ) (a b : ℚ) :
    (nodes.map fun n => n.2.1 * (a * u n.1 + b * v n.1) * n.2.2).sum =
      a * (nodes.map fun n => n.2.1 * u n.1 * n.2.2).sum + b * (nodes.map fun n => n.2.1 * v n.1 * n.2.2).sum := by
  induction nodes with
  | nil => simp
  | cons n ns ih => simp only [List.map_cons, List.sum_cons, ih]; ring

alias ip_tik_zero_branch := Stbem.Formulas.R.ip_tik_zero_branch
alias ip_tik_general := Stbem.Formulas.R.ip_tik_general
alias duffyTouch3_exact := Stbem.Quad.duffyTouch3_exact
alias product3_exact := Stbem.Quad.product3_exact
alias apply3_duffyId3_false := Stbem.Quad.apply3_duffyId3_false
alias apply3_duffyTouch3 := Stbem.Quad.apply3_duffyTouch3

/-! non-vacuity -/
example : normSq (sub (affine2 (0, 0) (sub (1, 0) (0, 0)) (sub (0, 1) (0, 0)) (1/2) (1/3)) (affine1 (0, 0) (sub (1, 0) (0, 0)) (1/4))) =
    1 ^ 2 * (((1:ℚ)/2 - 1/4) ^ 2 + (1/3) ^ 2) :=
  param_identical (0, 0) (1, 0) (0, 1) 1 (by norm_num [dot, sub]) (by norm_num [normSq, dot, sub]) (by norm_num [normSq, dot, sub]) _ _ _

end Stbem.C08

namespace Stbem.InitPot
open Stbem.Quadtree Stbem.Quad

/-! ## the executable model of `linform` -/

/-- **linearity in `u0`**, for all inputs (rule, kernel stand-in, domain mesh, segment, fuel), error cases
included: the run with `α u + β v` is the combination of the runs with `u` and with `v` — same assertion if one
fails, else the combined load and the combined per-cell contributions -/
theorem linform_linear (C : Ctx) (u v : Rat → Rat → Rat) (α β : Rat) (dom : QT) (fuel : Nat) (s : Seg) :
    linform (withU0 C fun x y => α * u x y + β * v x y) dom fuel s =
      (linform (withU0 C u) dom fuel s).bind fun ru =>
        (linform (withU0 C v) dom fuel s).map (comb α β ru) :=
  linform_linear' C u v α β dom fuel s

/-- the load alone -/
theorem linform_linear_load (C : Ctx) (u v : Rat → Rat → Rat) (α β : Rat) (dom : QT) (fuel : Nat) (s : Seg)
    (lu lv : Rat) (iu iv : List (Nat × Rat)) (hu : linform (withU0 C u) dom fuel s = .ok (lu, iu))
    (hv : linform (withU0 C v) dom fuel s = .ok (lv, iv)) :
    ∃ iw, linform (withU0 C fun x y => α * u x y + β * v x y) dom fuel s = .ok (α * lu + β * lv, iw) := by
  rw [linform_linear, hu, hv]
  exact ⟨_, rfl⟩

/-- **additivity in time** is an identity of the model for every kernel stand-in `e1` (no law needed), every
rule, `u0`, mesh and segment: splitting `[a, b]` at `m ≠ 0` splits the load and each per-cell contribution -/
theorem linform_additive_time (C : Ctx) (dom : QT) (fuel : Nat) (s : Seg) (m : Rat) (hm : m ≠ 0) :
    linform C dom fuel s =
      (linform C dom fuel { s with b := m }).bind fun r1 =>
        (linform C dom fuel { s with a := m }).map (comb 1 1 r1) :=
  linform_additive_time' C dom fuel s m hm

alias duffyId3_poly_exact := duffyId3_exact
alias duffTouch_swap_xz := apply3_duffTouch_swap
alias boxInt_is_integral := boxInt_eq_integral
alias refineMshBdr_preserves_leafSum := refineMshBdr_sum
alias cell_contribution_is_integral := cellGeom_spec

/-- exchanging the two directions of the cell parametrisation of a touching / far cell does not change its
contribution (the touching rule over a tensor rule of ONE 1-D rule is symmetric under `x ↔ z`) -/
theorem touchVal_swap (C : Ctx) (s : Seg) (e : Elem) (gQ : Rat → Rat → Pt) (gK : Rat → Pt) :
    touchVal C s e (fun x z => gQ z x) gK = touchVal C s e gQ gK := by
  unfold touchVal duffTouch
  rw [apply3_duffTouch_swap C.rule]

/-- **main theorem**: the model's load is the exact integral.  `dom` is any mesh satisfying the invariant of C16,
`c` a leaf whose side `sd` has no leaf across it, the segment the `k`-th of the `2^j` equal pieces of that side
(end points `γ(c)`, `γ(d)` in either order, `d − c` = its length); the 1-D rule is exact to degree `n`, the integrand
`u0(x) · FPI_INV · [E(r²/4b) − E(r²/4a)]`, `r² = |x − y|²`, `y` on the boundary line, is the polynomial `ts` of total
degree `≤ N ≤ n − 2`, and `FPI_INV = 1/(4π)` (`PolyIntegrand`).  Then `linform` (fuel `j + 1`) returns the sum over
the leaves of `dom` of the integrals over leaf × segment — the integral over domain × segment — and the per-cell list
consists of the exact integrals over the cells of the targeted mesh. -/
theorem linform_eq_integral_poly (C : Ctx) (n N : Nat) (hrule : Exact1 C.rule n) (hN : N + 2 ≤ n)
    (dom : QT) (hdom : QInv dom) (c : Elem) (hc : c ∈ dom.leaves) (sd : Side)
    (hB : ∀ nb ∈ dom.leaves, ¬ Adj c sd nb) (j k : Nat) (hk : k < 2 ^ j) (s : Seg)
    (hends : (s.p0 = pt sd.axis (lineC c sd) (lo c sd + k * (c.size / 2 ^ j)) ∧
              s.p1 = pt sd.axis (lineC c sd) (lo c sd + (k + 1) * (c.size / 2 ^ j))) ∨
             (s.p0 = pt sd.axis (lineC c sd) (lo c sd + (k + 1) * (c.size / 2 ^ j)) ∧
              s.p1 = pt sd.axis (lineC c sd) (lo c sd + k * (c.size / 2 ^ j))))
    (hlen : s.d - s.c = c.size / 2 ^ j) (ts : List Term) (hd : ∀ t ∈ ts, t.deg ≤ N)
    (hP : PolyIntegrand C s sd.axis (lineC c sd) ts) :
    ∃ m', (∃ e, refineMshBdr (j + 1) dom s.p0 s.p1 = .ok (m', e)) ∧
      linform C dom (j + 1) s =
        .ok (leafSum (cellInt ts (lo c sd + k * (c.size / 2 ^ j)) (lo c sd + (k + 1) * (c.size / 2 ^ j))) dom,
          m'.leaves.map fun e' =>
            (e'.id, cellInt ts (lo c sd + k * (c.size / 2 ^ j)) (lo c sd + (k + 1) * (c.size / 2 ^ j)) e')) :=
  linform_integral dom hdom c hc sd hB j k hk s hends hlen hP
    (duffyId3_exact3 hrule hN) (duffyTouch3_exact3 hrule hN) hd

/-- every mesh reachable from `UnitSquare()` by refinements: the load is the integral over `[0,1]² × segment` -/
theorem linform_eq_integral_unit (C : Ctx) (n N : Nat) (hrule : Exact1 C.rule n) (hN : N + 2 ≤ n)
    (dom : QT) (hreach : Reach unitSquare dom) (c : Elem) (hc : c ∈ dom.leaves) (sd : Side)
    (hB : ∀ nb ∈ dom.leaves, ¬ Adj c sd nb) (j k : Nat) (hk : k < 2 ^ j) (s : Seg)
    (hends : (s.p0 = pt sd.axis (lineC c sd) (lo c sd + k * (c.size / 2 ^ j)) ∧
              s.p1 = pt sd.axis (lineC c sd) (lo c sd + (k + 1) * (c.size / 2 ^ j))) ∨
             (s.p0 = pt sd.axis (lineC c sd) (lo c sd + (k + 1) * (c.size / 2 ^ j)) ∧
              s.p1 = pt sd.axis (lineC c sd) (lo c sd + k * (c.size / 2 ^ j))))
    (hlen : s.d - s.c = c.size / 2 ^ j) (ts : List Term) (hd : ∀ t ∈ ts, t.deg ≤ N)
    (hP : PolyIntegrand C s sd.axis (lineC c sd) ts) :
    ∃ ips, linform C dom (j + 1) s =
      .ok (boxInt ts 0 1 0 1 (lo c sd + k * (c.size / 2 ^ j)) (lo c sd + (k + 1) * (c.size / 2 ^ j)), ips) := by
  have hdom := (qt_inv unitSquare unitSquare_inv dom hreach).1
  obtain ⟨m', -, h⟩ := linform_eq_integral_poly C n N hrule hN dom hdom c hc sd hB j k hk s hends hlen ts hd hP
  rw [reach_leafSum (cellInt_quadAdd ts _ _) unitSquare_inv hreach, leafSum_unitSquare] at h
  have hA : ∀ a b, cellInt ts a b (mkRoot 0 0 0 1) = boxInt ts 0 1 0 1 a b := by
    intro a b; simp [cellInt, mkRoot]
  rw [hA] at h
  exact ⟨_, h⟩

/-- every mesh reachable from `LShape()`: the load is the integral over the three unit squares × segment -/
theorem linform_eq_integral_lshape (C : Ctx) (n N : Nat) (hrule : Exact1 C.rule n) (hN : N + 2 ≤ n)
    (dom : QT) (hreach : Reach lShape dom) (c : Elem) (hc : c ∈ dom.leaves) (sd : Side)
    (hB : ∀ nb ∈ dom.leaves, ¬ Adj c sd nb) (j k : Nat) (hk : k < 2 ^ j) (s : Seg)
    (hends : (s.p0 = pt sd.axis (lineC c sd) (lo c sd + k * (c.size / 2 ^ j)) ∧
              s.p1 = pt sd.axis (lineC c sd) (lo c sd + (k + 1) * (c.size / 2 ^ j))) ∨
             (s.p0 = pt sd.axis (lineC c sd) (lo c sd + (k + 1) * (c.size / 2 ^ j)) ∧
              s.p1 = pt sd.axis (lineC c sd) (lo c sd + k * (c.size / 2 ^ j))))
    (hlen : s.d - s.c = c.size / 2 ^ j) (ts : List Term) (hd : ∀ t ∈ ts, t.deg ≤ N)
    (hP : PolyIntegrand C s sd.axis (lineC c sd) ts) :
    ∃ ips, linform C dom (j + 1) s =
      .ok (boxInt ts 0 1 (-1) 0 (lo c sd + k * (c.size / 2 ^ j)) (lo c sd + (k + 1) * (c.size / 2 ^ j)) +
            (boxInt ts 0 1 0 1 (lo c sd + k * (c.size / 2 ^ j)) (lo c sd + (k + 1) * (c.size / 2 ^ j)) +
             boxInt ts (-1) 0 0 1 (lo c sd + k * (c.size / 2 ^ j)) (lo c sd + (k + 1) * (c.size / 2 ^ j))),
          ips) := by
  have hdom := (qt_inv lShape lShape_inv dom hreach).1
  obtain ⟨m', -, h⟩ := linform_eq_integral_poly C n N hrule hN dom hdom c hc sd hB j k hk s hends hlen ts hd hP
  rw [reach_leafSum (cellInt_quadAdd ts _ _) lShape_inv hreach, leafSum_lShape] at h
  have hA : ∀ a b, cellInt ts a b (mkRoot 0 0 (-1) 1) = boxInt ts 0 1 (-1) 0 a b := by
    intro a b; simp [cellInt, mkRoot]
  have hB' : ∀ a b, cellInt ts a b (mkRoot 1 0 0 1) = boxInt ts 0 1 0 1 a b := by
    intro a b; simp [cellInt, mkRoot]
  have hC : ∀ a b, cellInt ts a b (mkRoot 2 (-1) 0 1) = boxInt ts (-1) 0 0 1 a b := by
    intro a b; simp [cellInt, mkRoot]
  rw [hA, hB', hC] at h
  exact ⟨_, h⟩

theorem leafSum_add (I J : Elem → Rat) (m : QT) :
    leafSum (fun e => I e + J e) m = leafSum I m + leafSum J m := by
  unfold leafSum; exact sumR_map_add I J m.leaves

theorem cellInt_split (ts : List Term) (t0 tm t1 : Rat) (e : Elem) :
    cellInt ts t0 t1 e = cellInt ts t0 tm e + cellInt ts tm t1 e := by
  unfold cellInt boxInt
  rw [← sumR_map_add]
  apply sumR_map_congr
  intro t _
  unfold Term.boxInt
  rw [I1_split t0 tm t1 t.k]; ring

/-- **additivity in space** (polynomial integrands): the load of the `k`-th of the `2^j` pieces of a boundary side
is the sum of the loads of its two halves (pieces `2k`, `2k+1` of `2^(j+1)`).  The three runs use three different
domain meshes; the statement follows from `load = integral` and is not an identity of the model for arbitrary
kernel stand-ins. -/
theorem linform_additive_space_poly (C : Ctx) (n N : Nat) (hrule : Exact1 C.rule n) (hN : N + 2 ≤ n)
    (dom : QT) (hdom : QInv dom) (c : Elem) (hc : c ∈ dom.leaves) (sd : Side)
    (hB : ∀ nb ∈ dom.leaves, ¬ Adj c sd nb) (j k : Nat) (hk : k < 2 ^ j) (s sL sR : Seg)
    (hends : s.p0 = pt sd.axis (lineC c sd) (lo c sd + k * (c.size / 2 ^ j)) ∧
             s.p1 = pt sd.axis (lineC c sd) (lo c sd + (k + 1) * (c.size / 2 ^ j)))
    (hendsL : sL.p0 = pt sd.axis (lineC c sd) (lo c sd + (2 * k : Nat) * (c.size / 2 ^ (j + 1))) ∧
              sL.p1 = pt sd.axis (lineC c sd) (lo c sd + ((2 * k : Nat) + 1) * (c.size / 2 ^ (j + 1))))
    (hendsR : sR.p0 = pt sd.axis (lineC c sd) (lo c sd + (2 * k + 1 : Nat) * (c.size / 2 ^ (j + 1))) ∧
              sR.p1 = pt sd.axis (lineC c sd) (lo c sd + ((2 * k + 1 : Nat) + 1) * (c.size / 2 ^ (j + 1))))
    (hlen : s.d - s.c = c.size / 2 ^ j) (hlenL : sL.d - sL.c = c.size / 2 ^ (j + 1))
    (hlenR : sR.d - sR.c = c.size / 2 ^ (j + 1)) (ts : List Term) (hd : ∀ t ∈ ts, t.deg ≤ N)
    (hP : PolyIntegrand C s sd.axis (lineC c sd) ts) (hPL : PolyIntegrand C sL sd.axis (lineC c sd) ts)
    (hPR : PolyIntegrand C sR sd.axis (lineC c sd) ts) :
    ∃ l lL lR ips ipsL ipsR, linform C dom (j + 1) s = .ok (l, ips) ∧
      linform C dom (j + 2) sL = .ok (lL, ipsL) ∧ linform C dom (j + 2) sR = .ok (lR, ipsR) ∧ l = lL + lR := by
  obtain ⟨m, -, h⟩ := linform_eq_integral_poly C n N hrule hN dom hdom c hc sd hB j k hk s (Or.inl hends) hlen ts hd hP
  obtain ⟨mL, -, hL⟩ := linform_eq_integral_poly C n N hrule hN dom hdom c hc sd hB (j + 1) (2 * k)
    (by rw [pow_succ]; omega) sL (Or.inl hendsL) hlenL ts hd hPL
  obtain ⟨mR, -, hR⟩ := linform_eq_integral_poly C n N hrule hN dom hdom c hc sd hB (j + 1) (2 * k + 1)
    (by rw [pow_succ]; omega) sR (Or.inl hendsR) hlenR ts hd hPR
  refine ⟨_, _, _, _, _, _, h, hL, hR, ?_⟩
  have hp : (2 : Rat) ^ j ≠ 0 := by positivity
  have e0 : lo c sd + ((2 * k : Nat) : Rat) * (c.size / 2 ^ (j + 1)) = lo c sd + k * (c.size / 2 ^ j) := by
    push_cast; rw [pow_succ]; field_simp
  have e1 : lo c sd + (((2 * k + 1 : Nat) : Rat) + 1) * (c.size / 2 ^ (j + 1)) =
      lo c sd + (k + 1) * (c.size / 2 ^ j) := by
    push_cast; rw [pow_succ]; field_simp; ring
  have em : lo c sd + (((2 * k : Nat) : Rat) + 1) * (c.size / 2 ^ (j + 1)) =
      lo c sd + ((2 * k + 1 : Nat) : Rat) * (c.size / 2 ^ (j + 1)) := by
    push_cast; ring
  rw [e0, em, e1, ← leafSum_add]
  unfold leafSum
  apply sumR_map_congr
  intro e _
  exact cellInt_split ts _ _ _ e

/-! ## non-vacuity: concrete rules, kernels, segments -/

/-- Boole's rule (closed Newton–Cotes, 5 nodes): exact to degree 5 -/
def boole : Rule1 := [⟨0, 7 / 90⟩, ⟨1 / 4, 32 / 90⟩, ⟨1 / 2, 12 / 90⟩, ⟨3 / 4, 32 / 90⟩, ⟨1, 7 / 90⟩]

theorem boole_exact : Exact1 boole 5 := by
  intro k hk
  interval_cases k <;> simp [mom, apply1, boole] <;> norm_num

def fnsOf (e1 : Rat → Rat) (pi fpiInv : Rat) : Stbem.Formulas.Q.Fns :=
  { exp := fun _ => 0, sqrt := fun _ => 0, erf := fun _ => 0, erfc := fun _ => 0, ei := fun _ => 0, e1 := e1,
    pow32 := fun _ => 0, pi := pi, fpiInv := fpiInv, piSqrt := 0, hpiInv := 0 }

/-- Boole's rule, kernel stand-in `E(u) = u`, `π := 1/4` (so `FPI_INV = 1/(4π) = 1`), `u0 = 1` -/
def ctxB : Ctx := ⟨boole, fnsOf (fun u => u) (1 / 4) 1, fun _ _ => 1⟩

/-- with `a = 0`, `b = 1/4`: the integrand is `|x − y|² = x₁² − 2 x₁ t + t² + x₂²` for `y = (t, 0)` -/
def tsB : List Term := [⟨1, 2, 0, 0⟩, ⟨-2, 1, 0, 1⟩, ⟨1, 0, 0, 2⟩, ⟨1, 0, 2, 0⟩]

theorem polyB (s : Seg) (ha : s.a = 0) (hb : s.b = 1 / 4) : PolyIntegrand ctxB s true 0 tsB := by
  refine ⟨by norm_num [ctxB, fnsOf], ?_⟩
  intro x1 x2 t
  simp only [ctxB, fnsOf, inlineKernel, ha, hb, dist2, pt, if_true, evalP, tsB, Term.eval, List.map_cons,
    List.map_nil, sumR_cons, sumR_nil]
  ring

/-- the second half `[(1/2, 0), (1, 0)]` of the bottom side of the unit square, time interval `[0, 1/4]` -/
def segB : Seg := ⟨0, 1 / 4, 1 / 2, 1, (1 / 2, 0), (1, 0)⟩

/-- instance of `linform_eq_integral_unit`: the model's load of `segB` is `∫_{[0,1]²} ∫_{1/2}^{1} |x − (t,0)|² dt dx = 1/4` -/
example : ∃ ips, linform ctxB unitSquare 2 segB = .ok (1 / 4, ips) := by
  obtain ⟨ips, h⟩ := linform_eq_integral_unit ctxB 5 2 boole_exact (by norm_num) unitSquare Reach.init
    (mkRoot 0 0 0 1) (by simp [unitSquare]) .bottom (unitSquare_boundary .bottom) 1 1 (by norm_num) segB
    (Or.inl ⟨by simp [segB, pt, Side.axis, lineC, lo, mkRoot],
      by simp [segB, pt, Side.axis, lineC, lo, mkRoot]; norm_num⟩)
    (by simp [segB, mkRoot]; norm_num) tsB (by intro t ht; simp [tsB] at ht; rcases ht with rfl | rfl | rfl | rfl <;> simp [Term.deg])
    (polyB segB rfl rfl)
  refine ⟨ips, ?_⟩
  rw [h]
  congr 2
  simp [boxInt, Term.boxInt, I1, tsB, lo, mkRoot]
  norm_num

/-- instance of `linform_additive_space_poly`: bottom side `[0,1]` = `[0,1/2]` + `[1/2,1]` -/
example : ∃ l lL lR ips ipsL ipsR,
    linform ctxB unitSquare 1 ⟨0, 1 / 4, 0, 1, (0, 0), (1, 0)⟩ = .ok (l, ips) ∧
    linform ctxB unitSquare 2 ⟨0, 1 / 4, 0, 1 / 2, (0, 0), (1 / 2, 0)⟩ = .ok (lL, ipsL) ∧
    linform ctxB unitSquare 2 segB = .ok (lR, ipsR) ∧ l = lL + lR :=
  linform_additive_space_poly ctxB 5 2 boole_exact (by norm_num) unitSquare unitSquare_inv (mkRoot 0 0 0 1)
    (by simp [unitSquare]) .bottom (unitSquare_boundary .bottom) 0 0 (by norm_num) _ _ _
    ⟨by simp [pt, Side.axis, lineC, lo, mkRoot], by simp [pt, Side.axis, lineC, lo, mkRoot]⟩
    ⟨by simp [pt, Side.axis, lineC, lo, mkRoot], by simp [pt, Side.axis, lineC, lo, mkRoot]⟩
    ⟨by simp [segB, pt, Side.axis, lineC, lo, mkRoot], by simp [segB, pt, Side.axis, lineC, lo, mkRoot]; norm_num⟩
    (by simp [mkRoot]) (by simp [mkRoot]) (by simp [segB, mkRoot]; norm_num) tsB
    (by intro t ht; simp [tsB] at ht; rcases ht with rfl | rfl | rfl | rfl <;> simp [Term.deg])
    (polyB _ rfl rfl) (polyB _ rfl rfl) (polyB _ rfl rfl)

/-- Simpson's rule, constant kernel stand-in, `u0 = x + 2y`: the model really runs (kernel evaluation) and
returns `∫_{[0,1]²} ∫_{1/2}^{1} (x₁ + 2x₂) dt dx = 3/4` with one identical, two touching and one far cell -/
def ctxS : Ctx := ⟨simpson, fnsOf (fun _ => 1) (1 / 4) 1, fun x y => x + 2 * y⟩

def loadOf (r : Except String (Rat × List (Nat × Rat))) : Option (Rat × List Nat) :=
  match r with
  | .ok (l, ips) => some (l, ips.map (·.1))
  | .error _ => none

theorem linform_run_example : loadOf (linform ctxS unitSquare 2 segB) = some (3 / 4, [1, 2, 3, 4]) := by
  decide +kernel

/-- an illegal segment (`[1/4, 3/4]` of the bottom side is not a dyadic piece): `assert parent` -/
theorem linform_run_illegal :
    linform ctxS unitSquare 6 ⟨0, 1 / 4, 1 / 4, 3 / 4, (1 / 4, 0), (3 / 4, 0)⟩ = .error "assert:parent" := by
  decide +kernel

/-- the same value from the theorem (Simpson is exact to degree 3, the integrand `x₁ + 2x₂` has degree 1) -/
example : ∃ ips, linform ctxS unitSquare 2 segB = .ok (3 / 4, ips) := by
  have hP : PolyIntegrand ctxS segB true 0 [⟨1, 1, 0, 0⟩, ⟨2, 0, 1, 0⟩] := by
    refine ⟨by norm_num [ctxS, fnsOf], ?_⟩
    intro x1 x2 t
    simp only [ctxS, fnsOf, inlineKernel, segB, if_true, evalP, Term.eval, List.map_cons, List.map_nil, sumR_cons,
      sumR_nil]
    ring
  obtain ⟨ips, h⟩ := linform_eq_integral_unit ctxS 3 1 simpson_exact (by norm_num) unitSquare Reach.init
    (mkRoot 0 0 0 1) (by simp [unitSquare]) .bottom (unitSquare_boundary .bottom) 1 1 (by norm_num) segB
    (Or.inl ⟨by simp [segB, pt, Side.axis, lineC, lo, mkRoot],
      by simp [segB, pt, Side.axis, lineC, lo, mkRoot]; norm_num⟩)
    (by simp [segB, mkRoot]; norm_num) _ (by intro t ht; simp at ht; rcases ht with rfl | rfl <;> simp [Term.deg]) hP
  refine ⟨ips, ?_⟩
  rw [h]
  congr 2
  simp [boxInt, Term.boxInt, I1, lo, mkRoot]
  norm_num

/-- instances of `linform_additive_time` and `linform_linear` on the run above (no hypotheses to satisfy beyond `m ≠ 0`) -/
example := linform_additive_time ctxS unitSquare 2 segB (1 / 8) (by norm_num)
example := linform_linear ctxS (fun x _ => x) (fun _ y => y) 1 2 unitSquare 2 segB

end Stbem.InitPot
