import Stbem.Props.Formulas
namespace Stbem.C08
theorem placeholder_C08 : True := trivial
end Stbem.C08
