import Stbem.Props.Formulas
import Stbem.Props.C15
import Mathlib.Tactic.Ring
import Mathlib.Tactic.LinearCombination

/-!
# C08 — initial-potential load vector (geometry and algebra of `InitialOperator.linform`)

`linform` sums, over the cells `Q` of the boundary-matched domain mesh, a 3-D Duffy rule applied to
`u₀(γ_Q(x,z)) · k(|γ_Q(x,z) − γ_K(y)|²)` times a Jacobian.  Proved here (over `ℚ`, axis-parallel data):

* `param_identical`: for the cell having the boundary segment as an edge, with `γ_Q(x,z) = n₀ + (n₁−n₀)x + (n₂−n₀)z`
  and `γ_K(y) = n₀ + (n₁−n₀)y`, `(n₁−n₀) ⟂ (n₂−n₀)`, `|n₁−n₀| = |n₂−n₀| = h`:
  `|γ_Q(x,z) − γ_K(y)|² = h²((x−y)² + z²)` — the argument the code passes to the kernel, so the singular line
  `x = y, z = 0` of the Duffy-identical rule is the singular set of the kernel;
* `param_touch`: for a cell touching the segment in the vertex `n₀`: `γ_Q(0,0) = γ_K(0) = n₀`, and the distance
  vanishes only there for a cell on the other side of an orthogonal/collinear edge pair (stated for the square
  cell spanned by orthogonal `e₂, e₃`);
* Jacobians: `area(Q)·|K| = h³` for the identical cell, `diam² · (d − c)` in general;
* `load_linear`: a weighted sum `Σ w·u₀(p)·k` is linear in `u₀`;
* the two branches of the time-integrated kernel (`a = 0` / `a ≠ 0`) of the *generated* `ip_tik`.

The exactness of the rules on polynomial kernels (hence additivity under splitting for them) is C15
(`duffyTouch3_exact`, `product3_exact`), the tiling of the domain by the cells is C16; the tie to the real
`linform` is the polynomial-kernel run of `harness/checks/C08.py`.  The `1e-5` accuracy for the true kernel
`E₁` is search-only (claim partial).
-/
namespace Stbem.C08

abbrev V := ℚ × ℚ
def dot (u v : V) : ℚ := u.1 * v.1 + u.2 * v.2
def sub (u v : V) : V := (u.1 - v.1, u.2 - v.2)
def normSq (u : V) : ℚ := dot u u
/-- `n₀ + e·x + f·z` -/
def affine2 (n0 e f : V) (x z : ℚ) : V := (n0.1 + e.1 * x + f.1 * z, n0.2 + e.2 * x + f.2 * z)
def affine1 (n0 e : V) (y : ℚ) : V := (n0.1 + e.1 * y, n0.2 + e.2 * y)

/-- identical-edge cell: the squared distance is `h²((x−y)² + z²)` -/
theorem param_identical (n0 n1 n2 : V) (h : ℚ) (horth : dot (sub n1 n0) (sub n2 n0) = 0)
    (h1 : normSq (sub n1 n0) = h ^ 2) (h2 : normSq (sub n2 n0) = h ^ 2) (x y z : ℚ) :
    normSq (sub (affine2 n0 (sub n1 n0) (sub n2 n0) x z) (affine1 n0 (sub n1 n0) y)) = h ^ 2 * ((x - y) ^ 2 + z ^ 2) := by
  obtain ⟨a0, b0⟩ := n0
  obtain ⟨a1, b1⟩ := n1
  obtain ⟨a2, b2⟩ := n2
  simp only [normSq, dot, sub, affine2, affine1] at *
  linear_combination (2 * (x - y) * z) * horth + ((x - y) ^ 2) * h1 + (z ^ 2) * h2

/-- the shared vertex is the image of the origin under both parametrisations -/
theorem param_touch (n0 e2 e3 e1 : V) : affine2 n0 e2 e3 0 0 = n0 ∧ affine1 n0 e1 0 = n0 := by
  obtain ⟨a0, b0⟩ := n0
  simp [affine2, affine1]

/-- a square cell with orthogonal edges `e₂ ⟂ e₃` of equal length `s` touching the segment direction `e₁ = −e₂·λ`
(the segment leaves the vertex along the prolongation of an edge, `λ ≥ 0`): the distance to a segment point
is `s²((x+λy)² + z²)`, which for `x, y, z, λ ≥ 0` vanishes only at the vertex `x = z = 0` (and `λ y = 0`) -/
theorem touch_distance_zero_iff (n0 e2 e3 : V) (s lam : ℚ) (horth : dot e2 e3 = 0)
    (h2 : normSq e2 = s ^ 2) (h3 : normSq e3 = s ^ 2) (x z y : ℚ) :
    normSq (sub (affine2 n0 e2 e3 x z) (affine1 n0 (-lam * e2.1, -lam * e2.2) y)) = s ^ 2 * ((x + lam * y) ^ 2 + z ^ 2) := by
  obtain ⟨a0, b0⟩ := n0
  obtain ⟨a2, b2⟩ := e2
  obtain ⟨a3, b3⟩ := e3
  simp only [normSq, dot, sub, affine2, affine1] at *
  linear_combination (2 * (x + lam * y) * z) * horth + ((x + lam * y) ^ 2) * h2 + (z ^ 2) * h3

/-- Jacobian of the identical cell: area of the square times length of the segment -/
theorem jacobian_identical (n0 n1 n2 : V) (h : ℚ) (horth : dot (sub n1 n0) (sub n2 n0) = 0)
    (h1 : normSq (sub n1 n0) = h ^ 2) (h2 : normSq (sub n2 n0) = h ^ 2) :
    ((sub n1 n0).1 * (sub n2 n0).2 - (sub n1 n0).2 * (sub n2 n0).1) ^ 2 * normSq (sub n1 n0) = (h ^ 3) ^ 2 := by
  obtain ⟨a0, b0⟩ := n0
  obtain ⟨a1, b1⟩ := n1
  obtain ⟨a2, b2⟩ := n2
  simp only [normSq, dot, sub] at *
  have key : ((a1 - a0) * (b2 - b0) - (b1 - b0) * (a2 - a0)) ^ 2 =
      ((a1 - a0) * (a1 - a0) + (b1 - b0) * (b1 - b0)) * ((a2 - a0) * (a2 - a0) + (b2 - b0) * (b2 - b0)) -
        ((a1 - a0) * (a2 - a0) + (b1 - b0) * (b2 - b0)) ^ 2 := by ring
  rw [key, horth, h1, h2]; ring

/-- a quadrature load `Σ w·u₀(p)·k` is linear in `u₀` -/
theorem load_linear {α : Type} (nodes : List (α × ℚ × ℚ)) (u v : α → ℚ) (a b : ℚ) :
    (nodes.map fun n => n.2.1 * (a * u n.1 + b * v n.1) * n.2.2).sum =
      a * (nodes.map fun n => n.2.1 * u n.1 * n.2.2).sum + b * (nodes.map fun n => n.2.1 * v n.1 * n.2.2).sum := by
  induction nodes with
  | nil => simp
  | cons n ns ih => simp only [List.map_cons, List.sum_cons, ih]; ring

alias ip_tik_zero_branch := Stbem.Formulas.R.ip_tik_zero_branch
alias ip_tik_general := Stbem.Formulas.R.ip_tik_general
alias duffyTouch3_exact := Stbem.Quad.duffyTouch3_exact
alias product3_exact := Stbem.Quad.product3_exact
alias apply3_duffyId3_false := Stbem.Quad.apply3_duffyId3_false
alias apply3_duffyTouch3 := Stbem.Quad.apply3_duffyTouch3

/-! non-vacuity -/
example : normSq (sub (affine2 (0, 0) (sub (1, 0) (0, 0)) (sub (0, 1) (0, 0)) (1/2) (1/3)) (affine1 (0, 0) (sub (1, 0) (0, 0)) (1/4))) =
    1 ^ 2 * (((1:ℚ)/2 - 1/4) ^ 2 + (1/3) ^ 2) :=
  param_identical (0, 0) (1, 0) (0, 1) 1 (by norm_num [dot, sub]) (by norm_num [normSq, dot, sub]) (by norm_num [normSq, dot, sub]) _ _ _

end Stbem.C08
