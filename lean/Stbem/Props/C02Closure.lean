import Stbem.Props.C02
import Stbem.Lemmas.MeshClosure

/-!
# C02 (closure clause) — `refine_axis` computes the *smallest* 1-irregular refinement

> "The leaf set is exactly the smallest refinement of the previous mesh that contains the requested
> bisection and in which edge-neighbours differ by at most one level per axis."

Reading under which the clause holds for the algorithm (in the unrestricted partition order there is
no least element): *smallest among the refinements obtained by bisections in the requested axis*.

* competitors of a call `refineId m c.id ax`: meshes `m''` on the same cylinder whose leaves are
  dyadic `ax`-descendants of leaves of `m` (`RefinesAx ax m m''`), that tile (`Tiles m''`), in which
  edge-neighbours differ by at most one level in `ax` (`IrrAx ax m''`) and in which `c` has been
  bisected (`Bisected ax c m''`);
* `refineId_admissible`: the result `m'` is a competitor (and even satisfies the full invariant);
* `refineId_least`: every competitor is an `ax`-refinement of `m'` — `m'` is the least competitor;
* `forced_bisected`: the reason — every cell in the closure `Forced m c ax` (the requested cell, and
  recursively every strictly shallower edge-neighbour of a forced cell) is bisected in *every*
  competitor;
* `refineId_spec`: declarative description of `m'`: the leaves of `m'` are the non-forced leaves of
  `m` together with the two children of every forced leaf; each forced leaf is bisected exactly once
  and nothing else is touched.

Helper lemmas: `Stbem.Lemmas.MeshDyadic` (dyadic pieces), `Stbem.Lemmas.MeshForced` (the induction
along `refineAxis` with the extra invariant), `Stbem.Lemmas.MeshClosure` (geometry of competitors).
-/
namespace Stbem.Mesh

/-! ### the definitions, spelled out -/

/-- `AxDesc .time d' d`: same extent and level in space; in time `d'` is the `k`-th of the `2^j`
equal pieces of `d`, `j` the level difference -/
theorem axDesc_time_iff (d' d : Cell) : AxDesc .time d' d ↔
    d'.x0 = d.x0 ∧ d'.x1 = d.x1 ∧ d'.lx = d.lx ∧ d.lt ≤ d'.lt ∧
      ∃ k : Nat, k < 2 ^ (d'.lt - d.lt) ∧
        d'.t0 = d.t0 + k * ((d.t1 - d.t0) / 2 ^ (d'.lt - d.lt)) ∧
        d'.t1 = d.t0 + (k + 1) * ((d.t1 - d.t0) / 2 ^ (d'.lt - d.lt)) := Iff.rfl

theorem axDesc_space_iff (d' d : Cell) : AxDesc .space d' d ↔
    d'.t0 = d.t0 ∧ d'.t1 = d.t1 ∧ d'.lt = d.lt ∧ d.lx ≤ d'.lx ∧
      ∃ k : Nat, k < 2 ^ (d'.lx - d.lx) ∧
        d'.x0 = d.x0 + k * ((d.x1 - d.x0) / 2 ^ (d'.lx - d.lx)) ∧
        d'.x1 = d.x0 + (k + 1) * ((d.x1 - d.x0) / 2 ^ (d'.lx - d.lx)) := Iff.rfl

theorem refinesAx_iff (ax : Ax) (m m'' : Mesh) : RefinesAx ax m m'' ↔
    (m''.glue = m.glue ∧ m''.xmin = m.xmin ∧ m''.xmax = m.xmax ∧ m''.tmin = m.tmin ∧
      m''.tmax = m.tmax ∧ ∀ d'' ∈ m''.leaves, ∃ d ∈ m.leaves, AxDesc ax d'' d) := Iff.rfl

theorem irrAx_iff (ax : Ax) (m : Mesh) : IrrAx ax m ↔
    ∀ c ∈ m.leaves, ∀ n ∈ m.leaves, ∀ s, adjacent m c s n = true → c.level ax ≤ n.level ax + 1 :=
  Iff.rfl

theorem bisected_iff (ax : Ax) (c : Cell) (m'' : Mesh) : Bisected ax c m'' ↔
    ∀ d'' ∈ m''.leaves, AxDesc ax d'' c → c.level ax + 1 ≤ d''.level ax := Iff.rfl

/-- `Forced m c ax` is the least set containing `c` and closed under "leaf of `m` across an edge of a
forced leaf, of strictly lower level in `ax`" -/
theorem forced_iff (m : Mesh) (c : Cell) (ax : Ax) (n : Cell) : Forced m c ax n ↔
    n = c ∨ ∃ e s, Forced m c ax e ∧ e ∈ m.leaves ∧ n ∈ m.leaves ∧ adjacent m e s n = true ∧
      n.level ax < e.level ax := by
  constructor
  · intro h
    cases h with
    | base => exact Or.inl rfl
    | step hf he hn ha hlt => exact Or.inr ⟨_, _, hf, he, hn, ha, hlt⟩
  · rintro (rfl | ⟨e, s, hf, he, hn, ha, hlt⟩)
    · exact Forced.base
    · exact Forced.step hf he hn ha hlt

/-! ### the theorems -/

/-- (i) the result of `refineId` is itself a competitor -/
theorem refineId_admissible (m : Mesh) (h : Inv m) (c : Cell) (hc : c ∈ m.leaves) (ax : Ax) :
    ∃ m', refineId m c.id ax = .ok m' ∧ RefinesAx ax m m' ∧ IrrAx ax m' ∧ Bisected ax c m' := by
  obtain ⟨m', hr, -, h1, h2, h3⟩ := refineId_admissible' h hc ax
  exact ⟨m', hr, h1, h2, h3⟩

/-- the result also tiles (it satisfies the whole invariant), so that it is a competitor in the
sense of `refineId_least` -/
theorem refineId_admissible_tiles (m : Mesh) (h : Inv m) (c : Cell) (hc : c ∈ m.leaves) (ax : Ax) :
    ∃ m', refineId m c.id ax = .ok m' ∧ Tiles m' ∧ RefinesAx ax m m' ∧ IrrAx ax m' ∧
      Bisected ax c m' := by
  obtain ⟨m', hr, hi, h1, h2, h3⟩ := refineId_admissible' h hc ax
  exact ⟨m', hr, hi.tiles, h1, h2, h3⟩

/-- (ii) **minimality**: every competitor refines the result -/
theorem refineId_least (m : Mesh) (h : Inv m) (c : Cell) (hc : c ∈ m.leaves) (ax : Ax) (m' : Mesh)
    (hr : refineId m c.id ax = .ok m') (m'' : Mesh) (ht : Tiles m'') (h1 : RefinesAx ax m m'')
    (h2 : IrrAx ax m'') (h3 : Bisected ax c m'') : RefinesAx ax m' m'' :=
  refineId_least' h hc hr ht h1 h2 h3

/-- necessity: a forced cell is bisected in every competitor ("unmarked leaves are bisected only
where 1-irregularity forces it") -/
theorem forced_bisected (m : Mesh) (h : Inv m) (c : Cell) (ax : Ax) (m'' : Mesh) (ht : Tiles m'')
    (h1 : RefinesAx ax m m'') (h2 : IrrAx ax m'') (h3 : Bisected ax c m'') (e : Cell)
    (hf : Forced m c ax e) : Bisected ax e m'' :=
  hf.bisected h.tiles ht h1 h2 h3

/-- declarative description of the result of `refineId`: exactly the forced leaves are bisected,
each once; `ChildOf ax l' e` = "`l'` is one of the two children of `e`" (for some child numbering) -/
theorem refineId_spec (m : Mesh) (h : Inv m) (c : Cell) (hc : c ∈ m.leaves) (ax : Ax) (m' : Mesh)
    (hr : refineId m c.id ax = .ok m') :
    (∀ l' ∈ m'.leaves, (l' ∈ m.leaves ∧ ¬ Forced m c ax l') ∨
      ∃ e ∈ m.leaves, Forced m c ax e ∧ ChildOf ax l' e) ∧
    (∀ l ∈ m.leaves, ¬ Forced m c ax l → l ∈ m'.leaves) ∧
    (∀ e, Forced m c ax e → e ∈ m.leaves ∧ e ∉ m'.leaves ∧
      ∃ k, (children k e ax).1 ∈ m'.leaves ∧ (children k e ax).2 ∈ m'.leaves) :=
  refineId_spec' h hc hr

/-! ### non-vacuity -/

/-- the mesh of a successful run (the second argument is never used in the examples below) -/
def getOk (r : Except String Mesh) (d : Mesh) : Mesh :=
  match r with
  | .ok m => m
  | .error _ => d

theorem getOk_refineId_inv {m : Mesh} (h : Inv m) {id : Nat} (ax : Ax)
    (hid : ∃ c ∈ m.leaves, c.id = id) : Inv (getOk (refineId m id ax) m) := by
  obtain ⟨c, hc, rfl⟩ := hid
  obtain ⟨m', hr, hinv, -⟩ := refineId_ok m h c hc ax
  rw [hr]
  exact hinv

/-- two roots `1 = [1,2]`, `0 = [0,1]` in space (one time slab, not glued) -/
def exM0 : Mesh := init false [0, 1, 2] [0, 1]
/-- root `0` bisected in space: `2 = [0,1/2]`, `3 = [1/2,1]` -/
def exM1 : Mesh := getOk (refineId exM0 0 .space) exM0
/-- `2` bisected in space: `4 = [0,1/4]`, `5 = [1/4,1/2]`; levels in space from the left: 2, 2, 1, 0 -/
def exM : Mesh := getOk (refineId exM1 2 .space) exM1

def exC : Cell := ⟨0, 1, 1/4, 1/2, 0, 2, 5, some 2, 0⟩
def exE3 : Cell := ⟨0, 1, 1/2, 1, 0, 1, 3, some 0, 0⟩
def exE1 : Cell := ⟨0, 1, 1, 2, 0, 0, 1, none, 0⟩

theorem exM_leaves : exM.leaves = [exE1, exE3, ⟨0, 1, 0, 1/4, 0, 2, 4, some 2, 0⟩, exC] := by
  decide +kernel

theorem exM_inv : Inv exM := by
  have h0 : Inv exM0 := init_inv false [0, 1, 2] [0, 1] strictInc_012 strictInc_01 (by simp) (by simp)
  have h1 : Inv exM1 := getOk_refineId_inv h0 .space (by decide +kernel)
  exact getOk_refineId_inv h1 .space (by decide +kernel)

theorem exC_mem : exC ∈ exM.leaves := by decide +kernel

/-- the closure of the request "bisect `5 = [1/4,1/2]` in space" contains two more cells:
`3 = [1/2,1]` (level 1 < 2) and then `1 = [1,2]` (level 0 < 1) -/
theorem ex_forced : Forced exM exC .space exE3 ∧ Forced exM exC .space exE1 := by
  have h3 : Forced exM exC .space exE3 :=
    Forced.step (s := .right) Forced.base exC_mem (by decide +kernel) (by decide +kernel)
      (by decide)
  exact ⟨h3, Forced.step (s := .right) h3 (by decide +kernel) (by decide +kernel)
    (by decide +kernel) (by decide)⟩

/-- and the model bisects exactly these three cells: `1 ↦ 6, 7`, then `3 ↦ 8, 9`, then `5 ↦ 10, 11`;
only `4` survives -/
theorem ex_run :
    leafIds (refineId exM exC.id .space) = some ([4, 6, 7, 8, 9, 10, 11], 12) := by
  decide +kernel

/-- the hypotheses of `refineId_least` are satisfiable for this call (by the result itself) -/
theorem ex_competitor : ∃ m' m'', refineId exM exC.id .space = .ok m' ∧ Tiles m'' ∧
    RefinesAx .space exM m'' ∧ IrrAx .space m'' ∧ Bisected .space exC m'' ∧
    RefinesAx .space m' m'' := by
  obtain ⟨m', hr, ht, h1, h2, h3⟩ := refineId_admissible_tiles exM exM_inv exC exC_mem .space
  exact ⟨m', m', hr, ht, h1, h2, h3,
    refineId_least exM exM_inv exC exC_mem .space m' hr m' ht h1 h2 h3⟩

/-- in this call none of the three forced cells survives and the untouched cell `4` does -/
theorem ex_spec (m' : Mesh) (hr : refineId exM exC.id .space = .ok m') :
    exC ∉ m'.leaves ∧ exE3 ∉ m'.leaves ∧ exE1 ∉ m'.leaves := by
  obtain ⟨-, -, h3⟩ := refineId_spec exM exM_inv exC exC_mem .space m' hr
  exact ⟨(h3 exC Forced.base).2.1, (h3 exE3 ex_forced.1).2.1, (h3 exE1 ex_forced.2).2.1⟩

end Stbem.Mesh
