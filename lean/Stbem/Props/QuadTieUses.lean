import Stbem.Props.QuadTie
import Stbem.Model.SingleLayer
import Stbem.Model.InitialPotential

/-!
# QuadTieUses — where the other models use `src/quadrature.py`: the same objects, built by the generated constructors

The hand-written models of `src/single_layer.py` (C01, C04, C07, C11, C12) and `src/initial_potential.py` (C08) name
their quadrature rules by expressions of the hand-written `Stbem.Quad` (`SL.ruleOf`, `InitPot.duffId`,
`InitPot.duffTouch`).  Through `Props/QuadTie.lean` these are the array layouts of what the constructor chains of the
Python `__init__` methods build with the classes REGENERATED from `src/quadrature.py`, and applying a rule to a panel
is the generated `integrate` — including its size assertion, which the hand-written models leave to the caller.
-/
namespace Stbem.QuadTieUses
open Stbem.Quad Stbem.QuadConv Stbem.QuadTie
open Stbem.Gen

/-- `SingleLayerOperator.__init__`: `log_log = ProductScheme2D(log, log)`, `duff_log_log = DuffyScheme2D(log_log,
symmetric=False)`, and the mirrors `__integrate` applies: the five rules of the model are these generated objects -/
theorem gen_sl_rule_chain (log : Rule1) :
    let ll := QuadGen.ProductScheme2D.init (ofRule1 log) (some (ofRule1 log))
    let dl := QuadGen.DuffyScheme2D.init ll false
    ofRule2 (SL.ruleOf log .duffyId) = dl ∧ ofRule2 (SL.ruleOf log .duffyMx) = dl.mirror_x ∧
    ofRule2 (SL.ruleOf log .duffyMy) = dl.mirror_y ∧ ofRule2 (SL.ruleOf log .logMx) = ll.mirror_x ∧
    ofRule2 (SL.ruleOf log .logMy) = ll.mirror_y := by
  simp only [gen_product2_eq, gen_duffy2_eq, gen_mirrorX2_eq, gen_mirrorY2_eq, SL.ruleOf, and_self]

/-- one panel of the recursion: the generated `QuadScheme2D.integrate` of the panel's rule returns the number the model
adds up — provided both sides exceed the `1e-7` of `QuadScheme2D.integrate`; otherwise the Python code raises
(`assert:size`), which `SL.integratePanels` does not model (`__integrate` itself only asserts sides `> 1e-8`) -/
theorem gen_sl_panel (log : Rule1) (f : Rat → Rat → Rat) (p : SL.Panel) :
    (ofRule2 (SL.ruleOf log p.kind)).integrate f p.a p.b p.c p.d =
      if p.b - p.a > QuadGen.c_1e_m7 ∧ p.d - p.c > QuadGen.c_1e_m7 then
        .ok (integrate2 (SL.ruleOf log p.kind) f p.a p.b p.c p.d)
      else .error "assert:size" :=
  gen_integrate2_eq _ f p.a p.b p.c p.d

/-- the whole panel sum through the generated `integrate`: if every panel passes the size assertion, the generated
functions return exactly the terms of `SL.integratePanels` -/
theorem gen_sl_integratePanels (log : Rule1) (f : Rat → Rat → Rat) (ps : List SL.Panel)
    (h : ∀ p ∈ ps, p.b - p.a > QuadGen.c_1e_m7 ∧ p.d - p.c > QuadGen.c_1e_m7) :
    ps.mapM (fun p => (ofRule2 (SL.ruleOf log p.kind)).integrate f p.a p.b p.c p.d) =
      .ok (ps.map fun p => integrate2 (SL.ruleOf log p.kind) f p.a p.b p.c p.d) := by
  induction ps with
  | nil => rfl
  | cons p ps ih =>
    have hp := h p (by simp)
    have ih' := ih (fun q hq => h q (by simp [hq]))
    rw [List.mapM_cons, gen_sl_panel, if_pos hp, ih']
    rfl

/-- `SingleLayerOperator.evaluate` uses `log_scheme` and `log_scheme.mirror()` -/
theorem gen_sl_evaluate_rules (log : Rule1) : ofRule1 (mirror1 log) = (ofRule1 log).mirror := (gen_mirror1_eq log).symm

/-- `InitialOperator.__init__`: `duff_3d_id = DuffySchemeIdentical3D(ProductScheme3D(log), symmetric_xy=False)` and
`duff_3d_touch = DuffySchemeTouch3D(ProductScheme3D(log))`: the two 3-D rules of the model are these generated objects,
and the model's reference-cube sums are the generated `integrate` on the unit cube -/
theorem gen_ip_rules (r : Rule1) (f : Rat → Rat → Rat → Rat) :
    ofRule3 (InitPot.duffId r) = QuadGen.DuffySchemeIdentical3D.init (QuadGen.ProductScheme3D.init (ofRule1 r)) false ∧
    ofRule3 (InitPot.duffTouch r) = QuadGen.DuffySchemeTouch3D.init (QuadGen.ProductScheme3D.init (ofRule1 r)) ∧
    apply3 (InitPot.duffId r) f =
      (QuadGen.DuffySchemeIdentical3D.init (QuadGen.ProductScheme3D.init (ofRule1 r)) false).integrate f 0 1 0 1 0 1 ∧
    apply3 (InitPot.duffTouch r) f =
      (QuadGen.DuffySchemeTouch3D.init (QuadGen.ProductScheme3D.init (ofRule1 r))).integrate f 0 1 0 1 0 1 := by
  simp only [gen_product3_eq, gen_duffyId3_eq, gen_duffyTouch3_eq, gen_ref3, InitPot.duffId, InitPot.duffTouch, and_self]

/-! non-vacuity: a panel that passes the assertion, one that does not (but passes the `1e-8` of `__integrate`) -/
example : ((1 : Rat) - 0 > QuadGen.c_1e_m7 ∧ (2 : Rat) - 1 > QuadGen.c_1e_m7) ∧
    ¬ ((1 : Rat) / 20000000 - 0 > QuadGen.c_1e_m7) ∧ (1 : Rat) / 20000000 - 0 > 1 / 100000000 := by
  norm_num [QuadGen.c_1e_m7]
example : (ofRule2 (SL.ruleOf simpson .duffyMx)).integrate (fun x y => x + y) 0 (1 / 20000000) 1 2 = .error "assert:size" := by
  decide +kernel
example : (ofRule2 (SL.ruleOf simpson .duffyMx)).integrate (fun x y => x + y) 0 1 1 2 = .ok 2 := by decide +kernel

end Stbem.QuadTieUses
