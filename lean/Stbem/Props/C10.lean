import Stbem.Props.C02
import Stbem.Lemmas.MeshNbrs

/-!
# C10 — neighbours across the edges of a leaf

In the model `nbrs m c s` is the (sorted) list of leaves `n` with `adjacent m c s n`: the leaves that
share a piece of positive length of side `s` of `c` (seam identified when glued).  Proved here:

* `nbrs_exact`   : `nbrs` lists exactly the geometric neighbours among the leaves;
* `nbrs_symm`    : the relation is symmetric (`s` ↔ `s.opp`);
* `boundary_none`: sides on the true boundary have no neighbour;
* `interior_some`: every other side (interior or seam) has at least one;
* `nbrs_le_two`  : at most two neighbours per side (uses the dyadic level structure `LevelsOK`,
  which holds for `init` and is preserved by every operation: `Stbem.Lemmas.MeshLevels`).
-/
namespace Stbem.Mesh

theorem nbrs_exact (m : Mesh) (c n : Cell) (s : Side) :
    n ∈ nbrs m c s ↔ n ∈ m.leaves ∧ adjacent m c s n = true := by
  rw [(nbrs_perm m c s).mem_iff, List.mem_filter]

theorem Side.opp_opp (s : Side) : s.opp.opp = s := by cases s <;> rfl

theorem nbrs_symm (m : Mesh) (c n : Cell) (s : Side) (hc : c ∈ m.leaves) (hn : n ∈ m.leaves) :
    n ∈ nbrs m c s ↔ c ∈ nbrs m n s.opp := by
  rw [mem_nbrs, mem_nbrs]
  constructor
  · rintro ⟨_, ha⟩
    exact ⟨hc, ha.symm⟩
  · rintro ⟨_, ha⟩
    have := ha.symm
    rw [Side.opp_opp] at this
    exact ⟨hn, this⟩

/-- a side on the true boundary (t = tmin, t = tmax; x = xmin / x = xmax when not glued) has no
neighbours -/
theorem boundary_none (m : Mesh) (h : Inv m) (c : Cell) (hc : c ∈ m.leaves) (s : Side)
    (hb : onBoundary m c s = true) (hseam : ¬ (m.glue = true ∧ (s = .left ∨ s = .right))) :
    nbrs m c s = [] := by
  have _ := hc
  rw [List.eq_nil_iff_forall_not_mem]
  intro n hn
  obtain ⟨hnl, ha⟩ := mem_nbrs.mp hn
  obtain ⟨p1, p2⟩ := h.tiles.proper n hnl
  obtain ⟨i1, i2, i3, i4⟩ := h.tiles.inside n hnl
  cases s <;> simp only [onBoundary, decide_eq_true_eq] at hb <;> simp only [Adj] at ha
  · linarith [ha.1]
  · rcases ha.1 with e | ⟨g, _, _⟩
    · linarith
    · exact hseam ⟨g, Or.inr rfl⟩
  · linarith [ha.1]
  · rcases ha.1 with e | ⟨g, _, _⟩
    · linarith
    · exact hseam ⟨g, Or.inl rfl⟩

/-- every other side has at least one neighbour -/
theorem interior_some (m : Mesh) (h : Inv m) (c : Cell) (hc : c ∈ m.leaves) (s : Side)
    (hb : onBoundary m c s = false ∨ (m.glue = true ∧ (s = .left ∨ s = .right))) :
    nbrs m c s ≠ [] := by
  have hex : ∃ n ∈ m.leaves, Adj m c s n := by
    cases s
    · refine exists_adj_bottom h hc ?_
      rcases hb with hb | ⟨_, hb | hb⟩
      · simpa [onBoundary] using hb
      · cases hb
      · cases hb
    · refine exists_adj_right h hc ?_
      rcases hb with hb | ⟨g, _⟩
      · left; simpa [onBoundary] using hb
      · exact Or.inr g
    · refine exists_adj_top h hc ?_
      rcases hb with hb | ⟨_, hb | hb⟩
      · simpa [onBoundary] using hb
      · cases hb
      · cases hb
    · refine exists_adj_left h hc ?_
      rcases hb with hb | ⟨g, _⟩
      · left; simpa [onBoundary] using hb
      · exact Or.inr g
  obtain ⟨n, hn, ha⟩ := hex
  intro e
  have : n ∈ nbrs m c s := mem_nbrs.mpr ⟨hn, ha⟩
  rw [e] at this
  simp at this

/-- at most two neighbours per side -/
theorem nbrs_le_two (X T : List Rat) (hX : X.Pairwise (· < ·)) (hT : T.Pairwise (· < ·)) (m : Mesh)
    (h : Inv m) (hl : LevelsOK X T m)
    (hbox : m.xmin = X.headD 0 ∧ m.xmax = X.getLastD 0 ∧ m.tmin = T.headD 0 ∧ m.tmax = T.getLastD 0)
    (c : Cell) (hc : c ∈ m.leaves) (s : Side) : (nbrs m c s).length ≤ 2 := by
  have _ := hbox
  obtain ⟨hcx, hct⟩ := dyadic_iff.mp (hl c hc)
  cases s
  case bottom | top =>
    refine length_le_two_of_classes (fun n => n.x0 ≤ c.x0) _ (nbrs_nodup h.ids c _) ?_ ?_
    · intro a ha b hb pa pb
      obtain ⟨ha1, ha2⟩ := mem_nbrs.mp ha
      obtain ⟨hb1, hb2⟩ := mem_nbrs.mp hb
      exact adj_unique h ha1 hb1 ha2 hb2 ⟨c.x0, pa, ha2.2.2.1, pb, hb2.2.2.1⟩
    · intro a ha b hb pa pb
      obtain ⟨ha1, ha2⟩ := mem_nbrs.mp ha
      obtain ⟨hb1, hb2⟩ := mem_nbrs.mp hb
      have la := (h.irr c hc a ha1 _ (adjacent_iff.mpr ha2)).2.2.2
      have lb := (h.irr c hc b hb1 _ (adjacent_iff.mpr hb2)).2.2.2
      obtain ⟨-, oa2, oa3, oa4⟩ := ha2.2
      obtain ⟨-, ob2, ob3, ob4⟩ := hb2.2
      rcases hcx.hit hX (dyadic_iff.mp (hl a ha1)).1 la oa2 oa3 oa4 with ⟨q, _⟩ | ⟨_, qa1, qa2⟩
      · exact absurd q pa
      rcases hcx.hit hX (dyadic_iff.mp (hl b hb1)).1 lb ob2 ob3 ob4 with ⟨q, _⟩ | ⟨_, qb1, qb2⟩
      · exact absurd q pb
      exact adj_unique h ha1 hb1 ha2 hb2 ⟨(c.x0 + c.x1) / 2, qa1, qa2, qb1, qb2⟩
  case right | left =>
    refine length_le_two_of_classes (fun n => n.t0 ≤ c.t0) _ (nbrs_nodup h.ids c _) ?_ ?_
    · intro a ha b hb pa pb
      obtain ⟨ha1, ha2⟩ := mem_nbrs.mp ha
      obtain ⟨hb1, hb2⟩ := mem_nbrs.mp hb
      exact adj_unique h ha1 hb1 ha2 hb2 ⟨c.t0, pa, ha2.2.2.1, pb, hb2.2.2.1⟩
    · intro a ha b hb pa pb
      obtain ⟨ha1, ha2⟩ := mem_nbrs.mp ha
      obtain ⟨hb1, hb2⟩ := mem_nbrs.mp hb
      have la := (h.irr c hc a ha1 _ (adjacent_iff.mpr ha2)).2.1
      have lb := (h.irr c hc b hb1 _ (adjacent_iff.mpr hb2)).2.1
      obtain ⟨-, oa2, oa3, oa4⟩ := ha2.2
      obtain ⟨-, ob2, ob3, ob4⟩ := hb2.2
      rcases hct.hit hT (dyadic_iff.mp (hl a ha1)).2 la oa2 oa3 oa4 with ⟨q, _⟩ | ⟨_, qa1, qa2⟩
      · exact absurd q pa
      rcases hct.hit hT (dyadic_iff.mp (hl b hb1)).2 lb ob2 ob3 ob4 with ⟨q, _⟩ | ⟨_, qb1, qb2⟩
      · exact absurd q pb
      exact adj_unique h ha1 hb1 ha2 hb2 ⟨(c.t0 + c.t1) / 2, qa1, qa2, qb1, qb2⟩

/-! ## non-vacuity: a concrete glued mesh -/

/-- roots `0 = [0,1]`, `1 = [1,2]` (one time slab `[0,1]`, glued); `0` is split in space (`2, 3`),
then `3` (forcing `1 → 4, 5`, then `3 → 6, 7`), then `2` in time (`8` lower, `9` upper) -/
def exMesh : Except String Mesh := do
  let m ← refineId (init true [0, 1, 2] [0, 1]) 0 .space
  let m ← refineId m 3 .space
  refineId m 2 .time

/-- for every leaf the ids of the neighbours across `[bottom, right, top, left]` -/
def nbrTable (r : Except String Mesh) : Option (List (Nat × List (List Nat))) :=
  match r with
  | .ok m => some (m.leaves.map fun c => (c.id, Side.all.map fun s => (nbrs m c s).map (·.id)))
  | .error _ => none

/-- the neighbour lists of the example: bottom and top sides (true boundary) are empty except between
`8` and `9`; `5` sees `9, 8` across the seam (two neighbours, upper one first), `6` sees `8, 9` on its
left (lower one first); all lists have at most two entries and the table is symmetric -/
theorem exMesh_nbrs : nbrTable exMesh = some
    [(4, [[], [5], [], [7]]), (5, [[], [9, 8], [], [4]]), (6, [[], [7], [], [8, 9]]),
     (7, [[], [4], [], [6]]), (8, [[], [6], [9], [5]]), (9, [[8], [6], [], [5]])] := by
  decide +kernel

theorem exMesh_spec : ∃ m, exMesh = .ok m ∧ Inv m ∧ LevelsOK [0, 1, 2] [0, 1] m ∧ VertsNodup m ∧
    (m.xmin = ([0, 1, 2] : List Rat).headD 0 ∧ m.xmax = ([0, 1, 2] : List Rat).getLastD 0 ∧
      m.tmin = ([0, 1] : List Rat).headD 0 ∧ m.tmax = ([0, 1] : List Rat).getLastD 0) ∧
    m.glue = true ∧ m.leaves.map (·.id) = [4, 5, 6, 7, 8, 9] := by
  have hids : leafIds exMesh = some ([4, 5, 6, 7, 8, 9], 10) := by decide +kernel
  cases hm : exMesh with
  | error e => rw [hm] at hids; simp [leafIds] at hids
  | ok m =>
    rw [hm] at hids
    simp only [leafIds, Option.some.injEq, Prod.mk.injEq] at hids
    refine ⟨m, rfl, ?_⟩
    unfold exMesh at hm
    simp only [bind, Except.bind] at hm
    split at hm
    · cases hm
    · rename_i m1 h1
      split at hm
      · cases hm
      · rename_i m2 h2
        obtain ⟨i1, r1⟩ := refineId_inv _ inv_example _ _ _ h1
        obtain ⟨i2, r2⟩ := refineId_inv _ i1 _ _ _ h2
        obtain ⟨i3, r3⟩ := refineId_inv _ i2 _ _ _ hm
        have l1 := refineId_levels _ _ _ (init_levels true [0, 1, 2] [0, 1]) _ _ _ h1
        have l2 := refineId_levels _ _ _ l1 _ _ _ h2
        have l3 := refineId_levels _ _ _ l2 _ _ _ hm
        have v1 := refineId_vertsNodup _ (init_vertsNodup true _ _ strictInc_012 strictInc_01) _ _ _ h1
        have v2 := refineId_vertsNodup _ v1 _ _ _ h2
        have v3 := refineId_vertsNodup _ v2 _ _ _ hm
        have r := (r1.trans r2).trans r3
        exact ⟨i3, l3, v3, r.box, r.glue, hids.1⟩

/-- `nbrs_exact`, `nbrs_symm` on the example -/
example : ∃ m, exMesh = .ok m ∧ ∀ c ∈ m.leaves, ∀ n ∈ m.leaves, ∀ s,
    (n ∈ nbrs m c s ↔ adjacent m c s n = true) ∧ (n ∈ nbrs m c s ↔ c ∈ nbrs m n s.opp) := by
  obtain ⟨m, hm, -⟩ := exMesh_spec
  refine ⟨m, hm, fun c hc n hn s => ⟨?_, nbrs_symm m c n s hc hn⟩⟩
  rw [nbrs_exact]; exact and_iff_right hn

/-- `boundary_none`, `interior_some`, `nbrs_le_two` apply to every leaf and side of the example: the
hypotheses (`Inv`, `LevelsOK`, strictly increasing grids, the box) hold for it -/
example : ∃ m, exMesh = .ok m ∧ m.leaves ≠ [] ∧ ∀ c ∈ m.leaves, ∀ s,
    (nbrs m c s).length ≤ 2 ∧
    (onBoundary m c s = true → s = .bottom ∨ s = .top → nbrs m c s = []) ∧
    (onBoundary m c s = false ∨ s = .left ∨ s = .right → nbrs m c s ≠ []) := by
  obtain ⟨m, hm, hi, hl, -, hbox, hg, hids⟩ := exMesh_spec
  refine ⟨m, hm, ?_, fun c hc s => ⟨?_, ?_, ?_⟩⟩
  · intro e; rw [e] at hids; simp at hids
  · exact nbrs_le_two _ _ strictInc_012 strictInc_01 m hi hl hbox c hc s
  · intro hb hs
    refine boundary_none m hi c hc s hb ?_
    rintro ⟨_, h | h⟩ <;> rcases hs with hs | hs <;> rw [h] at hs <;> cases hs
  · intro hb
    refine interior_some m hi c hc s ?_
    rcases hb with hb | hb
    · exact Or.inl hb
    · exact Or.inr ⟨hg, hb⟩

/-- an unglued mesh: the left and right ends are true boundary sides without neighbours -/
example : ∀ c ∈ (init false [0, 1, 2] [0, 1]).leaves, ∀ s,
    onBoundary (init false [0, 1, 2] [0, 1]) c s = true → nbrs (init false [0, 1, 2] [0, 1]) c s = [] := by
  intro c hc s hb
  exact boundary_none _ (init_inv false _ _ strictInc_012 strictInc_01 (by simp) (by simp)) c hc s hb
    (by rintro ⟨g, _⟩; cases g)

end Stbem.Mesh
