import Stbem.Props.QuadTie
import Stbem.Props.C14
import Stbem.Props.C14Integral
import Stbem.Lemmas.NormsGenBasic

/-!
# NormsTie — `src/norms.py` REGENERATED FROM THE SOURCE equals the hand-written Slobodeckij model

`Stbem.Gen.NormsGen` is produced on every run by `translate/normsgen.py` from the text of `src/norms.py` (Python `ast` →
Lean, statement by statement: the constructor with its derived point / weight arrays, `seminorm_h_1_4`, the two
specialisations `gamma is None` / `gamma` given of `seminorm_h_1_2`, `seminorm_h_1_2_pw` with its two assertions, its local
function `slo` and the call of `QuadScheme2D.integrate` regenerated from `src/quadrature.py`).  The generated functions
work on what a `Slobodeckij` object holds (`Stbem.NormsConv.sloOf` lays the hand model's rules out as that object).

Section 1 proves, for ALL base rules (any length, any numbers), integrands, intervals and parametrisations, that every
generated function is the function of the hand-written model (`Stbem.Quad.semi14`, `semi12`, `semi12g`, `semi12pw`,
`semi12pwVal`) — the only hypothesis anywhere: the two H^{1/2} base rules have equally many nodes (the constructor passes
one order to both; the model's precondition).  Section 2 restates the results of `Props/C14.lean` for the generated
functions.  If the source changes behaviour, these theorems no longer check.
-/
namespace Stbem.NormsTie
open Stbem.Quad Stbem.QuadConv Stbem.NormsConv Stbem.QuadTie
open Stbem.Gen Stbem.Gen.NormsGen

-- the fallback tactics after `simp` only run when the source was rewritten (see `quad_tail` in Props/QuadTie.lean)
set_option linter.unusedTactic false
set_option linter.unreachableTactic false
set_option linter.unusedSimpArgs false

/-! ## 1. the generated definitions equal the hand-written ones -/

/-- `Slobodeckij(N_poly_1_4, N_poly_1_2)`: the `1/√x` rule is requested with `N_poly_1_4`, the Legendre and the `x`-weighted
rule with `N_poly_1_2` (default: `N_poly_1_4`); when the three constructors return (well-formed) rules, the object holds
them and the derived arrays of the hand model: `x(1-y)`, `2w/y` on `ProductScheme2D(g14, g14)`; `xy`, `w` on
`ProductScheme2D(gx, gl)`; the two-piece point set `semi12pw` -/
theorem gen_init_eq (cS cL cX : Int → Except String QuadGen.QuadScheme1D) (N14 : Int) (N12 : Option Int)
    (g14 gl gx : Rule1) (hS : cS N14 = .ok (ofRule1 g14)) (hL : cL (N12.getD N14) = .ok (ofRule1 gl))
    (hX : cX (N12.getD N14) = .ok (ofRule1 gx)) :
    Slobodeckij.init cS cL cX N14 N12 = .ok (sloOf g14 gl gx) := by
  unfold Slobodeckij.init
  cases N12 <;> simp only [Option.getD] at hL hX <;>
  simp only [hS, hL, hX, bind, Except.bind, pure, Except.pure, gen_product2_eq] <;>
  simp only [ofRule2, npRow_zero, npRow_one, npSA_map, npAS_map, npAA_map] <;>
  simp [sloOf, ofRule2, semi12pw, QuadGen.QuadScheme2D.init, QuadGen.npHstack, List.map_append, List.map_map,
    Function.comp_def] <;> quad_tail

/-- an exception raised by a rule constructor propagates; the constructors are called in the order `1/√x` rule, Legendre
rule, `x`-weighted rule -/
theorem gen_init_error (cS cL cX : Int → Except String QuadGen.QuadScheme1D) (N14 : Int) (N12 : Option Int) (e : String) :
    (cS N14 = .error e → Slobodeckij.init cS cL cX N14 N12 = .error e) ∧
    (∀ s, cS N14 = .ok s → cL (N12.getD N14) = .error e → Slobodeckij.init cS cL cX N14 N12 = .error e) ∧
    (∀ s l, cS N14 = .ok s → cL (N12.getD N14) = .ok l → cX (N12.getD N14) = .error e →
      Slobodeckij.init cS cL cX N14 N12 = .error e) := by
  refine ⟨fun hS => ?_, fun s hS hL => ?_, fun s l hS hL hX => ?_⟩ <;> unfold Slobodeckij.init <;>
  cases N12 <;> simp only [Option.getD] at * <;> simp only [*, bind, Except.bind]

/-- every object the generated constructor returns from well-formed base schemes is a `sloOf` -/
theorem gen_init_ok (cS cL cX : Int → Except String QuadGen.QuadScheme1D) (N14 : Int) (N12 : Option Int) (S : Slobodeckij)
    (h : Slobodeckij.init cS cL cX N14 N12 = .ok S)
    (hwf : ∀ s, (cS N14 = .ok s ∨ cL (N12.getD N14) = .ok s ∨ cX (N12.getD N14) = .ok s) → WF1 s) :
    ∃ g14 gl gx, S = sloOf g14 gl gx ∧ cS N14 = .ok (ofRule1 g14) ∧ cL (N12.getD N14) = .ok (ofRule1 gl) ∧
      cX (N12.getD N14) = .ok (ofRule1 gx) := by
  cases hS : cS N14 with
  | error e => rw [(gen_init_error cS cL cX N14 N12 e).1 hS] at h; cases h
  | ok s =>
    cases hL : cL (N12.getD N14) with
    | error e => rw [(gen_init_error cS cL cX N14 N12 e).2.1 s hS hL] at h; cases h
    | ok l =>
      cases hX : cX (N12.getD N14) with
      | error e => rw [(gen_init_error cS cL cX N14 N12 e).2.2 s l hS hL hX] at h; cases h
      | ok x =>
        obtain ⟨g14, rfl⟩ := (wf1_iff s).mp (hwf s (Or.inl hS))
        obtain ⟨gl, rfl⟩ := (wf1_iff l).mp (hwf l (Or.inr (Or.inl hL)))
        obtain ⟨gx, rfl⟩ := (wf1_iff x).mp (hwf x (Or.inr (Or.inr hX)))
        rw [gen_init_eq cS cL cX N14 N12 g14 gl gx hS hL hX] at h
        exact ⟨g14, gl, gx, (Except.ok.inj h).symm, rfl, rfl, rfl⟩

/-- `seminorm_h_1_4(f, a, b)` is `h**(1/2)` (whatever function `powHalf` stands for it) times the hand model's `semi14`
with `h = b - a` -/
theorem gen_seminorm_h_1_4_eq (g14 gl gx : Rule1) (powHalf : Rat → Rat) (f : Rat → Rat) (a b : Rat) :
    (sloOf g14 gl gx).seminorm_h_1_4 powHalf f a b = powHalf (b - a) * semi14 g14 f a (b - a) := by
  unfold Slobodeckij.seminorm_h_1_4 semi14 sloOf
  simp only [ofRule1, npSA_map, npAS_map, npMap1_map, npLen_map, npArray_eq]
  rw [npRepeat_product2 g14 g14 (fun x => f (a + (b - a) * x))]
  simp only [npSA_map, npAS_map, npAA_map, npPow_map, npDot_map, npMap1_map] <;>
  first
    | rfl
    | (congr 1; apply sumR_map_congr; intro n _; ring_nf)

/-- `seminorm_h_1_2(f, a, b)` (`gamma=None`) is the hand model's `semi12`; `np.repeat(x, len(x))` with
`len(x) = len(gauss_x)` matches the node order of `ProductScheme2D(gauss_x, gauss_leg)` when both rules have equally many
nodes -/
theorem gen_seminorm_h_1_2_flat_eq (g14 gl gx : Rule1) (hlen : gx.length = gl.length) (f : Rat → Rat) (a b : Rat) :
    (sloOf g14 gl gx).seminorm_h_1_2_flat f a b = semi12 gx gl f a (b - a) := by
  unfold Slobodeckij.seminorm_h_1_2_flat semi12 sloOf
  simp only [ofRule1, npSA_map, npAS_map, npMap1_map, npLen_map, npArray_eq, hlen]
  rw [npRepeat_product2 gx gl (fun x => f (a + (b - a) * x)), npRepeat_product2 gx gl (fun x => a + (b - a) * x)]
  simp only [npSA_map, npAS_map, npAA_map, npPow_map, npDot_map, npMap1_map] <;>
  first
    | rfl
    | (congr 1; apply sumR_map_congr; intro n _; ring_nf)

/-- `seminorm_h_1_2(f, a, b, gamma)` is the hand model's curve-aware `semi12g` (Euclidean distances of the images) -/
theorem gen_seminorm_h_1_2_curve_eq (g14 gl gx : Rule1) (hlen : gx.length = gl.length) (f : Rat → Rat × Rat → Rat)
    (a b : Rat) (γ : Gamma) :
    (sloOf g14 gl gx).seminorm_h_1_2_curve f a b γ = semi12g gx gl γ.eval f a (b - a) := by
  unfold Slobodeckij.seminorm_h_1_2_curve semi12g dist2 sloOf
  simp only [ofRule1, npSA_map, npAS_map, npMapG_map, npGamma_map, npLen_map, npArray_eq, hlen, npRepeatAxis1_two]
  rw [npRepeat_product2 gx gl (fun x => f (a + (b - a) * x) (γ.eval (a + (b - a) * x))),
    npRepeat_product2 gx gl (fun x => (γ.eval (a + (b - a) * x)).1),
    npRepeat_product2 gx gl (fun x => (γ.eval (a + (b - a) * x)).2)]
  simp only [npMM_map2, npPowM_map2, npSumAxis0_map2, npSA_map, npAS_map, npAA_map, npPow_map, npDot_map] <;>
  first
    | rfl
    | (congr 1; apply sumR_map_congr; intro n _; ring_nf)

/-- `seminorm_h_1_2_pw(f, a_1, b_1, gamma_1, a_2, b_2, gamma_2)` is the hand model's `semi12pwVal`: identity assertion,
corner assertion, the two same-piece parts, the size assertion of the regenerated `QuadScheme2D.integrate`, twice the
cross term with Euclidean distances -/
theorem gen_seminorm_h_1_2_pw_eq (g14 gl gx : Rule1) (hlen : gx.length = gl.length) (f : Rat → Rat × Rat → Rat)
    (a1 b1 : Rat) (γ1 : Gamma) (a2 b2 : Rat) (γ2 : Gamma) :
    (sloOf g14 gl gx).seminorm_h_1_2_pw f a1 b1 γ1 a2 b2 γ2 =
      semi12pwVal gx gl (γ1.id == γ2.id) γ1.eval γ2.eval f a1 b1 a2 b2 := by
  unfold Slobodeckij.seminorm_h_1_2_pw
  rw [semi12pwVal_via_gen]
  simp only [gen_seminorm_h_1_2_curve_eq g14 gl gx hlen]
  by_cases hid : γ1.id = γ2.id
  · simp [hid]
  · by_cases hc : γ1.eval b1 = γ2.eval a2
    · simp only [hid, hc, beq_iff_eq, ne_eq, not_false_eq_true, not_true_eq_false, if_false, Bool.false_eq_true]
      have hS : (sloOf g14 gl gx).semi_1_2_pw = ofRule2 (semi12pw gx gl) := rfl
      rw [hS]
      simp only [slo_point]
      cases (ofRule2 (semi12pw gx gl)).integrate (sloCross γ1.eval γ2.eval f) a1 b1 a2 b2 with
      | error e => rfl
      | ok v =>
        first
          | rfl
          | (show Except.ok _ = Except.ok _; congr 1; simp only []; ring)
    · simp [hid, hc]

/-! ## 2. the theorems of `Props/C14.lean` for the generated-from-source functions

`S = sloOf g14 gl gx` is the object the generated constructor returns (`gen_init_eq`, `gen_init_ok`); `powHalf` stands for
`h ↦ h**(1/2)`; `hlen` is the precondition that both H^{1/2} base rules have equally many nodes. -/

section
variable (g14 gl gx : Rule1)

/-! ### H^{1/4} -/

theorem gen_h14_nonneg (powHalf : Rat → Rat) (f : Rat → Rat) (a b : Rat) (hp : 0 ≤ powHalf (b - a))
    (hg : ∀ n ∈ g14, 0 ≤ n.w ∧ 0 ≤ n.x) : 0 ≤ (sloOf g14 gl gx).seminorm_h_1_4 powHalf f a b := by
  rw [gen_seminorm_h_1_4_eq]; exact mul_nonneg hp (C14.semi14_nonneg g14 f a (b - a) hg)

theorem gen_h14_const (powHalf : Rat → Rat) (c a b : Rat) :
    (sloOf g14 gl gx).seminorm_h_1_4 powHalf (fun _ => c) a b = 0 := by
  rw [gen_seminorm_h_1_4_eq, C14.semi14_const, mul_zero]

theorem gen_h14_scale (powHalf : Rat → Rat) (f : Rat → Rat) (c a b : Rat) :
    (sloOf g14 gl gx).seminorm_h_1_4 powHalf (fun x => c * f x) a b =
      c ^ 2 * (sloOf g14 gl gx).seminorm_h_1_4 powHalf f a b := by
  rw [gen_seminorm_h_1_4_eq, gen_seminorm_h_1_4_eq, C14.semi14_scale]; ring

theorem gen_h14_translate (powHalf : Rat → Rat) (f : Rat → Rat) (a b τ : Rat) :
    (sloOf g14 gl gx).seminorm_h_1_4 powHalf (fun x => f (x - τ)) (a + τ) (b + τ) =
      (sloOf g14 gl gx).seminorm_h_1_4 powHalf f a b := by
  rw [gen_seminorm_h_1_4_eq, gen_seminorm_h_1_4_eq, show b + τ - (a + τ) = b - a by ring, C14.semi14_translate]

/-- **reduction to moment functionals, H^{1/4}**: for `f = Σ cₖ xᵏ` of degree `≤ deg` the generated routine is
`h**(1/2)` times a fixed bilinear form (depending on `f, a, b` only) in the moments of the base rule -/
theorem gen_h14_moment_form (cs : List Rat) (a b : Rat) (deg : Nat) (hlen : cs.length ≤ deg + 1) :
    ∃ C : Nat → Nat → Rat, ∀ (g14 gl gx : Rule1) (powHalf : Rat → Rat),
      (sloOf g14 gl gx).seminorm_h_1_4 powHalf (evalPoly cs) a b = powHalf (b - a) *
        (Finset.range (2 * deg + 1)).sum fun i => (Finset.range (2 * deg - 1 + 1)).sum fun j =>
          C i j * (mom g14 i * mom g14 j) := by
  obtain ⟨C, hC⟩ := C14.semi14_moment_form cs a (b - a) deg hlen
  exact ⟨C, fun g14 gl gx powHalf => by rw [gen_seminorm_h_1_4_eq, hC g14]⟩

/-- **rule independence, H^{1/4}**: objects built from `1/√x` rules with equal moments up to order `N` return the same
value for every polynomial of degree `≤ N / 2` on every interval -/
theorem gen_h14_exact_indep (g14' gl' gx' : Rule1) (N : Nat) (hm : ∀ k, k ≤ N → mom g14 k = mom g14' k)
    (powHalf : Rat → Rat) (cs : List Rat) (deg : Nat) (hlen : cs.length ≤ deg + 1) (hdeg : 2 * deg ≤ N) (a b : Rat) :
    (sloOf g14 gl gx).seminorm_h_1_4 powHalf (evalPoly cs) a b =
      (sloOf g14' gl' gx').seminorm_h_1_4 powHalf (evalPoly cs) a b := by
  rw [gen_seminorm_h_1_4_eq, gen_seminorm_h_1_4_eq, C14.semi14_exact_indep g14 g14' N hm cs deg hlen hdeg]

/-- **closed form, H^{1/4}**: one number `v(f, a, b)` such that every object whose `1/√x` rule has the moments `2/(2k+1)`
up to order `N ≥ 2 deg f` returns `h**(1/2) · v` -/
theorem gen_h14_exact_partial (cs : List Rat) (a b : Rat) (deg : Nat) (hlen : cs.length ≤ deg + 1) :
    ∃ v : Rat, ∀ (g14 gl gx : Rule1) (powHalf : Rat → Rat) (N : Nat), 2 * deg ≤ N →
      (∀ k, k ≤ N → mom g14 k = 2 / (2 * (k : Rat) + 1)) →
      (sloOf g14 gl gx).seminorm_h_1_4 powHalf (evalPoly cs) a b = powHalf (b - a) * v := by
  obtain ⟨v, hv⟩ := C14.semi14_exact_partial cs a (b - a) deg hlen
  exact ⟨v, fun g14 gl gx powHalf N hN hm => by rw [gen_seminorm_h_1_4_eq, hv g14 N hN hm]⟩

/-! ### H^{1/2}, flat -/

variable (hlen : gx.length = gl.length)
include hlen

theorem gen_h12_nonneg (f : Rat → Rat) (a b : Rat) (hx : ∀ n ∈ gx, 0 ≤ n.w) (hl : ∀ n ∈ gl, 0 ≤ n.w) :
    0 ≤ (sloOf g14 gl gx).seminorm_h_1_2_flat f a b := by
  rw [gen_seminorm_h_1_2_flat_eq g14 gl gx hlen]; exact C14.semi12_nonneg gx gl f a (b - a) hx hl

theorem gen_h12_const (c a b : Rat) : (sloOf g14 gl gx).seminorm_h_1_2_flat (fun _ => c) a b = 0 := by
  rw [gen_seminorm_h_1_2_flat_eq g14 gl gx hlen, C14.semi12_const]

theorem gen_h12_scale (f : Rat → Rat) (c a b : Rat) :
    (sloOf g14 gl gx).seminorm_h_1_2_flat (fun x => c * f x) a b = c ^ 2 * (sloOf g14 gl gx).seminorm_h_1_2_flat f a b := by
  rw [gen_seminorm_h_1_2_flat_eq g14 gl gx hlen, gen_seminorm_h_1_2_flat_eq g14 gl gx hlen, C14.semi12_scale]

theorem gen_h12_translate (f : Rat → Rat) (a b τ : Rat) :
    (sloOf g14 gl gx).seminorm_h_1_2_flat (fun x => f (x - τ)) (a + τ) (b + τ) =
      (sloOf g14 gl gx).seminorm_h_1_2_flat f a b := by
  rw [gen_seminorm_h_1_2_flat_eq g14 gl gx hlen, gen_seminorm_h_1_2_flat_eq g14 gl gx hlen,
    show b + τ - (a + τ) = b - a by ring, C14.semi12_translate]

/-- **reduction, H^{1/2}** (`a ≠ b`, no node at the singular set `x = 0`, `y = 1`): the generated routine is `2 h²` times
the tensor rule applied to a polynomial `G` depending on `(f, a, b)` only -/
theorem gen_h12_reduction (cs : List Rat) (a b : Rat) (hab : b - a ≠ 0) (deg : Nat) (hcs : cs.length ≤ deg + 1)
    (hx : ∀ n ∈ gx, n.x ≠ 0) (hl : ∀ n ∈ gl, n.x ≠ 1) :
    ∃ G, Span2 (2 * deg - 2) (2 * deg - 2) G ∧
      (sloOf g14 gl gx).seminorm_h_1_2_flat (evalPoly cs) a b = 2 * (b - a) ^ 2 * apply2 (product2 gx gl) G := by
  obtain ⟨G, hG, hv⟩ := C14.semi12_reduction cs a (b - a) hab deg hcs
  exact ⟨G, hG, by rw [gen_seminorm_h_1_2_flat_eq g14 gl gx hlen, hv gx gl hx hl]⟩

/-- **rule independence, H^{1/2}** -/
theorem gen_h12_exact_indep (g14' gl' gx' : Rule1) (hlen' : gx'.length = gl'.length) (N : Nat)
    (hmx : ∀ k, k ≤ N → mom gx k = mom gx' k) (hml : ∀ k, k ≤ N → mom gl k = mom gl' k)
    (hx : ∀ n ∈ gx, n.x ≠ 0) (hl : ∀ n ∈ gl, n.x ≠ 1) (hx' : ∀ n ∈ gx', n.x ≠ 0) (hl' : ∀ n ∈ gl', n.x ≠ 1)
    (cs : List Rat) (deg : Nat) (hcs : cs.length ≤ deg + 1) (hdeg : 2 * deg ≤ N + 2) (a b : Rat) (hab : b - a ≠ 0) :
    (sloOf g14 gl gx).seminorm_h_1_2_flat (evalPoly cs) a b =
      (sloOf g14' gl' gx').seminorm_h_1_2_flat (evalPoly cs) a b := by
  rw [gen_seminorm_h_1_2_flat_eq g14 gl gx hlen, gen_seminorm_h_1_2_flat_eq g14' gl' gx' hlen',
    C14.semi12_exact_indep gx gl gx' gl' N hmx hml hx hl hx' hl' cs deg hcs hdeg a (b - a) hab]

omit hlen in
/-- **closed form, H^{1/2}**: one value `v(f, a, b)` for all objects whose `x`-weighted and Legendre rules have the moments
`1/(k+2)`, `1/(k+1)` up to order `N`, `2 deg f ≤ N + 2` (equally many nodes, none at the singular set) -/
theorem gen_h12_exact_partial (cs : List Rat) (a b : Rat) (hab : b - a ≠ 0) (deg : Nat) (hcs : cs.length ≤ deg + 1) :
    ∃ v : Rat, ∀ (g14 gl gx : Rule1) (N : Nat), gx.length = gl.length → 2 * deg ≤ N + 2 →
      (∀ k, k ≤ N → mom gx k = 1 / ((k : Rat) + 2)) → Exact1 gl N → (∀ n ∈ gx, n.x ≠ 0) → (∀ n ∈ gl, n.x ≠ 1) →
      (sloOf g14 gl gx).seminorm_h_1_2_flat (evalPoly cs) a b = v := by
  obtain ⟨v, hv⟩ := C14.semi12_exact_partial cs a (b - a) hab deg hcs
  exact ⟨v, fun g14 gl gx N hl hN hmx hml hx hl' => by
    rw [gen_seminorm_h_1_2_flat_eq g14 gl gx hl, hv gx gl N hN hmx hml hx hl']⟩

/-- **H^{1/2}, exactness on polynomials, for the generated code** (`semi12_eq_integral_poly` of `Props/C14Integral.lean`): the
generated flat `seminorm_h_1_2` of an object whose `x`-weighted and Legendre rules have the moments `1/(k+2)`, `1/(k+1)` up to
order `N` (equally many nodes, none at the singular set) returns, for every polynomial with `2 deg f ≤ N + 2` and every interval
`a ≠ b`, the Slobodeckij double integral `∫_a^b ∫_a^b ((f x - f y)/(x - y))² dy dx` -/
theorem gen_h12_eq_integral_poly (cs : List Rat) (a b : Rat) (hab : b - a ≠ 0) (deg : Nat) (hcs : cs.length ≤ deg + 1)
    (N : Nat) (hN : 2 * deg ≤ N + 2) (hmx : ∀ k, k ≤ N → mom gx k = 1 / ((k : Rat) + 2)) (hml : Exact1 gl N)
    (hx : ∀ n ∈ gx, n.x ≠ 0) (hl : ∀ n ∈ gl, n.x ≠ 1) :
    (((sloOf g14 gl gx).seminorm_h_1_2_flat (evalPoly cs) a b : Rat) : ℝ) =
      ∫ x in (a : ℝ)..(b : ℝ), ∫ y in (a : ℝ)..(b : ℝ), ((evalPolyR cs x - evalPolyR cs y) / (x - y)) ^ 2 := by
  rw [gen_seminorm_h_1_2_flat_eq g14 gl gx hlen]
  exact C14.semi12_eq_integral_poly cs a b hab deg hcs gx gl N hN hmx hml hx hl

/-! ### curve-aware variant -/

theorem gen_h12g_nonneg (γ : Gamma) (f : Rat → Rat × Rat → Rat) (a b : Rat) (hx : ∀ n ∈ gx, 0 ≤ n.w)
    (hl : ∀ n ∈ gl, 0 ≤ n.w) : 0 ≤ (sloOf g14 gl gx).seminorm_h_1_2_curve f a b γ := by
  rw [gen_seminorm_h_1_2_curve_eq g14 gl gx hlen]; exact C14.semi12g_nonneg gx gl γ.eval f a (b - a) hx hl

theorem gen_h12g_const (γ : Gamma) (c a b : Rat) : (sloOf g14 gl gx).seminorm_h_1_2_curve (fun _ _ => c) a b γ = 0 := by
  rw [gen_seminorm_h_1_2_curve_eq g14 gl gx hlen, C14.semi12g_const]

theorem gen_h12g_scale (γ : Gamma) (f : Rat → Rat × Rat → Rat) (c a b : Rat) :
    (sloOf g14 gl gx).seminorm_h_1_2_curve (fun x p => c * f x p) a b γ =
      c ^ 2 * (sloOf g14 gl gx).seminorm_h_1_2_curve f a b γ := by
  rw [gen_seminorm_h_1_2_curve_eq g14 gl gx hlen, gen_seminorm_h_1_2_curve_eq g14 gl gx hlen, C14.semi12g_scale]

/-- **curve = flat**: on a straight unit-speed piece (any placement, any rational direction, any object identity) the
generated curve-aware routine equals the generated flat routine applied to `x̂ ↦ f(x̂, γ(x̂))` -/
theorem gen_curve_eq_flat (id : Nat) (g : Seg) (hd : g.d1 ^ 2 + g.d2 ^ 2 = 1) (f : Rat → Rat × Rat → Rat) (a b : Rat) :
    (sloOf g14 gl gx).seminorm_h_1_2_curve f a b (gammaOf id g.at) =
      (sloOf g14 gl gx).seminorm_h_1_2_flat (fun x => f x (g.at x)) a b := by
  rw [gen_seminorm_h_1_2_curve_eq g14 gl gx hlen, gen_seminorm_h_1_2_flat_eq g14 gl gx hlen]
  exact C14.semi12_curve_eq_flat gx gl g hd f a (b - a)

/-- straight piece traversed with another speed: the flat value divided by `|d|²` -/
theorem gen_curve_speed (id : Nat) (g : Seg) (f : Rat → Rat × Rat → Rat) (a b : Rat) :
    (sloOf g14 gl gx).seminorm_h_1_2_curve f a b (gammaOf id g.at) =
      (sloOf g14 gl gx).seminorm_h_1_2_flat (fun x => f x (g.at x)) a b / (g.d1 ^ 2 + g.d2 ^ 2) := by
  rw [gen_seminorm_h_1_2_curve_eq g14 gl gx hlen, gen_seminorm_h_1_2_flat_eq g14 gl gx hlen]
  exact C14.semi12_curve_speed gx gl g f a (b - a)

/-! ### two pieces meeting in a corner -/

/-- whenever the generated `seminorm_h_1_2_pw` returns: the pieces are distinct objects, they meet in the corner, both
parameter intervals are longer than the binary64 number `1e-7` of the regenerated `QuadScheme2D.integrate`, and the value
is piece 1 + piece 2 (generated curve-aware routine) + 2 · cross term with Euclidean distances -/
theorem gen_pw_ok (f : Rat → Rat × Rat → Rat) (a1 b1 : Rat) (γ1 : Gamma) (a2 b2 : Rat) (γ2 : Gamma) (v : Rat)
    (h : (sloOf g14 gl gx).seminorm_h_1_2_pw f a1 b1 γ1 a2 b2 γ2 = .ok v) :
    γ1.id ≠ γ2.id ∧ γ1.eval b1 = γ2.eval a2 ∧ QuadGen.c_1e_m7 < b1 - a1 ∧ QuadGen.c_1e_m7 < b2 - a2 ∧
      v = (sloOf g14 gl gx).seminorm_h_1_2_curve f a1 b1 γ1 + (sloOf g14 gl gx).seminorm_h_1_2_curve f a2 b2 γ2 +
        2 * integrate2 (semi12pw gx gl) (sloCross γ1.eval γ2.eval f) a1 b1 a2 b2 := by
  rw [gen_seminorm_h_1_2_pw_eq g14 gl gx hlen] at h
  obtain ⟨h1, h2, h3, h4, h5⟩ := C14.semi12pwVal_ok h
  rw [gen_size_threshold, gen_seminorm_h_1_2_curve_eq g14 gl gx hlen, gen_seminorm_h_1_2_curve_eq g14 gl gx hlen]
  exact ⟨by simpa using h1, h2, h3, h4, h5⟩

theorem gen_pw_nonneg (f : Rat → Rat × Rat → Rat) (a1 b1 : Rat) (γ1 : Gamma) (a2 b2 : Rat) (γ2 : Gamma) (v : Rat)
    (hx : ∀ n ∈ gx, 0 ≤ n.w) (hl : ∀ n ∈ gl, 0 ≤ n.w)
    (h : (sloOf g14 gl gx).seminorm_h_1_2_pw f a1 b1 γ1 a2 b2 γ2 = .ok v) : 0 ≤ v := by
  rw [gen_seminorm_h_1_2_pw_eq g14 gl gx hlen] at h; exact C14.semi12pwVal_nonneg hx hl h

theorem gen_pw_const (c a1 b1 : Rat) (γ1 : Gamma) (a2 b2 : Rat) (γ2 : Gamma) (v : Rat)
    (h : (sloOf g14 gl gx).seminorm_h_1_2_pw (fun _ _ => c) a1 b1 γ1 a2 b2 γ2 = .ok v) : v = 0 := by
  rw [gen_seminorm_h_1_2_pw_eq g14 gl gx hlen] at h; exact C14.semi12pwVal_const h

theorem gen_pw_scale (f : Rat → Rat × Rat → Rat) (a1 b1 : Rat) (γ1 : Gamma) (a2 b2 : Rat) (γ2 : Gamma) (v c : Rat)
    (h : (sloOf g14 gl gx).seminorm_h_1_2_pw f a1 b1 γ1 a2 b2 γ2 = .ok v) :
    (sloOf g14 gl gx).seminorm_h_1_2_pw (fun x p => c * f x p) a1 b1 γ1 a2 b2 γ2 = .ok (c ^ 2 * v) := by
  rw [gen_seminorm_h_1_2_pw_eq g14 gl gx hlen] at h ⊢; exact C14.semi12pwVal_scale c h

/-- on two straight unit-speed pieces the same-piece parts of the generated two-piece routine are the generated flat routine
of the pulled-back data -/
theorem gen_pw_straight (g1 g2 : Seg) (i1 i2 : Nat) (f : Rat → Rat × Rat → Rat) (a1 b1 a2 b2 v : Rat)
    (h1 : g1.d1 ^ 2 + g1.d2 ^ 2 = 1) (h2 : g2.d1 ^ 2 + g2.d2 ^ 2 = 1)
    (h : (sloOf g14 gl gx).seminorm_h_1_2_pw f a1 b1 (gammaOf i1 g1.at) a2 b2 (gammaOf i2 g2.at) = .ok v) :
    v = (sloOf g14 gl gx).seminorm_h_1_2_flat (fun x => f x (g1.at x)) a1 b1 +
      (sloOf g14 gl gx).seminorm_h_1_2_flat (fun x => f x (g2.at x)) a2 b2 +
      2 * integrate2 (semi12pw gx gl) (sloCross g1.at g2.at f) a1 b1 a2 b2 := by
  obtain ⟨_, _, _, _, hv⟩ := gen_pw_ok g14 gl gx hlen f a1 b1 _ a2 b2 _ v h
  rw [hv, gen_curve_eq_flat g14 gl gx hlen i1 g1 h1, gen_curve_eq_flat g14 gl gx hlen i2 g2 h2]
  rfl

omit hlen

/-- the two-piece point set stored by the generated constructor, used through the regenerated `QuadScheme2D.integrate` on
the unit square, is the pull-back rule of `Props/C14.lean` (singular corner `(1, 0)`) -/
theorem gen_pw_rule_pullback (F : Rat → Rat → Rat) :
    (sloOf g14 gl gx).semi_1_2_pw.integrate F 0 1 0 1 =
      .ok (apply2 (product2 gx gl) (fun x y => F (1 - x) (x * y) + F (1 - x * y) x)) := by
  show (ofRule2 (semi12pw gx gl)).integrate F 0 1 0 1 = _
  rw [gen_ref2, C14.apply2_semi12pw]

/-- … and integrates every monomial `sⁱ tʲ`, `i + j ≤ n`, exactly over the unit square when the base rules have the
moments of their weights up to order `n` -/
theorem gen_pw_rule_exact {n : Nat} (hx : ∀ k, k ≤ n → mom gx k = 1 / ((k : Rat) + 2)) (hl : Exact1 gl n) (i j : Nat)
    (hij : i + j ≤ n) :
    (sloOf g14 gl gx).semi_1_2_pw.integrate (fun s t => s ^ i * t ^ j) 0 1 0 1 =
      .ok (1 / (((i : Rat) + 1) * ((j : Rat) + 1))) := by
  show (ofRule2 (semi12pw gx gl)).integrate _ 0 1 0 1 = _
  rw [gen_ref2, C14.semi12pw_exact hx hl i j hij]

end

/-! ## 3. the generated definitions are executable: closed examples (evaluated by the kernel), non-vacuity -/

open Stbem.C14 in
/-- the generated constructor on the three-node rules of `Props/C14.lean`, orders routed as in the source -/
example : Slobodeckij.init (fun n => if n = 5 then .ok (ofRule1 gS) else .error "order")
    (fun n => if n = 7 then .ok (ofRule1 gL) else .error "order") (fun n => if n = 7 then .ok (ofRule1 gX) else .error "order")
    5 (some 7) = .ok (sloOf gS gL gX) := by decide +kernel
open Stbem.C14 in
example : Slobodeckij.init (constCtor gS) (fun _ => .error "assert:odd") (constCtor gX) 4 none = .error "assert:odd" := by
  decide +kernel
open Stbem.C14 in
/-- `f(x) = x` on `[0, 1]`: `∫₀¹∫₀¹ |x - y|^{1/2} = 8/15`; `f(x) = 1 + 3x` on `[2, 6]` with `h**(1/2) = 2` -/
example : (sloOf gS gL gX).seminorm_h_1_4 (fun _ => 1) (evalPoly [0, 1]) 0 1 = 8 / 15 ∧
    (sloOf gS gL gX).seminorm_h_1_4 (fun h => if h = 4 then 2 else 0) (evalPoly [1, 3]) 2 6 = 2 * (9 * 16 * (8 / 15)) := by
  decide +kernel
open Stbem.C14 in
/-- `f(x) = x²` on `[0, 1]`: `∫₀¹∫₀¹ (x + y)² = 7/6`, flat and on a rigidly placed straight piece -/
example : (sloOf gS gL gX).seminorm_h_1_2_flat (evalPoly [0, 0, 1]) 0 1 = 7 / 6 ∧
    (sloOf gS gL gX).seminorm_h_1_2_curve (fun x _ => x ^ 2) 0 1 (gammaOf 0 (Seg.at ⟨2, 1, 3 / 5, 4 / 5, 0⟩)) = 7 / 6 := by
  decide +kernel
open Stbem.C14 in
/-- a right-angle corner: the generated two-piece routine returns; the same object twice / a gap at the corner / a short
interval trip the three assertions -/
example : ((sloOf gS gL gX).seminorm_h_1_2_pw (fun _ p => p.1 + 2 * p.2) 0 1 (gammaOf 0 (Seg.at ⟨1, 0, 1, 0, 1⟩)) 1 2
      (gammaOf 1 (Seg.at ⟨1, 0, 0, 1, 1⟩))).toOption.isSome = true ∧
    (sloOf gS gL gX).seminorm_h_1_2_pw (fun _ p => p.1) 0 1 (gammaOf 0 (Seg.at ⟨1, 0, 1, 0, 1⟩)) 1 2
      (gammaOf 0 (Seg.at ⟨1, 0, 1, 0, 1⟩)) = .error "assert:gamma-identity" ∧
    (sloOf gS gL gX).seminorm_h_1_2_pw (fun _ p => p.1) 0 1 (gammaOf 0 (Seg.at ⟨1, 0, 1, 0, 1⟩)) 1 2
      (gammaOf 1 (Seg.at ⟨1, 1, 0, 1, 1⟩)) = .error "assert:corner" ∧
    (sloOf gS gL gX).seminorm_h_1_2_pw (fun _ p => p.1) 0 1 (gammaOf 0 (Seg.at ⟨1, 0, 1, 0, 1⟩)) 1 (1 + 1 / 100000000)
      (gammaOf 1 (Seg.at ⟨1, 0, 0, 1, 1⟩)) = .error "assert:size" := by
  decide +kernel
/-- the hypotheses of section 2 are satisfiable: `gS, gL, gX` have three nodes each, positive weights, nodes off the
singular set, and the moments of their weights up to order 2 (`Props/C14.lean`) -/
example : C14.gX.length = C14.gL.length ∧ (∀ n ∈ C14.gS, 0 ≤ n.w ∧ 0 ≤ n.x) ∧ (∀ n ∈ C14.gX, 0 ≤ n.w) ∧
    (∀ n ∈ C14.gL, 0 ≤ n.w) ∧ (∀ n ∈ C14.gX, n.x ≠ 0) ∧ (∀ n ∈ C14.gL, n.x ≠ 1) := by decide +kernel
example : (sloOf C14.gS C14.gL C14.gX).seminorm_h_1_4 (fun _ => 3) (evalPoly [5, -2]) 3 (3 + 1 / 4) =
    (sloOf C14.gS2 C14.gL C14.gX).seminorm_h_1_4 (fun _ => 3) (evalPoly [5, -2]) 3 (3 + 1 / 4) :=
  gen_h14_exact_indep C14.gS C14.gL C14.gX C14.gS2 C14.gL C14.gX 2
    (fun k hk => by rw [C14.gS_moments k hk, C14.gS2_moments k hk]) _ [5, -2] 1 (by simp) (by norm_num) 3 (3 + 1 / 4)
example : (sloOf C14.gS C14.gL C14.gX).semi_1_2_pw.integrate (fun s t => s ^ 1 * t ^ 1) 0 1 0 1 =
    .ok (1 / ((((1 : Nat) : Rat) + 1) * (((1 : Nat) : Rat) + 1))) :=
  gen_pw_rule_exact C14.gS C14.gL C14.gX C14.gX_moments C14.gL_exact 1 1 (by norm_num)
/-- `gen_h12_eq_integral_poly` on the three-node rules: `f(x) = 3 - x + 2x²` on `[1, 3]` -/
example : (((sloOf C14.gS C14.gL C14.gX).seminorm_h_1_2_flat (evalPoly [3, -1, 2]) 1 3 : Rat) : ℝ) =
    ∫ x in ((1 : Rat) : ℝ)..((3 : Rat) : ℝ), ∫ y in ((1 : Rat) : ℝ)..((3 : Rat) : ℝ),
      ((evalPolyR [3, -1, 2] x - evalPolyR [3, -1, 2] y) / (x - y)) ^ 2 :=
  gen_h12_eq_integral_poly C14.gS C14.gL C14.gX rfl [3, -1, 2] 1 3 (by norm_num) 2 (by simp) 2 (by norm_num)
    C14.gX_moments C14.gL_exact (by decide +kernel) (by decide +kernel)
example : WF1 (ofRule1 C14.gS) := wf_ofRule1 _

end Stbem.NormsTie
