import Stbem.Props.C10
import Stbem.Lemmas.EstimatorMesh
import Mathlib.Analysis.SpecialFunctions.Pow.Real

/-!
# C09 — Sobolev and weighted-L2 indicators equal their definition on every patch

Model: `Stbem.Model.Estimator` (patch selection of `sobolev_space` / `sobolev_time`, the neighbour-symmetry
shortcut, the accumulation loop of `estimate_sobolev`, the pool path, `weighted_l2`), seminorm routines
abstract.

* `accumulate_eq_direct`      : shortcut + accumulation = direct sum over the element and each neighbour
                                (generic neighbour lists / pair functional);
* `accumulate_eq_direct_mesh` : the same for every mesh with the invariant `Inv` (C02/C10), any patch tokens;
* `time_patch_spec`           : union in time × intersection in space (non-empty), one piece;
* `space_patch_spec_full`     : FULL specification of the space patch, every neighbouring pair, as a case split:
                                left / right assignment, common time interval, one seminorm call, and EITHER the pair
                                is not a same-piece seam pair and the call integrates forward over exactly the union
                                of the two space intervals (the definition) OR it is a same-piece seam pair and the
                                call is `seminorm_h_1_2(f, left.x0, right.x1, γ)` with `right.x1 ≤ left.x0` — the
                                complementary arc, run backwards (what the code does; finding F5);
* `space_patch_spec_partial`  : its first case alone (kept as the lemma it is proved from);
* `space_patch_seam_same_piece_general` : its second case alone; `space_patch_seam_same_piece` : kernel-evaluated
                                witness that the second case occurs (so "every patch equals the definition" is false on
                                the pinned code);
* `weighted_l2_scaling`, `weighted_l2_scaling_real`;
* `pool_eq_serial`.

The naive statement "for every pair of neighbouring leaves `c`, `n` (seam included) the call made by
`__integrate_h_1_2` is forward oriented and covers exactly `left.covers ∪ right.covers`" is FALSE on the pinned code
(`space_patch_seam_same_piece`); `space_patch_spec_full` is the complete true statement: it says for every pair what is
integrated, and it is the definition exactly when the pair is not a same-piece seam pair.
-/
namespace Stbem.Estimator
open Stbem.Mesh

/-! ## the shortcut equals the direct definition -/

/-- Generic form.  `NN c` is the list the loop of `sobolev_*` walks over (the element itself first),
`F a b` the value of the pair.  Hypotheses: unique `glob_idx`; the lists stay inside `elems`; `b` occurs in
the list of `a` as often as `a` in the list of `b` (for duplicate-free lists: the neighbour relation is
symmetric — self-neighbours and an element that is left and right neighbour at once are covered, so the
three-elements-per-slab guard is not needed for this statement); `F` is symmetric on neighbouring pairs;
no pair evaluation trips an assertion.  Then `estimate_sobolev` (pairs evaluated once, by the element
with the smaller index, and added to both) returns for every element the sum over the element and each
of its neighbours, i.e. what `sobolev_time(elem)[0]`, `sobolev_space(elem)[0]` return without the shortcut. -/
theorem accumulate_eq_direct (m : Mesh) (evT evS : Cell → Cell → Except String Rat) (FT FS : Cell → Cell → Rat)
    (elems : List Cell) (hid : (elems.map (·.id)).Nodup)
    (hclT : ∀ c ∈ elems, ∀ n ∈ timeNbrs m c, n ∈ elems) (hclS : ∀ c ∈ elems, ∀ n ∈ spaceNbrs m c, n ∈ elems)
    (hcT : ∀ a ∈ elems, ∀ b ∈ elems, (timeNbrs m a).count b = (timeNbrs m b).count a)
    (hcS : ∀ a ∈ elems, ∀ b ∈ elems, (spaceNbrs m a).count b = (spaceNbrs m b).count a)
    (hFT : ∀ a ∈ elems, ∀ b ∈ timeNbrs m a, FT a b = FT b a)
    (hFS : ∀ a ∈ elems, ∀ b ∈ spaceNbrs m a, FS a b = FS b a)
    (hevT : ∀ c ∈ elems, ∀ n ∈ timeNbrs m c, evT c n = .ok (FT c n))
    (hevS : ∀ c ∈ elems, ∀ n ∈ spaceNbrs m c, evS c n = .ok (FS c n)) :
    estimateSobolev m evT evS elems = directSobolev m evT evS elems ∧
    directSobolev m evT evS elems = .ok (elems.map fun c =>
      (lsum ((timeNbrs m c).map (FT c)), lsum ((spaceNbrs m c).map (FS c)))) := by
  have h1 := estimateSobolev_ok m evT evS FT FS elems hid hclT hclS hcT hcS hFT hFS hevT hevS
  have h2 := directSobolev_ok m evT evS FT FS elems hevT hevS
  exact ⟨h1.trans h2.symm, h2⟩

/-- **C09, shortcut = definition on every mesh.**  For every glued mesh with the invariant `Inv` (tiling,
unique indices; C02/C10: reachable meshes have it), pieces assigned consistently, every element list that
enumerates the leaves once, and arbitrary values `tokT`, `tokS` of the two patch integrals as functions
of the arguments handed to `__integrate_h_1_4` / `__integrate_h_1_2`: no assertion fires and the array
assembled by `estimate_sobolev` equals, entry by entry, the sum over the element and each of its
neighbours (in time / in space, seam included) of the patch values. -/
theorem accumulate_eq_direct_mesh (m : Mesh) (h : Inv m) (hg : m.glue = true) (L : Rat) (h0 : m.xmin = 0)
    (hL : m.xmax = L) (brk : Nat → Rat) (hb : PiecesOK brk m) (tokT : TimePatch → Rat) (tokS : SpacePatch → Rat)
    (elems : List Cell) (hnd : elems.Nodup) (hmem : ∀ c, c ∈ elems ↔ c ∈ m.leaves) :
    estimateSobolev m (evTime fun p => .ok (tokT p)) (evSpace L fun p => .ok (tokS p)) elems =
      directSobolev m (evTime fun p => .ok (tokT p)) (evSpace L fun p => .ok (tokS p)) elems ∧
    directSobolev m (evTime fun p => .ok (tokT p)) (evSpace L fun p => .ok (tokS p)) elems =
      .ok (elems.map fun c => (lsum ((timeNbrs m c).map (pairT tokT c)),
        lsum ((spaceNbrs m c).map (pairS L tokS c)))) := by
  have hLpos : 0 < L := by rw [← hL, ← h0]; exact h.dom.2
  have hinj : ∀ a ∈ m.leaves, ∀ b ∈ m.leaves, a.id = b.id → a = b := fun a ha b hb e => h.ids.id_inj ha hb e
  have hclosedS : ∀ c ∈ m.leaves, ∀ n ∈ spaceNbrs m c, n ∈ m.leaves := by
    intro c hc n hn
    simp only [spaceNbrs, List.mem_cons, List.mem_append] at hn
    rcases hn with e | hn | hn
    · rw [e]; exact hc
    · exact (mem_nbrs.mp hn).1
    · exact (mem_nbrs.mp hn).1
  have hclosedT : ∀ c ∈ m.leaves, ∀ n ∈ timeNbrs m c, n ∈ m.leaves := by
    intro c hc n hn
    simp only [timeNbrs, List.mem_cons, List.mem_append] at hn
    rcases hn with e | hn | hn
    · rw [e]; exact hc
    · exact (mem_nbrs.mp hn).1
    · exact (mem_nbrs.mp hn).1
  apply accumulate_eq_direct
  · exact List.Nodup.map_on (fun a ha b hb e => hinj a ((hmem a).mp ha) b ((hmem b).mp hb) e) hnd
  · exact fun c hc n hn => (hmem n).mpr (hclosedT c ((hmem c).mp hc) n hn)
  · exact fun c hc n hn => (hmem n).mpr (hclosedS c ((hmem c).mp hc) n hn)
  · exact fun a ha b hb => count_timeNbrs_symm h.ids ((hmem a).mp ha) ((hmem b).mp hb)
  · exact fun a ha b hb => count_spaceNbrs_symm h.ids ((hmem a).mp ha) ((hmem b).mp hb)
  · intro a _ b _
    unfold pairT; rw [timePatch_symm]
  · intro a ha b hb
    have hal := (hmem a).mp ha
    have hbl := hclosedS a hal b hb
    unfold pairS
    rw [spacePatch_symm L a b (hinj a hal b hbl)]
    by_cases hab : a = b
    · exact Or.inr hab
    · left
      intro hfull
      by_cases hov : OvT a b
      · exact not_both_full h hal hbl (fun e => hab e.symm) hov hLpos hfull
      · -- `b` is a neighbour of `a`: they overlap in time
        simp only [spaceNbrs, List.mem_cons, List.mem_append] at hb
        rcases hb with e | hb | hb
        · exact hab e.symm
        · exact hov (mem_nbrs.mp hb).2.2
        · exact hov (mem_nbrs.mp hb).2.2
  · intro c hc n hn
    obtain ⟨p, hp⟩ := timePatch_defined h hb ((hmem c).mp hc) hn
    exact evTime_ok tokT hp
  · intro c hc n hn
    obtain ⟨p, hp⟩ := spacePatch_defined h hg h0 hL ((hmem c).mp hc) hn
    exact evSpace_ok L tokS hp

/-! ## the time patch -/

/-- `sobolev_time` on an element `c` and a neighbour `n` across `t = t0` or `t = t1`: the patch is
(union of the two time intervals) × (intersection of the two space intervals), the intersection has
positive length, the union is an interval, both elements lie on the piece that is handed over. -/
theorem time_patch_spec (m : Mesh) (h : Inv m) (brk : Nat → Rat) (hb : PiecesOK brk m) (c : Cell)
    (hc : c ∈ m.leaves) (n : Cell) (hn : n ∈ nbrs m c .bottom ∨ n ∈ nbrs m c .top) :
    ∃ p, timePatch c n = .ok p ∧
      p.xa < p.xb ∧ (∀ x, (p.xa ≤ x ∧ x ≤ p.xb) ↔ ((c.x0 ≤ x ∧ x ≤ c.x1) ∧ (n.x0 ≤ x ∧ x ≤ n.x1))) ∧
      p.ta < p.tb ∧ (∀ t, (p.ta ≤ t ∧ t ≤ p.tb) ↔ ((c.t0 ≤ t ∧ t ≤ c.t1) ∨ (n.t0 ≤ t ∧ t ≤ n.t1))) ∧
      p.piece = c.piece ∧ p.piece = n.piece := by
  have hnl : n ∈ m.leaves := by rcases hn with hn | hn <;> exact (mem_nbrs.mp hn).1
  obtain ⟨pc1, pc2⟩ := h.tiles.proper c hc
  obtain ⟨pn1, pn2⟩ := h.tiles.proper n hnl
  have hov : OvX c n := by rcases hn with hn | hn <;> exact (mem_nbrs.mp hn).2.2
  have hpc := hb.same hc hnl hov
  have htouch : n.t1 = c.t0 ∨ n.t0 = c.t1 := by
    rcases hn with hn | hn
    · exact Or.inl (mem_nbrs.mp hn).2.1
    · exact Or.inr (mem_nbrs.mp hn).2.1
  refine ⟨_, timePatch_of hov hpc, ovX_lt hov, ?_, ?_, ?_, rfl, hpc⟩
  · intro x
    simp only [max_le_iff, le_min_iff]
    tauto
  · simp only [min_lt_iff, lt_max_iff]
    exact Or.inl (Or.inl pn1)
  · intro t
    simp only [min_le_iff, le_max_iff]
    constructor
    · rintro ⟨h1, h2⟩
      rcases htouch with e | e
      · by_cases ht : t ≤ n.t1
        · right; refine ⟨?_, ht⟩
          rcases h1 with h1 | h1
          · exact h1
          · linarith
        · left; refine ⟨by linarith, ?_⟩
          rcases h2 with h2 | h2
          · exact absurd h2 ht
          · exact h2
      · by_cases ht : t ≤ c.t1
        · left; refine ⟨?_, ht⟩
          rcases h1 with h1 | h1
          · linarith
          · exact h1
        · right; refine ⟨by linarith, ?_⟩
          rcases h2 with h2 | h2
          · exact h2
          · exact absurd h2 ht
    · rintro (⟨h1, h2⟩ | ⟨h1, h2⟩)
      · exact ⟨Or.inr h1, Or.inr h2⟩
      · exact ⟨Or.inl h1, Or.inl h2⟩

/-! ## the space patch -/

/-- the parameter set `(piece, x̂)` over which the called seminorm routine integrates (as a set:
`a ≤ x̂ ≤ b`) -/
def H12Call.covers : H12Call → Nat → Rat → Prop
  | .single a b pc, q, x => q = pc ∧ a ≤ x ∧ x ≤ b
  | .same a b pc, q, x => q = pc ∧ a ≤ x ∧ x ≤ b
  | .pw a1 b1 p1 a2 b2 p2, q, x => (q = p1 ∧ a1 ≤ x ∧ x ≤ b1) ∨ (q = p2 ∧ a2 ≤ x ∧ x ≤ b2)

/-- every interval handed to a seminorm routine runs forward (`h = b - a > 0`) -/
def H12Call.oriented : H12Call → Prop
  | .single a b _ => a < b
  | .same a b _ => a < b
  | .pw a1 b1 _ a2 b2 _ => a1 < b1 ∧ a2 < b2

/-- the parameters of an element -/
def covers (c : Cell) (q : Nat) (x : Rat) : Prop := q = c.piece ∧ c.x0 ≤ x ∧ x ≤ c.x1

/-- adjacent through the closing seam and on the same parametrisation piece -/
def SeamSamePiece (L : Rat) (l r : Cell) : Prop := l.piece = r.piece ∧ l.x1 = L ∧ r.x0 = 0

/-- `sobolev_space` on an element `c` and a neighbour `n ≠ c` across `x = x1` or `x = x0` (seam included):
no assertion fires; the common time interval (non-empty) is handed over; `right` is the neighbour of `left`
across `x = left.x1` (directly or through the seam); `__integrate_h_1_2` passes its assertion; and — unless
the two elements are adjacent through the seam on the same piece — the seminorm routine integrates forward
over exactly the union of the two space intervals. -/
theorem space_patch_spec_partial (m : Mesh) (h : Inv m) (hg : m.glue = true) (L : Rat) (h0 : m.xmin = 0)
    (hL : m.xmax = L) (c : Cell) (hc : c ∈ m.leaves) (n : Cell) (hne : n ≠ c)
    (hn : n ∈ nbrs m c .right ∨ n ∈ nbrs m c .left) :
    ∃ l r call, spacePatch L c n = .ok ⟨max n.t0 c.t0, min n.t1 c.t1, l, some r⟩ ∧
      ((l = c ∧ r = n) ∨ (l = n ∧ r = c)) ∧
      max n.t0 c.t0 < min n.t1 c.t1 ∧
      (∀ t, (max n.t0 c.t0 ≤ t ∧ t ≤ min n.t1 c.t1) ↔ ((c.t0 ≤ t ∧ t ≤ c.t1) ∧ (n.t0 ≤ t ∧ t ≤ n.t1))) ∧
      (r.x0 = l.x1 ∨ (l.x1 = L ∧ r.x0 = 0)) ∧
      h12Call (closesCurve L) ⟨max n.t0 c.t0, min n.t1 c.t1, l, some r⟩ = .ok call ∧
      (¬ SeamSamePiece L l r → call.oriented ∧ ∀ q x, call.covers q x ↔ (covers l q x ∨ covers r q x)) := by
  have hnl : n ∈ m.leaves := by rcases hn with hn | hn <;> exact (mem_nbrs.mp hn).1
  have hadj : Adj m c .right n ∨ Adj m c .left n := by
    rcases hn with hn | hn
    · exact Or.inl (mem_nbrs.mp hn).2
    · exact Or.inr (mem_nbrs.mp hn).2
  have hov : OvT c n := by rcases hadj with a | a <;> exact a.2
  obtain ⟨l, r, hp, hlr, hadjlr⟩ := spacePatch_nbr h hg h0 hL hc hnl hne hadj
  have hll : l ∈ m.leaves := by rcases hlr with ⟨e, _⟩ | ⟨e, _⟩ <;> rw [e] <;> assumption
  have hrl : r ∈ m.leaves := by rcases hlr with ⟨_, e⟩ | ⟨_, e⟩ <;> rw [e] <;> assumption
  obtain ⟨pl1, pl2⟩ := h.tiles.proper l hll
  obtain ⟨pr1, pr2⟩ := h.tiles.proper r hrl
  have htouch : r.x0 = l.x1 ∨ (l.x1 = L ∧ r.x0 = 0) := by
    rcases hadjlr.1 with e | ⟨_, e1, e2⟩
    · exact Or.inl e
    · exact Or.inr ⟨by rw [e1, hL], by rw [e2, h0]⟩
  have hclose : closesCurve L l.x1 r.x0 = true := by
    unfold closesCurve
    rcases htouch with e | ⟨e1, e2⟩
    · simp [e]
    · simp [e1, e2]
  have htime : ∀ t, (max n.t0 c.t0 ≤ t ∧ t ≤ min n.t1 c.t1) ↔ ((c.t0 ≤ t ∧ t ≤ c.t1) ∧ (n.t0 ≤ t ∧ t ≤ n.t1)) := by
    intro t
    simp only [max_le_iff, le_min_iff]
    tauto
  by_cases hpc : l.piece = r.piece
  · refine ⟨l, r, .same l.x0 r.x1 l.piece, hp, hlr, ovT_lt hov, htime, htouch, ?_, ?_⟩
    · unfold h12Call
      simp only [hpc, if_true, hclose]
    · intro hns
      rcases htouch with e | ⟨e1, e2⟩
      · refine ⟨by show l.x0 < r.x1; linarith, ?_⟩
        intro q x
        simp only [H12Call.covers, covers, ← hpc]
        constructor
        · rintro ⟨hq, h1, h2⟩
          by_cases hx : x ≤ l.x1
          · exact Or.inl ⟨hq, h1, hx⟩
          · exact Or.inr ⟨hq, by linarith, h2⟩
        · rintro (⟨hq, h1, h2⟩ | ⟨hq, h1, h2⟩)
          · exact ⟨hq, h1, by linarith⟩
          · exact ⟨hq, by linarith, h2⟩
      · exact absurd ⟨hpc, e1, e2⟩ hns
  · refine ⟨l, r, .pw l.x0 l.x1 l.piece r.x0 r.x1 r.piece, hp, hlr, ovT_lt hov, htime, htouch, ?_, ?_⟩
    · unfold h12Call
      simp only [hpc, if_false, hclose, if_true]
    · intro _
      exact ⟨⟨pl2, pr2⟩, fun q x => Iff.rfl⟩

/-- **The excluded case, in general.**  If the two elements of the patch are adjacent through the seam
and lie on the same piece (one-piece closed curve), `seminorm_h_1_2` receives the interval
`[left.x0, right.x1]` whose end does not exceed its start: it is not forward oriented, the rule points
`a + (b - a) ξ`, `ξ ∈ [0, 1]`, sweep `[right.x1, left.x0]`, and no point strictly inside that range belongs
to either element — the complementary arc. -/
theorem space_patch_seam_same_piece_general (m : Mesh) (h : Inv m) (L : Rat) (h0 : m.xmin = 0)
    (hL : m.xmax = L) (l r : Cell) (hl : l ∈ m.leaves) (hr : r ∈ m.leaves) (hne : l ≠ r) (hov : OvT l r)
    (hs : SeamSamePiece L l r) (ta tb : Rat) :
    h12Call (closesCurve L) ⟨ta, tb, l, some r⟩ = .ok (.same l.x0 r.x1 l.piece) ∧
    r.x1 ≤ l.x0 ∧ ¬ (H12Call.same l.x0 r.x1 l.piece).oriented ∧
    (∀ ξ : Rat, 0 ≤ ξ → ξ ≤ 1 → r.x1 ≤ l.x0 + (r.x1 - l.x0) * ξ ∧ l.x0 + (r.x1 - l.x0) * ξ ≤ l.x0) ∧
    (∀ q x, r.x1 < x → x < l.x0 → ¬ covers l q x ∧ ¬ covers r q x) := by
  obtain ⟨hpc, e1, e2⟩ := hs
  obtain ⟨pl1, pl2⟩ := h.tiles.proper l hl
  obtain ⟨pr1, pr2⟩ := h.tiles.proper r hr
  have hLpos : 0 < L := by rw [← hL, ← h0]; exact h.dom.2
  have hle : r.x1 ≤ l.x0 := by
    by_contra hlt
    have hlt : l.x0 < r.x1 := lt_of_not_ge hlt
    have hox : OvX l r := ⟨pl2, hlt, by rw [e1, e2]; exact hLpos, pr2⟩
    obtain ⟨t, t1, t2, t3, t4⟩ := hov.point
    obtain ⟨x, x1, x2, x3, x4⟩ := hox.point
    exact hne (h.tiles.disjoint l hl r hr t x ⟨t1, t2, x1, x2⟩ ⟨t3, t4, x3, x4⟩)
  refine ⟨?_, hle, ?_, ?_, ?_⟩
  · unfold h12Call closesCurve
    simp [hpc, e1, e2]
  · exact not_lt.mpr hle
  · intro ξ hξ0 hξ1
    constructor <;> nlinarith
  · intro q x hx1 hx2
    constructor
    · rintro ⟨_, h1, _⟩; linarith
    · rintro ⟨_, _, h2⟩; linarith

/-- **C09, the space patch: full specification, every pair.**  `sobolev_space` on an element `c` and a neighbour
`n ≠ c` across `x = x1` or `x = x0` (seam included): no assertion fires; the common time interval (non-empty) is handed
over; `right` is the neighbour of `left` across `x = left.x1` (directly or through the seam); `__integrate_h_1_2` passes
its assertion and makes ONE seminorm call per outer Gauss point, and for that call EXACTLY ONE of the following holds:

* (definition) the pair is not a same-piece seam pair, the call runs forward and integrates over exactly the union of
  the two space intervals — this is the indicator of the definition;
* (what the code does otherwise, finding F5) the pair is adjacent through the seam on one parametrisation piece, the call
  is `seminorm_h_1_2(f, left.x0, right.x1, γ)` with `right.x1 ≤ left.x0` (equality only if the two elements are alone in
  their slab): not forward oriented, its rule points `a + (b - a) ξ` sweep `[right.x1, left.x0]`, and no point strictly
  inside that range belongs to either element — the complementary arc, run backwards.

Nothing is excluded: every neighbouring pair of every mesh with the invariant falls into one of the two cases. -/
theorem space_patch_spec_full (m : Mesh) (h : Inv m) (hg : m.glue = true) (L : Rat) (h0 : m.xmin = 0)
    (hL : m.xmax = L) (c : Cell) (hc : c ∈ m.leaves) (n : Cell) (hne : n ≠ c)
    (hn : n ∈ nbrs m c .right ∨ n ∈ nbrs m c .left) :
    ∃ l r call, spacePatch L c n = .ok ⟨max n.t0 c.t0, min n.t1 c.t1, l, some r⟩ ∧
      ((l = c ∧ r = n) ∨ (l = n ∧ r = c)) ∧
      max n.t0 c.t0 < min n.t1 c.t1 ∧
      (∀ t, (max n.t0 c.t0 ≤ t ∧ t ≤ min n.t1 c.t1) ↔ ((c.t0 ≤ t ∧ t ≤ c.t1) ∧ (n.t0 ≤ t ∧ t ≤ n.t1))) ∧
      (r.x0 = l.x1 ∨ (l.x1 = L ∧ r.x0 = 0)) ∧
      h12Call (closesCurve L) ⟨max n.t0 c.t0, min n.t1 c.t1, l, some r⟩ = .ok call ∧
      ((¬ SeamSamePiece L l r ∧ call.oriented ∧ ∀ q x, call.covers q x ↔ (covers l q x ∨ covers r q x)) ∨
       (SeamSamePiece L l r ∧ call = .same l.x0 r.x1 l.piece ∧ r.x1 ≤ l.x0 ∧ ¬ call.oriented ∧
        (∀ ξ : Rat, 0 ≤ ξ → ξ ≤ 1 → r.x1 ≤ l.x0 + (r.x1 - l.x0) * ξ ∧ l.x0 + (r.x1 - l.x0) * ξ ≤ l.x0) ∧
        (∀ q x, r.x1 < x → x < l.x0 → ¬ covers l q x ∧ ¬ covers r q x))) := by
  obtain ⟨l, r, call, hp, hlr, ht, htime, htouch, hcall, hspec⟩ :=
    space_patch_spec_partial m h hg L h0 hL c hc n hne hn
  refine ⟨l, r, call, hp, hlr, ht, htime, htouch, hcall, ?_⟩
  by_cases hs : SeamSamePiece L l r
  · right
    have hnl : n ∈ m.leaves := by rcases hn with hn | hn <;> exact (mem_nbrs.mp hn).1
    have hov : OvT c n := by rcases hn with hn | hn <;> exact (mem_nbrs.mp hn).2.2
    have hll : l ∈ m.leaves := by rcases hlr with ⟨e, _⟩ | ⟨e, _⟩ <;> rw [e] <;> assumption
    have hrl : r ∈ m.leaves := by rcases hlr with ⟨_, e⟩ | ⟨_, e⟩ <;> rw [e] <;> assumption
    have hlrne : l ≠ r := by
      rcases hlr with ⟨e1, e2⟩ | ⟨e1, e2⟩
      · rw [e1, e2]; exact fun e => hne e.symm
      · rw [e1, e2]; exact hne
    have hovlr : OvT l r := by
      rcases hlr with ⟨e1, e2⟩ | ⟨e1, e2⟩
      · rw [e1, e2]; exact hov
      · rw [e1, e2]; exact hov.symm
    obtain ⟨g1, g2, g3, g4, g5⟩ := space_patch_seam_same_piece_general m h L h0 hL l r hll hrl hlrne hovlr hs
      (max n.t0 c.t0) (min n.t1 c.t1)
    rw [hcall] at g1
    have hce : call = .same l.x0 r.x1 l.piece := by injection g1
    exact ⟨hs, hce, g2, by rw [hce]; exact g3, g4, g5⟩
  · left
    exact ⟨hs, hspec hs⟩

/-- **Negation witness** (the known finding): the closed one-piece mesh with four elements
`[0,1], [1,2], [2,3], [3,4]` (`L = 4`, like the mesh `MeshParametrized(Circle())` builds).  For the element
`[0,1]` and its neighbour `[3,4]` through the seam the model — as the code — assigns `left = [3,4]`,
`right = [0,1]`, takes the same-piece branch and integrates over `[3, 1]`: `lo = 3 > hi = 1`, neither
forward oriented nor covering any point of the two elements' interiors. -/
theorem space_patch_seam_same_piece :
    let m := init true [0, 1, 2, 3, 4] [0, 1]
    let c : Cell := ⟨0, 1, 0, 1, 0, 0, 0, none, 0⟩
    let n : Cell := ⟨0, 1, 3, 4, 0, 0, 3, none, 0⟩
    c ∈ m.leaves ∧ n ∈ nbrs m c .left ∧
    spacePatch 4 c n = .ok ⟨0, 1, n, some c⟩ ∧
    h12Call (closesCurve 4) ⟨0, 1, n, some c⟩ = .ok (.same 3 1 0) ∧
    ¬ (H12Call.same 3 1 0).oriented ∧
    ¬ (∀ q x, (H12Call.same 3 1 0).covers q x ↔ (covers n q x ∨ covers c q x)) := by
  refine ⟨by decide +kernel, by decide +kernel, by decide +kernel, by decide +kernel, ?_, ?_⟩
  · simp only [H12Call.oriented]; norm_num
  · intro hall
    have := (hall 0 (1 / 2)).mpr (Or.inr ⟨rfl, by norm_num, by norm_num⟩)
    simp only [H12Call.covers] at this
    linarith [this.2.1]

/-! ## weighted L2 -/

/-- the tensor rule mapped to the element, applied to `residual²`: the value of `‖r‖²_{L²(E)}` that the
code works with (`h_t h_x · res_l2`) -/
def elemQuad (pts : List (Rat × Rat)) (wts : List Rat) (r : Rat → Rat → Nat → Rat) (c : Cell) : Rat :=
  (c.t1 - c.t0) * (c.x1 - c.x0) *
    dot (pts.map fun p => (r (c.t0 + (c.t1 - c.t0) * p.1) (c.x0 + (c.x1 - c.x0) * p.2) c.piece) ^ 2) wts

/-- `weighted_l2` returns `(‖r‖² / √h_t, ‖r‖² / h_x)` where `s` is the value used for `sqrt(h_t)` -/
theorem weighted_l2_scaling (pts : List (Rat × Rat)) (wts : List Rat) (r : Rat → Rat → Nat → Rat) (s : Rat)
    (c : Cell) (hx : c.x0 < c.x1) (hs : s * s = c.t1 - c.t0) (hs0 : s ≠ 0) :
    (weightedL2 pts wts r s c).1 = elemQuad pts wts r c / s ∧
    (weightedL2 pts wts r s c).2 = elemQuad pts wts r c / (c.x1 - c.x0) := by
  have hxne : c.x1 - c.x0 ≠ 0 := by intro e; linarith
  unfold weightedL2 elemQuad
  simp only
  constructor
  · rw [← hs]; field_simp
  · field_simp

/-- over the reals with the true square root: `√h_t · h_x · m = h_t^{-1/2} · (h_t h_x m)` and
`h_t · m = h_x^{-1} · (h_t h_x m)` -/
theorem weighted_l2_scaling_real (ht hx mm : ℝ) (h1 : 0 < ht) (h2 : 0 < hx) :
    Real.sqrt ht * hx * mm = ht ^ (-(1 / 2 : ℝ)) * (ht * hx * mm) ∧ ht * mm = hx⁻¹ * (ht * hx * mm) := by
  constructor
  · rw [Real.rpow_neg (le_of_lt h1), ← Real.sqrt_eq_rpow]
    have hs : Real.sqrt ht ≠ 0 := (Real.sqrt_pos.mpr h1).ne'
    have hm : Real.sqrt ht ^ 2 = ht := Real.sq_sqrt (le_of_lt h1)
    field_simp
    rw [hm]; ring
  · field_simp

/-! ## pool path -/

/-- the process-pool path of `estimate_sobolev` returns what the serial path returns, for every worker
count `cpu` (which only enters the chunk size `N // (8 cpu) + 1 ≥ 1`), provided `Pool.map` returns the
results in the order of its arguments -/
theorem pool_eq_serial
    (pmap : (Nat → Except String (Rat × List (Nat × Rat))) → Nat → Nat →
      List (Except String (Rat × List (Nat × Rat))))
    (hpmap : ∀ f N chunk, 1 ≤ chunk → pmap f N chunk = (List.range N).map f)
    (cpu : Nat) (m : Mesh) (evT evS : Cell → Cell → Except String Rat) (elems : List Cell) :
    estimateSobolevPool pmap cpu m evT evS elems = estimateSobolev m evT evS elems :=
  pool_eq_serial_generic pmap hpmap cpu m evT evS elems

/-! ## non-vacuity -/

/-- the 3 × 2 glued tensor mesh on `[0,3] × [0,2]`, every element on piece 0 (a one-piece closed curve) -/
def exTensor : Mesh := init true [0, 1, 2, 3] [0, 1, 2]

theorem exTensor_inv : Inv exTensor :=
  init_inv true _ _ (by norm_num [StrictInc]) (by norm_num [StrictInc]) (by simp) (by simp)

theorem exTensor_pieces : PiecesOK (fun i => 3 * (i : Rat)) exTensor := by
  refine ⟨fun i => by push_cast; linarith, ?_⟩
  have : ∀ c ∈ exTensor.leaves, c.piece = 0 ∧ 0 ≤ c.x0 ∧ c.x1 ≤ 3 := by decide +kernel
  intro c hc
  obtain ⟨h1, h2, h3⟩ := this c hc
  rw [h1]; norm_num; exact ⟨h2, h3⟩

/-- hypotheses of `accumulate_eq_direct_mesh` hold for the tensor mesh (six elements; every element has
two neighbours in space — one of them through the seam for the outer columns — and one in time) -/
example (tokT : TimePatch → Rat) (tokS : SpacePatch → Rat) :
    estimateSobolev exTensor (evTime fun p => .ok (tokT p)) (evSpace 3 fun p => .ok (tokS p)) exTensor.leaves =
      directSobolev exTensor (evTime fun p => .ok (tokT p)) (evSpace 3 fun p => .ok (tokS p)) exTensor.leaves ∧
    exTensor.leaves.length = 6 :=
  ⟨(accumulate_eq_direct_mesh exTensor exTensor_inv rfl 3 rfl rfl _ exTensor_pieces tokT tokS exTensor.leaves
      exTensor_inv.ids.leaves_nodup (fun _ => Iff.rfl)).1, rfl⟩

/-- … and for the locally refined mesh of C10 (hanging nodes on the seam and in the interior) -/
theorem exMesh_pieces : (match exMesh with
    | .ok m => m.leaves.all fun c => c.piece == 0
    | .error _ => false) = true := by decide +kernel

example : ∃ m, exMesh = .ok m ∧ m.leaves.length = 6 ∧ ∀ (tokT : TimePatch → Rat) (tokS : SpacePatch → Rat),
    estimateSobolev m (evTime fun p => .ok (tokT p)) (evSpace 2 fun p => .ok (tokS p)) m.leaves =
      directSobolev m (evTime fun p => .ok (tokT p)) (evSpace 2 fun p => .ok (tokS p)) m.leaves := by
  obtain ⟨m, hm, hi, -, -, hbox, hg, hids⟩ := exMesh_spec
  have hp := exMesh_pieces
  rw [hm] at hp
  simp only [List.all_eq_true, beq_iff_eq] at hp
  have h0 : m.xmin = 0 := by rw [hbox.1]; rfl
  have hL : m.xmax = 2 := by rw [hbox.2.1]; rfl
  have hb : PiecesOK (fun i => 2 * (i : Rat)) m := by
    refine ⟨fun i => by push_cast; linarith, ?_⟩
    intro c hc
    obtain ⟨_, _, i3, i4⟩ := hi.tiles.inside c hc
    rw [hp c hc]; norm_num
    exact ⟨by linarith, by linarith⟩
  refine ⟨m, hm, ?_, fun tokT tokS => ?_⟩
  · have := congrArg List.length hids
    simpa using this
  · exact (accumulate_eq_direct_mesh m hi hg 2 h0 hL _ hb tokT tokS m.leaves hi.ids.leaves_nodup
      (fun _ => Iff.rfl)).1

/-- the generic `accumulate_eq_direct` on concrete numbers: tokens that depend on all arguments -/
example : estimateSobolev exTensor (evTime fun p => .ok (p.tb - p.ta + 10 * p.xa))
      (evSpace 3 fun p => .ok (p.left.id + 7 * (match p.right with | some r => r.id + 1 | none => 0) + p.tb))
      exTensor.leaves =
    .ok [(3, 26), (23, 40), (43, 36), (3, 80), (23, 94), (43, 90)] := by decide +kernel

/-- `time_patch_spec`: element `0 = [0,1] × [0,1]` and its neighbour `3 = [1,2] × [0,1]` across `t = t1` -/
example : ∃ c ∈ exTensor.leaves, ∃ n ∈ nbrs exTensor c .top, ∃ p, timePatch c n = .ok p ∧
    (p.ta, p.tb, p.xa, p.xb) = (0, 2, 0, 1) := by
  refine ⟨⟨0, 1, 0, 1, 0, 0, 0, none, 0⟩, by decide +kernel, ⟨1, 2, 0, 1, 0, 0, 3, none, 0⟩, by decide +kernel, ?_⟩
  obtain ⟨p, hp, -⟩ := time_patch_spec exTensor exTensor_inv _ exTensor_pieces ⟨0, 1, 0, 1, 0, 0, 0, none, 0⟩
    (by decide +kernel) ⟨1, 2, 0, 1, 0, 0, 3, none, 0⟩ (Or.inr (by decide +kernel))
  refine ⟨p, hp, ?_⟩
  have : timePatch ⟨0, 1, 0, 1, 0, 0, 0, none, 0⟩ ⟨1, 2, 0, 1, 0, 0, 3, none, 0⟩ = .ok ⟨0, 2, 0, 1, 0⟩ := by
    decide +kernel
  rw [this] at hp
  cases hp
  rfl

/-- `space_patch_spec_full`, both cases occur on the tensor mesh: the pair (`0 = [0,1]`, `1 = [1,2]`) falls into the
first case, the pair (`0`, `2 = [2,3]`, through the seam) into the second with the call over `[2, 1]` -/
example : ∃ c ∈ exTensor.leaves, ∃ n ∈ nbrs exTensor c .right, ∃ n' ∈ nbrs exTensor c .left, n ≠ c ∧ n' ≠ c ∧
    h12Call (closesCurve 3) ⟨0, 1, c, some n⟩ = .ok (.same 0 2 0) ∧
    h12Call (closesCurve 3) ⟨0, 1, n', some c⟩ = .ok (.same 2 1 0) := by
  refine ⟨⟨0, 1, 0, 1, 0, 0, 0, none, 0⟩, by decide +kernel, ⟨0, 1, 1, 2, 0, 0, 1, none, 0⟩, by decide +kernel,
    ⟨0, 1, 2, 3, 0, 0, 2, none, 0⟩, by decide +kernel, by decide, by decide, by decide +kernel, by decide +kernel⟩

/-- `space_patch_spec_partial`: an interior pair (`0 = [0,1]`, `1 = [1,2]`) of the tensor mesh satisfies the
hypotheses and is not a same-piece seam pair; the seam pair (`0`, `2 = [2,3]`) satisfies the hypotheses and
is one (the conclusion about the domain is then void — `space_patch_seam_same_piece_general` applies) -/
example : ∃ c ∈ exTensor.leaves, ∃ n ∈ nbrs exTensor c .right, n ≠ c ∧ ¬ SeamSamePiece 3 c n ∧
    ∃ n' ∈ nbrs exTensor c .left, n' ≠ c ∧ SeamSamePiece 3 n' c ∧ OvT n' c := by
  refine ⟨⟨0, 1, 0, 1, 0, 0, 0, none, 0⟩, by decide +kernel, ⟨0, 1, 1, 2, 0, 0, 1, none, 0⟩, by decide +kernel,
    by decide, ?_, ⟨0, 1, 2, 3, 0, 0, 2, none, 0⟩, by decide +kernel, by decide, ?_, ?_⟩
  · rintro ⟨_, h, _⟩; norm_num at h
  · exact ⟨rfl, rfl, rfl⟩
  · refine ⟨?_, ?_, ?_, ?_⟩ <;> norm_num

/-- the two-piece branch of `__integrate_h_1_2` (pieces 0 and 1 meeting at `x̂ = 1`) and the seam between the
last and the first piece of a four-piece curve -/
example : h12Call (closesCurve 4) ⟨0, 1, ⟨0, 1, 0, 1, 0, 0, 0, none, 0⟩, some ⟨0, 1, 1, 2, 0, 0, 1, none, 1⟩⟩ =
      .ok (.pw 0 1 0 1 2 1) ∧
    (spacePatch 4 ⟨0, 1, 0, 1, 0, 0, 0, none, 0⟩ ⟨0, 1, 3, 4, 0, 0, 3, none, 3⟩).toOption.bind
      (fun p => (h12Call (closesCurve 4) p).toOption) = some (.pw 3 4 3 0 1 0) := by
  constructor <;> decide +kernel

/-- `weighted_l2_scaling`: `h_t = 1/4`, `√h_t = 1/2` -/
example : (weightedL2 [(1/2, 1/2)] [1] (fun t x _ => t + x) (1/2) ⟨0, 1/4, 0, 1, 0, 0, 0, none, 0⟩).1 =
    elemQuad [(1/2, 1/2)] [1] (fun t x _ => t + x) ⟨0, 1/4, 0, 1, 0, 0, 0, none, 0⟩ / (1/2) :=
  (weighted_l2_scaling _ _ _ _ _ (by norm_num) (by norm_num) (by norm_num)).1

/-- `pool_eq_serial`: the order-preserving `map` exists -/
example (cpu : Nat) (m : Mesh) (evT evS : Cell → Cell → Except String Rat) (elems : List Cell) :
    estimateSobolevPool (fun f N _ => (List.range N).map f) cpu m evT evS elems =
      estimateSobolev m evT evS elems :=
  pool_eq_serial _ (fun _ _ _ _ => rfl) cpu m evT evS elems

end Stbem.Estimator
