import Stbem.Lemmas.AssemblyExamples

/-!
# C17 — assembly paths, worker schedules and the disk cache are transparent

Model: `Stbem.Model.Assembly` (`bilform_matrix`, `MP_SL_matrix_col`, `linform_vector`, `MP_M0_val`, the
cache lines), abstract over the leaves `bil trial test` / `lin elem` with values in any type with a zero.

* `paths_agree`, `bilform_matrix_pure`, `vector_paths_agree`: the inline path, the serial loop and the pool
  (for EVERY schedule: number of workers, chunk size, assignment of chunks to workers, completion order)
  return the matrix of pair-wise evaluations, rows = test, columns = trial (`pureMat_entry`), provided the
  leaf is 0 on the pairs the worker skips; neither the threshold nor the schedule occurs in the result;
* `cache_transparent`, `vector_cache_transparent`: for every history of calls, crashes, truncations,
  removals and garbage files against one directory every call returns the pure value — under the *key
  discipline* (the leaf is determined by what enters the file name) which is an invariant of the
  directory maintained by every event (`Inv`); `cache_repairs`: the damaged file is rewritten;
* `key_injective`, `vector_key_injective`: the file name is injective on (curve name, test list, trial
  list) for a collision-free hash and a prefix-free element rendering; `repr_injective_not_enough`;
* `key_not_injective_on_config`, `cache_not_transparent_across_configs`: the file name ignores the operator
  configuration (`pw_exact`, `quad_order`): two configurations, one name, different matrices; the second
  operator is handed the first one's matrix (finding F7).
-/
namespace Stbem.Assembly

variable {E V C Hh : Type} [Zero V] [DecidableEq Hh]

/-! ## 1. the three paths -/

omit [Zero V] [DecidableEq Hh] in
/-- rows = test, columns = trial -/
theorem pureMat_entry (L : Leaf E V) (tests trials : List E) (i j : Nat) (hi : i < tests.length)
    (hj : j < trials.length) :
    ((pureMat L tests trials)[i]'(by simpa [pureMat] using hi))[j]'(by simpa [pureMat] using hj)
      = L.bil trials[j] tests[i] := by
  simp [pureMat]

theorem paths_agree (L : Leaf E V) (hc : L.Causal) (tests trials : List E) :
    inlinePath L tests trials = pureMat L tests trials ∧
    serialPath L tests trials = pureMat L tests trials ∧
    ∀ s : Schedule, s.Valid trials.length →
      poolPath (forkView ⟨L, tests, trials⟩) tests.length trials.length s
        = .ok (pureMat L tests trials) :=
  ⟨loopFill_eq L tests trials, loopFill_eq L tests trials,
    fun s hs => poolPath_eq L hc tests trials _ (fun _ => rfl) s hs.1 hs.2.1 hs.2.2⟩

/-- `bilform_matrix` (no cache directory): whatever `use_mp`, the size relative to the threshold and the
schedule are, the result is the pure matrix -/
theorem bilform_matrix_pure (L : Leaf E V) (hc : L.Causal) (tests trials : List E) (h : How)
    (hh : h.Ok trials.length) :
    computeMatrix L tests trials h = .ok (pureMat L tests trials) := by
  obtain ⟨h1, h2, h3⟩ := paths_agree L hc tests trials
  unfold computeMatrix
  split
  · rw [h1]
  · cases hm : h.useMp with
    | false => simp [h2]
    | true => simpa using h3 h.sched (hh hm)

/-- the schedules the code can produce: `cpu ≥ 1` workers, chunk size `n // (factor * cpu) + 1`, any
assignment, any completion order that is a permutation of the chunks -/
theorem code_schedule_valid (factor cpu n : Nat) (hcpu : cpu ≠ 0) (assign : Nat → Nat)
    (order : List Nat) (hp : order.Perm (List.range (numChunks (codeChunk factor cpu n) n))) :
    (Schedule.mk cpu (codeChunk factor cpu n) assign order).Valid n :=
  ⟨hcpu, codeChunk_pos factor cpu n, complete_of_perm _ n hp⟩

theorem vector_paths_agree (lin : E → V) (elems : List E) :
    serialVec lin elems = elems.map lin ∧
    (∀ s : Schedule, s.Valid elems.length →
      poolVec (fun _ => (lin, elems)) elems.length s = .ok (elems.map lin)) ∧
    ∀ h : How, h.Ok elems.length → computeVector lin elems h = .ok (elems.map lin) := by
  have h2 : ∀ s : Schedule, s.Valid elems.length →
      poolVec (fun _ => (lin, elems)) elems.length s = .ok (elems.map lin) :=
    fun s hs => poolVec_eq lin elems _ (fun _ => rfl) s hs.1 hs.2.1 hs.2.2
  refine ⟨serialVec_eq lin elems, h2, ?_⟩
  intro h hh
  unfold computeVector
  cases hm : h.useMp with
  | false => simp [serialVec_eq]
  | true => simpa using h2 h.sched (hh hm)

/-! ## 2. the cache -/

/-- **cache transparency** (`bilform_matrix`): start from any directory in which every complete file
was written by a call with the inputs of its name (`Inv`; the empty directory is one); then for every
history — calls on any path and schedule, with any outcome of the save, crashes, truncations, removals,
garbage — every call returns the pure matrix of *its own* inputs, and the directory satisfies `Inv`
again.  Hypotheses: collision-free hash, prefix-free `repr`, curve names without `[`, leaves 0 on
acausal pairs, and the key discipline: operators with the same curve name have the same leaf. -/
theorem cache_transparent (F : Family C E V) (hash : List Char → Hh) (repr : E → List Char)
    (hhash : ∀ a b, hash a = hash b → a = b) (hrepr : GoodRepr repr)
    (hcurve : ∀ c, '[' ∉ F.curve c) (hcausal : ∀ c, (F.leaf c).Causal)
    (hdisc : ∀ c c', F.curve c = F.curve c' → F.leaf c = F.leaf c')
    (d0 : Dir (List Char × Nat × Nat × Hh) (Mat V)) (h0 : Inv (slSpec F hash repr) (slPure F) d0)
    (evs : List (Event (List Char × Nat × Nat × Hh) (C × List E × List E) How))
    (hs : HistoryOk (fun i => i.2.2.length) evs) :
    (run (slSpec F hash repr) d0 evs).2 = expected (slPure F) evs ∧
      Inv (slSpec F hash repr) (slPure F) (run (slSpec F hash repr) d0 evs).1 := by
  apply run_transparent _ _ (sl_key_discipline F hash repr hhash hrepr hcurve hdisc) evs d0 h0
  intro e he
  have := hs e he
  cases e with
  | call inp how sv => exact bilform_matrix_pure _ (hcausal _) _ _ how this
  | crash inp how sv => exact bilform_matrix_pure _ (hcausal _) _ _ how this
  | truncate k => trivial
  | remove k => trivial
  | garble k => trivial

/-- the same for `linform_vector`; key discipline: configurations with the same `problem` and curve name
have the same `linform` -/
theorem vector_cache_transparent (F : VecFamily C E V) (hash : List Char → Hh) (repr : E → List Char)
    (hhash : ∀ a b, hash a = hash b → a = b) (hrepr : GoodRepr repr)
    (hcurve : ∀ c, '[' ∉ F.curve c)
    (hdisc : ∀ c c', F.problem c = F.problem c' → F.curve c = F.curve c' → F.lin c = F.lin c')
    (d0 : Dir (List Char × Nat × Hh) (List V))
    (h0 : Inv (vecSpec F hash repr) (fun i => i.2.map (F.lin i.1)) d0)
    (evs : List (Event (List Char × Nat × Hh) (C × List E) How))
    (hs : HistoryOk (fun i => i.2.length) evs) :
    (run (vecSpec F hash repr) d0 evs).2 = expected (fun i => i.2.map (F.lin i.1)) evs ∧
      Inv (vecSpec F hash repr) (fun i => i.2.map (F.lin i.1)) (run (vecSpec F hash repr) d0 evs).1 := by
  apply run_transparent _ _ _ evs d0 h0
  · intro e he
    have := hs e he
    cases e with
    | call inp how sv => exact (vector_paths_agree _ _).2.2 how this
    | crash inp how sv => exact (vector_paths_agree _ _).2.2 how this
    | truncate k => trivial
    | remove k => trivial
    | garble k => trivial
  · intro i i' _ _ hk
    simp only [vecSpec, vecKey, Prod.mk.injEq] at hk
    obtain ⟨hc, hes⟩ := vecKeyText_inj hrepr _ _ (hcurve i.1) (hcurve i'.1) _ _ (hhash _ _ hk.2.2)
    simp only
    rw [hdisc _ _ hk.1 hc, hes]

/-- a missing, truncated or garbage file is ignored, the value is recomputed, and a successful save puts
a complete file with that value under the name -/
theorem cache_repairs (F : Family C E V) (hash : List Char → Hh) (repr : E → List Char)
    (hcausal : ∀ c, (F.leaf c).Causal) (d : Dir (List Char × Nat × Nat × Hh) (Mat V))
    (inp : C × List E × List E) (how : How) (hh : how.Ok inp.2.2.length)
    (hbig : ¬ inp.2.1.length * inp.2.2.length < 100)
    (hd : ∀ o, d ((slSpec F hash repr).key inp) ≠ .valid o) :
    (callStep (slSpec F hash repr) d inp how .written).2 = .ok (slPure F inp) ∧
      (callStep (slSpec F hash repr) d inp how .written).1 ((slSpec F hash repr).key inp)
        = .valid (slPure F inp) :=
  callStep_repairs _ d inp how _ (by simp [slSpec, hbig]) hd
    (bilform_matrix_pure _ (hcausal _) _ _ how hh)

/-- below the threshold the directory is neither read nor written -/
theorem small_call_ignores_cache (F : Family C E V) (hash : List Char → Hh) (repr : E → List Char)
    (d : Dir (List Char × Nat × Nat × Hh) (Mat V)) (inp : C × List E × List E) (how : How)
    (sv : SaveOutcome) (hsmall : inp.2.1.length * inp.2.2.length < 100) :
    callStep (slSpec F hash repr) d inp how sv = (d, .ok (inlinePath (F.leaf inp.1) inp.2.1 inp.2.2)) := by
  simp [callStep, slSpec, hsmall, computeMatrix]

/-! ## 3. the file name -/

omit [DecidableEq Hh] in
theorem key_injective (hash : List Char → Hh) (repr : E → List Char)
    (hhash : ∀ a b, hash a = hash b → a = b) (hrepr : GoodRepr repr)
    (c c' : List Char) (hc : '[' ∉ c) (hc' : '[' ∉ c') (ts ts' tr tr' : List E)
    (hk : slKey hash repr c ts tr = slKey hash repr c' ts' tr') : c = c' ∧ ts = ts' ∧ tr = tr' := by
  simp only [slKey, Prod.mk.injEq] at hk
  exact keyText_inj hrepr c c' hc hc' _ _ _ _ (hhash _ _ hk.2.2.2)

omit [DecidableEq Hh] in
theorem vector_key_injective (hash : List Char → Hh) (repr : E → List Char)
    (hhash : ∀ a b, hash a = hash b → a = b) (hrepr : GoodRepr repr)
    (p p' c c' : List Char) (hc : '[' ∉ c) (hc' : '[' ∉ c') (es es' : List E)
    (hk : vecKey hash repr p c es = vecKey hash repr p' c' es') : p = p' ∧ c = c' ∧ es = es' := by
  simp only [vecKey, Prod.mk.injEq] at hk
  exact ⟨hk.1, vecKeyText_inj hrepr c c' hc hc' _ _ (hhash _ _ hk.2.2)⟩

/-- an injective element rendering is not enough for an injective list rendering (prefix-freeness is
what Python's `Elem(t=(…), x=(…))` provides) -/
theorem repr_injective_not_enough :
    ∃ repr : Bool → List Char, (∀ a b, repr a = repr b → a = b) ∧
      listStr repr [false, false] = listStr repr [true] :=
  ⟨fun b => if b then ['x', ',', ' ', 'x'] else ['x'], by decide, by decide⟩

/-! ### the file name ignores the configuration (finding F7) -/

/-- **the key is not injective on the configuration**: all hypotheses of `cache_transparent` except the
key discipline hold for `twoConfigs` (identity hash, prefix-free `repr`, causal leaves); the two
configurations get the same file name for the same element lists although their matrices differ. -/
theorem key_not_injective_on_config :
    ∃ (F : Family Bool Nat Nat) (repr : Nat → List Char) (es : List Nat),
      GoodRepr repr ∧ (∀ c, '[' ∉ F.curve c) ∧ (∀ c, (F.leaf c).Causal) ∧
      ¬ es.length * es.length < 100 ∧
      (slSpec F id repr).key (false, es, es) = (slSpec F id repr).key (true, es, es) ∧
      slPure F (false, es, es) ≠ slPure F (true, es, es) := by
  refine ⟨twoConfigs, unaryRepr, tenElems, unaryRepr_good, ?_, ?_, by decide, rfl, ?_⟩
  · intro c; simp [twoConfigs]
  · intro c tr te h; simp [twoConfigs] at h
  · simp [slPure, pureMat, twoConfigs, tenElems]

/-- … and the cache is then **not** transparent: on a fresh directory, after a call of the first
configuration, the call of the second configuration returns the first one's matrix. -/
theorem cache_not_transparent_across_configs :
    ∃ (F : Family Bool Nat Nat) (repr : Nat → List Char) (es : List Nat) (how : How),
      GoodRepr repr ∧ (∀ c, (F.leaf c).Causal) ∧ how.Ok es.length ∧
      (run (slSpec F id repr) Dir.empty
        [.call (false, es, es) how .written, .call (true, es, es) how .written]).2
        = [.ok (slPure F (false, es, es)), .ok (slPure F (false, es, es))] ∧
      slPure F (false, es, es) ≠ slPure F (true, es, es) := by
  have hcausal : ∀ c, (twoConfigs.leaf c).Causal := by
    intro c tr te h; simp [twoConfigs] at h
  let how : How := ⟨false, ⟨1, 1, id, []⟩⟩
  have hok : how.Ok tenElems.length := by intro h; simp [how] at h
  refine ⟨twoConfigs, unaryRepr, tenElems, how, unaryRepr_good, hcausal, hok, ?_,
    by simp [slPure, pureMat, twoConfigs, tenElems]⟩
  have hbig : ¬ (tenElems).length * (tenElems).length < 100 := by decide
  have hcached : ∀ b, (slSpec twoConfigs id unaryRepr).cached (b, tenElems, tenElems) = true := by
    intro b; simp [slSpec, tenElems]
  obtain ⟨h1, h2⟩ := cache_repairs twoConfigs id unaryRepr hcausal Dir.empty
    (false, tenElems, tenElems) how hok hbig (by intro o; simp [Dir.empty])
  have hkey : (slSpec twoConfigs id unaryRepr).key (true, tenElems, tenElems)
      = (slSpec twoConfigs id unaryRepr).key (false, tenElems, tenElems) := rfl
  have h3 := callStep_hit (slSpec twoConfigs id unaryRepr) _ (true, tenElems, tenElems) how
    .written _ (hcached true) (hkey ▸ h2)
  simp only [run, step, h1, h3]

/-! ## non-vacuity: the hypotheses hold on concrete non-trivial inputs -/

/-- `paths_agree` on the example: the pool with `exSched` returns a matrix with non-zero and
(acausal) zero entries -/
example : (poolPath (forkView ⟨exLeaf, exElems, exElems⟩) 4 4 exSched).toOption
    = some [[1, 5, 0, 0], [2, 6, 0, 0], [3/2, 11/2, 7/2, 15/2], [5/2, 13/2, 9/2, 17/2]] := by
  decide +kernel

/-- `code_schedule_valid`: 7 workers on 20 tasks: chunk size 1, any permutation -/
example : (Schedule.mk 7 (codeChunk 16 7 20) id (List.range 20).reverse).Valid 20 :=
  code_schedule_valid 16 7 20 (by decide) id _ (by
    have : numChunks (codeChunk 16 7 20) 20 = 20 := by decide
    rw [this]; exact List.reverse_perm _)

/-- `cache_transparent` / `key_injective`: `unaryRepr` is a good rendering, the identity a
collision-free hash, the empty directory satisfies the invariant -/
example : GoodRepr unaryRepr ∧ (∀ a b : List Char, id a = id b → a = b) ∧
    Inv (slSpec twoConfigs id unaryRepr) (slPure twoConfigs) Dir.empty :=
  ⟨unaryRepr_good, fun _ _ h => h, inv_empty _ _⟩

/-- a one-configuration family satisfies the key discipline -/
example (L : Leaf Nat Nat) : ∀ c c' : Unit, (Family.mk (fun _ => ['C']) (fun _ => L)).curve c =
    (Family.mk (fun _ => ['C']) (fun _ => L)).curve c' →
    (Family.mk (C := Unit) (fun _ => ['C']) (fun _ => L)).leaf c =
    (Family.mk (C := Unit) (fun _ => ['C']) (fun _ => L)).leaf c' := fun _ _ _ => rfl

end Stbem.Assembly
