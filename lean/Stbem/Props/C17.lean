import Stbem.Lemmas.AssemblyExamples

/-!
# C17 — assembly paths, worker schedules and the disk cache are transparent

Model: `Stbem.Model.Assembly` (`bilform_matrix`, `MP_SL_matrix_col`, `linform_vector`, `MP_M0_val`, the
cache lines), abstract over the leaves `bil trial test` / `lin elem` with values in any type with a zero.

* `paths_agree`, `bilform_matrix_pure`, `vector_paths_agree`: the inline path, the serial loop and the pool
  (for EVERY schedule: number of workers, chunk size, assignment of chunks to workers, completion order)
  return the matrix of pair-wise evaluations, rows = test, columns = trial (`pureMat_entry`), provided the
  leaf is 0 on the pairs the worker skips; neither the threshold nor the schedule occurs in the result;
* `cache_transparent`, `vector_cache_transparent`: for every history of calls, crashes, truncations,
  removals and garbage files against one directory every call returns the pure value — under the *key
  discipline* (the leaf is determined by what enters the file name: curve name and configuration text
  `str((quad_order, pw_exact))`) which is an invariant of the directory maintained by every event
  (`Inv`); `cache_repairs`: the damaged file is rewritten;
* `cache_transparent_across_configs`, `cache_transparent_quad_order_pw_exact`: operators that differ in
  the configuration text never share a file and every one of them gets its own matrix, for every history,
  whatever their leaves are; `key_separates_configs`;
* `key_injective`, `vector_key_injective`: the file name is injective on (curve name, test list, trial
  list, configuration text) for a collision-free hash and a prefix-free element rendering — no hypothesis
  on the configuration text; `cfgText_injective`; `repr_injective_not_enough`;
* `key_not_injective_on_config_unfixed_witness`, `cache_not_transparent_across_configs_unfixed_witness`:
  the file name BEFORE the repair of finding F7 (`slSpecUnfixed`) ignored the operator configuration
  (`pw_exact`, `quad_order`): two configurations, one name, different matrices; the second operator was
  handed the first one's matrix.  `cache_transparent_unfixed`: what the unrepaired name did guarantee.
-/
namespace Stbem.Assembly

variable {E V C Hh : Type} [Zero V] [DecidableEq Hh]

/-! ## 1. the three paths -/

omit [Zero V] [DecidableEq Hh] in
/-- rows = test, columns = trial -/
theorem pureMat_entry (L : Leaf E V) (tests trials : List E) (i j : Nat) (hi : i < tests.length)
    (hj : j < trials.length) :
    ((pureMat L tests trials)[i]'(by simpa [pureMat] using hi))[j]'(by simpa [pureMat] using hj)
      = L.bil trials[j] tests[i] := by
  simp [pureMat]

theorem paths_agree (L : Leaf E V) (hc : L.Causal) (tests trials : List E) :
    inlinePath L tests trials = pureMat L tests trials ∧
    serialPath L tests trials = pureMat L tests trials ∧
    ∀ s : Schedule, s.Valid trials.length →
      poolPath (forkView ⟨L, tests, trials⟩) tests.length trials.length s
        = .ok (pureMat L tests trials) :=
  ⟨loopFill_eq L tests trials, loopFill_eq L tests trials,
    fun s hs => poolPath_eq L hc tests trials _ (fun _ => rfl) s hs.1 hs.2.1 hs.2.2⟩

/-- `bilform_matrix` (no cache directory): whatever `use_mp`, the size relative to the threshold and the
schedule are, the result is the pure matrix -/
theorem bilform_matrix_pure (L : Leaf E V) (hc : L.Causal) (tests trials : List E) (h : How)
    (hh : h.Ok trials.length) :
    computeMatrix L tests trials h = .ok (pureMat L tests trials) := by
  obtain ⟨h1, h2, h3⟩ := paths_agree L hc tests trials
  unfold computeMatrix
  split
  · rw [h1]
  · cases hm : h.useMp with
    | false => simp [h2]
    | true => simpa using h3 h.sched (hh hm)

/-- the schedules the code can produce: `cpu ≥ 1` workers, chunk size `n // (factor * cpu) + 1`, any
assignment, any completion order that is a permutation of the chunks -/
theorem code_schedule_valid (factor cpu n : Nat) (hcpu : cpu ≠ 0) (assign : Nat → Nat)
    (order : List Nat) (hp : order.Perm (List.range (numChunks (codeChunk factor cpu n) n))) :
    (Schedule.mk cpu (codeChunk factor cpu n) assign order).Valid n :=
  ⟨hcpu, codeChunk_pos factor cpu n, complete_of_perm _ n hp⟩

theorem vector_paths_agree (lin : E → V) (elems : List E) :
    serialVec lin elems = elems.map lin ∧
    (∀ s : Schedule, s.Valid elems.length →
      poolVec (fun _ => (lin, elems)) elems.length s = .ok (elems.map lin)) ∧
    ∀ h : How, h.Ok elems.length → computeVector lin elems h = .ok (elems.map lin) := by
  have h2 : ∀ s : Schedule, s.Valid elems.length →
      poolVec (fun _ => (lin, elems)) elems.length s = .ok (elems.map lin) :=
    fun s hs => poolVec_eq lin elems _ (fun _ => rfl) s hs.1 hs.2.1 hs.2.2
  refine ⟨serialVec_eq lin elems, h2, ?_⟩
  intro h hh
  unfold computeVector
  cases hm : h.useMp with
  | false => simp [serialVec_eq]
  | true => simpa using h2 h.sched (hh hm)

/-! ## 2. the cache -/

/-- **cache transparency** (`bilform_matrix`): start from any directory in which every complete file
was written by a call with the inputs of its name (`Inv`; the empty directory is one); then for every
history — calls on any path and schedule, with any outcome of the save, crashes, truncations, removals,
garbage — every call returns the pure matrix of *its own* inputs, and the directory satisfies `Inv`
again.  Hypotheses: collision-free hash, prefix-free `repr`, curve names without `[`, leaves 0 on
acausal pairs, and the key discipline: operators with the same curve name AND the same configuration
text (`str((quad_order, pw_exact))`) have the same leaf. -/
theorem cache_transparent (F : Family C E V) (hash : List Char → Hh) (repr : E → List Char)
    (hhash : ∀ a b, hash a = hash b → a = b) (hrepr : GoodRepr repr)
    (hcurve : ∀ c, '[' ∉ F.curve c) (hcausal : ∀ c, (F.leaf c).Causal)
    (hdisc : ∀ c c', F.curve c = F.curve c' → F.cfg c = F.cfg c' → F.leaf c = F.leaf c')
    (d0 : Dir (List Char × Nat × Nat × Hh) (Mat V)) (h0 : Inv (slSpec F hash repr) (slPure F) d0)
    (evs : List (Event (List Char × Nat × Nat × Hh) (C × List E × List E) How))
    (hs : HistoryOk (fun i => i.2.2.length) evs) :
    (run (slSpec F hash repr) d0 evs).2 = expected (slPure F) evs ∧
      Inv (slSpec F hash repr) (slPure F) (run (slSpec F hash repr) d0 evs).1 := by
  apply run_transparent _ _ (sl_key_discipline F hash repr hhash hrepr hcurve hdisc) evs d0 h0
  intro e he
  have := hs e he
  cases e with
  | call inp how sv => exact bilform_matrix_pure _ (hcausal _) _ _ how this
  | crash inp how sv => exact bilform_matrix_pure _ (hcausal _) _ _ how this
  | truncate k => trivial
  | remove k => trivial
  | garble k => trivial

omit [Zero V] [DecidableEq Hh] in
/-- calls of operators with different configuration texts never use the same file name (whatever the
curve names, the element lists and the configuration texts are) -/
theorem key_separates_configs (F : Family C E V) (hash : List Char → Hh) (repr : E → List Char)
    (hhash : ∀ a b, hash a = hash b → a = b) (hrepr : GoodRepr repr) (hcurve : ∀ c, '[' ∉ F.curve c)
    (c c' : C) (ts tr ts' tr' : List E) (hne : F.cfg c ≠ F.cfg c') :
    slKey hash repr (F.curve c) ts tr (F.cfg c) ≠ slKey hash repr (F.curve c') ts' tr' (F.cfg c') := by
  intro hk
  simp only [slKey, Prod.mk.injEq] at hk
  exact hne (keyText_inj hrepr _ _ (hcurve c) (hcurve c') _ _ _ _ _ _ (hhash _ _ hk.2.2.2)).2.2.2

/-- **no sharing across configurations**: let the operators that use one directory be determined by
curve name and configuration text (`hcfg`; NO hypothesis relates the leaves of different operators: two
configurations may compute different matrices).  Then for every history against the directory
(1) every call returns the pure matrix of its own operator, (2) the invariant holds again, (3) a
complete file under the name used by the inputs `(c, tests, trials)` holds the pure matrix of exactly
these inputs — what an operator can load was never computed with another configuration — and (4) inputs
with different configuration texts have different file names. -/
theorem cache_transparent_across_configs (F : Family C E V) (hash : List Char → Hh)
    (repr : E → List Char) (hhash : ∀ a b, hash a = hash b → a = b) (hrepr : GoodRepr repr)
    (hcurve : ∀ c, '[' ∉ F.curve c) (hcausal : ∀ c, (F.leaf c).Causal)
    (hcfg : ∀ c c', F.curve c = F.curve c' → F.cfg c = F.cfg c' → c = c')
    (d0 : Dir (List Char × Nat × Nat × Hh) (Mat V)) (h0 : Inv (slSpec F hash repr) (slPure F) d0)
    (evs : List (Event (List Char × Nat × Nat × Hh) (C × List E × List E) How))
    (hs : HistoryOk (fun i => i.2.2.length) evs) :
    (run (slSpec F hash repr) d0 evs).2 = expected (slPure F) evs ∧
      Inv (slSpec F hash repr) (slPure F) (run (slSpec F hash repr) d0 evs).1 ∧
      (∀ i o, (run (slSpec F hash repr) d0 evs).1 ((slSpec F hash repr).key i) = .valid o →
        o = slPure F i) ∧
      (∀ i i' : C × List E × List E, F.cfg i.1 ≠ F.cfg i'.1 →
        (slSpec F hash repr).key i ≠ (slSpec F hash repr).key i') := by
  have hdisc : ∀ c c', F.curve c = F.curve c' → F.cfg c = F.cfg c' → F.leaf c = F.leaf c' :=
    fun c c' h1 h2 => by rw [hcfg c c' h1 h2]
  obtain ⟨h1, h2⟩ := cache_transparent F hash repr hhash hrepr hcurve hcausal hdisc d0 h0 evs hs
  refine ⟨h1, h2, ?_, ?_⟩
  · intro i o ho
    obtain ⟨i', _, hk, rfl⟩ := h2 _ _ ho
    simp only [slSpec, slKey, Prod.mk.injEq] at hk
    obtain ⟨hc, hts, htr, hg⟩ :=
      keyText_inj hrepr _ _ (hcurve i'.1) (hcurve i.1) _ _ _ _ _ _ (hhash _ _ hk.2.2.2)
    unfold slPure
    rw [hcfg _ _ hc hg, hts, htr]
  · intro i i' hne
    exact key_separates_configs F hash repr hhash hrepr hcurve _ _ _ _ _ _ hne

omit [Zero V] [DecidableEq Hh] in
/-- Python's `str((quad_order, pw_exact))` determines `quad_order` and `pw_exact` -/
theorem cfgText_injective (q q' : Nat) (p p' : Bool) (h : cfgText q p = cfgText q' p') :
    q = q' ∧ p = p' := cfgText_inj q q' p p' h

/-- … in the terms of the code: all operators `SingleLayerOperator(mesh, quad_order, pw_exact, cache_dir)`
on one curve against one directory, `leaf (quad_order, pw_exact)` ARBITRARY (causal) leaves: for every
history every call returns its own operator's pure matrix, and two calls whose operators differ in
`quad_order` or in `pw_exact` never use the same file. -/
theorem cache_transparent_quad_order_pw_exact (curve : List Char) (hcurve : '[' ∉ curve)
    (leaf : Nat × Bool → Leaf E V) (hcausal : ∀ c, (leaf c).Causal)
    (hash : List Char → Hh) (repr : E → List Char) (hhash : ∀ a b, hash a = hash b → a = b)
    (hrepr : GoodRepr repr) (d0 : Dir (List Char × Nat × Nat × Hh) (Mat V))
    (h0 : Inv (slSpec (pyConfigs curve leaf) hash repr) (slPure (pyConfigs curve leaf)) d0)
    (evs : List (Event (List Char × Nat × Nat × Hh) ((Nat × Bool) × List E × List E) How))
    (hs : HistoryOk (fun i => i.2.2.length) evs) :
    (run (slSpec (pyConfigs curve leaf) hash repr) d0 evs).2
        = expected (slPure (pyConfigs curve leaf)) evs ∧
      ∀ i i' : (Nat × Bool) × List E × List E, i.1 ≠ i'.1 →
        (slSpec (pyConfigs curve leaf) hash repr).key i
          ≠ (slSpec (pyConfigs curve leaf) hash repr).key i' := by
  have hcfg : ∀ c c' : Nat × Bool, (pyConfigs curve leaf).curve c = (pyConfigs curve leaf).curve c' →
      (pyConfigs curve leaf).cfg c = (pyConfigs curve leaf).cfg c' → c = c' := by
    intro c c' _ h
    exact Prod.ext_iff.mpr (cfgText_inj _ _ _ _ h)
  obtain ⟨h1, _, _, h4⟩ := cache_transparent_across_configs (pyConfigs curve leaf) hash repr hhash
    hrepr (fun _ => hcurve) hcausal hcfg d0 h0 evs hs
  refine ⟨h1, fun i i' hne => h4 i i' ?_⟩
  intro h
  exact hne (hcfg _ _ rfl h)

/-- what the file name BEFORE the repair of finding F7 guaranteed: transparency under the stronger
discipline "operators with the same curve name have the same leaf, whatever their configuration" -/
theorem cache_transparent_unfixed (F : Family C E V) (hash : List Char → Hh) (repr : E → List Char)
    (hhash : ∀ a b, hash a = hash b → a = b) (hrepr : GoodRepr repr)
    (hcurve : ∀ c, '[' ∉ F.curve c) (hcausal : ∀ c, (F.leaf c).Causal)
    (hdisc : ∀ c c', F.curve c = F.curve c' → F.leaf c = F.leaf c')
    (d0 : Dir (List Char × Nat × Nat × Hh) (Mat V))
    (h0 : Inv (slSpecUnfixed F hash repr) (slPure F) d0)
    (evs : List (Event (List Char × Nat × Nat × Hh) (C × List E × List E) How))
    (hs : HistoryOk (fun i => i.2.2.length) evs) :
    (run (slSpecUnfixed F hash repr) d0 evs).2 = expected (slPure F) evs ∧
      Inv (slSpecUnfixed F hash repr) (slPure F) (run (slSpecUnfixed F hash repr) d0 evs).1 := by
  apply run_transparent _ _ (sl_key_discipline_unfixed F hash repr hhash hrepr hcurve hdisc) evs d0 h0
  intro e he
  have := hs e he
  cases e with
  | call inp how sv => exact bilform_matrix_pure _ (hcausal _) _ _ how this
  | crash inp how sv => exact bilform_matrix_pure _ (hcausal _) _ _ how this
  | truncate k => trivial
  | remove k => trivial
  | garble k => trivial

/-- the same for `linform_vector`; key discipline: configurations with the same `problem` and curve name
have the same `linform` -/
theorem vector_cache_transparent (F : VecFamily C E V) (hash : List Char → Hh) (repr : E → List Char)
    (hhash : ∀ a b, hash a = hash b → a = b) (hrepr : GoodRepr repr)
    (hcurve : ∀ c, '[' ∉ F.curve c)
    (hdisc : ∀ c c', F.problem c = F.problem c' → F.curve c = F.curve c' → F.lin c = F.lin c')
    (d0 : Dir (List Char × Nat × Hh) (List V))
    (h0 : Inv (vecSpec F hash repr) (fun i => i.2.map (F.lin i.1)) d0)
    (evs : List (Event (List Char × Nat × Hh) (C × List E) How))
    (hs : HistoryOk (fun i => i.2.length) evs) :
    (run (vecSpec F hash repr) d0 evs).2 = expected (fun i => i.2.map (F.lin i.1)) evs ∧
      Inv (vecSpec F hash repr) (fun i => i.2.map (F.lin i.1)) (run (vecSpec F hash repr) d0 evs).1 := by
  apply run_transparent _ _ _ evs d0 h0
  · intro e he
    have := hs e he
    cases e with
    | call inp how sv => exact (vector_paths_agree _ _).2.2 how this
    | crash inp how sv => exact (vector_paths_agree _ _).2.2 how this
    | truncate k => trivial
    | remove k => trivial
    | garble k => trivial
  · intro i i' _ _ hk
    simp only [vecSpec, vecKey, Prod.mk.injEq] at hk
    obtain ⟨hc, hes⟩ := vecKeyText_inj hrepr _ _ (hcurve i.1) (hcurve i'.1) _ _ (hhash _ _ hk.2.2)
    simp only
    rw [hdisc _ _ hk.1 hc, hes]

/-- a missing, truncated or garbage file is ignored, the value is recomputed, and a successful save puts
a complete file with that value under the name -/
theorem cache_repairs (F : Family C E V) (hash : List Char → Hh) (repr : E → List Char)
    (hcausal : ∀ c, (F.leaf c).Causal) (d : Dir (List Char × Nat × Nat × Hh) (Mat V))
    (inp : C × List E × List E) (how : How) (hh : how.Ok inp.2.2.length)
    (hbig : ¬ inp.2.1.length * inp.2.2.length < 100)
    (hd : ∀ o, d ((slSpec F hash repr).key inp) ≠ .valid o) :
    (callStep (slSpec F hash repr) d inp how .written).2 = .ok (slPure F inp) ∧
      (callStep (slSpec F hash repr) d inp how .written).1 ((slSpec F hash repr).key inp)
        = .valid (slPure F inp) :=
  callStep_repairs _ d inp how _ (by simp [slSpec, hbig]) hd
    (bilform_matrix_pure _ (hcausal _) _ _ how hh)

/-- below the threshold the directory is neither read nor written -/
theorem small_call_ignores_cache (F : Family C E V) (hash : List Char → Hh) (repr : E → List Char)
    (d : Dir (List Char × Nat × Nat × Hh) (Mat V)) (inp : C × List E × List E) (how : How)
    (sv : SaveOutcome) (hsmall : inp.2.1.length * inp.2.2.length < 100) :
    callStep (slSpec F hash repr) d inp how sv = (d, .ok (inlinePath (F.leaf inp.1) inp.2.1 inp.2.2)) := by
  simp [callStep, slSpec, hsmall, computeMatrix]

/-! ## 3. the file name -/

omit [DecidableEq Hh] in
/-- the file name determines curve name, test list, trial list and configuration text (nothing is
assumed of the configuration text) -/
theorem key_injective (hash : List Char → Hh) (repr : E → List Char)
    (hhash : ∀ a b, hash a = hash b → a = b) (hrepr : GoodRepr repr)
    (c c' : List Char) (hc : '[' ∉ c) (hc' : '[' ∉ c') (ts ts' tr tr' : List E) (g g' : List Char)
    (hk : slKey hash repr c ts tr g = slKey hash repr c' ts' tr' g') :
    c = c' ∧ ts = ts' ∧ tr = tr' ∧ g = g' := by
  simp only [slKey, Prod.mk.injEq] at hk
  exact keyText_inj hrepr c c' hc hc' _ _ _ _ _ _ (hhash _ _ hk.2.2.2)

omit [DecidableEq Hh] in
theorem vector_key_injective (hash : List Char → Hh) (repr : E → List Char)
    (hhash : ∀ a b, hash a = hash b → a = b) (hrepr : GoodRepr repr)
    (p p' c c' : List Char) (hc : '[' ∉ c) (hc' : '[' ∉ c') (es es' : List E)
    (hk : vecKey hash repr p c es = vecKey hash repr p' c' es') : p = p' ∧ c = c' ∧ es = es' := by
  simp only [vecKey, Prod.mk.injEq] at hk
  exact ⟨hk.1, vecKeyText_inj hrepr c c' hc hc' _ _ (hhash _ _ hk.2.2)⟩

/-- an injective element rendering is not enough for an injective list rendering (prefix-freeness is
what Python's `Elem(t=(…), x=(…))` provides) -/
theorem repr_injective_not_enough :
    ∃ repr : Bool → List Char, (∀ a b, repr a = repr b → a = b) ∧
      listStr repr [false, false] = listStr repr [true] :=
  ⟨fun b => if b then ['x', ',', ' ', 'x'] else ['x'], by decide, by decide⟩

/-! ### before the repair of finding F7 the file name ignored the configuration -/

/-- **the unrepaired key is not injective on the configuration**: all hypotheses of
`cache_transparent_unfixed` except the key discipline hold for `twoConfigs` (identity hash, prefix-free
`repr`, causal leaves); with the unrepaired name the two configurations get the same file name for the
same element lists although their matrices differ — and with the repaired name they do not. -/
theorem key_not_injective_on_config_unfixed_witness :
    ∃ (F : Family Bool Nat Nat) (repr : Nat → List Char) (es : List Nat),
      GoodRepr repr ∧ (∀ c, '[' ∉ F.curve c) ∧ (∀ c, (F.leaf c).Causal) ∧
      ¬ es.length * es.length < 100 ∧
      (slSpecUnfixed F id repr).key (false, es, es) = (slSpecUnfixed F id repr).key (true, es, es) ∧
      slPure F (false, es, es) ≠ slPure F (true, es, es) ∧
      (slSpec F id repr).key (false, es, es) ≠ (slSpec F id repr).key (true, es, es) := by
  refine ⟨twoConfigs, unaryRepr, tenElems, unaryRepr_good, ?_, ?_, by decide, rfl, ?_, ?_⟩
  · intro c; simp [twoConfigs]
  · intro c tr te h; simp [twoConfigs] at h
  · simp [slPure, pureMat, twoConfigs, tenElems]
  · exact key_separates_configs twoConfigs id unaryRepr (fun _ _ h => h) unaryRepr_good
      (by intro c; simp [twoConfigs]) false true _ _ _ _ (by decide)

/-- … and the unrepaired cache was then **not** transparent: on a fresh directory, after a call of the
first configuration, the call of the second configuration returned the first one's matrix. -/
theorem cache_not_transparent_across_configs_unfixed_witness :
    ∃ (F : Family Bool Nat Nat) (repr : Nat → List Char) (es : List Nat) (how : How),
      GoodRepr repr ∧ (∀ c, (F.leaf c).Causal) ∧ how.Ok es.length ∧
      (run (slSpecUnfixed F id repr) Dir.empty
        [.call (false, es, es) how .written, .call (true, es, es) how .written]).2
        = [.ok (slPure F (false, es, es)), .ok (slPure F (false, es, es))] ∧
      slPure F (false, es, es) ≠ slPure F (true, es, es) := by
  have hcausal : ∀ c, (twoConfigs.leaf c).Causal := by
    intro c tr te h; simp [twoConfigs] at h
  let how : How := ⟨false, ⟨1, 1, id, []⟩⟩
  have hok : how.Ok tenElems.length := by intro h; simp [how] at h
  refine ⟨twoConfigs, unaryRepr, tenElems, how, unaryRepr_good, hcausal, hok, ?_,
    by simp [slPure, pureMat, twoConfigs, tenElems]⟩
  have hcached : ∀ b, (slSpecUnfixed twoConfigs id unaryRepr).cached (b, tenElems, tenElems) = true := by
    intro b; simp [slSpecUnfixed, tenElems]
  have hpure : (slSpecUnfixed twoConfigs id unaryRepr).compute (false, tenElems, tenElems) how
      = .ok (slPure twoConfigs (false, tenElems, tenElems)) :=
    bilform_matrix_pure (twoConfigs.leaf false) (hcausal false) tenElems tenElems how hok
  obtain ⟨h1, h2⟩ := callStep_repairs (slSpecUnfixed twoConfigs id unaryRepr) Dir.empty
    (false, tenElems, tenElems) how _ (hcached false) (by intro o; simp [Dir.empty]) hpure
  have hkey : (slSpecUnfixed twoConfigs id unaryRepr).key (true, tenElems, tenElems)
      = (slSpecUnfixed twoConfigs id unaryRepr).key (false, tenElems, tenElems) := rfl
  have h3 := callStep_hit (slSpecUnfixed twoConfigs id unaryRepr) _ (true, tenElems, tenElems) how
    .written _ (hcached true) (hkey ▸ h2)
  simp only [run, step, h1, h3]

/-! ## non-vacuity: the hypotheses hold on concrete non-trivial inputs -/

/-- `paths_agree` on the example: the pool with `exSched` returns a matrix with non-zero and
(acausal) zero entries -/
example : (poolPath (forkView ⟨exLeaf, exElems, exElems⟩) 4 4 exSched).toOption
    = some [[1, 5, 0, 0], [2, 6, 0, 0], [3/2, 11/2, 7/2, 15/2], [5/2, 13/2, 9/2, 17/2]] := by
  decide +kernel

/-- `code_schedule_valid`: 7 workers on 20 tasks: chunk size 1, any permutation -/
example : (Schedule.mk 7 (codeChunk 16 7 20) id (List.range 20).reverse).Valid 20 :=
  code_schedule_valid 16 7 20 (by decide) id _ (by
    have : numChunks (codeChunk 16 7 20) 20 = 20 := by decide
    rw [this]; exact List.reverse_perm _)

/-- `cache_transparent` / `key_injective`: `unaryRepr` is a good rendering, the identity a
collision-free hash, the empty directory satisfies the invariant -/
example : GoodRepr unaryRepr ∧ (∀ a b : List Char, id a = id b → a = b) ∧
    Inv (slSpec twoConfigs id unaryRepr) (slPure twoConfigs) Dir.empty :=
  ⟨unaryRepr_good, fun _ _ h => h, inv_empty _ _⟩

/-- `cache_transparent`: `twoConfigs` (two DIFFERENT leaves under one curve name) satisfies the key
discipline of the repaired name, and `cache_transparent_across_configs`: it is determined by curve name
and configuration text; `'['` does not occur in the curve name, the leaves are causal -/
example : (∀ c c', twoConfigs.curve c = twoConfigs.curve c' → twoConfigs.cfg c = twoConfigs.cfg c' →
      twoConfigs.leaf c = twoConfigs.leaf c') ∧
    (∀ c c', twoConfigs.curve c = twoConfigs.curve c' → twoConfigs.cfg c = twoConfigs.cfg c' → c = c') ∧
    (∀ c, '[' ∉ twoConfigs.curve c) ∧ (∀ c, (twoConfigs.leaf c).Causal) ∧
    twoConfigs.leaf false ≠ twoConfigs.leaf true := by
  have h : ∀ c c', twoConfigs.curve c = twoConfigs.curve c' → twoConfigs.cfg c = twoConfigs.cfg c' →
      c = c' := fun c c' _ hg => (cfgText_inj _ _ _ _ hg).2
  refine ⟨fun c c' h1 h2 => by rw [h c c' h1 h2], h, by intro c; simp [twoConfigs],
    by intro c tr te hh; simp [twoConfigs] at hh, ?_⟩
  intro hh
  have := congrArg (fun L => L.bil 0 0) hh
  simp [twoConfigs] at this

/-- the history of the unrepaired witness against the repaired name: each configuration gets its own
matrix (an instance of `cache_transparent_across_configs` with a non-trivial history: a hit, a damaged
file and a failed save included) -/
example : (run (slSpec twoConfigs id unaryRepr) Dir.empty
      [.call (false, tenElems, tenElems) ⟨false, ⟨1, 1, id, []⟩⟩ .written,
       .call (true, tenElems, tenElems) ⟨false, ⟨1, 1, id, []⟩⟩ .partialFile,
       .call (true, tenElems, tenElems) ⟨false, ⟨1, 1, id, []⟩⟩ .written,
       .garble ((slSpec twoConfigs id unaryRepr).key (false, tenElems, tenElems)),
       .call (true, tenElems, tenElems) ⟨false, ⟨1, 1, id, []⟩⟩ .nothing,
       .call (false, tenElems, tenElems) ⟨false, ⟨1, 1, id, []⟩⟩ .written]).2
    = [.ok (slPure twoConfigs (false, tenElems, tenElems)), .ok (slPure twoConfigs (true, tenElems, tenElems)),
       .ok (slPure twoConfigs (true, tenElems, tenElems)), .ok (slPure twoConfigs (true, tenElems, tenElems)),
       .ok (slPure twoConfigs (false, tenElems, tenElems))] := by
  refine (cache_transparent_across_configs twoConfigs id unaryRepr (fun _ _ h => h) unaryRepr_good
    (by intro c; simp [twoConfigs]) (by intro c tr te hh; simp [twoConfigs] at hh)
    (fun c c' _ hg => (cfgText_inj _ _ _ _ hg).2) Dir.empty (inv_empty _ _) _ ?_).1
  intro e he
  simp only [List.mem_cons, List.not_mem_nil, or_false] at he
  rcases he with rfl | rfl | rfl | rfl | rfl | rfl <;> first | trivial | (intro h; simp at h)

/-- Python's `str((12, False))`, `str((5, True))` -/
example : String.ofList (cfgText 12 false) = "(12, False)" ∧ String.ofList (cfgText 5 true) = "(5, True)" := by
  decide +kernel

/-- `cache_transparent_quad_order_pw_exact`: a family of leaves that really depends on both parameters -/
example : (∀ c : Nat × Bool, (Leaf.mk (E := Nat) (fun _ _ => c.1 + (if c.2 then 100 else 0))
    (fun _ _ => false)).Causal) ∧ '[' ∉ ['C', 'i', 'r', 'c', 'l', 'e'] :=
  ⟨by intro c tr te h; simp at h, by decide⟩

end Stbem.Assembly
