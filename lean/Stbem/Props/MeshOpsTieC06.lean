import Stbem.Props.MeshOpsTie
import Stbem.Props.C06

/-!
# MeshOpsTieC06 — the results of `Props/C06.lean` for the Dörfler routines REGENERATED from `src/mesh.py`

Through `gen_dorfler_refine_isotropic_eq` / `gen_dorfler_refine_anisotropic_eq` (Props/MeshOpsTie.lean): the generated
functions refine exactly the shortest non-empty prefix of the descending ordering that reaches `θ²·total`, in the marked
directions, and never fail on a mesh satisfying the invariant.
-/
namespace Stbem.MeshOpsTie
open Stbem.Mesh Stbem.Gen

/-- an index list that is a permutation of `0 … n-1` (what `np.argsort` returns) consists of `n` valid indices -/
theorem perm_valid {perm : List Nat} {n : Nat} (h : perm.Perm (List.range n)) :
    perm.length = n ∧ ∀ i ∈ perm, i < n :=
  ⟨by rw [h.length_eq, List.length_range], fun i hi => List.mem_range.mp (h.mem_iff.mp hi)⟩

/-- C06 (plan of the isotropic routine): the generated function is the time phase over the marked cells `isoMarked`
followed by the space phase over the children created by the time phase -/
theorem gen_dorfler_refine_isotropic_plan (m : Mesh) (eta : List Rat) (perm : List Nat) (θ : Rat)
    (hlen : eta.length = m.leaves.length) (hperm : perm.Perm (List.range eta.length)) :
    MeshOps.dorfler_refine_isotropic m eta perm θ = (do
      let r1 ← refinePhase m (isoMarked m eta perm θ) .time
      let r2 ← refinePhase r1.1 r1.2 .space
      pure r2.1) := by
  rw [gen_dorfler_refine_isotropic_eq m eta perm θ (perm_valid hperm).1 (perm_valid hperm).2,
    dorflerIso_eq m eta perm θ hlen (isoSorted_length m eta perm hlen hperm)]

/-- C06 (shortest prefix): the cells `isoMarked` that the generated isotropic routine refines are the second components
of the shortest non-empty prefix of the scanned (indicator, leaf) list whose sum reaches `θ²·Σ eta` -/
theorem gen_dorfler_refine_isotropic_marking (m : Mesh) (eta : List Rat) (perm : List Nat) (θ : Rat)
    (hlen : eta.length = m.leaves.length) (hperm : perm.Perm (List.range eta.length))
    (hv : ∀ v ∈ eta, 0 ≤ v) (h0 : 0 ≤ θ) (h1 : θ ≤ 1) (hne : eta ≠ []) :
    (MeshOps.dorfler_refine_isotropic m eta perm θ = (do
      let r1 ← refinePhase m (isoMarked m eta perm θ) .time
      let r2 ← refinePhase r1.1 r1.2 .space
      pure r2.1)) ∧
    (isoSorted m eta perm).Perm (eta.zip m.leaves) ∧
    isoMarked m eta perm θ = (takeBulk (sumQ eta * θ ^ 2) 0 (isoSorted m eta perm)).map (·.2) ∧
    takeBulk (sumQ eta * θ ^ 2) 0 (isoSorted m eta perm) <+: isoSorted m eta perm ∧
    takeBulk (sumQ eta * θ ^ 2) 0 (isoSorted m eta perm) ≠ [] ∧
    sumQ eta * θ ^ 2 ≤ sumQ ((takeBulk (sumQ eta * θ ^ 2) 0 (isoSorted m eta perm)).map (·.1)) ∧
    ∀ p, p <+: takeBulk (sumQ eta * θ ^ 2) 0 (isoSorted m eta perm) →
      p.length < (takeBulk (sumQ eta * θ ^ 2) 0 (isoSorted m eta perm)).length → p ≠ [] →
      sumQ (p.map (·.1)) < sumQ eta * θ ^ 2 :=
  ⟨gen_dorfler_refine_isotropic_plan m eta perm θ hlen hperm,
    dorflerIso_marking m eta perm θ hlen hperm hv h0 h1 hne⟩

/-- C06 (never fails): on a mesh satisfying the invariant the generated isotropic routine returns -/
theorem gen_dorfler_refine_isotropic_ok (m : Mesh) (h : Inv m) (eta : List Rat) (perm : List Nat) (θ : Rat)
    (hlen : eta.length = m.leaves.length) (hperm : perm.Perm (List.range eta.length)) :
    ∃ m', MeshOps.dorfler_refine_isotropic m eta perm θ = .ok m' ∧ Inv m' ∧ Refines m m' := by
  rw [gen_dorfler_refine_isotropic_eq m eta perm θ (perm_valid hperm).1 (perm_valid hperm).2]
  exact dorflerIso_ok m h eta perm θ hlen hperm

/-- C06 (marked ⇒ refined): every leaf of the result of the generated routine inside a marked cell is at least one
level deeper in both axes -/
theorem gen_dorfler_refine_isotropic_marked_refined (m : Mesh) (h : Inv m) (eta : List Rat) (perm : List Nat)
    (θ : Rat) (hlen : eta.length = m.leaves.length) (hperm : perm.Perm (List.range eta.length)) (m' : Mesh)
    (hr : MeshOps.dorfler_refine_isotropic m eta perm θ = .ok m') :
    ∀ c ∈ isoMarked m eta perm θ, ∀ d ∈ m'.leaves, d.Sub c → c.lt + 1 ≤ d.lt ∧ c.lx + 1 ≤ d.lx := by
  rw [gen_dorfler_refine_isotropic_eq m eta perm θ (perm_valid hperm).1 (perm_valid hperm).2] at hr
  exact dorflerIso_marked_refined m h eta perm θ hlen hperm m' hr

/-- C06 (plan of the anisotropic routine): time phase over the time-marked cells, then the space phase over the
space-marked cells, each replaced by its two time-children if the time phase bisected it -/
theorem gen_dorfler_refine_anisotropic_plan (m : Mesh) (eta : List (Rat × Rat)) (θ : Rat)
    (hlen : eta.length = m.leaves.length) :
    MeshOps.dorfler_refine_anisotropic m eta θ = (do
      let r1 ← refinePhase m (anisoTime m eta θ) .time
      let r2 ← refinePhase r1.1 ((anisoSpace m eta θ).flatMap (spacePiece r1.1)) .space
      pure r2.1) := by
  rw [gen_dorfler_refine_anisotropic_eq, dorflerAniso_eq m eta θ hlen]

/-- C06 (shortest prefix, anisotropic): the `2·n` directional indicators are sorted descending (stable); the marked
(cell, direction) pairs are the shortest non-empty prefix reaching `θ²·Σ (ηt + ηx)` -/
theorem gen_dorfler_refine_anisotropic_marking (m : Mesh) (eta : List (Rat × Rat)) (θ : Rat)
    (hlen : eta.length = m.leaves.length) (hv : ∀ p ∈ eta, 0 ≤ p.1 ∧ 0 ≤ p.2)
    (h0 : 0 ≤ θ) (h1 : θ ≤ 1) (hne : eta ≠ []) :
    (MeshOps.dorfler_refine_anisotropic m eta θ = (do
      let r1 ← refinePhase m (anisoTime m eta θ) .time
      let r2 ← refinePhase r1.1 ((anisoSpace m eta θ).flatMap (spacePiece r1.1)) .space
      pure r2.1)) ∧
    (sortDesc (anisoErrs m eta)).Perm (anisoErrs m eta) ∧
    (sortDesc (anisoErrs m eta)).Pairwise (fun a b => a.1 ≥ b.1) ∧
    anisoMarked m eta θ =
      (takeBulk (sumQ (eta.map fun p => p.1 + p.2) * θ ^ 2) 0 (sortDesc (anisoErrs m eta))).map (·.2) ∧
    takeBulk (sumQ (eta.map fun p => p.1 + p.2) * θ ^ 2) 0 (sortDesc (anisoErrs m eta)) <+:
      sortDesc (anisoErrs m eta) ∧
    takeBulk (sumQ (eta.map fun p => p.1 + p.2) * θ ^ 2) 0 (sortDesc (anisoErrs m eta)) ≠ [] ∧
    sumQ (eta.map fun p => p.1 + p.2) * θ ^ 2 ≤
      sumQ ((takeBulk (sumQ (eta.map fun p => p.1 + p.2) * θ ^ 2) 0
        (sortDesc (anisoErrs m eta))).map (·.1)) ∧
    ∀ p, p <+: takeBulk (sumQ (eta.map fun p => p.1 + p.2) * θ ^ 2) 0 (sortDesc (anisoErrs m eta)) →
      p.length < (takeBulk (sumQ (eta.map fun p => p.1 + p.2) * θ ^ 2) 0
        (sortDesc (anisoErrs m eta))).length → p ≠ [] →
      sumQ (p.map (·.1)) < sumQ (eta.map fun p => p.1 + p.2) * θ ^ 2 :=
  ⟨gen_dorfler_refine_anisotropic_plan m eta θ hlen, dorflerAniso_marking m eta θ hlen hv h0 h1 hne⟩

/-- C06 (never fails, anisotropic; `KidsOK`: the parent table has no entry for a leaf — holds initially, preserved) -/
theorem gen_dorfler_refine_anisotropic_ok (m : Mesh) (h : Inv m) (hK : KidsOK m) (eta : List (Rat × Rat)) (θ : Rat)
    (hlen : eta.length = m.leaves.length) :
    ∃ m', MeshOps.dorfler_refine_anisotropic m eta θ = .ok m' ∧ Inv m' ∧ Refines m m' ∧ KidsOK m' := by
  rw [gen_dorfler_refine_anisotropic_eq]
  exact dorflerAniso_ok m h hK eta θ hlen

/-- C06 (marked ⇒ refined, anisotropic): inside a time-marked cell every leaf of the result is deeper in time, inside a
space-marked cell deeper in space -/
theorem gen_dorfler_refine_anisotropic_marked_refined (m : Mesh) (h : Inv m) (hK : KidsOK m)
    (eta : List (Rat × Rat)) (θ : Rat) (hlen : eta.length = m.leaves.length) (m' : Mesh)
    (hr : MeshOps.dorfler_refine_anisotropic m eta θ = .ok m') :
    (∀ c, (c, Ax.time) ∈ anisoMarked m eta θ → ∀ d ∈ m'.leaves, d.Sub c → c.lt + 1 ≤ d.lt) ∧
    (∀ c, (c, Ax.space) ∈ anisoMarked m eta θ → ∀ d ∈ m'.leaves, d.Sub c → c.lx + 1 ≤ d.lx) := by
  rw [gen_dorfler_refine_anisotropic_eq] at hr
  exact dorflerAniso_marked_refined m h hK eta θ hlen m' hr

/-- `Inv ∧ KidsOK` is preserved by the generated Dörfler routines and the generated grading -/
theorem gen_invK_preserved :
    (∀ m eta perm θ m', perm.length = eta.length → (∀ i ∈ perm, i < eta.length) → InvK m →
      MeshOps.dorfler_refine_isotropic m eta perm θ = .ok m' → InvK m') ∧
    (∀ m eta θ m', InvK m → MeshOps.dorfler_refine_anisotropic m eta θ = .ok m' → InvK m') ∧
    (∀ fuel m p q K m', InvK m → MeshOps.refine_grading fuel m p q K = .ok m' → InvK m') ∧
    (∀ m m', InvK m → MeshOps.uniform_refine m = .ok m' → InvK m') :=
  ⟨fun m eta perm θ m' h1 h2 h hr =>
      invK_preserved.2.2.2.1 m eta perm θ m' h (by rw [← gen_dorfler_refine_isotropic_eq m eta perm θ h1 h2, hr]),
    fun m eta θ m' h hr => invK_preserved.2.2.2.2.1 m eta θ m' h (by rw [← gen_dorfler_refine_anisotropic_eq, hr]),
    fun fuel m p q K m' h hr => invK_preserved.2.2.2.2.2 true fuel m p q K m' h (by rw [← gen_refine_grading_eq, hr]),
    fun m m' h hr => invK_preserved.2.1 m m' h (by rw [← gen_uniform_refine_eq, hr])⟩

/-! ## non-vacuity: instances on the three-root mesh of `Props/C06.lean` -/

example : ∃ m', MeshOps.dorfler_refine_isotropic mesh3 [1, 5, 2] [1, 2, 0] (9 / 10) = .ok m' ∧ Inv m' ∧
    Refines mesh3 m' :=
  gen_dorfler_refine_isotropic_ok mesh3 mesh3_inv [1, 5, 2] [1, 2, 0] (9 / 10) (by decide) (by decide)

example : ∃ m', MeshOps.dorfler_refine_anisotropic mesh3 [(1, 0), (0, 5), (2, 2)] (9 / 10) = .ok m' ∧ Inv m' ∧
    Refines mesh3 m' ∧ KidsOK m' :=
  gen_dorfler_refine_anisotropic_ok mesh3 mesh3_inv mesh3_kidsOK _ _ (by decide)

/-- the marked cells of the example: `θ = 9/10`, indicators `1, 5, 2` → roots `1` and `2` -/
example : (isoMarked mesh3 [1, 5, 2] [1, 2, 0] (9 / 10)).map (·.id) = [1, 2] := by decide +kernel

example : ([1, 2, 0] : List Nat).Perm (List.range ([1, 5, 2] : List Rat).length) := by decide

end Stbem.MeshOpsTie
