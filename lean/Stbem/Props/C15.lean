import Stbem.Lemmas.QuadBasic
import Mathlib.Data.Nat.Choose.Sum
import Mathlib.Tactic.LinearCombination
import Mathlib.Tactic.IntervalCases
import Mathlib.Tactic.Positivity
import Mathlib.Tactic.NormNum

/-!
# C15 — derived quadrature schemes preserve measure and polynomial exactness

All statements are about the executable model `Stbem.Model.Quad` (tied to `src/quadrature.py` by
exact `Fraction` execution of the real classes, element by element).  They hold for *every* rule
(any nodes, any weights, any length) and every integrand unless a hypothesis says otherwise.
-/
namespace Stbem.Quad

/-! ## mirrors -/

theorem mirror1_mirror1 (r : Rule1) : mirror1 (mirror1 r) = r := by
  unfold mirror1
  rw [List.map_map]
  conv_rhs => rw [← List.map_id r]
  apply List.map_congr_left
  intro n _
  cases n; simp

theorem mirrorX2_mirrorX2 (r : Rule2) : mirrorX2 (mirrorX2 r) = r := by
  unfold mirrorX2
  rw [List.map_map]
  conv_rhs => rw [← List.map_id r]
  apply List.map_congr_left
  intro n _
  cases n; simp

theorem mirrorY2_mirrorY2 (r : Rule2) : mirrorY2 (mirrorY2 r) = r := by
  unfold mirrorY2
  rw [List.map_map]
  conv_rhs => rw [← List.map_id r]
  apply List.map_congr_left
  intro n _
  cases n; simp

theorem mirrorX2_mirrorY2_comm (r : Rule2) : mirrorX2 (mirrorY2 r) = mirrorY2 (mirrorX2 r) := by
  simp [mirrorX2, mirrorY2, List.map_map]

theorem mirrorX3_mirrorX3 (r : Rule3) : mirrorX3 (mirrorX3 r) = r := by
  unfold mirrorX3
  rw [List.map_map]
  conv_rhs => rw [← List.map_id r]
  apply List.map_congr_left
  intro n _
  cases n; simp

theorem mirrorY3_mirrorY3 (r : Rule3) : mirrorY3 (mirrorY3 r) = r := by
  unfold mirrorY3
  rw [List.map_map]
  conv_rhs => rw [← List.map_id r]
  apply List.map_congr_left
  intro n _
  cases n; simp

theorem mirrorZ3_mirrorZ3 (r : Rule3) : mirrorZ3 (mirrorZ3 r) = r := by
  unfold mirrorZ3
  rw [List.map_map]
  conv_rhs => rw [← List.map_id r]
  apply List.map_congr_left
  intro n _
  cases n; simp

/-- mirroring never touches the weights (so it preserves their sum and their signs) -/
theorem mirror_weights (r1 : Rule1) (r2 : Rule2) (r3 : Rule3) :
    (mirror1 r1).map (·.w) = r1.map (·.w) ∧
    (mirrorX2 r2).map (·.w) = r2.map (·.w) ∧ (mirrorY2 r2).map (·.w) = r2.map (·.w) ∧
    (mirrorX3 r3).map (·.w) = r3.map (·.w) ∧ (mirrorY3 r3).map (·.w) = r3.map (·.w) ∧
    (mirrorZ3 r3).map (·.w) = r3.map (·.w) := by
  simp [mirror1, mirrorX2, mirrorY2, mirrorX3, mirrorY3, mirrorZ3, List.map_map, Function.comp_def]

/-- a mirrored rule integrates `f` as the rule integrates the reflected `f` -/
theorem apply1_mirror1 (r : Rule1) (f : Rat → Rat) :
    apply1 (mirror1 r) f = apply1 r (fun x => f (1 - x)) := by
  simp [apply1, mirror1, List.map_map, Function.comp_def]

theorem apply2_mirrorX2 (r : Rule2) (f : Rat → Rat → Rat) :
    apply2 (mirrorX2 r) f = apply2 r (fun x y => f (1 - x) y) := by
  simp [apply2, mirrorX2, List.map_map, Function.comp_def]

theorem apply2_mirrorY2 (r : Rule2) (f : Rat → Rat → Rat) :
    apply2 (mirrorY2 r) f = apply2 r (fun x y => f x (1 - y)) := by
  simp [apply2, mirrorY2, List.map_map, Function.comp_def]

/-! ## affine maps: the value on a box is the measure times the value of the pulled-back
integrand on the reference box -/

theorem integrate1_eq (r : Rule1) (f : Rat → Rat) (a b : Rat) :
    integrate1 r f a b = (b - a) * apply1 r (fun x => f (a + (b - a) * x)) := by
  unfold integrate1 apply1
  split
  · next h => subst h; simp
  · rw [← sumR_map_mul_left]
    congr 1; apply List.map_congr_left; intro n _; ring

theorem integrate2_eq (r : Rule2) (f : Rat → Rat → Rat) (a b c d : Rat) :
    integrate2 r f a b c d =
      ((b - a) * (d - c)) * apply2 r (fun x y => f (a + (b - a) * x) (c + (d - c) * y)) := by
  unfold integrate2 apply2; ring

theorem integrate3_eq (r : Rule3) (f : Rat → Rat → Rat → Rat) (a b c d k l : Rat) :
    integrate3 r f a b c d k l =
      ((b - a) * (d - c) * (l - k)) *
        apply3 r (fun x y z => f (a + (b - a) * x) (c + (d - c) * y) (k + (l - k) * z)) := by
  unfold integrate3 apply3; ring

/-! ## tensor products factorise -/

theorem apply2_product2 (rx ry : Rule1) (g h : Rat → Rat) :
    apply2 (product2 rx ry) (fun x y => g x * h y) = apply1 rx g * apply1 ry h := by
  unfold apply2 product2 apply1
  rw [sumR_flatMap]
  simp only [List.map_map, Function.comp_def]
  rw [← sumR_map_mul_right]
  apply sumR_map_congr
  intro nx _
  rw [← sumR_map_mul_left]
  apply sumR_map_congr
  intro ny _
  ring

theorem apply3_product3 (r : Rule1) (f g h : Rat → Rat) :
    apply3 (product3 r) (fun x y z => f x * g y * h z) = apply1 r f * apply1 r g * apply1 r h := by
  unfold apply3 product3 apply1
  rw [sumR_flatMap]
  rw [← sumR_map_mul_right, ← sumR_map_mul_right]
  apply sumR_map_congr
  intro nx _
  rw [sumR_flatMap]
  rw [mul_comm (f nx.x * nx.w), ← sumR_map_mul_right, ← sumR_map_mul_right]
  apply sumR_map_congr
  intro ny _
  simp only [List.map_map, Function.comp_def]
  rw [← sumR_map_mul_left]
  apply sumR_map_congr
  intro nz _
  ring

/-! ## 2-D Duffy -/

theorem apply2_duffy2_false (r : Rule2) (f : Rat → Rat → Rat) :
    apply2 (duffy2 r false) f =
      apply2 r (fun x y => x * (f x (x * (1 - y)) + f (x * (1 - y)) x)) := by
  simp only [duffy2, Bool.false_eq_true, if_false, apply2_append]
  unfold apply2 duffyHalfA duffyHalfB
  simp only [List.map_map, Function.comp_def]
  rw [← sumR_map_add]
  apply sumR_map_congr
  intro n _
  ring

theorem apply2_duffy2_true (r : Rule2) (f : Rat → Rat → Rat) :
    apply2 (duffy2 r true) f = apply2 r (fun x y => 2 * x * f x (x * (1 - y))) := by
  simp only [duffy2, if_true]
  unfold apply2
  simp only [List.map_map, Function.comp_def]
  apply sumR_map_congr
  intro n _
  ring

/-- the symmetric and the non-symmetric Duffy variants agree on symmetric integrands -/
theorem duffy2_sym_agree (r : Rule2) (f : Rat → Rat → Rat) (hf : ∀ x y, f x y = f y x) :
    apply2 (duffy2 r true) f = apply2 (duffy2 r false) f := by
  rw [apply2_duffy2_true, apply2_duffy2_false]
  unfold apply2
  apply sumR_map_congr
  intro n _
  beta_reduce
  rw [hf (n.x * (1 - n.y)) n.x]
  ring

/-- moments of a rule and of its mirror image -/
def mom (r : Rule1) (k : Nat) : Rat := apply1 r (fun x => x ^ k)
def mmom (r : Rule1) (k : Nat) : Rat := apply1 r (fun x => (1 - x) ^ k)

/-- **moment factorisation of the 2-D Duffy scheme** (no hypothesis on the rules):
the value on `xⁱ yʲ` is `M_{i+j+1}(rx) · (N_j(ry) + N_i(ry))` -/
theorem duffy2_monomial (rx ry : Rule1) (i j : Nat) :
    apply2 (duffy2 (product2 rx ry) false) (fun x y => x ^ i * y ^ j) =
      mom rx (i + j + 1) * (mmom ry j + mmom ry i) := by
  rw [apply2_duffy2_false]
  have : (fun x y : Rat => x * (x ^ i * (x * (1 - y)) ^ j + (x * (1 - y)) ^ i * x ^ j)) =
      fun x y => x ^ (i + j + 1) * (1 - y) ^ j + x ^ (i + j + 1) * (1 - y) ^ i := by
    funext x y; simp only [mul_pow]; ring
  rw [this, apply2_add, apply2_product2, apply2_product2]
  unfold mom mmom; ring

theorem product2_monomial (rx ry : Rule1) (i j : Nat) :
    apply2 (product2 rx ry) (fun x y => x ^ i * y ^ j) = mom rx i * mom ry j :=
  apply2_product2 rx ry _ _

theorem product3_monomial (r : Rule1) (i j k : Nat) :
    apply3 (product3 r) (fun x y z => x ^ i * y ^ j * z ^ k) = mom r i * mom r j * mom r k :=
  apply3_product3 r _ _ _

/-! ## 3-D Duffy schemes: pull-back form -/

theorem apply3_duffyTouch3 (r : Rule3) (f : Rat → Rat → Rat → Rat) :
    apply3 (duffyTouch3 r) f =
      apply3 r (fun x y z => y ^ 2 * (f (x * y) y (z * y) + f y (x * y) (z * y) + f (x * y) (z * y) y)) := by
  simp only [duffyTouch3, apply3_append]
  unfold apply3 touchP1 touchP2 touchP3
  simp only [List.map_map, Function.comp_def]
  rw [← sumR_map_add, ← sumR_map_add]
  apply sumR_map_congr
  intro n _
  ring

theorem apply3_duffyId3_false (r : Rule3) (f : Rat → Rat → Rat → Rat) :
    apply3 (duffyId3 r false) f =
      apply3 r (fun x y z => x ^ 2 * y *
        (f x (x * (1 - y)) (x * y * z) + f (x * (1 - y + y * z)) (x * y * z) x +
         f x (x * (1 - y * z)) (x * y) + f (x * (1 - y)) x (x * y * z) +
         f (x * y * z) (x * (1 - y + y * z)) x + f (x * (1 - y * z)) x (x * y))) := by
  simp only [duffyId3, Bool.false_eq_true, if_false, apply3_append]
  unfold apply3 idT1 idT2 idT3 idT4 idT5 idT6
  simp only [List.map_map, Function.comp_def]
  rw [← sumR_map_add, ← sumR_map_add, ← sumR_map_add, ← sumR_map_add, ← sumR_map_add]
  apply sumR_map_congr
  intro n _
  ring

theorem apply3_duffyId3_true (r : Rule3) (f : Rat → Rat → Rat → Rat) :
    apply3 (duffyId3 r true) f =
      apply3 r (fun x y z => 2 * (x ^ 2 * y) *
        (f x (x * (1 - y)) (x * y * z) + f (x * (1 - y + y * z)) (x * y * z) x +
         f x (x * (1 - y * z)) (x * y))) := by
  simp only [duffyId3, if_true]
  unfold scaleW3 apply3 idT1 idT2 idT3
  simp only [List.map_append, List.map_map, Function.comp_def, sumR_append]
  rw [← sumR_map_add, ← sumR_map_add]
  apply sumR_map_congr
  intro n _
  ring

/-- the two variants of the identical-panel scheme agree on integrands symmetric in `x ↔ y` -/
theorem duffyId3_sym_agree (r : Rule3) (f : Rat → Rat → Rat → Rat) (hf : ∀ x y z, f x y z = f y x z) :
    apply3 (duffyId3 r true) f = apply3 (duffyId3 r false) f := by
  rw [apply3_duffyId3_true, apply3_duffyId3_false]
  unfold apply3
  apply sumR_map_congr
  intro n _
  beta_reduce
  rw [hf (n.x * (1 - n.y)) n.x, hf (n.x * n.y * n.z) (n.x * (1 - n.y + n.y * n.z)),
    hf (n.x * (1 - n.y * n.z)) n.x]
  ring

/-! ## exactness: from the base rule to the derived schemes -/

/-- the base rule integrates `xᵏ` exactly on `[0,1]` for every `k ≤ n` -/
def Exact1 (r : Rule1) (n : Nat) : Prop := ∀ k, k ≤ n → mom r k = 1 / ((k : Rat) + 1)

/-- `Σⱼ C(k,j) (-1)ʲ /(j+1) = 1/(k+1)` -/
theorem alt_choose_sum (k : Nat) :
    (Finset.range (k + 1)).sum (fun j => ((k.choose j : Rat) * (-1) ^ j) / ((j : Rat) + 1)) =
      1 / ((k : Rat) + 1) := by
  have hk : ((k : Rat) + 1) ≠ 0 := by positivity
  have key : ∀ j ∈ Finset.range (k + 1),
      ((k.choose j : Rat) * (-1) ^ j) / ((j : Rat) + 1) =
        (-(1 / ((k : Rat) + 1))) * (((k + 1).choose (j + 1) : Rat) * (-1) ^ (j + 1)) := by
    intro j _
    have hj : ((j : Rat) + 1) ≠ 0 := by positivity
    have h := Nat.add_one_mul_choose_eq k j
    have h' : ((k : Rat) + 1) * (k.choose j : Rat) = ((k + 1).choose (j + 1) : Rat) * ((j : Rat) + 1) := by
      have := congrArg (fun n : Nat => (n : Rat)) h
      simpa [Nat.succ_eq_add_one] using this
    field_simp
    rw [pow_succ]
    linear_combination (-1 : Rat) ^ j * h'
  rw [Finset.sum_congr rfl key, ← Finset.mul_sum]
  have alt := Int.alternating_sum_range_choose_of_ne (n := k + 1) (by omega)
  have alt' : (Finset.range (k + 2)).sum (fun m => ((-1 : Rat) ^ m * ((k + 1).choose m : Rat))) = 0 := by
    have := congrArg (fun z : Int => (z : Rat)) alt
    simpa using this
  rw [Finset.sum_range_succ'] at alt'
  simp only [pow_zero, Nat.choose_zero_right, Nat.cast_one, mul_one] at alt'
  have : (Finset.range (k + 1)).sum (fun j => ((k + 1).choose (j + 1) : Rat) * (-1) ^ (j + 1)) = -1 := by
    have h2 : (Finset.range (k + 1)).sum (fun j => ((k + 1).choose (j + 1) : Rat) * (-1) ^ (j + 1)) =
        (Finset.range (k + 1)).sum (fun m => ((-1 : Rat) ^ (m + 1) * ((k + 1).choose (m + 1) : Rat))) := by
      apply Finset.sum_congr rfl; intro m _; ring
    rw [h2]; linarith
  rw [this]; field_simp

/-- binomial expansion of a mirrored moment -/
theorem mmom_eq_sum (r : Rule1) (k : Nat) :
    mmom r k = (Finset.range (k + 1)).sum (fun j => ((k.choose j : Rat) * (-1) ^ j) * mom r j) := by
  unfold mmom mom apply1
  induction r with
  | nil => simp
  | cons n r ih =>
    simp only [List.map_cons, sumR_cons, ih, mul_add, Finset.sum_add_distrib]
    congr 1
    have : (1 - n.x) ^ k = (Finset.range (k + 1)).sum (fun j => (k.choose j : Rat) * (-1) ^ j * n.x ^ j) := by
      have h := add_pow (-n.x) 1 k
      have e : (1 - n.x) = -n.x + 1 := by ring
      rw [e, h]
      apply Finset.sum_congr rfl
      intro j _
      rw [neg_pow]; ring
    rw [this, Finset.sum_mul]
    apply Finset.sum_congr rfl
    intro j _; ring

/-- exactness is inherited by the mirrored rule -/
theorem Exact1.mmom {r : Rule1} {n : Nat} (h : Exact1 r n) (k : Nat) (hk : k ≤ n) :
    mmom r k = 1 / ((k : Rat) + 1) := by
  rw [mmom_eq_sum, ← alt_choose_sum k]
  apply Finset.sum_congr rfl
  intro j hj
  have hj' : j ≤ n := by
    have := Finset.mem_range.mp hj; omega
  rw [h j hj']; ring

theorem Exact1.mirror {r : Rule1} {n : Nat} (h : Exact1 r n) : Exact1 (mirror1 r) n := by
  intro k hk
  have := h.mmom k hk
  unfold Stbem.Quad.mmom at this
  unfold mom
  rw [apply1_mirror1]; exact this

/-- weights of an exact rule sum to the measure of the target interval -/
theorem weights_sum_interval {r : Rule1} {n : Nat} (h : Exact1 r n) (a b : Rat) :
    integrate1 r (fun _ => 1) a b = b - a := by
  rw [integrate1_eq]
  have := h 0 (Nat.zero_le _)
  unfold mom at this
  simp only [pow_zero] at this
  rw [this]; simp

/-- tensor rule: exact for `xⁱyʲ`, `i, j ≤ n`, with the value of the integral over the unit square -/
theorem product2_exact {rx ry : Rule1} {n : Nat} (hx : Exact1 rx n) (hy : Exact1 ry n) (i j : Nat)
    (hi : i ≤ n) (hj : j ≤ n) :
    apply2 (product2 rx ry) (fun x y => x ^ i * y ^ j) = 1 / (((i : Rat) + 1) * ((j : Rat) + 1)) := by
  rw [product2_monomial, hx i hi, hy j hj]
  have h1 : ((i : Rat) + 1) ≠ 0 := by positivity
  have h2 : ((j : Rat) + 1) ≠ 0 := by positivity
  field_simp

/-- weights of the tensor rule mapped to a rectangle sum to its area -/
theorem product2_measure {rx ry : Rule1} {n : Nat} (hx : Exact1 rx n) (hy : Exact1 ry n) (a b c d : Rat) :
    integrate2 (product2 rx ry) (fun _ _ => 1) a b c d = (b - a) * (d - c) := by
  rw [integrate2_eq]
  have := product2_exact hx hy 0 0 (Nat.zero_le _) (Nat.zero_le _)
  simp only [pow_zero, mul_one, Nat.cast_zero, zero_add, div_one] at this
  rw [this]; ring

/-- **2-D Duffy: exact for total degree `i + j ≤ n - 1`** (value of `∫∫_{[0,1]²} xⁱyʲ`) -/
theorem duffy2_exact {rx ry : Rule1} {n : Nat} (hx : Exact1 rx n) (hy : Exact1 ry n) (i j : Nat)
    (hij : i + j + 1 ≤ n) :
    apply2 (duffy2 (product2 rx ry) false) (fun x y => x ^ i * y ^ j) =
      1 / (((i : Rat) + 1) * ((j : Rat) + 1)) := by
  rw [duffy2_monomial, hx (i + j + 1) hij, hy.mmom j (by omega), hy.mmom i (by omega)]
  have h1 : ((i : Rat) + 1) ≠ 0 := by positivity
  have h2 : ((j : Rat) + 1) ≠ 0 := by positivity
  have h3 : (((i + j + 1 : Nat) : Rat) + 1) ≠ 0 := by positivity
  push_cast
  field_simp
  ring

/-- the Duffy weights mapped to a rectangle sum to its area -/
theorem duffy2_measure {rx ry : Rule1} {n : Nat} (hx : Exact1 rx n) (hy : Exact1 ry n) (hn : 1 ≤ n)
    (a b c d : Rat) :
    integrate2 (duffy2 (product2 rx ry) false) (fun _ _ => 1) a b c d = (b - a) * (d - c) := by
  rw [integrate2_eq]
  have := duffy2_exact hx hy 0 0 (by omega)
  simp only [pow_zero, mul_one, Nat.cast_zero, zero_add, div_one] at this
  rw [this]; ring

/-- 3-D tensor rule: exact for `xⁱyʲzᵏ`, each exponent `≤ n` -/
theorem product3_exact {r : Rule1} {n : Nat} (h : Exact1 r n) (i j k : Nat)
    (hi : i ≤ n) (hj : j ≤ n) (hk : k ≤ n) :
    apply3 (product3 r) (fun x y z => x ^ i * y ^ j * z ^ k) =
      1 / (((i : Rat) + 1) * ((j : Rat) + 1) * ((k : Rat) + 1)) := by
  rw [product3_monomial, h i hi, h j hj, h k hk]
  have h1 : ((i : Rat) + 1) ≠ 0 := by positivity
  have h2 : ((j : Rat) + 1) ≠ 0 := by positivity
  have h3 : ((k : Rat) + 1) ≠ 0 := by positivity
  field_simp

/-- **3-D "touch" Duffy: exact for total degree `i + j + k ≤ n - 2`** -/
theorem duffyTouch3_exact {r : Rule1} {n : Nat} (h : Exact1 r n) (i j k : Nat) (hijk : i + j + k + 2 ≤ n) :
    apply3 (duffyTouch3 (product3 r)) (fun x y z => x ^ i * y ^ j * z ^ k) =
      1 / (((i : Rat) + 1) * ((j : Rat) + 1) * ((k : Rat) + 1)) := by
  rw [apply3_duffyTouch3]
  have e : (fun x y z : Rat => y ^ 2 * ((x * y) ^ i * y ^ j * (z * y) ^ k + y ^ i * (x * y) ^ j * (z * y) ^ k +
        (x * y) ^ i * (z * y) ^ j * y ^ k)) =
      fun x y z => (x ^ i * y ^ (i + j + k + 2) * z ^ k + x ^ j * y ^ (i + j + k + 2) * z ^ k) +
        x ^ i * y ^ (i + j + k + 2) * z ^ j := by
    funext x y z; simp only [mul_pow]; ring
  rw [e]
  unfold apply3
  rw [sumR_map_congr _ (fun n : N3 => (n.x ^ i * n.y ^ (i + j + k + 2) * n.z ^ k) * n.w +
      (n.x ^ j * n.y ^ (i + j + k + 2) * n.z ^ k) * n.w + (n.x ^ i * n.y ^ (i + j + k + 2) * n.z ^ j) * n.w)
      _ (by intro n _; ring)]
  rw [sumR_map_add, sumR_map_add]
  have p := fun a b c => product3_monomial r a b c
  unfold apply3 at p
  rw [p, p, p, h i (by omega), h j (by omega), h k (by omega), h (i + j + k + 2) hijk]
  have h1 : ((i : Rat) + 1) ≠ 0 := by positivity
  have h2 : ((j : Rat) + 1) ≠ 0 := by positivity
  have h3 : ((k : Rat) + 1) ≠ 0 := by positivity
  have h4 : (((i + j + k + 2 : Nat) : Rat) + 1) ≠ 0 := by positivity
  push_cast
  field_simp
  ring

/-! ## non-vacuity: Simpson's rule is exact to degree 3, its Duffy image integrates `x·y` exactly -/

def simpson : Rule1 := [⟨0, 1 / 6⟩, ⟨1 / 2, 2 / 3⟩, ⟨1, 1 / 6⟩]

theorem simpson_exact : Exact1 simpson 3 := by
  intro k hk
  interval_cases k <;> simp [mom, apply1, simpson] <;> norm_num

example : apply2 (duffy2 (product2 simpson simpson) false) (fun x y => x ^ 1 * y ^ 1) = 1 / 4 := by
  have := duffy2_exact simpson_exact simpson_exact 1 1 (by norm_num)
  rw [this]; norm_num

end Stbem.Quad
