import Stbem.Gen.RuleChecks.All
import Stbem.Lemmas.RuleFamilies
import Stbem.Lemmas.RuleTargets

/-!
# C05 — every tabulated quadrature rule is exact for its advertised function class

The tables of `src/quadrature_rules.py` are *regenerated from the source text on every run*
(`translate/rules.py → Stbem/Gen/Rules.lean`), each literal exactly as written and as the binary64
number Python makes of it.  For every entry the kernel evaluates a rational certificate
(`Stbem/Gen/RuleChecks`, `decide +kernel`, no `native_decide`); `Stbem.Lemmas.RuleSound` turns a
successful certificate into a statement about **real numbers** with the true `Real.log`, `Real.sqrt`.

`ClassExact f k1 k2 xs ws true tol` (see `Stbem.Lemmas.RuleFamilies`) says: same number of nodes and
weights, at least one node, nodes strictly inside `(0,1)`, weights of one sign, and for every degree
`k` of the advertised range the weighted sum differs from the exact integral by at most
`tol · |exact integral|`.
-/
namespace Stbem.Rules
open Stbem.Rules.Gen

/-- the statement of C05 for one table entry of family `f` -/
structure EntryExact (f : Family) (e : Entry) : Prop where
  /-- the key promises at least what the scheme constructor of `src/quadrature.py` relies on -/
  key : keyOK f e.k1 e.xs = true
  /-- as written in the source: `1e-30` (see `litTol` for the two recorded exceptions) -/
  literal : ClassExact f e.k1 e.k2 e.xs e.ws true (litTol f e.k1)
  /-- each double is a correctly rounded value of its literal -/
  roundedNodes : Rounded e.nodes e.nodesD
  roundedWeights : Rounded e.weights e.weightsD
  /-- in double precision: `1e-13` relative -/
  double : ClassExact f e.k1 e.k2 e.xsD e.wsD true dblTol

theorem entryExact_of_checks (f : Family) (e : Entry) (h1 : litOK f e = true) (h2 : dblOK f e = true) :
    EntryExact f e :=
  ⟨(litOK_sound f e h1).1, (litOK_sound f e h1).2, (dblOK_sound f e h2).1, (dblOK_sound f e h2).2.1,
    (dblOK_sound f e h2).2.2⟩

theorem family_exact (f : Family) (l : List Entry) (h1 : l.all (litOK f) = true) (h2 : l.all (dblOK f) = true) :
    ∀ e ∈ l, EntryExact f e := fun e he =>
  entryExact_of_checks f e (List.all_eq_true.mp h1 e he) (List.all_eq_true.mp h2 e he)

theorem log_rules_exact : ∀ e ∈ log_quadrature_rule, EntryExact .log e :=
  family_exact _ _ lit_all_log_quadrature_rule dbl_all_log_quadrature_rule

theorem log_log_rules_exact : ∀ e ∈ log_log_quadrature_rule, EntryExact .loglog e :=
  family_exact _ _ lit_all_log_log_quadrature_rule dbl_all_log_log_quadrature_rule

theorem sqrt_rules_exact : ∀ e ∈ sqrt_quadrature_rule, EntryExact .sqrt e :=
  family_exact _ _ lit_all_sqrt_quadrature_rule dbl_all_sqrt_quadrature_rule

theorem sqrtinv_rules_exact : ∀ e ∈ sqrtinv_quadrature_rule, EntryExact .sqrtinv e :=
  family_exact _ _ lit_all_sqrtinv_quadrature_rule dbl_all_sqrtinv_quadrature_rule

theorem gauss_sqrtinv_rules_exact : ∀ e ∈ gauss_sqrtinv_quadrature_rule, EntryExact .gaussSqrtinv e :=
  family_exact _ _ lit_all_gauss_sqrtinv_quadrature_rule dbl_all_gauss_sqrtinv_quadrature_rule

theorem gauss_x_rules_exact : ∀ e ∈ gauss_x_quadrature_rule, EntryExact .gaussX e :=
  family_exact _ _ lit_all_gauss_x_quadrature_rule dbl_all_gauss_x_quadrature_rule

/-- partial: the entries with keys 15 and 31 are only certified to `1e-18` (`litTol`); all others to
`1e-30`.  The full statement (`1e-30` for every entry) is **false** for these two tables, see
`gauss_log_15_not_1e30` / `gauss_log_31_not_1e30`. -/
theorem gauss_log_rules_exact_partial : ∀ e ∈ gauss_log_quadrature_rule, EntryExact .gaussLog e :=
  family_exact _ _ lit_all_gauss_log_quadrature_rule dbl_all_gauss_log_quadrature_rule

/-- every requested rule is returned, never 'nothing': each branch ends in `return` -/
theorem every_branch_returns :
    (log_quadrature_rule ++ log_log_quadrature_rule ++ sqrt_quadrature_rule ++ sqrtinv_quadrature_rule ++
      gauss_sqrtinv_quadrature_rule ++ gauss_x_quadrature_rule ++ gauss_log_quadrature_rule).all (·.returns) = true := by
  decide +kernel

/-- every (degree, degree) pair named in the exported lists has a branch in its table -/
theorem lists_available :
    (LOG_QUAD_RULES.all fun k => log_quadrature_rule.any fun e => decide (e.k1 = k.1) && decide (e.k2 = k.2)) = true ∧
    (LOG_LOG_QUAD_RULES.all fun k => log_log_quadrature_rule.any fun e => decide (e.k1 = k.1) && decide (e.k2 = k.2)) = true ∧
    (SQRT_QUAD_RULES.all fun k => sqrt_quadrature_rule.any fun e => decide (e.k1 = k.1) && decide (e.k2 = k.2)) = true ∧
    (SQRTINV_QUAD_RULES.all fun k => sqrtinv_quadrature_rule.any fun e => decide (e.k1 = k.1) && decide (e.k2 = k.2)) = true :=
  ⟨available_LOG_QUAD_RULES, available_LOG_LOG_QUAD_RULES, available_SQRT_QUAD_RULES, available_SQRTINV_QUAD_RULES⟩

/-- the scheme constructors of `src/quadrature.py` (key maps `N = (N_poly + a) // b + c` and the odd-degree
assertions, regenerated from the source): **whatever degree `d` a constructor is called with, if it hands out the
table entry `e` then `d` is at most the degree of exactness certified for `e`** (`gaussDeg e.xs = 2n − 1`; the
moments up to that degree are the content of `EntryExact`), and every key promises what `keyOK` records.
(On the pinned tree `gauss_x_quadrature_scheme` used `(N_poly + 1) // 2`, which hands out the `N`-point rule for
the even degree `2N`: finding F10, repaired.) -/
theorem constructors_ok :
    (∀ (d : Int) (e : Entry), e ∈ gauss_sqrtinv_quadrature_rule → (ctorOdd_gaussSqrtinv = true → d % 2 = 1) →
        ctorKey_gaussSqrtinv d = e.k1 → d ≤ gaussDeg e.xs) ∧
    (∀ (d : Int) (e : Entry), e ∈ gauss_x_quadrature_rule → (ctorOdd_gaussX = true → d % 2 = 1) →
        ctorKey_gaussX d = e.k1 → d ≤ gaussDeg e.xs) ∧
    (∀ (d : Int) (e : Entry), e ∈ gauss_log_quadrature_rule → (ctorOdd_gaussLog = true → d % 2 = 1) →
        ctorKey_gaussLog d = e.k1 → d ≤ gaussDeg e.xs) :=
  ⟨fun d e he ho h => ctor_requested_ok_gaussSqrtinv d e he ho h,
   fun d e he ho h => ctor_requested_ok_gaussX d e he ho h,
   fun d e he ho h => ctor_requested_ok_gaussLog d e he ho h⟩

/-- the keys promise what the constructors rely on -/
theorem constructor_keys_ok :
    (gauss_sqrtinv_quadrature_rule.all fun e => keyOK .gaussSqrtinv e.k1 e.xs) = true ∧
    (gauss_x_quadrature_rule.all fun e => keyOK .gaussX e.k1 e.xs) = true ∧
    (gauss_log_quadrature_rule.all fun e => keyOK .gaussLog e.k1 e.xs) = true := by
  refine ⟨?_, ?_, ?_⟩
  · have h := constructors_ok_gaussSqrtinv
    rw [List.all_eq_true] at h ⊢
    intro e he; have := h e he; simp only [Bool.and_eq_true] at this; exact this.2
  · have h := constructors_ok_gaussX
    rw [List.all_eq_true] at h ⊢
    intro e he; have := h e he; simp only [Bool.and_eq_true] at this; exact this.2
  · have h := constructors_ok_gaussLog
    rw [List.all_eq_true] at h ⊢
    intro e he; have := h e he; simp only [Bool.and_eq_true] at this; exact this.2

/-- non-vacuity: degree 10 is accepted by `gauss_x_quadrature_scheme` and lands on a tabulated key -/
example : ∃ e ∈ gauss_x_quadrature_rule, ctorKey_gaussX 10 = e.k1 := by decide +kernel

/-- the tolerance is `1e-30` everywhere except for the two recorded entries -/
theorem litTol_default (f : Family) (k1 : Int) (h : ¬ (f = .gaussLog ∧ (k1 = 15 ∨ k1 = 31))) :
    litTol f k1 = 1 / 10 ^ 30 := by
  unfold litTol; rw [if_neg h]

/-! ## the exact values the sums are compared with are the integrals (for the classes where Mathlib
can evaluate them) -/

theorem targets_are_integrals (k : ℕ) :
    (∫ x in (0:ℝ)..1, x ^ k = 1 / ((k:ℝ) + 1)) ∧
    (∫ x in (0:ℝ)..1, x ^ k * Real.sqrt x = 1 / ((k:ℝ) + 3/2)) ∧
    (∫ x in (0:ℝ)..1, x ^ k * Real.log x = -1 / ((k:ℝ) + 1) ^ 2) :=
  ⟨target_poly k, target_sqrt k, target_log k⟩

/-! ## known finding: the 16- and 32-point `-log x`-weighted Gauss tables are not accurate to `1e-30` -/

set_option maxRecDepth 100000 in
/-- negation witness: degree 31 of the 16-point table misses `-1/32²` by more than `1e-30·(1/32²)` -/
theorem gauss_log_15_not_1e30 :
    classOK .gaussLog 15 0 gauss_log_quadrature_rule_15_0.xs gauss_log_quadrature_rule_15_0.ws true (1 / 10 ^ 30) = false := by
  decide +kernel

set_option maxRecDepth 100000 in
theorem gauss_log_31_not_1e30 :
    classOK .gaussLog 31 0 gauss_log_quadrature_rule_31_0.xs gauss_log_quadrature_rule_31_0.ws true (1 / 10 ^ 30) = false := by
  decide +kernel

/-! ## non-vacuity -/

example : log_quadrature_rule_12_12 ∈ log_quadrature_rule := by simp [log_quadrature_rule]
example : log_quadrature_rule_12_12.xs.length = 13 := by decide +kernel

end Stbem.Rules
