import Stbem.Props.C19Dyadic
import Stbem.Props.MeshOpsTie
import Stbem.Lemmas.MeshGradingSlabs
import Stbem.Lemmas.MeshGradingClassed
import Stbem.Lemmas.MeshGradingSlabTargets

/-!
# C19, continued — two time slabs of strongly unequal length (known finding F12)

Initial meshes `init glue [0,1,2,3,4] [0, 2^-j, 1]` (the unit-square boundary over the time grid
`[0, 2^-j, 1]`): roots of the sizes `2^-j × 1` and `(1 - 2^-j) × 1`.  The two root lengths in time are
not dyadically related, so `grading_terminates_dyadicTX` (`Props/C19Dyadic`) does not apply.

* **divergence** (`grading_time_slabs_diverges`, finding F12): on
  `init true [0,1,2,3,4] [0, 1/64, 1]`, `σ = 1`, `K = 4` the repaired loop `grading true fuel` returns
  `.ok` for *no* sweep budget (`grading_time_slabs_diverges_fuel`: it ends with the fuel error, for every
  fuel).  General form `grading_time_slabs_diverges_reach`: for every `j ≥ 1`, `σ = p/q` with
  `6q + p < q·j + 2` (`σ = 1`: `j ≥ 6`; `σ = 3/2`, `σ = 2`: `j ≥ 7`), either seam mode, and from *every*
  mesh reachable from the initial mesh by `refineId` steps.  Mechanism (`slab_no_window`): a leaf `a` just
  below `t = 2^-j` and its neighbour `b` just above cannot both be in the window
  `h_t/K < h_x^σ < K h_t` when their levels differ by at most one per axis — levels are counted per root,
  the window is about sizes — so no mesh that refines the initial one, is 1-irregular and has all leaves
  in the window exists at all; the loop (which keeps `Inv` and returns only when nothing is marked) can
  therefore never return.
* **termination below the bound** (`grading_time_slabs_terminates`): for `σ ∈ {1, 3/2, 2}` and
  `q·j + 2 ≤ 6q + p` (`σ = 1`: `j ≤ 5`; `σ = 3/2`, `σ = 2`: `j ≤ 6`), from every reachable mesh, the
  repaired loop returns for a suitable sweep budget, with `Inv`, `Refines` and all leaves in the window.
  The argument is the potential argument of `Props/C19Dyadic` with explicitly given targets
  (`grading_terminates_two_classes`: any initial mesh whose root sizes have window targets in one
  `2 × 2` box of level pairs).
* **the boundary is sharp** (`grading_time_slabs_iff`): for `σ ∈ {1, 3/2, 2}`, `j ≥ 1` the loop terminates
  iff `q·j + 2 ≤ 6q + p`.
* **the loop regenerated from `src/mesh.py`** (`gen_refine_grading_time_slabs_diverges`,
  `gen_refine_grading_time_slabs_terminates`): the same two statements for `Gen.MeshOps.refine_grading`
  (through `gen_refine_grading_eq` of `Props/MeshOpsTie`).
* ties: the mesh of the theorem is the mesh of the first corpus case of `harness/checks/C19.py`
  (`glue = 1`, `X = [0,1,2,3,4]`, `T = [0,1/64,1]`, no history, `σ = 1`); kernel-evaluated runs of the
  model on the neighbouring grids (tests of the model, labelled so).

Helper lemmas: `Stbem.Lemmas.MeshGradingSlabs` (window/irregularity contradiction),
`MeshGradingClassed` (termination from given targets), `MeshGradingSlabTargets` (table of targets).
-/
namespace Stbem.Mesh

/-! ## 0. reachable meshes -/

theorem reach_stable {P : Mesh → Prop} (hP : BisectStable P) {m0 m : Mesh} (h0 : Inv m0) (hm : P m0)
    (hr : Reach m0 m) : P m := by
  induction hr with
  | base => exact hm
  | step hprev hs ih => exact refineId_stable hP (reach_inv h0 hprev) ih hs

theorem reach_refines {m0 m : Mesh} (h0 : Inv m0) (hr : Reach m0 m) : Refines m0 m := by
  induction hr with
  | base => exact Refines.refl _
  | step hprev hs ih => exact Refines.trans ih (refineId_inv' (reach_inv h0 hprev) hs).2

/-- a refinement history (`hist`, `Props/C19`) leads to a reachable mesh -/
theorem reach_hist {m0 : Mesh} : ∀ (l : List (Nat × Ax)) {a b : Mesh}, Reach m0 a → hist a l = .ok b →
    Reach m0 b := by
  intro l
  induction l with
  | nil => intro a b ha hb; cases hb; exact ha
  | cons s l ih =>
    intro a b ha hb
    simp only [hist, List.foldlM_cons, bind, Except.bind] at hb
    split at hb
    · cases hb
    · rename_i a1 hs
      exact ih (Reach.step ha hs) hb

/-- the time grid `[0, 2^-j, 1]` -/
theorem slabGrid_def (j : Nat) : slabGrid j = [0, 1 / 2 ^ j, 1] := rfl

theorem slabGrid_six : slabGrid 6 = [0, 1 / 64, 1] := by
  rw [slabGrid_def]; norm_num

theorem slabGrid_strictInc {j : Nat} (hj : 1 ≤ j) : StrictInc (slabGrid j) := slabGrid_sinc hj

theorem strictInc_01234 : StrictInc [0, 1, 2, 3, 4] := unitGrid4_sinc

theorem slab_inv (glue : Bool) {j : Nat} (hj : 1 ≤ j) : Inv (init glue [0, 1, 2, 3, 4] (slabGrid j)) :=
  init_inv glue _ _ strictInc_01234 (slabGrid_strictInc hj) (by simp) (by simp [slabGrid])

/-! ## 1. divergence -/

/-- the relation between size and levels that all descendants of the roots inherit: unit roots in space,
root length `τ` in time below `t = τ` and `1 - τ` above -/
theorem slabSize_def (τ : Rat) (c : Cell) :
    SlabSize τ c ↔ (c.x1 - c.x0 = 1 / 2 ^ c.lx ∧
      ((c.t1 ≤ τ ∧ c.t1 - c.t0 = τ / 2 ^ c.lt) ∨ (τ ≤ c.t0 ∧ c.t1 - c.t0 = (1 - τ) / 2 ^ c.lt))) :=
  Iff.rfl

/-- **no admissible final mesh**: if `6q + p < q·j + 2`, no mesh over `[0,1] × [0,4]` satisfies the
invariant (in particular 1-irregularity), the size/level relation of the two slabs and has every leaf in
the window of `σ = p/q`, `K = 4` -/
theorem time_slabs_no_window (j p q : Nat) (hj : 1 ≤ j) (hpq : 6 * q + p < q * j + 2) (m' : Mesh)
    (hinv : Inv m') (hbox : m'.xmin = 0 ∧ m'.xmax = 4 ∧ m'.tmin = 0 ∧ m'.tmax = 1)
    (hs : ∀ c ∈ m'.leaves, SlabSize (1 / 2 ^ j) c) : ¬ ∀ c ∈ m'.leaves, InWindow c p q 4 :=
  fun hw => slab_no_window hj hpq hinv hbox hs hw

/-- **divergence, general form**: time grid `[0, 2^-j, 1]`, `σ = p/q` with `6q + p < q·j + 2`, either seam
mode, from every mesh reachable from the initial mesh: the repaired loop returns for no sweep budget -/
theorem grading_time_slabs_diverges_reach (glue : Bool) (j p q : Nat) (hj : 1 ≤ j)
    (hpq : 6 * q + p < q * j + 2) (m : Mesh) (hm : Reach (init glue [0, 1, 2, 3, 4] (slabGrid j)) m)
    (fuel : Nat) (m' : Mesh) : grading true fuel m p q 4 ≠ .ok m' := by
  intro hr
  have h0 := slab_inv glue hj
  have hτ0 := slab_tau_pos j
  have hτ1 : (1 : Rat) / 2 ^ j < 1 := by have := slab_tau_le_half hj; linarith
  have hst := leafwise_stable (slabSize_childStable hτ0 hτ1)
  have hinv := reach_inv h0 hm
  have hsm : ∀ c ∈ m.leaves, SlabSize (1 / 2 ^ j) c :=
    reach_stable hst h0 (init_slabSize glue (1 / 2 ^ j)) hm
  obtain ⟨hinv', href, hw⟩ := grading_window true fuel m hinv p q 4 m' hr
  have hs : ∀ c ∈ m'.leaves, SlabSize (1 / 2 ^ j) c := grading_stable hst fuel hinv hsm hr
  obtain ⟨b1, b2, b3, b4⟩ := (Refines.trans (reach_refines h0 hm) href).box
  have e1 : (init glue [0, 1, 2, 3, 4] (slabGrid j)).xmin = 0 := rfl
  have e2 : (init glue [0, 1, 2, 3, 4] (slabGrid j)).xmax = 4 := rfl
  have e3 : (init glue [0, 1, 2, 3, 4] (slabGrid j)).tmin = 0 := rfl
  have e4 : (init glue [0, 1, 2, 3, 4] (slabGrid j)).tmax = 1 := rfl
  exact slab_no_window hj hpq hinv' ⟨b1.trans e1, b2.trans e2, b3.trans e3, b4.trans e4⟩ hs hw

/-- the mesh of finding F12: the glued unit-square boundary over the time grid `[0, 1/64, 1]` -/
def mesh64 : Mesh := init true [0, 1, 2, 3, 4] [0, 1 / 64, 1]

theorem mesh64_eq : mesh64 = init true [0, 1, 2, 3, 4] (slabGrid 6) := by
  rw [mesh64, slabGrid_six]

theorem mesh64_inv : Inv mesh64 := by
  rw [mesh64_eq]; exact slab_inv true (by norm_num)

/-- **divergence (finding F12)**: on `init true [0,1,2,3,4] [0, 1/64, 1]` with `σ = 1` (`p = q = 1`),
`K = 4` the repaired grading loop returns for no sweep budget -/
theorem grading_time_slabs_diverges (fuel : Nat) (m : Mesh) :
    grading true fuel (init true [0, 1, 2, 3, 4] [0, 1 / 64, 1]) 1 1 4 ≠ .ok m := by
  have h := grading_time_slabs_diverges_reach true 6 1 1 (by norm_num) (by norm_num) _ Reach.base fuel m
  rwa [slabGrid_six] at h

/-- the loop can only end with the fuel error (it cannot raise an assertion, `grading_fixed_error`) -/
theorem grading_time_slabs_diverges_fuel (fuel : Nat) :
    grading true fuel (init true [0, 1, 2, 3, 4] [0, 1 / 64, 1]) 1 1 4 = .error "fuel" := by
  cases hr : grading true fuel (init true [0, 1, 2, 3, 4] [0, 1 / 64, 1]) 1 1 4 with
  | ok m' => exact absurd hr (grading_time_slabs_diverges fuel m')
  | error e => rw [grading_fixed_error fuel _ mesh64_inv 1 1 4 e hr]

/-- the same from every mesh reachable from the F12 mesh (any refinement history before the call) -/
theorem grading_time_slabs_diverges_fuel_reach (m : Mesh) (hm : Reach mesh64 m) (fuel : Nat) :
    grading true fuel m 1 1 4 = .error "fuel" := by
  have hm' := hm
  rw [mesh64_eq] at hm'
  cases hr : grading true fuel m 1 1 4 with
  | ok m' =>
    exact absurd hr
      (grading_time_slabs_diverges_reach true 6 1 1 (by norm_num) (by norm_num) m hm' fuel m')
  | error e => rw [grading_fixed_error fuel m (reach_inv mesh64_inv hm) 1 1 4 e hr]

/-- `σ = 2` and `σ = 3/2` diverge one step later, on `[0, 1/128, 1]` -/
theorem grading_time_slabs_diverges_128 (p q : Nat) (hσ : (p, q) = (3, 2) ∨ (p, q) = (2, 1))
    (fuel : Nat) (m : Mesh) :
    grading true fuel (init true [0, 1, 2, 3, 4] [0, 1 / 128, 1]) p q 4 ≠ .ok m := by
  have e : slabGrid 7 = [0, 1 / 128, 1] := by rw [slabGrid_def]; norm_num
  have hpq : 6 * q + p < q * 7 + 2 := by
    rcases hσ with e | e <;> (injection e with e1 e2; subst e1; subst e2; norm_num)
  have h := grading_time_slabs_diverges_reach true 7 p q (by norm_num) hpq _ Reach.base fuel m
  rwa [e] at h

/-! ## 2. termination below the bound -/

/-- `Classed p q K Lt0 Lx0 c`: the root size of `c` has a target (level pair with cell size in the window)
in the box `{Lt0, Lt0+1} × {Lx0, Lx0+1}` -/
theorem classed_def (p q : Nat) (K : Rat) (Lt0 Lx0 : Nat) (c : Cell) :
    Classed p q K Lt0 Lx0 c ↔ ∃ (Ht Hx : Rat) (Lt Lx : Nat),
      (c.t1 - c.t0 = Ht / 2 ^ c.lt ∧ c.x1 - c.x0 = Hx / 2 ^ c.lx) ∧
      (Lt0 ≤ Lt ∧ Lt ≤ Lt0 + 1) ∧ (Lx0 ≤ Lx ∧ Lx ≤ Lx0 + 1) ∧ Target Ht Hx p q K Lt Lx :=
  Iff.rfl

/-- **termination from given targets** (root sizes arbitrary, not necessarily dyadically related): if
every pair (time spacing, space spacing) of the initial grids has a window target in one `2 × 2` box of
level pairs, the repaired loop terminates from every reachable mesh, with partial correctness -/
theorem grading_terminates_two_classes (glue : Bool) (X T : List Rat) (hX : StrictInc X)
    (hT : StrictInc T) (hX2 : 2 ≤ X.length) (hT2 : 2 ≤ T.length) (p q : Nat) (hp : 1 ≤ p) (hq : 1 ≤ q)
    (K : Rat) (Lt0 Lx0 : Nat)
    (hXT : ∀ tp ∈ pairs T, ∀ xp ∈ pairs X, ∃ Lt Lx, (Lt0 ≤ Lt ∧ Lt ≤ Lt0 + 1) ∧
      (Lx0 ≤ Lx ∧ Lx ≤ Lx0 + 1) ∧ Target (tp.2 - tp.1) (xp.2 - xp.1) p q K Lt Lx)
    (m : Mesh) (hm : Reach (init glue X T) m) :
    ∃ fuel m', grading true fuel m p q K = .ok m' ∧ Inv m' ∧ Refines m m' ∧
      ∀ c ∈ m'.leaves, InWindow c p q K := by
  have h0 := init_inv glue X T hX hT hX2 hT2
  have hinv := reach_inv h0 hm
  have hc : ∀ c ∈ m.leaves, Classed p q K Lt0 Lx0 c :=
    reach_stable (leafwise_stable (classed_childStable p q K Lt0 Lx0)) h0 (init_classed glue hXT) hm
  obtain ⟨fuel, m', hr⟩ := grading_terminates_classed hinv hp hq hc
  exact ⟨fuel, m', hr, grading_window true fuel m hinv p q K m' hr⟩

/-- **termination for two time slabs below the bound**: time grid `[0, 2^-j, 1]`, `σ ∈ {1, 3/2, 2}`,
`q·j + 2 ≤ 6q + p` (`σ = 1`: `j ≤ 5`; `σ = 3/2`, `2`: `j ≤ 6`), from every reachable mesh -/
theorem grading_time_slabs_terminates (glue : Bool) (j p q : Nat)
    (hσ : (p, q) = (1, 1) ∨ (p, q) = (3, 2) ∨ (p, q) = (2, 1)) (hj : 1 ≤ j)
    (hb : q * j + 2 ≤ 6 * q + p) (m : Mesh) (hm : Reach (init glue [0, 1, 2, 3, 4] (slabGrid j)) m) :
    ∃ fuel m', grading true fuel m p q 4 = .ok m' ∧ Inv m' ∧ Refines m m' ∧
      ∀ c ∈ m'.leaves, InWindow c p q 4 := by
  obtain ⟨Lt0, Lx0, ht⟩ := slab_targets_exist hσ hj hb
  have hpq : 1 ≤ p ∧ 1 ≤ q := by
    rcases hσ with e | e | e <;> (injection e with e1 e2; subst e1; subst e2; simp)
  have h0 := slab_inv glue hj
  have hinv := reach_inv h0 hm
  have hc : ∀ c ∈ m.leaves, Classed p q 4 Lt0 Lx0 c :=
    reach_stable (leafwise_stable (classed_childStable p q 4 Lt0 Lx0)) h0 (slab_init_classed glue ht) hm
  obtain ⟨fuel, m', hr⟩ := grading_terminates_classed hinv hpq.1 hpq.2 hc
  exact ⟨fuel, m', hr, grading_window true fuel m hinv p q 4 m' hr⟩

/-- **the boundary of the phenomenon**: for `σ ∈ {1, 3/2, 2}` and the time grid `[0, 2^-j, 1]` the
repaired loop terminates (from any reachable mesh) iff `q·j + 2 ≤ 6q + p` -/
theorem grading_time_slabs_iff (glue : Bool) (j p q : Nat)
    (hσ : (p, q) = (1, 1) ∨ (p, q) = (3, 2) ∨ (p, q) = (2, 1)) (hj : 1 ≤ j) (m : Mesh)
    (hm : Reach (init glue [0, 1, 2, 3, 4] (slabGrid j)) m) :
    (∃ fuel m', grading true fuel m p q 4 = .ok m') ↔ q * j + 2 ≤ 6 * q + p := by
  constructor
  · rintro ⟨fuel, m', hr⟩
    by_contra hlt
    exact grading_time_slabs_diverges_reach glue j p q hj (by omega) m hm fuel m' hr
  · intro hb
    obtain ⟨fuel, m', hr, _⟩ := grading_time_slabs_terminates glue j p q hσ hj hb m hm
    exact ⟨fuel, m', hr⟩

/-- `σ = 1`: terminates iff `j ≤ 5`; `σ = 2`: iff `j ≤ 6` (initial mesh, glued) -/
theorem grading_time_slabs_sigma1 (j : Nat) (hj : 1 ≤ j) :
    (∃ fuel m', grading true fuel (init true [0, 1, 2, 3, 4] (slabGrid j)) 1 1 4 = .ok m') ↔ j ≤ 5 := by
  rw [grading_time_slabs_iff true j 1 1 (Or.inl rfl) hj _ Reach.base]
  omega

theorem grading_time_slabs_sigma2 (j : Nat) (hj : 1 ≤ j) :
    (∃ fuel m', grading true fuel (init true [0, 1, 2, 3, 4] (slabGrid j)) 2 1 4 = .ok m') ↔ j ≤ 6 := by
  rw [grading_time_slabs_iff true j 2 1 (Or.inr (Or.inr rfl)) hj _ Reach.base]
  omega

/-! ## 3. the same for `refine_grading` regenerated from `src/mesh.py` -/

open Stbem.Gen Stbem.MeshOpsTie in
/-- finding F12 for the loop regenerated from the source text of `Mesh.refine_grading`: with any bound on the
number of passes of its `while` loop it ends with the bound exhausted -/
theorem gen_refine_grading_time_slabs_diverges (fuel : Nat) :
    MeshOps.refine_grading fuel (init true [0, 1, 2, 3, 4] [0, 1 / 64, 1]) 1 1 4 = .error "fuel" := by
  rw [gen_refine_grading_eq]
  exact grading_time_slabs_diverges_fuel fuel

open Stbem.Gen Stbem.MeshOpsTie in
theorem gen_refine_grading_time_slabs_terminates (glue : Bool) (j p q : Nat)
    (hσ : (p, q) = (1, 1) ∨ (p, q) = (3, 2) ∨ (p, q) = (2, 1)) (hj : 1 ≤ j)
    (hb : q * j + 2 ≤ 6 * q + p) (m : Mesh) (hm : Reach (init glue [0, 1, 2, 3, 4] (slabGrid j)) m) :
    ∃ fuel m', MeshOps.refine_grading fuel m p q 4 = .ok m' ∧ Inv m' ∧ Refines m m' ∧
      ∀ c ∈ m'.leaves, InWindow c p q 4 := by
  obtain ⟨fuel, m', h1, h2⟩ := grading_time_slabs_terminates glue j p q hσ hj hb m hm
  exact ⟨fuel, m', by rw [gen_refine_grading_eq, h1], h2⟩

/-! ## 4. ties and non-vacuity -/

/-- the mesh of `grading_time_slabs_diverges` is the mesh that the first corpus case of
`harness/checks/C19.py` builds (`glue = 1`, `X = [0,1,2,3,4]`, `T = [0,1/64,1]`, empty history; driver
request `mesh init 1 0,1,2,3,4 0,1/64,1`): eight roots, row by row, glued seam -/
example : mesh64.leaves =
    [⟨0, 1 / 64, 0, 1, 0, 0, 0, none, 0⟩, ⟨0, 1 / 64, 1, 2, 0, 0, 1, none, 0⟩,
     ⟨0, 1 / 64, 2, 3, 0, 0, 2, none, 0⟩, ⟨0, 1 / 64, 3, 4, 0, 0, 3, none, 0⟩,
     ⟨1 / 64, 1, 0, 1, 0, 0, 4, none, 0⟩, ⟨1 / 64, 1, 1, 2, 0, 0, 5, none, 0⟩,
     ⟨1 / 64, 1, 2, 3, 0, 0, 6, none, 0⟩, ⟨1 / 64, 1, 3, 4, 0, 0, 7, none, 0⟩] := by
  decide +kernel

example : mesh64 = init true [0, 1, 2, 3, 4] [0, 1 / 64, 1] := rfl

example : mesh64.glue = true ∧ mesh64.nElems = 8 ∧ mesh64.tmin = 0 ∧ mesh64.tmax = 1 ∧
    mesh64.xmin = 0 ∧ mesh64.xmax = 4 := by
  decide +kernel

/-- the hypotheses of the general divergence theorem hold for `j = 6`, `σ = 1` and for `j = 7`,
`σ = 3/2`, `σ = 2`; those of the termination theorem for `j = 5`, `σ = 1` and `j = 6`, `σ = 3/2`, `2` -/
example : 6 * 1 + 1 < 1 * 6 + 2 ∧ 6 * 2 + 3 < 2 * 7 + 2 ∧ 6 * 1 + 2 < 1 * 7 + 2 := by omega

example : 1 * 5 + 2 ≤ 6 * 1 + 1 ∧ 2 * 6 + 2 ≤ 6 * 2 + 3 ∧ 1 * 6 + 2 ≤ 6 * 1 + 2 := by omega

/-- a reachable mesh other than the initial one: root `4` (above the interface) bisected in time, root `0` (below)
in space; the loop diverges from it as well -/
example : ∃ m, hist mesh64 [(4, .time), (0, .space)] = .ok m ∧ m.leaves.length = 10 ∧
    ∀ fuel, grading true fuel m 1 1 4 = .error "fuel" := by
  have hok : isOk (hist mesh64 [(4, .time), (0, .space)]) = true := by decide +kernel
  obtain ⟨m, hm⟩ := isOk_iff.mp hok
  have hlen : (match hist mesh64 [(4, .time), (0, .space)] with
      | .ok m => m.leaves.length | .error _ => 0) = 10 := by decide +kernel
  rw [hm] at hlen
  exact ⟨m, hm, hlen, fun fuel =>
    grading_time_slabs_diverges_fuel_reach m (reach_hist _ Reach.base hm) fuel⟩

/-- the roots of the F12 mesh satisfy the size/level relation used by the divergence argument, and the
root just above the slab interface is outside the window (`h_x = 1 ≥ 4·h_t` fails, `h_t/4 ≥ h_x` fails,
but its lower neighbour has `h_x = 1 ≥ 4/64`) -/
example : ∀ c ∈ mesh64.leaves, SlabSize (1 / 2 ^ 6) c := by
  have h := init_slabSize true (1 / 2 ^ 6)
  rw [mesh64]
  norm_num at h ⊢
  exact h

example : ¬ InWindow ⟨0, 1 / 64, 0, 1, 0, 0, 0, none, 0⟩ 1 1 4 := by
  simp [InWindow, markTime, markSpace]; norm_num

/-- the targets of the last terminating grid `[0, 1/32, 1]`, `σ = 1`: base levels `(0, 3)`, lower slab
`(0, 4)` (cell `1/32 × 1/16`), upper slab `(1, 3)` (cell `31/64 × 1/8`) -/
example : SlabTargets 5 1 1 0 3 := slab_targets_1_1_5

/-- `grading_terminates_two_classes` applies to a grid that is neither equidistant nor dyadic:
`T = [0, 1/3, 1]` (`σ = 1`: targets `(0, 1)` for `1/3 × 1`, `(0, 0)` … `(1, 1)` for `2/3 × 1`) -/
example (m : Mesh) (hm : Reach (init true [0, 1, 2, 3, 4] [0, 1 / 3, 1]) m) :
    ∃ fuel m', grading true fuel m 1 1 4 = .ok m' ∧ Inv m' ∧ Refines m m' ∧
      ∀ c ∈ m'.leaves, InWindow c 1 1 4 := by
  refine grading_terminates_two_classes true _ _ strictInc_01234 (by simp [StrictInc]; norm_num)
    (by simp) (by simp) 1 1 (by norm_num) (by norm_num) 4 0 0 ?_ m hm
  intro tp htp xp hxp
  have hx : xp.2 - xp.1 = 1 := by
    simp only [pairs, List.mem_cons, List.not_mem_nil, or_false] at hxp
    rcases hxp with rfl | rfl | rfl | rfl <;> norm_num
  rw [hx]
  simp only [pairs, List.mem_cons, List.not_mem_nil, or_false] at htp
  rcases htp with rfl | rfl
  · exact ⟨0, 1, by omega, by omega, by norm_num, by norm_num, by norm_num, by norm_num, by norm_num⟩
  · exact ⟨0, 0, by omega, by omega, by norm_num, by norm_num, by norm_num, by norm_num, by norm_num⟩

/-! ### kernel-evaluated runs of the model (tests of the model, not theorems about all budgets)

The grids of finding F12 on which the real code terminates: `[0,1/8,1]`, `[0,1/16,1]`, `[0,1/32,1]`
for `σ = 1` and `σ = 2`, `[0,1/64,1]` for `σ = 2`: the repaired loop returns within 60 sweeps, all
leaves in the window (leaf counts as reported by the driver). -/

example : allInWindow (grading true 60 (init true [0, 1, 2, 3, 4] [0, 1 / 8, 1]) 1 1 4) 1 1 4 24 = true := by
  decide +kernel

example : allInWindow (grading true 60 (init true [0, 1, 2, 3, 4] [0, 1 / 8, 1]) 2 1 4) 2 1 4 12 = true := by
  decide +kernel

example : allInWindow (grading true 60 (init true [0, 1, 2, 3, 4] [0, 1 / 16, 1]) 1 1 4) 1 1 4 48 = true := by
  decide +kernel

example : allInWindow (grading true 60 (init true [0, 1, 2, 3, 4] [0, 1 / 16, 1]) 2 1 4) 2 1 4 24 = true := by
  decide +kernel

example : allInWindow (grading true 60 (init true [0, 1, 2, 3, 4] [0, 1 / 32, 1]) 1 1 4) 1 1 4 128 = true := by
  decide +kernel

example : allInWindow (grading true 60 (init true [0, 1, 2, 3, 4] [0, 1 / 32, 1]) 2 1 4) 2 1 4 24 = true := by
  decide +kernel

example : allInWindow (grading true 60 (init true [0, 1, 2, 3, 4] [0, 1 / 64, 1]) 2 1 4) 2 1 4 128 = true := by
  decide +kernel

/-- on the F12 mesh the first sweeps of the model do run and mark something each time: the loop is still
going after 4 sweeps (test of the model; the theorem above covers every budget) -/
example : isErr (grading true 4 mesh64 1 1 4) "fuel" = true := by
  decide +kernel

end Stbem.Mesh
