import Stbem.Lemmas.Param
import Stbem.Lemmas.ParamCircle
import Stbem.Lemmas.ParamMesh

/-!
# C18 — curves are arc-length, closed, piecewise consistent; elements sit on one piece

## Curves (`src/parametrization.py`)

Model: `Stbem.Param.polygon` (axis-parallel polygons over ℚ, `Model/Param.lean`); `c.segs` lists the
pieces `pw_gamma[i]` with their closed parameter ranges `[pw_start[i], pw_start[i+1]]`.
For every polygon the constructor accepts:

* `unit_speed`           : `‖γᵢ(x) − γᵢ(y)‖² = (x − y)²` on every piece (arc length);
* `piece_length`         : `pw_start[i+1] − pw_start[i]` = length of side `i`, the piece starts and
                           ends in the vertices, `x_start = pw_start[i]`;
* `continuous_at_breaks` : consecutive pieces agree at their common break point;
* `closed_curve`         : `eval(0) = eval(L)` = first vertex when declared closed;
* `eval_eq_piece`        : `eval(x)` = `pw_gamma[i](x)` for EVERY piece whose closed range contains `x`
                           (`np.select` takes the first one; at a break point both agree), and
                           `eval_total`: every `x ∈ [0, L]` lies in such a range;
* `polygon_accepts`      : in ℚ the bit-exact end-point tests never fail for axis-parallel sides of
                           positive length.

Circle over ℝ (Mathlib `Real.cos`, `Real.sin`): `circle_unit_speed`, `circle_closed`,
`circle_chord_le_arc`.

## Meshes on curves (`MeshParametrized`, model `Stbem.Mesh.initParam`)

* `piece_assigned_*`  : the piece of a root is the unique index `i` with `pw[i] ≤ x0 < pw[i+1]`;
                        if the (strictly increasing) initial space grid contains the break points every
                        leaf of the constructed mesh lies in the range of its piece;
* `piece_inherited`   : the same for every mesh reachable by any history of operations;
* `three_per_slab`    : with the REPAIRED guard (`perSlab = true`) at every time at least three leaves
                        lie around a closed curve — for every initial time grid —, and
                        `three_per_slab_reach`: so it stays under all operations;
* `three_per_slab_unfixed_fails` : with the PINNED guard (`perSlab = false`, counts the roots of all
                        slabs) a one-piece closed curve with three time slabs keeps ONE element around
                        the curve in every slab (kernel-evaluated witness; defect F3);
* `touch_at_most_one_endpoint` : hence two distinct leaves with overlapping time intervals never touch
                        in both end points (seam included) on any reachable mesh.
-/

namespace Stbem.Param
open Stbem.SL (Piece distSq)
open Stbem.Mesh (pairs)

variable {vs : List Pt} {closed : Bool} {c : Curve}

/-- every piece is parametrised by arc length: the squared chord between two parameters is the
squared parameter distance -/
theorem unit_speed (h : polygon vs closed = .ok c) :
    ∀ g ∈ c.pieces, ∀ x y : Rat, distSq (g.at x) (g.at y) = (x - y) ^ 2 := by
  obtain ⟨pw, _, _, hs⟩ := polygon_spec h
  exact fun g hg x y => Piece.unit_speed (hs.pieces_unit g hg) x y

/-- one piece per side; its parameter range has the length of the side, it starts at `pw_start[i]`
in vertex `i` and ends at `pw_start[i+1]` in vertex `i+1` -/
theorem piece_length (h : polygon vs closed = .ok c) :
    c.pieces.length = vs.length - 1 ∧ c.pw.length = c.pieces.length + 1 ∧ c.pw.head? = some 0 ∧
    c.segs.length = c.pieces.length ∧ (pairs vs).length = c.pieces.length ∧
    ∀ q ∈ c.segs.zip (pairs vs), SideOK q ∧ distSq q.2.1 q.2.2 = (q.1.1.2 - q.1.1.1) ^ 2 := by
  obtain ⟨pw, hpw, _, hs⟩ := polygon_spec h
  obtain ⟨l1, l2, l3, l4⟩ := hs.lengths
  refine ⟨by omega, by rw [hpw, List.length_cons]; omega, by rw [hpw]; rfl,
    by unfold Curve.segs; rw [hpw]; exact l4, l3, ?_⟩
  intro q hq
  unfold Curve.segs at hq
  rw [hpw] at hq
  have hq' := hs.sides q hq
  refine ⟨hq', ?_⟩
  rw [← hq'.at_lo, ← hq'.at_hi, Piece.unit_speed hq'.unit]
  ring

/-- consecutive pieces share the break point and agree there -/
theorem continuous_at_breaks (h : polygon vs closed = .ok c) :
    ∀ r ∈ pairs c.segs, r.1.1.2 = r.2.1.1 ∧ r.1.2.at r.1.1.2 = r.2.2.at r.1.1.2 := by
  obtain ⟨pw, hpw, _, hs⟩ := polygon_spec h
  intro r hr
  unfold Curve.segs at hr
  rw [hpw] at hr
  exact hs.cont r hr

/-- evaluating the whole curve = evaluating any piece whose closed parameter range contains the
parameter (in particular at break points, where `np.select` picks the piece that ends there) -/
theorem eval_eq_piece (h : polygon vs closed = .ok c) :
    ∀ q ∈ c.segs, ∀ x : Rat, q.1.1 ≤ x → x ≤ q.1.2 → evalCurve c x = .ok (q.2.at x) := by
  obtain ⟨pw, hpw, _, hs⟩ := polygon_spec h
  exact fun q hq x h1 h2 => evalCurve_eq hpw hs hq h1 h2

theorem polygon_two_le (h : polygon vs closed = .ok c) : 2 ≤ vs.length := by
  obtain ⟨gs, pw, h1, rfl, hL, _⟩ := polygon_inv h
  have hs := polyGo_spec vs 0 gs pw h1
  cases hs with
  | nil => simp [Curve.length] at hL
  | single _ _ => simp [Curve.length] at hL
  | cons => simp

/-- every parameter of `[0, L]` lies in the range of some piece -/
theorem eval_total (h : polygon vs closed = .ok c) {x : Rat} (h0 : 0 ≤ x) (hL : x ≤ c.length) :
    ∃ q ∈ c.segs, q.1.1 ≤ x ∧ x ≤ q.1.2 := by
  obtain ⟨pw, hpw, _, hs⟩ := polygon_spec h
  unfold Curve.segs
  unfold Curve.length at hL
  rw [hpw] at hL ⊢
  exact hs.cover (polygon_two_le h) h0 hL

/-- a curve declared closed returns to its first vertex -/
theorem closed_curve (h : polygon vs closed = .ok c) (hc : closed = true) :
    ∃ v, vs.head? = some v ∧ evalCurve c 0 = .ok v ∧ evalCurve c c.length = .ok v ∧ 0 < c.length := by
  obtain ⟨gs, pw, h1, rfl, _, hcl⟩ := polygon_inv h
  obtain ⟨a, b, ha, hb, hL, e0, eL⟩ := (polyGo_spec vs 0 gs pw h1).ends (polygon_two_le h) closed
  have hab : a = b := by
    have := hcl hc
    rw [ha, hb] at this
    exact Option.some.inj this
  subst hab
  exact ⟨a, ha, e0, eL, hL⟩

/-- acceptance test of `PiecewisePolygon` over ℚ: axis-parallel sides of positive length, at least
one side, first = last vertex when closed — nothing else can make the constructor fail -/
theorem polygon_accepts (h2 : 2 ≤ vs.length)
    (hax : ∀ e ∈ pairs vs, (e.1.1 = e.2.1 ∨ e.1.2 = e.2.2) ∧ e.1 ≠ e.2)
    (hcl : closed = true → vs.head? = vs.getLast?) : ∃ c, polygon vs closed = .ok c := by
  obtain ⟨⟨gs, pw⟩, hr⟩ := polyGo_accepts vs 0 hax
  obtain ⟨a, b, ha, hb, hL, e0, eL⟩ := (polyGo_spec vs 0 gs pw hr).ends h2 closed
  refine ⟨⟨0 :: pw, gs, closed⟩, ?_⟩
  unfold polygon
  rw [if_neg (by
    cases closed with
    | false => simp
    | true => simp [hcl rfl]), hr]
  simp only
  unfold checkCurve
  rw [if_neg (by rw [not_or, not_not]; exact ⟨by simp, not_not.mpr hL⟩)]
  cases closed with
  | false => simp
  | true =>
    simp only [if_true]
    rw [e0, eL]
    have : a = b := by
      have := hcl rfl
      rw [ha, hb] at this
      exact Option.some.inj this
    simp [this]

/-! ### the circle over ℝ -/

/-- `‖γ'(x)‖ = 1`: the circle is parametrised by arc length -/
theorem circle_unit_speed (x : ℝ) :
    HasDerivAt (fun y => (circle y).1) (circleDeriv x).1 x ∧
    HasDerivAt (fun y => (circle y).2) (circleDeriv x).2 x ∧
    Real.sqrt ((circleDeriv x).1 ^ 2 + (circleDeriv x).2 ^ 2) = 1 :=
  ⟨(circle_hasDerivAt x).1, (circle_hasDerivAt x).2, circleDeriv_norm x⟩

/-- `γ(2π) = γ(0)` : closed, with the declared length `pw_start = [0, 2π]` -/
theorem circle_closed : circle (2 * Real.pi) = circle 0 := circle_period

/-! ### non-vacuity: the shipped polygons are accepted, with the expected break points -/

example : pwOf unitSquare = some [0, 1, 2, 3, 4] := by decide +kernel
example : pwOf lShape = some [0, 1, 2, 4, 6, 7, 8] := by decide +kernel
example : pwOf unitInterval = some [0, 1] := by decide +kernel
/-- a zero-length side is rejected (`nan` in NumPy) -/
example : pwOf (polygon [(0, 0), (1, 0), (1, 0), (0, 0)] true) = none := by decide +kernel
/-- hypotheses of `polygon_accepts` on the unit square -/
example : ∃ c, polygon [(0, 0), (1, 0), (1, 1), (0, 1), (0, 0)] true = .ok c :=
  polygon_accepts (by simp) (by simp [pairs]) (by simp)

end Stbem.Param

namespace Stbem.Mesh

/-! ### piece assignment -/

/-- the index assigned to a parameter is an index of a piece whose half-open range contains it … -/
theorem piece_assigned_index {pw : List Rat} {x : Rat} {i : Nat} (h : pieceOf pw x = some i) :
    ∃ p, (pairs pw)[i]? = some p ∧ p.1 ≤ x ∧ x < p.2 := pieceOf_some h

/-- … the only one when `pw_start` is strictly increasing … -/
theorem piece_assigned_unique {pw : List Rat} (hs : SInc pw) {x : Rat} {k : Nat} {p : Rat × Rat}
    (h : (pairs pw)[k]? = some p) (h1 : p.1 ≤ x) (h2 : x < p.2) : pieceOf pw x = some k :=
  pieceOf_unique hs h h1 h2

/-- … and it exists for every parameter of `[pw[0], pw[-1])` -/
theorem piece_assigned_exists {pw : List Rat} {x : Rat} (h1 : pw.headD 0 ≤ x) (h2 : x < pw.getLastD 0) :
    ∃ j, pieceOf pw x = some j := pieceOf_exists h1 h2

/-- the roots (before the guard) carry the piece that `pieceOf` assigns to their left end -/
theorem piece_assigned_roots {perSlab closed : Bool} {pw X T : List Rat} {m : Mesh}
    (h : initParam perSlab closed pw X T = .ok m) :
    ∀ c ∈ (baseMesh closed pw X T).leaves, pieceOf pw c.x0 = some c.piece := by
  obtain ⟨_, _, hsome, _⟩ := initParam_cases h
  intro c hc
  obtain ⟨c0, hc0, rfl⟩ := List.mem_map.mp hc
  obtain ⟨i, hi⟩ := hsome c0 hc0
  simp [assign, hi]

/-- if the strictly increasing initial space grid contains all break points, every leaf of the mesh
that `MeshParametrized.__init__` returns (guard included, either variant) lies inside the parameter
range of the piece it carries -/
theorem piece_assigned {perSlab closed : Bool} {pw X T : List Rat} {m : Mesh} (hX : SInc X)
    (hsub : ∀ p ∈ pw, p ∈ X) (h : initParam perSlab closed pw X T = .ok m) : PieceOK pw m :=
  initParam_pieceOK hX hsub h

/-- children inherit the piece (`gamma_space = parent.gamma_space`) and stay inside its range:
for every history of operations -/
theorem piece_inherited {pw : List Rat} {m0 m : Mesh} (h0 : PieceOK pw m0) (hr : Reach m0 m) :
    PieceOK pw m :=
  hr.pres (PieceOK pw) (fun m c ax => bisect_forall (OnPiece pw) (children_onPiece pw) m c ax) h0

/-- one bisection: both children carry the parent's piece -/
theorem piece_inherited_children (k : Nat) (c : Cell) (ax : Ax) :
    (children k c ax).1.piece = c.piece ∧ (children k c ax).2.piece = c.piece := children_piece k c ax

/-! ### at least three elements around a closed curve -/

/-- **repaired guard**: whatever initial time grid `T` is supplied, at every time of `[T₀, T_last)`
at least three leaves lie around the closed curve -/
theorem three_per_slab {pw X T : List Rat} {m : Mesh} (hX2 : 2 ≤ X.length)
    (h : initParam true true pw X T = .ok m) :
    ∀ t, T.headD 0 ≤ t → t < T.getLastD 0 → 3 ≤ cross m t :=
  (initParam_three hX2 h).2

/- NOT PROVED (totality of the guard): under `SInc X`, `SInc T`, `pw.head = 0`,
   `∃ m, initParam true true pw X T = .ok m` — i.e. that the two rounds `for elem in leaves:
   self.refine_space(elem)` never trip `assert not elem.children`.  It holds because all leaves have
   the same space level when the guard runs (no closure bisections); the statement is exercised by
   the correspondence run and by the kernel-evaluated examples below.  `three_per_slab` is the
   partial-correctness half: whatever `initParam true` returns has ≥ 3 leaves around the curve. -/

/-- the number of leaves around the curve at a given time never decreases: `3 ≤ cross` is kept by
every history of operations -/
theorem three_per_slab_reach {a b : Rat} {m0 m : Mesh} (h0 : ThreeAround a b m0) (hr : Reach m0 m) :
    ThreeAround a b m :=
  hr.pres (ThreeAround a b) (bisect_threeAround a b) h0

/-- **pinned guard** (F3): one-piece closed curve of length 7 (circle-like: `pw = X = [0, 7]`), three
time slabs: three roots in total, so `len(self.roots) < 3` is false, nothing is refined and every
slab keeps ONE element around the curve -/
theorem three_per_slab_unfixed_witness :
    crossAt (initParam false true [0, 7] [0, 7] [0, 1, 2, 3]) [0, 1/2, 1, 2, 5/2] = some (3, [1, 1, 1, 1, 1]) := by
  decide +kernel

/-- the same input with the repaired guard: four elements around the curve in every slab -/
theorem three_per_slab_fixed_witness :
    crossAt (initParam true true [0, 7] [0, 7] [0, 1, 2, 3]) [0, 1/2, 1, 2, 5/2] = some (12, [4, 4, 4, 4, 4]) := by
  decide +kernel

/-- the statement of `three_per_slab` is false for the pinned guard -/
theorem three_per_slab_unfixed_fails :
    ¬ ∀ (pw X T : List Rat) (m : Mesh), 2 ≤ X.length → initParam false true pw X T = .ok m →
      ∀ t, T.headD 0 ≤ t → t < T.getLastD 0 → 3 ≤ cross m t := by
  intro hall
  have hw := three_per_slab_unfixed_witness
  cases hm : initParam false true [0, 7] [0, 7] [0, 1, 2, 3] with
  | error e => rw [hm] at hw; simp [crossAt] at hw
  | ok m =>
    rw [hm] at hw
    simp only [crossAt, Option.some.injEq, Prod.mk.injEq, List.map_cons, List.map_nil, List.cons.injEq] at hw
    have := hall [0, 7] [0, 7] [0, 1, 2, 3] m (by simp) hm 0 (by simp) (by simp)
    omega

/-! ### touching -/

/-- On a mesh satisfying the tiling invariant of C02 on which (when glued) at least three leaves lie
around the curve at every time, two distinct leaves whose time intervals overlap do not touch in
both end points (directly or through the seam). -/
theorem touch_at_most_one_endpoint {m : Mesh} (h : Inv m)
    (h3 : m.glue = true → ∀ t, m.tmin ≤ t → t < m.tmax → 3 ≤ cross m t)
    {c d : Cell} (hc : c ∈ m.leaves) (hd : d ∈ m.leaves) (hne : c ≠ d) (hov : OvT c d) :
    ¬ (TouchR m c d ∧ TouchR m d c) := touch_one_end h h3 hc hd hne hov

/-- **C18, mesh part, for all inputs and histories** (repaired guard): from strictly increasing grids
`X ⊇ pw`, `T`, every mesh reachable from `MeshParametrized(γ, X, T)` by any history of operations
satisfies: tiling invariant; every leaf lies in the range of the piece it carries; on a closed curve
at least three leaves around the curve at every time; two distinct leaves never touch in both end
points. -/
theorem c18_mesh {closed : Bool} {pw X T : List Rat} {m0 m : Mesh} (hX : SInc X) (hT : SInc T)
    (hX2 : 2 ≤ X.length) (hT2 : 2 ≤ T.length) (hsub : ∀ p ∈ pw, p ∈ X)
    (h : initParam true closed pw X T = .ok m0) (hr : Reach m0 m) :
    Inv m ∧ PieceOK pw m ∧
    (closed = true → ∀ t, T.headD 0 ≤ t → t < T.getLastD 0 → 3 ≤ cross m t) ∧
    ∀ c ∈ m.leaves, ∀ d ∈ m.leaves, c ≠ d → OvT c d → ¬ (TouchR m c d ∧ TouchR m d c) := by
  obtain ⟨i0, r0⟩ := initParam_inv hX hT hX2 hT2 h
  obtain ⟨i, r⟩ := hr.inv i0
  have hp := piece_inherited (piece_assigned hX hsub h) hr
  have h3 : closed = true → ∀ t, T.headD 0 ≤ t → t < T.getLastD 0 → 3 ≤ cross m t := by
    rintro rfl
    exact (three_per_slab_reach (initParam_three hX2 h) hr).2
  refine ⟨i, hp, h3, ?_⟩
  intro c hc d hd hne hov
  have hbox := (r0.trans r)
  refine touch_at_most_one_endpoint i ?_ hc hd hne hov
  intro hg t t1 t2
  have hcl : closed = true := by
    have := hbox.glue
    rw [hg] at this
    exact this.symm
  refine h3 hcl t ?_ ?_
  · rw [hbox.box.2.2.1] at t1; exact t1
  · rw [hbox.box.2.2.2] at t2; exact t2

/-! ### non-vacuity -/

theorem sinc_01234 : SInc [0, 1, 2, 3, 4] := by simp [SInc]; norm_num
theorem sinc_0123 : SInc [0, 1, 2, 3] := by simp [SInc]; norm_num

/-- unit square, three time slabs: the hypotheses of `c18_mesh` hold (4 elements per slab) -/
example : crossAt (initParam true true [0, 1, 2, 3, 4] [0, 1, 2, 3, 4] [0, 1, 2, 3]) [0, 1, 2] = some (12, [4, 4, 4]) := by
  decide +kernel

example : ∃ m0, initParam true true [0, 1, 2, 3, 4] [0, 1, 2, 3, 4] [0, 1, 2, 3] = .ok m0 ∧
    Inv m0 ∧ PieceOK [0, 1, 2, 3, 4] m0 := by
  cases hm : initParam true true [0, 1, 2, 3, 4] [0, 1, 2, 3, 4] [0, 1, 2, 3] with
  | error e =>
    have : crossAt (initParam true true [0, 1, 2, 3, 4] [0, 1, 2, 3, 4] [0, 1, 2, 3]) [] = some (12, []) := by
      decide +kernel
    rw [hm] at this; simp [crossAt] at this
  | ok m0 =>
    have h := c18_mesh sinc_01234 sinc_0123 (by simp) (by simp) (fun p hp => hp) hm Reach.base
    exact ⟨m0, rfl, h.1, h.2.1⟩

/-- a history exists: refine root 0 in space, then its first child in time -/
example : crossAt ((initParam true true [0, 7] [0, 7] [0, 1, 2, 3]) >>= fun m =>
    refineId m 9 .space >>= fun m => refineId m 21 .time) [0, 1/2] = some (14, [5, 5]) := by
  decide +kernel

end Stbem.Mesh
