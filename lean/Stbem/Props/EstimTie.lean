import Stbem.Lemmas.EstimGenHH2
import Stbem.Props.C20

/-!
# EstimTie — the two estimator files REGENERATED FROM SOURCE equal the hand-written estimator model

`Stbem.Gen.EstimGen` is produced on every run by `translate/estimgen.py` from `src/hierarchical_error_estimator.py` and
`src/h_h2_error_estimator.py` (Python `ast` → Lean `do` blocks, statement by statement in the order of the source; the leaves
`SL.bilform_matrix`, `M0.linform_vector`, `g`, `np.linalg.solve`, `np.sqrt` are parameters).  This file proves

* A. `DummyElement.uniform_refinement`: closed form for ALL inputs (four children per element in the order of the source,
  identities in the order of allocation; `"unpack"` exactly when an element does not have four vertices); for elements that
  follow the vertex convention of `Element.__init__` the children are the quadrants `LL, LR, UL, UR` = `quarters` of the hand
  model, follow the convention again, inherit `gamma_space`, tile the parent (C20.A for the generated function);
* B. the sign patterns of the generated `estimate` are `Gen/Consts.hierPatterns` (the constant C13's
  `hierarchical_scaling_pos` quantifies over) and are, point by point, the time-split / space-split / checkerboard functions;
* C. `HierarchicalErrorEstimator.estimate` = `hierEstimate` of the hand model on the arrays the leaves return, whenever these
  have the documented shapes; hence the C20.D results for the generated function: the hierarchical formula, non-negativity,
  the ½–½ sharing, failure only through `assert scaling_estim > 0`;
* D. `HH2ErrorEstimator.estimate` = `np.sqrt` of `hh2Sq` (errors included); hence C20.E for the generated function: the
  radicand is `dᵀ A d` with `A d` the fine residual of the extension, it vanishes when the extension solves the fine problem;
  `np.repeat(Phi, 4)` is the piecewise-constant extension to the children of the generated `uniform_refinement`.

If the source changes so that a child moves to another position, a sign or the sharing factor changes, another block / row
is used, the repeat factor or the order of the operations with an observable effect differs, these theorems no longer check.
-/
namespace Stbem.EstimTie
open Stbem.Estim Stbem.Gen.EstimGen Stbem.EstimConv

/-! ## A. `DummyElement.uniform_refinement` -/

/-- closed form, for all inputs: elements with four vertices each … -/
theorem gen_uniform_refinement_eq {Γ : Type} (heap : Nat) (elems : List (DummyElement Γ))
    (h : ∀ e ∈ elems, e.vertices.length = 4) :
    DummyElement.uniform_refinement heap elems = .ok (kidsFrom heap elems, heap + 4 * elems.length) :=
  uniform_refinement_eq heap elems h

/-- … and otherwise the unpacking `v0, v1, v2, v3 = elem_coarse.vertices` fails -/
theorem gen_uniform_refinement_unpack {Γ : Type} (heap : Nat) (elems : List (DummyElement Γ))
    (h : ∃ e ∈ elems, e.vertices.length ≠ 4) : DummyElement.uniform_refinement heap elems = .error "unpack" :=
  uniform_refinement_unpack elems heap h

/-- the children lists: one per element, four children each, identities `heap, heap + 1, …` in the flattened order (all
distinct: the position map `elem_2_idx_fine` is injective) -/
theorem gen_children_identities {Γ : Type} (heap : Nat) (elems : List (DummyElement Γ))
    (h : ∀ e ∈ elems, e.vertices.length = 4) :
    (kidsFrom heap elems).length = elems.length ∧ (∀ c ∈ kidsFrom heap elems, c.length = 4) ∧
    (kidsFrom heap elems).flatten.map (·.oid) = List.range' heap (4 * elems.length) ∧
    ((kidsFrom heap elems).flatten.map (·.oid)).Nodup :=
  ⟨kidsFrom_length elems heap, kidsFrom_mem_length elems heap h, kidsFrom_oids elems heap h, by
    rw [kidsFrom_oids elems heap h]; exact List.nodup_range'⟩

/-- elements that follow the vertex convention `(t0,x0), (t0,x1), (t1,x1), (t1,x0)` of `Element.__init__` for the
rectangles `rs`: the generated routine returns, flattened, elements with the rectangles `fineRects rs` of the hand model in
its order; child `k` of element `i` is quadrant `k` of `[LL, LR, UL, UR]`, follows the convention again and inherits
`gamma_space` -/
theorem gen_children_quadrants {Γ : Type} (heap : Nat) (elems : List (DummyElement Γ)) (rs : List Rect)
    (h : elems.map coordsOf = rs.map cornersOf) :
    ∃ kids, DummyElement.uniform_refinement heap elems = .ok (kids, heap + 4 * elems.length) ∧
      kids.flatten.map rectOf = fineRects rs ∧
      ∀ (i : Nat) e r, elems[i]? = some e → rs[i]? = some r →
        ∃ c, kids[i]? = some c ∧ c.map rectOf = [r.LL, r.LR, r.UL, r.UR] ∧
          ∀ k ∈ c, coordsOf k = cornersOf (rectOf k) ∧ k.gamma_space = e.gamma_space := by
  have hc : ∀ (i : Nat) e r, elems[i]? = some e → rs[i]? = some r → coordsOf e = cornersOf r := by
    intro i e r he hr
    have := congrArg (·[i]?) h
    simp only [List.getElem?_map, he, hr, Option.map_some, Option.some.injEq] at this
    exact this
  have h4 : ∀ e ∈ elems, e.vertices.length = 4 := by
    intro e he
    obtain ⟨i, hi, rfl⟩ := List.getElem_of_mem he
    have hl : elems.length = rs.length := by simpa using congrArg List.length h
    exact coords_length _ rs[i] (hc i _ _ (List.getElem?_eq_getElem hi) (List.getElem?_eq_getElem (by omega)))
  refine ⟨kidsFrom heap elems, uniform_refinement_eq heap elems h4, kidsFrom_rects elems rs heap h, ?_⟩
  intro i e r he hr
  refine ⟨kids4 (heap + 4 * i) e, by rw [kidsFrom_get, he]; rfl, ?_, (kids4_rects _ e r (hc i e r he hr)).2⟩
  rw [(kids4_rects _ e r (hc i e r he hr)).1, quarters_eq]

/-- C20.A for the generated routine: the rectangles of the four children of an element tile its rectangle -/
theorem gen_children_tile {Γ : Type} (b : Nat) (e : DummyElement Γ) (r : Rect) (h : coordsOf e = cornersOf r) (hp : r.Proper) :
    (∀ q ∈ (kids4 b e).map rectOf, q.Proper ∧ q.Sub r) ∧
    ∀ t x, (r.Contains t x ↔ ∃ q ∈ (kids4 b e).map rectOf, q.Contains t x) ∧
      ((kids4 b e).map rectOf).Pairwise fun a b => ¬(a.Contains t x ∧ b.Contains t x) := by
  rw [(kids4_rects b e r h).1]
  exact quarters_tile r hp

/-- the hypotheses are satisfiable: the elements `elemsOf` built from rectangles follow the convention -/
theorem elemsOf_convention {Γ : Type} (base : Nat) (γ : Γ) (rs : List Rect) :
    (elemsOf base γ rs).map coordsOf = rs.map cornersOf := by
  unfold elemsOf enumerate
  suffices H : ∀ (l : List Rect) (k : Nat),
      ((enumerateFrom k l).map fun x => elemOf (base + x.1) γ 0 x.2).map coordsOf = l.map cornersOf from H rs 0
  intro l
  induction l with
  | nil => intro k; rfl
  | cons r l ih => intro k; simp only [enumerateFrom, List.map_cons, ih (k + 1), elemOf_coords]

example : (fun r => (r.1.flatten.map fun e => (e.oid, rectOf e), r.2)) <$>
    DummyElement.uniform_refinement 1 (elemsOf 0 () [(⟨0, 1, 0, 2⟩ : Rect)]) =
    .ok ([(1, ⟨0, 1/2, 0, 1⟩), (2, ⟨0, 1/2, 1, 2⟩), (3, ⟨1/2, 1, 0, 1⟩), (4, ⟨1/2, 1, 1, 2⟩)], 5) := by decide +kernel

example : ∃ kids, DummyElement.uniform_refinement 2 (elemsOf 0 () [(⟨0, 1, 0, 2⟩ : Rect), ⟨1, 3, 0, 1⟩]) = .ok (kids, 10) ∧
    kids.flatten.map rectOf = fineRects [⟨0, 1, 0, 2⟩, ⟨1, 3, 0, 1⟩] := by
  obtain ⟨kids, h1, h2, -⟩ := gen_children_quadrants 2 (elemsOf 0 () [(⟨0, 1, 0, 2⟩ : Rect), ⟨1, 3, 0, 1⟩]) _
    (elemsOf_convention 0 () _)
  exact ⟨kids, h1, h2⟩

/-- an element with three vertices -/
def triangle : DummyElement Unit := { elemOf 0 () 0 ⟨0, 1, 0, 2⟩ with vertices := [⟨0, 0, 0⟩, ⟨0, 2, 0⟩, ⟨1, 2, 0⟩] }

example : DummyElement.uniform_refinement 1 [triangle] = .error "unpack" :=
  gen_uniform_refinement_unpack 1 [triangle] ⟨triangle, by simp, by simp [triangle]⟩

/-! ## B. the sign patterns -/

/-- the sign patterns the regenerated `estimate` iterates over are the constant `hierPatterns` of `Gen/Consts.lean`, which
`Stbem.PosDef.hierarchical_scaling_pos` (C13) quantifies over and `Stbem.Estim.hierLocal` (hand model) uses -/
theorem gen_patterns_eq_consts : HierarchicalErrorEstimator.estimate_table1 = Stbem.Gen.Consts.hierPatterns := by decide

/-- the float literal of the sharing is one half, the factor of `Gen/Consts.hierCombine` -/
theorem gen_sharing_factor : Stbem.Gen.Consts.hierCombine = [[1, 0, c_0p5], [0, 1, c_0p5]] := by decide +kernel

/-- C20.B for the generated table: on a point of child `k` of the generated routine, entry `k` of pattern 0 / 1 / 2 is the
time-split / space-split / checkerboard function of the parent rectangle -/
theorem gen_patterns_meaning {Γ : Type} (b : Nat) (e : DummyElement Γ) (r : Rect) (h : coordsOf e = cornersOf r) (k : Nat)
    (c : DummyElement Γ) (hc : (kids4 b e)[k]? = some c) (t x : Rat) (hin : (rectOf c).Contains t x) :
    ((HierarchicalErrorEstimator.estimate_table1[0]?).bind (·[k]?)) = some (psiT r t) ∧
    ((HierarchicalErrorEstimator.estimate_table1[1]?).bind (·[k]?)) = some (psiX r x) ∧
    ((HierarchicalErrorEstimator.estimate_table1[2]?).bind (·[k]?)) = some (psiT r t * psiX r x) := by
  rw [gen_patterns_eq_consts]
  have hq : (quarters r)[k]? = some (rectOf c) := by
    rw [← (kids4_rects b e r h).1, List.getElem?_map, hc]; rfl
  exact patterns_meaning r k (rectOf c) hq t x hin

example : (kids4 1 (elemOf 0 () 0 ⟨0, 1, 0, 2⟩ : DummyElement Unit))[2]?.map rectOf = some ⟨1/2, 1, 0, 1⟩ ∧
    (⟨1/2, 1, 0, 1⟩ : Rect).Contains (3/4) (1/2) := by
  refine ⟨by decide +kernel, by unfold Rect.Contains; norm_num⟩

/-! ## C. `HierarchicalErrorEstimator.estimate` -/

/-- the leaves return arrays of the documented shapes on the element lists the generated routine hands them:
`bilform_matrix(test, trial)` is `len(test) × len(trial)`, `g` / `linform_vector` have one entry per element -/
structure HierShapes {Γ : Type} (est : HierarchicalErrorEstimator Γ) (heap : Nat) (elems : List (DummyElement Γ))
    (Phi : List Rat) : Prop where
  verts : ∀ e ∈ elems, e.vertices.length = 4
  phi : Phi.length = elems.length
  mat : (est.SL.bilform_matrix (kidsFrom heap elems).flatten elems (some true)).length = 4 * elems.length ∧
    ∀ r ∈ est.SL.bilform_matrix (kidsFrom heap elems).flatten elems (some true), r.length = elems.length
  g : ∀ f, est.g = some f → (f (kidsFrom heap elems).flatten).length = 4 * elems.length
  m0 : ∀ o, est.M0 = some o → (o.linform_vector (kidsFrom heap elems).flatten (some true)).length = 4 * elems.length
  blocks : ∀ c ∈ kidsFrom heap elems, (est.SL.bilform_matrix c c none).length = 4 ∧
    ∀ r ∈ est.SL.bilform_matrix c c none, r.length = 4

/-- the arguments of the hand model for a run of the generated routine: what the leaves return -/
def hierMat {Γ : Type} (self : HierarchicalErrorEstimator Γ) (heap : Nat) (elems : List (DummyElement Γ)) : List (List Rat) :=
  self.SL.bilform_matrix (kidsFrom heap elems).flatten elems (some true)
def hierG {Γ : Type} (self : HierarchicalErrorEstimator Γ) (heap : Nat) (elems : List (DummyElement Γ)) : Option (List Rat) :=
  self.g.map fun f => f (kidsFrom heap elems).flatten
def hierM0 {Γ : Type} (self : HierarchicalErrorEstimator Γ) (heap : Nat) (elems : List (DummyElement Γ)) : Option (List Rat) :=
  self.M0.map fun o => o.linform_vector (kidsFrom heap elems).flatten (some true)
def hierBlocks {Γ : Type} (self : HierarchicalErrorEstimator Γ) (heap : Nat) (elems : List (DummyElement Γ)) :
    List (List (List Rat)) :=
  (kidsFrom heap elems).map fun c => self.SL.bilform_matrix c c none

/-- **generated = hand model**: the matrix is assembled on (all children flattened, the elements) with `use_mp=True`, the
data vectors on the flattened children, block `i` on (children of element `i`, children of element `i`) without `use_mp`;
rows `4 i … 4 i + 3` of `rhs` / `VΦ` meet the coefficients of the patterns in the order of the children -/
theorem gen_hier_estimate_eq {Γ : Type} (self : HierarchicalErrorEstimator Γ) (heap : Nat) (elems : List (DummyElement Γ))
    (Phi : List Rat) (h : HierShapes self heap elems Phi) :
    self.estimate heap elems Phi =
      hierEstimate (hierMat self heap elems) Phi (hierG self heap elems) (hierM0 self heap elems) (hierBlocks self heap elems) :=
  hier_estimate_eq self heap elems Phi h.verts h.phi h.mat h.g h.m0 h.blocks

/-- C20.D for the generated routine, the hierarchical formula: per element all three scalings `⟨Vψ, ψ⟩ = cᵀ S c` are positive
and the two indicators are `(e_T + ½ e_C, e_X + ½ e_C)` with `e_ψ = |⟨rhs - VΦ, ψ⟩|² / ⟨Vψ, ψ⟩`, formed from rows
`4 i … 4 i + 3` of `rhs`, `VΦ` and the block of the children of element `i` -/
theorem gen_hier_def {Γ : Type} (self : HierarchicalErrorEstimator Γ) (heap : Nat) (elems : List (DummyElement Γ))
    (Phi : List Rat) (h : HierShapes self heap elems Phi) {out : List (List Rat)}
    (hout : self.estimate heap elems Phi = .ok out) :
    out.length = elems.length ∧ ∀ (i : Nat) c, (kidsFrom heap elems)[i]? = some c →
      0 < scaling pT (self.SL.bilform_matrix c c none) ∧ 0 < scaling pX (self.SL.bilform_matrix c c none) ∧
      0 < scaling pC (self.SL.bilform_matrix c c none) ∧
      out[i]? = some
        [indicator pT (slice (mkRhs (4 * elems.length) (hierG self heap elems) (hierM0 self heap elems)) i)
            (slice (mulVec (hierMat self heap elems) Phi) i) (self.SL.bilform_matrix c c none) +
          1 / 2 * indicator pC (slice (mkRhs (4 * elems.length) (hierG self heap elems) (hierM0 self heap elems)) i)
            (slice (mulVec (hierMat self heap elems) Phi) i) (self.SL.bilform_matrix c c none),
         indicator pX (slice (mkRhs (4 * elems.length) (hierG self heap elems) (hierM0 self heap elems)) i)
            (slice (mulVec (hierMat self heap elems) Phi) i) (self.SL.bilform_matrix c c none) +
          1 / 2 * indicator pC (slice (mkRhs (4 * elems.length) (hierG self heap elems) (hierM0 self heap elems)) i)
            (slice (mulVec (hierMat self heap elems) Phi) i) (self.SL.bilform_matrix c c none)] := by
  rw [gen_hier_estimate_eq self heap elems Phi h] at hout
  have hl : (hierMat self heap elems).length = 4 * elems.length := h.mat.1
  have hg : ∀ v, hierG self heap elems = some v → v.length = (hierMat self heap elems).length := by
    intro v hv
    unfold hierG at hv
    cases hgg : self.g with
    | none => rw [hgg] at hv; cases hv
    | some f => rw [hgg] at hv; cases hv; rw [hl]; exact h.g f hgg
  have hm : ∀ v, hierM0 self heap elems = some v → v.length = (hierMat self heap elems).length := by
    intro v hv
    unfold hierM0 at hv
    cases hmm : self.M0 with
    | none => rw [hmm] at hv; cases hv
    | some o => rw [hmm] at hv; cases hv; rw [hl]; exact h.m0 o hmm
  obtain ⟨h1, h2⟩ := hier_def hg hm hout
  refine ⟨by rw [h1, hierBlocks, List.length_map, kidsFrom_length], ?_⟩
  intro i c hc
  have := h2 i (self.SL.bilform_matrix c c none) (by rw [hierBlocks, List.getElem?_map, hc]; rfl)
  rw [hl] at this
  exact this

/-- the indicators of the generated routine are non-negative -/
theorem gen_hier_nonneg {Γ : Type} (self : HierarchicalErrorEstimator Γ) (heap : Nat) (elems : List (DummyElement Γ))
    (Phi : List Rat) (h : HierShapes self heap elems Phi) {out : List (List Rat)}
    (hout : self.estimate heap elems Phi = .ok out) : ∀ row ∈ out, ∀ e ∈ row, 0 ≤ e := by
  rw [gen_hier_estimate_eq self heap elems Phi h] at hout
  exact hier_nonneg hout

/-- the checkerboard contribution is shared half–half: the two indicators of an element add up to `e_T + e_X + e_C` -/
theorem gen_hier_share {Γ : Type} (self : HierarchicalErrorEstimator Γ) (heap : Nat) (elems : List (DummyElement Γ))
    (Phi : List Rat) (h : HierShapes self heap elems Phi) {out : List (List Rat)}
    (hout : self.estimate heap elems Phi = .ok out) (i : Nat) (c : List (DummyElement Γ))
    (hc : (kidsFrom heap elems)[i]? = some c) :
    (out[i]?).map List.sum = some
      (indicator pT (slice (mkRhs (4 * elems.length) (hierG self heap elems) (hierM0 self heap elems)) i)
          (slice (mulVec (hierMat self heap elems) Phi) i) (self.SL.bilform_matrix c c none) +
       indicator pX (slice (mkRhs (4 * elems.length) (hierG self heap elems) (hierM0 self heap elems)) i)
          (slice (mulVec (hierMat self heap elems) Phi) i) (self.SL.bilform_matrix c c none) +
       indicator pC (slice (mkRhs (4 * elems.length) (hierG self heap elems) (hierM0 self heap elems)) i)
          (slice (mulVec (hierMat self heap elems) Phi) i) (self.SL.bilform_matrix c c none)) := by
  obtain ⟨-, h2⟩ := gen_hier_def self heap elems Phi h hout
  rw [(h2 i c hc).2.2.2]
  simp only [Option.map_some, List.sum_cons, List.sum_nil, Option.some.injEq]
  ring

/-- the generated routine fails only through `assert scaling_estim > 0`: it returns whenever all scalings are positive … -/
theorem gen_hier_runs {Γ : Type} (self : HierarchicalErrorEstimator Γ) (heap : Nat) (elems : List (DummyElement Γ))
    (Phi : List Rat) (h : HierShapes self heap elems Phi)
    (hpos : ∀ c ∈ kidsFrom heap elems, 0 < scaling pT (self.SL.bilform_matrix c c none) ∧
      0 < scaling pX (self.SL.bilform_matrix c c none) ∧ 0 < scaling pC (self.SL.bilform_matrix c c none)) :
    ∃ out, self.estimate heap elems Phi = .ok out := by
  rw [gen_hier_estimate_eq self heap elems Phi h]
  apply hier_assert
  intro S hS
  rw [hierBlocks, List.mem_map] at hS
  obtain ⟨c, hc, rfl⟩ := hS
  exact hpos c hc

theorem mapM_error_tag {α β : Type} (f : α → Except String β) (tag : String)
    (hf : ∀ a e, f a = .error e → e = tag) : ∀ (l : List α) (e : String), l.mapM f = .error e → e = tag
  | [], e, h => by simp [pure, Except.pure] at h
  | a :: l, e, h => by
    rw [List.mapM_cons] at h
    cases hfa : f a with
    | error e' =>
      rw [hfa] at h
      cases h
      exact hf a _ hfa
    | ok b =>
      rw [hfa] at h
      cases hl : l.mapM f with
      | error e' =>
        rw [hl] at h
        cases h
        exact mapM_error_tag f tag hf l _ hl
      | ok bs => rw [hl] at h; cases h

/-- … and if it fails, the failure is that assertion -/
theorem gen_hier_error {Γ : Type} (self : HierarchicalErrorEstimator Γ) (heap : Nat) (elems : List (DummyElement Γ))
    (Phi : List Rat) (h : HierShapes self heap elems Phi) {e : String}
    (herr : self.estimate heap elems Phi = .error e) : e = "assert:scaling" := by
  rw [gen_hier_estimate_eq self heap elems Phi h] at herr
  unfold hierEstimate at herr
  refine mapM_error_tag _ "assert:scaling" ?_ _ _ herr
  intro p e' hp
  simp only [bind, Except.bind] at hp
  split at hp
  · rename_i e'' hl
    cases hp
    unfold hierLocal at hl
    refine mapM_error_tag _ "assert:scaling" ?_ _ _ hl
    intro c e3 hc
    unfold hierOne at hc
    simp only at hc
    split at hc
    · cases hc
    · cases hc; rfl
  · cases hp

/-! ### non-vacuity: one element `[0,1] × [0,2]`, constant leaves -/

def slOne : SingleLayerOperator Unit :=
  { bilform_matrix := fun test trial mp => match mp with
      | some _ => test.map fun _ => trial.map fun _ => (1 : Rat)
      | none => S0 }

def estOne : HierarchicalErrorEstimator Unit :=
  HierarchicalErrorEstimator.init slOne none (some fun es => (enumerate es).map fun x => ((x.1 + 1 : Nat) : Rat))

def elemsOne : List (DummyElement Unit) := elemsOf 0 () [(⟨0, 1, 0, 2⟩ : Rect)]

theorem estOne_shapes : HierShapes estOne 1 elemsOne [2] := by
  refine ⟨by decide, rfl, ⟨by decide +kernel, by decide +kernel⟩, ?_, ?_, by decide +kernel⟩
  · intro f hf
    cases hf
    decide +kernel
  · intro o ho; cases ho

/-- `VΦ = (2,2,2,2)`, data `(1,2,3,4)`: `e_T = 16/12`, `e_X = 4/12`, `e_C = 0` (the example of `Props/C20.lean`, run through the
generated routine) -/
example : estOne.estimate 1 elemsOne [2] = .ok [[4 / 3, 1 / 3]] := by decide +kernel

example : ∀ row ∈ [[(4 : Rat) / 3, 1 / 3]], ∀ e ∈ row, 0 ≤ e :=
  gen_hier_nonneg estOne 1 elemsOne [2] estOne_shapes (by decide +kernel)

/-- a non-positive scaling trips the assertion of the generated routine -/
example : (HierarchicalErrorEstimator.init ({ bilform_matrix := fun test trial mp => match mp with
      | some _ => test.map fun _ => trial.map fun _ => (1 : Rat)
      | none => [[0, 0, 0, 0], [0, 0, 0, 0], [0, 0, 0, 0], [0, 0, 0, 0]] } : SingleLayerOperator Unit) none none).estimate 1
    elemsOne [2] = .error "assert:scaling" := by decide +kernel

/-! ## D. `HH2ErrorEstimator.estimate` -/

/-- the leaves return arrays of the documented shapes on the flattened children -/
structure HH2Shapes {Γ : Type} (est : HH2ErrorEstimator Γ) (heap : Nat) (elems : List (DummyElement Γ)) : Prop where
  verts : ∀ e ∈ elems, e.vertices.length = 4
  mat : (est.SL.bilform_matrix (kidsFrom heap elems).flatten (kidsFrom heap elems).flatten (some est.use_mp)).length =
      4 * elems.length ∧
    ∀ r ∈ est.SL.bilform_matrix (kidsFrom heap elems).flatten (kidsFrom heap elems).flatten (some est.use_mp),
      r.length = 4 * elems.length
  g : ∀ f, est.g = some f → (f (kidsFrom heap elems).flatten).length = 4 * elems.length
  m0 : ∀ o, est.M0 = some o → (o.linform_vector (kidsFrom heap elems).flatten (some est.use_mp)).length = 4 * elems.length

def hh2Mat {Γ : Type} (self : HH2ErrorEstimator Γ) (heap : Nat) (elems : List (DummyElement Γ)) : List (List Rat) :=
  self.SL.bilform_matrix (kidsFrom heap elems).flatten (kidsFrom heap elems).flatten (some self.use_mp)
def hh2G {Γ : Type} (self : HH2ErrorEstimator Γ) (heap : Nat) (elems : List (DummyElement Γ)) : Option (List Rat) :=
  self.g.map fun f => f (kidsFrom heap elems).flatten
def hh2M0 {Γ : Type} (self : HH2ErrorEstimator Γ) (heap : Nat) (elems : List (DummyElement Γ)) : Option (List Rat) :=
  self.M0.map fun o => o.linform_vector (kidsFrom heap elems).flatten (some self.use_mp)

/-- **generated = hand model**, errors included (`LinAlgError`, `IndexError` of `Phi_prolong[1]`, the assertion, the
broadcasting error of `Phi_fine - Phi_prolong`): with `np.linalg.solve` the self-checking exact solver and `np.sqrt = sq`, the
generated routine returns `sq` of `hh2Sq`; the fine matrix and the data are assembled on the flattened children with
`use_mp = self.use_mp`, and `(diff.T @ A) @ diff` is `diffᵀ (A diff)` -/
theorem gen_hh2_estimate_eq {Γ ρ : Type} (sq : Rat → ρ) (self : HH2ErrorEstimator Γ) (heap : Nat)
    (elems : List (DummyElement Γ)) (Phi : List Rat) (h : HH2Shapes self heap elems) :
    self.estimate (npExt sq) heap elems Phi =
      sq <$> hh2Sq (hh2Mat self heap elems) Phi (hh2G self heap elems) (hh2M0 self heap elems) :=
  hh2_estimate_eq sq self heap elems Phi h.verts h.mat h.g h.m0

theorem ok_of_map_ok {α β : Type} {g : α → β} {x : Except String α} {b : β} (h : g <$> x = .ok b) :
    ∃ a, x = .ok a ∧ g a = b := by
  cases x with
  | error e => cases h
  | ok a => exact ⟨a, rfl, by injection h⟩

/-- C20.E for the generated routine: the value is `np.sqrt(dᵀ A d)` where `d = y - PΦ`, `y` solves the fine problem
`A y = rhs` and `PΦ = np.repeat(Phi, 4)`, hence `A d = rhs - A PΦ` is the fine residual of the extension -/
theorem gen_hh2_def {Γ ρ : Type} (sq : Rat → ρ) (self : HH2ErrorEstimator Γ) (heap : Nat) (elems : List (DummyElement Γ))
    (Phi : List Rat) (h : HH2Shapes self heap elems) {v : ρ} (hv : self.estimate (npExt sq) heap elems Phi = .ok v) :
    ∃ y, mulVec (hh2Mat self heap elems) y = mkRhs (4 * elems.length) (hh2G self heap elems) (hh2M0 self heap elems) ∧
      (npRepeat Phi 4).length = y.length ∧
      mulVec (hh2Mat self heap elems) (vsub y (npRepeat Phi 4)) =
        vsub (mkRhs (4 * elems.length) (hh2G self heap elems) (hh2M0 self heap elems))
          (mulVec (hh2Mat self heap elems) (npRepeat Phi 4)) ∧
      v = sq (dot (vsub y (npRepeat Phi 4)) (mulVec (hh2Mat self heap elems) (vsub y (npRepeat Phi 4)))) := by
  rw [gen_hh2_estimate_eq sq self heap elems Phi h] at hv
  obtain ⟨r, hr, rfl⟩ := ok_of_map_ok hv
  obtain ⟨y, a, b, c, d⟩ := hh2_def hr
  have hl : (hh2Mat self heap elems).length = 4 * elems.length := h.mat.1
  rw [hl] at a c
  exact ⟨y, a, b, c, by rw [d]; rfl⟩

/-- the radicand vanishes when the extension already solves the fine problem (fine matrix injective) -/
theorem gen_hh2_zero {Γ : Type} (self : HH2ErrorEstimator Γ) (heap : Nat) (elems : List (DummyElement Γ)) (Phi : List Rat)
    (h : HH2Shapes self heap elems)
    (hinj : InjOn (hh2Mat self heap elems) (mkRhs (4 * elems.length) (hh2G self heap elems) (hh2M0 self heap elems)).length)
    (hsolves : mulVec (hh2Mat self heap elems) (npRepeat Phi 4) =
      mkRhs (4 * elems.length) (hh2G self heap elems) (hh2M0 self heap elems))
    {v : Rat} (hv : self.estimate (npExt id) heap elems Phi = .ok v) : v = 0 := by
  rw [gen_hh2_estimate_eq id self heap elems Phi h] at hv
  obtain ⟨r, hr, rfl⟩ := ok_of_map_ok hv
  have hl : (hh2Mat self heap elems).length = 4 * elems.length := h.mat.1
  rw [← hl] at hinj hsolves
  exact hh2_zero hinj hsolves hr

/-- the generated routine returns whenever the fine solve does and the density has one entry per element (at least one): in
particular `assert Phi_prolong[0] == Phi_prolong[1]` never fails -/
theorem gen_hh2_runs {Γ ρ : Type} (sq : Rat → ρ) (self : HH2ErrorEstimator Γ) (heap : Nat) (elems : List (DummyElement Γ))
    (Phi : List Rat) (h : HH2Shapes self heap elems) (hne : Phi ≠ []) (hPhi : Phi.length = elems.length) {y : List Rat}
    (hy : solve (hh2Mat self heap elems) (mkRhs (4 * elems.length) (hh2G self heap elems) (hh2M0 self heap elems)) = some y) :
    self.estimate (npExt sq) heap elems Phi =
      .ok (sq (dot (vsub y (npRepeat Phi 4)) (mulVec (hh2Mat self heap elems) (vsub y (npRepeat Phi 4))))) := by
  have hl : (hh2Mat self heap elems).length = 4 * elems.length := h.mat.1
  have hyl : y.length = 4 * elems.length := by
    have := (solve_spec hy).2
    rw [this]
    apply mkRhs_length
    · intro v hv
      unfold hh2G at hv
      cases hgg : self.g with
      | none => rw [hgg] at hv; cases hv
      | some f => rw [hgg] at hv; cases hv; exact h.g f hgg
    · intro v hv
      unfold hh2M0 at hv
      cases hmm : self.M0 with
      | none => rw [hmm] at hv; cases hv
      | some o => rw [hmm] at hv; cases hv; exact h.m0 o hmm
  rw [gen_hh2_estimate_eq sq self heap elems Phi h]
  rw [← hl] at hy
  rw [hh2_runs hy hne (by rw [prolong4_length, hPhi, hyl])]
  rfl

/-- C20.C for the generated routines: fine element `j` of the flattened children is child `j % 4` of element `j / 4`, and
`np.repeat(Phi, 4)` carries at `j` the value of `Phi` at that element -/
theorem gen_repeat_is_extension {Γ : Type} (heap : Nat) (elems : List (DummyElement Γ)) (Phi : List Rat)
    (h4 : ∀ e ∈ elems, e.vertices.length = 4) (hlen : Phi.length = elems.length) :
    (kidsFrom heap elems).flatten.length = 4 * elems.length ∧ (npRepeat Phi 4).length = 4 * elems.length ∧
    ∀ (j : Nat) (q : DummyElement Γ), (kidsFrom heap elems).flatten[j]? = some q →
      ∃ e v, elems[j / 4]? = some e ∧ (kids4 (heap + 4 * (j / 4)) e)[j % 4]? = some q ∧
        Phi[j / 4]? = some v ∧ (npRepeat Phi 4)[j]? = some v := by
  refine ⟨kidsFrom_flatten_length elems heap h4, by rw [npRepeat_four, prolong4_length, hlen], ?_⟩
  intro j q hq
  have hj : 4 * (j / 4) + j % 4 = j := Nat.div_add_mod j 4
  have hk : j % 4 < 4 := Nat.mod_lt _ (by omega)
  rw [← hj, kidsFrom_flatten_get elems heap h4 (j / 4) (j % 4) hk] at hq
  cases he : elems[j / 4]? with
  | none => rw [he] at hq; cases hq
  | some e =>
    rw [he] at hq
    have hi : j / 4 < elems.length := by
      by_contra hn
      rw [List.getElem?_eq_none (by omega)] at he; cases he
    refine ⟨e, Phi[j / 4]'(by omega), rfl, hq, List.getElem?_eq_getElem _, ?_⟩
    have hpg := prolong4_get Phi (j / 4) (j % 4) hk
    rw [hj] at hpg
    rw [npRepeat_four, hpg]
    exact List.getElem?_eq_getElem _

/-! ### non-vacuity: one element, fine matrix `2 I` -/

def hh2One (gv : List Rat) : HH2ErrorEstimator Unit :=
  HH2ErrorEstimator.init { bilform_matrix := fun _ _ _ => A0 } none (some fun _ => gv) true

theorem hh2One_shapes (gv : List Rat) (hg : gv.length = 4) : HH2Shapes (hh2One gv) 1 elemsOne := by
  refine ⟨by decide, ⟨?_, ?_⟩, ?_, ?_⟩
  · show A0.length = 4 * elemsOne.length
    decide +kernel
  · show ∀ r ∈ A0, r.length = 4 * elemsOne.length
    decide +kernel
  · intro f hf
    cases hf
    exact hg
  · intro o ho; cases ho

/-- the examples of `Props/C20.lean`, run through the generated routine: radicand `2` … -/
example : (hh2One [1, 1, 1, 1]).estimate (npExt id) 1 elemsOne [1] = .ok 2 := by decide +kernel
/-- … `0` when the extension solves the fine problem … -/
example : (hh2One [1, 1, 1, 1]).estimate (npExt id) 1 elemsOne [1 / 2] = .ok 0 := by decide +kernel
/-- … `IndexError` for an empty density, a shape error for a density that is too long, `LinAlgError` for a singular matrix -/
example : (hh2One [1, 1, 1, 1]).estimate (npExt id) 1 elemsOne [] = .error "index" := by decide +kernel
example : (hh2One [1, 1, 1, 1]).estimate (npExt id) 1 elemsOne [1, 2] = .error "shape" := by decide +kernel
example : (HH2ErrorEstimator.init ({ bilform_matrix := fun _ _ _ => [[1, 1, 0, 0], [1, 1, 0, 0], [0, 0, 1, 0], [0, 0, 0, 1]] } :
    SingleLayerOperator Unit) none none false).estimate (npExt id) 1 elemsOne [1] = .error "singular" := by decide +kernel

/-- the hypotheses of `gen_hh2_zero` are satisfiable -/
example : (hh2One [1, 1, 1, 1]).estimate (npExt id) 1 elemsOne [1 / 2] = .ok 0 ∧ HH2Shapes (hh2One [1, 1, 1, 1]) 1 elemsOne ∧
    InjOn (hh2Mat (hh2One [1, 1, 1, 1]) 1 elemsOne)
      (mkRhs (4 * elemsOne.length) (hh2G (hh2One [1, 1, 1, 1]) 1 elemsOne) (hh2M0 (hh2One [1, 1, 1, 1]) 1 elemsOne)).length ∧
    mulVec (hh2Mat (hh2One [1, 1, 1, 1]) 1 elemsOne) (npRepeat [1 / 2] 4) =
      mkRhs (4 * elemsOne.length) (hh2G (hh2One [1, 1, 1, 1]) 1 elemsOne) (hh2M0 (hh2One [1, 1, 1, 1]) 1 elemsOne) :=
  ⟨by decide +kernel, hh2One_shapes _ rfl, A0_inj, by decide +kernel⟩

example : npRepeat [5, 7] 4 = [5, 5, 5, 5, 7, 7, 7, 7] := by decide +kernel

end Stbem.EstimTie
