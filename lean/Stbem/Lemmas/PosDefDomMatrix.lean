import Stbem.Lemmas.PosDefConseq
import Mathlib.Algebra.Order.AbsoluteValue.Basic
import Mathlib.Algebra.BigOperators.Field
import Mathlib.Tactic.NormNum

/-!
# Congruence and diagonal dominance (pure Mathlib): the theory behind the hint-based certificate `domCert`
-/
namespace Stbem.PosDef
set_option linter.unusedSectionVars false
open Matrix

variable {ι : Type} [Fintype ι] [DecidableEq ι]
variable {K : Type} [Field K] [LinearOrder K] [IsStrictOrderedRing K]

/-- congruence: `xᵀ (Rᵀ M R) x = (R x)ᵀ M (R x)` -/
theorem quadForm_congr (M R : Matrix ι ι K) (y : ι → K) :
    y ⬝ᵥ (Rᵀ * M * R) *ᵥ y = (R *ᵥ y) ⬝ᵥ M *ᵥ (R *ᵥ y) := by
  rw [← mulVec_mulVec, ← mulVec_mulVec, dotProduct_mulVec, vecMul_transpose]

/-- if a congruence transform `Rᵀ M R` has a positive definite form then so has `M` (and `R` is invertible) -/
theorem PosDefForm.of_congr {M R : Matrix ι ι K} (h : PosDefForm (Rᵀ * M * R)) : PosDefForm M := by
  have hdet := h.det_ne_zero
  rw [det_mul, det_mul, det_transpose] at hdet
  have hR : R.det ≠ 0 := fun h0 => hdet (by rw [h0]; ring)
  have hunit : IsUnit R.det := isUnit_iff_ne_zero.mpr hR
  intro x hx
  have hy : R *ᵥ (R⁻¹ *ᵥ x) = x := by rw [mulVec_mulVec, mul_nonsing_inv R hunit, one_mulVec]
  have hne : R⁻¹ *ᵥ x ≠ 0 := by
    intro h0
    rw [h0, mulVec_zero] at hy
    exact hx hy.symm
  have := h (R⁻¹ *ᵥ x) hne
  rwa [quadForm_congr, hy] at this

/-- strict diagonal dominance of rows + columns (`Σⱼ|nᵢⱼ| + Σⱼ|nⱼᵢ| < 4 nᵢᵢ`) makes the quadratic form positive definite -/
theorem posDefForm_of_dominant (N : Matrix ι ι K)
    (hdom : ∀ i, ∑ j, |N i j| + ∑ j, |N j i| < 4 * N i i) : PosDefForm N := by
  intro y hy
  -- s i j ≥ 0
  have hs : ∀ i j, 0 ≤ y i * N i j * y j + |N i j| * (y i * y i + y j * y j) / 2 := by
    intro i j
    have h1 : -(|N i j| * |y i * y j|) ≤ N i j * (y i * y j) := by
      have := neg_abs_le (N i j * (y i * y j))
      rwa [abs_mul] at this
    have h2 : |y i * y j| ≤ (y i * y i + y j * y j) / 2 := by
      rw [abs_le]
      constructor <;> nlinarith [sq_nonneg (y i + y j), sq_nonneg (y i - y j)]
    have h3 : 0 ≤ |N i j| := abs_nonneg _
    nlinarith
  have hdiag : ∀ i, 0 < N i i := by
    intro i
    have h1 : |N i i| ≤ ∑ j, |N i j| := Finset.single_le_sum (f := fun j => |N i j|) (fun j _ => abs_nonneg _) (Finset.mem_univ i)
    have h2 : |N i i| ≤ ∑ j, |N j i| := Finset.single_le_sum (f := fun j => |N j i|) (fun j _ => abs_nonneg _) (Finset.mem_univ i)
    have h3 := hdom i
    have h4 := neg_abs_le (N i i)
    by_contra hle
    have : N i i ≤ 0 := not_lt.mp hle
    have h5 : |N i i| = -N i i := abs_of_nonpos this
    linarith
  -- the quadratic form as a double sum
  have hq : y ⬝ᵥ N *ᵥ y = ∑ i, ∑ j, y i * N i j * y j := by
    simp only [dotProduct, mulVec, Finset.mul_sum]
    apply Finset.sum_congr rfl; intro i _
    apply Finset.sum_congr rfl; intro j _
    ring
  have hsplit : ∑ i, ∑ j, y i * N i j * y j =
      ∑ i, ∑ j, (y i * N i j * y j + |N i j| * (y i * y i + y j * y j) / 2)
        - (∑ i, (y i * y i) * (∑ j, |N i j|) + ∑ i, (y i * y i) * (∑ j, |N j i|)) / 2 := by
    have e1 : ∑ i, ∑ j, (y i * N i j * y j + |N i j| * (y i * y i + y j * y j) / 2) =
        ∑ i, ∑ j, y i * N i j * y j + (∑ i, ∑ j, |N i j| * (y i * y i) + ∑ i, ∑ j, |N i j| * (y j * y j)) / 2 := by
      simp only [Finset.sum_add_distrib, mul_add, add_div, ← Finset.sum_div]
    have e2 : ∑ i, ∑ j, |N i j| * (y i * y i) = ∑ i, (y i * y i) * (∑ j, |N i j|) := by
      apply Finset.sum_congr rfl; intro i _
      rw [Finset.mul_sum]
      apply Finset.sum_congr rfl; intro j _; ring
    have e3 : ∑ i, ∑ j, |N i j| * (y j * y j) = ∑ i, (y i * y i) * (∑ j, |N j i|) := by
      rw [Finset.sum_comm]
      apply Finset.sum_congr rfl; intro i _
      rw [Finset.mul_sum]
      apply Finset.sum_congr rfl; intro j _; ring
    rw [e1, e2, e3]; ring
  have hlow : ∑ i, 2 * N i i * (y i * y i) ≤
      ∑ i, ∑ j, (y i * N i j * y j + |N i j| * (y i * y i + y j * y j) / 2) := by
    apply Finset.sum_le_sum
    intro i _
    have h1 := Finset.single_le_sum (f := fun j => y i * N i j * y j + |N i j| * (y i * y i + y j * y j) / 2)
      (fun j _ => hs i j) (Finset.mem_univ i)
    have h2 : |N i i| = N i i := abs_of_pos (hdiag i)
    simp only [h2] at h1
    calc 2 * N i i * (y i * y i) = y i * N i i * y i + N i i * (y i * y i + y i * y i) / 2 := by ring
      _ ≤ _ := h1
  -- some coefficient is hit by a non-zero entry
  obtain ⟨i0, hi0⟩ := Function.ne_iff.mp hy
  have hpos : 0 < ∑ i, (y i * y i) * (4 * N i i - (∑ j, |N i j| + ∑ j, |N j i|)) := by
    apply Finset.sum_pos'
    · intro i _
      have := hdom i
      have h0 : 0 ≤ y i * y i := mul_self_nonneg _
      apply mul_nonneg h0; linarith
    · refine ⟨i0, Finset.mem_univ _, ?_⟩
      have := hdom i0
      have h0 : 0 < y i0 * y i0 := mul_self_pos.mpr hi0
      apply mul_pos h0; linarith
  have hexp : ∑ i, (y i * y i) * (4 * N i i - (∑ j, |N i j| + ∑ j, |N j i|)) =
      2 * ∑ i, 2 * N i i * (y i * y i) - (∑ i, (y i * y i) * (∑ j, |N i j|) + ∑ i, (y i * y i) * (∑ j, |N j i|)) := by
    rw [Finset.mul_sum, ← Finset.sum_add_distrib, ← Finset.sum_sub_distrib]
    apply Finset.sum_congr rfl; intro i _; ring
  rw [hq, hsplit]
  rw [hexp] at hpos
  linarith

end Stbem.PosDef
