import Stbem.Lemmas.EstimGenHier

/-!
# `HH2ErrorEstimator.estimate` regenerated from source equals `hh2Sq` of the hand-written model; geometry of the children
-/
namespace Stbem.EstimTie
open Stbem.Estim Stbem.Gen.EstimGen Stbem.EstimConv

/-- the regenerated `estimate` is `np.sqrt` of the hand model on the arrays the leaves return (fitting shapes) -/
theorem hh2_estimate_eq {Γ ρ : Type} (sq : Rat → ρ) (self : HH2ErrorEstimator Γ) (heap : Nat) (elems : List (DummyElement Γ))
    (Phi : List Rat) (hv : ∀ e ∈ elems, e.vertices.length = 4)
    (hmat : (self.SL.bilform_matrix (kidsFrom heap elems).flatten (kidsFrom heap elems).flatten (some self.use_mp)).length = 4 * elems.length ∧
      ∀ r ∈ self.SL.bilform_matrix (kidsFrom heap elems).flatten (kidsFrom heap elems).flatten (some self.use_mp), r.length = 4 * elems.length)
    (hg : ∀ f, self.g = some f → (f (kidsFrom heap elems).flatten).length = 4 * elems.length)
    (hm : ∀ o, self.M0 = some o → (o.linform_vector (kidsFrom heap elems).flatten (some self.use_mp)).length = 4 * elems.length) :
    self.estimate (npExt sq) heap elems Phi =
      sq <$> hh2Sq (self.SL.bilform_matrix (kidsFrom heap elems).flatten (kidsFrom heap elems).flatten (some self.use_mp)) Phi
        (self.g.map fun f => f (kidsFrom heap elems).flatten)
        (self.M0.map fun o => o.linform_vector (kidsFrom heap elems).flatten (some self.use_mp)) := by
  unfold HH2ErrorEstimator.estimate
  simp only []
  rw [uniform_refinement_eq heap elems hv, ok_bind]
  simp only [flatMap_id_map]
  rw [kidsFrom_flatten_length elems heap hv]
  refine Eq.trans (rhs_steps (4 * elems.length) self.g self.M0 (fun f => f (kidsFrom heap elems).flatten)
    (fun o => o.linform_vector (kidsFrom heap elems).flatten (some self.use_mp)) hg hm _) ?_
  unfold hh2Sq
  rw [hmat.1]
  have hrl : (mkRhs (4 * elems.length) (Option.map (fun f => f (kidsFrom heap elems).flatten) self.g)
      (Option.map (fun o => o.linform_vector (kidsFrom heap elems).flatten (some self.use_mp)) self.M0)).length = 4 * elems.length :=
    mkRhs_length _ _ _ (by intro v h; cases hgg : self.g with
      | none => rw [hgg] at h; cases h
      | some f => rw [hgg] at h; cases h; exact hg f hgg)
      (by intro v h; cases hmm : self.M0 with
      | none => rw [hmm] at h; cases h
      | some o => rw [hmm] at h; cases h; exact hm o hmm)
  generalize mkRhs (4 * elems.length) (Option.map (fun f => f (kidsFrom heap elems).flatten) self.g)
    (Option.map (fun o => o.linform_vector (kidsFrom heap elems).flatten (some self.use_mp)) self.M0) = rhs at hrl ⊢
  obtain ⟨hA1, hA2⟩ := hmat
  generalize self.SL.bilform_matrix (kidsFrom heap elems).flatten (kidsFrom heap elems).flatten (some self.use_mp) = A at hA1 hA2 ⊢
  simp only [npExt, npRepeat_four]
  cases hs : solve A rhs with
  | none => rfl
  | some y =>
    have hyl : y.length = 4 * elems.length := by rw [(solve_sound hs).2.1, hrl]
    have hpl := prolong4_length Phi
    simp only [ok_bind]
    generalize prolong4 Phi = p at hpl ⊢
    cases h0 : p[0]? with
    | none => simp [getIdx, h0]; rfl
    | some a =>
      cases h1 : p[1]? with
      | none => simp [getIdx, h0, h1, ok_bind, pure, Except.pure]; rfl
      | some b =>
        simp only [getIdx_of_some h0, getIdx_of_some h1, ok_bind]
        by_cases hab : a = b
        · rw [assertThat_true _ hab, ok_bind, if_neg (by simpa using hab)]
          by_cases hl : p.length = y.length
          · have hp2 : 2 ≤ p.length := by
              by_contra hn
              rw [List.getElem?_eq_none (by omega)] at h1; cases h1
            have hne : A ≠ [] := by intro h; rw [h, List.length_nil] at hA1; omega
            have hd : (vsub y p).length = 4 * elems.length := by rw [vsub_length hl.symm, hyl]
            rw [if_neg (by simpa using hl), npSub_ok hl.symm, ok_bind, npT,
              npVecMat_ok (n := 4 * elems.length) (by rw [hd, hA1]) hA2 hne, ok_bind,
              npVecVec_ok (by rw [vecMatAux_length _ _ _ hA2, hd]), ok_bind]
            have := dot_vecMatAux (vsub y p) A (vsub y p) (by rw [hd, hA1]) (by intro r hr; rw [hA2 r hr, hd])
            rw [hd] at this
            rw [this]
            rfl
          · rw [if_pos (by simpa using hl), npSub_shape (by omega) (by omega) (by omega)]
            rfl
        · rw [assertThat_false _ hab, if_pos (by simpa using hab)]
          rfl

/-! ### the children of an element that follows the vertex convention of `Element.__init__` -/

theorem kids4_rects {Γ : Type} (b : Nat) (e : DummyElement Γ) (r : Rect) (h : coordsOf e = cornersOf r) :
    (kids4 b e).map rectOf = quarters r ∧
    (∀ k ∈ kids4 b e, coordsOf k = cornersOf (rectOf k) ∧ k.gamma_space = e.gamma_space) := by
  have h4 : e.vertices.length = 4 := by
    have := congrArg List.length h
    simpa [coordsOf, cornersOf] using this
  obtain ⟨v0, v1, v2, v3, hv⟩ := four_of_length _ h4
  simp only [coordsOf, hv, cornersOf, List.map_cons, List.map_nil, List.cons.injEq, Prod.mk.injEq, and_true] at h
  obtain ⟨⟨a0, b0⟩, ⟨a1, b1⟩, ⟨a2, b2⟩, ⟨a3, b3⟩⟩ := h
  constructor
  · rw [quarters_eq]
    simp only [kids4, hv, List.map_cons, List.map_nil, rectOf, mkElem, mid, Rect.LL, Rect.LR, Rect.UL, Rect.UR, Rect.tm, Rect.xm,
      a0, a1, a2, a3, b0, b1, b2, b3]
    refine congrArg₂ _ ?_ (congrArg₂ _ ?_ (congrArg₂ _ ?_ (congrArg₂ _ ?_ rfl))) <;> (congr 1 <;> ring)
  · intro k hk
    simp only [kids4, hv, List.mem_cons, List.not_mem_nil, or_false] at hk
    rcases hk with rfl | rfl | rfl | rfl <;>
      simp only [coordsOf, mkElem, mid, cornersOf, rectOf, List.map_cons, List.map_nil, a0, a1, a2, a3, b0, b1, b2, b3, and_true] <;>
      (refine congrArg₂ _ ?_ (congrArg₂ _ ?_ (congrArg₂ _ ?_ (congrArg₂ _ ?_ rfl))) <;> (congr 1 <;> ring))

/-- elements that follow the convention for the rectangles `rs`: the flattened children have the rectangles
`fineRects rs` of the hand model, in its order -/
theorem kidsFrom_rects {Γ : Type} : ∀ (elems : List (DummyElement Γ)) (rs : List Rect) (b : Nat),
    elems.map coordsOf = rs.map cornersOf → (kidsFrom b elems).flatten.map rectOf = fineRects rs
  | [], [], _, _ => rfl
  | [], _ :: _, _, h => by simp at h
  | _ :: _, [], _, h => by simp at h
  | e :: l, r :: rs, b, h => by
    simp only [List.map_cons, List.cons.injEq] at h
    rw [kidsFrom, List.flatten_cons, List.map_append, (kids4_rects b e r h.1).1, kidsFrom_rects l rs (b + 4) h.2]
    rfl

theorem coords_length {Γ : Type} (e : DummyElement Γ) (r : Rect) (h : coordsOf e = cornersOf r) : e.vertices.length = 4 := by
  have := congrArg List.length h
  simpa [coordsOf, cornersOf] using this

theorem elemOf_coords {Γ : Type} (oid : Nat) (γ : Γ) (idx : Int) (r : Rect) : coordsOf (elemOf oid γ idx r) = cornersOf r := by
  simp [coordsOf, elemOf, cornersOf]

theorem elemOf_rect {Γ : Type} (oid : Nat) (γ : Γ) (idx : Int) (r : Rect) : rectOf (elemOf oid γ idx r) = r := rfl

/-- fine element number `4 i + k` is child `k` of element `i` -/
theorem kidsFrom_flatten_get {Γ : Type} : ∀ (elems : List (DummyElement Γ)) (b : Nat),
    (∀ e ∈ elems, e.vertices.length = 4) → ∀ (i k : Nat), k < 4 →
    (kidsFrom b elems).flatten[4 * i + k]? = (elems[i]?).bind fun e => (kids4 (b + 4 * i) e)[k]?
  | [], _, _, _, _, _ => by simp [kidsFrom]
  | e :: l, b, h, i, k, hk => by
    have hl : (kids4 b e).length = 4 := kids4_length b e (h e (by simp))
    rw [kidsFrom, List.flatten_cons]
    cases i with
    | zero =>
      simp only [Nat.mul_zero, Nat.zero_add, Nat.add_zero, List.getElem?_cons_zero, Option.bind_some]
      rw [List.getElem?_append_left (by omega)]
    | succ i =>
      rw [List.getElem?_append_right (by omega)]
      have e1 : 4 * (i + 1) + k - (kids4 b e).length = 4 * i + k := by omega
      rw [e1, kidsFrom_flatten_get l (b + 4) (fun x hx => h x (by simp [hx])) i k hk, List.getElem?_cons_succ]
      have e2 : b + 4 + 4 * i = b + 4 * (i + 1) := by omega
      rw [e2]

end Stbem.EstimTie
