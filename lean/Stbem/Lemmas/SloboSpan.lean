import Stbem.Lemmas.SloboBasic
import Stbem.Props.C15

/-!
Reduction of the Slobodeckij routines on polynomial data to moment functionals.

`Span2 m n` is the linear span of the monomials `xⁱ yʲ` (`i ≤ m`, `j ≤ n`) inside the functions
`ℚ → ℚ → ℚ`.  A tensor rule applied to a member of `Span2 m n` only depends on the moments of the
two factors up to `m` resp. `n` (`apply2_span_indep`, `apply2_span_moments`).  For polynomial data
the Duffy-transformed integrands of `semi14` and `semi12` are members of such a span
(`evalPoly_diff_span` is the divided-difference argument).
-/
namespace Stbem.Quad

inductive Span2 (m n : Nat) : (Rat → Rat → Rat) → Prop
  | mono (i j : Nat) (hi : i ≤ m) (hj : j ≤ n) : Span2 m n (fun x y => x ^ i * y ^ j)
  | zero : Span2 m n (fun _ _ => 0)
  | add {F G : Rat → Rat → Rat} : Span2 m n F → Span2 m n G → Span2 m n (fun x y => F x y + G x y)
  | smul (c : Rat) {F : Rat → Rat → Rat} : Span2 m n F → Span2 m n (fun x y => c * F x y)

namespace Span2

theorem congr {m n : Nat} {F G : Rat → Rat → Rat} (h : Span2 m n F) (e : ∀ x y, F x y = G x y) :
    Span2 m n G := by
  have : F = G := by funext x y; exact e x y
  exact this ▸ h

theorem mono_le {m n m' n' : Nat} {F : Rat → Rat → Rat} (h : Span2 m n F) (hm : m ≤ m') (hn : n ≤ n') :
    Span2 m' n' F := by
  induction h with
  | mono i j hi hj => exact Span2.mono i j (le_trans hi hm) (le_trans hj hn)
  | zero => exact Span2.zero
  | add _ _ ih1 ih2 => exact Span2.add ih1 ih2
  | smul c _ ih => exact Span2.smul c ih

theorem const (m n : Nat) (c : Rat) : Span2 m n (fun _ _ => c) :=
  (Span2.smul c (Span2.mono 0 0 (Nat.zero_le _) (Nat.zero_le _))).congr (by intro x y; simp)

theorem varX {m : Nat} (n : Nat) (hm : 1 ≤ m) : Span2 m n (fun x _ => x) :=
  (Span2.mono 1 0 hm (Nat.zero_le _)).congr (by intro x y; simp)

theorem varY (m : Nat) {n : Nat} (hn : 1 ≤ n) : Span2 m n (fun _ y => y) :=
  (Span2.mono 0 1 (Nat.zero_le _) hn).congr (by intro x y; simp)

theorem sub {m n : Nat} {F G : Rat → Rat → Rat} (hF : Span2 m n F) (hG : Span2 m n G) :
    Span2 m n (fun x y => F x y - G x y) :=
  (Span2.add hF (Span2.smul (-1) hG)).congr (by intro x y; ring)

private theorem mono_mul {m' n' : Nat} {G : Rat → Rat → Rat} (hG : Span2 m' n' G) (m n i j : Nat)
    (hi : i ≤ m) (hj : j ≤ n) : Span2 (m + m') (n + n') (fun x y => x ^ i * y ^ j * G x y) := by
  induction hG with
  | mono i' j' hi' hj' =>
    exact (Span2.mono (i + i') (j + j') (by omega) (by omega)).congr (by intro x y; rw [pow_add, pow_add]; ring)
  | zero => exact Span2.zero.congr (by intro x y; simp)
  | add _ _ ih1 ih2 => exact (Span2.add ih1 ih2).congr (by intro x y; ring)
  | smul c _ ih => exact (Span2.smul c ih).congr (by intro x y; ring)

theorem mul {m n m' n' : Nat} {F G : Rat → Rat → Rat} (hF : Span2 m n F) (hG : Span2 m' n' G) :
    Span2 (m + m') (n + n') (fun x y => F x y * G x y) := by
  induction hF with
  | mono i j hi hj => exact mono_mul hG m n i j hi hj
  | zero => exact Span2.zero.congr (by intro x y; simp)
  | add _ _ ih1 ih2 => exact (Span2.add ih1 ih2).congr (by intro x y; ring)
  | smul c _ ih => exact (Span2.smul c ih).congr (by intro x y; ring)

theorem sq {m n : Nat} {F : Rat → Rat → Rat} (hF : Span2 m n F) :
    Span2 (2 * m) (2 * n) (fun x y => F x y ^ 2) :=
  ((hF.mul hF).mono_le (by omega) (by omega)).congr (by intro x y; ring)

end Span2

/-- a polynomial of degree `≤ k` in a member of `Span2 m n` is a member of `Span2 (k m) (k n)` -/
theorem Span2.evalPoly {m n : Nat} {U : Rat → Rat → Rat} (hU : Span2 m n U) :
    ∀ (cs : List Rat) (k : Nat), cs.length ≤ k + 1 →
      Span2 (k * m) (k * n) (fun x y => Stbem.Quad.evalPoly cs (U x y)) := by
  intro cs
  induction cs with
  | nil => intro k _; exact Span2.zero.congr (by intro x y; simp [Stbem.Quad.evalPoly])
  | cons c cs ih =>
    intro k hk
    have e : ∀ u, Stbem.Quad.evalPoly (c :: cs) u = c + u * Stbem.Quad.evalPoly cs u := fun u => rfl
    cases k with
    | zero =>
      have : cs = [] := by
        cases cs with
        | nil => rfl
        | cons _ _ => simp at hk
      subst this
      exact (Span2.const _ _ c).congr (by intro x y; simp [Stbem.Quad.evalPoly])
    | succ k =>
      have h1 := ih k (by simpa using hk)
      have h2 := hU.mul h1
      have h3 : Span2 ((k + 1) * m) ((k + 1) * n) (fun x y => U x y * Stbem.Quad.evalPoly cs (U x y)) :=
        h2.mono_le (by rw [Nat.succ_mul]; omega) (by rw [Nat.succ_mul]; omega)
      exact (Span2.add (Span2.const _ _ c) h3).congr (by intro x y; rw [e])

theorem evalPoly_short (cs : List Rat) (h : cs.length ≤ 1) : ∃ k, ∀ u, evalPoly cs u = k := by
  match cs, h with
  | [], _ => exact ⟨0, fun _ => rfl⟩
  | [c], _ => exact ⟨c, fun u => by simp [evalPoly]⟩

/-- **divided differences**: if `U - V = Δ · W` then `p(U) - p(V) = Δ · Q` with `Q` in the span of
the monomials of bidegree `(d + w, d)` for every polynomial `p` of degree `≤ d + 1` -/
theorem evalPoly_diff_span {w : Nat} {U V W Δ : Rat → Rat → Rat}
    (hU : Span2 1 0 U) (hV : Span2 1 1 V) (hW : Span2 w 0 W)
    (hUV : ∀ x y, U x y - V x y = Δ x y * W x y) :
    ∀ (cs : List Rat) (d : Nat), cs.length ≤ d + 2 →
      ∃ Q, Span2 (d + w) d Q ∧ ∀ x y, evalPoly cs (U x y) - evalPoly cs (V x y) = Δ x y * Q x y := by
  intro cs
  induction cs with
  | nil => intro d _; exact ⟨fun _ _ => 0, Span2.zero, by intro x y; simp [evalPoly]⟩
  | cons c cs ih =>
    intro d hd
    have e : ∀ u, evalPoly (c :: cs) u = c + u * evalPoly cs u := fun u => rfl
    cases d with
    | zero =>
      obtain ⟨k, hk⟩ := evalPoly_short cs (by simpa using hd)
      refine ⟨fun x y => k * W x y, (Span2.smul k hW).mono_le (by omega) (le_refl _), ?_⟩
      intro x y
      rw [e, e, hk, hk]
      linear_combination k * hUV x y
    | succ d =>
      obtain ⟨Q', hQ', hdiff⟩ := ih d (by simpa using hd)
      have hE : Span2 (d + 1) 0 (fun x y => evalPoly cs (U x y)) := by
        have := hU.evalPoly cs (d + 1) (by simpa using hd)
        exact this.mono_le (by omega) (by omega)
      refine ⟨fun x y => W x y * evalPoly cs (U x y) + V x y * Q' x y, ?_, ?_⟩
      · exact Span2.add ((hW.mul hE).mono_le (by omega) (by omega)) ((hV.mul hQ').mono_le (by omega) (by omega))
      · intro x y
        rw [e, e]
        linear_combination evalPoly cs (U x y) * hUV x y + V x y * hdiff x y

/-! ## tensor rules on a span only see the moments -/

theorem apply2_zero (r : Rule2) : apply2 r (fun _ _ => 0) = 0 := by
  unfold apply2
  rw [sumR_map_congr _ (fun _ => (0 : Rat)) _ (by intro n _; ring)]
  exact sumR_map_zero _

theorem apply2_span_indep {m n : Nat} {F : Rat → Rat → Rat} (hF : Span2 m n F) {rx ry rx' ry' : Rule1}
    (hx : ∀ i, i ≤ m → mom rx i = mom rx' i) (hy : ∀ j, j ≤ n → mom ry j = mom ry' j) :
    apply2 (product2 rx ry) F = apply2 (product2 rx' ry') F := by
  induction hF with
  | mono i j hi hj => rw [product2_monomial, product2_monomial, hx i hi, hy j hj]
  | zero => rw [apply2_zero, apply2_zero]
  | add _ _ ih1 ih2 => rw [apply2_add, apply2_add, ih1, ih2]
  | smul c _ ih => rw [apply2_smul, apply2_smul, ih]

/-- explicit form: a tensor rule applied to a member of the span is a fixed bilinear form in the
moments (the coefficients do not depend on the rules) -/
theorem apply2_span_moments {m n : Nat} {F : Rat → Rat → Rat} (hF : Span2 m n F) :
    ∃ C : Nat → Nat → Rat, ∀ rx ry : Rule1, apply2 (product2 rx ry) F =
      (Finset.range (m + 1)).sum fun i => (Finset.range (n + 1)).sum fun j => C i j * (mom rx i * mom ry j) := by
  induction hF with
  | mono i j hi hj =>
    refine ⟨fun i' j' => if i' = i ∧ j' = j then 1 else 0, fun rx ry => ?_⟩
    rw [product2_monomial]
    rw [Finset.sum_eq_single i]
    · rw [Finset.sum_eq_single j]
      · simp
      · intro b _ hb; simp [hb]
      · intro hb; exact absurd (Finset.mem_range.mpr (by omega)) hb
    · intro b _ hb
      apply Finset.sum_eq_zero
      intro j' _; simp [hb]
    · intro hb; exact absurd (Finset.mem_range.mpr (by omega)) hb
  | zero => exact ⟨fun _ _ => 0, fun rx ry => by rw [apply2_zero]; simp⟩
  | add _ _ ih1 ih2 =>
    obtain ⟨C1, h1⟩ := ih1
    obtain ⟨C2, h2⟩ := ih2
    refine ⟨fun i j => C1 i j + C2 i j, fun rx ry => ?_⟩
    rw [apply2_add, h1, h2, ← Finset.sum_add_distrib]
    apply Finset.sum_congr rfl; intro i _
    rw [← Finset.sum_add_distrib]
    apply Finset.sum_congr rfl; intro j _; ring
  | smul c _ ih =>
    obtain ⟨C1, h1⟩ := ih
    refine ⟨fun i j => c * C1 i j, fun rx ry => ?_⟩
    rw [apply2_smul, h1, Finset.mul_sum]
    apply Finset.sum_congr rfl; intro i _
    rw [Finset.mul_sum]
    apply Finset.sum_congr rfl; intro j _; ring

/-! ## H^{1/4} on polynomial data -/

/-- Duffy form of `semi14`: if `f(a + h x) - f(a + h x (1 - y)) = y · Q(x, y)` the singular weight
`1 / y` cancels (also at a node `y = 0`, where both sides vanish) -/
theorem semi14_eq_apply2 (g : Rule1) (f : Rat → Rat) (a h : Rat) (Q : Rat → Rat → Rat)
    (hQ : ∀ x y, f (a + h * x) - f (a + h * (x * (1 - y))) = y * Q x y) :
    semi14 g f a h = apply2 (product2 g g) (fun x y => 2 * (y * Q x y ^ 2)) := by
  unfold semi14 apply2
  apply sumR_map_congr
  intro n _
  rw [hQ]
  by_cases hy : n.y = 0
  · simp [hy]
  · field_simp

theorem span_u (a h : Rat) : Span2 1 0 (fun x _ => a + h * x) :=
  Span2.add (Span2.const 1 0 a) (Span2.smul h (Span2.varX 0 (le_refl 1)))

theorem span_v14 (a h : Rat) : Span2 1 1 (fun x y => a + h * (x * (1 - y))) :=
  (Span2.add (Span2.const 1 1 a)
    (Span2.smul h (Span2.sub (Span2.varX 1 (le_refl 1)) (Span2.mono 1 1 (le_refl 1) (le_refl 1))))).congr
    (by intro x y; ring)

theorem span_v12 (a h : Rat) : Span2 1 1 (fun x y => a + h * (x * y)) :=
  (Span2.add (Span2.const 1 1 a) (Span2.smul h (Span2.mono 1 1 (le_refl 1) (le_refl 1)))).congr
    (by intro x y; ring)

/-- **reduction of the H^{1/4} routine**: for a polynomial `f = Σ cₖ xᵏ` of degree `≤ deg` there is
a polynomial `G(x, y)` of bidegree `(2 deg, 2 deg - 1)`, depending on `f`, `a`, `h` only, such that
for *every* base rule `g` the routine returns the tensor rule `g ⊗ g` applied to `G` -/
theorem semi14_reduction (cs : List Rat) (a h : Rat) (deg : Nat) (hlen : cs.length ≤ deg + 1) :
    ∃ G, Span2 (2 * deg) (2 * deg - 1) G ∧
      ∀ g : Rule1, semi14 g (evalPoly cs) a h = apply2 (product2 g g) G := by
  cases deg with
  | zero =>
    obtain ⟨k, hk⟩ := evalPoly_short cs (by simpa using hlen)
    refine ⟨fun _ _ => 0, Span2.zero, fun g => ?_⟩
    have : evalPoly cs = fun _ => k := funext hk
    rw [this, semi14_const, apply2_zero]
  | succ d =>
    obtain ⟨Q, hQ, hdiff⟩ := evalPoly_diff_span (w := 1) (Δ := fun _ y => y) (span_u a h) (span_v14 a h)
      (Span2.smul h (Span2.varX 0 (le_refl 1))) (by intro x y; ring) cs d (by omega)
    refine ⟨fun x y => 2 * (y * Q x y ^ 2), ?_, fun g => semi14_eq_apply2 g _ a h Q hdiff⟩
    have h1 := (Span2.varY 0 (le_refl 1)).mul hQ.sq
    exact (Span2.smul 2 h1).mono_le (by omega) (by omega)

/-- **rule independence of the H^{1/4} routine**: two base rules whose moments agree up to order
`N` give the same value on every polynomial of degree `≤ N / 2`, on every interval -/
theorem semi14_exact_indep (g g' : Rule1) (N : Nat) (hm : ∀ k, k ≤ N → mom g k = mom g' k)
    (cs : List Rat) (deg : Nat) (hlen : cs.length ≤ deg + 1) (hdeg : 2 * deg ≤ N) (a h : Rat) :
    semi14 g (evalPoly cs) a h = semi14 g' (evalPoly cs) a h := by
  obtain ⟨G, hG, hval⟩ := semi14_reduction cs a h deg hlen
  rw [hval g, hval g']
  exact apply2_span_indep hG (fun i hi => hm i (by omega)) (fun j hj => hm j (by omega))

/-! ## H^{1/2} on polynomial data -/

/-- Duffy form of `semi12`: if `f(u) - f(v) = (u - v) · Q` and no node hits the singular set
(`h ≠ 0`, `x ≠ 0`, `y ≠ 1`) the quotient is `Q²` -/
theorem semi12_eq_apply2 (gx gl : Rule1) (f : Rat → Rat) (a h : Rat) (Q : Rat → Rat → Rat)
    (hQ : ∀ x y, f (a + h * x) - f (a + h * (x * y)) = ((a + h * x) - (a + h * (x * y))) * Q x y)
    (hh : h ≠ 0) (hx : ∀ n ∈ gx, n.x ≠ 0) (hl : ∀ n ∈ gl, n.x ≠ 1) :
    semi12 gx gl f a h = 2 * h ^ 2 * apply2 (product2 gx gl) (fun x y => Q x y ^ 2) := by
  unfold semi12 apply2
  congr 1
  apply sumR_map_congr
  intro n hn
  obtain ⟨nx, hnx, ny, hny, rfl⟩ := mem_product2 hn
  rw [hQ]
  have hne : (a + h * nx.x) - (a + h * (nx.x * ny.x)) ≠ 0 := by
    have : (a + h * nx.x) - (a + h * (nx.x * ny.x)) = h * nx.x * (1 - ny.x) := by ring
    rw [this]
    exact mul_ne_zero (mul_ne_zero hh (hx nx hnx)) (sub_ne_zero.mpr (Ne.symm (hl ny hny)))
  have key : ∀ D q w : Rat, D ≠ 0 → (D * q) ^ 2 / D ^ 2 * w = q ^ 2 * w := by
    intro D q w hD; field_simp
  exact key _ _ _ hne

/-- **reduction of the flat H^{1/2} routine**: polynomial `G` of bidegree `(2 deg - 2, 2 deg - 2)`
depending on `f`, `a`, `h` only -/
theorem semi12_reduction (cs : List Rat) (a h : Rat) (hh : h ≠ 0) (deg : Nat) (hlen : cs.length ≤ deg + 1) :
    ∃ G, Span2 (2 * deg - 2) (2 * deg - 2) G ∧
      ∀ gx gl : Rule1, (∀ n ∈ gx, n.x ≠ 0) → (∀ n ∈ gl, n.x ≠ 1) →
        semi12 gx gl (evalPoly cs) a h = 2 * h ^ 2 * apply2 (product2 gx gl) G := by
  cases deg with
  | zero =>
    obtain ⟨k, hk⟩ := evalPoly_short cs (by simpa using hlen)
    refine ⟨fun _ _ => 0, Span2.zero, fun gx gl _ _ => ?_⟩
    have : evalPoly cs = fun _ => k := funext hk
    rw [this, semi12_const, apply2_zero]; ring
  | succ d =>
    obtain ⟨Q, hQ, hdiff⟩ := evalPoly_diff_span (w := 0)
      (Δ := fun x y => (a + h * x) - (a + h * (x * y))) (span_u a h) (span_v12 a h)
      (Span2.const 0 0 1) (by intro x y; ring) cs d (by omega)
    refine ⟨fun x y => Q x y ^ 2, hQ.sq.mono_le (by omega) (by omega), fun gx gl hx hl => ?_⟩
    exact semi12_eq_apply2 gx gl _ a h Q hdiff hh hx hl

/-- **rule independence of the flat H^{1/2} routine**: pairs of base rules whose moments agree up
to order `N` give the same value on every polynomial of degree `≤ N / 2 + 1` -/
theorem semi12_exact_indep (gx gl gx' gl' : Rule1) (N : Nat)
    (hmx : ∀ k, k ≤ N → mom gx k = mom gx' k) (hml : ∀ k, k ≤ N → mom gl k = mom gl' k)
    (hx : ∀ n ∈ gx, n.x ≠ 0) (hl : ∀ n ∈ gl, n.x ≠ 1) (hx' : ∀ n ∈ gx', n.x ≠ 0) (hl' : ∀ n ∈ gl', n.x ≠ 1)
    (cs : List Rat) (deg : Nat) (hlen : cs.length ≤ deg + 1) (hdeg : 2 * deg ≤ N + 2) (a h : Rat) (hh : h ≠ 0) :
    semi12 gx gl (evalPoly cs) a h = semi12 gx' gl' (evalPoly cs) a h := by
  obtain ⟨G, hG, hval⟩ := semi12_reduction cs a h hh deg hlen
  rw [hval gx gl hx hl, hval gx' gl' hx' hl']
  congr 1
  exact apply2_span_indep hG (fun i hi => hmx i (by omega)) (fun j hj => hml j (by omega))

end Stbem.Quad
