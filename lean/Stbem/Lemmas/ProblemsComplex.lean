import Stbem.Lemmas.ProblemsPotential
import Mathlib.Analysis.SpecialFunctions.Complex.Log
import Mathlib.Analysis.SpecialFunctions.Trigonometric.Deriv
import Mathlib.Analysis.Calculus.Deriv.Comp
import Mathlib.MeasureTheory.Integral.IntervalIntegral.Basic

/-!
# The sine product convolved with the heat kernel, in closed form with a complex error function
(helper layer for `Props/C03Problems.lean`: `smooth_square_M0u0`, `smooth_pisquare_M0u0`)

`E : ℂ → ℂ` is any function with complex derivative `E' z = 2/√π · exp(−z²)` (an entire error function).
Completing the square, `G₁(t, x − s) e^{iκs} = e^{iκx − κ²t} · gaussC t (s − (x + 2iκt))`, the fundamental theorem of
calculus for `s ↦ E((s − w)/(2√t))`, and `sin = (e^{i·} − e^{−i·})/(2i)` give the 1-D integral; the 2-D integral over the
square is the product.
-/
namespace Stbem.Problems.R
open MeasureTheory Complex

/-- the 1-D heat kernel at a complex argument -/
noncomputable def gaussC (t : ℝ) (z : ℂ) : ℂ :=
  1 / (2 * ((Real.sqrt (Real.pi * t) : ℝ) : ℂ)) * Complex.exp (-z ^ 2 / (4 * (t : ℂ)))

theorem hasDerivAt_cerfPrimitive (E : ℂ → ℂ)
    (hE : ∀ z, HasDerivAt E (2 / ((Real.sqrt Real.pi : ℝ) : ℂ) * Complex.exp (-z ^ 2)) z) {t : ℝ} (ht : 0 < t)
    (w : ℂ) (s : ℝ) :
    HasDerivAt (fun s : ℝ => E (((s : ℂ) - w) / ((2 * Real.sqrt t : ℝ) : ℂ)) / 2) (gaussC t ((s : ℂ) - w)) s := by
  have hst : 0 < Real.sqrt t := Real.sqrt_pos.mpr ht
  have hsp : 0 < Real.sqrt Real.pi := Real.sqrt_pos.mpr Real.pi_pos
  have hin : HasDerivAt (fun s : ℝ => ((s : ℂ) - w) / ((2 * Real.sqrt t : ℝ) : ℂ)) (1 / ((2 * Real.sqrt t : ℝ) : ℂ)) s := by
    have h1 : HasDerivAt (fun s : ℝ => (s : ℂ)) 1 s := by
      simpa using (hasDerivAt_id s).ofReal_comp
    exact (h1.sub_const w).div_const _
  have h2 := ((hE _).comp s hin).div_const 2
  refine h2.congr_deriv ?_
  unfold gaussC
  have e2 : Real.sqrt (Real.pi * t) = Real.sqrt Real.pi * Real.sqrt t := Real.sqrt_mul Real.pi_pos.le t
  have e3 : ((Real.sqrt t : ℝ) : ℂ) ^ 2 = (t : ℂ) := by
    rw [← Complex.ofReal_pow, Real.sq_sqrt ht.le]
  have hst' : ((Real.sqrt t : ℝ) : ℂ) ≠ 0 := Complex.ofReal_ne_zero.mpr hst.ne'
  have hsp' : ((Real.sqrt Real.pi : ℝ) : ℂ) ≠ 0 := Complex.ofReal_ne_zero.mpr hsp.ne'
  have e1 : -((((s : ℂ) - w) / ((2 * Real.sqrt t : ℝ) : ℂ)) ^ 2) = -((s : ℂ) - w) ^ 2 / (4 * (t : ℂ)) := by
    push_cast
    rw [div_pow, mul_pow, e3]; ring
  rw [e1, e2]
  push_cast
  field_simp

theorem continuous_gaussC (t : ℝ) (w : ℂ) : Continuous fun s : ℝ => gaussC t ((s : ℂ) - w) := by
  unfold gaussC
  fun_prop

theorem integral_gaussC (E : ℂ → ℂ)
    (hE : ∀ z, HasDerivAt E (2 / ((Real.sqrt Real.pi : ℝ) : ℂ) * Complex.exp (-z ^ 2)) z) {t : ℝ} (ht : 0 < t)
    (w : ℂ) (p q : ℝ) :
    ∫ s in p..q, gaussC t ((s : ℂ) - w)
      = (E (((q : ℂ) - w) / ((2 * Real.sqrt t : ℝ) : ℂ)) - E (((p : ℂ) - w) / ((2 * Real.sqrt t : ℝ) : ℂ))) / 2 := by
  rw [intervalIntegral.integral_eq_sub_of_hasDerivAt (fun s _ => hasDerivAt_cerfPrimitive E hE ht w s)
    ((continuous_gaussC t w).intervalIntegrable _ _)]
  ring

/-- completing the square -/
theorem heatKernel1_mul_cexp {t : ℝ} (ht : 0 < t) (κ x s : ℝ) :
    ((heatKernel1 t (x - s) : ℝ) : ℂ) * Complex.exp (I * κ * s)
      = Complex.exp (I * κ * x - (κ : ℂ) ^ 2 * t) * gaussC t ((s : ℂ) - ((x : ℂ) + 2 * I * κ * t)) := by
  unfold heatKernel1 gaussC
  have ht' : (t : ℂ) ≠ 0 := Complex.ofReal_ne_zero.mpr ht.ne'
  push_cast
  rw [mul_assoc, ← Complex.exp_add, mul_left_comm, ← Complex.exp_add]
  congr 2
  field_simp
  ring_nf
  rw [Complex.I_sq]
  ring

/-- `sin = (e^{i·} − e^{−i·})/(2i)` -/
theorem ofReal_sin_eq (κ s : ℝ) :
    ((Real.sin (κ * s) : ℝ) : ℂ)
      = (Complex.exp (I * κ * s) - Complex.exp (I * ((-κ : ℝ) : ℂ) * s)) / (2 * I) := by
  have hI : (2 * I : ℂ) ≠ 0 := mul_ne_zero two_ne_zero Complex.I_ne_zero
  rw [Complex.ofReal_sin, Complex.sin, eq_div_iff hI]
  have e1 : Complex.exp (-((κ * s : ℝ) : ℂ) * I) = Complex.exp (I * ((-κ : ℝ) : ℂ) * s) := by
    congr 1; push_cast; ring
  have e2 : Complex.exp (((κ * s : ℝ) : ℂ) * I) = Complex.exp (I * κ * s) := by
    congr 1; push_cast; ring
  rw [e1, e2]
  ring_nf
  rw [Complex.I_sq]
  ring

/-- the two error-function terms of one exponential component -/
noncomputable def erfPair (E : ℂ → ℂ) (t κ L x : ℝ) : ℂ :=
  E (((L : ℂ) - x - 2 * I * κ * t) / ((2 * Real.sqrt t : ℝ) : ℂ)) + E (((x : ℂ) + 2 * I * κ * t) / ((2 * Real.sqrt t : ℝ) : ℂ))

/-- `∫₀ᴸ G₁(t, x − s) e^{iκs} ds` -/
theorem integral_heatKernel1_cexp (E : ℂ → ℂ)
    (hE : ∀ z, HasDerivAt E (2 / ((Real.sqrt Real.pi : ℝ) : ℂ) * Complex.exp (-z ^ 2)) z)
    (hodd : ∀ z, E (-z) = - E z) {t : ℝ} (ht : 0 < t) (κ L x : ℝ) :
    ∫ s in (0 : ℝ)..L, ((heatKernel1 t (x - s) : ℝ) : ℂ) * Complex.exp (I * κ * s)
      = Complex.exp (I * κ * x - (κ : ℂ) ^ 2 * t) * (erfPair E t κ L x / 2) := by
  simp_rw [heatKernel1_mul_cexp ht]
  rw [intervalIntegral.integral_const_mul, integral_gaussC E hE ht]
  unfold erfPair
  have e1 : (((0 : ℝ) : ℂ) - ((x : ℂ) + 2 * I * κ * t)) / ((2 * Real.sqrt t : ℝ) : ℂ)
      = -(((x : ℂ) + 2 * I * κ * t) / ((2 * Real.sqrt t : ℝ) : ℂ)) := by
    push_cast; ring
  have e2 : ((L : ℂ) - ((x : ℂ) + 2 * I * κ * t)) = (L : ℂ) - x - 2 * I * κ * t := by ring
  rw [e1, hodd, e2]
  ring

/-- `J(x) = ∫₀ᴸ G₁(t, x − s) sin(κ s) ds` -/
noncomputable def sinPot1 (t κ L x : ℝ) : ℝ := ∫ s in (0 : ℝ)..L, heatKernel1 t (x - s) * Real.sin (κ * s)

theorem sinPot1_eq (E : ℂ → ℂ)
    (hE : ∀ z, HasDerivAt E (2 / ((Real.sqrt Real.pi : ℝ) : ℂ) * Complex.exp (-z ^ 2)) z)
    (hodd : ∀ z, E (-z) = - E z) {t : ℝ} (ht : 0 < t) (κ L x : ℝ) :
    ((sinPot1 t κ L x : ℝ) : ℂ)
      = (Complex.exp (I * κ * x - (κ : ℂ) ^ 2 * t) * (erfPair E t κ L x / 2)
          - Complex.exp (I * ((-κ : ℝ) : ℂ) * x - (((-κ : ℝ) : ℂ)) ^ 2 * t) * (erfPair E t (-κ) L x / 2)) / (2 * I) := by
  unfold sinPot1
  rw [← intervalIntegral.integral_ofReal]
  have hc : ∀ κ' : ℝ, IntervalIntegrable
      (fun s : ℝ => ((heatKernel1 t (x - s) : ℝ) : ℂ) * Complex.exp (I * (κ' : ℂ) * s)) volume 0 L := by
    intro κ'
    apply Continuous.intervalIntegrable
    unfold heatKernel1
    fun_prop
  have e : ∀ s : ℝ, ((heatKernel1 t (x - s) * Real.sin (κ * s) : ℝ) : ℂ)
      = (((heatKernel1 t (x - s) : ℝ) : ℂ) * Complex.exp (I * κ * s)
          - ((heatKernel1 t (x - s) : ℝ) : ℂ) * Complex.exp (I * ((-κ : ℝ) : ℂ) * s)) / (2 * I) := by
    intro s
    rw [Complex.ofReal_mul, ofReal_sin_eq]; ring
  simp_rw [e]
  rw [intervalIntegral.integral_div, intervalIntegral.integral_sub (hc κ) (hc (-κ)),
    integral_heatKernel1_cexp E hE hodd ht κ, integral_heatKernel1_cexp E hE hodd ht (-κ)]

/-- the 2-D integral over the square `[0, L]²` is the product of the 1-D integrals -/
theorem integral_heatKernel_sinsin {t : ℝ} (ht : 0 < t) (κ L x y : ℝ) :
    ∫ x' in (0 : ℝ)..L, ∫ y' in (0 : ℝ)..L, heatKernel t (x - x') (y - y') * (Real.sin (κ * x') * Real.sin (κ * y'))
      = sinPot1 t κ L x * sinPot1 t κ L y := by
  have h1 : ∀ x' : ℝ, ∫ y' in (0 : ℝ)..L, heatKernel t (x - x') (y - y') * (Real.sin (κ * x') * Real.sin (κ * y'))
      = (heatKernel1 t (x - x') * Real.sin (κ * x')) * sinPot1 t κ L y := by
    intro x'
    unfold sinPot1
    rw [← intervalIntegral.integral_const_mul]
    congr 1
    funext y'
    rw [heatKernel_eq_mul ht]; ring
  simp_rw [h1]
  rw [intervalIntegral.integral_mul_const]
  rfl

/-- the combination of four error-function terms that appears (once per variable) in the closed forms -/
noncomputable def erfComb (E : ℂ → ℂ) (t κ L x : ℝ) : ℂ :=
  erfPair E t (-κ) L x - Complex.exp (2 * I * κ * x) * erfPair E t κ L x

theorem sinPot1_mul_eq (E : ℂ → ℂ)
    (hE : ∀ z, HasDerivAt E (2 / ((Real.sqrt Real.pi : ℝ) : ℂ) * Complex.exp (-z ^ 2)) z)
    (hodd : ∀ z, E (-z) = - E z) {t : ℝ} (ht : 0 < t) (κ L x y : ℝ) :
    ((sinPot1 t κ L x * sinPot1 t κ L y : ℝ) : ℂ)
      = -(1 / 16) * erfComb E t κ L x * erfComb E t κ L y
          * Complex.exp (-(I * κ * ((x : ℂ) + y)) - 2 * (κ : ℂ) ^ 2 * t) := by
  rw [Complex.ofReal_mul, sinPot1_eq E hE hodd ht, sinPot1_eq E hE hodd ht]
  unfold erfComb
  have ha : Complex.exp (I * κ * x) ≠ 0 := Complex.exp_ne_zero _
  have hb : Complex.exp (I * κ * y) ≠ 0 := Complex.exp_ne_zero _
  have h1 : ∀ u : ℝ, Complex.exp (I * κ * u - (κ : ℂ) ^ 2 * t)
      = Complex.exp (I * κ * u) * Complex.exp (-((κ : ℂ) ^ 2 * t)) := by
    intro u; rw [← Complex.exp_add, sub_eq_add_neg]
  have h2 : ∀ u : ℝ, Complex.exp (I * ((-κ : ℝ) : ℂ) * u - (((-κ : ℝ) : ℂ)) ^ 2 * t)
      = (Complex.exp (I * κ * u))⁻¹ * Complex.exp (-((κ : ℂ) ^ 2 * t)) := by
    intro u; rw [← Complex.exp_neg, ← Complex.exp_add]; congr 1; push_cast; ring
  have h3 : ∀ u : ℝ, Complex.exp (2 * I * κ * u) = Complex.exp (I * κ * u) * Complex.exp (I * κ * u) := by
    intro u; rw [← Complex.exp_add]; congr 1; ring
  have h4 : Complex.exp (-(I * κ * ((x : ℂ) + y)) - 2 * (κ : ℂ) ^ 2 * t)
      = (Complex.exp (I * κ * x))⁻¹ * (Complex.exp (I * κ * y))⁻¹
          * (Complex.exp (-((κ : ℂ) ^ 2 * t)) * Complex.exp (-((κ : ℂ) ^ 2 * t))) := by
    rw [← Complex.exp_neg, ← Complex.exp_neg, ← Complex.exp_add, ← Complex.exp_add, ← Complex.exp_add]
    congr 1; ring
  rw [h1, h1, h2, h2, h3, h3, h4]
  have hI : (I : ℂ) ≠ 0 := Complex.I_ne_zero
  field_simp
  ring_nf
  rw [Complex.I_sq]
  ring

/-- **the heat-kernel potential of the sine product over `[0, L]²` in closed form** -/
theorem potential_sinsin (E : ℂ → ℂ)
    (hE : ∀ z, HasDerivAt E (2 / ((Real.sqrt Real.pi : ℝ) : ℂ) * Complex.exp (-z ^ 2)) z)
    (hodd : ∀ z, E (-z) = - E z) {t : ℝ} (ht : 0 < t) (κ L x y : ℝ) :
    ∫ x' in (0 : ℝ)..L, ∫ y' in (0 : ℝ)..L, heatKernel t (x - x') (y - y') * (Real.sin (κ * x') * Real.sin (κ * y'))
      = (-(1 / 16) * erfComb E t κ L x * erfComb E t κ L y
          * Complex.exp (-(I * κ * ((x : ℂ) + y)) - 2 * (κ : ℂ) ^ 2 * t)).re := by
  rw [integral_heatKernel_sinsin ht, ← sinPot1_mul_eq E hE hodd ht, Complex.ofReal_re]

end Stbem.Problems.R
