import Stbem.Lemmas.QuadtreeGeom

/-!
# One legal refinement (`bisect`) preserves the invariant
-/
namespace Stbem.Quadtree

theorem bisect_elems (m : QT) (c : Elem) :
    (bisect m c).elems = m.elems ++ children m.elems.length c := rfl

theorem bisect_leaves (m : QT) (c : Elem) :
    (bisect m c).leaves = (m.leaves.filter fun l => decide (l ≠ c)) ++ children m.elems.length c := rfl

theorem bisect_verts (m : QT) (c : Elem) :
    (bisect m c).verts = m.verts ++ ((Side.all.filter fun s => !bisected m c s).map (mid c) ++
      [(c.x0 + c.size / 2, c.y0 + c.size / 2)]) := rfl

theorem mem_bisect_leaves {m : QT} {c l : Elem} :
    l ∈ (bisect m c).leaves ↔ (l ∈ m.leaves ∧ l ≠ c) ∨ ∃ k, k < 4 ∧ l = child m.elems.length c k := by
  rw [bisect_leaves, List.mem_append, List.mem_filter, mem_children]
  simp

theorem mem_bisect_elems {m : QT} {c f : Elem} :
    f ∈ (bisect m c).elems ↔ f ∈ m.elems ∨ ∃ k, k < 4 ∧ f = child m.elems.length c k := by
  rw [bisect_elems, List.mem_append, mem_children]

theorem child_not_old {m : QT} (h : IdsOK m) (c : Elem) (k : Nat) :
    child m.elems.length c k ∉ m.elems := by
  intro hm
  have := h.id_lt hm
  simp only [child] at this
  omega

theorem child_size_pos (n : Nat) {c : Elem} (k : Nat) (hp : 0 < c.size) : 0 < (child n c k).size := by
  show 0 < c.size / 2
  linarith

/-! ### tiling -/

theorem bisect_inDomain (m : QT) (c : Elem) (x y : Rat) :
    (bisect m c).InDomain x y ↔ m.InDomain x y := by
  unfold QT.InDomain
  constructor
  · rintro ⟨r, hr, h0, hc⟩
    rcases mem_bisect_elems.mp hr with h | ⟨k, -, rfl⟩
    · exact ⟨r, h, h0, hc⟩
    · simp [child] at h0
  · rintro ⟨r, hr, h0, hc⟩
    exact ⟨r, mem_bisect_elems.mpr (Or.inl hr), h0, hc⟩

theorem bisect_tiles {m : QT} (h : QInv m) {c : Elem} (hc : c ∈ m.leaves) : Tiles (bisect m c) := by
  have hp := h.size_pos hc
  constructor
  · intro x y hd
    rw [bisect_inDomain] at hd
    obtain ⟨d, hdm, hcont⟩ := h.tiles.cover x y hd
    by_cases hdc : d = c
    · subst hdc
      obtain ⟨k, hk, hk'⟩ := child_cover m.elems.length d hcont
      exact ⟨_, mem_bisect_leaves.mpr (Or.inr ⟨k, hk, rfl⟩), hk'⟩
    · exact ⟨d, mem_bisect_leaves.mpr (Or.inl ⟨hdm, hdc⟩), hcont⟩
  · intro l hl x y hcont
    rw [bisect_inDomain]
    rcases mem_bisect_leaves.mp hl with ⟨h1, _⟩ | ⟨k, hk, rfl⟩
    · exact h.tiles.inside l h1 x y hcont
    · exact h.tiles.inside c hc x y ((child_sub _ c k hp).contains hcont)
  · intro a ha b hb x y hat hbt
    rcases mem_bisect_leaves.mp ha with ⟨ha1, ha2⟩ | ⟨k, hk, rfl⟩ <;>
      rcases mem_bisect_leaves.mp hb with ⟨hb1, hb2⟩ | ⟨k', hk', rfl⟩
    · exact h.tiles.disjoint a ha1 b hb1 x y hat hbt
    · exact absurd (h.tiles.disjoint a ha1 c hc x y hat ((child_sub _ c k' hp).contains hbt)) ha2
    · exact absurd (h.tiles.disjoint b hb1 c hc x y hbt ((child_sub _ c k hp).contains hat)) hb2
    · rw [child_disjoint _ c hp hk hk' hat hbt]

/-! ### balance -/

theorem bisect_bal {m : QT} (h : QInv m) {c : Elem} (hc : c ∈ m.leaves)
    (hn : ∀ s, ∀ n ∈ m.leaves, Adj c s n → c.level ≤ n.level) : Balanced (bisect m c) := by
  have hp := h.size_pos hc
  intro a ha b hb s hadj
  rcases mem_bisect_leaves.mp ha with ⟨ha1, ha2⟩ | ⟨k, hk, rfl⟩ <;>
    rcases mem_bisect_leaves.mp hb with ⟨hb1, hb2⟩ | ⟨k', hk', rfl⟩
  · exact h.bal a ha1 b hb1 s hadj
  · have h1 : Adj a s c := Adj.of_sub h.tiles ha1 hc ha2 (child_sub _ c k' hp) (h.size_pos ha1) hp
      (child_size_pos _ k' hp) hadj
    have := h.bal a ha1 c hc s h1
    show a.level ≤ c.level + 1 + 1
    omega
  · have h1 : Adj c s b := Adj.of_sub_left h.tiles hc hb1 (Ne.symm hb2) (child_sub _ c k hp) hp
      (h.size_pos hb1) (child_size_pos _ k hp) hadj
    have := hn s b hb1 h1
    show c.level + 1 ≤ b.level + 1
    omega
  · show c.level + 1 ≤ c.level + 1 + 1
    omega

/-! ### indices -/

theorem range_add_four (n : Nat) : List.range (n + 4) = List.range n ++ [n, n + 1, n + 2, n + 3] := by
  simp [List.range_succ]

theorem bisect_length (m : QT) (c : Elem) : (bisect m c).elems.length = m.elems.length + 4 := by
  simp [bisect_elems, children_eq]

theorem bisect_ids {m : QT} (h : QInv m) {c : Elem} : IdsOK (bisect m c) := by
  constructor
  · rw [bisect_length, range_add_four, bisect_elems, List.map_append, h.ids.ids, children_eq]
    simp [child]
  · rw [bisect_leaves, List.nodup_append]
    refine ⟨h.ids.nodup.filter _, ?_, ?_⟩
    · rw [children_eq]
      simp [child]
    · intro a ha b hb hab
      subst hab
      obtain ⟨k, -, rfl⟩ := mem_children.mp hb
      exact child_not_old h.ids c k (h.forest.leaves_sub _ (List.mem_filter.mp ha).1)

/-! ### forest -/

theorem bisect_forest {m : QT} (h : QInv m) {c : Elem} (hc : c ∈ m.leaves) : Forest (bisect m c) := by
  have hp := h.size_pos hc
  have hcm := h.forest.leaves_sub c hc
  have hcg := h.forest.grid c hcm
  -- an old element is not a child
  have old_ne : ∀ f ∈ m.elems, ∀ k, f ≠ child m.elems.length c k := by
    intro f hf k e; exact child_not_old h.ids c k (e ▸ hf)
  -- an old element that is not an old leaf is not a new leaf
  have not_leaf : ∀ p ∈ m.elems, p ∉ m.leaves → p ∉ (bisect m c).leaves := by
    intro p hpm hnl hl
    rcases mem_bisect_leaves.mp hl with ⟨h1, _⟩ | ⟨k, _, e⟩
    · exact hnl h1
    · exact old_ne p hpm k e
  have c_not_leaf : c ∉ (bisect m c).leaves := by
    intro hl
    rcases mem_bisect_leaves.mp hl with ⟨_, h2⟩ | ⟨k, _, e⟩
    · exact h2 rfl
    · exact old_ne c hcm k e
  constructor
  · -- grid
    intro f hf
    rcases mem_bisect_elems.mp hf with h1 | ⟨k, _, rfl⟩
    · exact h.forest.grid f h1
    · exact child_onGrid _ k hcg
  · -- uniq
    have key : ∀ f ∈ m.elems, ∀ k, k < 4 → f.level = (child m.elems.length c k).level →
        f.x0 = (child m.elems.length c k).x0 → f.y0 = (child m.elems.length c k).y0 → False := by
      intro f hf k hk hl hx hy
      have hfl : f.level = c.level + 1 := hl
      obtain ⟨p, hpm, hnl, hl', -, hsub, -, -⟩ :=
        h.forest.parent_sub hf (h.forest.pos_lt hf (by omega))
      have hfp := (h.forest.grid f hf).size_pos
      have hgp := child_size_pos m.elems.length k hp
      have c1 : f.Contains f.x0 f.y0 := ⟨le_refl _, by linarith, le_refl _, by linarith⟩
      have c2 : (child m.elems.length c k).Contains f.x0 f.y0 :=
        ⟨by rw [hx], by rw [hx]; linarith, by rw [hy], by rw [hy]; linarith⟩
      obtain ⟨e1, e2⟩ := (h.forest.grid p hpm).same hcg (by omega) (hsub.contains c1)
        ((child_sub _ c k hp).contains c2)
      have : p = c := h.forest.uniq p hpm c hcm (by omega) e1 e2
      exact hnl (this ▸ hc)
    intro f hf g hg hl hx hy
    rcases mem_bisect_elems.mp hf with h1 | ⟨k, hk, rfl⟩ <;>
      rcases mem_bisect_elems.mp hg with h2 | ⟨k', hk', rfl⟩
    · exact h.forest.uniq f h1 g h2 hl hx hy
    · exact (key f h1 k' hk' hl hx hy).elim
    · exact (key g h2 k hk hl.symm hx.symm hy.symm).elim
    · have hh : (0 : Rat) < c.size / 2 := by linarith
      have e1 : posDx k = posDx k' := by
        simp only [child] at hx
        have : (posDx k - posDx k') * (c.size / 2) = 0 := by linarith
        rcases mul_eq_zero.mp this with h0 | h0
        · linarith
        · linarith
      have e2 : posDy k = posDy k' := by
        simp only [child] at hy
        have : (posDy k - posDy k') * (c.size / 2) = 0 := by linarith
        rcases mul_eq_zero.mp this with h0 | h0
        · linarith
        · linarith
      rw [pos_eq_of_offsets hk hk' e1 e2]
  · -- leaves_sub
    intro l hl
    rcases mem_bisect_leaves.mp hl with ⟨h1, _⟩ | ⟨k, hk, rfl⟩
    · exact mem_bisect_elems.mpr (Or.inl (h.forest.leaves_sub l h1))
    · exact mem_bisect_elems.mpr (Or.inr ⟨k, hk, rfl⟩)
  · -- root
    intro f hf h4
    rcases mem_bisect_elems.mp hf with h1 | ⟨k, hk, rfl⟩
    · exact h.forest.root f h1 h4
    · simp only [child] at h4; omega
  · -- parent
    intro f hf h4
    rcases mem_bisect_elems.mp hf with h1 | ⟨k, hk, rfl⟩
    · obtain ⟨p, hpm, hnl, rest⟩ := h.forest.parent f h1 h4
      exact ⟨p, mem_bisect_elems.mpr (Or.inl hpm), not_leaf p hpm hnl, rest⟩
    · exact ⟨c, mem_bisect_elems.mpr (Or.inl hcm), c_not_leaf, rfl, rfl, rfl⟩
  · -- kids
    intro p hpe hnl k hk
    rcases mem_bisect_elems.mp hpe with h1 | ⟨k', hk', rfl⟩
    · by_cases hpc : p = c
      · subst hpc
        exact ⟨child m.elems.length p k, mem_bisect_elems.mpr (Or.inr ⟨k, hk, rfl⟩), rfl, rfl, rfl⟩
      · have hnl' : p ∉ m.leaves := fun hl => hnl (mem_bisect_leaves.mpr (Or.inl ⟨hl, hpc⟩))
        obtain ⟨q, hq, rest⟩ := h.forest.kids p h1 hnl' k hk
        exact ⟨q, mem_bisect_elems.mpr (Or.inl hq), rest⟩
    · exact absurd (mem_bisect_leaves.mpr (Or.inr ⟨k', hk', rfl⟩)) hnl

/-! ### vertices -/

theorem grid_between {s : Rat} (hs : 0 < s) {i j : Int} (h1 : (i : Rat) * s ≤ j * s)
    (h2 : (j : Rat) * s ≤ i * s + s) : i = j ∨ i + 1 = j := by
  have a : (i : Rat) ≤ j := le_of_mul_le hs h1
  have b : (j : Rat) ≤ i + 1 := le_of_mul_le hs (by linarith)
  have a' : i ≤ j := by exact_mod_cast a
  have b' : j ≤ i + 1 := by exact_mod_cast b
  omega

theorem grid_half {s : Rat} (hs : 0 < s) {i j : Int} (h1 : (i : Rat) * s ≤ j * s + s / 2)
    (h2 : (j : Rat) * s + s / 2 ≤ i * s + s) : i = j := by
  have a : (2 : Rat) * i ≤ 2 * j + 1 := le_of_mul_le hs (by linarith)
  have b : (2 : Rat) * j + 1 ≤ 2 * i + 2 := le_of_mul_le hs (by linarith)
  have a' : (2 : Int) * i ≤ 2 * j + 1 := by exact_mod_cast a
  have b' : (2 : Int) * j + 1 ≤ 2 * i + 2 := by exact_mod_cast b
  omega

/-- a vertex whose first coordinate is the mid point of the x-range of the leaf `c` is a corner of an
element inside a refined element of the level of `c` with the same x-range -/
theorem half_x {m : QT} (h : QInv m) {c : Elem} (hc : c ∈ m.leaves) {v : Rat × Rat}
    (hv : v ∈ m.verts) (hx : v.1 = c.x0 + c.size / 2) :
    ∃ a ∈ m.elems, a ∉ m.leaves ∧ a.level = c.level ∧ a.size = c.size ∧ a.x0 = c.x0 ∧
      a.y0 ≤ v.2 ∧ v.2 ≤ a.y0 + a.size := by
  have hcm := h.forest.leaves_sub c hc
  have hcg := h.forest.grid c hcm
  have hp := hcg.size_pos
  obtain ⟨f, hf, hcor⟩ := h.verts.corner v hv
  have hfg := h.forest.grid f hf
  have hlev : c.level < f.level := by
    by_contra hn
    obtain ⟨q, hq⟩ := hfg.corner_x (L := c.level) (by omega) hcor
    obtain ⟨hs, i, j, hx0, hy0⟩ := hcg
    rw [← hs] at hq
    exact not_half hp q i (by rw [← hq, hx, hx0])
  obtain ⟨a, ham, hal, hak, hsa⟩ := h.forest.ancestor' hf hlev
  have hag := h.forest.grid a ham
  have hsz : a.size = c.size := hag.size_eq hcg hak
  obtain ⟨s1, s2, s3, s4⟩ := hsa
  have hfp := hfg.size_pos
  have bx : a.x0 ≤ v.1 ∧ v.1 ≤ a.x0 + a.size := by
    rcases hcor.1 with e | e <;> rw [e] <;> constructor <;> linarith
  have by' : a.y0 ≤ v.2 ∧ v.2 ≤ a.y0 + a.size := by
    rcases hcor.2 with e | e <;> rw [e] <;> constructor <;> linarith
  refine ⟨a, ham, hal, hak, hsz, ?_, by'⟩
  obtain ⟨-, i, j, hx0, hy0⟩ := hcg
  obtain ⟨-, i', j', hx0', hy0'⟩ := hag
  rw [hsz] at hx0' bx
  rw [hx, hx0, hx0'] at bx
  have : i' = i := grid_half hp bx.1 bx.2
  rw [hx0, hx0', this]

theorem half_y {m : QT} (h : QInv m) {c : Elem} (hc : c ∈ m.leaves) {v : Rat × Rat}
    (hv : v ∈ m.verts) (hy : v.2 = c.y0 + c.size / 2) :
    ∃ a ∈ m.elems, a ∉ m.leaves ∧ a.level = c.level ∧ a.size = c.size ∧ a.y0 = c.y0 ∧
      a.x0 ≤ v.1 ∧ v.1 ≤ a.x0 + a.size := by
  have hcm := h.forest.leaves_sub c hc
  have hcg := h.forest.grid c hcm
  have hp := hcg.size_pos
  obtain ⟨f, hf, hcor⟩ := h.verts.corner v hv
  have hfg := h.forest.grid f hf
  have hlev : c.level < f.level := by
    by_contra hn
    obtain ⟨q, hq⟩ := hfg.corner_y (L := c.level) (by omega) hcor
    obtain ⟨hs, i, j, hx0, hy0⟩ := hcg
    rw [← hs] at hq
    exact not_half hp q j (by rw [← hq, hy, hy0])
  obtain ⟨a, ham, hal, hak, hsa⟩ := h.forest.ancestor' hf hlev
  have hag := h.forest.grid a ham
  have hsz : a.size = c.size := hag.size_eq hcg hak
  obtain ⟨s1, s2, s3, s4⟩ := hsa
  have hfp := hfg.size_pos
  have bx : a.x0 ≤ v.1 ∧ v.1 ≤ a.x0 + a.size := by
    rcases hcor.1 with e | e <;> rw [e] <;> constructor <;> linarith
  have by' : a.y0 ≤ v.2 ∧ v.2 ≤ a.y0 + a.size := by
    rcases hcor.2 with e | e <;> rw [e] <;> constructor <;> linarith
  refine ⟨a, ham, hal, hak, hsz, ?_, bx⟩
  obtain ⟨-, i, j, hx0, hy0⟩ := hcg
  obtain ⟨-, i', j', hx0', hy0'⟩ := hag
  rw [hsz] at hy0' by'
  rw [hy, hy0, hy0'] at by'
  have : j' = j := grid_half hp by'.1 by'.2
  rw [hy0, hy0', this]

/-- a refined element that is the same-size square across side `s`: the reversed edge is bisected -/
theorem bisected_of_refined {m : QT} (h : Forest m) {c a : Elem} {s : Side} (ha : a ∈ m.elems)
    (hal : a ∉ m.leaves) (hs : a.size = c.size) (hx : a.x0 = nbrX c s) (hy : a.y0 = nbrY c s) :
    bisected m c s = true := by
  unfold bisected
  cases hf : findSq m (nbrX c s) (nbrY c s) c.size with
  | none => exact absurd ⟨hx, hy, hs⟩ (findSq_none hf ha)
  | some g =>
    obtain ⟨hg, gx, gy, gs⟩ := findSq_some hf
    have : g = a := h.uniq_size hg ha (by rw [gs, hs]) (by rw [gx, hx]) (by rw [gy, hy])
    subst this
    simp [hal]

/-- the two grid elements of the level of `c` whose closed y-range contains `c.y0 + t`, `t ∈ {0, size}` -/
theorem centre_not_old {m : QT} (h : QInv m) {c : Elem} (hc : c ∈ m.leaves) :
    (c.x0 + c.size / 2, c.y0 + c.size / 2) ∉ m.verts := by
  intro hv
  have hcm := h.forest.leaves_sub c hc
  have hcg := h.forest.grid c hcm
  have hp := hcg.size_pos
  obtain ⟨a, ham, hal, hak, hsz, hax, b1, b2⟩ := half_x h hc hv rfl
  obtain ⟨-, i, j, hx0, hy0⟩ := hcg
  obtain ⟨-, i', j', hx0', hy0'⟩ := h.forest.grid a ham
  rw [hsz] at hy0' b2
  simp only at b1 b2
  rw [hy0, hy0'] at b1 b2
  have : j' = j := grid_half hp b1 b2
  have hay : a.y0 = c.y0 := by rw [hy0, hy0', this]
  have : a = c := h.forest.uniq a ham c hcm hak hax hay
  exact hal (this ▸ hc)

theorem mid_not_old {m : QT} (h : QInv m) {c : Elem} (hc : c ∈ m.leaves) (s : Side)
    (hb : bisected m c s = false) : mid c s ∉ m.verts := by
  intro hv
  have hcm := h.forest.leaves_sub c hc
  have hcg := h.forest.grid c hcm
  have hp := hcg.size_pos
  -- the refined element `a` of the level of `c` is either `c` itself or the square across `s`
  have fin : ∀ a ∈ m.elems, a ∉ m.leaves → a.level = c.level → a.size = c.size →
      (a.x0 = c.x0 ∧ a.y0 = c.y0) ∨ (a.x0 = nbrX c s ∧ a.y0 = nbrY c s) → False := by
    intro a ham hal hak hsz hor
    rcases hor with ⟨e1, e2⟩ | ⟨e1, e2⟩
    · have : a = c := h.forest.uniq a ham c hcm hak e1 e2
      exact hal (this ▸ hc)
    · have := bisected_of_refined h.forest ham hal hsz e1 e2
      rw [hb] at this; exact Bool.false_ne_true this
  obtain ⟨-, i, j, hx0, hy0⟩ := hcg
  cases s
  · -- bottom: (x0 + size/2, y0)
    obtain ⟨a, ham, hal, hak, hsz, hax, b1, b2⟩ := half_x h hc hv rfl
    apply fin a ham hal hak hsz
    obtain ⟨-, i', j', hx0', hy0'⟩ := h.forest.grid a ham
    rw [hsz] at hy0' b2
    simp only [mid] at b1 b2
    rw [hy0, hy0'] at b1 b2
    rcases grid_between hp b1 b2 with e | e
    · left; exact ⟨hax, by rw [hy0, hy0', e]⟩
    · right
      refine ⟨by simp [nbrX, Side.dx, hax], ?_⟩
      simp only [nbrY, Side.dy]
      rw [hy0, hy0', ← e]; push_cast; ring
  · -- right: (x0 + size, y0 + size/2)
    obtain ⟨a, ham, hal, hak, hsz, hay, b1, b2⟩ := half_y h hc hv rfl
    apply fin a ham hal hak hsz
    obtain ⟨-, i', j', hx0', hy0'⟩ := h.forest.grid a ham
    rw [hsz] at hx0' b2
    simp only [mid] at b1 b2
    rw [hx0, hx0'] at b1 b2
    have b1' : (i' : Rat) * c.size ≤ ((i + 1 : Int) : Rat) * c.size := by push_cast; linarith
    have b2' : ((i + 1 : Int) : Rat) * c.size ≤ i' * c.size + c.size := by push_cast; linarith
    rcases grid_between hp b1' b2' with e | e
    · right
      refine ⟨?_, by simp [nbrY, Side.dy, hay]⟩
      simp only [nbrX, Side.dx]
      rw [hx0, hx0', e]; push_cast; ring
    · left
      have : i' = i := by omega
      exact ⟨by rw [hx0, hx0', this], hay⟩
  · -- top: (x0 + size/2, y0 + size)
    obtain ⟨a, ham, hal, hak, hsz, hax, b1, b2⟩ := half_x h hc hv rfl
    apply fin a ham hal hak hsz
    obtain ⟨-, i', j', hx0', hy0'⟩ := h.forest.grid a ham
    rw [hsz] at hy0' b2
    simp only [mid] at b1 b2
    rw [hy0, hy0'] at b1 b2
    have b1' : (j' : Rat) * c.size ≤ ((j + 1 : Int) : Rat) * c.size := by push_cast; linarith
    have b2' : ((j + 1 : Int) : Rat) * c.size ≤ j' * c.size + c.size := by push_cast; linarith
    rcases grid_between hp b1' b2' with e | e
    · right
      refine ⟨by simp [nbrX, Side.dx, hax], ?_⟩
      simp only [nbrY, Side.dy]
      rw [hy0, hy0', e]; push_cast; ring
    · left
      have : j' = j := by omega
      exact ⟨hax, by rw [hy0, hy0', this]⟩
  · -- left: (x0, y0 + size/2)
    obtain ⟨a, ham, hal, hak, hsz, hay, b1, b2⟩ := half_y h hc hv rfl
    apply fin a ham hal hak hsz
    obtain ⟨-, i', j', hx0', hy0'⟩ := h.forest.grid a ham
    rw [hsz] at hx0' b2
    simp only [mid] at b1 b2
    rw [hx0, hx0'] at b1 b2
    rcases grid_between hp b1 b2 with e | e
    · left; exact ⟨by rw [hx0, hx0', e], hay⟩
    · right
      refine ⟨?_, by simp [nbrY, Side.dy, hay]⟩
      simp only [nbrX, Side.dx]
      rw [hx0, hx0', ← e]; push_cast; ring

end Stbem.Quadtree
