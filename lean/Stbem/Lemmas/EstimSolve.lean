import Stbem.Lemmas.EstimHH2

/-!
# Completeness of the model's linear solve

`elim` searches the rows for one with a non-zero head (so it does pivot: a zero in the diagonal position is no
obstacle), normalises it, eliminates the first unknown from the remaining rows and recurses.  For a square system
whose coefficient part has trivial kernel the search succeeds at every level, and back-substitution yields a vector
satisfying every row; hence the final check of `solve` passes.
-/
namespace Stbem.Estim

theorem dot_replicate_zero_right (n : Nat) (a : List Rat) : dot a (List.replicate n 0) = 0 := by
  rw [dot_comm, dot_replicate_zero_left]

theorem dot_zipWith_sub_mul (c : Rat) (r p v : List Rat) (h : r.length = p.length) :
    dot (List.zipWith (fun a b => a - c * b) r p) v = dot r v - c * dot p v := by
  induction r generalizing p v with
  | nil => cases p with
    | nil => simp
    | cons _ _ => simp at h
  | cons a r ih => cases p with
    | nil => simp at h
    | cons b p => cases v with
      | nil => simp
      | cons z v =>
        have h' : r.length = p.length := by simpa using h
        simp only [List.zipWith_cons_cons, dot_cons, ih p v h']
        ring

theorem dot_map_div (c : Rat) (r v : List Rat) : dot (r.map (· / c)) v = dot r v / c := by
  induction r generalizing v with
  | nil => simp
  | cons a r ih => cases v with
    | nil => simp
    | cons z v => simp only [List.map_cons, dot_cons, ih v]; ring

/-- `⟨tl, ys ++ [c]⟩` splits into the leading part and the last entry -/
theorem dot_snoc (tl ys : List Rat) (c : Rat) (h : tl.length = ys.length + 1) :
    dot tl (ys ++ [c]) = dot tl.dropLast ys + tl.getLastD 0 * c := by
  induction ys generalizing tl with
  | nil =>
    match tl, h with
    | [a], _ => simp
  | cons y ys ih =>
    match tl, h with
    | a :: b :: tl, h =>
      have h' : (b :: tl).length = ys.length + 1 := by simpa using h
      have := ih (b :: tl) h'
      simp only [List.cons_append, dot_cons, List.dropLast_cons_cons, List.getLastD_cons] at this ⊢
      rw [this]; ring

theorem dot_append_single (r x : List Rat) (bi t : Rat) (h : r.length = x.length) :
    dot (r ++ [bi]) (x ++ [t]) = dot r x + bi * t := by
  induction r generalizing x with
  | nil => cases x with
    | nil => simp
    | cons _ _ => simp at h
  | cons a r ih => cases x with
    | nil => simp at h
    | cons z x =>
      have h' : r.length = x.length := by simpa using h
      simp only [List.cons_append, dot_cons, ih x h']; ring

/-- one elimination step on one row: the reduced row against `w` is the row against `x0 :: w` minus the multiple of
the (normalised) pivot row -/
theorem row_elim (a x0 : Rat) (r pt w : List Rat) (h : r.length = pt.length) :
    dot (List.zipWith (fun u v => u - (a :: r).headD 0 * v) (a :: r) (1 :: pt)).tail w =
      dot (a :: r) (x0 :: w) - a * dot (1 :: pt) (x0 :: w) := by
  simp only [List.zipWith_cons_cons, List.tail_cons, List.headD_cons, dot_cons,
    dot_zipWith_sub_mul a r pt w h]
  ring

/-- the step of `elim`, as a statement about vectors `x0 :: w` (`w` = remaining unknowns and the slot of the
right-hand side): if the normalised pivot row and all reduced rows vanish, every original row vanishes -/
theorem step_back (n : Nat) (rows : List (List Rat)) (hrow : ∀ r ∈ rows, r.length = n + 2)
    (ph : Rat) (pt : List Rat) (hph : ph ≠ 0) (x0 : Rat) (w : List Rat)
    (hp0 : dot ((ph :: pt).map (· / ph)) (x0 :: w) = 0)
    (hrest : ∀ r ∈ (rows.erase (ph :: pt)).map fun r =>
      (List.zipWith (fun u v => u - r.headD 0 * v) r ((ph :: pt).map (· / ph))).tail, dot r w = 0)
    (hpl : pt.length = n + 1) :
    ∀ r ∈ rows, dot r (x0 :: w) = 0 := by
  intro r hr
  by_cases hrp : r = ph :: pt
  · subst hrp
    rw [dot_map_div] at hp0
    have := div_eq_zero_iff.mp hp0
    rcases this with h | h
    · exact h
    · exact absurd h hph
  · have hmem : r ∈ rows.erase (ph :: pt) := (List.mem_erase_of_ne hrp).mpr hr
    have hl := hrow r hr
    match r, hl with
    | a :: r, hl =>
      have hl' : r.length = (pt.map (· / ph)).length := by
        simp only [List.length_cons] at hl
        rw [List.length_map]; omega
      have h1 := hrest _ (List.mem_map.mpr ⟨a :: r, hmem, rfl⟩)
      have e : (ph :: pt).map (· / ph) = 1 :: pt.map (· / ph) := by
        simp [div_self hph]
      rw [e] at h1 hp0
      rw [row_elim a x0 r _ w hl', hp0] at h1
      linarith

/-- **completeness and correctness of the elimination**: `n` rows of `n` coefficients and a right-hand side, the
coefficient part having trivial kernel ⇒ `elim` returns a vector that satisfies every row -/
theorem elim_complete : ∀ (n : Nat) (rows : List (List Rat)), rows.length = n →
    (∀ r ∈ rows, r.length = n + 1) →
    (∀ x : List Rat, x.length = n → (∀ r ∈ rows, dot r (x ++ [0]) = 0) → x = List.replicate n 0) →
    ∃ y, elim n rows = some y ∧ y.length = n ∧ ∀ r ∈ rows, dot r (y ++ [-1]) = 0
  | 0, rows, hlen, _, _ => by
    have : rows = [] := List.length_eq_zero_iff.mp hlen
    subst this
    exact ⟨[], rfl, rfl, by simp⟩
  | n + 1, rows, hlen, hrow, hker => by
    -- the pivot search succeeds
    have hfind : ∃ p, rows.find? (fun r => r.headD 0 != 0) = some p := by
      cases hf : rows.find? (fun r => r.headD 0 != 0) with
      | some p => exact ⟨p, rfl⟩
      | none =>
        exfalso
        rw [List.find?_eq_none] at hf
        have hx := hker (1 :: List.replicate n 0) (by simp) (by
          intro r hr
          have h0 := hf r hr
          have hl := hrow r hr
          match r, hl with
          | a :: r, _ =>
            have ha : a = 0 := by simpa using h0
            subst ha
            have : List.replicate n (0 : Rat) ++ [0] = List.replicate (n + 1) 0 := by
              rw [List.replicate_succ']
            simp only [List.cons_append, dot_cons, this, dot_replicate_zero_right]
            ring)
        rw [List.replicate_succ] at hx
        have := (List.cons.inj hx).1
        exact absurd this one_ne_zero
    obtain ⟨p, hp⟩ := hfind
    have hpm : p ∈ rows := List.mem_of_find?_eq_some hp
    have hph : p.headD 0 ≠ 0 := by simpa using List.find?_some hp
    have hpl := hrow p hpm
    match p, hpl with
    | ph :: pt, hpl =>
      have hph' : ph ≠ 0 := by simpa using hph
      have hptl : pt.length = n + 1 := by simpa using hpl
      -- the reduced system
      have hrl : (rows.erase (ph :: pt)).length = n := by
        rw [List.length_erase_of_mem hpm, hlen]; rfl
      have hpnl : ((ph :: pt).map (· / ph)).length = n + 2 := by simp [hptl]
      have hrest_mem : ∀ r ∈ rows.erase (ph :: pt), r.length = n + 2 :=
        fun r hr => hrow r (List.mem_of_mem_erase hr)
      obtain ⟨ys, hys, hysl, hsat⟩ := elim_complete n
        ((rows.erase (ph :: pt)).map fun r =>
          (List.zipWith (fun u v => u - r.headD 0 * v) r ((ph :: pt).map (· / ph))).tail)
        (by rw [List.length_map, hrl])
        (by
          intro r' hr'
          obtain ⟨r, hr, rfl⟩ := List.mem_map.mp hr'
          rw [List.length_tail, List.length_zipWith, hrest_mem r hr, hpnl]; omega)
        (by
          intro x hx hx0
          -- extend a kernel vector of the reduced system to one of the full system
          have hw : (x ++ [(0 : Rat)]).length = n + 1 := by simp [hx]
          have e : (ph :: pt).map (· / ph) = 1 :: pt.map (· / ph) := by simp [div_self hph']
          have hfull := step_back n rows hrow ph pt hph' (-dot (pt.map (· / ph)) (x ++ [0])) (x ++ [0])
            (by rw [e, dot_cons]; ring) hx0 hptl
          have := hker (-dot (pt.map (· / ph)) (x ++ [0]) :: x) (by simp [hx]) (by
            intro r hr
            simpa using hfull r hr)
          rw [List.replicate_succ] at this
          exact (List.cons.inj this).2)
      refine ⟨(((ph :: pt).map (· / ph)).tail.getLastD 0 -
        dot ((ph :: pt).map (· / ph)).tail.dropLast ys) :: ys, ?_, by simp [hysl], ?_⟩
      · rw [elim, hp]
        simp only [List.headD_cons]
        rw [hys]
      · have e : (ph :: pt).map (· / ph) = 1 :: pt.map (· / ph) := by simp [div_self hph']
        have hfull := step_back n rows hrow ph pt hph'
          (((ph :: pt).map (· / ph)).tail.getLastD 0 - dot ((ph :: pt).map (· / ph)).tail.dropLast ys)
          (ys ++ [-1])
          (by
            rw [e, dot_cons, List.tail_cons, dot_snoc _ ys (-1) (by simp [hptl, hysl])]
            ring) hsat hptl
        intro r hr
        simpa using hfull r hr

/-- the coefficient rows of the augmented system -/
theorem aug_get (A : List (List Rat)) (b : List Rat) (i : Nat)
    (h : i < (List.zipWith (fun r bi => r ++ [bi]) A b).length) :
    (List.zipWith (fun r bi => r ++ [bi]) A b)[i] =
      A[i]'(by simp at h; omega) ++ [b[i]'(by simp at h; omega)] := by
  simp

/-- **completeness of `solve`**: a square matrix that is injective on vectors is solved for every right-hand side,
and what is returned is the solution -/
theorem solve_complete' {A : List (List Rat)} {b : List Rat} (hsq : A.length = b.length)
    (hrow : ∀ r ∈ A, r.length = b.length) (hinj : InjOn A b.length) :
    ∃ y, solve A b = some y ∧ mulVec A y = b ∧ y.length = b.length := by
  have hzl : (List.zipWith (fun r bi => r ++ [bi]) A b).length = b.length := by simp [hsq]
  obtain ⟨y, hy, hyl, hsat⟩ := elim_complete b.length (List.zipWith (fun r bi => r ++ [bi]) A b) hzl
    (by
      intro r hr
      obtain ⟨i, hi, rfl⟩ := List.getElem_of_mem hr
      rw [aug_get, List.length_append, hrow _ (List.getElem_mem _)]; rfl)
    (by
      intro x hx h0
      refine hinj x (List.replicate b.length 0) hx (by simp) ?_
      unfold mulVec
      apply List.ext_getElem (by simp)
      intro i h1 h2
      simp only [List.getElem_map, dot_replicate_zero_right]
      have hi : i < A.length := by simpa using h1
      have := h0 _ (List.getElem_mem (l := List.zipWith (fun r bi => r ++ [bi]) A b) (n := i)
        (by rw [hzl]; omega))
      rw [aug_get, dot_append_single _ _ _ _ (by rw [hrow _ (List.getElem_mem _), hx])] at this
      linarith)
  have hmul : mulVec A y = b := by
    unfold mulVec
    apply List.ext_getElem (by simp [hsq])
    intro i h1 h2
    simp only [List.getElem_map]
    have hi : i < A.length := by simpa using h1
    have := hsat _ (List.getElem_mem (l := List.zipWith (fun r bi => r ++ [bi]) A b) (n := i)
      (by rw [hzl]; omega))
    rw [aug_get, dot_append_single _ _ _ _ (by rw [hrow _ (List.getElem_mem _), hyl])] at this
    linarith
  refine ⟨y, ?_, hmul, hyl⟩
  unfold solve
  rw [hy]
  simp only [hyl, hsq, hmul, and_self, if_true]

end Stbem.Estim
