import Stbem.Lemmas.MeshOps
import Stbem.Lemmas.MeshDyadic

/-!
# Which cells does `refineAxis` bisect?

* `refineAxis_resP`: the induction of `refineAxis_res` once more, carrying an arbitrary invariant `P`
  of the mesh and a predicate `Q` of the cells on which `refineAxis` is called;
* `Forced m c ax`: the least set of leaves of `m` that contains `c` and with a member every
  edge-neighbour (in `m`) of strictly lower level in `ax`;
* `St`: the state invariant relating the current mesh to the original one: the leaves are original
  leaves or children of forced original leaves, and a missing original leaf is forced and has been
  replaced by its two children;
* `refineId_st`: the result of `refineId` satisfies `Res` and `St`.
-/
namespace Stbem.Mesh

/-! ### the loops once more, with an extra invariant -/

section generic

variable {ax : Ax} {P : Mesh → Prop} {Q : Cell → Prop}

/-- induction hypothesis on the fuel, with the invariant `P` and the call predicate `Q` -/
def IHypP (fuel : Nat) (ax : Ax) (P : Mesh → Prop) (Q : Cell → Prop) : Prop :=
  ∀ (m : Mesh) (n : Cell), Inv m → n ∈ m.leaves → n.level ax < fuel → P m → Q n →
    ∃ m', refineAxis fuel m n.id ax = .ok m' ∧ Res ax m n m' ∧ P m'

theorem inner_loopP
    (hstep : ∀ (M : Mesh) (c : Cell) (s : Side) (n : Cell), Inv M → P M → Q c → c ∈ M.leaves →
      n ∈ M.leaves → Adj M c s n → n.level ax < c.level ax → Q n)
    {fuel : Nat} (IH : IHypP fuel ax P Q) {c : Cell} {s : Side}
    (hfuel : c.level ax < fuel + 1) (hQ : Q c) (rest : List Cell) :
    ∀ (M : Mesh), rest.Nodup → Inv M → P M → c ∈ M.leaves →
      (∀ n ∈ rest, Adj M c s n) →
      (∀ n ∈ rest, n.level ax < c.level ax → n ∈ M.leaves) →
      (∀ n ∈ M.leaves, Adj M c s n → n ∈ rest ∨ c.level ax ≤ n.level ax) →
      ∃ M', rest.foldlM (innerStep fuel ax c) M = .ok M' ∧ Inv M' ∧ P M' ∧
        Below ax (c.level ax) M M' ∧
        c ∈ M'.leaves ∧ ∀ n ∈ M'.leaves, Adj M' c s n → c.level ax ≤ n.level ax := by
  induction rest with
  | nil =>
    intro M _ hinv hP hcM _ _ hnb
    refine ⟨M, rfl, hinv, hP, Below.refl _ _ _, hcM, ?_⟩
    intro n hn ha
    rcases hnb n hn ha with h | h
    · simp at h
    · exact h
  | cons n rest ih =>
    intro M hnd hinv hP hcM hadj hrest hnb
    rw [List.foldlM_cons]
    have hnd' := (List.nodup_cons.mp hnd)
    by_cases hlt : n.level ax < c.level ax
    · have hnM : n ∈ M.leaves := hrest n (by simp) hlt
      have hadjn : Adj M c s n := hadj n (by simp)
      have hQn : Q n := hstep M c s n hinv hP hQ hcM hnM hadjn hlt
      obtain ⟨M1, hM1, res, hP1⟩ := IH M n hinv hnM (by omega) hP hQn
      have hstep1 : innerStep fuel ax c M n = .ok M1 := by
        simp only [innerStep, hlt, if_true]; exact hM1
      have hbel : Below ax (c.level ax) M M1 := res.below.mono (by omega)
      have hcM1 : c ∈ M1.leaves := res.keep c hcM (by rintro rfl; omega) (by omega)
      have hnlev := (hinv.irr.level hcM hnM hadjn ax).1
      obtain ⟨M', hM', hinv', hP', hbel', hcM', hfin⟩ := ih M1 hnd'.2 res.inv hP1 hcM1
        (fun n2 hn2 => res.ref.adj.mpr (hadj n2 (by simp [hn2])))
        (fun n2 hn2 hl2 => by
          have hn2M : n2 ∈ M.leaves := hrest n2 (by simp [hn2]) hl2
          have hne : n2 ≠ n := by rintro rfl; exact hnd'.1 hn2
          have := (hinv.irr.level hcM hn2M (hadj n2 (by simp [hn2])) ax).1
          exact res.keep n2 hn2M hne (by omega))
        (fun n2 hn2 ha2 => by
          rcases hbel.nbr hinv res.inv hcM (le_refl _) hn2 ha2 with ⟨h1, h2⟩ | h
          · rcases hnb n2 h1 h2 with h | h
            · rcases List.mem_cons.mp h with rfl | h
              · exact absurd hn2 res.gone
              · exact Or.inl h
            · exact Or.inr h
          · exact Or.inr h)
      refine ⟨M', ?_, hinv', hP', hbel.trans hbel', hcM', hfin⟩
      rw [hstep1]; exact hM'
    · have hstep1 : innerStep fuel ax c M n = .ok M := by
        simp only [innerStep, hlt, if_false]; rfl
      obtain ⟨M', hM', hinv', hP', hbel', hcM', hfin⟩ := ih M hnd'.2 hinv hP hcM
        (fun n2 hn2 => hadj n2 (by simp [hn2]))
        (fun n2 hn2 hl2 => hrest n2 (by simp [hn2]) hl2)
        (fun n2 hn2 ha2 => by
          rcases hnb n2 hn2 ha2 with h | h
          · rcases List.mem_cons.mp h with rfl | h
            · exact Or.inr (by omega)
            · exact Or.inl h
          · exact Or.inr h)
      refine ⟨M', ?_, hinv', hP', hbel', hcM', hfin⟩
      rw [hstep1]; exact hM'

theorem outer_loopP
    (hstep : ∀ (M : Mesh) (c : Cell) (s : Side) (n : Cell), Inv M → P M → Q c → c ∈ M.leaves →
      n ∈ M.leaves → Adj M c s n → n.level ax < c.level ax → Q n)
    {fuel : Nat} (IH : IHypP fuel ax P Q) {c : Cell}
    (hfuel : c.level ax < fuel + 1) (hQ : Q c) (sides : List Side) :
    ∀ (done : List Side) (M : Mesh), Inv M → P M → c ∈ M.leaves →
      (∀ s ∈ done, ∀ n ∈ M.leaves, Adj M c s n → c.level ax ≤ n.level ax) →
      ∃ M', sides.foldlM (outerStep fuel ax c) M = .ok M' ∧ Inv M' ∧ P M' ∧
        Below ax (c.level ax) M M' ∧
        c ∈ M'.leaves ∧
        ∀ s ∈ done ++ sides, ∀ n ∈ M'.leaves, Adj M' c s n → c.level ax ≤ n.level ax := by
  induction sides with
  | nil =>
    intro done M hinv hP hcM hdone
    exact ⟨M, rfl, hinv, hP, Below.refl _ _ _, hcM, by simpa using hdone⟩
  | cons s sides ih =>
    intro done M hinv hP hcM hdone
    rw [List.foldlM_cons]
    obtain ⟨M1, hM1, hinv1, hP1, hbel1, hcM1, hfin1⟩ :=
      inner_loopP hstep IH (s := s) hfuel hQ (nbrs M c s) M
        (nbrs_nodup hinv.ids c s) hinv hP hcM
        (fun n hn => (mem_nbrs.mp hn).2)
        (fun n hn _ => (mem_nbrs.mp hn).1)
        (fun n hn ha => Or.inl (mem_nbrs.mpr ⟨hn, ha⟩))
    obtain ⟨M', hM', hinv', hP', hbel', hcM', hfin⟩ := ih (done ++ [s]) M1 hinv1 hP1 hcM1 (by
      intro s' hs' n hn ha
      rcases List.mem_append.mp hs' with h | h
      · rcases hbel1.nbr hinv hinv1 hcM (le_refl _) hn ha with ⟨h1, h2⟩ | h'
        · exact hdone s' h n h1 h2
        · exact h'
      · simp only [List.mem_cons, List.not_mem_nil, or_false] at h
        subst h
        exact hfin1 n hn ha)
    refine ⟨M', ?_, hinv', hP', hbel1.trans hbel', hcM', by simpa using hfin⟩
    have hstep1 : outerStep fuel ax c M s = .ok M1 := hM1
    rw [hstep1]; exact hM'

/-- `refineAxis_res` with an invariant: if `Q` propagates to the lower neighbours on which
`refineAxis` recurses and `P` survives the bisection of a `Q`-cell, then `P` holds for the result -/
theorem refineAxis_resP
    (hstep : ∀ (M : Mesh) (c : Cell) (s : Side) (n : Cell), Inv M → P M → Q c → c ∈ M.leaves →
      n ∈ M.leaves → Adj M c s n → n.level ax < c.level ax → Q n)
    (hbis : ∀ (M : Mesh) (c : Cell), Inv M → P M → Q c → c ∈ M.leaves → P (bisect M c ax))
    (fuel : Nat) : IHypP fuel ax P Q := by
  induction fuel with
  | zero => intro m n _ _ h; omega
  | succ fuel IH =>
    intro m c hinv hc hf hP hQ
    rw [refineAxis_succ, findLeaf_of_mem hinv.ids hc]
    obtain ⟨M, hM, hinvM, hPM, hbel, hcM, hfin⟩ :=
      outer_loopP hstep IH hf hQ Side.all [] m hinv hP hc (by simp)
    have hfin' : ∀ s, ∀ n ∈ M.leaves, Adj M c s n → c.level ax ≤ n.level ax := by
      intro s; apply hfin s; cases s <;> simp [Side.all]
    refine ⟨bisect M c ax, ?_, bisect_res hinvM hc hcM hbel hfin', hbis M c hinvM hPM hQ hcM⟩
    simp only [hM, bind, Except.bind, findLeaf_of_mem hinvM.ids hcM]
    rfl

end generic

/-! ### forced cells -/

/-- the cells whose bisection is forced by the bisection of `c` in `ax`: `c`, and every leaf of `m`
that shares an edge piece with a forced leaf of strictly higher level in `ax` -/
inductive Forced (m : Mesh) (c : Cell) (ax : Ax) : Cell → Prop
  | base : Forced m c ax c
  | step {e n : Cell} {s : Side} : Forced m c ax e → e ∈ m.leaves → n ∈ m.leaves →
      adjacent m e s n = true → n.level ax < e.level ax → Forced m c ax n

theorem Forced.mem {m : Mesh} {c : Cell} {ax : Ax} (hc : c ∈ m.leaves) {e : Cell}
    (h : Forced m c ax e) : e ∈ m.leaves := by
  cases h with
  | base => exact hc
  | step _ _ hn _ _ => exact hn

/-- `l` is one of the two children of `e` (for some numbering of the children) -/
def ChildOf (ax : Ax) (l e : Cell) : Prop :=
  ∃ k : Nat, l = (children k e ax).1 ∨ l = (children k e ax).2

theorem ChildOf.props {ax : Ax} {l e : Cell} (h : ChildOf ax l e) (hp : e.t0 < e.t1 ∧ e.x0 < e.x1) :
    l.Sub e ∧ (l.t0 < l.t1 ∧ l.x0 < l.x1) ∧ l.level ax = e.level ax + 1 ∧ AxDesc ax l e := by
  obtain ⟨k, rfl | rfl⟩ := h
  · exact ⟨(children_sub k e ax hp).1, (children_proper k e ax hp).1, (children_level k e ax).1,
      (AxDesc.of_children k e ax).1⟩
  · exact ⟨(children_sub k e ax hp).2, (children_proper k e ax hp).2, (children_level k e ax).2,
      (AxDesc.of_children k e ax).2⟩

/-- two leaves one of which contains the other coincide -/
theorem Tiles.eq_of_sub {m : Mesh} (ht : Tiles m) {a b : Cell} (ha : a ∈ m.leaves)
    (hb : b ∈ m.leaves) (hs : a.Sub b) : a = b := by
  obtain ⟨p1, p2⟩ := ht.proper a ha
  have hca : a.Contains a.t0 a.x0 := ⟨le_refl _, p1, le_refl _, p2⟩
  exact ht.disjoint a ha b hb _ _ hca (hs.contains hca)

/-- a child of a leaf is not a leaf -/
theorem ChildOf.not_mem {m : Mesh} (ht : Tiles m) {ax : Ax} {l e : Cell} (h : ChildOf ax l e)
    (he : e ∈ m.leaves) : l ∉ m.leaves := by
  intro hl
  obtain ⟨hs, -, hlev, -⟩ := h.props (ht.proper e he)
  have := ht.eq_of_sub hl he hs
  subst this
  omega

/-- state invariant of the recursion relative to the original mesh `m0` and the requested cell `c0` -/
structure St (ax : Ax) (m0 : Mesh) (c0 : Cell) (M : Mesh) : Prop where
  cyl : M.glue = m0.glue ∧ M.xmin = m0.xmin ∧ M.xmax = m0.xmax
  old : ∀ l ∈ M.leaves, l ∈ m0.leaves ∨
    ∃ e ∈ m0.leaves, Forced m0 c0 ax e ∧ e ∉ M.leaves ∧ ChildOf ax l e
  gone : ∀ e ∈ m0.leaves, e ∉ M.leaves → Forced m0 c0 ax e ∧
    ∃ k, (children k e ax).1 ∈ M.leaves ∧ (children k e ax).2 ∈ M.leaves

theorem St.init (ax : Ax) (m0 : Mesh) (c0 : Cell) : St ax m0 c0 m0 :=
  ⟨⟨rfl, rfl, rfl⟩, fun _ hl => Or.inl hl, fun _ he hne => absurd he hne⟩

theorem St.step {ax : Ax} {m0 : Mesh} {c0 : Cell} (h0 : Inv m0) {M : Mesh} {c : Cell} {s : Side}
    {n : Cell} (hst : St ax m0 c0 M) (hQ : c ∈ m0.leaves ∧ Forced m0 c0 ax c) (hcM : c ∈ M.leaves)
    (hnM : n ∈ M.leaves) (ha : Adj M c s n) (hlt : n.level ax < c.level ax) :
    n ∈ m0.leaves ∧ Forced m0 c0 ax n := by
  have ha0 : Adj m0 c s n := (Adj.congr hst.cyl.1 hst.cyl.2.1 hst.cyl.2.2).mp ha
  rcases hst.old n hnM with h | ⟨e, he, -, heM, hch⟩
  · exact ⟨h, Forced.step hQ.2 hQ.1 h (adjacent_iff.mpr ha0) hlt⟩
  · exfalso
    obtain ⟨hs, hp, hlev, -⟩ := hch.props (h0.tiles.proper e he)
    have hne : c ≠ e := by rintro rfl; exact heM hcM
    have h1 : Adj m0 c s e := Adj.of_sub h0.tiles hQ.1 he hne hs hp ha0
    have := (h0.irr.level hQ.1 he h1 ax).1
    omega

theorem St.after_bisect {ax : Ax} {m0 : Mesh} {c0 : Cell} (h0 : Inv m0) {M : Mesh} {c : Cell}
    (hM : Inv M) (hst : St ax m0 c0 M) (hQ : c ∈ m0.leaves ∧ Forced m0 c0 ax c)
    (hcM : c ∈ M.leaves) : St ax m0 c0 (bisect M c ax) := by
  have hmem := fun l => mem_bisect hM.ids hcM ax l
  have hgone : c ∉ (bisect M c ax).leaves := by
    intro h
    rcases (hmem c).mp h with ⟨_, h2⟩ | hch
    · exact h2 rfl
    · exact ChildOf.not_mem h0.tiles ⟨_, hch⟩ hQ.1 hQ.1
  refine ⟨hst.cyl, ?_, ?_⟩
  · intro l hl
    rcases (hmem l).mp hl with ⟨h1, _⟩ | hch
    · rcases hst.old l h1 with h | ⟨e, he, hf, heM, hc⟩
      · exact Or.inl h
      · refine Or.inr ⟨e, he, hf, ?_, hc⟩
        intro h
        rcases (hmem e).mp h with ⟨h2, _⟩ | hch
        · exact heM h2
        · exact ChildOf.not_mem h0.tiles ⟨_, hch⟩ hQ.1 he
    · exact Or.inr ⟨c, hQ.1, hQ.2, hgone, ⟨_, hch⟩⟩
  · intro e he heB
    by_cases hec : e = c
    · subst hec
      exact ⟨hQ.2, M.nElems, (hmem _).mpr (Or.inr (Or.inl rfl)), (hmem _).mpr (Or.inr (Or.inr rfl))⟩
    · have heM : e ∉ M.leaves := fun h => heB ((hmem e).mpr (Or.inl ⟨h, hec⟩))
      obtain ⟨hf, k, k1, k2⟩ := hst.gone e he heM
      refine ⟨hf, k, (hmem _).mpr (Or.inl ⟨k1, ?_⟩), (hmem _).mpr (Or.inl ⟨k2, ?_⟩)⟩
      · rintro h
        exact ChildOf.not_mem h0.tiles ⟨k, Or.inl rfl⟩ he (h ▸ hQ.1)
      · rintro h
        exact ChildOf.not_mem h0.tiles ⟨k, Or.inr rfl⟩ he (h ▸ hQ.1)

/-- the strengthened specification of `refineId` -/
theorem refineId_st {m : Mesh} (h : Inv m) {c : Cell} (hc : c ∈ m.leaves) (ax : Ax) :
    ∃ m', refineId m c.id ax = .ok m' ∧ Res ax m c m' ∧ St ax m c m' := by
  unfold refineId
  rw [findLeaf_of_mem h.ids hc]
  exact refineAxis_resP (P := St ax m c) (Q := fun n => n ∈ m.leaves ∧ Forced m c ax n)
    (fun M c' s n _ hP hQ hcM hnM ha hlt => St.step h hP hQ hcM hnM ha hlt)
    (fun M c' hM hP hQ hcM => St.after_bisect h hM hP hQ hcM)
    (c.level ax + 1) m c h hc (Nat.lt_succ_self _) (St.init ax m c) ⟨hc, Forced.base⟩

end Stbem.Mesh
