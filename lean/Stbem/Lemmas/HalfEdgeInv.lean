import Stbem.Lemmas.HalfEdgeBasic

/-!
# H-layer: the pointer invariant `HInv`

`HInv h` describes the half-edge structure of the leaves of `h`:

* `wf`    : all stored handles are in range, `glob_idx` = handle, `N_elements` = number of elements;
* `own`   : every edge of a leaf is owned by that leaf and is unrefined; leaves are unrefined, listed once;
* `geom`  : the four edges of a leaf run around its rectangle `cellOf` (v0 → v1 → v2 → v3 → v0, as asserted by
  `Element.__init__`);
* `flags` : `on_boundary` / `glued` of a leaf edge say whether the side lies on the boundary of the cylinder /
  on the seam;
* `cases` : for every side of every leaf one of the four cases (a)–(d) of `Edge.neighbour_elements()` holds,
  with the neighbour edges being *the same segment with opposite orientation* (`Opp`), children edges
  covering their parent (`KidsCover`), `nbr_edge` an involution between counterparts.

The geometric neighbours of the A-layer (`nbrs (abs h) c s`) are *derived* from these local facts and the
tiling invariant `Inv (abs h)` in `Stbem/Lemmas/HalfEdgeNbrs.lean`.
-/
namespace Stbem.HalfEdge
open Stbem.Mesh (Ax Side Cell Mesh)

/-! ### sides of a cell -/

/-- sides in the cyclic order of `Element.edges` -/
def sideNext : Side → Side
  | .bottom => .right
  | .right => .top
  | .top => .left
  | .left => .bottom

/-- the corner at which the edge of side `s` starts: `(t, x)` -/
def corner (c : Cell) : Side → Rat × Rat
  | .bottom => (c.t0, c.x0)
  | .right => (c.t0, c.x1)
  | .top => (c.t1, c.x1)
  | .left => (c.t1, c.x0)

/-- the axis along which the edge of side `s` runs (the axis whose bisection splits that edge) -/
def sideAx : Side → Ax
  | .bottom | .top => .space
  | .left | .right => .time

/-- coordinates of a vertex -/
def HMesh.pt (h : HMesh) (v : Nat) : Rat × Rat := ((h.vert v).t, (h.vert v).x)

def mid (p q : Rat × Rat) : Rat × Rat := ((p.1 + q.1) / 2, (p.2 + q.2) / 2)

/-! ### components of the invariant -/

/-- handles in range; `glob_idx` is the handle -/
structure WF (h : HMesh) : Prop where
  edgeV : ∀ i < h.edges.size, (h.edge i).v0 < h.verts.size ∧ (h.edge i).v1 < h.verts.size
  edgeP : ∀ i < h.edges.size, ∀ p, (h.edge i).parent = some p → p < h.edges.size
  edgeN : ∀ i < h.edges.size, ∀ f, (h.edge i).nbr = some f → f < h.edges.size
  edgeK : ∀ i < h.edges.size, ∀ k, (h.edge i).kids = some k → k.1 < h.edges.size ∧ k.2 < h.edges.size
  edgeE : ∀ i < h.edges.size, ∀ el, (h.edge i).elem = some el → el < h.elems.size
  elemE : ∀ el < h.elems.size, ∀ s, (h.elem el).side s < h.edges.size
  elemP : ∀ el < h.elems.size, ∀ p, (h.elem el).parent = some p → p < h.elems.size
  elemK : ∀ el < h.elems.size, ∀ k, (h.elem el).kids = some k → k.1 < h.elems.size ∧ k.2 < h.elems.size
  elemId : ∀ el < h.elems.size, (h.elem el).id = el
  leaf : ∀ el ∈ h.leaves, el < h.elems.size
  count : h.nElems = h.elems.size
  vidx : ∀ v < h.verts.size, (h.vert v).idx = v

/-- ownership of the edges of the leaves -/
structure Own (h : HMesh) : Prop where
  nodup : h.leaves.Nodup
  elem : ∀ el ∈ h.leaves, ∀ s, (h.edge ((h.elem el).side s)).elem = some el
  unref : ∀ el ∈ h.leaves, ∀ s, (h.edge ((h.elem el).side s)).kids = none
  leafKids : ∀ el ∈ h.leaves, (h.elem el).kids = none

/-- the edges of element `el` run around its rectangle -/
structure ElemGeom (h : HMesh) (el : Nat) : Prop where
  start : ∀ s, h.pt (h.edge ((h.elem el).side s)).v0 = corner (h.cellOf el) s
  chain : ∀ s, (h.edge ((h.elem el).side s)).v1 = (h.edge ((h.elem el).side (sideNext s))).v0
  proper : (h.cellOf el).t0 < (h.cellOf el).t1 ∧ (h.cellOf el).x0 < (h.cellOf el).x1

/-- is side `s` of `c` on the seam of the glued cylinder -/
def isSeam (h : HMesh) (c : Cell) (s : Side) : Bool :=
  h.glue && (s == .left || s == .right) && Stbem.Mesh.onBoundary h.abs c s

def FlagsOK (h : HMesh) (el : Nat) : Prop :=
  ∀ s, (h.edge ((h.elem el).side s)).onBoundary = Stbem.Mesh.onBoundary h.abs (h.cellOf el) s ∧
       (h.edge ((h.elem el).side s)).glued = isSeam h (h.cellOf el) s

/-- the points `P`, `Q` are identified by the glueing `xmin ~ xmax` -/
def SeamEq (h : HMesh) (P Q : Rat × Rat) : Prop :=
  P.1 = Q.1 ∧ ((P.2 = h.xmin ∧ Q.2 = h.xmax) ∨ (P.2 = h.xmax ∧ Q.2 = h.xmin))

/-- edge `f` is the segment of edge `e` with the opposite orientation: the same two vertex objects when `e` is
not glued (this is what `Edge.bisect` asserts), the seam-identified points when it is -/
def Opp (h : HMesh) (e f : Nat) : Prop :=
  (h.edge f).glued = (h.edge e).glued ∧
  if (h.edge e).glued then
    SeamEq h (h.pt (h.edge f).v0) (h.pt (h.edge e).v1) ∧ SeamEq h (h.pt (h.edge f).v1) (h.pt (h.edge e).v0)
  else (h.edge f).v0 = (h.edge e).v1 ∧ (h.edge f).v1 = (h.edge e).v0

/-- `p.children = (k0, k1)`: the two halves of `p`, sharing the vertex in the middle, flags inherited -/
structure KidsCover (h : HMesh) (p k0 k1 : Nat) : Prop where
  kids : (h.edge p).kids = some (k0, k1)
  par0 : (h.edge k0).parent = some p
  par1 : (h.edge k1).parent = some p
  v00 : (h.edge k0).v0 = (h.edge p).v0
  vm : (h.edge k0).v1 = (h.edge k1).v0
  v11 : (h.edge k1).v1 = (h.edge p).v1
  midpt : h.pt (h.edge k0).v1 = mid (h.pt (h.edge p).v0) (h.pt (h.edge p).v1)
  glued0 : (h.edge k0).glued = (h.edge p).glued
  glued1 : (h.edge k1).glued = (h.edge p).glued
  ne : k0 ≠ k1

/-- (a) neighbour edge `f`, unrefined, owned by the leaf `n` (as its side `s.opp`), same segment -/
def CaseA (h : HMesh) (e : Nat) (s : Side) : Prop :=
  ∃ f n, (h.edge e).nbr = some f ∧ (h.edge f).kids = none ∧ (h.edge f).nbr = some e ∧
    n ∈ h.leaves ∧ (h.elem n).side s.opp = f ∧ Opp h e f ∧
    (∀ el, (h.edge e).elem = some el → (h.elem n).level (sideAx s) = (h.elem el).level (sideAx s))

/-- (b) neighbour edge `f` refined: its children `f0`, `f1` are owned by the leaves `n0`, `n1` -/
def CaseB (h : HMesh) (e : Nat) (s : Side) : Prop :=
  ∃ f f0 f1 n0 n1, (h.edge e).nbr = some f ∧ (h.edge f).nbr = some e ∧ (h.edge f).elem = none ∧
    KidsCover h f f0 f1 ∧ Opp h e f ∧ (h.edge f0).nbr = none ∧ (h.edge f1).nbr = none ∧
    n0 ∈ h.leaves ∧ (h.elem n0).side s.opp = f0 ∧ n1 ∈ h.leaves ∧ (h.elem n1).side s.opp = f1 ∧
    (∀ el, (h.edge e).elem = some el → (h.elem n0).level (sideAx s) = (h.elem el).level (sideAx s) + 1 ∧
      (h.elem n1).level (sideAx s) = (h.elem el).level (sideAx s) + 1)

/-- (c) no neighbour edge, but the parent edge `p` has the unrefined neighbour `f` owned by the leaf `n` -/
def CaseC (h : HMesh) (e : Nat) (s : Side) : Prop :=
  ∃ p k0 k1 f n, (h.edge e).nbr = none ∧ (h.edge e).parent = some p ∧ KidsCover h p k0 k1 ∧
    (e = k0 ∨ e = k1) ∧ (h.edge p).elem = none ∧ (h.edge p).nbr = some f ∧ (h.edge f).kids = none ∧
    (h.edge f).nbr = some p ∧ n ∈ h.leaves ∧ (h.elem n).side s.opp = f ∧ Opp h p f ∧
    (∀ el, (h.edge e).elem = some el → (h.elem n).level (sideAx s) + 1 = (h.elem el).level (sideAx s))

/-- (d) no neighbour: a true boundary edge -/
def CaseD (h : HMesh) (e : Nat) : Prop :=
  (h.edge e).nbr = none ∧
    (∀ p, (h.edge e).parent = some p → (h.edge p).nbr = none ∧ (h.edge p).elem = none) ∧
    (h.edge e).onBoundary = true ∧ (h.edge e).glued = false

structure HInv (h : HMesh) : Prop where
  wf : WF h
  own : Own h
  geom : ∀ el ∈ h.leaves, ElemGeom h el
  flags : ∀ el ∈ h.leaves, FlagsOK h el
  cases : ∀ el ∈ h.leaves, ∀ s,
    CaseA h ((h.elem el).side s) s ∨ CaseB h ((h.elem el).side s) s ∨
    CaseC h ((h.elem el).side s) s ∨ CaseD h ((h.elem el).side s)

/-- the cases exclude each other -/
theorem cases_exclusive (h : HMesh) (e : Nat) (s : Side) :
    ¬ (CaseA h e s ∧ CaseB h e s) ∧ ¬ (CaseA h e s ∧ CaseC h e s) ∧ ¬ (CaseA h e s ∧ CaseD h e) ∧
    ¬ (CaseB h e s ∧ CaseC h e s) ∧ ¬ (CaseB h e s ∧ CaseD h e) ∧ ¬ (CaseC h e s ∧ CaseD h e) := by
  refine ⟨?_, ?_, ?_, ?_, ?_, ?_⟩
  · rintro ⟨⟨f, n, h1, h2, -⟩, ⟨f', f0, f1, n0, n1, g1, -, -, g4, -⟩⟩
    rw [h1] at g1; cases g1
    rw [g4.kids] at h2; cases h2
  · rintro ⟨⟨f, n, h1, -⟩, ⟨p, k0, k1, f', n', g1, -⟩⟩
    rw [h1] at g1; cases g1
  · rintro ⟨⟨f, n, h1, -⟩, ⟨g1, -⟩⟩
    rw [h1] at g1; cases g1
  · rintro ⟨⟨f, f0, f1, n0, n1, h1, -⟩, ⟨p, k0, k1, f', n', g1, -⟩⟩
    rw [h1] at g1; cases g1
  · rintro ⟨⟨f, f0, f1, n0, n1, h1, -⟩, ⟨g1, -⟩⟩
    rw [h1] at g1; cases g1
  · rintro ⟨⟨p, k0, k1, f, n, -, h2, -, -, -, h6, -⟩, ⟨-, g2, -⟩⟩
    rw [(g2 p h2).1] at h6; cases h6

end Stbem.HalfEdge
