import Stbem.Lemmas.InitPotCells
import Stbem.Props.C16

/-!
# The load computed by the model `linform` is the exact integral (polynomial integrands)

Assembly of `cellGeom_spec` (every cell contributes its exact integral), `bdr_target` (C16: the targeted mesh has
exactly one owner of the segment) and `refineMshBdr_sum` (the cell integrals over the leaves of the targeted mesh
add up to those over the leaves of the mesh handed in).
-/
namespace Stbem.InitPot
open Stbem.Quadtree Stbem.Quad

theorem filter_eq_length_one {e : Elem} : ∀ (L : List Elem), L.Nodup → e ∈ L →
    (L.filter fun x => decide (x = e)).length = 1 := by
  intro L
  induction L with
  | nil => intro _ h; simp at h
  | cons a L ih =>
    intro hnd hm
    obtain ⟨ha, hnd'⟩ := List.nodup_cons.mp hnd
    by_cases hae : a = e
    · subst hae
      have : (L.filter fun x => decide (x = a)) = [] := by
        apply List.filter_eq_nil_iff.mpr
        intro x hx
        have : x ≠ a := fun h => ha (h ▸ hx)
        simpa using this
      simp [this]
    · have hm' : e ∈ L := by
        rcases List.mem_cons.mp hm with h | h
        · exact absurd h.symm hae
        · exact h
      simp [hae, ih hnd' hm']

/-- the geometric pass over a list of leaves succeeds, and each entry satisfies `cellGeom_spec` -/
theorem geoms_spec {C : Ctx} {s : Seg} {m : QT} {e : Elem} {sd : Side} {X t0 t1 : Rat} {ts : List Term} {N : Nat}
    (T : Target m e sd X t0 t1 s.p0 s.p1) (hP : PolyIntegrand C s sd.axis X ts)
    (hRi : Exact3 (duffId C.rule) N) (hRt : Exact3 (duffTouch C.rule) N) (hd : ∀ t ∈ ts, t.deg ≤ N)
    (hlen : s.d - s.c = t1 - t0) :
    ∀ L : List Elem, (∀ x ∈ L, x ∈ m.leaves) →
      ∃ l, geoms s L = .ok l ∧ l.map (·.1) = L ∧
        ∀ eg ∈ l, eg.2.isIdent = decide (eg.1 = e) ∧ (eg.2.val C s eg.1).2 = cellInt ts t0 t1 eg.1 := by
  intro L
  induction L with
  | nil => intro _; exact ⟨[], rfl, rfl, by simp⟩
  | cons a L ih =>
    intro hL
    obtain ⟨g, hg, h1, h2⟩ := cellGeom_spec T hP hRi hRt hd hlen (hL a (by simp))
    obtain ⟨l, hl, hm, hall⟩ := ih (fun x hx => hL x (by simp [hx]))
    refine ⟨(a, g) :: l, ?_, by simp [hm], ?_⟩
    · unfold geoms at hl ⊢
      rw [List.mapM_cons, hg, hl]
      rfl
    · intro eg heg
      rcases List.mem_cons.mp heg with rfl | h
      · exact ⟨h1, h2⟩
      · exact hall eg h

/-- on a targeted mesh the model returns the sum of the exact cell integrals, and the list of them -/
theorem linformOn_integral {C : Ctx} {s : Seg} {m : QT} {e : Elem} {sd : Side} {X t0 t1 : Rat} {ts : List Term}
    {N : Nat} (T : Target m e sd X t0 t1 s.p0 s.p1) (hP : PolyIntegrand C s sd.axis X ts)
    (hRi : Exact3 (duffId C.rule) N) (hRt : Exact3 (duffTouch C.rule) N) (hd : ∀ t ∈ ts, t.deg ≤ N)
    (hlen : s.d - s.c = t1 - t0) :
    linformOn C m s = .ok (leafSum (cellInt ts t0 t1) m, m.leaves.map fun e' => (e'.id, cellInt ts t0 t1 e')) := by
  rw [linformOn_eq]
  obtain ⟨i0, h0⟩ := T.v0
  obtain ⟨i1, h1⟩ := T.v1
  rw [h0, h1]
  simp only [Except.bind, Option.isNone_some, Bool.or_self, Bool.false_eq_true, if_false]
  obtain ⟨l, hl, hm, hall⟩ := geoms_spec T hP hRi hRt hd hlen m.leaves (fun _ hx => hx)
  rw [hl]
  simp only [assemble]
  have hfil : (l.filter fun eg => eg.2.isIdent) = l.filter fun eg => decide (eg.1 = e) := by
    apply List.filter_congr
    intro eg heg
    exact (hall eg heg).1
  have hcount : (l.filter fun eg => decide (eg.1 = e)).length = 1 := by
    have := filter_eq_length_one m.leaves T.inv.ids.nodup T.leaf
    rw [← hm, List.filter_map, List.length_map] at this
    exact this
  rw [hfil, hcount]
  simp only [ne_eq, not_true_eq_false, if_false, pure, Except.pure]
  congr 1
  refine Prod.ext ?_ ?_
  · simp only [leafSum]
    rw [← hm, List.map_map]
    apply sumR_map_congr
    intro eg heg
    exact (hall eg heg).2
  · simp only []
    rw [← hm, List.map_map]
    apply List.map_congr_left
    intro eg heg
    simp only [Function.comp]
    rw [(hall eg heg).2]

/-- **general form**: `dom` any mesh satisfying the invariant of C16, `c` a leaf whose side `sd` lies on the boundary,
the segment the `k`-th of the `2^j` equal pieces of that side, given by its end points in either order.  The model
returns (with fuel `j + 1`) the sum over the leaves of `dom` of the exact integrals, i.e. the integral over the
domain × segment. -/
theorem linform_integral {C : Ctx} {ts : List Term} {N : Nat} (dom : QT) (hdom : QInv dom) (c : Elem)
    (hc : c ∈ dom.leaves) (sd : Side) (hB : ∀ n ∈ dom.leaves, ¬ Adj c sd n) (j k : Nat) (hk : k < 2 ^ j)
    (s : Seg)
    (hends : (s.p0 = pt sd.axis (lineC c sd) (lo c sd + k * (c.size / 2 ^ j)) ∧
              s.p1 = pt sd.axis (lineC c sd) (lo c sd + (k + 1) * (c.size / 2 ^ j))) ∨
             (s.p0 = pt sd.axis (lineC c sd) (lo c sd + (k + 1) * (c.size / 2 ^ j)) ∧
              s.p1 = pt sd.axis (lineC c sd) (lo c sd + k * (c.size / 2 ^ j))))
    (hlen : s.d - s.c = c.size / 2 ^ j)
    (hP : PolyIntegrand C s sd.axis (lineC c sd) ts)
    (hRi : Exact3 (duffId C.rule) N) (hRt : Exact3 (duffTouch C.rule) N) (hd : ∀ t ∈ ts, t.deg ≤ N) :
    ∃ m', (∃ e, refineMshBdr (j + 1) dom s.p0 s.p1 = .ok (m', e)) ∧
      linform C dom (j + 1) s =
        .ok (leafSum (cellInt ts (lo c sd + k * (c.size / 2 ^ j)) (lo c sd + (k + 1) * (c.size / 2 ^ j))) dom,
          m'.leaves.map fun e' =>
            (e'.id, cellInt ts (lo c sd + k * (c.size / 2 ^ j)) (lo c sd + (k + 1) * (c.size / 2 ^ j)) e')) := by
  obtain ⟨m', e, hrun, hinv', -, hleaf, -, hline, hlo, hhi, hv0, hv1, huniq⟩ :=
    bdr_target dom hdom c hc sd hB j k hk s.p0 s.p1 hends
  have T : Target m' e sd (lineC c sd) (lo c sd + k * (c.size / 2 ^ j)) (lo c sd + (k + 1) * (c.size / 2 ^ j))
      s.p0 s.p1 := by
    refine ⟨hinv', hleaf, hline, hlo, hhi, ?_, ?_, ?_, huniq⟩
    · rcases hends with ⟨h0, h1⟩ | ⟨h0, h1⟩
      · exact ⟨_, _, Or.inl ⟨rfl, rfl⟩, h0, h1⟩
      · exact ⟨_, _, Or.inr ⟨rfl, rfl⟩, h0, h1⟩
    · obtain ⟨i, hi, -⟩ := hv0; exact ⟨i, hi⟩
    · obtain ⟨i, hi, -⟩ := hv1; exact ⟨i, hi⟩
  have hlen' : s.d - s.c = (lo c sd + (k + 1) * (c.size / 2 ^ j)) - (lo c sd + k * (c.size / 2 ^ j)) := by
    rw [hlen]; ring
  refine ⟨m', ⟨e, hrun⟩, ?_⟩
  rw [linform_eq, hrun]
  simp only [Except.bind]
  rw [linformOn_integral T hP hRi hRt hd hlen']
  rw [(refineMshBdr_sum (cellInt_quadAdd ts _ _) hdom hrun).1]

/-! ## every reachable mesh has the same leaf sums as the initial mesh -/

theorem reach_leafSum {I : Elem → Rat} (hI : QuadAdd I) {m0 m : QT} (h0 : QInv m0) (hr : Reach m0 m) :
    leafSum I m = leafSum I m0 := by
  induction hr with
  | init => rfl
  | @step m1 m2 c hr1 hc hrun ih =>
    have hinv1 := (qt_inv m0 h0 m1 hr1).1
    unfold refineId at hrun
    rw [findElem_of_mem hinv1.ids (hinv1.forest.leaves_sub c hc)] at hrun
    rw [refine_sum hI (c.level + 1) m1 c m2 hinv1 hc (Nat.lt_succ_self _) hrun, ih]

theorem leafSum_unitSquare (I : Elem → Rat) : leafSum I unitSquare = I (mkRoot 0 0 0 1) := by
  simp [leafSum, unitSquare]

theorem leafSum_lShape (I : Elem → Rat) :
    leafSum I lShape = I (mkRoot 0 0 (-1) 1) + (I (mkRoot 1 0 0 1) + I (mkRoot 2 (-1) 0 1)) := by
  simp [leafSum, lShape]

end Stbem.InitPot
