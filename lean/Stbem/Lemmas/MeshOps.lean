import Stbem.Lemmas.MeshRefine

/-!
# The composite operations change the mesh only through `refineId`
-/
namespace Stbem.Mesh

theorem refineId_res {m : Mesh} (h : Inv m) {c : Cell} (hc : c ∈ m.leaves) (ax : Ax) :
    ∃ m', refineId m c.id ax = .ok m' ∧ Res ax m c m' := by
  unfold refineId
  rw [findLeaf_of_mem h.ids hc]
  exact refineAxis_res ax (c.level ax + 1) m c h hc (Nat.lt_succ_self _)

theorem refineId_res_of_ok {m : Mesh} (h : Inv m) {id : Nat} {ax : Ax} {m' : Mesh}
    (hr : refineId m id ax = .ok m') : ∃ c ∈ m.leaves, c.id = id ∧ Res ax m c m' := by
  cases hf : findLeaf m id with
  | none => simp [refineId, hf] at hr
  | some c =>
    obtain ⟨hc, hid⟩ := findLeaf_some hf
    obtain ⟨m'', h1, h2⟩ := refineId_res h hc ax
    rw [hid, hr] at h1
    cases h1
    exact ⟨c, hc, hid, h2⟩

theorem refineId_inv' {m : Mesh} (h : Inv m) {id : Nat} {ax : Ax} {m' : Mesh}
    (hr : refineId m id ax = .ok m') : Inv m' ∧ Refines m m' := by
  obtain ⟨c, _, _, res⟩ := refineId_res_of_ok h hr
  exact ⟨res.inv, res.ref⟩

/-- generic invariant rule for `foldlM` in `Except` -/
theorem foldlM_except_inv {σ α ε : Type} (f : σ → α → Except ε σ) (I : σ → Prop) (R : σ → σ → Prop)
    (hrefl : ∀ s, R s s) (htrans : ∀ a b c, R a b → R b c → R a c)
    (hstep : ∀ s a s', I s → f s a = .ok s' → I s' ∧ R s s') :
    ∀ (l : List α) (s s' : σ), I s → l.foldlM f s = .ok s' → I s' ∧ R s s' := by
  intro l
  induction l with
  | nil =>
    intro s s' hI h
    rw [List.foldlM_nil] at h
    cases h
    exact ⟨hI, hrefl s⟩
  | cons a l ih =>
    intro s s' hI h
    rw [List.foldlM_cons] at h
    cases hf : f s a with
    | error e => rw [hf] at h; cases h
    | ok s1 =>
      rw [hf] at h
      obtain ⟨h1, h2⟩ := hstep s a s1 hI hf
      obtain ⟨h3, h4⟩ := ih s1 s' h1 h
      exact ⟨h3, htrans _ _ _ h2 h4⟩

theorem refineAll_inv' {m : Mesh} (h : Inv m) {ids : List Nat} {ax : Ax} {m' : Mesh}
    (hr : refineAll m ids ax = .ok m') : Inv m' ∧ Refines m m' :=
  foldlM_except_inv (fun m id => refineId m id ax) Inv Refines Refines.refl
    (fun _ _ _ => Refines.trans) (fun _ _ _ hI hf => refineId_inv' hI hf) ids m m' h hr

theorem refineBoth_res {m : Mesh} (h : Inv m) {c : Cell} (hc : c ∈ m.leaves) :
    ∃ r, refineBoth m c.id = .ok r ∧ Inv r.1 ∧ Refines m r.1 := by
  obtain ⟨m1, h1, r1⟩ := refineId_res h hc .time
  have hid := children_id (m1.nElems - 2) c .time
  have hlv := children_lt_lx (m1.nElems - 2) c .time
  have htwo := r1.two
  obtain ⟨k1, k2⟩ := r1.kids
  obtain ⟨m2, h2, r2⟩ := refineId_res r1.inv k1 .space
  have k2' : (children (m1.nElems - 2) c .time).2 ∈ m2.leaves := by
    refine r2.keep _ k2 ?_ ?_
    · intro e
      have := congrArg Cell.id e
      rw [hid.1, hid.2] at this; omega
    · simp only [Cell.level]; omega
  obtain ⟨m3, h3, r3⟩ := refineId_res r2.inv k2' .space
  rw [hid.1] at h2
  rw [hid.2, show m1.nElems - 2 + 1 = m1.nElems - 1 by omega] at h3
  refine ⟨(m3, [m2.nElems - 2, m2.nElems - 1, m3.nElems - 2, m3.nElems - 1]), ?_, r3.inv,
    (r1.ref.trans r2.ref).trans r3.ref⟩
  unfold refineBoth
  simp only [bind, Except.bind, h1, lastChildren, h2, h3]
  rfl

theorem uniformRefine_inv' {m : Mesh} (h : Inv m) {m' : Mesh}
    (hr : uniformRefine m = .ok m') : Inv m' ∧ Refines m m' := by
  unfold uniformRefine at hr
  simp only [bind, Except.bind] at hr
  split at hr
  · cases hr
  · rename_i m1 h1
    obtain ⟨i1, r1⟩ := refineAll_inv' h h1
    obtain ⟨i2, r2⟩ := refineAll_inv' i1 hr
    exact ⟨i2, r1.trans r2⟩

theorem uniformRefineSpace_inv' {m : Mesh} (h : Inv m) {m' : Mesh}
    (hr : uniformRefineSpace m = .ok m') : Inv m' ∧ Refines m m' :=
  refineAll_inv' h hr

theorem refinePhase_inv {m : Mesh} (h : Inv m) {marked : List Cell} {ax : Ax} {r : Mesh × List Cell}
    (hr : refinePhase m marked ax = .ok r) : Inv r.1 ∧ Refines m r.1 := by
  unfold refinePhase at hr
  refine foldlM_except_inv _ (fun st : Mesh × List Cell => Inv st.1)
    (fun st st' => Refines st.1 st'.1) (fun _ => Refines.refl _)
    (fun _ _ _ => Refines.trans) ?_ _ (m, []) r h hr
  intro st c st' hI hf
  simp only [bind, Except.bind] at hf
  split at hf
  · cases hf
  · split at hf
    · cases hf
    · rename_i m1 h1
      cases hf
      exact refineId_inv' hI h1

theorem dorflerIso_inv' {m : Mesh} (h : Inv m) {eta : List Rat} {perm : List Nat} {theta : Rat}
    {m' : Mesh} (hr : dorflerIso m eta perm theta = .ok m') : Inv m' ∧ Refines m m' := by
  unfold dorflerIso at hr
  simp only [bind, Except.bind, pure, Except.pure] at hr
  split at hr
  · cases hr
  · split at hr
    · cases hr
    · split at hr
      · cases hr
      · rename_i r1 h1
        split at hr
        · cases hr
        · rename_i r2 h2
          cases hr
          obtain ⟨i1, q1⟩ := refinePhase_inv h h1
          obtain ⟨i2, q2⟩ := refinePhase_inv i1 h2
          exact ⟨i2, q1.trans q2⟩

theorem dorflerAniso_inv' {m : Mesh} (h : Inv m) {eta : List (Rat × Rat)} {theta : Rat}
    {m' : Mesh} (hr : dorflerAniso m eta theta = .ok m') : Inv m' ∧ Refines m m' := by
  unfold dorflerAniso at hr
  simp only [bind, Except.bind, pure, Except.pure] at hr
  split at hr
  · cases hr
  · split at hr
    · cases hr
    · rename_i r1 h1
      split at hr
      · cases hr
      · rename_i r2 h2
        cases hr
        obtain ⟨i1, q1⟩ := refinePhase_inv h h1
        obtain ⟨i2, q2⟩ := refinePhase_inv i1 h2
        exact ⟨i2, q1.trans q2⟩

theorem gradeSweep_inv {fixed : Bool} {m : Mesh} (h : Inv m) {p q : Nat} {K : Rat}
    {r : Mesh × Bool} (hr : gradeSweep fixed m p q K = .ok r) : Inv r.1 ∧ Refines m r.1 := by
  unfold gradeSweep at hr
  simp only [bind, Except.bind, pure, Except.pure] at hr
  split at hr
  · cases hr
  · rename_i m1 h1
    split at hr
    · cases hr
    · rename_i m2 h2
      cases hr
      obtain ⟨i1, q1⟩ := refineAll_inv' h h1
      obtain ⟨i2, q2⟩ := foldlM_except_inv _ Inv Refines Refines.refl
        (fun _ _ _ => Refines.trans) (by
          intro s a s' hI hf
          split at hf
          · split at hf
            · cases hf; exact ⟨hI, Refines.refl _⟩
            · cases hf
          · exact refineId_inv' hI hf) _ m1 m2 i1 h2
      exact ⟨i2, q1.trans q2⟩

theorem grading_inv' (fixed : Bool) (fuel : Nat) : ∀ {m : Mesh}, Inv m → ∀ {p q : Nat} {K : Rat}
    {m' : Mesh}, grading fixed fuel m p q K = .ok m' → Inv m' ∧ Refines m m' := by
  induction fuel with
  | zero => intro m _ p q K m' hr; simp [grading] at hr
  | succ fuel ih =>
    intro m h p q K m' hr
    rw [grading] at hr
    simp only [bind, Except.bind, pure, Except.pure] at hr
    split at hr
    · cases hr
    · rename_i r h1
      obtain ⟨i1, q1⟩ := gradeSweep_inv h h1
      split at hr
      · obtain ⟨i2, q2⟩ := ih i1 hr
        exact ⟨i2, q1.trans q2⟩
      · cases hr
        exact ⟨i1, q1⟩

end Stbem.Mesh
