import Stbem.Lemmas.MeshGradingDyadic
import Stbem.Lemmas.MeshNbrs

/-!
# Two time slabs of lengths `2^-j` and `1 - 2^-j` over unit space roots: no 1-irregular mesh in the window

The initial mesh `init glue [0,1,2,3,4] [0, 2^-j, 1]` has roots of the sizes `2^-j × 1` (below `t = 2^-j`) and
`(1 - 2^-j) × 1` (above).  Refinement levels are counted per root; 1-irregularity compares *levels*, the
window `h_t/K < h_x^σ < K h_t` (`σ = p/q`, `K = 4`) compares *sizes*.  For a leaf `a` just below the
interface `t = 2^-j` and its neighbour `b` just above it:

* `a` not space-marked:  `q·(j + lt_a) < p·lx_a + 2q`   (`slab_window_below`),
* `b` not time-marked:   `p·lx_b < q·(lt_b + 3)`        (`slab_window_above`, uses `1 - 2^-j ≥ 1/2`),
* 1-irregular:           `lx_a ≤ lx_b + 1`, `lt_b ≤ lt_a + 1`,

which is contradictory as soon as `6q + p < q·j + 2` (`σ = 1`: `j ≥ 6`; `σ = 3/2`, `2`: `j ≥ 7`):
`slab_no_window`.
-/
namespace Stbem.Mesh

/-- the time grid `[0, 2^-j, 1]` -/
def slabGrid (j : Nat) : List Rat := [0, 1 / 2 ^ j, 1]

theorem slab_tau_pos (j : Nat) : (0 : Rat) < 1 / 2 ^ j := by positivity

theorem slab_tau_le_half {j : Nat} (hj : 1 ≤ j) : (1 : Rat) / 2 ^ j ≤ 1 / 2 := by
  have h2 : (2 : Rat) ^ 1 ≤ 2 ^ j := pow_le_pow_right₀ (by norm_num) hj
  rw [pow_one] at h2
  exact one_div_le_one_div_of_le (by norm_num) h2

theorem slabGrid_sinc {j : Nat} (hj : 1 ≤ j) : SInc (slabGrid j) := by
  have h1 := slab_tau_pos j
  have h2 := slab_tau_le_half hj
  simp only [SInc, slabGrid, List.pairwise_cons, List.mem_cons, List.not_mem_nil, or_false,
    forall_eq_or_imp, forall_eq, List.Pairwise.nil, and_true, IsEmpty.forall_iff, implies_true]
  refine ⟨⟨h1, by norm_num⟩, ?_⟩
  linarith

theorem unitGrid4_sinc : SInc ([0, 1, 2, 3, 4] : List Rat) := by
  simp [SInc]; norm_num

/-- size in terms of the levels on the two sides of `t = τ`; unit roots in space -/
def SlabSize (τ : Rat) (c : Cell) : Prop :=
  c.x1 - c.x0 = 1 / 2 ^ c.lx ∧
    ((c.t1 ≤ τ ∧ c.t1 - c.t0 = τ / 2 ^ c.lt) ∨ (τ ≤ c.t0 ∧ c.t1 - c.t0 = (1 - τ) / 2 ^ c.lt))

theorem slabSize_childStable {τ : Rat} (h0 : 0 < τ) (h1 : τ < 1) : ChildStable (SlabSize τ) := by
  rintro M c ax ch ⟨hx, ht⟩ hch
  have hpx : c.x0 < c.x1 := by
    have : (0 : Rat) < 1 / 2 ^ c.lx := by positivity
    linarith
  rcases ht with ⟨hpos, ht⟩ | ⟨hpos, ht⟩
  · have hpt : c.t0 < c.t1 := by
      have : (0 : Rat) < τ / 2 ^ c.lt := by positivity
      linarith
    obtain ⟨⟨_, s2, _, _⟩, _⟩ := hch.props ⟨hpt, hpx⟩
    obtain ⟨e1, e2⟩ := hch.size (Ht := τ) (Hx := 1) ⟨ht, hx⟩
    exact ⟨e2, Or.inl ⟨by linarith, e1⟩⟩
  · have hpt : c.t0 < c.t1 := by
      have : (0 : Rat) < (1 - τ) / 2 ^ c.lt := div_pos (by linarith) (by positivity)
      linarith
    obtain ⟨⟨s1, _, _, _⟩, _⟩ := hch.props ⟨hpt, hpx⟩
    obtain ⟨e1, e2⟩ := hch.size (Ht := 1 - τ) (Hx := 1) ⟨ht, hx⟩
    exact ⟨e2, Or.inr ⟨by linarith, e1⟩⟩

/-- the roots of `init glue [0,1,2,3,4] [0, τ, 1]` -/
theorem init_slabSize (glue : Bool) (τ : Rat) :
    ∀ c ∈ (init glue [0, 1, 2, 3, 4] [0, τ, 1]).leaves, SlabSize τ c := by
  intro c hc
  have hleaves : (init glue [0, 1, 2, 3, 4] [0, τ, 1]).leaves =
      init.number 0 ((pairs [0, τ, 1]).flatMap fun tp =>
        (pairs ([0, 1, 2, 3, 4] : List Rat)).map fun xp => (tp, xp)) := rfl
  rw [hleaves] at hc
  obtain ⟨r, hr, i, rfl, _, _⟩ := number_mem hc
  simp only [List.mem_flatMap, List.mem_map] at hr
  obtain ⟨tp, htp, xp, hxp, rfl⟩ := hr
  have hx : xp.2 - xp.1 = 1 := by
    simp only [pairs, List.mem_cons, List.not_mem_nil, or_false] at hxp
    rcases hxp with rfl | rfl | rfl | rfl <;> norm_num
  simp only [pairs, List.mem_cons, List.not_mem_nil, or_false] at htp
  rcases htp with rfl | rfl
  · exact ⟨by simp only [mkCell, pow_zero, div_one]; exact hx,
      Or.inl ⟨by simp only [mkCell]; exact le_refl _, by simp only [mkCell, pow_zero, div_one]; ring⟩⟩
  · exact ⟨by simp only [mkCell, pow_zero, div_one]; exact hx,
      Or.inr ⟨by simp only [mkCell]; exact le_refl _, by simp only [mkCell, pow_zero, div_one]⟩⟩

/-- below `t = 2^-j`, not marked for space refinement (`K = 4`, `σ = p/q`) -/
theorem slab_window_below {j lt lx p q : Nat}
    (h : ((1 : Rat) / 2 ^ lx) ^ p < (4 * (1 / 2 ^ j / 2 ^ lt)) ^ q) :
    (j + lt) * q < 2 * q + lx * p := by
  have e1 : ((1 : Rat) / 2 ^ lx) ^ p = 1 / 2 ^ (lx * p) := by rw [one_div_pow, ← pow_mul]
  have e2 : ((4 : Rat) * (1 / 2 ^ j / 2 ^ lt)) ^ q = 2 ^ (2 * q) / 2 ^ ((j + lt) * q) := by
    have : (4 : Rat) * (1 / 2 ^ j / 2 ^ lt) = 2 ^ 2 / 2 ^ (j + lt) := by
      rw [pow_add]; field_simp; norm_num
    rw [this, div_pow, ← pow_mul, ← pow_mul]
  rw [e1, e2, div_lt_div_iff₀ (by positivity) (by positivity), one_mul, ← pow_add] at h
  exact (pow_lt_pow_iff_right₀ (by norm_num : (1 : Rat) < 2)).mp h

/-- above `t = 2^-j` (root length `H ≥ 1/2`), not marked for time refinement -/
theorem slab_window_above {H : Rat} (hH : 1 / 2 ≤ H) {lt lx p q : Nat}
    (h : (H / 2 ^ lt / 4) ^ q < ((1 : Rat) / 2 ^ lx) ^ p) : lx * p < (lt + 3) * q := by
  have e1 : ((1 : Rat) / 2 ^ lx) ^ p = 1 / 2 ^ (lx * p) := by rw [one_div_pow, ← pow_mul]
  have e2 : ((1 : Rat) / 2 ^ (lt + 3)) ^ q = 1 / 2 ^ ((lt + 3) * q) := by rw [one_div_pow, ← pow_mul]
  have h1 : (1 : Rat) / 2 ^ (lt + 3) ≤ H / 2 ^ lt / 4 := by
    have : (1 : Rat) / 2 ^ (lt + 3) = 1 / 2 / 2 ^ lt / 4 := by
      rw [pow_add]; field_simp; norm_num
    rw [this]
    exact div_le_div_of_nonneg_right (div_le_div_of_nonneg_right hH (by positivity)) (by norm_num)
  have h2 : ((1 : Rat) / 2 ^ (lt + 3)) ^ q ≤ (H / 2 ^ lt / 4) ^ q :=
    pow_le_pow_left₀ (by positivity) h1 q
  have h3 := lt_of_le_of_lt h2 h
  rw [e1, e2, one_div_lt_one_div (by positivity) (by positivity)] at h3
  exact (pow_lt_pow_iff_right₀ (by norm_num : (1 : Rat) < 2)).mp h3

/-- no mesh over the cylinder `[0,1] × [0,4]` can be 1-irregular, keep the size/level relation of the two
slabs and have all leaves in the window of `σ = p/q`, `K = 4`, if `6q + p < q·j + 2` -/
theorem slab_no_window {j p q : Nat} (hj : 1 ≤ j) (hpq : 6 * q + p < q * j + 2) {m' : Mesh}
    (hinv : Inv m') (hbox : m'.xmin = 0 ∧ m'.xmax = 4 ∧ m'.tmin = 0 ∧ m'.tmax = 1)
    (hs : ∀ c ∈ m'.leaves, SlabSize (1 / 2 ^ j) c) (hw : ∀ c ∈ m'.leaves, InWindow c p q 4) :
    False := by
  obtain ⟨x0, x1, t0, t1⟩ := hbox
  have hτ0 := slab_tau_pos j
  have hτ1 := slab_tau_le_half hj
  -- the leaf above the point `(2^-j, 0)`
  obtain ⟨b, hb, hb1, hb2, hb3, hb4⟩ := hinv.tiles.cover (1 / 2 ^ j) 0
    ⟨by rw [t0]; exact hτ0.le, by rw [t1]; linarith, by rw [x0], by rw [x1]; norm_num⟩
  obtain ⟨hxb, htb⟩ := hs b hb
  have htb' : b.t0 = 1 / 2 ^ j ∧ b.t1 - b.t0 = (1 - 1 / 2 ^ j) / 2 ^ b.lt := by
    rcases htb with ⟨h1, _⟩ | ⟨h1, h2⟩
    · linarith
    · exact ⟨le_antisymm hb1 h1, h2⟩
  -- its lower neighbour
  obtain ⟨a, ha, hadj⟩ := exists_adj_bottom hinv hb (by rw [t0, htb'.1]; exact ne_of_gt hτ0)
  have hat1 : a.t1 = 1 / 2 ^ j := by rw [hadj.1, htb'.1]
  obtain ⟨hxa, hta⟩ := hs a ha
  have hpa := hinv.tiles.proper a ha
  have hta' : a.t1 - a.t0 = 1 / 2 ^ j / 2 ^ a.lt := by
    rcases hta with ⟨_, h2⟩ | ⟨h1, _⟩
    · exact h2
    · linarith [hpa.1]
  have hirr := hinv.irr b hb a ha .bottom (adjacent_iff.mpr hadj)
  have wa := ((inWindow_iff' a p q 4).mp (hw a ha)).2
  have wb := ((inWindow_iff' b p q 4).mp (hw b hb)).1
  rw [hxa, hta'] at wa
  rw [hxb, htb'.2] at wb
  have A := slab_window_below wa
  have B := slab_window_above (by linarith) wb
  have c1 : a.lx * p ≤ (b.lx + 1) * p := Nat.mul_le_mul_right p hirr.2.2.2
  have c2 : (b.lt + 3) * q ≤ (a.lt + 4) * q := Nat.mul_le_mul_right q (by omega)
  simp only [Nat.add_mul] at A B c1 c2
  rw [Nat.mul_comm q j] at hpq
  omega

end Stbem.Mesh
