import Stbem.Gen.ProblemsQ
import Mathlib.Data.List.ProdSigma
import Mathlib.Tactic.Common

/-!
# The generated dispatch table `helper` of `problem_helper` (proofs for `Props/C03Problems.lean`)

`helper` fails on names outside the two asserted lists, so every statement about a returned dictionary reduces to the
sixteen admissible pairs, which the kernel evaluates.
-/
namespace Stbem.Problems.Q

theorem helper_rejects' (p d : String) (h : p ∉ problemNames ∨ d ∉ domainNames) : ∃ e, helper p d = .error e := by
  unfold helper
  by_cases hp : p ∈ problemNames
  · have hd : d ∉ domainNames := h.resolve_left (not_not.mpr hp)
    rw [if_neg (not_not.mpr hp), if_pos hd]; exact ⟨_, rfl⟩
  · rw [if_pos hp]; exact ⟨_, rfl⟩

theorem admissible_of_ok {p d : String} {r : List (String × String)} (h : helper p d = .ok r) :
    (p, d) ∈ problemNames.product domainNames := by
  by_contra hn
  have : p ∉ problemNames ∨ d ∉ domainNames := by
    by_contra hc
    push Not at hc
    exact hn (List.mem_product.mpr hc)
  obtain ⟨e, he⟩ := helper_rejects' p d this
  rw [he] at h
  cases h

/-- a decidable property of (names, returned dictionary) that holds on the admissible pairs holds always -/
theorem helper_ok_forall (Q : String → String → List (String × String) → Prop) [∀ p d r, Decidable (Q p d r)]
    (hall : ∀ pd ∈ problemNames.product domainNames,
      (match helper pd.1 pd.2 with
        | .ok r => decide (Q pd.1 pd.2 r)
        | .error _ => true) = true)
    (p d : String) (r : List (String × String)) (h : helper p d = .ok r) : Q p d r := by
  have h1 := hall (p, d) (admissible_of_ok h)
  simp only [h] at h1
  exact of_decide_eq_true h1

theorem helper_keys' (p d : String) (r : List (String × String)) (h : helper p d = .ok r) :
    (("u0" ∈ r.map Prod.fst) ↔ ("M0u0" ∈ r.map Prod.fst)) ∧ (("g" ∈ r.map Prod.fst) ↔ ("g-linform" ∈ r.map Prod.fst)) ∧
      (("u0" ∈ r.map Prod.fst) ∨ ("g" ∈ r.map Prod.fst)) :=
  helper_ok_forall (fun _ _ r => (("u0" ∈ r.map Prod.fst) ↔ ("M0u0" ∈ r.map Prod.fst)) ∧
    (("g" ∈ r.map Prod.fst) ↔ ("g-linform" ∈ r.map Prod.fst)) ∧ (("u0" ∈ r.map Prod.fst) ∨ ("g" ∈ r.map Prod.fst)))
    (by decide +kernel) p d r h

theorem helper_entries_translated' (p d : String) (r : List (String × String)) (h : helper p d = .ok r) :
    ∀ kn ∈ r, ∃ e ∈ table, e.1 = kn.2 ∧ e.2.1 = kn.1 :=
  helper_ok_forall (fun _ _ r => ∀ kn ∈ r, ∃ e ∈ table, e.1 = kn.2 ∧ e.2.1 = kn.1) (by decide +kernel) p d r h

def okPairs : List (String × String) :=
  [("Smooth", "UnitSquare"), ("Smooth", "PiSquare"), ("Singular", "UnitSquare"),
    ("Singular", "LShape"), ("Dirichlet", "UnitSquare"), ("Dirichlet", "PiSquare"), ("Dirichlet", "LShape"),
    ("Dirichlet", "Circle"), ("MildSingular", "UnitSquare"), ("MildSingular", "PiSquare"),
    ("MildSingular", "LShape"), ("MildSingular", "Circle")]

theorem okPairs_ok : ∀ pd ∈ okPairs,
    (match helper pd.1 pd.2 with
      | .ok _ => true
      | .error _ => false) = true := by
  decide +kernel

theorem helper_ok_iff' (p d : String) : (∃ r, helper p d = .ok r) ↔ (p, d) ∈ okPairs := by
  constructor
  · rintro ⟨r, h⟩
    exact helper_ok_forall (fun p d _ => (p, d) ∈ okPairs) (by decide +kernel) p d r h
  · intro h
    have h1 := okPairs_ok (p, d) h
    simp only at h1
    cases hh : helper p d with
    | ok r => exact ⟨r, rfl⟩
    | error e => rw [hh] at h1; cases h1

end Stbem.Problems.Q
