import Stbem.Lemmas.HalfEdgeAbs

/-!
# H-layer: the refinement theorem — `refine_axis` with its conformity closure commutes with the abstraction
-/
namespace Stbem.HalfEdge
open Stbem.Mesh (Ax Side Cell Mesh Inv Adj nbrs bisect findLeaf innerStep outerStep Res)

/-- the full invariant of the H-layer: pointer invariant, vertices are leaf corners, A-layer invariant of the
abstraction -/
structure HAll (h : HMesh) : Prop where
  hinv : HInv h
  verts : HVerts h
  inv : Inv h.abs

/-- what never changes about an existing element: `glob_idx`, levels, edges -/
def Stable (h h' : HMesh) : Prop :=
  h.elems.size ≤ h'.elems.size ∧ ∀ k < h.elems.size,
    (h'.elem k).id = (h.elem k).id ∧ (h'.elem k).lt = (h.elem k).lt ∧ (h'.elem k).lx = (h.elem k).lx ∧
    ∀ s, (h'.elem k).side s = (h.elem k).side s

theorem Stable.refl (h : HMesh) : Stable h h := ⟨le_refl _, fun _ _ => ⟨rfl, rfl, rfl, fun _ => rfl⟩⟩

theorem Stable.trans {a b c : HMesh} (h1 : Stable a b) (h2 : Stable b c) : Stable a c := by
  refine ⟨le_trans h1.1 h2.1, fun k hk => ?_⟩
  obtain ⟨a1, a2, a3, a4⟩ := h1.2 k hk
  obtain ⟨b1, b2, b3, b4⟩ := h2.2 k (lt_of_lt_of_le hk h1.1)
  exact ⟨b1.trans a1, b2.trans a2, b3.trans a3, fun s => (b4 s).trans (a4 s)⟩

theorem Stable.level {h h' : HMesh} (hs : Stable h h') {k : Nat} (hk : k < h.elems.size) (ax : Ax) :
    (h'.elem k).level ax = (h.elem k).level ax := by
  obtain ⟨-, l1, l2, -⟩ := hs.2 k hk
  cases ax <;> simp only [HElem.level, l1, l2]

theorem Stable.edgeList {h h' : HMesh} (hs : Stable h h') {k : Nat} (hk : k < h.elems.size) :
    (h'.elem k).edgeList = (h.elem k).edgeList := by
  obtain ⟨-, -, -, l⟩ := hs.2 k hk
  have a := l .bottom; have b := l .right; have c := l .top; have d := l .left
  simp only [HElem.side] at a b c d
  simp only [HElem.edgeList, a, b, c, d]

theorem Ctx.stable {h : HMesh} {el : Nat} {ax : Ax} (C : Ctx h el ax) : Stable h (res h el ax) := by
  refine ⟨by rw [res_elems_size]; omega, fun k hk => ?_⟩
  obtain ⟨a, b, c, -, -, d⟩ := C.elem_fields hk
  exact ⟨a, b, c, d⟩

/-- a leaf is determined by its cell in the abstraction -/
theorem HAll.leaf_of_cell {h : HMesh} (H : HAll h) {c : Cell} (hc : c ∈ h.abs.leaves) :
    c.id ∈ h.leaves ∧ h.cellOf c.id = c := by
  obtain ⟨l, hl, rfl⟩ := List.mem_map.mp hc
  have : (h.cellOf l).id = l := by rw [cellOf_id]; exact H.hinv.wf.elemId l (H.hinv.wf.leaf l hl)
  rw [this]
  exact ⟨hl, rfl⟩

theorem HAll.cell_id {h : HMesh} (H : HAll h) {l : Nat} (hl : l ∈ h.leaves) : (h.cellOf l).id = l := by
  rw [cellOf_id]; exact H.hinv.wf.elemId l (H.hinv.wf.leaf l hl)

/-- the children of the element `n` are the two elements created last, both leaves of equal levels -/
def KidsLast (h' : HMesh) (n : Nat) : Prop :=
  2 ≤ h'.nElems ∧ (h'.elem n).kids = some (h'.nElems - 2, h'.nElems - 1) ∧
  h'.nElems - 2 ∈ h'.leaves ∧ h'.nElems - 1 ∈ h'.leaves ∧
  ∀ a, (h'.elem (h'.nElems - 2)).level a = (h'.elem (h'.nElems - 1)).level a

/-- induction hypothesis of the simulation -/
def SimIH (fuel : Nat) (ax : Ax) : Prop :=
  ∀ (h : HMesh) (n : Nat), HAll h → n ∈ h.leaves → (h.elem n).level ax < fuel →
    ∃ h', refineAxis fuel h n ax = .ok h' ∧ HAll h' ∧ Stable h h' ∧
      Stbem.Mesh.refineAxis fuel h.abs n ax = .ok h'.abs ∧ Res ax h.abs (h.cellOf n) h'.abs ∧ KidsLast h' n

/-- the body of the inner loop of `refine_axis` in the H-layer -/
def hInner (fuel : Nat) (ax : Ax) (L : Nat) (h : HMesh) (n : Option Nat) : Except String HMesh :=
  match n with
  | none => .error "attr:None.levels"
  | some n => if (h.elem n).level ax < L then refineAxis fuel h n ax else pure h

/-- the body of the outer loop -/
def hOuter (fuel : Nat) (ax : Ax) (L : Nat) (h : HMesh) (ei : Nat) : Except String HMesh := do
  let ns ← h.neighbourElements ei
  ns.foldlM (hInner fuel ax L) h

theorem refineAxis_succ' (fuel : Nat) (h : HMesh) (el : Nat) (ax : Ax) :
    refineAxis (fuel + 1) h el ax =
      ((h.elem el).edgeList.foldlM (hOuter fuel ax ((h.elem el).level ax)) h >>= fun h' => h'.bisectElem el ax) := by
  rw [refineAxis]
  rfl

/-- a successful `refineAxis` of the A-layer was called on a leaf -/
theorem leaf_of_refineAxis_ok {fuel : Nat} {m : Mesh} {id : Nat} {ax : Ax} {m' : Mesh}
    (hr : Stbem.Mesh.refineAxis fuel m id ax = .ok m') : ∃ c ∈ m.leaves, c.id = id := by
  cases fuel with
  | zero => rw [Stbem.Mesh.refineAxis] at hr; cases hr
  | succ fuel =>
    rw [Stbem.Mesh.refineAxis_succ] at hr
    cases hf : findLeaf m id with
    | none => rw [hf] at hr; cases hr
    | some c => exact ⟨c, (Stbem.Mesh.findLeaf_some hf).1, (Stbem.Mesh.findLeaf_some hf).2⟩

theorem inner_follow {fuel : Nat} {ax : Ax} (IH : SimIH fuel ax) {c : Cell} (hcf : c.level ax < fuel + 1) :
    ∀ (l : List Nat) (φ : Nat → Cell) (hk : HMesh) (M' : Mesh), HAll hk →
      (∀ n ∈ l, n < hk.elems.size ∧ (φ n).id = n ∧ (φ n).level ax = (hk.elem n).level ax) →
      c ∈ hk.abs.leaves →
      (l.map φ).foldlM (innerStep fuel ax c) hk.abs = .ok M' →
      ∃ h', (l.map some).foldlM (hInner fuel ax (c.level ax)) hk = .ok h' ∧ HAll h' ∧ Stable hk h' ∧
        h'.abs = M' ∧ c ∈ M'.leaves := by
  intro l
  induction l with
  | nil =>
    intro φ hk M' H _ hc hM
    rw [List.map_nil, List.foldlM_nil] at hM
    cases hM
    exact ⟨hk, rfl, H, Stable.refl hk, rfl, hc⟩
  | cons n l ih =>
    intro φ hk M' H hφ hc hM
    rw [List.map_cons, List.foldlM_cons] at hM
    obtain ⟨hn1, hn2, hn3⟩ := hφ n (by simp)
    rw [List.map_cons, List.foldlM_cons]
    cases hs : innerStep fuel ax c hk.abs (φ n) with
    | error e => rw [hs] at hM; cases hM
    | ok M1 =>
      rw [hs] at hM
      simp only [bind, Except.bind] at hM
      unfold innerStep at hs
      unfold hInner
      simp only
      by_cases hlt : (φ n).level ax < c.level ax
      · rw [if_pos hlt, hn2] at hs
        obtain ⟨c'', hc'', hid⟩ := leaf_of_refineAxis_ok hs
        obtain ⟨hnl, -⟩ := H.leaf_of_cell hc''
        rw [hid] at hnl
        obtain ⟨h1, r1, H1, S1, a1, res1, -⟩ := IH hk n H hnl (by rw [← hn3]; omega)
        rw [hs] at a1
        cases a1
        rw [if_pos (by rw [← hn3]; exact hlt), r1]
        have hc1 : c ∈ h1.abs.leaves := by
          refine res1.keep c hc ?_ ?_
          · rintro rfl
            rw [cellOf_level, ← hn3] at hlt
            exact lt_irrefl _ hlt
          · rw [cellOf_level, ← hn3]; omega
        obtain ⟨h', r', H', S', a', c'⟩ := ih φ h1 M' H1 (fun n' hn' => by
          obtain ⟨b1, b2, b3⟩ := hφ n' (by simp [hn'])
          exact ⟨lt_of_lt_of_le b1 S1.1, b2, by rw [S1.level b1]; exact b3⟩) hc1 hM
        exact ⟨h', r', H', S1.trans S', a', c'⟩
      · rw [if_neg hlt] at hs
        cases hs
        rw [if_neg (by rw [← hn3]; exact hlt)]
        obtain ⟨h', r', H', S', a', c'⟩ := ih φ hk M' H (fun n' hn' => hφ n' (by simp [hn'])) hc hM
        exact ⟨h', r', H', S', a', c'⟩

theorem outer_follow {fuel : Nat} {ax : Ax} (IH : SimIH fuel ax) {c : Cell} (hcf : c.level ax < fuel + 1)
    (el : Nat) (E : HElem) :
    ∀ (ss : List Side) (hk : HMesh) (M' : Mesh), HAll hk → el ∈ hk.leaves → hk.cellOf el = c →
      (∀ s, (hk.elem el).side s = E.side s) →
      ss.foldlM (outerStep fuel ax c) hk.abs = .ok M' →
      ∃ h', (ss.map E.side).foldlM (hOuter fuel ax (c.level ax)) hk = .ok h' ∧ HAll h' ∧ Stable hk h' ∧
        h'.abs = M' ∧ el ∈ h'.leaves ∧ h'.cellOf el = c := by
  intro ss
  induction ss with
  | nil =>
    intro hk M' H hel hc _ hM
    rw [List.foldlM_nil] at hM
    cases hM
    exact ⟨hk, rfl, H, Stable.refl hk, rfl, hel, hc⟩
  | cons s ss ih =>
    intro hk M' H hel hc hE hM
    rw [List.foldlM_cons] at hM
    rw [List.map_cons, List.foldlM_cons]
    cases hs : outerStep fuel ax c hk.abs s with
    | error e => rw [hs] at hM; cases hM
    | ok M1 =>
      rw [hs] at hM
      simp only [bind, Except.bind] at hM
      obtain ⟨l, hl1, hl2, hl3⟩ := neighbourElements_cells H.hinv H.inv hel s
      rw [hE s] at hl1
      rw [hc] at hl3
      unfold outerStep at hs
      rw [← hl3] at hs
      have hcl : c ∈ hk.abs.leaves := by rw [← hc]; exact mem_abs_leaves hel
      obtain ⟨h1, r1, H1, S1, a1, c1⟩ := inner_follow IH hcf l hk.cellOf hk M1 H (fun n hn => by
        have hnl := hl2 n hn
        exact ⟨H.hinv.wf.leaf n hnl, H.cell_id hnl, cellOf_level hk n ax⟩) hcl hs
      have hcid : c.id = el := by rw [← hc]; exact H.cell_id hel
      have hel1 : el ∈ h1.leaves ∧ h1.cellOf el = c := by
        rw [← a1] at c1
        have := H1.leaf_of_cell c1
        rwa [hcid] at this
      have helt := H.hinv.wf.leaf el hel
      obtain ⟨h', r', H', S', a', e', c'⟩ := ih h1 M' H1 hel1.1 hel1.2 (fun s' => by
        rw [(S1.2 el helt).2.2.2 s']; exact hE s') (by rw [a1]; exact hM)
      refine ⟨h', ?_, H', S1.trans S', a', e', c'⟩
      unfold hOuter
      rw [hl1]
      simp only [ok_bind]
      rw [r1]
      exact r'

/-- the edges of an element in the order of `Element.edges` -/
theorem edgeList_eq (E : HElem) : E.edgeList = Side.all.map E.side := rfl

/-- THE REFINEMENT THEOREM (by induction on the fuel): on a leaf of sufficient fuel the H-layer `refine_axis`
does not raise, preserves the full invariant and commutes with the abstraction -/
theorem sim (ax : Ax) (fuel : Nat) : SimIH fuel ax := by
  induction fuel with
  | zero => intro h n _ _ hl; omega
  | succ fuel IH =>
    intro h el H hel hlv
    have hc : h.cellOf el ∈ h.abs.leaves := mem_abs_leaves hel
    have hcid := H.cell_id hel
    have hlc : (h.cellOf el).level ax < fuel + 1 := by rw [cellOf_level]; exact hlv
    -- the A-layer run
    have IHA := Stbem.Mesh.refineAxis_res ax fuel
    obtain ⟨M, hM, hinvM, hbel, hcM, hfin⟩ :=
      Stbem.Mesh.outer_loop IHA hlc Side.all [] h.abs H.inv hc (by simp)
    have hfin' : ∀ s, ∀ n ∈ M.leaves, Adj M (h.cellOf el) s n → (h.cellOf el).level ax ≤ n.level ax := by
      intro s; apply hfin s; cases s <;> simp [Side.all]
    have hA : Stbem.Mesh.refineAxis (fuel + 1) h.abs el ax = .ok (bisect M (h.cellOf el) ax) := by
      rw [Stbem.Mesh.refineAxis_succ]
      have f1 := Stbem.Mesh.findLeaf_of_mem H.inv.ids hc
      rw [hcid] at f1
      rw [f1]
      simp only
      rw [hM]
      simp only [bind, Except.bind]
      have f2 := Stbem.Mesh.findLeaf_of_mem hinvM.ids hcM
      rw [hcid] at f2
      rw [f2]
      rfl
    -- follow it in the H-layer
    obtain ⟨hk, rk, Hk, Sk, ak, elk, ck⟩ := outer_follow IH hlc el (h.elem el) Side.all h M H hel rfl
      (fun _ => rfl) hM
    have hlegal : Legal hk el ax := by
      intro s n hn ha
      rw [ak] at hn ha
      rw [ck] at ha ⊢
      exact hfin' s n hn ha
    have C : Ctx hk el ax := ⟨Hk.hinv, Hk.inv, elk, hlegal⟩
    have habs : (res hk el ax).abs = bisect M (h.cellOf el) ax := by
      rw [C.abs_res Hk.verts, ak, ck]
    refine ⟨res hk el ax, ?_, ⟨C.hinv_res, C.hverts_res Hk.verts, ?_⟩, Sk.trans C.stable, by rw [hA, habs], ?_, ?_⟩
    · rw [refineAxis_succ', edgeList_eq, ← cellOf_level h el ax, rk]
      simp only [ok_bind]
      exact C.run
    · rw [habs]
      exact Stbem.Mesh.bisect_inv' hinvM hcM ax hfin'
    · rw [habs]
      exact Stbem.Mesh.bisect_res hinvM hc hcM hbel hfin'
    · have hn : (res hk el ax).nElems = hk.elems.size + 2 := by
        rw [res_nElems, Hk.hinv.wf.count]
      have l1 := (C.level_child)
      refine ⟨by rw [hn]; omega, ?_, ?_, ?_, ?_⟩
      · rw [C.pre.res_elem_el, hn]; rfl
      · rw [hn]; exact C.mem_c1
      · rw [hn]; exact C.mem_c2
      · intro a
        rw [hn]
        show ((res hk el ax).elem hk.elems.size).level a = ((res hk el ax).elem (hk.elems.size + 1)).level a
        rw [(l1 a).1, (l1 a).2]

theorem findId_eq {h : HMesh} (hw : WF h) {id : Nat} (hid : id < h.elems.size) : h.findId id = some id := by
  unfold HMesh.findId
  rw [Array.findIdx?_eq_some_iff_getElem]
  refine ⟨hid, ?_, ?_⟩
  · have := hw.elemId id hid
    rw [elem_def, Array.getElem?_eq_getElem hid] at this
    simpa using this
  · intro j hj
    have hj' : j < h.elems.size := by omega
    have := hw.elemId j hj'
    rw [elem_def, Array.getElem?_eq_getElem hj'] at this
    simp only [Option.getD_some] at this
    simp only [this, beq_iff_eq]
    omega

/-- `refine_axis` called on the leaf with a given `glob_idx` (the driver command `hm rt/rs`): no exception, the
invariant is preserved and the abstraction of the result is the result of the A-layer `refineId` -/
theorem refineId_sim {h : HMesh} (H : HAll h) {el : Nat} (hel : el ∈ h.leaves) (ax : Ax) :
    ∃ h', refineId h el ax = .ok h' ∧ HAll h' ∧ Stbem.Mesh.refineId h.abs el ax = .ok h'.abs := by
  have helt := H.hinv.wf.leaf el hel
  obtain ⟨h', r, H', -, a, -, -⟩ := sim ax ((h.elem el).level ax + 1) h el H hel (Nat.lt_succ_self _)
  refine ⟨h', ?_, H', ?_⟩
  · unfold refineId
    rw [findId_eq H.hinv.wf helt]
    exact r
  · unfold Stbem.Mesh.refineId
    have f := Stbem.Mesh.findLeaf_of_mem H.inv.ids (mem_abs_leaves hel)
    rw [H.cell_id hel] at f
    rw [f]
    simp only
    rw [cellOf_level]
    exact a

/-- `refineId_sim` with the description of the two children -/
theorem refineId_sim' {h : HMesh} (H : HAll h) {el : Nat} (hel : el ∈ h.leaves) (ax : Ax) :
    ∃ h', refineAxis ((h.elem el).level ax + 1) h el ax = .ok h' ∧ HAll h' ∧ Stable h h' ∧
      Stbem.Mesh.refineId h.abs el ax = .ok h'.abs ∧ Res ax h.abs (h.cellOf el) h'.abs ∧ KidsLast h' el := by
  obtain ⟨h', r, H', S, a, res, k⟩ := sim ax ((h.elem el).level ax + 1) h el H hel (Nat.lt_succ_self _)
  refine ⟨h', r, H', S, ?_, res, k⟩
  unfold Stbem.Mesh.refineId
  have f := Stbem.Mesh.findLeaf_of_mem H.inv.ids (mem_abs_leaves hel)
  rw [H.cell_id hel] at f
  rw [f]
  simp only
  rw [cellOf_level]
  exact a

theorem kidsOf_ok {h : HMesh} {el a b : Nat} (hk : (h.elem el).kids = some (a, b)) : h.kidsOf el = .ok (a, b) := by
  unfold HMesh.kidsOf; rw [hk]; rfl

/-- `Mesh.refine(elem)` (time, then both children in space) commutes with the abstraction -/
theorem refineBoth_sim {h : HMesh} (H : HAll h) {el : Nat} (hel : el ∈ h.leaves) :
    ∃ r, refineBoth h el = .ok r ∧ HAll r.1 ∧ Stbem.Mesh.refineBoth h.abs el = .ok (r.1.abs, r.2) := by
  have helt := H.hinv.wf.leaf el hel
  obtain ⟨h1, r1, H1, S1, a1, res1, n1, k1, la, lb, lv⟩ := refineId_sim' H hel .time
  set a := h1.nElems - 2 with ha
  set b := h1.nElems - 1 with hb
  obtain ⟨h2, r2, H2, S2, a2, res2, n2, k2, la2, lb2, -⟩ := refineId_sim' H1 la .space
  have hab : b ≠ a := by omega
  have hb2 : b ∈ h2.leaves := by
    have : h1.cellOf b ∈ h2.abs.leaves := by
      refine res2.keep _ (mem_abs_leaves lb) ?_ ?_
      · intro e
        have e' := congrArg Cell.id e
        rw [H1.cell_id lb, H1.cell_id la] at e'
        exact hab e'
      · rw [cellOf_level, cellOf_level, lv]
    have := (H2.leaf_of_cell this).1
    rwa [H1.cell_id lb] at this
  obtain ⟨h3, r3, H3, S3, a3, res3, n3, k3, la3, lb3, -⟩ := refineId_sim' H2 hb2 .space
  have hblt := H1.hinv.wf.leaf b lb
  have e1 : (h1.elem a).lx = (h1.elem a).level .space := rfl
  have e2 : (h2.elem b).lx = (h2.elem b).level .space := rfl
  have e0 : (h.elem el).lt = (h.elem el).level .time := rfl
  have c2 : h2.nElems = h2.elems.size := H2.hinv.wf.count
  have c3 : h3.nElems = h3.elems.size := H3.hinv.wf.count
  have ids : ∀ k, k < h3.elems.size → (h3.elem k).id = k := fun k hk => H3.hinv.wf.elemId k hk
  refine ⟨(h3, [h2.nElems - 2, h2.nElems - 1, h3.nElems - 2, h3.nElems - 1]), ?_, H3, ?_⟩
  · unfold refineBoth
    rw [findId_eq H.hinv.wf helt]
    simp only
    rw [e0, r1]
    simp only [ok_bind]
    rw [kidsOf_ok k1]
    simp only [ok_bind]
    rw [e1, r2]
    simp only [ok_bind]
    rw [kidsOf_ok k2]
    simp only [ok_bind]
    rw [e2, r3]
    simp only [ok_bind]
    rw [kidsOf_ok k3]
    simp only [ok_bind, pure_eq_ok, List.map_cons, List.map_nil]
    have s23 := S3.1
    rw [ids _ (by omega), ids _ (by omega), ids _ (by omega), ids _ (by omega)]
  · unfold Stbem.Mesh.refineBoth
    rw [a1]
    simp only [bind, Except.bind, Stbem.Mesh.lastChildren]
    rw [show h1.abs.nElems = h1.nElems from rfl, a2]
    simp only
    rw [show h2.abs.nElems = h2.nElems from rfl, a3]
    rfl

end Stbem.HalfEdge
