import Stbem.Lemmas.SLAlign
import Stbem.Lemmas.SLBilform
import Stbem.Lemmas.SLEval
import Mathlib.Tactic.Positivity

/-!
# Non-negativity of the quadrature path of `bilform`, of `evaluate` and of `potential` (model level)

The quadrature values of the model are finite sums `Σ wᵢ · kernel(…)`.

* `PosRule1 r` : the weights of `r` are `≥ 0` and its nodes lie in the **open** interval `(0,1)`
  (true for every Gauss / Gauss–log rule; C05 certifies the tabulated ones).  This is preserved by
  `mirror1`, `product2`, `duffy2` (the Duffy weight is `w·x`), `mirrorX2`, `mirrorY2`, hence holds
  for all five rules `ruleOf log kind` the panel recursion uses (`ruleOf_pos`).
* Every node of every panel lies in the open rectangle of the panel — hence in the open rectangle
  of the two space intervals — **and off the diagonal** (`panel_node_open_offdiag`): for the
  `duffyId` panel because the Duffy nodes `(x, x(1-y))`, `(x(1-y), x)` have `x·y > 0`; for the other
  kinds because their open rectangle misses the diagonal (`Panel.Aligned.open_misses_diag`).
  So the kernel is only ever evaluated at pairs of *distinct parameters* strictly inside the elements.
-/
namespace Stbem.Quad

/-- non-negative weights, nodes in the open unit interval -/
def PosRule1 (r : Rule1) : Prop := ∀ n ∈ r, 0 ≤ n.w ∧ 0 < n.x ∧ n.x < 1

/-- non-negative weights, nodes in the open unit square -/
def PosRule2 (r : Rule2) : Prop := ∀ n ∈ r, 0 ≤ n.w ∧ 0 < n.x ∧ n.x < 1 ∧ 0 < n.y ∧ n.y < 1

/-- no node on the diagonal of the unit square -/
def OffDiag2 (r : Rule2) : Prop := ∀ n ∈ r, n.x ≠ n.y

theorem PosRule1.mirror {r : Rule1} (h : PosRule1 r) : PosRule1 (mirror1 r) := by
  intro n hn
  simp only [mirror1, List.mem_map] at hn
  obtain ⟨m, hm, rfl⟩ := hn
  obtain ⟨h1, h2, h3⟩ := h m hm
  refine ⟨h1, ?_, ?_⟩ <;> dsimp only <;> linarith

theorem PosRule2.mirrorX {r : Rule2} (h : PosRule2 r) : PosRule2 (mirrorX2 r) := by
  intro n hn
  simp only [mirrorX2, List.mem_map] at hn
  obtain ⟨m, hm, rfl⟩ := hn
  obtain ⟨h1, h2, h3, h4, h5⟩ := h m hm
  refine ⟨h1, ?_, ?_, h4, h5⟩ <;> dsimp only <;> linarith

theorem PosRule2.mirrorY {r : Rule2} (h : PosRule2 r) : PosRule2 (mirrorY2 r) := by
  intro n hn
  simp only [mirrorY2, List.mem_map] at hn
  obtain ⟨m, hm, rfl⟩ := hn
  obtain ⟨h1, h2, h3, h4, h5⟩ := h m hm
  refine ⟨h1, h2, h3, ?_, ?_⟩ <;> dsimp only <;> linarith

theorem PosRule1.product {rx ry : Rule1} (hx : PosRule1 rx) (hy : PosRule1 ry) :
    PosRule2 (product2 rx ry) := by
  intro n hn
  simp only [product2, List.mem_flatMap, List.mem_map] at hn
  obtain ⟨nx, hnx, ny, hny, rfl⟩ := hn
  obtain ⟨a1, a2, a3⟩ := hx nx hnx
  obtain ⟨b1, b2, b3⟩ := hy ny hny
  exact ⟨mul_nonneg a1 b1, a2, a3, b2, b3⟩

theorem duffy_node {x y : Rat} (hx0 : 0 < x) (hx1 : x < 1) (hy0 : 0 < y) (hy1 : y < 1) :
    0 < x * (1 - y) ∧ x * (1 - y) < 1 ∧ x ≠ x * (1 - y) := by
  have h1 : 0 < x * (1 - y) := mul_pos hx0 (by linarith)
  have h2 : 0 < x * y := mul_pos hx0 hy0
  refine ⟨h1, by nlinarith, ?_⟩
  intro h
  nlinarith

/-- `DuffyScheme2D` keeps weights non-negative (`w ↦ w·x`, resp. `2·w·x`) and nodes inside -/
theorem PosRule2.duffy {r : Rule2} (h : PosRule2 r) (sym : Bool) : PosRule2 (duffy2 r sym) := by
  intro n hn
  cases sym
  · simp only [duffy2, Bool.false_eq_true, if_false, List.mem_append, duffyHalfA, duffyHalfB,
      List.mem_map] at hn
    rcases hn with ⟨m, hm, rfl⟩ | ⟨m, hm, rfl⟩
    · obtain ⟨h1, h2, h3, h4, h5⟩ := h m hm
      obtain ⟨d1, d2, _⟩ := duffy_node h2 h3 h4 h5
      exact ⟨mul_nonneg h1 h2.le, h2, h3, d1, d2⟩
    · obtain ⟨h1, h2, h3, h4, h5⟩ := h m hm
      obtain ⟨d1, d2, _⟩ := duffy_node h2 h3 h4 h5
      exact ⟨mul_nonneg h1 h2.le, d1, d2, h2, h3⟩
  · simp only [duffy2, if_true, List.mem_map] at hn
    obtain ⟨m, hm, rfl⟩ := hn
    obtain ⟨h1, h2, h3, h4, h5⟩ := h m hm
    obtain ⟨d1, d2, _⟩ := duffy_node h2 h3 h4 h5
    exact ⟨mul_nonneg (mul_nonneg h1 h2.le) (by norm_num), h2, h3, d1, d2⟩

/-- the Duffy nodes avoid the diagonal (the image of the edge `y = 0` of the unit square) -/
theorem PosRule2.duffy_offDiag {r : Rule2} (h : PosRule2 r) (sym : Bool) : OffDiag2 (duffy2 r sym) := by
  intro n hn
  cases sym
  · simp only [duffy2, Bool.false_eq_true, if_false, List.mem_append, duffyHalfA, duffyHalfB,
      List.mem_map] at hn
    rcases hn with ⟨m, hm, rfl⟩ | ⟨m, hm, rfl⟩
    · obtain ⟨_, h2, h3, h4, h5⟩ := h m hm
      exact (duffy_node h2 h3 h4 h5).2.2
    · obtain ⟨_, h2, h3, h4, h5⟩ := h m hm
      exact (duffy_node h2 h3 h4 h5).2.2.symm
  · simp only [duffy2, if_true, List.mem_map] at hn
    obtain ⟨m, hm, rfl⟩ := hn
    obtain ⟨_, h2, h3, h4, h5⟩ := h m hm
    exact (duffy_node h2 h3 h4 h5).2.2

/-- `QuadScheme2D.integrate` of a function that is `≥ 0` at the nodes, with weights `≥ 0`, on an
ordered rectangle -/
theorem integrate2_nonneg (r : Rule2) (f : Rat → Rat → Rat) {a b c d : Rat} (hab : a ≤ b) (hcd : c ≤ d)
    (hw : ∀ n ∈ r, 0 ≤ n.w) (hf : ∀ n ∈ r, 0 ≤ f (a + (b - a) * n.x) (c + (d - c) * n.y)) :
    0 ≤ integrate2 r f a b c d := by
  unfold integrate2
  refine mul_nonneg (mul_nonneg (by linarith) (by linarith)) (sumR_nonneg _ ?_)
  intro v hv
  rw [List.mem_map] at hv
  obtain ⟨n, hn, rfl⟩ := hv
  exact mul_nonneg (hf n hn) (hw n hn)

/-- `QuadScheme1D.integrate` (the `a == b` shortcut included) -/
theorem integrate1_nonneg (r : Rule1) (f : Rat → Rat) {a b : Rat} (hab : a ≤ b)
    (hw : ∀ n ∈ r, 0 ≤ n.w) (hf : a < b → ∀ n ∈ r, 0 ≤ f (a + (b - a) * n.x)) :
    0 ≤ integrate1 r f a b := by
  unfold integrate1
  by_cases h : a = b
  · rw [if_pos h]
  · rw [if_neg h]
    have hlt : a < b := lt_of_le_of_ne hab h
    refine sumR_nonneg _ ?_
    intro v hv
    rw [List.mem_map] at hv
    obtain ⟨n, hn, rfl⟩ := hv
    exact mul_nonneg (mul_nonneg (by linarith) (hf hlt n hn)) (hw n hn)

end Stbem.Quad

namespace Stbem.SL
open Stbem.Quad Stbem.Formulas.Q

/-- all five rules of the panel recursion inherit non-negative weights and interior nodes -/
theorem ruleOf_pos {log : Rule1} (h : PosRule1 log) (k : PKind) : PosRule2 (ruleOf log k) := by
  have hp := h.product h
  cases k
  · exact hp.duffy false
  · exact (hp.duffy false).mirrorX
  · exact (hp.duffy false).mirrorY
  · exact hp.mirrorX
  · exact hp.mirrorY

theorem ruleOf_duffyId_offDiag {log : Rule1} (h : PosRule1 log) : OffDiag2 (ruleOf log .duffyId) :=
  (h.product h).duffy_offDiag false

/-- every node of every panel is strictly inside `(a,b)×(c,d)` and off the diagonal -/
theorem panel_node_open_offdiag {cfg : Cfg} {fuel : Nat} {a b c d : Rat} {ps : List Panel}
    (h : panels cfg fuel a b c d = .ok ps) {log : Rule1} (hlog : PosRule1 log)
    {p : Panel} (hp : p ∈ ps) {n : N2} (hn : n ∈ ruleOf log p.kind) :
    a < p.a + (p.b - p.a) * n.x ∧ p.a + (p.b - p.a) * n.x < b ∧
    c < p.c + (p.d - p.c) * n.y ∧ p.c + (p.d - p.c) * n.y < d ∧
    p.a + (p.b - p.a) * n.x ≠ p.c + (p.d - p.c) * n.y := by
  obtain ⟨m, _, ht⟩ := panels_tiles cfg fuel a b c d ps h
  obtain ⟨i1, i2, i3, i4, i5, i6⟩ := ht.inside p hp
  obtain ⟨_, n1, n2, n3, n4⟩ := ruleOf_pos hlog p.kind n hn
  have hx1 : p.a < p.a + (p.b - p.a) * n.x := by nlinarith
  have hx2 : p.a + (p.b - p.a) * n.x < p.b := by nlinarith
  have hy1 : p.c < p.c + (p.d - p.c) * n.y := by nlinarith
  have hy2 : p.c + (p.d - p.c) * n.y < p.d := by nlinarith
  refine ⟨by linarith, by linarith, by linarith, by linarith, ?_⟩
  by_cases hk : p.kind = .duffyId
  · have hA := ht.aligned p hp
    unfold Panel.Aligned at hA
    rw [hk] at hA hn
    simp only [] at hA
    have hne := ruleOf_duffyId_offDiag hlog n hn
    intro he
    rw [← hA.1, ← hA.2] at he
    have : (p.b - p.a) * (n.x - n.y) = 0 := by linarith
    rcases mul_eq_zero.mp this with h0 | h0
    · linarith
    · exact hne (by linarith)
  · exact (ht.aligned p hp).open_misses_diag hk hx1 hx2 hy1 hy2

/-- the panel sum of a function that is `≥ 0` at every node of every panel -/
theorem integratePanels_nonneg {log : Rule1} (hlog : PosRule1 log) (f : Rat → Rat → Rat)
    (ps : List Panel) (hin : ∀ p ∈ ps, p.a < p.b ∧ p.c < p.d)
    (hf : ∀ p ∈ ps, ∀ n ∈ ruleOf log p.kind,
      0 ≤ f (p.a + (p.b - p.a) * n.x) (p.c + (p.d - p.c) * n.y)) :
    0 ≤ integratePanels log f ps := by
  unfold integratePanels
  refine sumR_nonneg _ ?_
  intro v hv
  rw [List.mem_map] at hv
  obtain ⟨p, hp, rfl⟩ := hv
  exact integrate2_nonneg _ f (hin p hp).1.le (hin p hp).2.le
    (fun n hn => (ruleOf_pos hlog p.kind n hn).1) (hf p hp)

/-- … in particular of a function that is `≥ 0` at pairs of distinct points strictly inside the
rectangle the panels were generated for -/
theorem integratePanels_nonneg_of_open {cfg : Cfg} {fuel : Nat} {a b c d : Rat} {ps : List Panel}
    (h : panels cfg fuel a b c d = .ok ps) {log : Rule1} (hlog : PosRule1 log) (f : Rat → Rat → Rat)
    (hf : ∀ u v, a < u → u < b → c < v → v < d → u ≠ v → 0 ≤ f u v) :
    0 ≤ integratePanels log f ps := by
  obtain ⟨m, _, ht⟩ := panels_tiles cfg fuel a b c d ps h
  refine integratePanels_nonneg hlog f ps (fun p hp => ?_) (fun p hp n hn => ?_)
  · obtain ⟨_, i2, _, _, i5, _⟩ := ht.inside p hp
    exact ⟨i2, i5⟩
  · obtain ⟨h1, h2, h3, h4, h5⟩ := panel_node_open_offdiag h hlog hp hn
    exact hf _ _ h1 h2 h3 h4 h5

section
variable (cfg : Cfg) (S : Fns) (log : Rule1) (gs : List Piece)

/-- **the quadrature path of `bilform` is never negative**: for every rule with non-negative
weights and interior nodes, every `S` whose generated kernel `sl_dtk` is `≥ 0` at positive squared
distances for the two time intervals, and parametrisations that map distinct parameters strictly
inside the two elements to distinct points -/
theorem bilform_quad_nonneg' (trial test : Elem) (v : Rat) (hlog : PosRule1 log)
    (hK : ∀ r, 0 < r → 0 ≤ sl_dtk S test.t0 test.t1 trial.t0 trial.t1 r)
    (hsep : ∀ u w, test.x0 < u → u < test.x1 → trial.x0 < w → w < trial.x1 → u ≠ w →
      0 < distSq ((pieceOf gs test.piece).at u) ((pieceOf gs trial.piece).at w))
    (h : bilform cfg S log gs false trial test = .ok v) : 0 ≤ v := by
  rw [bilform_false] at h
  by_cases hc : test.t1 ≤ trial.t0
  · rw [if_pos hc, pure_ok] at h
    exact h ▸ le_rfl
  rw [if_neg hc] at h
  unfold quadPath at h
  by_cases hl : lexLe test.x0 test.x1 trial.x0 trial.x1 = true
  · rw [if_pos hl, bind_ok] at h
    obtain ⟨ps, hps, h⟩ := h
    rw [pure_ok] at h
    rw [← h]
    exact integratePanels_nonneg_of_open hps hlog _
      (fun u w h1 h2 h3 h4 h5 => hK _ (hsep u w h1 h2 h3 h4 h5))
  · rw [if_neg hl, bind_ok] at h
    obtain ⟨ps, hps, h⟩ := h
    rw [pure_ok] at h
    rw [← h]
    exact integratePanels_nonneg_of_open hps hlog _
      (fun u w h1 h2 h3 h4 h5 => hK _ (hsep w u h3 h4 h1 h2 (Ne.symm h5)))

/-- variant: a kernel that is `≥ 0` at *every* squared distance needs no separation hypothesis -/
theorem bilform_quad_nonneg_all' (trial test : Elem) (v : Rat) (hlog : PosRule1 log)
    (hK : ∀ r, 0 ≤ sl_dtk S test.t0 test.t1 trial.t0 trial.t1 r)
    (h : bilform cfg S log gs false trial test = .ok v) : 0 ≤ v := by
  rw [bilform_false] at h
  by_cases hc : test.t1 ≤ trial.t0
  · rw [if_pos hc, pure_ok] at h
    exact h ▸ le_rfl
  rw [if_neg hc] at h
  unfold quadPath at h
  by_cases hl : lexLe test.x0 test.x1 trial.x0 trial.x1 = true
  · rw [if_pos hl, bind_ok] at h
    obtain ⟨ps, hps, h⟩ := h
    rw [pure_ok] at h
    rw [← h]
    exact integratePanels_nonneg_of_open hps hlog _ (fun u w _ _ _ _ _ => hK _)
  · rw [if_neg hl, bind_ok] at h
    obtain ⟨ps, hps, h⟩ := h
    rw [pure_ok] at h
    rw [← h]
    exact integratePanels_nonneg_of_open hps hlog _ (fun u w _ _ _ _ _ => hK _)

variable (onePlus oneMinus : Rat)

/-- **`evaluate` is never negative** (both quadrature branches).  `hstrip` excludes the two
`1e-10`-thin strips next to the end points in which the parameter `xhat` is strictly inside the
element but the in-element test of the code fails (there the graded rule for the *outside* case is
used although the singularity is inside; a node could then coincide with `xhat`). -/
theorem evaluate_nonneg' (e : Elem) (t xhat : Rat) (x : Rat × Rat) (hlog : PosRule1 log)
    (hx0 : 0 ≤ e.x0) (hx : e.x0 ≤ e.x1) (h1 : 1 ≤ onePlus) (h2 : oneMinus ≤ 1)
    (hK : ∀ r, 0 < r → 0 ≤ sl_tik S t e.t0 e.t1 r)
    (hsep : ∀ y, e.x0 < y → y < e.x1 → y ≠ xhat → 0 < distSq x ((pieceOf gs e.piece).at y))
    (hstrip : e.x0 < xhat → xhat < e.x1 → e.x0 * onePlus ≤ xhat ∧ xhat ≤ e.x1 * oneMinus) :
    0 ≤ evaluate cfg onePlus oneMinus S log gs e t xhat x := by
  cases hplan : evalPlan cfg onePlus oneMinus e t xhat with
  | zero =>
    rw [evaluate_zero cfg onePlus oneMinus S log gs e t xhat x
      ((evalPlan_zero_iff cfg onePlus oneMinus e t xhat).mp hplan)]
  | inElem =>
    obtain ⟨ht, ha, hb⟩ := (evalPlan_inElem_iff cfg onePlus oneMinus e t xhat).mp hplan
    have ht' : e.t0 < t := not_le.mp ht
    have hx1 : 0 ≤ e.x1 := le_trans hx0 hx
    have ha' : e.x0 ≤ xhat := by nlinarith
    have hb' : xhat ≤ e.x1 := by nlinarith
    rw [evaluate_inElem cfg onePlus oneMinus S log gs e t xhat x hplan]
    refine add_nonneg ?_ ?_
    · refine integrate1_nonneg _ _ ha' (fun n hn => (hlog.mirror n hn).1) (fun hlt n hn => ?_)
      obtain ⟨_, n1, n2⟩ := hlog.mirror n hn
      rw [evalKernel_eq_tik S t e.t0 e.t1 _ ht']
      exact hK _ (hsep _ (by nlinarith) (by nlinarith) (by intro h; nlinarith))
    · refine integrate1_nonneg _ _ hb' (fun n hn => (hlog n hn).1) (fun hlt n hn => ?_)
      obtain ⟨_, n1, n2⟩ := hlog n hn
      rw [evalKernel_eq_tik S t e.t0 e.t1 _ ht']
      exact hK _ (hsep _ (by nlinarith) (by nlinarith) (by intro h; nlinarith))
  | outside m =>
    obtain ⟨ht, hnot, _⟩ := (evalPlan_outside_iff cfg onePlus oneMinus e t xhat m).mp hplan
    have ht' : e.t0 < t := not_le.mp ht
    have hout : xhat ≤ e.x0 ∨ e.x1 ≤ xhat := by
      by_contra hcon
      obtain ⟨c1, c2⟩ := not_or.mp hcon
      exact hnot (hstrip (not_le.mp c1) (not_le.mp c2))
    have hr : PosRule1 (if m then mirror1 log else log) := by
      cases m
      · exact hlog
      · exact hlog.mirror
    rw [evaluate_outside cfg onePlus oneMinus S log gs e t xhat x m hplan]
    refine integrate1_nonneg _ _ hx (fun n hn => (hr n hn).1) (fun hlt n hn => ?_)
    obtain ⟨_, n1, n2⟩ := hr n hn
    rw [evalKernel_eq_tik S t e.t0 e.t1 _ ht']
    have y1 : e.x0 < e.x0 + (e.x1 - e.x0) * n.x := by nlinarith
    have y2 : e.x0 + (e.x1 - e.x0) * n.x < e.x1 := by nlinarith
    refine hK _ (hsep _ y1 y2 ?_)
    rcases hout with ho | ho
    · exact ne_of_gt (lt_of_le_of_lt ho y1)
    · exact ne_of_lt (lt_of_lt_of_le y2 ho)

/-- **`potential` is never negative** for a point off the (open) element -/
theorem potential_nonneg' (gauss : Rule1) (e : Elem) (t : Rat) (x : Rat × Rat) (hg : PosRule1 gauss)
    (hx : e.x0 ≤ e.x1) (hK : ∀ r, 0 < r → 0 ≤ sl_tik S t e.t0 e.t1 r)
    (hsep : ∀ y, e.x0 < y → y < e.x1 → 0 < distSq x ((pieceOf gs e.piece).at y)) :
    0 ≤ potential S gauss gs e t x := by
  unfold potential
  by_cases ht : t ≤ e.t0
  · rw [if_pos ht]
  · rw [if_neg ht]
    refine integrate1_nonneg _ _ hx (fun n hn => (hg n hn).1) (fun hlt n hn => ?_)
    obtain ⟨_, n1, n2⟩ := hg n hn
    exact hK _ (hsep _ (by nlinarith) (by nlinarith))

end

end Stbem.SL
