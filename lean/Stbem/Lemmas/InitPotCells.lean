import Stbem.Lemmas.InitPotModel

/-!
# Every cell of the boundary-matched domain mesh contributes the exact integral (polynomial integrands)

Geometry of the three branches of the loop of `linform`: whichever branch is taken, `γ_Q` is an axis-parallel affine
bijection of the unit square onto the cell starting in one of its corners (`AxisParam`), `γ_K` an affine bijection
of `[0,1]` onto the segment in one of its two directions (`SegParam`); the Jacobian handed to the rule is
(cell area) × (segment length).  With a rule that is exact on the pulled-back polynomial the contribution is the
box integral `cellInt`.
-/
namespace Stbem.InitPot
open Stbem.Quadtree Stbem.Quad

/-- the exact integral of the polynomial over (cell) × (running coordinate of the segment in `[t0, t1]`) -/
def cellInt (ts : List Term) (t0 t1 : Rat) (e : Elem) : Rat :=
  boxInt ts e.x0 (e.x0 + e.size) e.y0 (e.y0 + e.size) t0 t1

theorem cellInt_quadAdd (ts : List Term) (t0 t1 : Rat) : QuadAdd (cellInt ts t0 t1) := by
  intro e n
  unfold cellInt boxInt children
  simp only [List.map_cons, List.map_nil, sumR_cons, sumR_nil, add_zero]
  rw [← sumR_map_add, ← sumR_map_add, ← sumR_map_add]
  apply sumR_map_congr
  intro t _
  unfold Term.boxInt
  rw [I1_split e.x0 (e.x0 + e.size / 2) (e.x0 + e.size) t.i, I1_split e.y0 (e.y0 + e.size / 2) (e.y0 + e.size) t.j]
  have hx : e.x0 + e.size / 2 + e.size / 2 = e.x0 + e.size := by ring
  have hy : e.y0 + e.size / 2 + e.size / 2 = e.y0 + e.size := by ring
  rw [hx, hy]
  ring

/-! ## corners and `connected_to_vertex` -/

theorem mem_corners {e : Elem} {v : Pt} : v ∈ corners e ↔ Corner e v := by
  obtain ⟨vx, vy⟩ := v
  simp only [corners, Corner, List.mem_cons, Prod.mk.injEq, List.not_mem_nil, or_false]
  tauto

/-- the two vertices connected to a corner `(cx, cy)`: `(ox, cy)` and `(cx, oy)` (`ox`, `oy` the other ends of the
two ranges), in the order of `elem.vertices` -/
theorem connected_corner {e : Elem} (hp : 0 < e.size) {v : Pt} (hv : Corner e v) :
    ∃ cx ox cy oy, v = (cx, cy) ∧ Span e.x0 (e.x0 + e.size) cx ox ∧ Span e.y0 (e.y0 + e.size) cy oy ∧
      (connected e v = .ok [(ox, cy), (cx, oy)] ∨ connected e v = .ok [(cx, oy), (ox, cy)]) := by
  obtain ⟨vx, vy⟩ := v
  have hne : e.size ≠ 0 := ne_of_gt hp
  obtain ⟨h1, h2⟩ := hv
  simp only at h1 h2
  rcases h1 with rfl | rfl <;> rcases h2 with rfl | rfl
  · refine ⟨e.x0, e.x0 + e.size, e.y0, e.y0 + e.size, rfl, Or.inl ⟨rfl, rfl⟩, Or.inl ⟨rfl, rfl⟩, Or.inl ?_⟩
    simp [connected, corners, hne]; rfl
  · refine ⟨e.x0, e.x0 + e.size, e.y0 + e.size, e.y0, rfl, Or.inl ⟨rfl, rfl⟩, Or.inr ⟨rfl, rfl⟩, Or.inr ?_⟩
    simp [connected, corners, hne]; rfl
  · refine ⟨e.x0 + e.size, e.x0, e.y0, e.y0 + e.size, rfl, Or.inr ⟨rfl, rfl⟩, Or.inl ⟨rfl, rfl⟩, Or.inl ?_⟩
    simp [connected, corners, hne]; rfl
  · refine ⟨e.x0 + e.size, e.x0, e.y0 + e.size, e.y0, rfl, Or.inr ⟨rfl, rfl⟩, Or.inr ⟨rfl, rfl⟩, Or.inr ?_⟩
    simp [connected, corners, hne]; rfl

theorem Span.ne {lo hi c o : Rat} (h : Span lo hi c o) (hlt : lo < hi) : c ≠ o := by
  rcases h with ⟨rfl, rfl⟩ | ⟨rfl, rfl⟩
  · exact ne_of_lt hlt
  · exact ne_of_gt hlt

theorem Span.sq {lo hi c o : Rat} (h : Span lo hi c o) : (o - c) ^ 2 = (hi - lo) ^ 2 := by
  rcases h with ⟨rfl, rfl⟩ | ⟨rfl, rfl⟩ <;> ring

theorem Span.mem {lo hi c o : Rat} (h : Span lo hi c o) : (c = lo ∨ c = hi) ∧ (o = lo ∨ o = hi) := by
  rcases h with ⟨rfl, rfl⟩ | ⟨rfl, rfl⟩ <;> simp

/-! ## the two kinds of parametrisation -/

/-- `g` maps the unit square affinely onto the cell, starting in a corner, along the two edges (either order) -/
def AxisParam (e : Elem) (g : Rat → Rat → Pt) : Prop :=
  ∃ cx ox cy oy, Span e.x0 (e.x0 + e.size) cx ox ∧ Span e.y0 (e.y0 + e.size) cy oy ∧
    ((∀ x z, g x z = (cx + (ox - cx) * x, cy + (oy - cy) * z)) ∨
     (∀ x z, g x z = (cx + (ox - cx) * z, cy + (oy - cy) * x)))

/-- `g` maps `[0,1]` affinely onto the segment `{X} × [t0,t1]` (resp. `[t0,t1] × {X}`), in either direction -/
def SegParam (axis : Bool) (X t0 t1 : Rat) (g : Rat → Pt) : Prop :=
  ∃ tq0 tq1, Span t0 t1 tq0 tq1 ∧ ∀ y, g y = pt axis X (tq0 + (tq1 - tq0) * y)

theorem aff2_axisParam {e : Elem} {cx ox cy oy : Rat} (hx : Span e.x0 (e.x0 + e.size) cx ox)
    (hy : Span e.y0 (e.y0 + e.size) cy oy) :
    AxisParam e (aff2 (cx, cy) (ox, cy) (cx, oy)) ∧ AxisParam e (aff2 (cx, cy) (cx, oy) (ox, cy)) := by
  constructor
  · refine ⟨cx, ox, cy, oy, hx, hy, Or.inl ?_⟩
    intro x z; simp only [aff2, Prod.mk.injEq]; constructor <;> ring
  · refine ⟨cx, ox, cy, oy, hx, hy, Or.inr ?_⟩
    intro x z; simp only [aff2, Prod.mk.injEq]; constructor <;> ring

theorem aff1_segParam (axis : Bool) (X t0 t1 tq0 tq1 : Rat) (h : Span t0 t1 tq0 tq1) :
    SegParam axis X t0 t1 (aff1 (pt axis X tq0) (pt axis X tq1)) := by
  refine ⟨tq0, tq1, h, ?_⟩
  intro y
  cases axis
  · simp only [aff1, pt, Bool.false_eq_true, if_false, Prod.mk.injEq, and_true]
    ring
  · simp only [aff1, pt, if_true, Prod.mk.injEq, true_and]
    ring

/-! ## the hypotheses on the numerics -/

/-- the integrand `u0(x) · k(|x − y|²)` (with the factor `FPI_INV`) is the polynomial `ts` in the two coordinates of
`x` and the running coordinate of `y` on the boundary line; `FPI_INV = 1/(4π)` -/
structure PolyIntegrand (C : Ctx) (s : Seg) (axis : Bool) (X : Rat) (ts : List Term) : Prop where
  law : C.fns.fpiInv = 1 / (4 * C.fns.pi)
  poly : ∀ x1 x2 t, C.u0 x1 x2 * (C.fns.fpiInv * inlineKernel C.fns.e1 s.a s.b (dist2 (x1, x2) (pt axis X t))) =
    evalP ts x1 x2 t

theorem ip_tik_eq_inline (S : Stbem.Formulas.Q.Fns) (hlaw : S.fpiInv = 1 / (4 * S.pi)) (a b r : Rat) :
    Stbem.Formulas.Q.ip_tik S a b r = S.fpiInv * inlineKernel S.e1 a b r := by
  unfold Stbem.Formulas.Q.ip_tik inlineKernel
  rw [hlaw]
  split <;> rfl

/-- a touching / far cell: rule × `diam² (d − c) FPI_INV` = exact integral -/
theorem touchVal_integral {C : Ctx} {s : Seg} {axis : Bool} {X t0 t1 : Rat} {ts : List Term} {N : Nat}
    (hP : PolyIntegrand C s axis X ts) (hR : Exact3 (duffTouch C.rule) N) (hd : ∀ t ∈ ts, t.deg ≤ N)
    (hlen : s.d - s.c = t1 - t0) {e : Elem} {gQ : Rat → Rat → Pt} {gK : Rat → Pt} (hQ : AxisParam e gQ)
    (hK : SegParam axis X t0 t1 gK) : touchVal C s e gQ gK = cellInt ts t0 t1 e := by
  obtain ⟨cx, ox, cy, oy, hx, hy, hg⟩ := hQ
  obtain ⟨tq0, tq1, ht, hk⟩ := hK
  unfold touchVal cellInt
  have e1 : ∀ F : Rat → Rat → Rat → Rat,
      e.size ^ 2 * (s.d - s.c) * C.fns.fpiInv * apply3 (duffTouch C.rule) F =
      ((e.x0 + e.size - e.x0) * (e.y0 + e.size - e.y0) * (t1 - t0)) *
        apply3 (duffTouch C.rule) (fun x y z => C.fns.fpiInv * F x y z) := by
    intro F; rw [apply3_smul, hlen]; ring
  rw [e1]
  rcases hg with hg | hg
  · rw [apply3_congr (duffTouch C.rule)
      (g := fun x y z => evalP ts (cx + (ox - cx) * x) (cy + (oy - cy) * z) (tq0 + (tq1 - tq0) * y)) ?_]
    · exact cell_integral_A hR ts hd hx hy ht
    · intro x y z
      simp only [hg x z, hk y]
      rw [← hP.poly]; ring
  · rw [apply3_congr (duffTouch C.rule)
      (g := fun x y z => evalP ts (cx + (ox - cx) * z) (cy + (oy - cy) * x) (tq0 + (tq1 - tq0) * y)) ?_]
    · exact cell_integral_B hR ts hd hx hy ht
    · intro x y z
      simp only [hg x z, hk y]
      rw [← hP.poly]; ring

/-- squared distance for the identical cell: `h²((x−y)² + z²)` is what the code passes to the kernel -/
theorem dist2_identical_A (cx ox cy oy h x y z : Rat) (h1 : (ox - cx) ^ 2 = h ^ 2) (h2 : (oy - cy) ^ 2 = h ^ 2) :
    dist2 (cx + (ox - cx) * x, cy + (oy - cy) * z) (cx + (ox - cx) * y, cy) = h ^ 2 * ((x - y) ^ 2 + z ^ 2) := by
  unfold dist2
  simp only []
  linear_combination ((x - y) ^ 2) * h1 + (z ^ 2) * h2

theorem dist2_identical_B (cx ox cy oy h x y z : Rat) (h1 : (ox - cx) ^ 2 = h ^ 2) (h2 : (oy - cy) ^ 2 = h ^ 2) :
    dist2 (cx + (ox - cx) * z, cy + (oy - cy) * x) (cx, cy + (oy - cy) * y) = h ^ 2 * ((x - y) ^ 2 + z ^ 2) := by
  unfold dist2
  simp only []
  linear_combination (z ^ 2) * h1 + ((x - y) ^ 2) * h2

/-- the identical cell, horizontal segment (`axis = true`): `v0 = (cx, cy)`, `v1 = (ox, cy)`, `n2 = (cx, oy)` -/
theorem identicalVal_integral_h {C : Ctx} {s : Seg} {X t0 t1 : Rat} {ts : List Term} {N : Nat}
    (hP : PolyIntegrand C s true X ts) (hR : Exact3 (duffId C.rule) N) (hd : ∀ t ∈ ts, t.deg ≤ N)
    (hlen : s.d - s.c = t1 - t0) {e : Elem} {cx ox cy oy : Rat} (hx : Span e.x0 (e.x0 + e.size) cx ox)
    (hy : Span e.y0 (e.y0 + e.size) cy oy) (ht : Span t0 t1 cx ox) (hsz : e.size = t1 - t0) (hX : cy = X)
    (h0 : s.p0 = (cx, cy)) (h1 : s.p1 = (ox, cy)) :
    identicalVal C s (cx, oy) = cellInt ts t0 t1 e := by
  unfold identicalVal cellInt
  dsimp only
  rw [h0, h1, hlen]
  have hx2 : (ox - cx) ^ 2 = (t1 - t0) ^ 2 := by rw [hx.sq, hsz]; ring
  have hy2 : (oy - cy) ^ 2 = (t1 - t0) ^ 2 := by rw [hy.sq, hsz]; ring
  rw [apply3_congr (duffId C.rule)
    (g := fun x y z => evalP ts (cx + (ox - cx) * x) (cy + (oy - cy) * z) (cx + (ox - cx) * y)) ?_]
  · have := cell_integral_A hR ts hd hx hy ht
    rw [← this, hsz]; ring
  · intro x y z
    rw [← dist2_identical_A cx ox cy oy (t1 - t0) x y z hx2 hy2, ip_tik_eq_inline C.fns hP.law]
    have hq : (cx + (ox - cx) * y, cy) = pt true X (cx + (ox - cx) * y) := by simp [pt, hX]
    have hpp : aff2 (cx, cy) (ox, cy) (cx, oy) x z = (cx + (ox - cx) * x, cy + (oy - cy) * z) := by
      simp only [aff2, Prod.mk.injEq]; constructor <;> ring
    rw [hpp, hq, ← hP.poly]

/-- the identical cell, vertical segment (`axis = false`): `v0 = (cx, cy)`, `v1 = (cx, oy)`, `n2 = (ox, cy)` -/
theorem identicalVal_integral_v {C : Ctx} {s : Seg} {X t0 t1 : Rat} {ts : List Term} {N : Nat}
    (hP : PolyIntegrand C s false X ts) (hR : Exact3 (duffId C.rule) N) (hd : ∀ t ∈ ts, t.deg ≤ N)
    (hlen : s.d - s.c = t1 - t0) {e : Elem} {cx ox cy oy : Rat} (hx : Span e.x0 (e.x0 + e.size) cx ox)
    (hy : Span e.y0 (e.y0 + e.size) cy oy) (ht : Span t0 t1 cy oy) (hsz : e.size = t1 - t0) (hX : cx = X)
    (h0 : s.p0 = (cx, cy)) (h1 : s.p1 = (cx, oy)) :
    identicalVal C s (ox, cy) = cellInt ts t0 t1 e := by
  unfold identicalVal cellInt
  dsimp only
  rw [h0, h1, hlen]
  have hx2 : (ox - cx) ^ 2 = (t1 - t0) ^ 2 := by rw [hx.sq, hsz]; ring
  have hy2 : (oy - cy) ^ 2 = (t1 - t0) ^ 2 := by rw [hy.sq, hsz]; ring
  rw [apply3_congr (duffId C.rule)
    (g := fun x y z => evalP ts (cx + (ox - cx) * z) (cy + (oy - cy) * x) (cy + (oy - cy) * y)) ?_]
  · have := cell_integral_B hR ts hd hx hy ht
    rw [← this, hsz]; ring
  · intro x y z
    rw [← dist2_identical_B cx ox cy oy (t1 - t0) x y z hx2 hy2, ip_tik_eq_inline C.fns hP.law]
    have hq : (cx, cy + (oy - cy) * y) = pt false X (cy + (oy - cy) * y) := by simp [pt, hX]
    have hpp : aff2 (cx, cy) (cx, oy) (ox, cy) x z = (cx + (ox - cx) * z, cy + (oy - cy) * x) := by
      simp only [aff2, Prod.mk.injEq]; constructor <;> ring
    rw [hpp, hq, ← hP.poly]

/-! ## classification of the leaves against the segment -/

/-- what `refine_msh_bdr` + the two vertex look-ups establish (C16 `bdr_target`): the leaf `e` owns the segment
`{X} × [t0, t1]` on its side `sd`, no other (leaf, side) pair has an edge containing it, both end points are
vertices of the mesh -/
structure Target (m : QT) (e : Elem) (sd : Side) (X t0 t1 : Rat) (p0 p1 : Pt) : Prop where
  inv : QInv m
  leaf : e ∈ m.leaves
  line : lineC e sd = X
  lo : lo e sd = t0
  hi : hi e sd = t1
  ends : ∃ ta tb, Span t0 t1 ta tb ∧ p0 = pt sd.axis X ta ∧ p1 = pt sd.axis X tb
  v0 : ∃ i, vertexFromCoords m p0.1 p0.2 = .ok (some i)
  v1 : ∃ i, vertexFromCoords m p1.1 p1.2 = .ok (some i)
  uniq : ∀ e' ∈ m.leaves, ∀ s', Hit sd.axis X t0 t1 e' s' → e' = e ∧ s' = sd

theorem Span.symm {lo hi c o : Rat} (h : Span lo hi c o) : Span lo hi o c := by
  rcases h with ⟨rfl, rfl⟩ | ⟨rfl, rfl⟩
  · exact Or.inr ⟨rfl, rfl⟩
  · exact Or.inl ⟨rfl, rfl⟩

theorem Target.lt {m : QT} {e : Elem} {sd : Side} {X t0 t1 : Rat} {p0 p1 : Pt}
    (T : Target m e sd X t0 t1 p0 p1) : t0 < t1 ∧ e.size = t1 - t0 := by
  have hp := T.inv.size_pos T.leaf
  have := T.hi
  unfold Stbem.Quadtree.hi at this
  rw [T.lo] at this
  constructor <;> linarith

/-- two corners of a square on one axis-parallel line, at the two ends of `[t0, t1]`, span a side -/
theorem corners_hit {e : Elem} (hp : 0 < e.size) {axis : Bool} {X t0 t1 : Rat} (hlt : t0 < t1)
    (h0 : Corner e (pt axis X t0)) (h1 : Corner e (pt axis X t1)) : ∃ s', Hit axis X t0 t1 e s' := by
  cases axis
  · simp only [Corner, pt, Bool.false_eq_true, if_false] at h0 h1
    obtain ⟨hX, ha⟩ := h0
    obtain ⟨-, hb⟩ := h1
    have e0 : t0 = e.y0 := by rcases ha with h | h <;> rcases hb with h' | h' <;> first | exact h | (exfalso; linarith)
    have e1 : t1 = e.y0 + e.size := by
      rcases ha with h | h <;> rcases hb with h' | h' <;> first | exact h' | (exfalso; linarith)
    rcases hX with hX | hX
    · exact ⟨.left, rfl, hX.symm, by simp [lo, e0], le_of_lt hlt, by simp [Stbem.Quadtree.hi, lo, e1]⟩
    · exact ⟨.right, rfl, hX.symm, by simp [lo, e0], le_of_lt hlt, by simp [Stbem.Quadtree.hi, lo, e1]⟩
  · simp only [Corner, pt, if_true] at h0 h1
    obtain ⟨ha, hX⟩ := h0
    obtain ⟨hb, -⟩ := h1
    have e0 : t0 = e.x0 := by rcases ha with h | h <;> rcases hb with h' | h' <;> first | exact h | (exfalso; linarith)
    have e1 : t1 = e.x0 + e.size := by
      rcases ha with h | h <;> rcases hb with h' | h' <;> first | exact h' | (exfalso; linarith)
    rcases hX with hX | hX
    · exact ⟨.bottom, rfl, hX.symm, by simp [lo, e0], le_of_lt hlt, by simp [Stbem.Quadtree.hi, lo, e1]⟩
    · exact ⟨.top, rfl, hX.symm, by simp [lo, e0], le_of_lt hlt, by simp [Stbem.Quadtree.hi, lo, e1]⟩

theorem corner_pt_symm {e : Elem} {axis : Bool} {X t0 t1 ta tb : Rat} (h : Span t0 t1 ta tb)
    (h0 : Corner e (pt axis X ta)) (h1 : Corner e (pt axis X tb)) :
    Corner e (pt axis X t0) ∧ Corner e (pt axis X t1) := by
  rcases h with ⟨rfl, rfl⟩ | ⟨rfl, rfl⟩
  · exact ⟨h0, h1⟩
  · exact ⟨h1, h0⟩

/-- `n2, n3 = connected_to_vertex(v)`, the assertion on the common origin, the two parametrisations -/
theorem touchParams_ok {e : Elem} (hp : 0 < e.size) {v : Pt} (hv : Corner e v) (w : Pt) :
    ∃ gQ, touchParams e v w = .ok (gQ, aff1 v w) ∧ AxisParam e gQ := by
  obtain ⟨cx, ox, cy, oy, rfl, hx, hy, hc⟩ := connected_corner hp hv
  have horig : ∀ na nb : Pt, aff2 (cx, cy) na nb 0 0 = aff1 (cx, cy) w 0 := by
    intro na nb; simp [aff2, aff1]
  rcases hc with hc | hc
  · refine ⟨aff2 (cx, cy) (ox, cy) (cx, oy), ?_, (aff2_axisParam hx hy).1⟩
    unfold touchParams
    rw [hc]
    simp only [bind, Except.bind, horig, ne_eq, not_true_eq_false, if_false]
    rfl
  · refine ⟨aff2 (cx, cy) (cx, oy) (ox, cy), ?_, (aff2_axisParam hx hy).2⟩
    unfold touchParams
    rw [hc]
    simp only [bind, Except.bind, horig, ne_eq, not_true_eq_false, if_false]
    rfl

instance (e : Elem) (v : Pt) : Decidable (Corner e v) := by unfold Corner; infer_instance

theorem cellClass_cases (s : Seg) (e : Elem) :
    cellClass s e =
      if Corner e s.p0 ∧ Corner e s.p1 then .identical
      else if Corner e s.p0 then .touch0 else if Corner e s.p1 then .touch1 else .far := by
  unfold cellClass
  simp only [mem_corners]

/-- every leaf of the targeted mesh: the geometric part of the loop body succeeds, the cell counts for `id_bdr`
exactly if it is the owner of the segment, and its contribution is the exact integral over (cell) × (segment) -/
theorem cellGeom_spec {C : Ctx} {s : Seg} {m : QT} {e : Elem} {sd : Side} {X t0 t1 : Rat} {ts : List Term} {N : Nat}
    (T : Target m e sd X t0 t1 s.p0 s.p1) (hP : PolyIntegrand C s sd.axis X ts)
    (hRi : Exact3 (duffId C.rule) N) (hRt : Exact3 (duffTouch C.rule) N) (hd : ∀ t ∈ ts, t.deg ≤ N)
    (hlen : s.d - s.c = t1 - t0) {e' : Elem} (he' : e' ∈ m.leaves) :
    ∃ g, cellGeom s e' = .ok g ∧ g.isIdent = decide (e' = e) ∧ (g.val C s e').2 = cellInt ts t0 t1 e' := by
  have hp' := T.inv.size_pos he'
  obtain ⟨hlt, hsz⟩ := T.lt
  obtain ⟨ta, tb, hab, hp0, hp1⟩ := T.ends
  -- the owner has both end points as corners
  have hce : Corner e (pt sd.axis X t0) ∧ Corner e (pt sd.axis X t1) := by
    have c0 := corner_lo e sd
    have c1 := corner_hi e sd
    rw [T.line, T.lo] at c0
    rw [T.line, T.hi] at c1
    exact ⟨c0, c1⟩
  have hce' : Corner e s.p0 ∧ Corner e s.p1 := by
    rw [hp0, hp1]
    rcases hab with ⟨rfl, rfl⟩ | ⟨rfl, rfl⟩
    · exact hce
    · exact ⟨hce.2, hce.1⟩
  have hown : Corner e' s.p0 → Corner e' s.p1 → e' = e := by
    intro h0 h1
    rw [hp0] at h0
    rw [hp1] at h1
    obtain ⟨c0, c1⟩ := corner_pt_symm hab h0 h1
    obtain ⟨s', hit⟩ := corners_hit hp' hlt c0 c1
    exact (T.uniq e' he' s' hit).1
  have hK01 : SegParam sd.axis X t0 t1 (aff1 s.p0 s.p1) := by
    rw [hp0, hp1]; exact aff1_segParam _ _ _ _ _ _ hab
  have hK10 : SegParam sd.axis X t0 t1 (aff1 s.p1 s.p0) := by
    rw [hp0, hp1]; exact aff1_segParam _ _ _ _ _ _ hab.symm
  unfold cellGeom
  rw [cellClass_cases]
  by_cases h0 : Corner e' s.p0
  · by_cases h1 : Corner e' s.p1
    · -- identical
      have hee := hown h0 h1
      subst hee
      rw [if_pos ⟨h0, h1⟩]
      obtain ⟨cx, ox, cy, oy, hv, hx, hy, hc⟩ := connected_corner hp' h0
      have hxne := hx.ne (by linarith)
      have hyne := hy.ne (by linarith)
      cases hax : sd.axis with
      | true =>
        rw [hax] at hp0 hp1 hP
        simp only [pt, if_true] at hp0 hp1
        rw [hv] at hp0
        obtain ⟨ecx, ecy⟩ := Prod.mk.inj hp0
        have h1' := h1
        rw [hp1] at h1'
        have htb : tb = ox := by
          have hne : ta ≠ tb := hab.ne hlt
          obtain ⟨hm1, hm2⟩ := hx.mem
          rcases h1'.1 with h | h <;> rcases hx with ⟨rfl, rfl⟩ | ⟨rfl, rfl⟩ <;>
            first | exact h | (exfalso; exact hne (ecx ▸ h.symm))
        have hp1' : s.p1 = (ox, cy) := by rw [hp1, htb, ecy]
        have hfil : ∀ l, (l = [(ox, cy), (cx, oy)] ∨ l = [(cx, oy), (ox, cy)]) →
            l.filter (fun v => decide (v ≠ s.p1)) = [(cx, oy)] := by
          intro l hl
          rw [hp1']
          have n1 : ((cx, oy) : Pt) ≠ (ox, cy) := fun h => hxne (Prod.mk.inj h).1
          rcases hl with rfl | rfl <;> simp [n1]
        have hval := identicalVal_integral_h hP hRi hd hlen hx hy (by rw [ecx, ← htb]; exact hab) hsz ecy
          hv hp1'
        rcases hc with hc | hc
        · refine ⟨.ident (cx, oy), ?_, by simp [Geom.isIdent], hval⟩
          rw [hc]
          simp only [bind, Except.bind, hfil _ (Or.inl rfl)]
          rfl
        · refine ⟨.ident (cx, oy), ?_, by simp [Geom.isIdent], hval⟩
          rw [hc]
          simp only [bind, Except.bind, hfil _ (Or.inr rfl)]
          rfl
      | false =>
        rw [hax] at hp0 hp1 hP
        simp only [pt, Bool.false_eq_true, if_false] at hp0 hp1
        rw [hv] at hp0
        obtain ⟨ecx, ecy⟩ := Prod.mk.inj hp0
        have h1' := h1
        rw [hp1] at h1'
        have htb : tb = oy := by
          have hne : ta ≠ tb := hab.ne hlt
          rcases h1'.2 with h | h <;> rcases hy with ⟨rfl, rfl⟩ | ⟨rfl, rfl⟩ <;>
            first | exact h | (exfalso; exact hne (ecy ▸ h.symm))
        have hp1' : s.p1 = (cx, oy) := by rw [hp1, htb, ecx]
        have hfil : ∀ l, (l = [(ox, cy), (cx, oy)] ∨ l = [(cx, oy), (ox, cy)]) →
            l.filter (fun v => decide (v ≠ s.p1)) = [(ox, cy)] := by
          intro l hl
          rw [hp1']
          have n1 : ((ox, cy) : Pt) ≠ (cx, oy) := fun h => hxne (Prod.mk.inj h).1.symm
          rcases hl with rfl | rfl <;> simp [n1]
        have hval := identicalVal_integral_v hP hRi hd hlen hx hy (by rw [ecy, ← htb]; exact hab) hsz ecx
          hv hp1'
        rcases hc with hc | hc
        · refine ⟨.ident (ox, cy), ?_, by simp [Geom.isIdent], hval⟩
          rw [hc]
          simp only [bind, Except.bind, hfil _ (Or.inl rfl)]
          rfl
        · refine ⟨.ident (ox, cy), ?_, by simp [Geom.isIdent], hval⟩
          rw [hc]
          simp only [bind, Except.bind, hfil _ (Or.inr rfl)]
          rfl
    · -- touching at γ(c)
      have hne : e' ≠ e := fun h => h1 (h ▸ hce'.2)
      rw [if_neg (fun h => h1 h.2), if_pos h0]
      obtain ⟨gQ, hg, hQ⟩ := touchParams_ok hp' h0 s.p1
      refine ⟨.touch gQ (aff1 s.p0 s.p1), ?_, by simp [Geom.isIdent, hne],
        touchVal_integral hP hRt hd hlen hQ hK01⟩
      rw [hg]; rfl
  · have hne : e' ≠ e := fun h => h0 (h ▸ hce'.1)
    rw [if_neg (fun h => h0 h.1), if_neg h0]
    by_cases h1 : Corner e' s.p1
    · -- touching at γ(d)
      rw [if_pos h1]
      obtain ⟨gQ, hg, hQ⟩ := touchParams_ok hp' h1 s.p0
      refine ⟨.touch gQ (aff1 s.p1 s.p0), ?_, by simp [Geom.isIdent, hne],
        touchVal_integral hP hRt hd hlen hQ hK10⟩
      rw [hg]; rfl
    · -- far
      rw [if_neg h1]
      refine ⟨_, rfl, by simp [Geom.isIdent, hne], touchVal_integral hP hRt hd hlen ?_ hK01⟩
      exact (aff2_axisParam (Or.inl ⟨rfl, rfl⟩) (Or.inl ⟨rfl, rfl⟩)).1

end Stbem.InitPot
