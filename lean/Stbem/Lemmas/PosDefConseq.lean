import Mathlib.LinearAlgebra.Matrix.ToLinearEquiv
import Mathlib.LinearAlgebra.Matrix.NonsingularInverse
import Mathlib.LinearAlgebra.Matrix.DotProduct
import Mathlib.Analysis.Real.Sqrt
import Mathlib.Algebra.Order.BigOperators.Ring.Finset
import Mathlib.Tactic.Linarith
import Mathlib.Tactic.Positivity
import Mathlib.Tactic.FieldSimp
import Mathlib.Tactic.Ring

/-!
# Consequences of a positive definite symmetric part (pure Mathlib; no model involved)

`PosDefForm A` : `0 < xᵀ A x` for every `x ≠ 0` — for a square matrix that need not be symmetric this says exactly that
the symmetric part `(A + Aᵀ)/2` is positive definite (`posDefForm_iff_symPart`).
-/
namespace Stbem.PosDef
set_option linter.unusedSectionVars false
open Matrix

variable {ι : Type} [Fintype ι] [DecidableEq ι]
variable {K : Type} [Field K] [LinearOrder K] [IsStrictOrderedRing K]

/-- the quadratic form of `A` is positive definite -/
def PosDefForm (A : Matrix ι ι K) : Prop := ∀ x : ι → K, x ≠ 0 → 0 < x ⬝ᵥ A *ᵥ x

theorem quadForm_transpose (A : Matrix ι ι K) (x : ι → K) : x ⬝ᵥ Aᵀ *ᵥ x = x ⬝ᵥ A *ᵥ x := by
  rw [mulVec_transpose, dotProduct_comm, ← dotProduct_mulVec, dotProduct_comm]

/-- the quadratic form only sees the symmetric part -/
theorem quadForm_symPart (A : Matrix ι ι K) (x : ι → K) :
    x ⬝ᵥ ((1 / 2 : K) • (A + Aᵀ)) *ᵥ x = x ⬝ᵥ A *ᵥ x := by
  rw [smul_mulVec, dotProduct_smul, add_mulVec, dotProduct_add, quadForm_transpose, smul_eq_mul]
  ring

/-- `PosDefForm A` ⇔ the symmetric part `(A + Aᵀ)/2` is positive definite -/
theorem posDefForm_iff_symPart (A : Matrix ι ι K) :
    PosDefForm A ↔ PosDefForm ((1 / 2 : K) • (A + Aᵀ)) := by
  unfold PosDefForm
  simp only [quadForm_symPart]

/-! ## unique solvability of `A Φ = rhs` -/

theorem PosDefForm.mulVec_eq_zero {A : Matrix ι ι K} (hA : PosDefForm A) {v : ι → K} (hv : A *ᵥ v = 0) : v = 0 := by
  by_contra hne
  have := hA v hne
  rw [hv, dotProduct_zero] at this
  exact lt_irrefl _ this

/-- the determinant does not vanish -/
theorem PosDefForm.det_ne_zero {A : Matrix ι ι K} (hA : PosDefForm A) : A.det ≠ 0 := by
  intro hdet
  obtain ⟨v, hv0, hv⟩ := exists_mulVec_eq_zero_iff.mpr hdet
  exact hv0 (hA.mulVec_eq_zero hv)

theorem PosDefForm.isUnit {A : Matrix ι ι K} (hA : PosDefForm A) : IsUnit A :=
  (isUnit_iff_isUnit_det A).mpr (isUnit_iff_ne_zero.mpr hA.det_ne_zero)

/-- `A` is injective -/
theorem PosDefForm.mulVec_injective {A : Matrix ι ι K} (hA : PosDefForm A) : Function.Injective A.mulVec := by
  intro x y hxy
  have : A *ᵥ (x - y) = 0 := by rw [mulVec_sub]; exact sub_eq_zero.mpr hxy
  exact sub_eq_zero.mp (hA.mulVec_eq_zero this)

/-- **unique solvability**: for every right-hand side the linear system has exactly one solution -/
theorem PosDefForm.existsUnique_solution {A : Matrix ι ι K} (hA : PosDefForm A) (rhs : ι → K) :
    ∃! Φ : ι → K, A *ᵥ Φ = rhs := by
  have hdet : IsUnit A.det := isUnit_iff_ne_zero.mpr hA.det_ne_zero
  refine ⟨A⁻¹ *ᵥ rhs, ?_, ?_⟩
  · show A *ᵥ (A⁻¹ *ᵥ rhs) = rhs
    rw [mulVec_mulVec, mul_nonsing_inv A hdet, one_mulVec]
  · intro Ψ hΨ
    exact hA.mulVec_injective (by
      show A *ᵥ Ψ = A *ᵥ (A⁻¹ *ᵥ rhs)
      rw [hΨ, mulVec_mulVec, mul_nonsing_inv A hdet, one_mulVec])

/-! ## energy quantities -/

theorem PosDefForm.energy_nonneg {A : Matrix ι ι K} (hA : PosDefForm A) (d : ι → K) : 0 ≤ d ⬝ᵥ A *ᵥ d := by
  by_cases hd : d = 0
  · subst hd; simp
  · exact (hA d hd).le

theorem PosDefForm.energy_eq_zero_iff {A : Matrix ι ι K} (hA : PosDefForm A) (d : ι → K) :
    d ⬝ᵥ A *ᵥ d = 0 ↔ d = 0 := by
  constructor
  · intro h
    by_contra hd
    exact (hA d hd).ne' h
  · rintro rfl; simp

/-- the diagonal entries are positive -/
theorem PosDefForm.diag_pos {A : Matrix ι ι K} (hA : PosDefForm A) (i : ι) : 0 < A i i := by
  have h := hA (Pi.single i 1) (by
    intro h0
    have := congrFun h0 i
    simp at this)
  rw [mulVec_single_one, single_dotProduct, one_mul] at h
  exact h

/-! ## principal sub-matrices (the 4 × 4 child blocks of the hierarchical estimator) -/

theorem quadForm_submatrix {κ : Type} [Fintype κ] [DecidableEq κ] (A : Matrix ι ι K) (e : κ → ι)
    (he : Function.Injective e) (x : κ → K) :
    x ⬝ᵥ (A.submatrix e e) *ᵥ x = (Function.extend e x 0) ⬝ᵥ A *ᵥ (Function.extend e x 0) := by
  have hext : ∀ k, Function.extend e x 0 (e k) = x k := fun k => he.extend_apply x 0 k
  have hout : ∀ i, i ∉ Set.range e → Function.extend e x 0 i = 0 := by
    intro i hi
    rw [Function.extend_apply' _ _ _ (by simpa using hi)]; rfl
  have hmv : ∀ k, ((A.submatrix e e) *ᵥ x) k = (A *ᵥ Function.extend e x 0) (e k) := by
    intro k
    simp only [mulVec, dotProduct, submatrix_apply]
    apply Fintype.sum_of_injective e he
    · intro i hi; rw [hout i hi, mul_zero]
    · intro k'; rw [hext]
  simp only [dotProduct]
  apply Fintype.sum_of_injective e he
  · intro i hi; rw [hout i hi, zero_mul]
  · intro k; rw [hext, hmv]

/-- every principal sub-matrix of a matrix with positive definite form has a positive definite form -/
theorem PosDefForm.submatrix {κ : Type} [Fintype κ] [DecidableEq κ] {A : Matrix ι ι K} (hA : PosDefForm A)
    (e : κ → ι) (he : Function.Injective e) : PosDefForm (A.submatrix e e) := by
  intro x hx
  rw [quadForm_submatrix A e he x]
  apply hA
  intro h0
  apply hx
  funext k
  have := congrFun h0 (e k)
  rwa [he.extend_apply] at this

/-! ## from the scaled bound to positive definiteness -/

/-- If `μ Σ aᵢᵢ xᵢ² < xᵀ A x` for all `x ≠ 0` with `0 ≤ μ < 1`, then the diagonal is positive and the form is positive
    definite. -/
theorem posDefForm_of_scaled_bound {A : Matrix ι ι K} {μ : K} (hμ0 : 0 ≤ μ) (hμ1 : μ < 1)
    (h : ∀ x : ι → K, x ≠ 0 → μ * ∑ i, A i i * x i * x i < x ⬝ᵥ A *ᵥ x) :
    (∀ i, 0 < A i i) ∧ PosDefForm A := by
  have hdiag : ∀ i, 0 < A i i := by
    intro i
    have hne : (Pi.single i 1 : ι → K) ≠ 0 := by
      intro h0
      have := congrFun h0 i
      simp at this
    have h1 := h (Pi.single i 1) hne
    rw [mulVec_single_one, single_dotProduct, one_mul] at h1
    have hsum : ∑ j, A j j * (Pi.single i 1 : ι → K) j * (Pi.single i 1 : ι → K) j = A i i := by
      rw [Finset.sum_eq_single i]
      · simp
      · intro j _ hj; simp [hj]
      · intro hi; exact absurd (Finset.mem_univ i) hi
    rw [hsum] at h1
    simp only [col_apply] at h1
    nlinarith
  refine ⟨hdiag, ?_⟩
  intro x hx
  have h1 := h x hx
  have hsum : 0 ≤ ∑ i, A i i * x i * x i := by
    apply Finset.sum_nonneg
    intro i _
    have := hdiag i
    have h2 : 0 ≤ x i * x i := mul_self_nonneg _
    rw [mul_assoc]; positivity
  have : 0 ≤ μ * ∑ i, A i i * x i * x i := mul_nonneg hμ0 hsum
  linarith

/-! ## real matrices: square roots, Rayleigh quotient of the diagonally scaled matrix, eigenvalues -/

/-- h-h/2 estimator `sqrt(dᵀ A d)`: the radicand is non-negative (the square of the root gives it back) and the value is
    positive unless `d = 0` -/
theorem PosDefForm.sqrt_energy {A : Matrix ι ι ℝ} (hA : PosDefForm A) (d : ι → ℝ) :
    Real.sqrt (d ⬝ᵥ A *ᵥ d) ^ 2 = d ⬝ᵥ A *ᵥ d ∧ (0 < Real.sqrt (d ⬝ᵥ A *ᵥ d) ↔ d ≠ 0) := by
  refine ⟨Real.sq_sqrt (hA.energy_nonneg d), ?_⟩
  rw [Real.sqrt_pos]
  constructor
  · intro h hd; subst hd; simp at h
  · exact hA d

theorem dotProduct_self_pos {y : ι → ℝ} (hy : y ≠ 0) : 0 < y ⬝ᵥ y := by
  have h0 : 0 ≤ y ⬝ᵥ y := Finset.sum_nonneg fun i _ => mul_self_nonneg (y i)
  exact lt_of_le_of_ne h0 (fun h => hy (dotProduct_self_eq_zero.mp h.symm))

/-- the diagonally scaled matrix `D^{-1/2} A D^{-1/2}` -/
noncomputable def diagScaled (A : Matrix ι ι ℝ) : Matrix ι ι ℝ :=
  Matrix.of fun i j => A i j / (Real.sqrt (A i i) * Real.sqrt (A j j))

/-- the bound `μ Σ aᵢᵢ xᵢ² < xᵀ A x` is the Rayleigh-quotient bound `μ yᵀy < yᵀ (D^{-1/2} A D^{-1/2}) y` -/
theorem rayleigh_of_scaled_bound {A : Matrix ι ι ℝ} {μ : ℝ} (hd : ∀ i, 0 < A i i)
    (h : ∀ x : ι → ℝ, x ≠ 0 → μ * ∑ i, A i i * x i * x i < x ⬝ᵥ A *ᵥ x) :
    ∀ y : ι → ℝ, y ≠ 0 → μ * (y ⬝ᵥ y) < y ⬝ᵥ (diagScaled A) *ᵥ y := by
  intro y hy
  have hs : ∀ i, Real.sqrt (A i i) ≠ 0 := fun i => (Real.sqrt_pos.mpr (hd i)).ne'
  have hss : ∀ i, Real.sqrt (A i i) * Real.sqrt (A i i) = A i i := fun i => Real.mul_self_sqrt (hd i).le
  let x : ι → ℝ := fun i => y i / Real.sqrt (A i i)
  have hx : x ≠ 0 := by
    intro h0
    apply hy
    funext i
    have := congrFun h0 i
    simp only [x, Pi.zero_apply, div_eq_zero_iff] at this
    rcases this with h1 | h1
    · exact h1
    · exact absurd h1 (hs i)
  have h1 := h x hx
  have e1 : ∑ i, A i i * x i * x i = y ⬝ᵥ y := by
    simp only [dotProduct, x]
    apply Finset.sum_congr rfl
    intro i _
    have h2 := hss i
    have h3 : A i i * (y i / Real.sqrt (A i i)) * (y i / Real.sqrt (A i i)) =
        A i i / (Real.sqrt (A i i) * Real.sqrt (A i i)) * (y i * y i) := by ring
    rw [h3, h2, div_self (hd i).ne', one_mul]
  have e2 : x ⬝ᵥ A *ᵥ x = y ⬝ᵥ (diagScaled A) *ᵥ y := by
    simp only [dotProduct, mulVec, diagScaled, of_apply, x]
    apply Finset.sum_congr rfl
    intro i _
    rw [Finset.mul_sum, Finset.mul_sum]
    apply Finset.sum_congr rfl
    intro j _
    have := hs i
    have := hs j
    field_simp
  rw [e1, e2] at h1
  exact h1

/-- every eigenvalue of the symmetric part of the diagonally scaled matrix exceeds `μ` -/
theorem eigenvalue_gt_of_rayleigh {B : Matrix ι ι ℝ} {μ : ℝ}
    (h : ∀ y : ι → ℝ, y ≠ 0 → μ * (y ⬝ᵥ y) < y ⬝ᵥ B *ᵥ y)
    (lam : ℝ) (y : ι → ℝ) (hy : y ≠ 0) (heig : ((1 / 2 : ℝ) • (B + Bᵀ)) *ᵥ y = lam • y) : μ < lam := by
  have h1 := h y hy
  rw [← quadForm_symPart B y, heig, dotProduct_smul, smul_eq_mul] at h1
  have hpos := dotProduct_self_pos hy
  by_contra hle
  have hle' : lam ≤ μ := not_lt.mp hle
  nlinarith

end Stbem.PosDef
