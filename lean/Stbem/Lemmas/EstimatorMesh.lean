import Stbem.Lemmas.EstimatorDirect
import Stbem.Lemmas.EstimatorPatch

/-!
# Patch tokens as pair functionals; every pair met on a mesh with the invariant has a patch
-/
namespace Stbem.Estimator
open Stbem.Mesh

/-- the pair functionals induced by patch tokens -/
def pairT (tokT : TimePatch → Rat) (a b : Cell) : Rat :=
  match timePatch a b with
  | .ok p => tokT p
  | .error _ => 0

def pairS (L : Rat) (tokS : SpacePatch → Rat) (a b : Cell) : Rat :=
  match spacePatch L a b with
  | .ok p => tokS p
  | .error _ => 0

theorem evTime_ok (tokT : TimePatch → Rat) {a b : Cell} {p : TimePatch} (h : timePatch a b = .ok p) :
    evTime (fun p => .ok (tokT p)) a b = .ok (pairT tokT a b) := by
  unfold evTime pairT
  rw [h]; rfl

theorem evSpace_ok (L : Rat) (tokS : SpacePatch → Rat) {a b : Cell} {p : SpacePatch}
    (h : spacePatch L a b = .ok p) : evSpace L (fun p => .ok (tokS p)) a b = .ok (pairS L tokS a b) := by
  unfold evSpace pairS
  rw [h]; rfl

theorem ovX_self {c : Cell} (h : c.x0 < c.x1) : OvX c c := ⟨h, h, h, h⟩

/-- every pair that `sobolev_space` meets on a mesh with the invariant has a patch -/
theorem spacePatch_defined {m : Mesh} (h : Inv m) (hg : m.glue = true) {L : Rat} (h0 : m.xmin = 0)
    (hL : m.xmax = L) {c : Cell} (hc : c ∈ m.leaves) {n : Cell} (hn : n ∈ spaceNbrs m c) :
    ∃ p, spacePatch L c n = .ok p := by
  obtain ⟨pc1, _⟩ := h.tiles.proper c hc
  have hself : ∃ p, spacePatch L c c = .ok p := by
    by_cases hw : c.x1 = L ∧ c.x0 = 0
    · exact ⟨_, spacePatch_self_full L c pc1 hw⟩
    · exact ⟨_, spacePatch_self L c pc1 hw⟩
  by_cases hne : n = c
  · rw [hne]; exact hself
  · simp only [spaceNbrs, List.mem_cons, List.mem_append] at hn
    rcases hn with e | hn
    · exact absurd e hne
    · have hnl : n ∈ m.leaves := by
        rcases hn with hn | hn <;> exact (mem_nbrs.mp hn).1
      have hadj : Adj m c .right n ∨ Adj m c .left n := by
        rcases hn with hn | hn
        · exact Or.inl (mem_nbrs.mp hn).2
        · exact Or.inr (mem_nbrs.mp hn).2
      obtain ⟨l, r, hp, _⟩ := spacePatch_nbr h hg h0 hL hc hnl hne hadj
      exact ⟨_, hp⟩

theorem timePatch_defined {m : Mesh} (h : Inv m) {brk : Nat → Rat} (hb : PiecesOK brk m) {c : Cell}
    (hc : c ∈ m.leaves) {n : Cell} (hn : n ∈ timeNbrs m c) : ∃ p, timePatch c n = .ok p := by
  obtain ⟨_, pc2⟩ := h.tiles.proper c hc
  simp only [timeNbrs, List.mem_cons, List.mem_append] at hn
  rcases hn with e | hn
  · rw [e]; exact ⟨_, timePatch_of (ovX_self pc2) rfl⟩
  · have hnl : n ∈ m.leaves := by
      rcases hn with hn | hn <;> exact (mem_nbrs.mp hn).1
    have hov : OvX c n := by
      rcases hn with hn | hn
      · exact (mem_nbrs.mp hn).2.2
      · exact (mem_nbrs.mp hn).2.2
    exact ⟨_, timePatch_of hov (hb.same hc hnl hov)⟩

end Stbem.Estimator
